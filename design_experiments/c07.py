import sys, numpy as np
sys.path.insert(0,'/repo')
import warnings; warnings.filterwarnings('ignore')
from onsager import crystal, OnsagerCalc
crys = crystal.Crystal(np.eye(2), [np.zeros(2), np.array([.5,0.]), np.array([0.,.5])])
sl = crys.sitelist(0); jn = crys.jumpnetwork(0, 0.75)
print('sitelist', sl, 'njump classes', len(jn))
d1 = OnsagerCalc.VacancyMediated(crys, 0, sl, jn, 1)
d2 = OnsagerCalc.VacancyMediated(crys, 0, sl, jn, 2)
rng = np.random.default_rng(3)
for eneS in ([0.,0.], [0.,0.4]):
    tagd = {}
    eneV = [0., 0.3]
    for i,t in enumerate(d1.tags['vacancy']): tagd[t[0]] = (1., eneV[i])
    for i,t in enumerate(d1.tags['solute']): tagd[t[0]] = (1., eneS[i])
    r = np.random.default_rng(5)
    for t in d1.tags['solute-vacancy']: tagd[t[0]] = (1., r.uniform(-.3,.3))
    for t in d1.tags['omega0']: tagd[t[0]] = (1., r.uniform(.5,1.))
    th1 = d1.tags2preene(tagd)
    # omega1/omega2 from LIMB of d1 + random; supply through tags
    for k,t in enumerate(d1.tags['omega1']): tagd[t[0]] = (1., th1['eneT1'][k] + r.uniform(-.2,.2))
    for k,t in enumerate(d1.tags['omega2']): tagd[t[0]] = (1., th1['eneT2'][k] + r.uniform(-.2,.2))
    L1 = d1.Lij(*d1.preene2betafree(1.0, **d1.tags2preene(tagd)))
    th2, miss, dup, bad = d2.tags2preene(tagd, VERBOSE=True)
    L2 = d2.Lij(*d2.preene2betafree(1.0, **th2))
    print('eneS', eneS, 'bad tags', len(bad), 'dups', len(dup))
    for a,b,name in zip(L1,L2,('L0vv','Lss','Lsv','L1vv')):
        print('  ',name, np.round(np.diag(a),8), np.round(np.diag(b),8), 'diff', abs(a-b).max())
