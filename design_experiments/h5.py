import sys, numpy as np, h5py, tempfile, os
sys.path.insert(0,'/repo')
import warnings; warnings.filterwarnings('ignore')
from onsager import crystal, OnsagerCalc
crys = crystal.Crystal(np.eye(2), [np.zeros(2), np.array([.5,0.]), np.array([0.,.5])])
sl = crys.sitelist(0); jn = crys.jumpnetwork(0, 0.75)
d = OnsagerCalc.VacancyMediated(crys, 0, sl, jn, 1)
fn = tempfile.mktemp(suffix='.h5')
try:
    with h5py.File(fn,'w') as f: d.addhdf5(f.create_group('D'))
    with h5py.File(fn,'r') as f: e = OnsagerCalc.VacancyMediated.loadhdf5(f['D'])
    print('2D multi-Wyckoff save/load ok')
    print('missing attrs:', sorted(set(vars(d)) - set(vars(e))))
    th = d.tags2preene({}); a = d.preene2betafree(1., **th)
    print([abs(x-y).max() for x,y in zip(d.Lij(*a), e.Lij(*a))])
    print('tags equal', d.tags == e.tags)
except Exception as ex:
    import traceback; traceback.print_exc()
finally:
    if os.path.exists(fn): os.remove(fn)
