import sys, numpy as np, itertools
sys.path.insert(0,'/repo')
import warnings; warnings.filterwarnings('ignore')
from onsager import crystal, OnsagerCalc
from onsager.crystalStars import PairState

def torus_L(diff, bFV, bFS, bFSV, bFT0, bFT1, bFT2, M, solute=True):
    crys, chem = diff.crys, diff.chem
    dim = crys.dim
    N = diff.N
    basis = crys.basis[chem]
    invmap = diff.invmap
    kin, thermo = diff.kinetic, diff.thermo
    # probabilities
    pV = np.array([np.exp(min(bFV)-bFV[invmap[i]]) for i in range(N)]); pV *= N/pV.sum()
    pS = np.array([np.exp(min(bFS)-bFS[invmap[i]]) for i in range(N)]); pS *= N/pS.sum()
    cells = list(itertools.product(range(M), repeat=dim))
    def center(R):
        R = np.array(R) % M
        return np.where(R > M//2, R-M, R)
    states = []
    index = {}
    for s in range(N):
        for v in range(N):
            for R in cells:
                if solute and v == s and all(r == 0 for r in R): continue
                index[(s,v,R)] = len(states); states.append((s,v,R))
    n = len(states)
    def PS(s,v,R):
        Rc = center(R)
        return PairState.fromcrys_latt(crys, chem, (s,v), Rc)
    # energies
    bF = np.zeros(n); w = np.zeros(n); kidx = [None]*n
    for x,(s,v,R) in enumerate(states):
        ps = PS(s,v,R)
        e = bFS[invmap[s]] + bFV[invmap[v]]
        ww = pS[s]*pV[v]
        if solute:
            ti = thermo.starindex(ps)
            if ti is not None:
                e += bFSV[ti]; ww *= np.exp(-bFSV[ti])
            kidx[x] = kin.stateindex(ps)
        bF[x] = e; w[x] = ww
    # om1/om2 class lookup
    om1 = {}
    for k, jl in enumerate(diff.om1_jn):
        for (i,f),dx in jl: om1[(i,f)] = k
    om2 = {}
    for k, jl in enumerate(diff.om2_jn):
        for (i,f),dx in jl: om2[(i,f)] = k
    # jumps
    jumps = []
    for jt, jl in enumerate(diff.om0_jn):
        for (i,j),dx in jl:
            dR = np.round(np.dot(crys.invlatt, dx) - basis[j] + basis[i]).astype(int)
            jumps.append((jt,i,j,dR,dx))
    W = np.zeros((n,n)); bias = {'s': np.zeros((n,dim)), 'v': np.zeros((n,dim))}
    D0 = {('s','s'):np.zeros((dim,dim)),('s','v'):np.zeros((dim,dim)),('v','v'):np.zeros((dim,dim))}
    for x,(s,v,R) in enumerate(states):
        for jt,i,j,dR,dx in jumps:
            if i != v: continue
            R2 = tuple((np.array(R)+dR) % M)
            if solute and j == s and all(r==0 for r in R2):
                # exchange
                y = index[(v, s, tuple((-np.array(R)) % M))]
                k = om2.get((kidx[x], kidx[y])) if kidx[x] is not None and kidx[y] is not None else None
                if k is None: raise RuntimeError('no om2 class')
                rate = np.exp(-bFT2[k] + bF[x])
                dv, ds = dx, -dx
            else:
                y = index[(s, j, R2)]
                k = None
                if solute and kidx[x] is not None and kidx[y] is not None:
                    k = om1.get((kidx[x], kidx[y]))
                if k is None:
                    rate = np.exp(-bFT0[jt] + bFV[invmap[v]])
                else:
                    rate = np.exp(-bFT1[k] + bF[x])
                dv, ds = dx, 0*dx
            W[x,y] += rate; W[x,x] -= rate
            bias['v'][x] += rate*dv; bias['s'][x] += rate*ds
            D0[('s','s')] += 0.5*w[x]*rate*np.outer(ds,ds)
            D0[('s','v')] += 0.5*w[x]*rate*np.outer(ds,dv)
            D0[('v','v')] += 0.5*w[x]*rate*np.outer(dv,dv)
    # detailed balance check
    sw = np.sqrt(w)
    Om = (sw[:,None]*W)/sw[None,:]
    asym = abs(Om-Om.T).max()
    Opinv = np.linalg.pinv(Om, rcond=1e-10, hermitian=True)
    L = {}
    for (A,B) in D0:
        BA = sw[:,None]*bias[A]; BB = sw[:,None]*bias[B]
        L[(A,B)] = (D0[(A,B)] + BA.T @ Opinv @ BB)/N
    return L, asym, n

def make(crys, chem, cutoff, Nthermo, seed, interact=True):
    rng = np.random.default_rng(seed)
    sl = crys.sitelist(chem); jn = crys.jumpnetwork(chem, cutoff)
    d = OnsagerCalc.VacancyMediated(crys, chem, sl, jn, Nthermo)
    Nw = len(sl)
    th = dict(preV=np.ones(Nw), eneV=rng.uniform(0,0.5,Nw) if Nw>1 else np.zeros(1),
              preS=np.ones(Nw), eneS=rng.uniform(0,0.5,Nw) if Nw>1 else np.zeros(1),
              preSV=np.ones(d.thermo.Nstars), eneSV=rng.uniform(-0.5,0.5,d.thermo.Nstars)*interact,
              preT0=np.ones(len(jn)), eneT0=rng.uniform(0.5,1.0,len(jn)))
    th.update(d.makeLIMBpreene(**th))
    if interact:
        th['eneT1'] = th['eneT1'] + rng.uniform(-0.3,0.3,len(th['eneT1']))
        th['eneT2'] = th['eneT2'] + rng.uniform(-0.3,0.3,len(th['eneT2']))
    return d, th

if __name__ == '__main__':
    which = sys.argv[1]
    if which == 'fcc': crys, cut = crystal.Crystal.FCC(1.), 0.8
    elif which == 'sc': crys, cut = crystal.Crystal(np.eye(3), [np.zeros(3)]), 1.01
    elif which == 'sq': crys, cut = crystal.Crystal(np.eye(2), [np.zeros(2)]), 1.01
    elif which == 'hcp': crys, cut = crystal.Crystal.HCP(1.), 1.01
    elif which == 'b2':
        crys, cut = crystal.Crystal(np.eye(3), [[np.zeros(3)],[np.array([.5,.5,.5])]]), 1.01
    elif which == 'rump':  # 2-site cell with nonzero vector basis (polar)
        crys, cut = crystal.Crystal(np.array([[1.,0,0],[0,1.,0],[0,0,1.3]]), [np.zeros(3), np.array([0.5,0.5,0.4])]), 1.05
    d, th = make(crys, 0, cut, 1, 1)
    print(which, 'N=',d.N,'kin states',d.kinetic.Nstates,'VB', len(d.OSindices))
    args = d.preene2betafree(1.0, **th)
    L0vv, Lss, Lsv, L1vv = d.Lij(*args)
    print('impl Lss', np.round(Lss,8).tolist()); print('impl Lsv', np.round(Lsv,8).tolist()); print('impl L1vv', np.round(L1vv,8).tolist()); print('impl L0vv', np.round(L0vv,8).tolist())
    for M in [int(a) for a in sys.argv[2:]]:
        L, asym, n = torus_L(d, *args, M=M)
        Lb, asymb, nb = torus_L(d, *args, M=M, solute=False)
        print('M',M,'n',n,'asym',asym)
        print('  Lss', np.round(L[('s','s')],8).tolist()); print('  Lsv', np.round(L[('s','v')],8).tolist())
        print('  L1vv', np.round(L[('v','v')]-Lb[('v','v')],8).tolist())
        print('  L0vv(bare/NV)', np.round(Lb[('v','v')]/(d.N*M**crys.dim),8).tolist())
