import sys, numpy as np, itertools
from torus import *

def torus_GF(diff, bFV, bFT0, M):
    crys, chem = diff.crys, diff.chem; dim=crys.dim; N=diff.N; basis=crys.basis[chem]; invmap=diff.invmap
    cells = list(itertools.product(range(M), repeat=dim))
    idx = {(v,R):n for n,(v,R) in enumerate((v,R) for v in range(N) for R in cells)}
    n = len(idx)
    pV = np.array([np.exp(min(bFV)-bFV[invmap[i]]) for i in range(N)]); pV *= N/pV.sum()
    W = np.zeros((n,n))
    for (v,R),x in idx.items():
        for jt, jl in enumerate(diff.om0_jn):
            for (i,j),dx in jl:
                if i != v: continue
                dR = np.round(np.dot(crys.invlatt, dx) - basis[j] + basis[i]).astype(int)
                y = idx[(j, tuple((np.array(R)+dR)%M))]
                rate = np.exp(-bFT0[jt]+bFV[invmap[v]])
                W[x,y] += rate; W[x,x] -= rate
    sw = np.sqrt(np.array([pV[v] for (v,R) in idx]))
    Om = sw[:,None]*W/sw[None,:]
    G = np.linalg.pinv(Om, rcond=1e-10, hermitian=True)
    return G, idx

which = sys.argv[1]
crys, cut = {'fcc':(crystal.Crystal.FCC(1.),0.8), 'sc':(crystal.Crystal(np.eye(3),[np.zeros(3)]),1.01),
  'sq':(crystal.Crystal(np.eye(2),[np.zeros(2)]),1.01), 'hcp':(crystal.Crystal.HCP(1.),1.01),
  'b2':(crystal.Crystal(np.eye(3),[[np.zeros(3)],[np.array([.5,.5,.5])]]),1.01),
  'rump':(crystal.Crystal(np.array([[1.,0,0],[0,1.,0],[0,0,1.3]]),[np.zeros(3),np.array([0.5,0.5,0.4])]),1.1),
  're3':(crystal.Crystal(np.eye(3),[np.zeros(3),np.array([.5,0,0]),np.array([0,.5,0]),np.array([0,0,.5])]),0.75),
  'hex2':(crystal.Crystal(np.array([[1.,0.],[-0.5,np.sqrt(0.75)]]).T,[np.array([1/3,2/3]),np.array([2/3,1/3])]),0.6)}[which]
import os
d, th = make(crys, 0, cut, 1, int(os.environ.get('SEED','1')), interact=(os.environ.get('INTER','1')=='1'))
if os.environ.get('ZS','0')=='1': th['eneS'][:]=0; 
if os.environ.get('ZV','0')=='1': th['eneV'][:]=0
if os.environ.get('ZS','0')=='1' or os.environ.get('ZV','0')=='1':
    keep1, keep2 = th['eneT1'].copy(), th['eneT2'].copy()
    lim0 = d.makeLIMBpreene(**th)

print(which,'N',d.N,'kin',d.kinetic.Nstates,'NOS',len(d.OSindices))
args = d.preene2betafree(1.0, **th)
bFV,bFS,bFSV,bFT0,bFT1,bFT2 = args
L0vv, Lss, Lsv, L1vv = d.Lij(*args)
key = list(d.GFvalues.keys())[0]
for M in [int(a) for a in sys.argv[2:]]:
    G, idx = torus_GF(d, bFV, bFT0, M)
    zero = (0,)*crys.dim
    GF = np.array([G[idx[(PS.i,zero)], idx[(PS.j, tuple(np.array(PS.R)%M))]] for PS in [d.GFstarset.states[s[0]] for s in d.GFstarset.stars]])
    d.GFvalues[key] = GF
    I0vv, Iss, Isv, I1vv = d.Lij(*args)
    L, asym, n = torus_L(d, *args, M=M)
    Lb, asymb, nb = torus_L(d, *args, M=M, solute=False)
    # reference excluding origin states: subtract per-origin-state contribution? first just report
    T1vv = L[('v','v')]-Lb[('v','v')]
    print('M',M,'asym',asym)
    print(' dLss', abs(Iss-L[('s','s')]).max(), ' dLsv', abs(Isv-L[('s','v')]).max())
    print(' I1vv-T1vv', np.round(I1vv-T1vv,9).tolist())
    print(' L0vv', np.round(L0vv,9).tolist())
