import sys, numpy as np
sys.path.insert(0,'/repo')
import warnings; warnings.filterwarnings('ignore')
from onsager import crystal, OnsagerCalc, GFcalc
def exactD(N, jn, invmap, pre, bE, preT, bET, dim):
    rho = np.array([pre[invmap[i]]*np.exp(-bE[invmap[i]]) for i in range(N)]); rho/=rho.sum()
    W = np.zeros((N,N)); b = np.zeros((N,dim)); D0=np.zeros((dim,dim))
    for jl,pT,bT in zip(jn,preT,bET):
        for (i,j),dx in jl:
            r = pT*np.exp(bE[invmap[i]]-bT)/pre[invmap[i]]
            W[i,j]+=r; W[i,i]-=r; b[i]+=r*dx; D0+=0.5*rho[i]*r*np.outer(dx,dx)
    # corrector: W gamma = -b  (least squares, any solution)
    gam = np.linalg.lstsq(W, -b, rcond=None)[0]
    return D0 - 0.5*((rho[:,None]*b).T@gam + gam.T@(rho[:,None]*b))
rng = np.random.default_rng(7)
cases = {
 'polar2': (np.array([[1.,0,0],[0,1.,0],[0,0,1.3]]), [[np.zeros(3)],[np.array([0.5,0.5,0.4]), np.array([0.,0.5,0.17]), np.array([0.5,0.,0.17])]], 1, 1.25),
 'hcp-oct-tet': None}
latt, basis, chem, cut = cases['polar2']
crys = crystal.Crystal(latt, basis)
sl = crys.sitelist(chem); jn = crys.jumpnetwork(chem, cut)
print('sitelist', sl, 'classes', len(jn), 'G', len(crys.G))
d = OnsagerCalc.Interstitial(crys, chem, sl, jn)
print('NV', d.NV, 'invertible', d.omega_invertible)
for t in range(3):
    pre = rng.uniform(.5,2,len(sl)); bE = rng.uniform(0,2,len(sl)); preT = rng.uniform(.5,2,len(jn)); bET = rng.uniform(2,4,len(jn))
    D = d.diffusivity(pre,bE,preT,bET)
    De = exactD(d.N, jn, d.invmap, pre,bE,preT,bET, 3)
    g = GFcalc.GFCrystalcalc(crys, chem, sl, jn, Nmax=2); g.SetRates(pre,bE,preT,bET)
    print(abs(D-De).max(), abs(g.D-De).max(), np.diag(D))
