import sys, os
from torus import *
crys, cut = crystal.Crystal(np.array([[1.,0,0],[0,1.,0],[0,0,1.3]]),[np.zeros(3),np.array([0.5,0.5,0.4])]),1.1
d, th = make(crys, 0, cut, 1, 1)
print('sitelist', d.sitelist, 'NOS', len(d.OSindices))
args = d.preene2betafree(1.0, **th)
L0vv, Lss, Lsv, L1vv = d.Lij(*args)
print('impl Lss', np.diag(Lss), 'Lsv', np.diag(Lsv), 'L1vv', np.diag(L1vv), 'L0vv', np.diag(L0vv))
for M in (5,7):
    L, asym, n = torus_L(d, *args, M=M)
    Lb, _, _ = torus_L(d, *args, M=M, solute=False)
    print(M, 'torus Lss', np.diag(L[('s','s')]), 'Lsv', np.diag(L[('s','v')]), 'L1vv+L0', np.diag(L[('v','v')]-Lb[('v','v')]+L0vv), 'L0vv torus', np.diag(Lb[('v','v')])/(d.N*M**3))
