(* Ordered commutative rings with Leibniz equality, and finite sums over lists.
   Everything in Model/Net.v is proved for an arbitrary such ring; instances
   Z (executable, fast) and Qc are provided in Base/Instances.v.             *)
From Coq Require Import List Ring Setoid Arith Lia Permutation.
Import ListNotations.

Record ordring := {
  car :> Type;
  r0 : car; r1 : car;
  radd : car -> car -> car; rmul : car -> car -> car;
  rsub : car -> car -> car; ropp : car -> car;
  rle : car -> car -> Prop;
  reqb : car -> car -> bool;
  rleb : car -> car -> bool;
  r_ring : ring_theory r0 r1 radd rmul rsub ropp (@eq car);
  rle_refl : forall a, rle a a;
  rle_trans : forall a b c, rle a b -> rle b c -> rle a c;
  rle_add : forall a b c, rle a b -> rle (radd a c) (radd b c);
  rle_mul : forall a b, rle r0 a -> rle r0 b -> rle r0 (rmul a b);
  rle_sq : forall a, rle r0 (rmul a a);
  reqb_spec : forall a b, reqb a b = true <-> a = b;
  rleb_spec : forall a b, rleb a b = true <-> rle a b;
}.

Declare Scope K_scope.
Delimit Scope K_scope with K.

Section Sums.
Variable K : ordring.
Notation "0" := (r0 K) : K_scope. Notation "1" := (r1 K) : K_scope.
Infix "+" := (radd K) : K_scope. Infix "*" := (rmul K) : K_scope.
Infix "-" := (rsub K) : K_scope. Notation "- x" := (ropp K x) : K_scope.
Infix "<=" := (rle K) : K_scope.
Local Open Scope K_scope.
Add Ring Kring : (r_ring K).

Lemma rle_add2 (a b c d : K) : a <= b -> c <= d -> a + c <= b + d.
Proof.
  intros H1 H2. apply rle_trans with (b + c).
  - apply rle_add; exact H1.
  - replace (b + c) with (c + b) by ring. replace (b + d) with (d + b) by ring.
    apply rle_add; exact H2.
Qed.

Lemma rle_sub0 (a b : K) : a <= b <-> 0 <= b - a.
Proof.
  split; intro H.
  - replace 0 with (a + (- a)) by ring. replace (b - a) with (b + (- a)) by ring.
    apply rle_add; exact H.
  - replace a with (0 + a) by ring. replace b with ((b - a) + a) by ring.
    apply rle_add; exact H.
Qed.

Lemma rle_add_nonneg (a b : K) : 0 <= b -> a <= a + b.
Proof.
  intro H. replace a with (a + 0) at 1 by ring. apply rle_add2; [apply rle_refl | exact H].
Qed.

Lemma rle_mul_mono (a b c : K) : 0 <= c -> a <= b -> c * a <= c * b.
Proof.
  intros Hc H. apply (proj2 (rle_sub0 (c * a) (c * b))).
  replace (c * b - c * a) with (c * (b - a)) by ring.
  apply rle_mul; [exact Hc | apply (proj1 (rle_sub0 a b)); exact H].
Qed.

(* ---- finite sums over lists ------------------------------------------------------ *)
Section SumOver.
Context {A : Type}.

Fixpoint sumf (f : A -> K) (l : list A) : K :=
  match l with [] => 0 | a :: l' => f a + sumf f l' end.

Lemma sumf_app f l1 l2 : sumf f (l1 ++ l2) = sumf f l1 + sumf f l2.
Proof. induction l1 as [|a l IH]; cbn [sumf app]; [ring | rewrite IH; ring]. Qed.

Lemma sumf_ext f g l : (forall a, In a l -> f a = g a) -> sumf f l = sumf g l.
Proof.
  induction l as [|a l IH]; intro H; cbn [sumf]; [reflexivity|].
  rewrite H by (left; reflexivity). rewrite IH; [reflexivity|].
  intros b Hb; apply H; right; exact Hb.
Qed.

Lemma sumf_add f g l : sumf (fun a => f a + g a) l = sumf f l + sumf g l.
Proof. induction l as [|a l IH]; cbn [sumf]; [ring | rewrite IH; ring]. Qed.

Lemma sumf_sub f g l : sumf (fun a => f a - g a) l = sumf f l - sumf g l.
Proof. induction l as [|a l IH]; cbn [sumf]; [ring | rewrite IH; ring]. Qed.

Lemma sumf_scal c f l : sumf (fun a => c * f a) l = c * sumf f l.
Proof. induction l as [|a l IH]; cbn [sumf]; [ring | rewrite IH; ring]. Qed.

Lemma sumf_zero l : sumf (fun _ : A => 0) l = 0.
Proof. induction l as [|a l IH]; cbn [sumf]; [reflexivity | rewrite IH; ring]. Qed.

Lemma sumf_nonneg f l : (forall a, In a l -> 0 <= f a) -> 0 <= sumf f l.
Proof.
  induction l as [|a l IH]; intro H; cbn [sumf]; [apply rle_refl|].
  replace 0 with (0 + 0) by ring. apply rle_add2.
  - apply H; left; reflexivity.
  - apply IH; intros b Hb; apply H; right; exact Hb.
Qed.

Lemma sumf_le f g l : (forall a, In a l -> f a <= g a) -> sumf f l <= sumf g l.
Proof.
  induction l as [|a l IH]; intro H; cbn [sumf]; [apply rle_refl|].
  apply rle_add2; [apply H; left; reflexivity | apply IH; intros b Hb; apply H; right; exact Hb].
Qed.

Lemma sumf_perm f l l' : Permutation l l' -> sumf f l = sumf f l'.
Proof.
  induction 1 as [| x l l' _ IH | x y l | l l' l'' _ IH1 _ IH2]; cbn [sumf].
  - reflexivity.
  - rewrite IH; reflexivity.
  - ring.
  - rewrite IH1; exact IH2.
Qed.
End SumOver.

Lemma sumf_map {A B} (h : A -> B) (f : B -> K) l : sumf f (map h l) = sumf (fun a => f (h a)) l.
Proof. induction l as [|a l IH]; cbn [sumf map]; [reflexivity | rewrite IH; reflexivity]. Qed.

Lemma sumf_swap {A B} (f : A -> B -> K) la lb :
  sumf (fun a => sumf (fun b => f a b) lb) la = sumf (fun b => sumf (fun a => f a b) la) lb.
Proof.
  induction la as [|a la IH]; cbn [sumf].
  - rewrite sumf_zero; reflexivity.
  - rewrite IH. rewrite <- sumf_add. reflexivity.
Qed.

(* indicator of equality on nat, as a ring element *)
Definition ind (x y : nat) : K := if Nat.eqb x y then 1 else 0.

(* sum over states 0..n-1 of phi x * [x = y] picks phi y when y < n *)
Lemma sumf_ind_pick (phi : nat -> K) (y n : nat) :
  y < n -> sumf (fun x => phi x * ind x y) (seq 0 n) = phi y.
Proof.
  intro Hy.
  assert (G : forall s m, sumf (fun x => phi x * ind x y) (seq s m)
              = if (Nat.leb s y && Nat.ltb y (s + m))%bool then phi y else 0).
  { intros s m; revert s; induction m as [|m IH]; intro s; cbn [seq sumf].
    - destruct (Nat.leb_spec s y), (Nat.ltb_spec y (s + 0)); cbn; try reflexivity; lia.
    - rewrite IH. unfold ind.
      destruct (Nat.eqb_spec s y) as [E|E].
      + subst s. destruct (Nat.leb_spec (S y) y); [lia|]. cbn [andb].
        destruct (Nat.leb_spec y y); [|lia]. destruct (Nat.ltb_spec y (y + S m)); [|lia]. cbn. ring.
      + destruct (Nat.leb_spec (S s) y), (Nat.ltb_spec y (S s + m)), (Nat.leb_spec s y),
          (Nat.ltb_spec y (s + S m)); cbn; try ring; lia. }
  rewrite G. destruct (Nat.leb_spec 0 y); [|lia]. destruct (Nat.ltb_spec y (0 + n)); [|lia]. reflexivity.
Qed.

End Sums.

Arguments sumf {K A} f l.
Arguments ind {K} x y.
