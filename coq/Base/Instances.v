(* Instances of the ordered-ring structure: Z (fast, executable) and Qc (canonical
   rationals; every IEEE double is one). *)
From Coq Require Import ZArith QArith Qcanon Ring Lia.
From Onsager Require Import Base.OrdRing.

Definition Zth : ring_theory 0%Z 1%Z Z.add Z.mul Z.sub Z.opp (@eq Z).
Proof. constructor; intros; lia. Qed.

Definition Zring : ordring.
Proof.
  refine (Build_ordring Z 0%Z 1%Z Z.add Z.mul Z.sub Z.opp Z.le Z.eqb Z.leb Zth _ _ _ _ _ _ _).
  - intros; lia.
  - intros; lia.
  - intros; lia.
  - intros; nia.
  - intros; nia.
  - intros a b; apply Z.eqb_eq.
  - intros a b; apply Z.leb_le.
Defined.

Definition Qcth : ring_theory 0%Qc 1%Qc Qcplus Qcmult Qcminus Qcopp (@eq Qc) := Qcrt.

Definition Qcleb (a b : Qc) : bool := Qle_bool a b.
Definition Qceqb (a b : Qc) : bool := Qeq_bool a b.

Lemma Qcleb_spec a b : Qcleb a b = true <-> (a <= b)%Qc.
Proof. unfold Qcleb, Qcle. apply Qle_bool_iff. Qed.

Lemma Qceqb_spec a b : Qceqb a b = true <-> a = b.
Proof.
  unfold Qceqb. split; intro H.
  - apply Qc_is_canon. apply Qeq_bool_iff. exact H.
  - subst b. apply Qeq_bool_iff. reflexivity.
Qed.

Lemma Qcmult_nonneg (a b : Qc) : (0 <= a -> 0 <= b -> 0 <= a * b)%Qc.
Proof.
  intros Ha Hb. replace 0%Qc with (0 * b)%Qc by ring. apply Qcmult_le_compat_r; assumption.
Qed.

Definition Qcring : ordring.
Proof.
  refine (Build_ordring Qc 0%Qc 1%Qc Qcplus Qcmult Qcminus Qcopp Qcle Qceqb Qcleb Qcth _ _ _ _ _ Qceqb_spec Qcleb_spec).
  - intros; apply Qcle_refl.
  - intros a b c; apply Qcle_trans.
  - intros a b c H. apply Qcplus_le_compat; [exact H | apply Qcle_refl].
  - intros a b Ha Hb. apply Qcmult_nonneg; assumption.
  - intros a. destruct (Qclt_le_dec a 0) as [H|H].
    + replace (a * a)%Qc with ((- a) * (- a))%Qc by ring.
      assert (0 <= - a)%Qc.
      { apply Qclt_le_weak in H. apply Qcopp_le_compat in H. exact H. }
      apply Qcmult_nonneg; assumption.
    + apply Qcmult_nonneg; assumption.
Defined.
