(* Identities in an arbitrary (not necessarily commutative) unital ring -- the algebra of
   square matrices of any size is an instance.  Used for the Dyson / resolvent identities behind
   the Green-function formula of the vacancy-mediated calculator (C01) and the large-omega2
   rearrangement (C08).  Ring structure and tactic: Coq's Ncring (setoid equality ==). *)
Require Import Ncring Ncring_tac Setoid Morphisms.

Section NC.
Context {R : Type} `{Rr : Ring R}.

(* Dyson equation.  G0 is the Green function of the reference rate matrix W0 (W0 G0 = 1),
   dW the change of rates, U a right inverse of 1 + G0 dW; the code forms G = U G0. *)
Theorem dyson_equation g0 dw u :
  (1 + g0 * dw) * u == 1 -> u * g0 == g0 - g0 * dw * (u * g0).
Proof.
  intro H.
  assert (E : u * g0 + g0 * dw * (u * g0) == g0).
  { transitivity (((1 + g0 * dw) * u) * g0); [non_commutative_ring | rewrite H; non_commutative_ring]. }
  transitivity ((u * g0 + g0 * dw * (u * g0)) - g0 * dw * (u * g0)); [non_commutative_ring|].
  rewrite E. non_commutative_ring.
Qed.

Theorem dyson_inverse w0 g0 dw u :
  w0 * g0 == 1 -> (1 + g0 * dw) * u == 1 -> (w0 + dw) * (u * g0) == 1.
Proof.
  intros Hw H.
  assert (E : u * g0 + g0 * dw * (u * g0) == g0).
  { transitivity (((1 + g0 * dw) * u) * g0); [non_commutative_ring | rewrite H; non_commutative_ring]. }
  transitivity (w0 * (u * g0 + g0 * dw * (u * g0)) + (1 - w0 * g0) * dw * (u * g0)); [non_commutative_ring|].
  rewrite E, Hw. non_commutative_ring.
Qed.

(* the two-step update used by Lij (first omega1, then omega2) equals the one-step update *)
Theorem dyson_two_step w0 g0 d1 d2 u1 u2 :
  w0 * g0 == 1 -> (1 + g0 * d1) * u1 == 1 -> (1 + (u1 * g0) * d2) * u2 == 1 ->
  (w0 + d1 + d2) * (u2 * (u1 * g0)) == 1.
Proof.
  intros Hw H1 H2.
  pose proof (dyson_inverse w0 g0 d1 u1 Hw H1) as G1.
  exact (dyson_inverse (w0 + d1) (u1 * g0) d2 u2 G1 H2).
Qed.

(* large-omega2 rearrangement:  (g^-1 + w)^-1 - w^-1 = -(w + w g w)^-1 ; inverses as hypotheses:
   gi = g^-1, wi = w^-1, a = (gi + w)^-1, b = (w + w g w)^-1 *)
Theorem om2_identity g gi w wi a b :
  g * gi == 1 -> w * wi == 1 -> (gi + w) * a == 1 -> b * (w + w * g * w) == 1 ->
  a - wi == - b.
Proof.
  intros Hg Hw Ha Hb.
  assert (K : w + w * g * w == w * g * (gi + w)).
  { transitivity (w * (g * gi) + w * g * w); [rewrite Hg; non_commutative_ring | non_commutative_ring]. }
  assert (Ea : a == b * (w * g)).
  { transitivity ((b * (w + w * g * w)) * a); [rewrite Hb; non_commutative_ring|].
    rewrite K. transitivity (b * (w * g) * ((gi + w) * a)); [non_commutative_ring|].
    rewrite Ha. non_commutative_ring. }
  assert (Eb : b + b * (w * g) == wi).
  { transitivity (b * (w * wi) + b * (w * g) * (w * wi)); [rewrite Hw; non_commutative_ring|].
    transitivity ((b * (w + w * g * w)) * wi); [non_commutative_ring|].
    rewrite Hb. non_commutative_ring. }
  rewrite <- Eb, <- Ea. non_commutative_ring.
Qed.

End NC.
