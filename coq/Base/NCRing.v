(* Identities in an arbitrary (not necessarily commutative) unital ring -- the algebra of
   square matrices of any size is an instance.  Used for the Dyson / resolvent identities behind
   the Green-function formula of the vacancy-mediated calculator (C01) and the large-omega2
   rearrangement (C08).  Ring structure and tactic: Coq's Ncring (setoid equality ==). *)
Require Import Ncring Ncring_tac Setoid Morphisms.

Section NC.
Context {R : Type} `{Rr : Ring R}.

(* Dyson equation.  G0 is the Green function of the reference rate matrix W0 (W0 G0 = 1),
   dW the change of rates, U a right inverse of 1 + G0 dW; the code forms G = U G0. *)
Theorem dyson_equation g0 dw u :
  (1 + g0 * dw) * u == 1 -> u * g0 == g0 - g0 * dw * (u * g0).
Proof.
  intro H.
  assert (E : u * g0 + g0 * dw * (u * g0) == g0).
  { transitivity (((1 + g0 * dw) * u) * g0); [non_commutative_ring | rewrite H; non_commutative_ring]. }
  transitivity ((u * g0 + g0 * dw * (u * g0)) - g0 * dw * (u * g0)); [non_commutative_ring|].
  rewrite E. non_commutative_ring.
Qed.

Theorem dyson_inverse w0 g0 dw u :
  w0 * g0 == 1 -> (1 + g0 * dw) * u == 1 -> (w0 + dw) * (u * g0) == 1.
Proof.
  intros Hw H.
  assert (E : u * g0 + g0 * dw * (u * g0) == g0).
  { transitivity (((1 + g0 * dw) * u) * g0); [non_commutative_ring | rewrite H; non_commutative_ring]. }
  transitivity (w0 * (u * g0 + g0 * dw * (u * g0)) + (1 - w0 * g0) * dw * (u * g0)); [non_commutative_ring|].
  rewrite E, Hw. non_commutative_ring.
Qed.

(* the two-step update used by Lij (first omega1, then omega2) equals the one-step update *)
Theorem dyson_two_step w0 g0 d1 d2 u1 u2 :
  w0 * g0 == 1 -> (1 + g0 * d1) * u1 == 1 -> (1 + (u1 * g0) * d2) * u2 == 1 ->
  (w0 + d1 + d2) * (u2 * (u1 * g0)) == 1.
Proof.
  intros Hw H1 H2.
  pose proof (dyson_inverse w0 g0 d1 u1 Hw H1) as G1.
  exact (dyson_inverse (w0 + d1) (u1 * g0) d2 u2 G1 H2).
Qed.

(* large-omega2 rearrangement:  (g^-1 + w)^-1 - w^-1 = -(w + w g w)^-1 ; inverses as hypotheses:
   gi = g^-1, wi = w^-1, a = (gi + w)^-1, b = (w + w g w)^-1 *)
Theorem om2_identity g gi w wi a b :
  g * gi == 1 -> w * wi == 1 -> (gi + w) * a == 1 -> b * (w + w * g * w) == 1 ->
  a - wi == - b.
Proof.
  intros Hg Hw Ha Hb.
  assert (K : w + w * g * w == w * g * (gi + w)).
  { transitivity (w * (g * gi) + w * g * w); [rewrite Hg; non_commutative_ring | non_commutative_ring]. }
  assert (Ea : a == b * (w * g)).
  { transitivity ((b * (w + w * g * w)) * a); [rewrite Hb; non_commutative_ring|].
    rewrite K. transitivity (b * (w * g) * ((gi + w) * a)); [non_commutative_ring|].
    rewrite Ha. non_commutative_ring. }
  assert (Eb : b + b * (w * g) == wi).
  { transitivity (b * (w * wi) + b * (w * g) * (w * wi)); [rewrite Hw; non_commutative_ring|].
    transitivity ((b * (w + w * g * w)) * wi); [non_commutative_ring|].
    rewrite Hb. non_commutative_ring. }
  rewrite <- Eb, <- Ea. non_commutative_ring.
Qed.

(* Origin-state correction of Lij (fix b4a4433).  g0: bare Green function, dw: change of the rate matrix, ai a right inverse of
   1 + g0 dw, G = ai g0 the Dyson Green function, nT / n the null vectors (column / row) of the bare rate matrix, b the bias,
   c the coefficients of the null vectors in the corrector.  The corrector used by the code,
       eta = G (b - dw nT c) + nT c ,
   solves the integral equation of the problem WITH a null-vector component:  eta = g0 (b - dw eta) + nT c. *)
Theorem originstate_integral_equation g0 dw ai nT b c :
  (1 + g0 * dw) * ai == 1 ->
  let eta := ai * g0 * (b - dw * nT * c) + nT * c in
  eta == g0 * (b - dw * eta) + nT * c.
Proof.
  intros H eta.
  assert (E : (1 + g0 * dw) * eta == g0 * b + nT * c).
  { unfold eta.
    transitivity (((1 + g0 * dw) * ai) * g0 * (b - dw * nT * c) + (1 + g0 * dw) * (nT * c)); [non_commutative_ring|].
    rewrite H. non_commutative_ring. }
  transitivity ((1 + g0 * dw) * eta - g0 * dw * eta); [non_commutative_ring|].
  rewrite E. non_commutative_ring.
Qed.

(* ... and the coefficients c = S (n b - uT G b), with S a right inverse of  M = n u - uT G u  (u = dw nT, uT = n dw),
   are exactly those for which no net flux leaves through the null vectors:  n (b - dw eta) = 0. *)
Theorem originstate_no_flux g0 dw ai n nT b s :
  let G := ai * g0 in let u := dw * nT in let uT := n * dw in
  (n * u - uT * G * u) * s == 1 ->
  let c := s * (n * b - uT * G * b) in
  let eta := G * (b - u * c) + nT * c in
  n * (b - dw * eta) == 0.
Proof.
  intros G u uT H c eta.
  transitivity ((n * b - uT * G * b) - (n * u - uT * G * u) * c); [unfold eta, u, uT; non_commutative_ring|].
  unfold c.
  transitivity ((n * b - uT * G * b) - ((n * u - uT * G * u) * s) * (n * b - uT * G * b)); [non_commutative_ring|].
  rewrite H. non_commutative_ring.
Qed.

End NC.
