(* Dual numbers K[eps]/(eps^2) over an ordered commutative ring K: a commutative ring (so `ring`
   works), packaged as an `ordring` so that the generic network model of Model/Net.v can be
   instantiated over it.  The order structure is the preorder "compare standard (real) parts":
   it satisfies every law of `ordring` (none of them is antisymmetry), and it is NOT used by the
   derivative theorems -- only the ring structure and decidable equality of both parts are.
   ep (f (a + eps)) is the exact formal derivative of any polynomial/rational program f. *)
From Coq Require Import Ring Bool.
From Onsager Require Import Base.OrdRing.

Section Dual.
Variable K : ordring.
Add Ring KringD : (r_ring K).

Record dual := mkD { re : K; ep : K }.

Definition d0 : dual := mkD (r0 K) (r0 K).
Definition d1 : dual := mkD (r1 K) (r0 K).
Definition dadd (x y : dual) : dual := mkD (radd K (re x) (re y)) (radd K (ep x) (ep y)).
Definition dmul (x y : dual) : dual :=
  mkD (rmul K (re x) (re y)) (radd K (rmul K (re x) (ep y)) (rmul K (ep x) (re y))).
Definition dsub (x y : dual) : dual := mkD (rsub K (re x) (re y)) (rsub K (ep x) (ep y)).
Definition dopp (x : dual) : dual := mkD (ropp K (re x)) (ropp K (ep x)).
Definition dle (x y : dual) : Prop := rle K (re x) (re y).
Definition deqb (x y : dual) : bool := reqb K (re x) (re y) && reqb K (ep x) (ep y).
Definition dleb (x y : dual) : bool := rleb K (re x) (re y).

(* embedding of constants and the infinitesimal *)
Definition dconst (a : K) : dual := mkD a (r0 K).
Definition deps : dual := mkD (r0 K) (r1 K).

Lemma dual_eq (x y : dual) : re x = re y -> ep x = ep y -> x = y.
Proof. destruct x, y; cbn; intros; subst; reflexivity. Qed.

Lemma dual_ring : ring_theory d0 d1 dadd dmul dsub dopp (@eq dual).
Proof.
  constructor; intros; apply dual_eq; cbn; ring.
Qed.

Lemma deqb_spec (x y : dual) : deqb x y = true <-> x = y.
Proof.
  unfold deqb. rewrite andb_true_iff, !(reqb_spec K). split.
  - intros [H1 H2]. apply dual_eq; assumption.
  - intros H; subst; split; reflexivity.
Qed.

Definition Dual : ordring.
Proof.
  refine (Build_ordring dual d0 d1 dadd dmul dsub dopp dle deqb dleb dual_ring _ _ _ _ _ deqb_spec _).
  - intros a. apply rle_refl.
  - intros a b c. apply rle_trans.
  - intros a b c H. unfold dle in *. cbn. apply rle_add. exact H.
  - intros a b Ha Hb. unfold dle in *. cbn in *. apply rle_mul; assumption.
  - intros a. unfold dle. cbn. apply rle_sq.
  - intros a b. unfold dleb, dle. apply rleb_spec.
Defined.

(* eps * eps = 0, and the derivative rules that make ep an exact derivative *)
Lemma deps_sq : dmul deps deps = d0.
Proof. apply dual_eq; cbn; ring. Qed.

Lemma re_add x y : re (dadd x y) = radd K (re x) (re y). Proof. reflexivity. Qed.
Lemma ep_add x y : ep (dadd x y) = radd K (ep x) (ep y). Proof. reflexivity. Qed.
Lemma re_mul x y : re (dmul x y) = rmul K (re x) (re y). Proof. reflexivity. Qed.
Lemma ep_mul x y : ep (dmul x y) = radd K (rmul K (re x) (ep y)) (rmul K (ep x) (re y)). Proof. reflexivity. Qed.
Lemma re_sub x y : re (dsub x y) = rsub K (re x) (re y). Proof. reflexivity. Qed.
Lemma ep_sub x y : ep (dsub x y) = rsub K (ep x) (ep y). Proof. reflexivity. Qed.

End Dual.

Arguments mkD {K} _ _. Arguments re {K} _. Arguments ep {K} _.
Arguments dconst {K} _. Arguments deps {K}.
