(* C33  Monte Carlo sampler state is a function of the occupation.
   Statements only; every proof is `exact <lemma>` of Proofs/Sampler_proofs.v.
   K ranges over every commutative (ordered) ring of energies, sd over every static interaction table
   (any number of sites / interactions, rows with repeated ids, with or without vacancy and jump network),
   histories over every list of start / update calls, update arguments over arbitrary lists (duplicates,
   overlaps included).  `run ... = Some st` says that no call of the history raised.                       *)
From Coq Require Import List ZArith Arith.
From Onsager Require Import Base.OrdRing Base.Instances Model.Sampler Proofs.Sampler_proofs.
Import ListNotations.
Local Open Scope Z_scope.

(* After any history: clustercount[m] = number of unoccupied sites (with multiplicity) of interaction m,
   the two sets are exactly the occupied / unoccupied sites, and every other site is the vacancy. *)
Theorem C33_invariant :
  forall (K : ordring) (sd : static K) (o0 : list Z) (ops : list op) (st : mcstate),
    run K sd o0 ops = Some st ->
    length (occ st) = Nsites K sd /\
    cc st = cnt_list K sd (occ st) /\
    NoDup (oset st) /\ NoDup (uset st) /\
    (forall i, In i (oset st) <-> ((i < Nsites K sd)%nat /\ nth i (occ st) 2 = 1)) /\
    (forall i, In i (uset st) <-> ((i < Nsites K sd)%nat /\ nth i (occ st) 2 = 0)) /\
    (forall i, (i < Nsites K sd)%nat -> nth i (occ st) 2 = 0 \/ nth i (occ st) 2 = 1 \/ is_vac K sd i = true).
Proof. exact run_invariant. Qed.

(* After any history the sampler equals a sampler freshly started on the current occupation: same counts,
   same sets, hence the same energy, the same trial energy changes for all arguments, the same transitions. *)
Theorem C33_history :
  forall (K : ordring) (sd : static K) (o0 : list Z) (ops : list op) (st : mcstate),
    run K sd o0 ops = Some st ->
    exists st', start K sd (occ st) = Some st' /\
      (occ st = occ st' /\ cc st = cc st' /\
       (forall i, In i (oset st) <-> In i (oset st')) /\ (forall i, In i (uset st) <-> In i (uset st'))) /\
      NoDup (oset st) /\ NoDup (uset st) /\ NoDup (oset st') /\ NoDup (uset st') /\
      E K sd st = E K sd st' /\
      (forall a b, deltaE_trial K sd st a b = deltaE_trial K sd st' a b) /\
      transitions K sd st = transitions K sd st'.
Proof. exact history_fresh. Qed.

(* In a state reached by a history, an update whose sites are in range and not the vacancy never raises
   (set.remove always finds its element). *)
Theorem C33_update_total :
  forall (K : ordring) (sd : static K) (st : mcstate) (a b : list nat),
    Inv K sd st -> vac_in K sd a = false -> vac_in K sd b = false ->
    (forall i, In i a -> (i < Nsites K sd)%nat) -> (forall i, In i b -> (i < Nsites K sd)%nat) ->
    exists st', update K sd st a b = Some st'.
Proof. exact update_total. Qed.

Theorem C33_reachable_Inv :
  forall (K : ordring) (sd : static K) o0 ops st, run K sd o0 ops = Some st -> Inv K sd st.
Proof. exact run_Inv. Qed.

(* Every trial energy change equals the energy difference produced by performing that update
   (duplicate-free, disjoint site lists -- the documented precondition of deltaE_trial). *)
Theorem C33_deltaE_correct :
  forall (K : ordring) (sd : static K) (st : mcstate) (a b : list nat) (st' : mcstate) (dE : K),
    length (cc st) = Nint K sd -> (Nenergy sd <= Nint K sd)%nat ->
    NoDup a -> NoDup b -> (forall i, In i a -> ~ In i b) ->
    update K sd st a b = Some st' -> deltaE_trial K sd st a b = Some dE ->
    dE = rsub K (E K sd st') (E K sd st).
Proof. exact deltaE_correct. Qed.

(* The precondition is needed: a repeated site, or a site in both lists, breaks it (reachable state). *)
Theorem C33_deltaE_dup_refuted :
  exists st a b st' dE, NoDup b /\ (forall i, In i a -> ~ In i b) /\ Inv Zring sdW st /\
    update Zring sdW st a b = Some st' /\ deltaE_trial Zring sdW st a b = Some dE /\
    dE <> (E Zring sdW st' - E Zring sdW st).
Proof. exact deltaE_dup_refuted. Qed.

Theorem C33_deltaE_overlap_refuted :
  exists st a b st' dE, NoDup a /\ NoDup b /\ Inv Zring sdW st /\
    update Zring sdW st a b = Some st' /\ deltaE_trial Zring sdW st a b = Some dE /\
    dE <> (E Zring sdW st' - E Zring sdW st).
Proof. exact deltaE_overlap_refuted. Qed.

Goal True. idtac "ASSUMPTIONS-OF C33_invariant". Abort.
Print Assumptions C33_invariant.
Goal True. idtac "ASSUMPTIONS-OF C33_history". Abort.
Print Assumptions C33_history.
Goal True. idtac "ASSUMPTIONS-OF C33_update_total". Abort.
Print Assumptions C33_update_total.
Goal True. idtac "ASSUMPTIONS-OF C33_reachable_Inv". Abort.
Print Assumptions C33_reachable_Inv.
Goal True. idtac "ASSUMPTIONS-OF C33_deltaE_correct". Abort.
Print Assumptions C33_deltaE_correct.
Goal True. idtac "ASSUMPTIONS-OF C33_deltaE_dup_refuted". Abort.
Print Assumptions C33_deltaE_dup_refuted.
Goal True. idtac "ASSUMPTIONS-OF C33_deltaE_overlap_refuted". Abort.
Print Assumptions C33_deltaE_overlap_refuted.
