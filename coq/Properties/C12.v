(* C12  Internal-friction loss tensors satisfy the relaxation sum rule.
   Statements only; every proof is `exact <lemma>` of Proofs/Relax_proofs.v.  K ranges over every
   ordered commutative ring, networks over every finite list of edges, n over every number of sites.
   Partial (see harness/c12.py META): eigenpairs are irrational, so "lambda is an eigenvalue" is
   established per run by an exact residual certificate (C12_checker_sound), not for all inputs;
   strict positivity of the non-zero modes of a connected network is C12_positive_modes (below),
   under the two extra order laws it needs. *)
From Coq Require Import List Arith.
From Onsager Require Import Base.OrdRing Model.Net Model.Harmonic Model.Relax Proofs.Relax_proofs.
Import ListNotations.

(* phi^T (-omega) phi, written edge by edge, is the quadratic form of the matrix momega = -omega *)
Theorem C12_quadform_is_matrix :
  forall (K : ordring) (R : rnet K) n (phi : nat -> K), rwf R n ->
    sumf (fun x => rmul K (phi x) (momega R phi x)) (seq 0 n) = qform R phi.
Proof. exact qform_matvec. Qed.

(* with phi = sqrt(rho) psi (division free) it is the Dirichlet energy of psi: a sum of squares *)
Theorem C12_dirichlet_identity :
  forall (K : ordring) (R : rnet K) (s psi : nat -> K), balanced s R ->
    qform R (fun x => rmul K (s x) (psi x))
    = sumf (fun e => rmul K (rmul K (rmul K (s (ri e)) (s (rj e))) (sw e))
                          (rmul K (rsub K (psi (rj e)) (psi (ri e))) (rsub K (psi (rj e)) (psi (ri e))))) R.
Proof. exact dirichlet_squares. Qed.

(* hence the symmetrised rate matrix is negative semidefinite ... *)
Theorem C12_dirichlet_nsd :
  forall (K : ordring) (R : rnet K) (s psi : nat -> K),
    balanced s R -> (forall e, In e R -> rle K (r0 K) (sw e)) -> (forall x, rle K (r0 K) (s x)) ->
    rle K (r0 K) (qform R (fun x => rmul K (s x) (psi x))).
Proof. exact dirichlet_nsd. Qed.

(* ... and every relaxation rate (eigenvalue of -omega) is >= 0 *)
Theorem C12_eigen_nonneg :
  forall (K : ordring) (R : rnet K) n (s psi : nat -> K) (lam : K),
    rwf R n -> balanced s R -> (forall e, In e R -> rle K (r0 K) (sw e)) -> (forall x, rle K (r0 K) (s x)) ->
    (forall x, x < n -> momega R (fun y => rmul K (s y) (psi y)) x = rmul K lam (rmul K (s x) (psi x))) ->
    rle K (r0 K) (rmul K lam (nrm2 n (fun y => rmul K (s y) (psi y)))).
Proof. exact eigen_nonneg. Qed.

(* a zero mode of a connected network is a multiple of sqrt(rho): psi is constant -- so every mode
   orthogonal to sqrt(rho) has a strictly positive rate *)
Theorem C12_positive_modes :
  forall (K : ordring),
    (forall a b : K, rle K a b -> rle K b a -> a = b) ->
    (forall a b : K, rmul K a b = r0 K -> a = r0 K \/ b = r0 K) ->
    forall (R : rnet K) n (s psi : nat -> K),
      rwf R n -> balanced s R ->
      (forall e, In e R -> rle K (r0 K) (sw e)) -> (forall x, rle K (r0 K) (s x)) ->
      (forall x, x < n -> momega R (fun y => rmul K (s y) (psi y)) x = r0 K) ->
      forall x y, connected (cnet s R) x y -> psi x = psi y.
Proof. exact zero_mode_const. Qed.

(* sum rule: any family resolving the identity on the complement of sqrt(rho) gives the covariance *)
Theorem C12_parseval_cov :
  forall (K : ordring) n (s : nat -> K) (modes : list (nat -> K)) (Pa Pb : nat -> K),
    resolution n s modes ->
    sumf (fun phi => rmul K (Fmode n s phi Pa) (Fmode n s phi Pb)) modes
    = cov n (fun i => rmul K (s i) (s i)) Pa Pb.
Proof. exact parseval_cov. Qed.

Theorem C12_cov_scale :
  forall (K : ordring) n (W : K) (rho w Pa Pb : nat -> K),
    (forall i, i < n -> rmul K W (rho i) = w i) -> W = sumf w (seq 0 n) ->
    rmul K (rmul K W W) (cov n rho Pa Pb) = covW n w Pa Pb.
Proof. exact cov_scale. Qed.

(* each loss tensor F (x) F : compliance symmetries and positive semidefiniteness *)
Theorem C12_loss_sym_index :
  forall (K : ordring) n (s phi Pab Pba Pcd : nat -> K),
    (forall i, i < n -> Pab i = Pba i) ->
    rmul K (Fmode n s phi Pab) (Fmode n s phi Pcd) = rmul K (Fmode n s phi Pba) (Fmode n s phi Pcd).
Proof. exact loss_sym_index. Qed.

Theorem C12_loss_sym_pair :
  forall (K : ordring) n (s phi Pab Pcd : nat -> K),
    rmul K (Fmode n s phi Pab) (Fmode n s phi Pcd) = rmul K (Fmode n s phi Pcd) (Fmode n s phi Pab).
Proof. exact loss_sym_pair. Qed.

Theorem C12_loss_psd :
  forall (K : ordring) (C : Type) (comps : list C) (u F : C -> K),
    sumf (fun I => sumf (fun J => rmul K (rmul K (u I) (rmul K (F I) (F J))) (u J)) comps) comps
    = rmul K (sumf (fun I => rmul K (u I) (F I)) comps) (sumf (fun I => rmul K (u I) (F I)) comps)
    /\ rle K (r0 K) (sumf (fun I => sumf (fun J => rmul K (rmul K (u I) (rmul K (F I) (F J))) (u J)) comps) comps).
Proof. exact loss_psd. Qed.

(* a tensor equal to a sum of squares plus E is positive semidefinite up to the E term *)
Theorem C12_psd_from_cert :
  forall (K : ordring) (C : Type) (comps : list C) (L E : C -> C -> K) (Fs : list (C -> K)) (u : C -> K),
    (forall I J, In I comps -> In J comps -> L I J = radd K (sumf (fun F => rmul K (F I) (F J)) Fs) (E I J)) ->
    sumf (fun I => sumf (fun J => rmul K (rmul K (u I) (L I J)) (u J)) comps) comps
    = radd K (sumf (fun F => rmul K (sumf (fun I => rmul K (u I) (F I)) comps) (sumf (fun I => rmul K (u I) (F I)) comps)) Fs)
             (sumf (fun I => sumf (fun J => rmul K (rmul K (u I) (E I J)) (u J)) comps) comps)
    /\ rle K (sumf (fun I => sumf (fun J => rmul K (rmul K (u I) (E I J)) (u J)) comps) comps)
             (sumf (fun I => sumf (fun J => rmul K (rmul K (u I) (L I J)) (u J)) comps) comps).
Proof. exact psd_from_cert. Qed.

(* soundness of the checker that is run on every output of Interstitial.losstensors *)
Theorem C12_checker_sound :
  forall (K : ordring) n d (R : rnet K) w P modes tolsym tolcert tolsum tolnum tolden,
    check_loss n d R w P modes tolsym tolcert tolsum tolnum tolden = 0 ->
    loss_spec K n d R w P modes tolsym tolcert tolsum tolnum tolden.
Proof. exact check_loss_sound. Qed.

Goal True. idtac "ASSUMPTIONS-OF C12_quadform_is_matrix". Abort.
Print Assumptions C12_quadform_is_matrix.
Goal True. idtac "ASSUMPTIONS-OF C12_dirichlet_identity". Abort.
Print Assumptions C12_dirichlet_identity.
Goal True. idtac "ASSUMPTIONS-OF C12_dirichlet_nsd". Abort.
Print Assumptions C12_dirichlet_nsd.
Goal True. idtac "ASSUMPTIONS-OF C12_eigen_nonneg". Abort.
Print Assumptions C12_eigen_nonneg.
Goal True. idtac "ASSUMPTIONS-OF C12_positive_modes". Abort.
Print Assumptions C12_positive_modes.
Goal True. idtac "ASSUMPTIONS-OF C12_parseval_cov". Abort.
Print Assumptions C12_parseval_cov.
Goal True. idtac "ASSUMPTIONS-OF C12_cov_scale". Abort.
Print Assumptions C12_cov_scale.
Goal True. idtac "ASSUMPTIONS-OF C12_loss_sym_index". Abort.
Print Assumptions C12_loss_sym_index.
Goal True. idtac "ASSUMPTIONS-OF C12_loss_sym_pair". Abort.
Print Assumptions C12_loss_sym_pair.
Goal True. idtac "ASSUMPTIONS-OF C12_loss_psd". Abort.
Print Assumptions C12_loss_psd.
Goal True. idtac "ASSUMPTIONS-OF C12_psd_from_cert". Abort.
Print Assumptions C12_psd_from_cert.
Goal True. idtac "ASSUMPTIONS-OF C12_checker_sound". Abort.
Print Assumptions C12_checker_sound.
