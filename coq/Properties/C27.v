(* C27  Supercell symmetry and equivalence mapping are sound and complete.
   Statements only; every proof is `exact <lemma>` of Proofs/.  The checkers (permb, geomb, labelsb,
   equivb, nomapb) are run inside Coq on the implementation's own outputs (Supercell.G, equivalencemap)
   by harness/c27.py; these theorems say what an answer `true` establishes, for any number of sites,
   species and any site map. *)
From Coq Require Import List ZArith Bool.
From Onsager Require Import Model.Supercell Model.SupercellMap Proofs.Supercell_proofs Proofs.SupercellMap_proofs.
Import ListNotations.
Local Open Scope Z_scope.

(* an operation's index map is a permutation of the sites *)
Theorem C27_perm_checker_sound : forall N idx, permb N idx = true -> is_perm N idx.
Proof. exact permb_sound. Qed.

(* ... consistent with the geometry: with sites at integer positions P (units 1/S of the supercell
   vectors) the affine map x -> R x + T carries EVERY periodic image of site i onto a periodic
   image of site idx[i] (the finite check decides the statement for the infinite crystal) *)
Theorem C27_geometry_checker_sound :
  forall d S R T P idx, geomb d S R T P idx = true ->
  forall i Pi, nth_error P i = Some Pi -> forall n, length n = d ->
  exists Pj n', nth_error P (Z.to_nat (nth i idx 0)) = Some Pj /\ length n' = d /\
    vadd (mulmv R (vadd Pi (vscale S n))) T = vadd Pj (vscale S n').
Proof. exact geomb_sound. Qed.

(* ... and respects the sublattice / site chemistry labels *)
Theorem C27_labels_checker_sound :
  forall lab idx, labelsb lab idx = true ->
  forall m, (m < length lab)%nat -> nth (Z.to_nat (nth m idx 0)) lab (-1) = nth m lab (-1).
Proof. exact labelsb_sound. Qed.

(* applying an operation to a consistent supercell moves occupation and ordering together *)
Theorem C27_apply_operation :
  forall N Nchem s idx, Inv N Nchem s -> is_perm N idx ->
    exists s', imul idx s = (s', OK) /\ Inv N Nchem s' /\
      chemorder s' = map (map (pidx idx)) (chemorder s) /\
      (forall m, (m < N)%nat -> nth_error (occ s') (Z.to_nat (nth m idx 0)) = nth_error (occ s) m).
Proof. exact imul_spec. Qed.

(* soundness of a returned (g, mapping): B.occ[g(i)] = A.occ[i] for every site and
   B.chemorder[c][k] = g(A.chemorder[c][mapping[c][k]]) for every species and position *)
Theorem C27_equivmap_sound :
  forall N Nchem idx mapping A B,
    equivb idx mapping A B = true -> is_perm N idx -> Inv N Nchem A -> (Nchem <= length mapping)%nat ->
    Inv N Nchem B /\ Equiv N idx mapping A B.
Proof. exact equivb_sound. Qed.

(* completeness of an answer None: the checker run over the whole group establishes that no
   operation carries the occupation of A onto that of B *)
Theorem C27_equivmap_none_justified :
  forall N G A B, nomapb G A B = true -> length (occ A) = N -> length (occ B) = N ->
  forall idx, In idx G -> is_perm N idx ->
  ~ (forall m, (m < N)%nat -> nth_error (occ B) (Z.to_nat (nth m idx 0)) = nth_error (occ A) m).
Proof. exact nomapb_sound. Qed.

(* the defect-count pre-filter of equivalencemap never discards a pair that some operation relates:
   label-preserving operations keep every count (site label, species) *)
Theorem C27_prefilter_sound :
  forall N idx lab oA oB k v,
    is_perm N idx -> length oA = N -> length oB = N ->
    (forall m, (m < N)%nat -> nth (Z.to_nat (nth m idx 0)) lab (-1) = nth m lab (-1)) ->
    (forall m, (m < N)%nat -> nth (Z.to_nat (nth m idx 0)) oB (-2) = nth m oA (-2)) ->
    count_lv lab oA k v = count_lv lab oB k v.
Proof. exact prefilter_sound. Qed.

Goal True. idtac "ASSUMPTIONS-OF C27_perm_checker_sound". Abort.
Print Assumptions C27_perm_checker_sound.
Goal True. idtac "ASSUMPTIONS-OF C27_geometry_checker_sound". Abort.
Print Assumptions C27_geometry_checker_sound.
Goal True. idtac "ASSUMPTIONS-OF C27_labels_checker_sound". Abort.
Print Assumptions C27_labels_checker_sound.
Goal True. idtac "ASSUMPTIONS-OF C27_apply_operation". Abort.
Print Assumptions C27_apply_operation.
Goal True. idtac "ASSUMPTIONS-OF C27_equivmap_sound". Abort.
Print Assumptions C27_equivmap_sound.
Goal True. idtac "ASSUMPTIONS-OF C27_equivmap_none_justified". Abort.
Print Assumptions C27_equivmap_none_justified.
Goal True. idtac "ASSUMPTIONS-OF C27_prefilter_sound". Abort.
Print Assumptions C27_prefilter_sound.
