(* C17  Taylor-expansion change of variables and inversion are exact.
   Statements only; every proof is `exact <lemma>` of Proofs/Taylor_proofs.v.

   Rotation (class constant Lmax = 4, Taylor3D and Taylor2D): for EVERY square matrix A over every
   ordered commutative ring (invertibility, orthogonality are not needed), every coefficient space
   and every parity-consistent expansion, the rotated expansion read at xs equals the original read
   at A xs.  Eh is the homogeneous reading rotatedirections is built on (a power p stored under the
   radial order n stands for q^p (q.q)^((n - deg p)/2)); C17_homogeneous_reading identifies it with
   the evaluation E (= Taylor.__call__ with fnu = r^n) at u = r * unit vector.

   Inversion: the identity behind inversecoeff in ANY unital ring (matrices included), left and
   right.  `_partial`: that the model's inversecoeff (with its interleaved truncations) IS the
   truncated series sum_{i<=k} (-Ainv B)^i Ainv of the evaluated expansions is not proved in Coq;
   it is covered by the correspondence and by the direct evaluator of harness/c17.py. *)
From Coq Require Import List Arith ZArith.
From Onsager Require Import Base.OrdRing Base.Instances Model.Taylor Proofs.Taylor_proofs.
Import ListNotations.

Theorem C17_rotate_3D : forall (K : ordring) (V : kmod K), modlaws K V ->
  forall (A : list (list K)) (xs : list K) (a : expansion V),
  length xs = 3 -> length A = 3 -> Forall (fun r => length r = 3) A ->
  Forall (parity_ok_entry K 3 4 V) a -> wf K 3 4 V a ->
  exists a', rotatecoeff K 3 4 V (rotatedirections K 3 4 A) a = Some a' /\ wf K 3 4 V a' /\
             Eh K 3 4 V xs a' = Eh K 3 4 V (matvec A xs) a.
Proof. exact rotate3D_exact. Qed.

Theorem C17_rotate_2D : forall (K : ordring) (V : kmod K), modlaws K V ->
  forall (A : list (list K)) (xs : list K) (a : expansion V),
  length xs = 2 -> length A = 2 -> Forall (fun r => length r = 2) A ->
  Forall (parity_ok_entry K 2 4 V) a -> wf K 2 4 V a ->
  exists a', rotatecoeff K 2 4 V (rotatedirections K 2 4 A) a = Some a' /\ wf K 2 4 V a' /\
             Eh K 2 4 V xs a' = Eh K 2 4 V (matvec A xs) a.
Proof. exact rotate2D_exact. Qed.

(* all d, all Lmax: at u = r xs with xs.xs = 1 the homogeneous reading is the evaluation with f_n = r^n *)
Theorem C17_homogeneous_reading : forall (K : ordring) d L (V : kmod K), modlaws K V ->
  forall (r : K) (xs : list K) (a : expansion V),
  length xs = d -> dot xs xs = r1 K ->
  Forall (parity_ok_entry K d L V) a -> wf K d L V a ->
  Eh K d L V (map (rmul K r) xs) a = E K d L V (fun n => rpow r (Z.to_nat n)) xs a.
Proof. exact Eh_unit. Qed.

(* (sum_{i<=k} (-Ainv B)^i Ainv) (A + B) = 1 - (-Ainv B)^(k+1)   in any unital ring *)
Theorem C17_inverse_partial_left :
  forall (M : Type) (zero one : M) (add mul : M -> M -> M) (neg : M -> M),
  (forall x y z, add x (add y z) = add (add x y) z) -> (forall x y, add x y = add y x) ->
  (forall x, add zero x = x) -> (forall x, add x (neg x) = zero) ->
  (forall x y z, mul x (mul y z) = mul (mul x y) z) -> (forall x, mul one x = x) -> (forall x, mul x one = x) ->
  (forall x y z, mul (add x y) z = add (mul x z) (mul y z)) -> (forall x y z, mul x (add y z) = add (mul x y) (mul x z)) ->
  forall A B Ainv k, mul Ainv A = one ->
  mul (nseries M one add mul (neg (mul Ainv B)) Ainv k) (add A B) =
  add one (neg (npow M one mul (neg (mul Ainv B)) (S k))).
Proof. exact neumann_left. Qed.

(* (A + B) (sum_{i<=k} (-Ainv B)^i Ainv) = 1 - (-B Ainv)^(k+1) *)
Theorem C17_inverse_partial_right :
  forall (M : Type) (zero one : M) (add mul : M -> M -> M) (neg : M -> M),
  (forall x y z, add x (add y z) = add (add x y) z) -> (forall x y, add x y = add y x) ->
  (forall x, add zero x = x) -> (forall x, add x (neg x) = zero) ->
  (forall x y z, mul x (mul y z) = mul (mul x y) z) -> (forall x, mul one x = x) -> (forall x, mul x one = x) ->
  (forall x y z, mul (add x y) z = add (mul x z) (mul y z)) -> (forall x y z, mul x (add y z) = add (mul x y) (mul x z)) ->
  forall A B Ainv k, mul A Ainv = one ->
  mul (add A B) (nseries M one add mul (neg (mul Ainv B)) Ainv k) =
  add one (neg (npow M one mul (neg (mul B Ainv)) (S k))).
Proof. exact neumann_right. Qed.

Goal True. idtac "ASSUMPTIONS-OF C17_rotate_3D". Abort.
Print Assumptions C17_rotate_3D.
Goal True. idtac "ASSUMPTIONS-OF C17_rotate_2D". Abort.
Print Assumptions C17_rotate_2D.
Goal True. idtac "ASSUMPTIONS-OF C17_homogeneous_reading". Abort.
Print Assumptions C17_homogeneous_reading.
Goal True. idtac "ASSUMPTIONS-OF C17_inverse_partial_left". Abort.
Print Assumptions C17_inverse_partial_left.
Goal True. idtac "ASSUMPTIONS-OF C17_inverse_partial_right". Abort.
Print Assumptions C17_inverse_partial_right.
