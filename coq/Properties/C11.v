(* C11  Interstitial derivative outputs are true derivatives.
   Statements only; proofs are `exact <lemma>` of Proofs/DualNet_proofs.v, Proofs/Dipoles_proofs.v.
   K ranges over every ordered commutative ring; Dual K = K[eps]/(eps^2); networks over every finite
   list of edges with dual conductances and dual displacements (beta-derivative: c' = -E c, d' = 0;
   strain derivative: c' = (P:e) c, d' = e d).  The derivative of exp is an input convention of the
   harness (c' is supplied), not a theorem. *)
From Coq Require Import List Arith Permutation.
From Onsager Require Import Base.OrdRing Base.Dual Model.Net Model.Interstitial Model.DualNet Model.Dipoles
     Proofs.Net_proofs Proofs.DualNet_proofs Proofs.Dipoles_proofs.
Import ListNotations.

(* a corrector computed over the dual ring (= differentiating the linear solve) has a real part
   that is a corrector of the real-part network *)
Theorem C11_dual_corrector_real :
  forall (K : ordring) (N : net (Dual K)) d g, weakKCL (K:=Dual K) N d g -> reKCL N d g.
Proof. exact dual_KCL_re. Qed.

(* value AND derivative of the transport coefficient do not depend on which dual corrector is used *)
Theorem C11_value_and_derivative_welldef :
  forall (K : ordring) (N : net (Dual K)) dA dB gA gA' gB gB',
    weakKCL (K:=Dual K) N dA gA -> weakKCL (K:=Dual K) N dB gB' ->
    Bform N dA dB gA gB = Bform N dA dB gA' gB'.
Proof. exact (fun K => L_welldef (Dual K)). Qed.

(* ENVELOPE: the eps-part (exact derivative) of the transport coefficient is
     sum c' f_A f_B + sum c d_A' f_B + sum c f_A d_B'      with f = d + grad(real corrector);
   the derivative of the corrector itself drops out by the weak Kirchhoff law *)
Theorem C11_envelope :
  forall (K : ordring) (N : net (Dual K)) dA dB gA gB,
    reKCL N dA gA -> reKCL N dB gB ->
    dp (Bform N dA dB gA gB) = envelope_rhs N dA dB gA gB.
Proof. exact envelope. Qed.

Theorem C11_envelope_diag :
  forall (K : ordring) (N : net (Dual K)) d g,
    reKCL N d g ->
    dp (Bform N d d g g)
    = radd K (sumf (fun e : edge (Dual K) => rmul K (cep e) (rmul K (rforce d g e) (rforce d g e))) N)
             (rmul K (radd K (r1 K) (r1 K))
                     (sumf (fun e : edge (Dual K) => rmul K (rmul K (cre e) (rforce d g e)) (dp (d e))) N)).
Proof. exact envelope_diag. Qed.

(* the real part of the dual model is the C02 model *)
Theorem C11_real_part_is_C02_model :
  forall (K : ordring) (N : net (Dual K)) dA dB gA gB,
    rp (Bform N dA dB gA gB)
    = sumf (fun e : edge (Dual K) => rmul K (rmul K (cre e) (rforce dA gA e)) (rforce dB gB e)) N.
Proof. exact re_Bform. Qed.

(* soundness of the checker run on every correspondence case: answer 0 => for ANY dual correctors the
   value and the quotient-rule derivative  Z * envelope - value * Z'  lie in the bounds derived from
   the implementation's (D, Db) resp. (D, elastodiffusion) +- tolerance *)
Theorem C11_checker_sound :
  forall (K : ordring) n dim wT jumps gam Zw Zw' lo hi lo' hi',
    dual_check (K:=K) n dim wT jumps gam Zw Zw' lo hi lo' hi' = 0 ->
    let N := net_of (K:=Dual K) wT jumps in
    (forall k, k < dim -> weakKCL (K:=Dual K) N (comp k) (fld (nth k gam []))) /\
    (forall k l, k < dim -> l < dim ->
       forall gk gl, weakKCL (K:=Dual K) N (comp k) gk -> weakKCL (K:=Dual K) N (comp l) gl ->
         (rle K (nth l (nth k lo []) (r0 K)) (rp (Bform N (comp k) (comp l) gk gl)) /\
          rle K (rp (Bform N (comp k) (comp l) gk gl)) (nth l (nth k hi []) (r0 K))) /\
         (rle K (nth l (nth k lo' []) (r0 K))
                (rsub K (rmul K Zw (envelope_rhs N (comp k) (comp l) gk gl)) (rmul K (rp (Bform N (comp k) (comp l) gk gl)) Zw')) /\
          rle K (rsub K (rmul K Zw (envelope_rhs N (comp k) (comp l) gk gl)) (rmul K (rp (Bform N (comp k) (comp l) gk gl)) Zw'))
                (nth l (nth k hi' []) (r0 K)))).
Proof. exact dual_check_sound. Qed.

(* ---- dipole population: every finite group action by additive maps on a commutative monoid ---- *)
Theorem C11_project_invariant :
  forall (V A : Type) (vadd : V -> V -> V) (v0 : V) (act : A -> V -> V) (mul : A -> A -> A),
    (forall x y, vadd x y = vadd y x) -> (forall x y z, vadd x (vadd y z) = vadd (vadd x y) z) ->
    (forall g x y, act g (vadd x y) = vadd (act g x) (act g y)) -> (forall g, act g v0 = v0) ->
    (forall g h x, act (mul g h) x = act g (act h x)) ->
    forall (G : list A) (h : A) (x : V),
      Permutation (map (mul h) G) G -> act h (avg vadd v0 act G x) = avg vadd v0 act G x.
Proof. exact project_invariant. Qed.

Theorem C11_project_idem :
  forall (V A : Type) (vadd : V -> V -> V) (v0 : V) (act : A -> V -> V) (mul : A -> A -> A),
    (forall x y, vadd x y = vadd y x) -> (forall x y z, vadd x (vadd y z) = vadd (vadd x y) z) ->
    (forall g x y, act g (vadd x y) = vadd (act g x) (act g y)) -> (forall g, act g v0 = v0) ->
    (forall g h x, act (mul g h) x = act g (act h x)) ->
    forall (G : list A) (x : V),
      (forall h, In h G -> Permutation (map (mul h) G) G) ->
      avg vadd v0 act G (avg vadd v0 act G x) = ntimes vadd v0 (length G) (avg vadd v0 act G x).
Proof. exact project_idem. Qed.

Theorem C11_populate_welldef :
  forall (V A : Type) (act : A -> V -> V) (mul : A -> A -> A),
    (forall g h x, act (mul g h) x = act g (act h x)) ->
    forall (S : list A) (T : V) (g1 g2 h : A),
      invariant act S T -> In h S -> g1 = mul g2 h -> act g1 T = act g2 T.
Proof. exact populate_welldef. Qed.

Goal True. idtac "ASSUMPTIONS-OF C11_dual_corrector_real". Abort.
Print Assumptions C11_dual_corrector_real.
Goal True. idtac "ASSUMPTIONS-OF C11_value_and_derivative_welldef". Abort.
Print Assumptions C11_value_and_derivative_welldef.
Goal True. idtac "ASSUMPTIONS-OF C11_envelope". Abort.
Print Assumptions C11_envelope.
Goal True. idtac "ASSUMPTIONS-OF C11_envelope_diag". Abort.
Print Assumptions C11_envelope_diag.
Goal True. idtac "ASSUMPTIONS-OF C11_real_part_is_C02_model". Abort.
Print Assumptions C11_real_part_is_C02_model.
Goal True. idtac "ASSUMPTIONS-OF C11_checker_sound". Abort.
Print Assumptions C11_checker_sound.
Goal True. idtac "ASSUMPTIONS-OF C11_project_invariant". Abort.
Print Assumptions C11_project_invariant.
Goal True. idtac "ASSUMPTIONS-OF C11_project_idem". Abort.
Print Assumptions C11_project_idem.
Goal True. idtac "ASSUMPTIONS-OF C11_populate_welldef". Abort.
Print Assumptions C11_populate_welldef.
