(* C13  Saved and reloaded calculators reproduce results exactly.
   PARTIAL: what is proved here are the round-trip theorems of the list codecs that the HDF5 code uses
   (for lists over ANY element type, of any length), with the exact well-formedness conditions.  The byte
   formats of HDF5/YAML (h5py, PyYAML) and the numerical kernels are outside the model; that every field read
   by Lij / tags2preene is restored, and that results and tags are identical afterwards, is established per run
   by harness/c13.py (field-by-field comparison + identical results for further random inputs).
   Statements only; proofs are `exact <lemma>` of Proofs/Codec_proofs.v. *)
From Coq Require Import List Arith Bool.
From Onsager Require Import Model.Codec Proofs.Codec_proofs.
Import ListNotations.

(* flatlistindex2doublelist(doublelist2flatlistindex(ll)) = ll  iff  ll is non-empty with a non-empty last list *)
Theorem C13_flat_roundtrip_partial :
  forall (A : Type) (ll : list (list A)),
    decode (fst (encode ll)) (snd (encode ll)) = Some ll <-> wf_ll ll = true.
Proof. exact flat_roundtrip_iff. Qed.

(* in general: trailing empty lists are lost, and a list of empty lists makes the decoder raise *)
Theorem C13_flat_roundtrip_general :
  forall (A : Type) (ll : list (list A)),
    decode (fst (encode ll)) (snd (encode ll)) = match strip_trailing ll with [] => None | r => Some r end.
Proof. exact flat_roundtrip_general. Qed.

Theorem C13_flat_roundtrip_refuted :
  exists ll : list (list nat), decode (fst (encode ll)) (snd (encode ll)) <> Some ll /\
                               decode (fst (encode ll)) (snd (encode ll)) = Some [[1]].
Proof. exact flat_roundtrip_refuted. Qed.

(* the decoder on an ARBITRARY index array: max+1 lists; list n = the entries with index n, in order *)
Theorem C13_decode_spec :
  forall (A : Type) (flat : list A) (idx : list nat) (ll : list (list A)),
    decode flat idx = Some ll ->
    length ll = S (list_max idx) /\
    forall n, nth n ll [] = map fst (filter (fun p => Nat.eqb (snd p) n) (combine flat idx)).
Proof. exact decode_spec. Qed.

(* sitelist from invmap, stars from index, jumpnetwork_index from jumplist_invmap:
   list n = the ascending positions whose index is n *)
Theorem C13_lists_of_index :
  forall (idx : list nat) (ll : list (list nat)),
    lists_of_index idx = Some ll ->
    length ll = S (list_max idx) /\
    forall n, nth n ll [] = filter (fun x => Nat.eqb (nth x idx 0) n) (seq 0 (length idx)).
Proof. exact lists_of_index_spec. Qed.

Theorem C13_pslist_roundtrip :
  forall (I R X : Type) (l : list (psrow I R X)), l <> [] ->
    exists t, ps2arrays l = Some t /\ arrays2ps t = l.
Proof. exact @pslist_roundtrip. Qed.

(* vTK-keyed dictionaries: exact for keys whose four arrays have the lengths of the first key's *)
Theorem C13_vtk_roundtrip :
  forall (K W : Type) (d : list (vkey K * W)),
    (forall k0 w0 k w, nth_error d 0 = Some (k0, w0) -> In (k, w) d -> same_shape k0 k) ->
    arrays2dict (dict2arrays d) = d.
Proof. exact @vtk_roundtrip. Qed.

(* YAML of a Cluster: the dictionary written by _asdict determines BOTH constructor flags, for all four combinations
   (transition-state clusters of a vacancy cluster expansion have both set) *)
Theorem C13_cluster_flags_roundtrip :
  forall t v : bool, cluster_flags_of_keys (cluster_asdict_keys t v) = (t, v).
Proof. exact cluster_flags_roundtrip. Qed.

(* Numbered families of HDF5 sub-groups (one per jump type: 'T3Djump-0', 'T3Djump-1', ...): for EVERY number of members and
   any injective naming, reading the members by number restores the list ... *)
Theorem C13_numbered_family_roundtrip :
  forall (K A : Type) (keqb : K -> K -> bool) (name : nat -> K),
    (forall i j, keqb (name i) (name j) = true <-> i = j) ->
    forall l : list A, read_by_number keqb name (write_family name l) (length l) = map Some l.
Proof. exact family_roundtrip. Qed.

(* ... whereas taking them in the group's alphabetical iteration order (decimal names) is wrong from 11 members on *)
Theorem C13_numbered_family_alphabetical_refuted :
  exists l : list nat,
    read_alphabetical (write_family digits l) <> l /\
    read_alphabetical (write_family digits l) = [0; 1; 10; 2; 3; 4; 5; 6; 7; 8; 9].
Proof. exact family_alphabetical_refuted. Qed.

Goal True. idtac "ASSUMPTIONS-OF C13_flat_roundtrip_partial". Abort.
Print Assumptions C13_flat_roundtrip_partial.
Goal True. idtac "ASSUMPTIONS-OF C13_flat_roundtrip_general". Abort.
Print Assumptions C13_flat_roundtrip_general.
Goal True. idtac "ASSUMPTIONS-OF C13_flat_roundtrip_refuted". Abort.
Print Assumptions C13_flat_roundtrip_refuted.
Goal True. idtac "ASSUMPTIONS-OF C13_decode_spec". Abort.
Print Assumptions C13_decode_spec.
Goal True. idtac "ASSUMPTIONS-OF C13_lists_of_index". Abort.
Print Assumptions C13_lists_of_index.
Goal True. idtac "ASSUMPTIONS-OF C13_pslist_roundtrip". Abort.
Print Assumptions C13_pslist_roundtrip.
Goal True. idtac "ASSUMPTIONS-OF C13_vtk_roundtrip". Abort.
Print Assumptions C13_vtk_roundtrip.
Goal True. idtac "ASSUMPTIONS-OF C13_cluster_flags_roundtrip". Abort.
Print Assumptions C13_cluster_flags_roundtrip.
Goal True. idtac "ASSUMPTIONS-OF C13_numbered_family_roundtrip". Abort.
Print Assumptions C13_numbered_family_roundtrip.
Goal True. idtac "ASSUMPTIONS-OF C13_numbered_family_alphabetical_refuted". Abort.
Print Assumptions C13_numbered_family_alphabetical_refuted.
