(* C36  Value types obey equality, hashing and arithmetic laws.
   Statements only; every proof is `exact <lemma>` of Proofs/ValueTypes_proofs.v.
   K ranges over every ordered commutative ring (Z, Qc -- every IEEE double is a Qc --, R ...);
   H, Hb, Hm, Hk are Python's hash() of a tuple / bytes: ARBITRARY functions, nothing assumed.
   None models the ArithmeticError the code raises.
   Full for PairState, ClusterSite, Cluster (canonical form, as __init__ builds it; hash law for
   clusters that are sets of sites) and for GroupOp's hash law.  For the tolerance-compared types
   (GroupOp, vacancyThermoKinetics) reflexivity holds for all values, symmetry/transitivity/hash only on
   separated values; the *_refuted theorems are witnesses that they FAIL on near-equal values
   (numpy.allclose with its default tolerances) -- recorded finding c36-allclose-not-equivalence. *)
From Coq Require Import ZArith List Bool.
From Onsager Require Import Base.OrdRing Base.Instances Model.ValueTypes Proofs.ValueTypes_proofs.
Import ListNotations.
Local Open Scope Z_scope.

(* ---------- PairState ---------- *)
Theorem C36_pairstate_eq_ne_hash :
  forall (K : ordring) (H : list Z -> Z) (a b c : pstate K),
    ps_eqb a a = true /\ ps_eqb a b = ps_eqb b a /\
    (ps_eqb a b = true -> ps_eqb b c = true -> ps_eqb a c = true) /\
    ps_neb a b = negb (ps_eqb a b) /\ (ps_eqb a b = true -> ps_hash H a = ps_hash H b).
Proof. exact ps_eq_laws. Qed.

Theorem C36_pairstate_iszero :
  forall (K : ordring) (a : pstate K),
    ps_iszero a = true <-> ps_eqb a (ps_zero (ps_i a) (length (ps_R a))) = true.
Proof. exact ps_iszero_eq_zero. Qed.

Theorem C36_pairstate_neg_neg : forall (K : ordring) (a : pstate K), ps_neg (ps_neg a) = a.
Proof. exact ps_neg_neg. Qed.

Theorem C36_pairstate_add_neg :
  forall (K : ordring) (a : pstate K),
    (exists z, ps_add a (ps_neg a) = Some z /\ ps_iszero z = true).
Proof. exact ps_add_neg. Qed.

Theorem C36_pairstate_neg_add :
  forall (K : ordring) (a : pstate K),
    (exists z, ps_add (ps_neg a) a = Some z /\ ps_iszero z = true).
Proof. exact ps_neg_add. Qed.

(* (a - b) + b = a when a and b share the final site (the documented domain of a - b) *)
Theorem C36_pairstate_sub_add :
  forall (K : ordring) (d : nat) (a b : pstate K),
    ps_wf K d a -> ps_wf K d b -> ps_j a = ps_j b ->
    exists c, ps_sub a b = Some c /\ exists a', ps_add c b = Some a' /\ ps_eqb a' a = true.
Proof. exact ps_sub_add. Qed.

(* b + (a ^ b) = a when a and b share the initial site *)
Theorem C36_pairstate_add_xor :
  forall (K : ordring) (d : nat) (a b : pstate K),
    ps_wf K d a -> ps_wf K d b -> ps_i a = ps_i b ->
    exists c, ps_xor a b = Some c /\ exists a', ps_add b c = Some a' /\ ps_eqb a' a = true.
Proof. exact ps_add_xor. Qed.

(* with site indices >= 0 the identities hold for every field, dx included, over any ring *)
Theorem C36_pairstate_sub_add_all_fields :
  forall (K : ordring) (d : nat) (a b : pstate K),
    ps_wf K d a -> ps_wf K d b -> ps_regular K a -> ps_regular K b -> ps_j a = ps_j b ->
    exists c, ps_sub a b = Some c /\ ps_add c b = Some a.
Proof. exact ps_sub_add_strong. Qed.

Theorem C36_pairstate_add_xor_all_fields :
  forall (K : ordring) (d : nat) (a b : pstate K),
    ps_wf K d a -> ps_wf K d b -> ps_regular K a -> ps_regular K b -> ps_i a = ps_i b ->
    exists c, ps_xor a b = Some c /\ ps_add b c = Some a.
Proof. exact ps_add_xor_strong. Qed.

(* exactly when the code raises *)
Theorem C36_pairstate_add_raises :
  forall (K : ordring) (a b : pstate K),
    ps_add a b = None <->
    (ps_j a <> ps_i b /\ (ps_iszero a && (ps_j a =? -1)) = false /\ (ps_iszero b && (ps_i b =? -1)) = false).
Proof. exact ps_add_defined. Qed.

Theorem C36_pairstate_xor_raises :
  forall (K : ordring) (a b : pstate K), ps_xor a b = None <-> ps_i a <> ps_i b.
Proof. exact ps_xor_defined. Qed.

(* commutation with every space-group operation (rot, indexmap, delu, cartrot) *)
Theorem C36_pairstate_g_neg :
  forall (K : ordring) (d : nat) (n : Z) (g : lop K) (a : pstate K),
    lop_wf K d n g -> ps_wf K d a -> ps_in K n a -> ps_g g (ps_neg a) = ps_neg (ps_g g a).
Proof. exact ps_g_neg. Qed.

Theorem C36_pairstate_g_add :
  forall (K : ordring) (d : nat) (n : Z) (g : lop K) (a b c : pstate K),
    lop_wf K d n g -> ps_wf K d a -> ps_wf K d b -> ps_in K n a -> ps_in K n b ->
    ps_add a b = Some c -> ps_add (ps_g g a) (ps_g g b) = Some (ps_g g c).
Proof. exact ps_g_add. Qed.

Theorem C36_pairstate_g_sub :
  forall (K : ordring) (d : nat) (n : Z) (g : lop K) (a b c : pstate K),
    lop_wf K d n g -> ps_wf K d a -> ps_wf K d b -> ps_in K n a -> ps_in K n b ->
    ps_sub a b = Some c -> ps_sub (ps_g g a) (ps_g g b) = Some (ps_g g c).
Proof. exact ps_g_sub. Qed.

Theorem C36_pairstate_g_xor :
  forall (K : ordring) (d : nat) (n : Z) (g : lop K) (a b c : pstate K),
    lop_wf K d n g -> ps_wf K d a -> ps_wf K d b -> ps_in K n a -> ps_in K n b ->
    ps_xor a b = Some c -> ps_xor (ps_g g a) (ps_g g b) = Some (ps_g g c).
Proof. exact ps_g_xor. Qed.

Theorem C36_pairstate_g_iszero_eq :
  forall (K : ordring) (d : nat) (n : Z) (g : lop K) (a b : pstate K),
    (lop_wf K d n g -> ps_wf K d a -> ps_in K n a -> ps_iszero a = true -> ps_iszero (ps_g g a) = true) /\
    (ps_eqb a b = true -> ps_eqb (ps_g g a) (ps_g g b) = true).
Proof. intros K d n g a b. split; [exact (ps_g_iszero K d n g a) | exact (ps_g_eq K g a b)]. Qed.

(* ---------- ClusterSite ---------- *)
Theorem C36_clustersite_eq_ne_hash :
  forall (H : list Z -> Z) (a b c : csite),
    cs_eqb a a = true /\ cs_eqb a b = cs_eqb b a /\
    (cs_eqb a b = true -> cs_eqb b c = true -> cs_eqb a c = true) /\
    cs_neb a b = negb (cs_eqb a b) /\ (cs_eqb a b = true -> cs_hash H a = cs_hash H b).
Proof. exact cs_eq_laws. Qed.

Theorem C36_clustersite_arith :
  forall (a : csite) (v : vec),
    cs_neg (cs_neg a) = a /\
    (cs_add a v = None <-> length v <> length (cs_R a)) /\
    (length v = length (cs_R a) -> exists b, cs_add a v = Some b /\ cs_sub b v = Some a).
Proof.
  intros a v. split; [exact (cs_neg_neg a) | split; [exact (cs_add_defined (fun _ => 0) a v) | exact (cs_add_sub a v)]].
Qed.

Theorem C36_clustersite_g_add :
  forall (K : ordring) (d : nat) (n : Z) (g : lop K) (a b : csite) (v : vec),
    lop_wf K d n g -> length (cs_R a) = d -> length v = d -> 0 <= cs_i a < n ->
    cs_add a v = Some b -> cs_add (cs_g g a) (mulmv (l_rot g) v) = Some (cs_g g b).
Proof. exact cs_g_add. Qed.

(* ---------- Cluster ---------- *)
Theorem C36_cluster_eq_ne_hash :
  forall (H : list Z -> Z) (d : nat) (a b c : cluster),
    cl_canon d a -> cl_canon d b -> cl_canon d c ->
    cl_eqb a a = true /\ cl_eqb a b = cl_eqb b a /\
    (cl_eqb a b = true -> cl_eqb b c = true -> cl_eqb a c = true) /\
    cl_neb a b = negb (cl_eqb a b) /\
    (NoDup (cl_entries a) -> NoDup (cl_entries b) -> cl_eqb a b = true -> cl_hash H a = cl_hash H b).
Proof. exact cl_eq_laws. Qed.

(* Cluster.__init__ produces the canonical form assumed above, and it is translation invariant *)
Theorem C36_cluster_init_canonical :
  forall (l : list csite) (t v ns : bool) (c : cluster),
    cl_make l t v ns = Some c -> (t = true -> (2 <= length l)%nat) -> exists d, cl_canon d c.
Proof. exact cl_make_canon. Qed.

Theorem C36_cluster_init_translation_invariant :
  forall (d : nat) (l : list csite) (T : vec) (t v ns : bool),
    (forall s, In s l -> length (cs_R s) = d) -> length T = d ->
    cl_make (map (cs_shift T) l) t v ns = cl_make l t v ns.
Proof. exact cl_make_shift. Qed.

(* the hash law needs "no repeated site": with repetitions equal clusters hash differently
   unless the hash function collides (out of the class's domain: a cluster is a SET of sites) *)
Theorem C36_cluster_hash_repeated_site_refuted :
  cl_eqb dup_a dup_b = true /\
  forall H : list Z -> Z, cl_hash H dup_a = cl_hash H dup_b -> H [0; 0; -5] = H [0; 0; 5].
Proof. exact cl_hash_dup_refuted. Qed.

(* ---------- tolerance-compared types ---------- *)
Theorem C36_close_refl :
  forall K : ordring, (forall a b : K, rle K a b \/ rle K b a) ->
  forall atol rtol : K, rle K (r0 K) atol -> rle K (r0 K) rtol -> forall a : K, close atol rtol a a = true.
Proof. exact close_refl. Qed.

Theorem C36_close_equiv_on_separated :
  forall K : ordring, (forall a b : K, rle K a b \/ rle K b a) ->
  forall atol rtol : K, rle K (r0 K) atol -> rle K (r0 K) rtol ->
  forall S : K -> Prop, separated K atol rtol S ->
  forall x y z : K, S x -> S y -> S z ->
    close atol rtol x x = true /\ close atol rtol x y = close atol rtol y x /\
    (close atol rtol x y = true -> close atol rtol y z = true -> close atol rtol x z = true).
Proof. exact close_equiv_on_separated. Qed.

Theorem C36_groupop_eq_refl_ne_hash :
  forall K : ordring, (forall a b : K, rle K a b \/ rle K b a) ->
  forall atol rtol : K, rle K (r0 K) atol -> rle K (r0 K) rtol ->
  forall (Hb : list Z -> Z) (Hm : list (list Z) -> Z) (a b : groupop K),
    go_eqb atol rtol a a = true /\ go_neb atol rtol a b = negb (go_eqb atol rtol a b) /\
    (go_eqb atol rtol a b = true -> go_hash Hb Hm a = go_hash Hb Hm b).
Proof.
  intros K T atol rtol Ha Hr Hb Hm a b.
  split; [exact (go_eq_refl K T atol rtol Ha Hr a) | split; [reflexivity | exact (go_eq_hash K atol rtol Hb Hm a b)]].
Qed.

Theorem C36_groupop_equiv_on_separated :
  forall K : ordring, (forall a b : K, rle K a b \/ rle K b a) ->
  forall atol rtol : K, rle K (r0 K) atol -> rle K (r0 K) rtol ->
  forall S : K -> Prop, separated K atol rtol S ->
  forall a b c : groupop K,
    Forall S (go_trans a) -> Forall S (go_trans b) -> Forall S (go_trans c) ->
    Forall S (concat (go_cart a)) -> Forall S (concat (go_cart b)) -> Forall S (concat (go_cart c)) ->
    go_eqb atol rtol a b = go_eqb atol rtol b a /\
    (go_eqb atol rtol a b = true -> go_eqb atol rtol b c = true -> go_eqb atol rtol a c = true).
Proof. exact go_eq_equiv_on_separated. Qed.

Theorem C36_vtk_eq_refl_ne :
  forall K : ordring, (forall a b : K, rle K a b \/ rle K b a) ->
  forall atol rtol : K, rle K (r0 K) atol -> rle K (r0 K) rtol ->
  forall a b : vtk K, vtk_eqb atol rtol a a = true /\ vtk_neb atol rtol a b = negb (vtk_eqb atol rtol a b).
Proof. intros K T atol rtol Ha Hr a b. split; [exact (vtk_eq_refl K T atol rtol Ha Hr a) | reflexivity]. Qed.

Theorem C36_vtk_equiv_hash_on_separated :
  forall K : ordring, (forall a b : K, rle K a b \/ rle K b a) ->
  forall atol rtol : K, rle K (r0 K) atol -> rle K (r0 K) rtol ->
  forall (Hk : list K -> Z) (S : K -> Prop), separated K atol rtol S ->
  forall a b c : vtk K, vtk_values K S a -> vtk_values K S b -> vtk_values K S c ->
    vtk_eqb atol rtol a b = vtk_eqb atol rtol b a /\
    (vtk_eqb atol rtol a b = true -> vtk_eqb atol rtol b c = true -> vtk_eqb atol rtol a c = true) /\
    (vtk_eqb atol rtol a b = true -> vtk_hash Hk a = vtk_hash Hk b).
Proof. exact vtk_equiv_on_separated. Qed.

(* witnesses: with numpy's default tolerances (the doubles 1e-8, 1e-5) the tolerant equalities are
   neither symmetric nor transitive, and equal vTK keys have different hash inputs *)
Theorem C36_close_sym_refuted :
  exists a b : Qcring, close np_atol np_rtol a b = true /\ close np_atol np_rtol b a = false.
Proof. exact close_sym_refuted. Qed.

Theorem C36_close_trans_refuted :
  exists a b c : Qcring, close np_atol np_rtol a b = true /\ close np_atol np_rtol b c = true /\
                         close np_atol np_rtol a c = false.
Proof. exact close_trans_refuted. Qed.

Theorem C36_groupop_eq_sym_refuted :
  exists a b : groupop Qcring, go_eqb np_atol np_rtol a b = true /\ go_eqb np_atol np_rtol b a = false.
Proof. exact go_eq_sym_refuted. Qed.

Theorem C36_groupop_eq_trans_refuted :
  exists a b c : groupop Qcring, go_eqb np_atol np_rtol a b = true /\ go_eqb np_atol np_rtol b c = true /\
                                 go_eqb np_atol np_rtol a c = false.
Proof. exact go_eq_trans_refuted. Qed.

Theorem C36_vtk_eq_sym_refuted :
  exists a b : vtk Qcring, vtk_eqb np_atol np_rtol a b = true /\ vtk_eqb np_atol np_rtol b a = false.
Proof. exact vtk_eq_sym_refuted. Qed.

Theorem C36_vtk_eq_trans_refuted :
  exists a b c : vtk Qcring, vtk_eqb np_atol np_rtol a b = true /\ vtk_eqb np_atol np_rtol b c = true /\
                             vtk_eqb np_atol np_rtol a c = false.
Proof. exact vtk_eq_trans_refuted. Qed.

Theorem C36_vtk_hash_refuted :
  exists a b : vtk Qcring, vtk_eqb np_atol np_rtol a b = true /\ vtk_bytes a <> vtk_bytes b.
Proof. exact vtk_hash_refuted. Qed.

Theorem C36_vtk_hash_needs_collision :
  forall Hk : list Qcring -> Z,
    (forall a b : vtk Qcring, vtk_eqb np_atol np_rtol a b = true -> vtk_hash Hk a = vtk_hash Hk b) ->
    exists x y : list Qcring, x <> y /\ Hk x = Hk y.
Proof. exact vtk_hash_needs_collision. Qed.

Goal True. idtac "ASSUMPTIONS-OF C36_pairstate_eq_ne_hash". Abort.
Print Assumptions C36_pairstate_eq_ne_hash.
Goal True. idtac "ASSUMPTIONS-OF C36_pairstate_iszero". Abort.
Print Assumptions C36_pairstate_iszero.
Goal True. idtac "ASSUMPTIONS-OF C36_pairstate_neg_neg". Abort.
Print Assumptions C36_pairstate_neg_neg.
Goal True. idtac "ASSUMPTIONS-OF C36_pairstate_add_neg". Abort.
Print Assumptions C36_pairstate_add_neg.
Goal True. idtac "ASSUMPTIONS-OF C36_pairstate_neg_add". Abort.
Print Assumptions C36_pairstate_neg_add.
Goal True. idtac "ASSUMPTIONS-OF C36_pairstate_sub_add". Abort.
Print Assumptions C36_pairstate_sub_add.
Goal True. idtac "ASSUMPTIONS-OF C36_pairstate_add_xor". Abort.
Print Assumptions C36_pairstate_add_xor.
Goal True. idtac "ASSUMPTIONS-OF C36_pairstate_sub_add_all_fields". Abort.
Print Assumptions C36_pairstate_sub_add_all_fields.
Goal True. idtac "ASSUMPTIONS-OF C36_pairstate_add_xor_all_fields". Abort.
Print Assumptions C36_pairstate_add_xor_all_fields.
Goal True. idtac "ASSUMPTIONS-OF C36_pairstate_add_raises". Abort.
Print Assumptions C36_pairstate_add_raises.
Goal True. idtac "ASSUMPTIONS-OF C36_pairstate_xor_raises". Abort.
Print Assumptions C36_pairstate_xor_raises.
Goal True. idtac "ASSUMPTIONS-OF C36_pairstate_g_neg". Abort.
Print Assumptions C36_pairstate_g_neg.
Goal True. idtac "ASSUMPTIONS-OF C36_pairstate_g_add". Abort.
Print Assumptions C36_pairstate_g_add.
Goal True. idtac "ASSUMPTIONS-OF C36_pairstate_g_sub". Abort.
Print Assumptions C36_pairstate_g_sub.
Goal True. idtac "ASSUMPTIONS-OF C36_pairstate_g_xor". Abort.
Print Assumptions C36_pairstate_g_xor.
Goal True. idtac "ASSUMPTIONS-OF C36_pairstate_g_iszero_eq". Abort.
Print Assumptions C36_pairstate_g_iszero_eq.
Goal True. idtac "ASSUMPTIONS-OF C36_clustersite_eq_ne_hash". Abort.
Print Assumptions C36_clustersite_eq_ne_hash.
Goal True. idtac "ASSUMPTIONS-OF C36_clustersite_arith". Abort.
Print Assumptions C36_clustersite_arith.
Goal True. idtac "ASSUMPTIONS-OF C36_clustersite_g_add". Abort.
Print Assumptions C36_clustersite_g_add.
Goal True. idtac "ASSUMPTIONS-OF C36_cluster_eq_ne_hash". Abort.
Print Assumptions C36_cluster_eq_ne_hash.
Goal True. idtac "ASSUMPTIONS-OF C36_cluster_init_canonical". Abort.
Print Assumptions C36_cluster_init_canonical.
Goal True. idtac "ASSUMPTIONS-OF C36_cluster_init_translation_invariant". Abort.
Print Assumptions C36_cluster_init_translation_invariant.
Goal True. idtac "ASSUMPTIONS-OF C36_cluster_hash_repeated_site_refuted". Abort.
Print Assumptions C36_cluster_hash_repeated_site_refuted.
Goal True. idtac "ASSUMPTIONS-OF C36_close_refl". Abort.
Print Assumptions C36_close_refl.
Goal True. idtac "ASSUMPTIONS-OF C36_close_equiv_on_separated". Abort.
Print Assumptions C36_close_equiv_on_separated.
Goal True. idtac "ASSUMPTIONS-OF C36_groupop_eq_refl_ne_hash". Abort.
Print Assumptions C36_groupop_eq_refl_ne_hash.
Goal True. idtac "ASSUMPTIONS-OF C36_groupop_equiv_on_separated". Abort.
Print Assumptions C36_groupop_equiv_on_separated.
Goal True. idtac "ASSUMPTIONS-OF C36_vtk_eq_refl_ne". Abort.
Print Assumptions C36_vtk_eq_refl_ne.
Goal True. idtac "ASSUMPTIONS-OF C36_vtk_equiv_hash_on_separated". Abort.
Print Assumptions C36_vtk_equiv_hash_on_separated.
Goal True. idtac "ASSUMPTIONS-OF C36_close_sym_refuted". Abort.
Print Assumptions C36_close_sym_refuted.
Goal True. idtac "ASSUMPTIONS-OF C36_close_trans_refuted". Abort.
Print Assumptions C36_close_trans_refuted.
Goal True. idtac "ASSUMPTIONS-OF C36_groupop_eq_sym_refuted". Abort.
Print Assumptions C36_groupop_eq_sym_refuted.
Goal True. idtac "ASSUMPTIONS-OF C36_groupop_eq_trans_refuted". Abort.
Print Assumptions C36_groupop_eq_trans_refuted.
Goal True. idtac "ASSUMPTIONS-OF C36_vtk_eq_sym_refuted". Abort.
Print Assumptions C36_vtk_eq_sym_refuted.
Goal True. idtac "ASSUMPTIONS-OF C36_vtk_eq_trans_refuted". Abort.
Print Assumptions C36_vtk_eq_trans_refuted.
Goal True. idtac "ASSUMPTIONS-OF C36_vtk_hash_refuted". Abort.
Print Assumptions C36_vtk_hash_refuted.
Goal True. idtac "ASSUMPTIONS-OF C36_vtk_hash_needs_collision". Abort.
Print Assumptions C36_vtk_hash_needs_collision.
