(* C07  Results do not depend on the thermodynamic range beyond the interactions.
   Two calculators with ranges N1 < N2 fed the same tag data describe the same one-solute/one-vacancy chain:
   - transitions the larger calculator adds lie between non-interacting states and are back-filled by LIMB, which
     for non-interacting states is exactly the bare rate (C07_limb_noninteracting_is_bare);
   - equal edge multisets give equal coefficients (C07_same_network_same_L), for every torus size. *)
From Coq Require Import List Arith.
From Onsager Require Import Base.OrdRing Model.Net Model.Thermo Proofs.Net_proofs Proofs.Thermo_proofs.
Import ListNotations.

Theorem C07_limb_noninteracting_is_bare :
  forall (K : ordring) (ex sq : K -> K) (half : K),
    (forall a b, ex (radd K a b) = rmul K (ex a) (ex b)) ->
    (forall a, rle K (r0 K) a -> sq (rmul K a a) = a) ->
    radd K half half = r1 K ->
    forall preT0 ET0 pS ES, rle K (r0 K) pS ->
      weight ex (rmul K preT0 (sq (rmul K pS pS)), radd K ET0 (rmul K half (radd K ES ES)))
      = rmul K (weight ex (preT0, ET0)) (weight ex (pS, ES)).
Proof. exact limb_noninteracting_is_bare. Qed.

Theorem C07_same_network_same_L :
  forall (K : ordring) (N N' : net K) dA dB gA gB gA' gB',
    Permutation.Permutation N N' -> weakKCL N dA gA -> weakKCL N' dB gB' ->
    Bform N dA dB gA gB = Bform N' dA dB gA' gB'.
Proof.
  intros K N N' dA dB gA gB gA' gB' HP HA HB.
  rewrite (perm_Bform K N N' dA dB gA gB HP).
  apply L_welldef; [apply (perm_KCL K N N' dA gA HP HA) | exact HB].
Qed.

Goal True. idtac "ASSUMPTIONS-OF C07_limb_noninteracting_is_bare". Abort.
Print Assumptions C07_limb_noninteracting_is_bare.
Goal True. idtac "ASSUMPTIONS-OF C07_same_network_same_L". Abort.
Print Assumptions C07_same_network_same_L.
