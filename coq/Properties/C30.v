(* C30  Automation tarballs are complete and self-consistent.
   Statements only; every proof is `exact <lemma>` of Proofs/.  The checkers are run inside Coq by
   harness/c30.py on the contents of the archive written by automator.supercelltar; the tar container,
   make and the perl interpreter are runtimes outside the model (exercised for real by the harness) --
   hence `_partial` for the statements whose full version speaks about running those tools. *)
From Coq Require Import List ZArith Bool.
From Onsager Require Import Model.Supercell Model.SupercellMap Proofs.Supercell_proofs Proofs.SupercellMap_proofs.
Import ListNotations.
Local Open Scope Z_scope.

(* tags.json is a bijection between tags and the state/transition directories of the archive
   (strings as lists of character codes): no tag twice, no directory twice, a directory is in the
   archive iff some tag is mapped to it *)
Theorem C30_dirmap_bijective :
  forall pairs dirs, bijectionb pairs dirs = true ->
  NoDup (map fst pairs) /\ NoDup (map snd pairs) /\ (forall d, In d dirs <-> exists tag, In (tag, d) pairs).
Proof. exact bijectionb_sound. Qed.

(* a transformation file (rot, trans given by the operation with site map idx; flat = the permutation line):
   the species blocks are respected (so copying the header is right) and atom line k of the endpoint's POSCAR
   is the image under g of atom line flat[k] of the state's POSCAR -- what trans.pl prints *)
Theorem C30_transfile_semantics_partial :
  forall idx flat A B, transfileb idx flat A B = true ->
  map zlen (chemorder A) = map zlen (chemorder B) /\
  (forall f, In f flat -> 0 <= f < zlen (concat (chemorder A))) /\
  map (fun f => nth (Z.to_nat f) (line_species (chemorder A)) (-1)) flat = line_species (chemorder B) /\
  concat (chemorder B) = map (fun f => site_image idx (nth (Z.to_nat f) (concat (chemorder A)) 0)) flat.
Proof. exact transfileb_sound. Qed.

(* the (g, mapping) the file was written from transforms the state supercell into the endpoint (C27) *)
Theorem C30_mapping_sound :
  forall N Nchem idx mapping A B,
    equivb idx mapping A B = true -> is_perm N idx -> Inv N Nchem A -> (Nchem <= length mapping)%nat ->
    Inv N Nchem B /\ Equiv N idx mapping A B.
Proof. exact equivb_sound. Qed.

(* POSCAR files read back to the given supercells: content-level round trip (C28) *)
Theorem C30_poscar_roundtrip :
  forall g N Nchem s s0, (0 < Nchem)%nat -> guard_ok g Nchem -> Inv N Nchem s -> Inv N Nchem s0 ->
    exists content, poscar_write s = Some content /\ poscar_read g content s0 = (s, OK).
Proof. exact poscar_roundtrip. Qed.

(* every Makefile prerequisite is in the archive or is produced by a relaxation run *)
Theorem C30_deps_closed_partial :
  forall deps files, depsb deps files = true -> forall d, In d deps -> In d files.
Proof. exact depsb_sound. Qed.

Goal True. idtac "ASSUMPTIONS-OF C30_dirmap_bijective". Abort.
Print Assumptions C30_dirmap_bijective.
Goal True. idtac "ASSUMPTIONS-OF C30_transfile_semantics_partial". Abort.
Print Assumptions C30_transfile_semantics_partial.
Goal True. idtac "ASSUMPTIONS-OF C30_mapping_sound". Abort.
Print Assumptions C30_mapping_sound.
Goal True. idtac "ASSUMPTIONS-OF C30_poscar_roundtrip". Abort.
Print Assumptions C30_poscar_roundtrip.
Goal True. idtac "ASSUMPTIONS-OF C30_deps_closed_partial". Abort.
Print Assumptions C30_deps_closed_partial.
