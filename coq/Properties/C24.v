(* C24  Star sets are complete symmetry orbits of reachable pair states.
   Statements only; every proof is `exact <lemma>` of Proofs/Stars_proofs.v.
   Pair states (i, j, R) over integer lattice vectors; `states jumps nsites N origin` is the
   executable model of StarSet.generate, `sadd` of StarSet.__iadd__, `diffgen` of diffgenerate;
   `path jumps k s` : s is the end point of a chain of k jumps.  All statements hold for every
   jump list, every number of sites and every N (no bound). *)
From Coq Require Import List ZArith Arith.
From Onsager Require Import Model.Stars Proofs.Stars_proofs.
Import ListNotations.

(* the generated set is exactly: non-zero end points of chains of 1..N jumps (chains may pass
   through zero states -- that adds nothing), plus the origin states when requested *)
Theorem C24_states_eq_reachable :
  forall jumps, (forall j, In j jumps -> iszero j = false) ->
  forall nsites N origin s,
    In s (states jumps nsites N origin) <->
    (iszero s = false /\ exists k, 1 <= k <= N /\ path jumps k s) \/
    (origin = true /\ exists i, i < nsites /\ s = zero i).
Proof. exact states_path. Qed.

Theorem C24_states_nodup :
  forall jumps nsites N origin, NoDup (states jumps nsites N origin).
Proof. exact states_NoDup. Qed.

(* S(N1+N2) = S(N1) u { p + q <> 0 } : the semantics of adding star sets *)
Theorem C24_reach_add :
  forall jumps, (forall j, In j jumps -> iszero j = false) ->
  forall N1 N2 s, 1 <= N1 -> 1 <= N2 ->
    (In s (reach jumps (N1 + N2)) <->
     In s (reach jumps N1) \/
     exists p q, In p (reach jumps N1) /\ In q (reach jumps N2) /\ pj p = pi q /\ s = padd p q /\ iszero s = false).
Proof. exact reach_add. Qed.

(* the model of __iadd__ applied to two generated sets gives the set generated with the summed
   range (origin states as in the first operand) *)
Theorem C24_add_eq_generate :
  forall jumps nsites N1 N2 o1 o2,
    (forall j, In j jumps -> iszero j = false) -> 1 <= N1 -> 1 <= N2 ->
    forall s, In s (sadd (states jumps nsites N1 o1) (states jumps nsites N2 o2)) <->
              In s (states jumps nsites (N1 + N2) o1).
Proof. exact sadd_states. Qed.

(* the difference set is exactly the set of endpoint differences *)
Theorem C24_diff_contains :
  forall l1 l2 s,
    In s (diffgen l1 l2) <-> exists s1 s2, In s1 l1 /\ In s2 l2 /\ pi s1 = pi s2 /\ s = pxor s2 s1.
Proof. exact diffgen_spec. Qed.

(* verified checker run on the implementation's stars: they partition the distinct states and
   each star is exactly the orbit of its first member under the operation list *)
Theorem C24_stars_partition_orbits :
  forall ops sts stars, stars_okb ops sts stars = true ->
  NoDup sts /\
  (forall x, x < length sts -> exists k, (k < length stars /\ In x (nth k stars [])) /\
                              forall k', k' < length stars -> In x (nth k' stars []) -> k' = k) /\
  (forall k, k < length stars -> exists r, hd_error (nth k stars []) = Some r /\
      (forall x, In x (nth k stars []) -> x < length sts) /\
      (forall s, (exists x, In x (nth k stars []) /\ getst sts x = s) <->
                 (exists g, In g ops /\ s = gact g (getst sts r)))).
Proof. exact stars_okb_sound. Qed.

Theorem C24_index_consistent :
  forall n stars index, partition_okb n stars = true -> index_okb n stars index = true ->
  length index = n /\
  forall x k, x < n -> k < length stars -> (nth x index 0 = k <-> In x (nth k stars [])).
Proof. exact index_okb_sound. Qed.

Theorem C24_lookups_consistent :
  forall sts index qs, NoDup sts -> lookups_okb sts index qs = true ->
  forall s a b, In (s, a, b) qs ->
    (forall x, a = Some x <-> nth_error sts x = Some s) /\
    (a = None <-> ~ In s sts) /\
    b = match a with Some x => Some (nth x index 0) | None => None end.
Proof. exact lookups_okb_sound. Qed.

(* what result 0 of the correspondence runner (evaluated on the implementation's output on every
   run) establishes about that output *)
Theorem C24_correspondence_sound :
  forall jumps nsites N origin ops ists istars iindex qs,
  run_starset jumps nsites N origin ops ists istars iindex qs = 0 ->
  (forall s, In s ists <->
     (iszero s = false /\ exists k, 1 <= k <= N /\ path jumps k s) \/
     (origin = true /\ exists i, i < nsites /\ s = zero i)) /\
  NoDup ists /\
  (forall x, x < length ists -> exists k, (k < length istars /\ In x (nth k istars [])) /\
                              forall k', k' < length istars -> In x (nth k' istars []) -> k' = k) /\
  (forall k, k < length istars -> exists r, hd_error (nth k istars []) = Some r /\
      (forall x, In x (nth k istars []) -> x < length ists) /\
      (forall s, (exists x, In x (nth k istars []) /\ getst ists x = s) <->
                 (exists g, In g ops /\ s = gact g (getst ists r)))) /\
  (forall x k, x < length ists -> k < length istars -> (nth x iindex 0 = k <-> In x (nth k istars []))) /\
  (forall s a b, In (s, a, b) qs ->
    (forall x, a = Some x <-> nth_error ists x = Some s) /\ (a = None <-> ~ In s ists) /\
    b = match a with Some x => Some (nth x iindex 0) | None => None end).
Proof. exact run_starset_sound. Qed.

Theorem C24_add_correspondence_sound :
  forall jumps nsites N1 N2 o1 o2 isum,
  (forall j, In j jumps -> iszero j = false) -> 1 <= N1 -> 1 <= N2 ->
  run_add jumps nsites N1 N2 o1 o2 isum = 0 ->
  NoDup isum /\ forall s, In s isum <-> In s (states jumps nsites (N1 + N2) o1).
Proof. exact run_add_sound. Qed.

(* ONE object over any history of generate(N, flag) / += calls (state machine hstep; generate returns early only
   when range AND flag are unchanged): its state list is
   always duplicate free and exactly the set of a freshly built star set of its current range and
   flag -- nothing of an earlier, larger range (or of switched-off origin states) survives.  The
   model's look-up is sindex on that list, so C24_lookups_consistent applies to it after any history. *)
Theorem C24_history_invariant :
  forall jumps nsites N0 o0 h, (forall j, In j jumps -> iszero j = false) ->
  let obj := hrun jumps nsites N0 o0 h in
  NoDup (ost obj) /\ forall s, In s (ost obj) <-> In s (states jumps nsites (oN obj) (oo obj)).
Proof. exact hist_invariant. Qed.

(* the LAST generate request decides: whatever the history, after generate(N, o) the object has range N, flag o and
   exactly the states of a fresh star set of that range and flag (a changed flag at unchanged range is not ignored) *)
Theorem C24_history_last_request :
  forall jumps nsites N0 o0 h N o, (forall j, In j jumps -> iszero j = false) ->
  let obj := hrun jumps nsites N0 o0 (h ++ [HGen N o]) in
  oN obj = N /\ oo obj = o /\ NoDup (ost obj) /\ forall s, In s (ost obj) <-> In s (states jumps nsites N o).
Proof. exact hist_last_request. Qed.

(* result 0 of the history runner (implementation object driven through the same history): it agrees
   with the state machine and passes the fresh-object runner for the machine's current range/flag *)
Theorem C24_history_correspondence_sound :
  forall jumps nsites N0 o0 h ops ists istars iindex qs,
  run_hist jumps nsites N0 o0 h ops ists istars iindex qs = 0 ->
  let obj := hrun jumps nsites N0 o0 h in
  (forall s, In s ists <-> In s (ost obj)) /\
  run_starset jumps nsites (oN obj) (oo obj) ops ists istars iindex qs = 0.
Proof. exact run_hist_sound. Qed.

Goal True. idtac "ASSUMPTIONS-OF C24_states_eq_reachable". Abort.
Print Assumptions C24_states_eq_reachable.
Goal True. idtac "ASSUMPTIONS-OF C24_states_nodup". Abort.
Print Assumptions C24_states_nodup.
Goal True. idtac "ASSUMPTIONS-OF C24_reach_add". Abort.
Print Assumptions C24_reach_add.
Goal True. idtac "ASSUMPTIONS-OF C24_add_eq_generate". Abort.
Print Assumptions C24_add_eq_generate.
Goal True. idtac "ASSUMPTIONS-OF C24_diff_contains". Abort.
Print Assumptions C24_diff_contains.
Goal True. idtac "ASSUMPTIONS-OF C24_stars_partition_orbits". Abort.
Print Assumptions C24_stars_partition_orbits.
Goal True. idtac "ASSUMPTIONS-OF C24_index_consistent". Abort.
Print Assumptions C24_index_consistent.
Goal True. idtac "ASSUMPTIONS-OF C24_lookups_consistent". Abort.
Print Assumptions C24_lookups_consistent.
Goal True. idtac "ASSUMPTIONS-OF C24_correspondence_sound". Abort.
Print Assumptions C24_correspondence_sound.
Goal True. idtac "ASSUMPTIONS-OF C24_add_correspondence_sound". Abort.
Print Assumptions C24_add_correspondence_sound.
Goal True. idtac "ASSUMPTIONS-OF C24_history_invariant". Abort.
Print Assumptions C24_history_invariant.
Goal True. idtac "ASSUMPTIONS-OF C24_history_correspondence_sound". Abort.
Print Assumptions C24_history_correspondence_sound.
Goal True. idtac "ASSUMPTIONS-OF C24_history_last_request". Abort.
Print Assumptions C24_history_last_request.
