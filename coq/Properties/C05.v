(* C05  Faster transitions never reduce diffusivity (Rayleigh monotonicity).
   Lowering one transition-state free energy multiplies the conductances of exactly that class by
   ex(delta) >= 1 and leaves site weights (hence all other conductances, topology, displacements) fixed:
   the new network dominates the old one edge by edge. *)
From Coq Require Import List Arith.
From Onsager Require Import Base.OrdRing Model.Net Model.NetMaps Model.Thermo Proofs.Net_proofs Proofs.NetMaps_proofs Proofs.Thermo_proofs.
Import ListNotations.

Theorem C05_rayleigh :
  forall (K : ordring) (N N' : net K) d g g',
    geometric K d -> nonneg N -> dominated N N' ->
    weakKCL N d g -> weakKCL N' d g' ->
    rle K (Bform N d d g g) (Bform N' d d g' g').
Proof. exact rayleigh. Qed.

Theorem C05_domination_checker_sound :
  forall (K : ordring) (N N' : net K), dominatedb N N' = true -> dominated N N'.
Proof. exact dominatedb_sound. Qed.

(* tensor form: for EVERY direction n (coefficient list), n.L.n <= n.L'.n *)
Theorem C05_rayleigh_every_direction :
  forall (K : ordring) (N N' : net K) dim coef (g g' : nat -> nat -> K),
    nonneg N -> dominated N N' ->
    (forall l, l < dim -> weakKCL N (comp l) (g l)) ->
    (forall l, l < dim -> weakKCL N' (comp l) (g' l)) ->
    rle K (sumf (fun a => sumf (fun b => rmul K (rmul K (nth a coef (r0 K)) (nth b coef (r0 K)))
                                          (Bform N (comp a) (comp b) (g a) (g b))) (seq 0 dim)) (seq 0 dim))
          (sumf (fun a => sumf (fun b => rmul K (rmul K (nth a coef (r0 K)) (nth b coef (r0 K)))
                                          (Bform N' (comp a) (comp b) (g' a) (g' b))) (seq 0 dim)) (seq 0 dim)).
Proof. exact rayleigh_tensor. Qed.

(* the contracted displacement n.d of any direction n is geometric, so the statement holds "in any direction" *)
Theorem C05_components_geometric :
  forall (K : ordring) k, geometric K (comp (K:=K) k).
Proof. exact comp_geometric. Qed.

(* lowering a transition-state energy by delta multiplies its weight by ex(delta); site weights untouched *)
Theorem C05_lowering_scales_weight :
  forall (K : ordring) (ex : K -> K), (forall a b, ex (radd K a b) = rmul K (ex a) (ex b)) ->
  forall delta ts, weight ex (shift (ropp K delta) ts) = rmul K (ex (ropp K (ropp K delta))) (weight ex ts).
Proof. intros K ex H delta ts. exact (weight_shift K ex H (ropp K delta) ts). Qed.

Goal True. idtac "ASSUMPTIONS-OF C05_rayleigh". Abort.
Print Assumptions C05_rayleigh.
Goal True. idtac "ASSUMPTIONS-OF C05_rayleigh_every_direction". Abort.
Print Assumptions C05_rayleigh_every_direction.
Goal True. idtac "ASSUMPTIONS-OF C05_domination_checker_sound". Abort.
Print Assumptions C05_domination_checker_sound.
Goal True. idtac "ASSUMPTIONS-OF C05_components_geometric". Abort.
Print Assumptions C05_components_geometric.
Goal True. idtac "ASSUMPTIONS-OF C05_lowering_scales_weight". Abort.
Print Assumptions C05_lowering_scales_weight.
