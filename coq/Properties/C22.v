(* C22  k-point mesh reduction integrates symmetric functions exactly.
   Statements only; every proof is `exact <lemma>` of Proofs/.  Meshes range over every list of
   points of every type, class functions over every function into a type with decidable
   equality, integrands over EVERY function constant on the classes with values in EVERY ordered
   commutative ring (Z, Qc, R, ...). *)
From Coq Require Import ZArith List Bool Arith.
From Onsager Require Import Base.OrdRing Model.Geom3 Model.KMesh Proofs.Geom3_proofs Proofs.KMesh_proofs.
Import ListNotations.

(* greedy representative selection: the count-weighted sum over the representatives equals the
   full-mesh sum for every class-invariant function (divide by the mesh size: weights count/N) *)
Theorem C22_reduce_integrates :
  forall (A B : Type) (cls : A -> B) (beqb : B -> B -> bool),
    (forall a b, beqb a b = true <-> a = b) ->
  forall (K : ordring) (f : A -> K), (forall a b, cls a = cls b -> f a = f b) ->
  forall mesh, wsum f (reduce cls beqb mesh) = sumf f mesh.
Proof. exact reduce_integrates. Qed.

(* counts (weights * N) are positive and add up to N, representatives are mesh points *)
Theorem C22_reduce_positive :
  forall (A B : Type) (cls : A -> B) (beqb : B -> B -> bool) mesh rc,
    In rc (reduce cls beqb mesh) -> 0 < snd rc.
Proof. exact reduce_positive. Qed.

Theorem C22_reduce_total :
  forall (A B : Type) (cls : A -> B) (beqb : B -> B -> bool) mesh,
    total (reduce cls beqb mesh) = length mesh.
Proof. exact reduce_total. Qed.

Theorem C22_reduce_reps_in_mesh :
  forall (A B : Type) (cls : A -> B) (beqb : B -> B -> bool) mesh rc,
    In rc (reduce cls beqb mesh) -> In (fst rc) mesh.
Proof. exact reduce_reps_in_mesh. Qed.

(* ANY reduction accepted by the checker (in particular the implementation's) integrates every
   class-invariant function exactly, with positive counts adding up to the mesh size *)
Theorem C22_valid_reduction_integrates :
  forall (A B : Type) (cls : A -> B) (beqb : B -> B -> bool),
    (forall a b, beqb a b = true <-> a = b) ->
  forall (K : ordring) (f : A -> K) mesh red,
    (forall a b, cls a = cls b -> f a = f b) ->
    valid_reductionb cls beqb mesh red = true -> wsum f red = sumf f mesh.
Proof. exact valid_reduction_integrates. Qed.

Theorem C22_valid_reduction_total :
  forall (A B : Type) (cls : A -> B) (beqb : B -> B -> bool),
    (forall a b, beqb a b = true <-> a = b) ->
  forall mesh red, valid_reductionb cls beqb mesh red = true -> total red = length mesh.
Proof. exact valid_reduction_total. Qed.

(* the same for reductions that list several representatives of one class (an orbit split into parts, each counted
   separately): all counts positive and, after merging equal classes, a valid reduction *)
Theorem C22_valid_reduction2_integrates :
  forall (A B : Type) (cls : A -> B) (beqb : B -> B -> bool),
    (forall a b, beqb a b = true <-> a = b) ->
  forall (K : ordring) (f : A -> K) mesh red,
    (forall a b, cls a = cls b -> f a = f b) ->
    valid_reduction2b cls beqb mesh red = true -> wsum f red = sumf f mesh.
Proof. exact valid_reduction2_integrates. Qed.

Theorem C22_valid_reduction2_total :
  forall (A B : Type) (cls : A -> B) (beqb : B -> B -> bool),
    (forall a b, beqb a b = true <-> a = b) ->
  forall mesh red, valid_reduction2b cls beqb mesh red = true -> total red = length mesh.
Proof. exact valid_reduction2_total. Qed.

(* with weights wt c = c/N (any wt with wt c * N = c):  N * weighted sum = full-mesh sum, i.e. the
   weighted sum is the full-mesh mean *)
Theorem C22_reduction_mean :
  forall (A B : Type) (cls : A -> B) (beqb : B -> B -> bool),
    (forall a b, beqb a b = true <-> a = b) ->
  forall (K : ordring) (f : A -> K) (wt : nat -> K) mesh red,
    (forall a b, cls a = cls b -> f a = f b) ->
    valid_reductionb cls beqb mesh red = true ->
    (forall c, rmul K (wt c) (nK (length mesh)) = nK c) ->
    rmul K (nK (length mesh)) (sumf (fun rc => rmul K (wt (snd rc)) (f (fst rc))) red) = sumf f mesh.
Proof. exact reduction_mean. Qed.

(* Brillouin zone: the finite test decides |k|^2 <= |k - H|^2 for ALL reciprocal lattice vectors H *)
Theorem C22_inBZb_sound : forall Q L c2 hmax n, inBZb Q L c2 hmax n = true ->
  forall h : V3, (2 * bil Q n h <= L * qf Q h)%Z.
Proof. exact inBZb_sound. Qed.

(* the class representative used for the orbits is itself a member of the orbit *)
Theorem C22_cls_min_in_orbit : forall ops n,
  cls_min ops n = n \/ exists T, In T ops /\ cls_min ops n = mulmv T n.
Proof. exact cls_min_in_orbit. Qed.

(* the decision run on the implementation's fullkptmesh / reducekptmesh output *)
Theorem C22_check_mesh_sound : forall k, fst (check_mesh k) = 0%nat ->
  (forall n, In n (m_full k) \/ In n (map fst (m_red k)) ->
     forall h : V3, (2 * bil (m_Q k) n h <= m_L k * qf (m_Q k) h)%Z) /\
  (forall rc, In rc (m_red k) -> (0 < snd rc)%nat) /\ total (m_red k) = length (m_full k) /\
  (forall (K : ordring) (f : V3 -> K),
      (forall a b, cls_min (m_ops k) a = cls_min (m_ops k) b -> f a = f b) ->
      wsum f (m_red k) = sumf f (m_full k)).
Proof. exact check_mesh_sound. Qed.

Goal True. idtac "ASSUMPTIONS-OF C22_reduce_integrates". Abort.
Print Assumptions C22_reduce_integrates.
Goal True. idtac "ASSUMPTIONS-OF C22_reduce_positive". Abort.
Print Assumptions C22_reduce_positive.
Goal True. idtac "ASSUMPTIONS-OF C22_reduce_total". Abort.
Print Assumptions C22_reduce_total.
Goal True. idtac "ASSUMPTIONS-OF C22_reduce_reps_in_mesh". Abort.
Print Assumptions C22_reduce_reps_in_mesh.
Goal True. idtac "ASSUMPTIONS-OF C22_valid_reduction_integrates". Abort.
Print Assumptions C22_valid_reduction_integrates.
Goal True. idtac "ASSUMPTIONS-OF C22_valid_reduction_total". Abort.
Print Assumptions C22_valid_reduction_total.
Goal True. idtac "ASSUMPTIONS-OF C22_valid_reduction2_integrates". Abort.
Print Assumptions C22_valid_reduction2_integrates.
Goal True. idtac "ASSUMPTIONS-OF C22_valid_reduction2_total". Abort.
Print Assumptions C22_valid_reduction2_total.
Goal True. idtac "ASSUMPTIONS-OF C22_reduction_mean". Abort.
Print Assumptions C22_reduction_mean.
Goal True. idtac "ASSUMPTIONS-OF C22_inBZb_sound". Abort.
Print Assumptions C22_inBZb_sound.
Goal True. idtac "ASSUMPTIONS-OF C22_cls_min_in_orbit". Abort.
Print Assumptions C22_cls_min_in_orbit.
Goal True. idtac "ASSUMPTIONS-OF C22_check_mesh_sound". Abort.
Print Assumptions C22_check_mesh_sound.
