(* C23  Coordinate conversions and symmetry actions are mutually consistent.
   Statements only; proofs are `exact <lemma>` of Proofs/Action_proofs.v, Cartesian_proofs.v,
   Lattice_proofs.v.  Lattice-coordinate half over Z with common denominator D = c_den C
   (Model/Lattice.v, Model/Action.v); Cartesian half over EVERY ordered commutative ring K
   (Model/Cartesian.v) with A = lattice, Ai = invlatt, cartrot = A S Ai. *)
From Coq Require Import ZArith List Bool Arith.
From Onsager Require Import Base.OrdRing Model.Lattice Model.Action Model.Cartesian
  Proofs.Lattice_proofs Proofs.Action_proofs Proofs.Cartesian_proofs.
Import ListNotations.

(* ---- conversions round-trip ------------------------------------------------------------------- *)
(* Cartesian <-> lattice coordinates: invlatt (lattice x) = x and lattice (invlatt v) = v *)
Theorem C23_cart_roundtrip :
  forall (K : ordring) (d : nat) (A Ai : kmat K),
    keq K d (kmm K d Ai A) (kI K) -> keq K d (kmm K d A Ai) (kI K) ->
    forall (x : kvec K) (i : nat), i < d ->
      kmv K d Ai (kmv K d A x) i = x i /\ kmv K d A (kmv K d Ai x) i = x i.
Proof. exact cart_roundtrip. Qed.

(* unit2cart (cart2unit v) = v for ANY choice of the in-cell part *)
Theorem C23_unit2cart_cart2unit :
  forall (K : ordring) (d : nat) (A Ai : kmat K),
    keq K d (kmm K d Ai A) (kI K) -> keq K d (kmm K d A Ai) (kI K) ->
    forall (v cell : kvec K) (i : nat), i < d ->
      unit2cart K d A (ksub K (kmv K d Ai v) cell) cell i = v i.
Proof. exact unit2cart_cart2unit. Qed.

(* cart2unit (unit2cart (R,u)): invlatt gives R + u, and the split into cell and unit-cell part
   returns exactly (R, u) when u lies in the cell *)
Theorem C23_cart2unit_unit2cart_linear :
  forall (K : ordring) (d : nat) (A Ai : kmat K),
    keq K d (kmm K d Ai A) (kI K) -> keq K d (kmm K d A Ai) (kI K) ->
    forall (R u : kvec K) (i : nat), i < d ->
      kmv K d Ai (unit2cart K d A R u) i = radd K (R i) (u i).
Proof. exact cart2unit_unit2cart. Qed.

Theorem C23_cart2unit_unit2cart_split :
  forall (D : Z) (R u : vec) (k : nat), (0 < D)%Z -> (0 <= u k < D)%Z ->
    fst (cart2unit_l D (unit2pos D R u)) k = R k /\ snd (cart2unit_l D (unit2pos D R u)) k = u k.
Proof. exact cart2unit_unit2pos. Qed.

Theorem C23_unit2pos_cart2unit :
  forall (D : Z) (p : vec) (k : nat), D <> 0%Z ->
    unit2pos D (fst (cart2unit_l D p)) (snd (cart2unit_l D p)) k = p k.
Proof. exact unit2pos_cart2unit. Qed.

(* cart2pos (pos2cart (R,(c,i))) = (R,(c,i)) when the basis is stored in the cell without coincidences *)
Theorem C23_cart2pos_pos2cart :
  forall C c i R, (0 < c_den C)%Z -> incell_basis C -> distinct_atoms C ->
    c < nchem C -> i < natoms C c ->
    snd (cart2pos_l C (atom_at C c i R)) = Some (c, i) /\
    forall k, k < c_dim C -> fst (cart2pos_l C (atom_at C c i R)) k = R k.
Proof. exact cart2pos_pos2cart. Qed.

(* ---- the routes agree ----------------------------------------------------------------------------- *)
(* g_pos returns the atom and cell where the affine map x -> S x + t sends atom (c,i) of cell R *)
Theorem C23_g_pos_correct :
  forall C g R c i, (0 < c_den C)%Z -> maps_atoms C g -> c < nchem C -> i < natoms C c ->
    forall k, k < c_dim C ->
      atom_at C c (pm g c i) (fst (g_pos C g R c i)) k = act (c_dim C) g (atom_at C c i R) k.
Proof. exact g_pos_correct. Qed.

(* g_vect returns the position S (R + u) + t, split with the unit-cell part inside the cell *)
Theorem C23_g_vect_correct :
  forall C g R u k, (0 < c_den C)%Z ->
    unit2pos (c_den C) (fst (g_vect C g R u)) (snd (g_vect C g R u)) k
      = act (c_dim C) g (unit2pos (c_den C) R u) k
    /\ (0 <= snd (g_vect C g R u) k < c_den C)%Z.
Proof. exact g_vect_correct. Qed.

(* g_vect on the unit-cell position of an atom = g_pos *)
Theorem C23_g_pos_g_vect_agree :
  forall C g R c i, (0 < c_den C)%Z -> maps_atoms C g -> perms_ok C g -> incell_basis C ->
    c < nchem C -> i < natoms C c -> forall k, k < c_dim C ->
      fst (g_vect C g R (upos C c i)) k = fst (g_pos C g R c i) k /\
      snd (g_vect C g R (upos C c i)) k = upos C c (pm g c i) k.
Proof. exact g_pos_vect_agree. Qed.

(* g_cart on the Cartesian image of a position = Cartesian image of S (R + u) + t *)
Theorem C23_g_cart_agrees :
  forall (K : ordring) (d : nat) (A Ai : kmat K),
    keq K d (kmm K d Ai A) (kI K) -> keq K d (kmm K d A Ai) (kI K) ->
    forall (S : kmat K) (t R u : kvec K) (i : nat),
      g_cart K d (cartrot K d A S Ai) A t (unit2cart K d A R u) i
      = kmv K d A (g_latt K d S t (kadd K R u)) i.
Proof. exact g_cart_unit2cart. Qed.

(* g_direc acts on Cartesian differences as the linear part; on lattice images as A S *)
Theorem C23_g_direc_agrees :
  forall (K : ordring) (d : nat) (A Ai : kmat K),
    keq K d (kmm K d Ai A) (kI K) -> keq K d (kmm K d A Ai) (kI K) ->
    forall (S : kmat K) (w : kvec K) (i : nat),
      g_direc K d (cartrot K d A S Ai) (kmv K d A w) i = kmv K d A (kmv K d S w) i.
Proof. exact g_direc_lattice. Qed.

Theorem C23_g_cart_difference :
  forall (K : ordring) (d : nat) (A Ai S : kmat K) (t x y : kvec K) (i : nat),
    rsub K (g_cart K d (cartrot K d A S Ai) A t x i) (g_cart K d (cartrot K d A S Ai) A t y i)
    = g_direc K d (cartrot K d A S Ai) (ksub K x y) i.
Proof. exact g_cart_diff. Qed.

(* g_tensor acts on dyads as g_direc on both factors and is additive (so on all tensors) *)
Theorem C23_g_tensor_dyad :
  forall (K : ordring) (d : nat) (Cr : kmat K) (u v : kvec K) (i j : nat),
    g_tensor K d Cr (kouter K u v) i j = kouter K (g_direc K d Cr u) (g_direc K d Cr v) i j.
Proof. exact g_tensor_outer. Qed.

Theorem C23_g_tensor_additive :
  forall (K : ordring) (d : nat) (Cr T1 T2 : kmat K) (i j : nat),
    g_tensor K d Cr (fun a b : nat => radd K (T1 a b) (T2 a b)) i j
    = radd K (g_tensor K d Cr T1 i j) (g_tensor K d Cr T2 i j).
Proof. exact g_tensor_add. Qed.

(* pair states: the (i, j, R) route and the dx = cartrot dx route agree (lattice coordinates of dx) *)
Theorem C23_pairstate_dx :
  forall C chem g s, (0 < c_den C)%Z -> maps_atoms C g ->
    chem < nchem C -> ps_i s < natoms C chem -> ps_j s < natoms C chem ->
    forall k, k < c_dim C ->
      ps_dx C chem (ps_g C chem g s) k = mv (c_dim C) (rot g) (ps_dx C chem s) k.
Proof. exact ps_g_dx. Qed.

(* PairState.g commutes with + and unary - of pair states *)
Theorem C23_pairstate_add :
  forall C chem g a b, ps_j a = ps_i b ->
    ps_eq (c_dim C) (ps_g C chem g (ps_add a b)) (ps_add (ps_g C chem g a) (ps_g C chem g b)).
Proof. exact ps_g_add. Qed.

Theorem C23_pairstate_neg :
  forall C chem g a, ps_eq (c_dim C) (ps_g C chem g (ps_neg a)) (ps_neg (ps_g C chem g a)).
Proof. exact ps_g_neg. Qed.

(* cluster sites: ClusterSite.g moves the site where the affine map sends it; commutes with + vector *)
Theorem C23_clustersite_pos :
  forall C g s, (0 < c_den C)%Z -> maps_atoms C g ->
    cs_c s < nchem C -> cs_i s < natoms C (cs_c s) -> forall k, k < c_dim C ->
      cs_pos C (cs_g C g s) k = act (c_dim C) g (cs_pos C s) k.
Proof. exact cs_g_pos. Qed.

Theorem C23_clustersite_add :
  forall C g s v k,
    cs_c (cs_g C g (cs_add s v)) = cs_c (cs_g C g s) /\ cs_i (cs_g C g (cs_add s v)) = cs_i (cs_g C g s) /\
    cs_R (cs_g C g (cs_add s v)) k = (cs_R (cs_g C g s) k + mv (c_dim C) (rot g) v k)%Z.
Proof. exact cs_g_add. Qed.

(* ---- composition and inversion ------------------------------------------------------------------------ *)
(* positions: acting with g1*g2 is acting with g2, then g1 (lattice coordinates, all positions) *)
Theorem C23_act_mul :
  forall d a b x k, k < d -> act d (op_mul d a b) x k = act d a (act d b x) k.
Proof. exact act_mul. Qed.

Theorem C23_g_pos_mul :
  forall C a b R c i, (0 < c_den C)%Z -> isSymOp C a -> isSymOp C b -> c < nchem C -> i < natoms C c ->
    snd (g_pos C (op_mul (c_dim C) a b) R c i) = snd (g_pos C a (fst (g_pos C b R c i)) c (pm b c i)) /\
    forall k, k < c_dim C ->
      fst (g_pos C (op_mul (c_dim C) a b) R c i) k = fst (g_pos C a (fst (g_pos C b R c i)) c (pm b c i)) k.
Proof. exact g_pos_mul. Qed.

Theorem C23_g_pos_inv :
  forall C a R c i, (0 < c_den C)%Z -> 1 <= c_dim C <= 3 -> isSymOp C a -> c < nchem C -> i < natoms C c ->
    snd (g_pos C (op_inv (c_dim C) a) (fst (g_pos C a R c i)) c (pm a c i)) = (c, i) /\
    forall k, k < c_dim C ->
      fst (g_pos C (op_inv (c_dim C) a) (fst (g_pos C a R c i)) c (pm a c i)) k = R k.
Proof. exact g_pos_inv. Qed.

Theorem C23_pairstate_mul :
  forall C chem a b s, (0 < c_den C)%Z -> isSymOp C a -> isSymOp C b ->
    chem < nchem C -> ps_i s < natoms C chem -> ps_j s < natoms C chem ->
    ps_eq (c_dim C) (ps_g C chem (op_mul (c_dim C) a b) s) (ps_g C chem a (ps_g C chem b s)).
Proof. exact ps_g_mul. Qed.

(* Cartesian: g_cart / g_direc of the product (cartrot C1 C2, trans S1 t2 + t1) compose; the product of
   the cartrots is the cartrot of the product *)
Theorem C23_g_cart_mul :
  forall (K : ordring) (d : nat) (A Ai : kmat K),
    keq K d (kmm K d Ai A) (kI K) -> keq K d (kmm K d A Ai) (kI K) ->
    forall (S1 : kmat K) (t1 : kvec K) (C2 : kmat K) (t2 x : kvec K) (i : nat),
      g_cart K d (kmm K d (cartrot K d A S1 Ai) C2) A (kadd K (kmv K d S1 t2) t1) x i
      = g_cart K d (cartrot K d A S1 Ai) A t1 (g_cart K d C2 A t2 x) i.
Proof. exact g_cart_mul. Qed.

Theorem C23_g_direc_mul :
  forall (K : ordring) (d : nat) (C1 C2 : kmat K) (v : kvec K) (i : nat),
    g_direc K d (kmm K d C1 C2) v i = g_direc K d C1 (g_direc K d C2 v) i.
Proof. exact g_direc_mul. Qed.

Theorem C23_cartrot_mul :
  forall (K : ordring) (d : nat) (A Ai : kmat K),
    keq K d (kmm K d Ai A) (kI K) -> keq K d (kmm K d A Ai) (kI K) ->
    forall (S1 S2 : kmat K) (x : kvec K) (i : nat),
      kmv K d (kmm K d (cartrot K d A S1 Ai) (cartrot K d A S2 Ai)) x i
      = kmv K d (cartrot K d A (kmm K d S1 S2) Ai) x i.
Proof. exact cartrot_mul. Qed.

(* an isometry of the lattice has an orthogonal cartrot, and the stored inverse (cartrot^T, -S^-1 t)
   acts as the inverse map on Cartesian positions *)
Theorem C23_cartrot_orthogonal :
  forall (K : ordring) (d : nat) (A Ai : kmat K),
    keq K d (kmm K d Ai A) (kI K) -> keq K d (kmm K d A Ai) (kI K) ->
    forall S : kmat K,
      (forall u v : kvec K, kdot K d (kmv K d A (kmv K d S u)) (kmv K d A (kmv K d S v))
                            = kdot K d (kmv K d A u) (kmv K d A v)) ->
      forall x y : kvec K,
        kdot K d (kmv K d (cartrot K d A S Ai) x) (kmv K d (cartrot K d A S Ai) y) = kdot K d x y.
Proof. exact cartrot_orthogonal. Qed.

Theorem C23_g_cart_inv :
  forall (K : ordring) (d : nat) (A Ai : kmat K),
    keq K d (kmm K d Ai A) (kI K) -> keq K d (kmm K d A Ai) (kI K) ->
    forall S Si : kmat K,
      (forall u v : kvec K, kdot K d (kmv K d A (kmv K d S u)) (kmv K d A (kmv K d S v))
                            = kdot K d (kmv K d A u) (kmv K d A v)) ->
      keq K d (kmm K d S Si) (kI K) ->
      forall (t x : kvec K) (i : nat), i < d ->
        g_cart K d (kT K (cartrot K d A S Ai)) A (kneg K (kmv K d Si t))
          (g_cart K d (cartrot K d A S Ai) A t x) i = x i.
Proof. exact g_cart_inv. Qed.

Goal True. idtac "ASSUMPTIONS-OF C23_cart_roundtrip". Abort.
Print Assumptions C23_cart_roundtrip.
Goal True. idtac "ASSUMPTIONS-OF C23_unit2cart_cart2unit". Abort.
Print Assumptions C23_unit2cart_cart2unit.
Goal True. idtac "ASSUMPTIONS-OF C23_cart2unit_unit2cart_linear". Abort.
Print Assumptions C23_cart2unit_unit2cart_linear.
Goal True. idtac "ASSUMPTIONS-OF C23_cart2unit_unit2cart_split". Abort.
Print Assumptions C23_cart2unit_unit2cart_split.
Goal True. idtac "ASSUMPTIONS-OF C23_unit2pos_cart2unit". Abort.
Print Assumptions C23_unit2pos_cart2unit.
Goal True. idtac "ASSUMPTIONS-OF C23_cart2pos_pos2cart". Abort.
Print Assumptions C23_cart2pos_pos2cart.
Goal True. idtac "ASSUMPTIONS-OF C23_g_pos_correct". Abort.
Print Assumptions C23_g_pos_correct.
Goal True. idtac "ASSUMPTIONS-OF C23_g_vect_correct". Abort.
Print Assumptions C23_g_vect_correct.
Goal True. idtac "ASSUMPTIONS-OF C23_g_pos_g_vect_agree". Abort.
Print Assumptions C23_g_pos_g_vect_agree.
Goal True. idtac "ASSUMPTIONS-OF C23_g_cart_agrees". Abort.
Print Assumptions C23_g_cart_agrees.
Goal True. idtac "ASSUMPTIONS-OF C23_g_direc_agrees". Abort.
Print Assumptions C23_g_direc_agrees.
Goal True. idtac "ASSUMPTIONS-OF C23_g_cart_difference". Abort.
Print Assumptions C23_g_cart_difference.
Goal True. idtac "ASSUMPTIONS-OF C23_g_tensor_dyad". Abort.
Print Assumptions C23_g_tensor_dyad.
Goal True. idtac "ASSUMPTIONS-OF C23_g_tensor_additive". Abort.
Print Assumptions C23_g_tensor_additive.
Goal True. idtac "ASSUMPTIONS-OF C23_pairstate_dx". Abort.
Print Assumptions C23_pairstate_dx.
Goal True. idtac "ASSUMPTIONS-OF C23_pairstate_add". Abort.
Print Assumptions C23_pairstate_add.
Goal True. idtac "ASSUMPTIONS-OF C23_pairstate_neg". Abort.
Print Assumptions C23_pairstate_neg.
Goal True. idtac "ASSUMPTIONS-OF C23_clustersite_pos". Abort.
Print Assumptions C23_clustersite_pos.
Goal True. idtac "ASSUMPTIONS-OF C23_clustersite_add". Abort.
Print Assumptions C23_clustersite_add.
Goal True. idtac "ASSUMPTIONS-OF C23_act_mul". Abort.
Print Assumptions C23_act_mul.
Goal True. idtac "ASSUMPTIONS-OF C23_g_pos_mul". Abort.
Print Assumptions C23_g_pos_mul.
Goal True. idtac "ASSUMPTIONS-OF C23_g_pos_inv". Abort.
Print Assumptions C23_g_pos_inv.
Goal True. idtac "ASSUMPTIONS-OF C23_pairstate_mul". Abort.
Print Assumptions C23_pairstate_mul.
Goal True. idtac "ASSUMPTIONS-OF C23_g_cart_mul". Abort.
Print Assumptions C23_g_cart_mul.
Goal True. idtac "ASSUMPTIONS-OF C23_g_direc_mul". Abort.
Print Assumptions C23_g_direc_mul.
Goal True. idtac "ASSUMPTIONS-OF C23_cartrot_mul". Abort.
Print Assumptions C23_cartrot_mul.
Goal True. idtac "ASSUMPTIONS-OF C23_cartrot_orthogonal". Abort.
Print Assumptions C23_cartrot_orthogonal.
Goal True. idtac "ASSUMPTIONS-OF C23_g_cart_inv". Abort.
Print Assumptions C23_g_cart_inv.
