(* C15  Tag input maps exactly onto symmetry classes.
   Statements only; proofs are `exact <lemma>` of Proofs/Tags_proofs.v.
   T = tags with a decidable equality (strings), D = the data attached to a tag, `classes` = the symmetry
   classes of all tag types (each a list of member tags), `disjoint` = every tag names at most one class
   (generatetags raises ValueError otherwise; checked on every generated calculator by harness/c15.py).
   That the generated tag strings really name the states / transitions of their class (parsing the
   rounded positions back) and that the class partition is the symmetry partition is checked per run on the
   implementation (C24/C26 own the star and jump-network theory). *)
From Coq Require Import List Arith Bool.
From Onsager Require Import Model.Codec Model.Tags Proofs.Tags_proofs.
Import ListNotations.

(* the verbose report = (classes with no supplied member tag, for every class with >= 2 supplied member tags
   exactly those tags, supplied tags that belong to no class) *)
Theorem C15_report_exact :
  forall (T : Type) (teqb : T -> T -> bool) (D : Type),
    (forall a b : T, teqb a b = true <-> a = b) ->
    forall (classes : list (list T)) (ud : list (T * D)),
      disjoint T classes -> report teqb classes ud = report_spec teqb classes ud.
Proof. exact report_exact. Qed.

(* tagdict: a tag is mapped to class n iff it is a member of class n *)
Theorem C15_tag_names_one_class :
  forall (T : Type) (teqb : T -> T -> bool),
    (forall a b : T, teqb a b = true <-> a = b) ->
    forall (classes : list (list T)) (t : T) (n : nat),
      disjoint T classes -> n < length classes ->
      (find_class teqb t classes 0 = Some n <-> In t (nth n classes [])).
Proof. exact find_class_disjoint. Qed.

(* supplying data under ANY one member tag of each class reproduces exactly that data *)
Theorem C15_one_member_reproduces :
  forall (T : Type) (teqb : T -> T -> bool) (D : Type),
    (forall a b : T, teqb a b = true <-> a = b) ->
    forall (classes : list (list T)) (chosen : list T) (xs dflt : list D),
      disjoint T classes ->
      length chosen = length classes -> length xs = length classes -> length dflt = length classes ->
      (forall (i : nat) (t : T), nth_error chosen i = Some t -> exists c, nth_error classes i = Some c /\ In t c) ->
      fill teqb classes dflt (combine chosen xs) = xs.
Proof. exact one_member_reproduces. Qed.

(* with several member tags of one class supplied, the first IN CLASS ORDER wins *)
Theorem C15_first_member_wins :
  forall (T : Type) (teqb : T -> T -> bool) (D : Type) (cls : list T) (ud : list (T * D)) (v : D),
    class_value teqb cls ud = Some v <->
    (exists pre t post, cls = pre ++ t :: post /\ assoc teqb t ud = Some v /\
                        forall s, In s pre -> assoc teqb s ud = None).
Proof. exact class_value_first. Qed.

(* the LIMB back-fill (any function of the four state arrays) is used only for omega1/omega2 classes without a tag *)
Theorem C15_limb_only_where_missing :
  forall (T : Type) (teqb : T -> T -> bool) (D : Type)
         (limb : list D -> list D -> list D -> list D -> list D * list D)
         (cV cS cSV c0 c1 c2 : list (list T)) (one : D) (ud : list (T * D)) (fV fS fSV f0 f1 f2 : list D),
    tags2preene teqb limb cV cS cSV c0 c1 c2 one ud = (fV, fS, fSV, f0, f1, f2) ->
    fV = fill teqb cV (repeat one (length cV)) ud /\ fS = fill teqb cS (repeat one (length cS)) ud /\
    fSV = fill teqb cSV (repeat one (length cSV)) ud /\ f0 = fill teqb c0 (repeat one (length c0)) ud /\
    f1 = fill teqb c1 (fst (limb fV fS fSV f0)) ud /\ f2 = fill teqb c2 (snd (limb fV fS fSV f0)) ud.
Proof. exact tags2preene_entries. Qed.

Goal True. idtac "ASSUMPTIONS-OF C15_report_exact". Abort.
Print Assumptions C15_report_exact.
Goal True. idtac "ASSUMPTIONS-OF C15_tag_names_one_class". Abort.
Print Assumptions C15_tag_names_one_class.
Goal True. idtac "ASSUMPTIONS-OF C15_one_member_reproduces". Abort.
Print Assumptions C15_one_member_reproduces.
Goal True. idtac "ASSUMPTIONS-OF C15_first_member_wins". Abort.
Print Assumptions C15_first_member_wins.
Goal True. idtac "ASSUMPTIONS-OF C15_limb_only_where_missing". Abort.
Print Assumptions C15_limb_only_where_missing.
