(* C20  Site symmetry analysis gives exact orbits and invariant bases.
   Statements only; every proof is `exact <lemma>` of Proofs/.
   Invariant bases: for EVERY ordered ring, every dimension n, every list of matrices: a candidate
   basis accepted by the certificate checker is a basis of exactly the invariant vectors /
   invariant symmetric tensors (so the dimension of the invariant space is the number of basis
   elements).  Orbits: positions, operations, partitions range over all integer data. *)
From Coq Require Import ZArith List Bool Arith.
From Onsager Require Import Base.OrdRing Model.Geom3 Model.FixedSpace Model.Sites
     Proofs.Geom3_proofs Proofs.FixedSpace_proofs Proofs.Sites_proofs.
Import ListNotations.

(* vectors of K^n left invariant by every matrix of `ops` *)
Theorem C20_vector_basis_sound : forall (K : ordring) n ops B C E,
  vector_basis_okb (K:=K) n ops B C E = true ->
  let BC := combine (map vecV B) (map vecV C) in
  length BC = length B /\
  (forall bc S, In bc BC -> In S ops -> invariant (vidx n) (rhoV S) (fst bc)) /\
  (forall x : nat -> K, (forall S, In S ops -> invariant (vidx n) (rhoV S) x) ->
     forall i, i < n -> x i = expand (vidx n) BC x i) /\
  (forall y : nat -> K,
     (forall i, i < n -> sumf (fun a => rmul K (y a) (fst (nth a BC (zerov K nat, zerov K nat)) i)) (seq 0 (length BC)) = r0 K) ->
     forall a, a < length BC -> y a = r0 K).
Proof. exact vector_basis_sound. Qed.

(* symmetric second-rank tensors T with S T S^T = T for every S of `ops` *)
Theorem C20_tensor_basis_sound : forall (K : ordring) n ops B C E,
  tensor_basis_okb (K:=K) n ops B C E = true ->
  let BC := combine (map vecT B) (map vecT C) in
  length BC = length B /\
  (forall bc, In bc BC -> invariant (tidx n) tau (fst bc) /\ forall S, In S ops -> invariant (tidx n) (rhoT S) (fst bc)) /\
  (forall x : nat * nat -> K, invariant (tidx n) tau x -> (forall S, In S ops -> invariant (tidx n) (rhoT S) x) ->
     forall p, In p (tidx n) -> x p = expand (tidx n) BC x p) /\
  (forall y : nat -> K,
     (forall p, In p (tidx n) -> sumf (fun a => rmul K (y a) (fst (nth a BC (zerov K (nat * nat), zerov K (nat * nat))) p)) (seq 0 (length BC)) = r0 K) ->
     forall a, a < length BC -> y a = r0 K).
Proof. exact tensor_basis_sound. Qed.

Theorem C20_tau_invariant_symmetric : forall (K : ordring) n (x : nat * nat -> K),
  invariant (tidx n) tau x <-> forall a b, a < n -> b < n -> x (b, a) = x (a, b).
Proof. exact tau_invariant_symmetric. Qed.

(* equivalent positions: the model orbit is exact and duplicate free, and the checker run on
   Wyckoffpos output is sound *)
Theorem C20_orbit_pos_spec : forall D ops p q, In q (orbit_pos D ops p) <-> exists g, In g ops /\ q = image D g p.
Proof. exact orbit_pos_spec. Qed.

Theorem C20_orbit_pos_nodup : forall D ops p, NoDup (orbit_pos D ops p).
Proof. exact orbit_pos_nodup. Qed.

Theorem C20_wyckoffpos_okb_sound : forall D ops p impl, wyckoffpos_okb D ops p impl = true ->
  NoDup impl /\ forall q, In q impl <-> exists g, In g ops /\ q = image D g p.
Proof. exact wyckoffpos_okb_sound. Qed.

(* Wyckoff sets are exactly the orbits of atoms *)
Theorem C20_wyckoff_okb_sound : forall D ops sites parts, wyckoff_okb D ops sites parts = true ->
  (forall i, (i < length sites)%nat -> count_occ Nat.eq_dec (concat parts) i = 1%nat) /\
  (forall W i j, In W parts -> In i W -> (j < length sites)%nat ->
     (In j W <-> exists g, In g ops /\ image D g (sitep sites i) = vmod D (sitep sites j))).
Proof. exact wyckoff_okb_sound. Qed.

(* the site point group fixes its site exactly and is the full stabiliser *)
Theorem C20_pointgroup_okb_sound : forall D ops p pg, pointgroup_okb D ops p pg = true ->
  (forall h, In h pg -> image_raw h p = p /\ exists g, In g ops /\ sop_eqmodb D h g = true) /\
  (forall g, In g ops -> image D g p = vmod D p -> exists h, In h pg /\ sop_eqmodb D h g = true) /\
  length pg = length (stabiliser D ops p).
Proof. exact pointgroup_okb_sound. Qed.

Theorem C20_check_sites_sound : forall k, check_sites k = 0%nat ->
  (forall sp, In sp (s_species k) -> wyckoff_okb (s_D k) (s_ops k) (fst sp) (snd sp) = true) /\
  (forall pp, In pp (s_pointg k) -> pointgroup_okb (s_D k) (s_ops k) (fst pp) (snd pp) = true) /\
  (forall pw, In pw (s_wpos k) -> wyckoffpos_okb (s_D k) (s_ops k) (fst pw) (snd pw) = true).
Proof. exact check_sites_sound. Qed.

Goal True. idtac "ASSUMPTIONS-OF C20_vector_basis_sound". Abort.
Print Assumptions C20_vector_basis_sound.
Goal True. idtac "ASSUMPTIONS-OF C20_tensor_basis_sound". Abort.
Print Assumptions C20_tensor_basis_sound.
Goal True. idtac "ASSUMPTIONS-OF C20_tau_invariant_symmetric". Abort.
Print Assumptions C20_tau_invariant_symmetric.
Goal True. idtac "ASSUMPTIONS-OF C20_orbit_pos_spec". Abort.
Print Assumptions C20_orbit_pos_spec.
Goal True. idtac "ASSUMPTIONS-OF C20_orbit_pos_nodup". Abort.
Print Assumptions C20_orbit_pos_nodup.
Goal True. idtac "ASSUMPTIONS-OF C20_wyckoffpos_okb_sound". Abort.
Print Assumptions C20_wyckoffpos_okb_sound.
Goal True. idtac "ASSUMPTIONS-OF C20_wyckoff_okb_sound". Abort.
Print Assumptions C20_wyckoff_okb_sound.
Goal True. idtac "ASSUMPTIONS-OF C20_pointgroup_okb_sound". Abort.
Print Assumptions C20_pointgroup_okb_sound.
Goal True. idtac "ASSUMPTIONS-OF C20_check_sites_sound". Abort.
Print Assumptions C20_check_sites_sound.
