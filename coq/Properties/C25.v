(* C25  Vector-star bases are orthonormal, equivariant and complete.
   Statements only; proofs are `exact <lemma>` of Proofs/VecStars_proofs.v.

   What is proved here (for all inputs):
   * C25_fixed_dimension_certificate: soundness of the checker that certifies, over Z in lattice
     coordinates, that the vectors fixed by a list of integer matrices (the stabiliser of a star
     representative) form a space of dimension exactly m.  The harness runs it on every star of
     every case; the COUNT of vector stars must equal the sum of the certified dimensions.
   * C25_projection_* (partial): the algebra the vector-star reduction relies on, over any ordered
     ring and any sizes: for an orthonormal family whose span is invariant under A and contains b,
     the reduced solve reproduces the full solve and b^T A^-1 b, and the reduced matrix is
     Phi^T A Phi.
   NOT proved (evaluated on the implementation in floats, 1e-10, on every run): that the
   implementation's vector stars are orthonormal and equivariant, that the invariance hypothesis
   holds for them, and that the four expansions equal Phi^T A Phi -- hence the `_partial` names. *)
From Coq Require Import List ZArith Arith.
From Onsager Require Import Base.OrdRing Model.Stars Model.VecStars Proofs.VecStars_proofs.
Import ListNotations.

Theorem C25_fixed_dimension_certificate :
  forall mats m basis wit, fix_okb mats m basis wit = true -> fixed_space_is mats m basis.
Proof. exact fix_okb_sound. Qed.

Theorem C25_projection_solves_partial :
  forall (K : ordring) (n m : nat) (A Phi At : nat -> nat -> K) (b beta y : nat -> K),
    (forall i k, i < n -> k < m ->
       sumf (fun j => rmul K (A i j) (Phi j k)) (seq 0 n) = sumf (fun l => rmul K (Phi i l) (At l k)) (seq 0 m)) ->
    (forall i, i < n -> b i = sumf (fun k => rmul K (Phi i k) (beta k)) (seq 0 m)) ->
    (forall k, k < m -> sumf (fun l => rmul K (At k l) (y l)) (seq 0 m) = beta k) ->
    forall i, i < n -> sumf (fun j => rmul K (A i j) (xfull K m Phi y j)) (seq 0 n) = b i.
Proof. exact proj_solves. Qed.

Theorem C25_projection_bilinear_partial :
  forall (K : ordring) (n m : nat) (Phi : nat -> nat -> K) (b beta y : nat -> K),
    (forall k l, k < m -> l < m -> sumf (fun i => rmul K (Phi i k) (Phi i l)) (seq 0 n) = ind k l) ->
    (forall i, i < n -> b i = sumf (fun k => rmul K (Phi i k) (beta k)) (seq 0 m)) ->
    sumf (fun i => rmul K (b i) (xfull K m Phi y i)) (seq 0 n) = sumf (fun k => rmul K (beta k) (y k)) (seq 0 m).
Proof. exact proj_bilinear. Qed.

Theorem C25_projection_reduced_matrix_partial :
  forall (K : ordring) (n m : nat) (A Phi At : nat -> nat -> K),
    (forall k l, k < m -> l < m -> sumf (fun i => rmul K (Phi i k) (Phi i l)) (seq 0 n) = ind k l) ->
    (forall i k, i < n -> k < m ->
       sumf (fun j => rmul K (A i j) (Phi j k)) (seq 0 n) = sumf (fun l => rmul K (Phi i l) (At l k)) (seq 0 m)) ->
    forall k l, k < m -> l < m ->
      At k l = sumf (fun i => rmul K (Phi i k) (sumf (fun j => rmul K (A i j) (Phi j l)) (seq 0 n))) (seq 0 n).
Proof. exact proj_reduced. Qed.

Goal True. idtac "ASSUMPTIONS-OF C25_fixed_dimension_certificate". Abort.
Print Assumptions C25_fixed_dimension_certificate.
Goal True. idtac "ASSUMPTIONS-OF C25_projection_solves_partial". Abort.
Print Assumptions C25_projection_solves_partial.
Goal True. idtac "ASSUMPTIONS-OF C25_projection_bilinear_partial". Abort.
Print Assumptions C25_projection_bilinear_partial.
Goal True. idtac "ASSUMPTIONS-OF C25_projection_reduced_matrix_partial". Abort.
Print Assumptions C25_projection_reduced_matrix_partial.
