(* C26  Solute-vacancy jump networks classify every transition exactly once.
   Statements only; proofs are `exact <lemma>` of Proofs/OmegaNet_proofs.v.
   om1_spec / om2_spec are the definitions of a swing jump (vacancy jumps by a network jump j of
   type t, solute fixed, both states non-zero members of the kinetic list, one of them inside
   the kept (thermodynamic) range, displacement = the jump's = the vacancy's) and of an exchange
   (the jump takes the vacancy onto the solute; final state is the reversed pair).
   `classification sts ops valid classes jtypes` says: every valid transition lies in exactly
   one class, exactly once, with its jump type; classes contain nothing else; each class is
   closed under every operation and under reversal; each class is a single orbit. *)
From Coq Require Import List ZArith Arith.
From Onsager Require Import Model.Stars Model.OmegaNet Proofs.Stars_proofs Proofs.OmegaNet_proofs.
Import ListNotations.

(* the brute-force enumerations are exactly the definitions (any state list without duplicates,
   any typed jump list, any range predicate) *)
Theorem C26_omega1_enumeration :
  forall sts tjumps keep e t, NoDup sts ->
    (In (e, t) (om1_list sts tjumps keep) <-> om1_spec sts tjumps keep e t).
Proof. exact om1_list_spec. Qed.

Theorem C26_omega2_enumeration :
  forall sts tjumps e t, NoDup sts ->
    (In (e, t) (om2_list sts tjumps) /\ ty e < length sts <-> om2_spec sts tjumps e t).
Proof. exact om2_list_spec. Qed.

Theorem C26_jumptype_well_defined :
  forall sts tjumps keep e t t', jumps_nodupb tjumps = true ->
    om1_spec sts tjumps keep e t -> om1_spec sts tjumps keep e t' -> t = t'.
Proof. exact om1_type_unique. Qed.

(* soundness of the classification checker *)
Theorem C26_checker_sound :
  forall sts ops valid classes jtypes,
    classes_okb sts ops valid classes jtypes = true ->
    classification sts ops (fun e t => In (e, t) valid) classes jtypes.
Proof. exact classes_okb_sound. Qed.

(* result 0 of the correspondence runner, evaluated on the implementation's kinetic states and
   omega1/omega2 classes: the states are the model's, and both classifications are exact-once,
   closed, single-orbit classifications of the transitions of the definition *)
Theorem C26_correspondence_sound :
  forall tjumps nsites Nkin origin prune ops ists c1 t1 c2 t2,
  run_omega tjumps nsites Nkin origin prune ops ists c1 t1 c2 t2 = 0 ->
  let jumps := map fst tjumps in
  let keep := if prune then (fun s => mem s (states jumps nsites (Nat.pred Nkin) false)) else (fun _ => true) in
  NoDup ists /\ (forall s, In s ists <-> In s (states jumps nsites Nkin origin)) /\
  classification ists ops (om1_spec ists tjumps keep) c1 t1 /\
  classification ists ops (om2_spec ists tjumps) c2 t2.
Proof. exact run_omega_sound. Qed.

Goal True. idtac "ASSUMPTIONS-OF C26_omega1_enumeration". Abort.
Print Assumptions C26_omega1_enumeration.
Goal True. idtac "ASSUMPTIONS-OF C26_omega2_enumeration". Abort.
Print Assumptions C26_omega2_enumeration.
Goal True. idtac "ASSUMPTIONS-OF C26_jumptype_well_defined". Abort.
Print Assumptions C26_jumptype_well_defined.
Goal True. idtac "ASSUMPTIONS-OF C26_checker_sound". Abort.
Print Assumptions C26_checker_sound.
Goal True. idtac "ASSUMPTIONS-OF C26_correspondence_sound". Abort.
Print Assumptions C26_correspondence_sound.
