(* C32  All cluster-expansion evaluators agree on every configuration.
   Statements only; every proof is `exact <lemma>` of Proofs/Energy_proofs.v.
   K ranges over every ordered commutative ring of cluster values; S, V, idx, Rvecs over every
   supercell (site type, lattice vectors, periodic index map, translation list) -- no bound on the
   number of cells, sites, clusters or on the cluster order; vacancy = None / Some v covers both
   the plain and the fixed-vacancy supercell. *)
From Coq Require Import List Arith ZArith.
From Onsager Require Import Base.OrdRing Model.Energy Proofs.Energy_proofs.
Import ListNotations.

(* The cluster counter (evalcluster . values), the index-matrix expansion
   (expandcluster_matrices), the de-duplicated interaction list (clusterevaluator) and the
   Monte Carlo sampler (start + E on the padded arrays) all return the brute-force sum
      sum_groups value_g * sum_{cl in g} sum_{R} prod_{sites} [occupied]  +  size * value_empty. *)
Theorem C32_evaluators_agree :
  forall (K : ordring) (S V : Type) (idx : V -> S -> bool * nat) (Rvecs : list V)
         (vacancy : option nat) (Rvac : V) (vmatch : S -> bool)
         (N : nat) (clusters : list (list (@cluster S))) (values : list K) (mo so : nat -> Z),
    in_range S V idx Rvecs vacancy Rvac vmatch N clusters ->
    length values <= Datatypes.S (length clusters) ->
    valid_occ vacancy N mo ->
    let Eb := Ebrute K S V idx Rvecs vacancy Rvac vmatch mo so clusters values in
    E_counter K S V idx Rvecs vacancy Rvac vmatch mo so clusters values = Eb /\
    E_matrices K S V idx Rvecs vacancy Rvac vmatch mo so clusters values = Eb /\
    E_interact K S V idx Rvecs vacancy Rvac vmatch so mo N clusters values = Eb /\
    E_sampler K S V idx Rvecs vacancy Rvac vmatch so mo N clusters values = Eb.
Proof. exact evaluators_agree. Qed.

(* The first two need no hypothesis at all (any occupation numbers, any index map). *)
Theorem C32_counter_is_brute_force :
  forall (K : ordring) (S V : Type) idx Rvecs vacancy Rvac vmatch (mo so : nat -> Z) clusters (values : list K),
    E_counter K S V idx Rvecs vacancy Rvac vmatch mo so clusters values
    = Ebrute K S V idx Rvecs vacancy Rvac vmatch mo so clusters values.
Proof. exact counter_brute. Qed.

Theorem C32_matrices_are_brute_force :
  forall (K : ordring) (S V : Type) idx Rvecs vacancy Rvac vmatch (mo so : nat -> Z) clusters (values : list K),
    E_matrices K S V idx Rvecs vacancy Rvac vmatch mo so clusters values
    = Ebrute K S V idx Rvecs vacancy Rvac vmatch mo so clusters values.
Proof. exact matrices_brute. Qed.

(* The same for the integer arithmetic of ClusterSupercell (maketrans / index / ciR), with the
   hypotheses in the decidable form that the correspondence run evaluates on every case. *)
Theorem C32_supercell_agree :
  forall (K : ordring) (sc : supercell) clusters (values : list K) (mocc socc : list Z),
    c_in_range sc clusters = true ->
    length values <= Datatypes.S (length clusters) ->
    c_valid_occ sc mocc = true ->
    c_counter K sc clusters values mocc socc = c_brute K sc clusters values mocc socc /\
    c_Ematrices K sc clusters values mocc socc = c_brute K sc clusters values mocc socc /\
    c_Einteract K sc clusters values mocc socc = c_brute K sc clusters values mocc socc /\
    c_Esampler K sc clusters values mocc socc = c_brute K sc clusters values mocc socc.
Proof. exact concrete_agree. Qed.

Goal True. idtac "ASSUMPTIONS-OF C32_evaluators_agree". Abort.
Print Assumptions C32_evaluators_agree.
Goal True. idtac "ASSUMPTIONS-OF C32_counter_is_brute_force". Abort.
Print Assumptions C32_counter_is_brute_force.
Goal True. idtac "ASSUMPTIONS-OF C32_matrices_are_brute_force". Abort.
Print Assumptions C32_matrices_are_brute_force.
Goal True. idtac "ASSUMPTIONS-OF C32_supercell_agree". Abort.
Print Assumptions C32_supercell_agree.
