(* C19  Cell reduction recovers the same crystal from any supercell.
   Statements only; proofs are `exact <lemma>` of Proofs/Reduce_proofs.v.
   Full statement of the property = for every supercell description the summary checker
   reduce_okb holds for the implementation's result (decided per generated input by the
   correspondence; C19_summary_checker_sound says what `true` means).  The theorems about the
   algorithm are PARTIAL: they cover one reduce() step and the minlattice() steps, not termination
   or the search for the translation, and C19_reduce_step_refuted shows that a step is wrong when
   the smallest component of T does not divide M (finding c19-reduce-nondividing). *)
From Coq Require Import ZArith List Bool Arith.
From Onsager Require Import Model.Lattice Model.Reduce Proofs.Lattice_proofs Proofs.Reduce_proofs.
Import ListNotations.
Local Open Scope Z_scope.

(* checker true => for every right-handed (integer = scaled rational) primitive lattice A: the result lattice
   A U has the same volume per atom, is right-handed, the atoms per species agree, |G| agrees *)
Theorem C19_summary_checker_sound :
  forall d U cprim cres gprim gres, (1 <= d <= 3)%nat ->
    reduce_okb d U cprim cres gprim gres = true ->
    (forall A : mat, 0 < det d A ->
        det d (mm d A U) * total cprim = det d A * total cres /\ 0 < det d (mm d A U)) /\
    cprim = cres /\ gprim = gres.
Proof. exact reduce_okb_sound. Qed.

(* a supercell N multiplies the volume by det N; a unimodular change of cell keeps volume and metric determinant *)
Theorem C19_supercell_volume_partial :
  forall d A N, (1 <= d <= 3)%nat -> det d (mm d A N) = det d N * det d A.
Proof. exact det_supercell. Qed.

Theorem C19_unimodular_change_partial :
  forall d A U, (1 <= d <= 3)%nat -> det d U = 1 -> det d (mm d A U) = det d A.
Proof. exact det_unimodular_change. Qed.

Theorem C19_metric_det_change_partial :
  forall d Gm U, (1 <= d <= 3)%nat -> det d (mm d (mT U) (mm d Gm U)) = det d U * det d U * det d Gm.
Proof. exact metric_det_change. Qed.

(* an upper-triangular supercell has det = product of the diagonal = number of box points (n times the atoms) *)
Theorem C19_hnf_supercell_count_partial :
  forall (N : mat), N 1%nat 0%nat = 0 -> N 2%nat 0%nat = 0 -> N 2%nat 1%nat = 0 ->
    det 3 N = N 0%nat 0%nat * N 1%nat 1%nat * N 2%nat 2%nat.
Proof. exact hnf_det3. Qed.

Theorem C19_box_count_partial :
  forall n0 n1 n2, length (box3 n0 n1 n2) = (n0 * n1 * n2)%nat.
Proof. exact box3_length. Qed.

(* one reduce() step: [A t | a_i | a_j] = A P / M with det P = M^2 |T_m| > 0 (right-handed, volume |T_m|/M) *)
Theorem C19_reduce_step_volume_partial :
  forall M T m, (m < 3)%nat -> T m <> 0 -> det 3 (reduce_P3 M T m) = M * M * Z.abs (T m).
Proof. exact reduce_step_det3. Qed.

Theorem C19_reduce_step_volume_2d_partial :
  forall M T m, (m < 2)%nat ->
    det 2 (reduce_P2 M T m) = M * (match m with 0%nat => T 0%nat | _ => - T 1%nat end).
Proof. exact reduce_step_det2. Qed.

(* volume per atom is kept by a step when |T_m| divides M (the code divides the atoms by M // |T_m|) *)
Theorem C19_reduce_step_volume_per_atom_partial :
  forall M Tm Vold Vnew Nold Nnew,
    Tm <> 0 -> (Z.abs Tm | M) -> M * Vnew = Z.abs Tm * Vold -> Nnew * (M / Z.abs Tm) = Nold ->
    Vnew * Nold = Vold * Nnew.
Proof. exact reduce_step_volume_per_atom. Qed.

(* the new cell contains the old lattice vectors when T_m divides M, T_i, T_j ... *)
Theorem C19_reduce_step_contains_old_partial :
  forall M T m qM qi qj, (m < 3)%nat -> T m <> 0 ->
    M = qM * T m -> T (fst (reduce_ij m (T m))) = qi * T m -> T (snd (reduce_ij m (T m))) = qj * T m ->
    exists Q : mat, forall r c, (r < 3)%nat -> (c < 3)%nat -> mm 3 (reduce_P3 M T m) Q r c = M * mI r c.
Proof. exact reduce_step_contains_old. Qed.

(* ... and does not for M = 5, T = (2,0,0), which the code accepts (m is the smallest non-zero component):
   the witness replayed on the implementation raises ArithmeticError *)
Theorem C19_reduce_step_refuted :
  exists M T m, (m < 3)%nat /\ T m <> 0 /\
    (forall k, (k < 3)%nat -> T k <> 0 -> Z.abs (T m) <= Z.abs (T k)) /\
    ~ exists Q : mat, forall r c, (r < 3)%nat -> (c < 3)%nat -> mm 3 (reduce_P3 M T m) Q r c = M * mI r c.
Proof. exact reduce_step_refuted. Qed.

(* minlattice: shears keep the determinant, the signed permutation step makes the lattice right-handed *)
Theorem C19_minlattice_shear_partial :
  forall d A a b u, (2 <= d <= 3)%nat -> (a < d)%nat -> (b < d)%nat -> a <> b ->
    det d (mm d A (shear a b u)) = det d A.
Proof. exact shear_preserves_det. Qed.

Theorem C19_minlattice_righthanded_partial :
  forall d A P, (2 <= d <= 3)%nat -> det d A <> 0 -> det d P * det d P = 1 ->
    0 < det d (mm d A (orient d A P)).
Proof. exact orient_righthanded. Qed.

(* the certificate evaluated on the exact metric of every returned cell: true => sorted by length and no pair reduction
   a_j - u a_i (any integer u) shortens a vector, i.e. minlattice() ran to completion *)
Theorem C19_reduced_certificate_sound :
  forall d Gm, reducedb d Gm = true ->
    forall i j, (i < j)%nat -> (j < d)%nat -> Gm i i <= Gm j j /\ forall u, Gm j j <= pair_len Gm i j u.
Proof. exact reducedb_sound. Qed.

Goal True. idtac "ASSUMPTIONS-OF C19_summary_checker_sound". Abort.
Print Assumptions C19_summary_checker_sound.
Goal True. idtac "ASSUMPTIONS-OF C19_supercell_volume_partial". Abort.
Print Assumptions C19_supercell_volume_partial.
Goal True. idtac "ASSUMPTIONS-OF C19_unimodular_change_partial". Abort.
Print Assumptions C19_unimodular_change_partial.
Goal True. idtac "ASSUMPTIONS-OF C19_metric_det_change_partial". Abort.
Print Assumptions C19_metric_det_change_partial.
Goal True. idtac "ASSUMPTIONS-OF C19_hnf_supercell_count_partial". Abort.
Print Assumptions C19_hnf_supercell_count_partial.
Goal True. idtac "ASSUMPTIONS-OF C19_box_count_partial". Abort.
Print Assumptions C19_box_count_partial.
Goal True. idtac "ASSUMPTIONS-OF C19_reduce_step_volume_partial". Abort.
Print Assumptions C19_reduce_step_volume_partial.
Goal True. idtac "ASSUMPTIONS-OF C19_reduce_step_volume_2d_partial". Abort.
Print Assumptions C19_reduce_step_volume_2d_partial.
Goal True. idtac "ASSUMPTIONS-OF C19_reduce_step_volume_per_atom_partial". Abort.
Print Assumptions C19_reduce_step_volume_per_atom_partial.
Goal True. idtac "ASSUMPTIONS-OF C19_reduce_step_contains_old_partial". Abort.
Print Assumptions C19_reduce_step_contains_old_partial.
Goal True. idtac "ASSUMPTIONS-OF C19_reduce_step_refuted". Abort.
Print Assumptions C19_reduce_step_refuted.
Goal True. idtac "ASSUMPTIONS-OF C19_minlattice_shear_partial". Abort.
Print Assumptions C19_minlattice_shear_partial.
Goal True. idtac "ASSUMPTIONS-OF C19_minlattice_righthanded_partial". Abort.
Print Assumptions C19_minlattice_righthanded_partial.
Goal True. idtac "ASSUMPTIONS-OF C19_reduced_certificate_sound". Abort.
Print Assumptions C19_reduced_certificate_sound.
