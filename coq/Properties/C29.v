(* C29  Calculation-setup supercells contain the right defects and mappings.
   Statements only; every proof is `exact <lemma>` of Proofs/.  The checkers are run inside Coq by
   harness/c29.py on every supercell dictionary produced by Interstitial.makesupercells and
   VacancyMediated.makesupercells; these theorems say what an answer `true` establishes. *)
From Coq Require Import List ZArith Bool.
From Onsager Require Import Model.Supercell Model.SupercellMap Proofs.Supercell_proofs Proofs.SupercellMap_proofs.
Import ListNotations.
Local Open Scope Z_scope.

(* a state supercell is the reference occupation with exactly the named (site, species) defects:
   every named site holds the named species (different from the reference), every other site is untouched *)
Theorem C29_defect_content :
  forall ref o defects, defectsb ref o defects = true ->
  length o = length ref /\
  (forall i c, In (i, c) defects -> 0 <= i /\ nth_error o (Z.to_nat i) = Some c /\ nth_error ref (Z.to_nat i) <> Some c) /\
  (forall k, ~ In (Z.of_nat k) (map fst defects) -> nth_error o k = nth_error ref k).
Proof. exact defectsb_sound. Qed.

(* the two endpoints of a transition differ by a single moving atom *)
Theorem C29_single_moving_atom :
  forall o1 o2 i j c, one_moveb o1 o2 i j c = true ->
  i <> j /\ 0 <= i /\ 0 <= j /\
  nth_error o1 (Z.to_nat i) = Some c /\ nth_error o1 (Z.to_nat j) = Some (-1) /\
  nth_error o2 (Z.to_nat i) = Some (-1) /\ nth_error o2 (Z.to_nat j) = Some c /\
  (forall k, k <> Z.to_nat i -> k <> Z.to_nat j -> nth_error o2 k = nth_error o1 k).
Proof. exact one_moveb_sound. Qed.

(* every generated supercell is internally consistent (the C28 invariant) *)
Theorem C29_consistency_checker : forall N Nchem s, invb N Nchem s = true -> Inv N Nchem s.
Proof. exact invb_sound. Qed.

(* a recorded mapping (state tag, g, mapping) transforms the named state supercell into the endpoint:
   occupation site by site and the per-species ordering position by position *)
Theorem C29_mapping_sound :
  forall N Nchem idx mapping A B,
    equivb idx mapping A B = true -> is_perm N idx -> Inv N Nchem A -> (Nchem <= length mapping)%nat ->
    Inv N Nchem B /\ Equiv N idx mapping A B.
Proof. exact equivb_sound. Qed.

Theorem C29_mapping_perm : forall N idx, permb N idx = true -> is_perm N idx.
Proof. exact permb_sound. Qed.

(* an endpoint recorded without mapping: no group operation carries a state supercell onto it *)
Theorem C29_unmapped_justified :
  forall N G A B, nomapb G A B = true -> length (occ A) = N -> length (occ B) = N ->
  forall idx, In idx G -> is_perm N idx ->
  ~ (forall m, (m < N)%nat -> nth_error (occ B) (Z.to_nat (nth m idx 0)) = nth_error (occ A) m).
Proof. exact nomapb_sound. Qed.

(* the too-small criterion: a separation vector inside the half-open cell [-1/2,1/2)^3 of the supercell
   is the ONLY member of its class modulo supercell translations there, so "dx equals its half-cell
   image" holds exactly for the vectors inside; a vector outside is represented by a different one *)
Theorem C29_half_cell_unique :
  forall D X2, in_half_cellb D X2 = true ->
  forall n, length n = length X2 -> in_half_cellb D (vadd X2 (vscale (2 * D) n)) = true -> Forall (fun x => x = 0) n.
Proof. exact in_half_cell_unique. Qed.

Goal True. idtac "ASSUMPTIONS-OF C29_defect_content". Abort.
Print Assumptions C29_defect_content.
Goal True. idtac "ASSUMPTIONS-OF C29_single_moving_atom". Abort.
Print Assumptions C29_single_moving_atom.
Goal True. idtac "ASSUMPTIONS-OF C29_consistency_checker". Abort.
Print Assumptions C29_consistency_checker.
Goal True. idtac "ASSUMPTIONS-OF C29_mapping_sound". Abort.
Print Assumptions C29_mapping_sound.
Goal True. idtac "ASSUMPTIONS-OF C29_mapping_perm". Abort.
Print Assumptions C29_mapping_perm.
Goal True. idtac "ASSUMPTIONS-OF C29_unmapped_justified". Abort.
Print Assumptions C29_unmapped_justified.
Goal True. idtac "ASSUMPTIONS-OF C29_half_cell_unique". Abort.
Print Assumptions C29_half_cell_unique.
