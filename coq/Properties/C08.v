(* C08  The two omega2 algorithms agree.  The large-exchange-rate algorithm replaces, on the non-null eigenspace of
   the exchange-rate block w, the Dyson update (g^-1 + w)^-1 by  w^-1 - (w + w g w)^-1.  That rearrangement is an
   identity in ANY unital ring (matrices of any size):  (g^-1 + w)^-1 - w^-1 = -(w + w g w)^-1 ;
   and the standard two-step update is the Green function of the fully perturbed operator (C01_dyson_two_step).
   Finite/smooth floating-point behaviour up to ratios 1e16 cannot be exhibited by an exact model: partial,
   covered by the evaluator in harness/c08.py. *)
Require Import Ncring.
From Onsager Require Import Base.NCRing.

Theorem C08_om2_identity :
  forall (R : Type) (ring0 ring1 : R) (add mul sub : R -> R -> R) (opp : R -> R) (ring_eq : R -> R -> Prop)
         (Ro : Ring_ops (T:=R) (ring0:=ring0) (ring1:=ring1) (add:=add) (mul:=mul) (sub:=sub) (opp:=opp) (ring_eq:=ring_eq))
         (Rr : Ring (Ro:=Ro)) (g gi w wi a b : R),
    ring_eq (mul g gi) ring1 -> ring_eq (mul w wi) ring1 ->
    ring_eq (mul (add gi w) a) ring1 -> ring_eq (mul b (add w (mul (mul w g) w))) ring1 ->
    ring_eq (sub a wi) (opp b).
Proof. intros R r0' r1' a0 m s o e Ro Rr. exact (@om2_identity R r0' r1' a0 m s o e Ro Rr). Qed.

Theorem C08_standard_update_is_green_function :
  forall (R : Type) (ring0 ring1 : R) (add mul sub : R -> R -> R) (opp : R -> R) (ring_eq : R -> R -> Prop)
         (Ro : Ring_ops (T:=R) (ring0:=ring0) (ring1:=ring1) (add:=add) (mul:=mul) (sub:=sub) (opp:=opp) (ring_eq:=ring_eq))
         (Rr : Ring (Ro:=Ro)) (w0 g0 d1 d2 u1 u2 : R),
    ring_eq (mul w0 g0) ring1 -> ring_eq (mul (add ring1 (mul g0 d1)) u1) ring1 ->
    ring_eq (mul (add ring1 (mul (mul u1 g0) d2)) u2) ring1 ->
    ring_eq (mul (add (add w0 d1) d2) (mul u2 (mul u1 g0))) ring1.
Proof. intros R r0' r1' a m s o e Ro Rr. exact (@dyson_two_step R r0' r1' a m s o e Ro Rr). Qed.

Goal True. idtac "ASSUMPTIONS-OF C08_om2_identity". Abort.
Print Assumptions C08_om2_identity.
Goal True. idtac "ASSUMPTIONS-OF C08_standard_update_is_green_function". Abort.
Print Assumptions C08_standard_update_is_green_function.
