(* C14  Vacancy-mediated results depend only on their inputs, not on call history.
   Statements only; proofs are `exact <lemma>` of Proofs/Cache_proofs.v.
   The numerics are arbitrary functions (comp_cache, comp_result); V is the type of array contents;
   histories are arbitrary lists over  Lij k | Mutate call i v | Clearcache | Reconfig c | SaveLoad.
   `rmode` (Fresh / Alias slot for each returned array) is derived from the current source by
   harness/c14.py on every run, and so is `smode` (per cached slot: does the GF calculator hand out a reused buffer);
   if all_fresh rmode and stores_fresh smode the first theorem applies; for the modes of the
   current source (L0vv IS the cached Lvvvalues entry) the second and third give the failing history. *)
From Coq Require Import List Arith Bool.
From Onsager Require Import Model.Cache Proofs.Cache_proofs.
Import ListNotations.

(* If no returned array aliases a cached cell and every miss stores newly allocated arrays (the callee does not hand
   out a reused buffer) then, for ALL histories, every Lij returns what a
   fresh calculator of the current configuration returns for that input. *)
Theorem C14_history :
  forall (V : Type) (dV : V) (key ckey cfg : Type) (ck : key -> ckey)
         (ckeqb : ckey -> ckey -> bool) (cfgeqb : cfg -> cfg -> bool)
         (comp_cache : cfg -> ckey -> list V) (comp_result : cfg -> key -> list V -> list V)
         (rmode : list mode) (smode : list bool),
    (forall a b : ckey, ckeqb a b = true -> a = b) ->
    all_fresh rmode = true -> stores_fresh smode = true ->
    forall (c0 : cfg) (ops : list (op V key cfg)),
      Forall (fun x : cfg * key * list V =>
                snd x = pure V dV key ckey cfg ck comp_cache comp_result rmode (fst (fst x)) (snd (fst x)))
             (run V dV key ckey cfg ck ckeqb cfgeqb comp_cache comp_result rmode smode (init V ckey cfg c0) ops).
Proof. exact history_independent. Qed.

(* Current source: first returned array = cached slot 1.  After the caller overwrites it with v the
   next Lij of the same input returns v -- whatever the numerics are. *)
Theorem C14_refuted_witness :
  forall (V : Type) (dV : V) (key ckey cfg : Type) (ck : key -> ckey)
         (ckeqb : ckey -> ckey -> bool) (cfgeqb : cfg -> cfg -> bool)
         (comp_cache : cfg -> ckey -> list V) (comp_result : cfg -> key -> list V -> list V),
    (forall a : ckey, ckeqb a a = true) ->
    (forall (c : cfg) (x : ckey), length (comp_cache c x) = 3) ->
    forall (c0 : cfg) (k : key) (v : V),
    exists obs1 obs2 : list V,
      run V dV key ckey cfg ck ckeqb cfgeqb comp_cache comp_result current_modes no_buffers (init V ckey cfg c0)
          [Lij k; Mutate 0 0 v; Lij k] = [(c0, k, obs1); (c0, k, obs2)] /\
      nth 0 obs1 dV = nth 1 (comp_cache c0 (ck k)) dV /\ nth 0 obs2 dV = v.
Proof. exact alias_refuted. Qed.

Theorem C14_refuted :
  forall (V : Type) (dV : V) (key ckey cfg : Type) (ck : key -> ckey)
         (ckeqb : ckey -> ckey -> bool) (cfgeqb : cfg -> cfg -> bool)
         (comp_cache : cfg -> ckey -> list V) (comp_result : cfg -> key -> list V -> list V),
    (forall a : ckey, ckeqb a a = true) ->
    (forall (c : cfg) (x : ckey), length (comp_cache c x) = 3) ->
    (forall (c : cfg) (k : key) (cont : list V), nth 0 (comp_result c k cont) dV = nth 1 cont dV) ->
    forall (c0 : cfg) (k : key) (v : V),
    v <> nth 1 (comp_cache c0 (ck k)) dV ->
    exists ops : list (op V key cfg),
      ~ Forall (fun x : cfg * key * list V =>
                  snd x = pure V dV key ckey cfg ck comp_cache comp_result current_modes (fst (fst x)) (snd (fst x)))
               (run V dV key ckey cfg ck ckeqb cfgeqb comp_cache comp_result current_modes no_buffers (init V ckey cfg c0) ops).
Proof. exact alias_refuted_history. Qed.

(* A callee that reuses one buffer for the cached etav array: [Lij a; Lij b; Lij a] (different cache keys; the third
   call is a cache hit; nothing is edited, every returned array is fresh) computes the third result from b's etav. *)
Theorem C14_shared_buffer_refuted :
  forall (V : Type) (dV : V) (key ckey cfg : Type) (ck : key -> ckey)
         (ckeqb : ckey -> ckey -> bool) (cfgeqb : cfg -> cfg -> bool)
         (comp_cache : cfg -> ckey -> list V) (comp_result : cfg -> key -> list V -> list V),
    (forall a : ckey, ckeqb a a = true) ->
    (forall (c : cfg) (x : ckey), length (comp_cache c x) = 3) ->
    forall (c0 : cfg) (a b : key),
    ckeqb (ck a) (ck b) = false -> ckeqb (ck b) (ck a) = false ->
    exists obs1 obs2 obs3 : list V,
      run V dV key ckey cfg ck ckeqb cfgeqb comp_cache comp_result fresh_modes eta_buffer (init V ckey cfg c0)
          [Lij a; Lij b; Lij a] = [(c0, a, obs1); (c0, b, obs2); (c0, a, obs3)] /\
      obs1 = pure V dV key ckey cfg ck comp_cache comp_result fresh_modes c0 a /\
      obs3 = map (fun j => nth j (comp_result c0 a [nth 0 (comp_cache c0 (ck a)) dV; nth 1 (comp_cache c0 (ck a)) dV;
                                                   nth 2 (comp_cache c0 (ck b)) dV]) dV) (seq 0 4).
Proof. exact shared_buffer_refuted. Qed.

Goal True. idtac "ASSUMPTIONS-OF C14_history". Abort.
Print Assumptions C14_history.
Goal True. idtac "ASSUMPTIONS-OF C14_refuted_witness". Abort.
Print Assumptions C14_refuted_witness.
Goal True. idtac "ASSUMPTIONS-OF C14_refuted". Abort.
Print Assumptions C14_refuted.
Goal True. idtac "ASSUMPTIONS-OF C14_shared_buffer_refuted". Abort.
Print Assumptions C14_shared_buffer_refuted.
