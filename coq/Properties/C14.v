(* C14  Vacancy-mediated results depend only on their inputs, not on call history.
   Statements only; proofs are `exact <lemma>` of Proofs/Cache_proofs.v.
   The numerics are arbitrary functions (comp_cache, comp_result); V is the type of array contents;
   histories are arbitrary lists over  Lij k | Mutate call i v | Clearcache | Reconfig c | SaveLoad.
   `rmode` (Fresh / Alias slot for each returned array) is derived from the current source by
   harness/c14.py on every run: if all_fresh rmode the first theorem applies; for the modes of the
   current source (L0vv IS the cached Lvvvalues entry) the second and third give the failing history. *)
From Coq Require Import List Arith Bool.
From Onsager Require Import Model.Cache Proofs.Cache_proofs.
Import ListNotations.

(* If no returned array aliases a cached cell then, for ALL histories, every Lij returns what a
   fresh calculator of the current configuration returns for that input. *)
Theorem C14_history :
  forall (V : Type) (dV : V) (key ckey cfg : Type) (ck : key -> ckey)
         (ckeqb : ckey -> ckey -> bool) (cfgeqb : cfg -> cfg -> bool)
         (comp_cache : cfg -> ckey -> list V) (comp_result : cfg -> key -> list V -> list V)
         (rmode : list mode),
    (forall a b : ckey, ckeqb a b = true -> a = b) ->
    all_fresh rmode = true ->
    forall (c0 : cfg) (ops : list (op V key cfg)),
      Forall (fun x : cfg * key * list V =>
                snd x = pure V dV key ckey cfg ck comp_cache comp_result rmode (fst (fst x)) (snd (fst x)))
             (run V dV key ckey cfg ck ckeqb cfgeqb comp_cache comp_result rmode (init V ckey cfg c0) ops).
Proof. exact history_independent. Qed.

(* Current source: first returned array = cached slot 1.  After the caller overwrites it with v the
   next Lij of the same input returns v -- whatever the numerics are. *)
Theorem C14_refuted_witness :
  forall (V : Type) (dV : V) (key ckey cfg : Type) (ck : key -> ckey)
         (ckeqb : ckey -> ckey -> bool) (cfgeqb : cfg -> cfg -> bool)
         (comp_cache : cfg -> ckey -> list V) (comp_result : cfg -> key -> list V -> list V),
    (forall a : ckey, ckeqb a a = true) ->
    (forall (c : cfg) (x : ckey), length (comp_cache c x) = 3) ->
    forall (c0 : cfg) (k : key) (v : V),
    exists obs1 obs2 : list V,
      run V dV key ckey cfg ck ckeqb cfgeqb comp_cache comp_result current_modes (init V ckey cfg c0)
          [Lij k; Mutate 0 0 v; Lij k] = [(c0, k, obs1); (c0, k, obs2)] /\
      nth 0 obs1 dV = nth 1 (comp_cache c0 (ck k)) dV /\ nth 0 obs2 dV = v.
Proof. exact alias_refuted. Qed.

Theorem C14_refuted :
  forall (V : Type) (dV : V) (key ckey cfg : Type) (ck : key -> ckey)
         (ckeqb : ckey -> ckey -> bool) (cfgeqb : cfg -> cfg -> bool)
         (comp_cache : cfg -> ckey -> list V) (comp_result : cfg -> key -> list V -> list V),
    (forall a : ckey, ckeqb a a = true) ->
    (forall (c : cfg) (x : ckey), length (comp_cache c x) = 3) ->
    (forall (c : cfg) (k : key) (cont : list V), nth 0 (comp_result c k cont) dV = nth 1 cont dV) ->
    forall (c0 : cfg) (k : key) (v : V),
    v <> nth 1 (comp_cache c0 (ck k)) dV ->
    exists ops : list (op V key cfg),
      ~ Forall (fun x : cfg * key * list V =>
                  snd x = pure V dV key ckey cfg ck comp_cache comp_result current_modes (fst (fst x)) (snd (fst x)))
               (run V dV key ckey cfg ck ckeqb cfgeqb comp_cache comp_result current_modes (init V ckey cfg c0) ops).
Proof. exact alias_refuted_history. Qed.

Goal True. idtac "ASSUMPTIONS-OF C14_history". Abort.
Print Assumptions C14_history.
Goal True. idtac "ASSUMPTIONS-OF C14_refuted_witness". Abort.
Print Assumptions C14_refuted_witness.
Goal True. idtac "ASSUMPTIONS-OF C14_refuted". Abort.
Print Assumptions C14_refuted.
