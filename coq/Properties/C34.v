(* C34  Kinetic barriers obey detailed balance.
   Statements only; every proof is `exact <lemma>` of Proofs/JumpEval_proofs.v.

   Model/JumpEval.v: Energy / EnergyV = MonteCarloSampler.E() on the tables of clusterevaluator (without / with a
   vacancy), Qjump / QjumpV = the barrier transitions() reports for a jump on the tables of
   jumpnetworkevaluator / jumpnetworkevaluator_vacancy.  Quantified over every ring K of values (cluster values
   enter as half values hv, value = hv + hv), every translation structure (tidx, Rvec) obeying the three laws of
   ClusterSupercell.index / Rveclist, every spectator occupation, cluster expansion, KRA value, TS cluster list,
   jump and mobile occupation.  Domain (decidable, decided inside Coq for every system the check uses): the
   supercell does not wrap a cluster onto itself -- the mobile sites of every cluster instance are distinct
   supercell sites, the other sites of a TS cluster avoid its two end points, those of a vacancy cluster avoid
   the vacancy.                                                                                              *)
From Coq Require Import List Arith.
From Onsager Require Import Base.OrdRing Model.JumpEval Proofs.JumpEval_proofs.
Import ListNotations.

(* No vacancy.  i = site of basis atom jci J in translation class Ri (occupied), j = the site it jumps to
   (unoccupied).  The reverse transition is the jump jrev J = (jcj -> jci, -dR, same KRA) started from j in the
   occupation with i and j exchanged. *)
Theorem C34_detailed_balance :
  forall (K : ordring) (tidx : V -> nat) (Rvec : list V) (Nmob Nspec : nat) (socc : nat -> bool),
    (forall R1 R2 T : V, tidx R1 = tidx R2 -> tidx (vadd R1 T) = tidx (vadd R2 T)) ->
    (forall k : nat, k < length Rvec -> tidx (nth k Rvec v0) = k) ->
    (forall R : V, tidx R < length Rvec) ->
    forall (mocc : nat -> bool) (J : jspec K) (Ri : V),
    mocc (tidx Ri * Nmob + jci J) = true ->
    mocc (tidx (vadd Ri (jdR J)) * Nmob + jcj J) = false ->
    jci J < Nmob -> jcj J < Nmob ->
    forall (CE : list (list csite * K)) (TSL : list (tsclust K)) (c0 : K),
    (forall cl hv s, In (cl, hv) CE -> In s cl -> smob s = true -> sci s < Nmob) ->
    (forall cl hv R, In (cl, hv) CE -> NoDup (map (gidx tidx Nmob Nspec R) (filter smob cl))) ->
    (forall ts, In ts TSL ->
       forall R s, In s (tsoth ts) -> smob s = true ->
         gidx tidx Nmob Nspec R s <> gidx tidx Nmob Nspec R (ts0 ts) /\
         gidx tidx Nmob Nspec R s <> gidx tidx Nmob Nspec R (ts1 ts)) ->
    rsub K (Qjump K tidx Nmob Nspec socc mocc CE TSL J Ri)
           (Qjump K tidx Nmob Nspec socc
              (swap_occ mocc (tidx Ri * Nmob + jci J) (tidx (vadd Ri (jdR J)) * Nmob + jcj J)) CE TSL
              (jrev J) (vadd Ri (jdR J)))
    = rsub K (Energy K tidx Rvec Nmob Nspec socc
                (swap_occ mocc (tidx Ri * Nmob + jci J) (tidx (vadd Ri (jdR J)) * Nmob + jcj J)) c0 CE)
             (Energy K tidx Rvec Nmob Nspec socc mocc c0 CE).
Proof. exact detailed_balance. Qed.

(* With a vacancy at site i = (Rv, jci J), KRA values only: the final configuration is the sampler whose
   vacancy sits at j, with the atom of j moved to i. *)
Theorem C34_detailed_balance_vacancy_kra :
  forall (K : ordring) (tidx : V -> nat) (Rvec : list V) (Nmob Nspec : nat) (socc : nat -> bool),
    (forall R1 R2 T : V, tidx R1 = tidx R2 -> tidx (vadd R1 T) = tidx (vadd R2 T)) ->
    (forall k : nat, k < length Rvec -> tidx (nth k Rvec v0) = k) ->
    (forall R : V, tidx R < length Rvec) ->
    forall (mocc : nat -> bool) (J : jspec K) (Rv : V),
    tidx Rv * Nmob + jci J <> tidx (vadd Rv (jdR J)) * Nmob + jcj J ->
    jci J < Nmob -> jcj J < Nmob ->
    forall (CE : list (list csite * K)) (VCE : list (vclust K)) (c0 : K),
    (forall cl hv s, In (cl, hv) CE -> In s cl -> smob s = true -> sci s < Nmob) ->
    (forall cl hv R, In (cl, hv) CE -> NoDup (map (gidx tidx Nmob Nspec R) (filter smob cl))) ->
    (forall vc R s, In vc VCE -> In s (voth vc) -> smob s = true ->
                    gidx tidx Nmob Nspec R s <> gidx tidx Nmob Nspec R (mkCS true (vci vc) v0)) ->
    rsub K (QjumpV K tidx Nmob Nspec socc mocc CE VCE [] J Rv)
           (QjumpV K tidx Nmob Nspec socc
              (swap_occ mocc (tidx Rv * Nmob + jci J) (tidx (vadd Rv (jdR J)) * Nmob + jcj J)) CE VCE []
              (jrev J) (vadd Rv (jdR J)))
    = rsub K (EnergyV K tidx Rvec Nmob Nspec socc
                (swap_occ mocc (tidx Rv * Nmob + jci J) (tidx (vadd Rv (jdR J)) * Nmob + jcj J)) c0 CE VCE
                (vadd Rv (jdR J)) (jcj J))
             (EnergyV K tidx Rvec Nmob Nspec socc mocc c0 CE VCE Rv (jci J)).
Proof. exact detailed_balance_V_kra. Qed.

(* With a vacancy and transition-state clusters: proved UNDER the premise that the TS expansion gives the
   reverse jump the same value (tsV = the TS term of QjumpV).  makeTSclusters builds the TS clusters of both
   directions with one value; deriving the premise from that closure of the list is not formalised -- partial.
   (The correspondence and the exhaustive evaluation on the implementation cover this case.) *)
Theorem C34_detailed_balance_vacancy_partial :
  forall (K : ordring) (tidx : V -> nat) (Rvec : list V) (Nmob Nspec : nat) (socc : nat -> bool),
    (forall R1 R2 T : V, tidx R1 = tidx R2 -> tidx (vadd R1 T) = tidx (vadd R2 T)) ->
    (forall k : nat, k < length Rvec -> tidx (nth k Rvec v0) = k) ->
    (forall R : V, tidx R < length Rvec) ->
    forall (mocc : nat -> bool) (J : jspec K) (Rv : V),
    tidx Rv * Nmob + jci J <> tidx (vadd Rv (jdR J)) * Nmob + jcj J ->
    jci J < Nmob -> jcj J < Nmob ->
    forall (CE : list (list csite * K)) (VCE : list (vclust K)) (TSL : list (tsclust K)) (c0 : K),
    (forall cl hv s, In (cl, hv) CE -> In s cl -> smob s = true -> sci s < Nmob) ->
    (forall cl hv R, In (cl, hv) CE -> NoDup (map (gidx tidx Nmob Nspec R) (filter smob cl))) ->
    (forall vc R s, In vc VCE -> In s (voth vc) -> smob s = true ->
                    gidx tidx Nmob Nspec R s <> gidx tidx Nmob Nspec R (mkCS true (vci vc) v0)) ->
    sumf (tsV K tidx Nmob Nspec socc mocc (tidx Rv * Nmob + jci J) J Rv) TSL =
    sumf (tsV K tidx Nmob Nspec socc
            (swap_occ mocc (tidx Rv * Nmob + jci J) (tidx (vadd Rv (jdR J)) * Nmob + jcj J))
            (tidx (vadd Rv (jdR J)) * Nmob + jcj J) (jrev J) (vadd Rv (jdR J))) TSL ->
    rsub K (QjumpV K tidx Nmob Nspec socc mocc CE VCE TSL J Rv)
           (QjumpV K tidx Nmob Nspec socc
              (swap_occ mocc (tidx Rv * Nmob + jci J) (tidx (vadd Rv (jdR J)) * Nmob + jcj J)) CE VCE TSL
              (jrev J) (vadd Rv (jdR J)))
    = rsub K (EnergyV K tidx Rvec Nmob Nspec socc
                (swap_occ mocc (tidx Rv * Nmob + jci J) (tidx (vadd Rv (jdR J)) * Nmob + jcj J)) c0 CE VCE
                (vadd Rv (jdR J)) (jcj J))
             (EnergyV K tidx Rvec Nmob Nspec socc mocc c0 CE VCE Rv (jci J)).
Proof. exact detailed_balance_V. Qed.

(* The domain condition, quantified over all lattice translations, follows from its finite check on Rveclist
   (this is what Model/JumpEvalCheck.inj_okb decides). *)
Theorem C34_domain_check_suffices :
  forall (tidx : V -> nat) (Rvec : list V) (Nmob Nspec : nat),
    (forall R1 R2 T : V, tidx R1 = tidx R2 -> tidx (vadd R1 T) = tidx (vadd R2 T)) ->
    (forall k : nat, k < length Rvec -> tidx (nth k Rvec v0) = k) ->
    (forall R : V, tidx R < length Rvec) ->
    forall cl : list csite,
    (forall k, k < length Rvec -> NoDup (map (gidx tidx Nmob Nspec (nth k Rvec v0)) (filter smob cl))) ->
    forall R : V, NoDup (map (gidx tidx Nmob Nspec R) (filter smob cl)).
Proof. exact inj_from_reps. Qed.

Goal True. idtac "ASSUMPTIONS-OF C34_detailed_balance". Abort.
Print Assumptions C34_detailed_balance.
Goal True. idtac "ASSUMPTIONS-OF C34_detailed_balance_vacancy_kra". Abort.
Print Assumptions C34_detailed_balance_vacancy_kra.
Goal True. idtac "ASSUMPTIONS-OF C34_detailed_balance_vacancy_partial". Abort.
Print Assumptions C34_detailed_balance_vacancy_partial.
Goal True. idtac "ASSUMPTIONS-OF C34_domain_check_suffices". Abort.
Print Assumptions C34_domain_check_suffices.
