(* C09  Equivalent descriptions of the same crystal give the same transport.
   (a) A different primitive basis / atom order is a relabelling p of the states together with an invertible integer
       matrix Rm acting on lattice-coordinate displacements: the transport tensor transforms as Rm L Rm^T
       (C09_redescription), i.e. the Cartesian tensor A L A^T is unchanged because A' = A Rm^-1.
   (b) A non-reduced supercell description fibres over the primitive one (every site of the big cell projects to a
       site of the primitive cell, out-jumps in bijection): the pulled-back corrector is a corrector and the coefficient
       is k times the primitive one, k = number of primitive cells in the supercell (C09_supercell_corrector, C09_supercell_value); both
       descriptions normalise by the sites per cell, so the diffusivity is the same. *)
From Coq Require Import List Arith.
From Onsager Require Import Base.OrdRing Model.Net Model.Interstitial Model.NetMaps Model.Lump
     Proofs.Net_proofs Proofs.NetMaps_proofs Proofs.Lump_proofs.
Import ListNotations.

Theorem C09_redescription :
  forall (K : ordring) (N : net K) dim Rm p q (g g' : nat -> nat -> K),
    (forall x, q (p x) = x) ->
    (forall l, l < dim -> weakKCL N (comp l) (g l)) ->
    (forall l, l < dim -> weakKCL (map_net dim Rm p N) (comp l) (g' l)) ->
    forall k l, k < dim -> l < dim ->
      Bform (map_net dim Rm p N) (comp k) (comp l) (g' k) (g' l)
      = conj_tensor dim Rm (fun a b => Bform N (comp a) (comp b) (g a) (g b)) k l.
Proof. exact L_transform. Qed.

Theorem C09_permutation_invariant :
  forall (K : ordring) (N N' : net K) dA dB gA gB,
    Permutation.Permutation N N' -> Bform N dA dB gA gB = Bform N' dA dB gA gB.
Proof. exact perm_Bform. Qed.

Theorem C09_supercell_corrector :
  forall (K : ordring) (NX NY : net K) nX nY p view,
    (forall x, x < nX -> Permutation.Permutation (map (proj p view) (out NX x)) (out NY (p x))) ->
    (forall x, x < nX -> p x < nY) ->
    forall dX dY g, wf NX nX -> Permutation.Permutation (map rev NX) NX -> odd K dX -> related K p view dX dY ->
      outKCL NY nY dY g -> weakKCL NX dX (fun x => g (p x)).
Proof. exact lump_corrector. Qed.

Theorem C09_supercell_value :
  forall (K : ordring) (NX NY : net K) nX nY p view,
    (forall x, x < nX -> Permutation.Permutation (map (proj p view) (out NX x)) (out NY (p x))) ->
    (forall x, x < nX -> p x < nY) ->
    forall dXA dXB dYA dYB gA gB k,
      wf NX nX -> wf NY nY -> related K p view dXA dYA -> related K p view dXB dYB ->
      (forall y, y < nY -> length (fibre nX p y) = k) ->
      Bform NX dXA dXB (fun x => gA (p x)) (fun x => gB (p x)) = kmul k (Bform NY dYA dYB gA gB).
Proof. exact lump_value. Qed.

Goal True. idtac "ASSUMPTIONS-OF C09_redescription". Abort.
Print Assumptions C09_redescription.
Goal True. idtac "ASSUMPTIONS-OF C09_permutation_invariant". Abort.
Print Assumptions C09_permutation_invariant.
Goal True. idtac "ASSUMPTIONS-OF C09_supercell_corrector". Abort.
Print Assumptions C09_supercell_corrector.
Goal True. idtac "ASSUMPTIONS-OF C09_supercell_value". Abort.
Print Assumptions C09_supercell_value.
