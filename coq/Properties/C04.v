(* C04  Results are invariant under reference choices and scale with rates. *)
From Coq Require Import List Arith.
From Onsager Require Import Base.OrdRing Model.Net Model.Thermo Proofs.Net_proofs Proofs.Thermo_proofs.
Import ListNotations.

(* common energy shift of a species and its transition states: conductance ratios wT/Z unchanged
   (for ANY function ex with ex(a+b) = ex a * ex b, in particular exp) *)
Theorem C04_shift_invariant :
  forall (K : ordring) (ex : K -> K), (forall a b, ex (radd K a b) = rmul K (ex a) (ex b)) ->
  forall delta sites ts,
    rmul K (weight ex (shift delta ts)) (Zsum ex sites) = rmul K (weight ex ts) (Zsum ex (map (shift delta) sites)).
Proof. exact shift_invariant. Qed.

Theorem C04_prefactor_scaling :
  forall (K : ordring) (ex : K -> K) lam sites ts,
    rmul K (weight ex (prescale lam ts)) (Zsum ex sites) = rmul K (weight ex ts) (Zsum ex (map (prescale lam) sites)).
Proof. exact prefactor_scaling. Qed.

Theorem C04_kT_coscaling :
  forall (K : ordring) beta beta' s (pe : K * K),
    rmul K beta' s = beta -> betaE beta' (fst pe, rmul K s (snd pe)) = betaE beta pe.
Proof. exact kT_coscaling. Qed.

(* multiplying every rate by lam: same corrector, every coefficient multiplied by lam *)
Theorem C04_rate_scaling_corrector :
  forall (K : ordring) (N : net K) lam d g, geometric K d -> weakKCL N d g -> weakKCL (scale_net lam N) d g.
Proof. exact scale_KCL. Qed.

Theorem C04_rate_scaling :
  forall (K : ordring) (N : net K) lam dA dB gA gB, geometric K dA -> geometric K dB ->
    Bform (scale_net lam N) dA dB gA gB = rmul K lam (Bform N dA dB gA gB).
Proof. exact L_scale. Qed.

(* displacing the sites inside the cell by p (same connectivity, same rates): corrector shifts by -p, L unchanged *)
Theorem C04_displacement_corrector :
  forall (K : ordring) (N : net K) d g p,
    weakKCL N d g -> weakKCL N (fun e => radd K (d e) (rsub K (p (dst e)) (p (src e)))) (fun x => rsub K (g x) (p x)).
Proof. exact gauge_KCL. Qed.

Theorem C04_displacement_invariant :
  forall (K : ordring) (N : net K) dA dB gA gB pA pB,
    Bform N (fun e => radd K (dA e) (rsub K (pA (dst e)) (pA (src e)))) (fun e => radd K (dB e) (rsub K (pB (dst e)) (pB (src e))))
            (fun x => rsub K (gA x) (pA x)) (fun x => rsub K (gB x) (pB x))
    = Bform N dA dB gA gB.
Proof. exact L_gauge. Qed.

Goal True. idtac "ASSUMPTIONS-OF C04_shift_invariant". Abort.
Print Assumptions C04_shift_invariant.
Goal True. idtac "ASSUMPTIONS-OF C04_prefactor_scaling". Abort.
Print Assumptions C04_prefactor_scaling.
Goal True. idtac "ASSUMPTIONS-OF C04_kT_coscaling". Abort.
Print Assumptions C04_kT_coscaling.
Goal True. idtac "ASSUMPTIONS-OF C04_rate_scaling_corrector". Abort.
Print Assumptions C04_rate_scaling_corrector.
Goal True. idtac "ASSUMPTIONS-OF C04_rate_scaling". Abort.
Print Assumptions C04_rate_scaling.
Goal True. idtac "ASSUMPTIONS-OF C04_displacement_corrector". Abort.
Print Assumptions C04_displacement_corrector.
Goal True. idtac "ASSUMPTIONS-OF C04_displacement_invariant". Abort.
Print Assumptions C04_displacement_invariant.
