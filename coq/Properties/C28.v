From Coq Require Import List ZArith Bool.
From Onsager Require Import Model.Supercell Proofs.Supercell_proofs.
Import ListNotations.
Local Open Scope Z_scope.

Theorem C28_tmp : forall cn, 0 <= cn -> guard_source cn (-2) = false.
Proof. exact guard_source_accepts_m2. Qed.

Goal True. idtac "ASSUMPTIONS-OF C28_tmp". Abort.
Print Assumptions C28_tmp.
