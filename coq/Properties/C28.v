(* C28  Supercell occupancy bookkeeping stays consistent over any edit history.
   Statements only; every proof is `exact <lemma>` of Proofs/Supercell_proofs.v.
   N = number of sites, Nchem = number of declared species (vacancy = -1, species 0..Nchem-1), both
   arbitrary (Nchem >= 1: a crystal has a species); g = the guard of setocc, any function that rejects exactly the undeclared species
   (guard_ok); histories = arbitrary lists of operations whose arguments lie in op_dom (no negative
   Python subscripts as site indices, one mapping list per species, site maps that are permutations;
   species, mapping contents and out-of-range sites are arbitrary). *)
From Coq Require Import List ZArith Bool.
From Onsager Require Import Model.Supercell Proofs.Supercell_proofs.
Import ListNotations.
Local Open Scope Z_scope.

(* After ANY history from the empty supercell, both objects (the edited one and the original of
   the last copy) and the last POSCAR written are consistent. *)
Theorem C28_history :
  forall g N Nchem, (0 < Nchem)%nat -> guard_ok g Nchem -> forall ops m,
    MInv N Nchem m -> Forall (op_dom N Nchem) ops -> MInv N Nchem (run g m ops).
Proof. exact history_inv. Qed.

Theorem C28_initial : forall N Nchem, MInv N Nchem (init N Nchem).
Proof. exact init_minv. Qed.

(* One step, any operation, any outcome (exceptions included). *)
Theorem C28_step :
  forall g N Nchem m o, (0 < Nchem)%nat -> guard_ok g Nchem -> MInv N Nchem m -> op_dom N Nchem o ->
    MInv N Nchem (fst (step g m o)).
Proof. exact step_inv. Qed.

(* At every point of every history every declared species (vacancy .. last solute) can be placed on
   every site, with exactly that site changed; every other species is rejected and nothing changes. *)
Theorem C28_species :
  forall g N Nchem ops i c,
    (0 < Nchem)%nat -> guard_ok g Nchem -> Forall (op_dom N Nchem) ops -> 0 <= i < Z.of_nat N ->
    let s := cur (run g (init N Nchem) ops) in
    (declared Nchem c -> exists s', setocc g s i c = (s', OK) /\ Inv N Nchem s' /\
                                    nth_error (occ s') (Z.to_nat i) = Some c /\
                                    forall k, k <> Z.to_nat i -> nth_error (occ s') k = nth_error (occ s) k) /\
    (~ declared Nchem c -> setocc g s i c = (s, IndexError)).
Proof. exact history_species. Qed.

Theorem C28_setocc_rejects :
  forall g Nchem, guard_ok g Nchem -> forall s ind c, ~ declared Nchem c -> setocc g s ind c = (s, IndexError).
Proof. exact setocc_rejects. Qed.

(* Applying a site permutation moves occupation and ordering together. *)
Theorem C28_imul :
  forall N Nchem s idx, Inv N Nchem s -> is_perm N idx ->
    exists s', imul idx s = (s', OK) /\ Inv N Nchem s' /\
      chemorder s' = map (map (pidx idx)) (chemorder s) /\
      (forall m, (m < N)%nat -> nth_error (occ s') (Z.to_nat (nth m idx 0)) = nth_error (occ s) m).
Proof. exact imul_spec. Qed.

(* Writing a POSCAR and reading it back -- into any consistent supercell of the same shape --
   reproduces occupation and ordering exactly (content level). *)
Theorem C28_poscar_roundtrip :
  forall g N Nchem s s0, (0 < Nchem)%nat -> guard_ok g Nchem -> Inv N Nchem s -> Inv N Nchem s0 ->
    exists content, poscar_write s = Some content /\ poscar_read g content s0 = (s, OK).
Proof. exact poscar_roundtrip. Qed.

(* POSCAR files with an element-name line are read block by block into the species named on that line (model
   poscar_read_named, compared with the implementation on permuted / incomplete name lines by the harness); without
   a name line this is the plain reader of the round-trip theorem. *)
Theorem C28_named_reader_default :
  forall g content s, poscar_read_named g (zrange (length content)) content s = poscar_read g content s.
Proof. exact poscar_read_named_default. Qed.

(* The guard the property demands (and the proposed repair  c < -1 or c >= self.Nchem) is one. *)
Theorem C28_declared_guard_ok : forall nchem, guard_ok (guard_declared (Z.of_nat nchem)) nchem.
Proof. exact guard_ok_declared. Qed.

(* The guard as written in the pinned source,  c < -2 or c > self.crys.Nchem,  is not, for any
   crystal and any number of solutes; three concrete histories show each clause of the property
   failing in the faithful model (replayed on the implementation by harness/c28.py). *)
Theorem C28_source_guard_refuted :
  (forall cn ns : nat, ~ guard_ok (guard_source (Z.of_nat cn)) (cn + ns)) /\
  (exists ops, Forall (op_dom 2 1) ops /\ ~ MInv 2 1 (run (guard_source 1) (init 2 1) ops) /\
               snd (step (guard_source 1) (init 2 1) (OSet 0 (-2))) = OK /\ ~ declared 1 (-2)) /\
  (declared 3 2 /\ step (guard_source 1) (init 2 3) (OSet 0 2) = (init 2 3, IndexError)) /\
  (exists ops, Forall (op_dom 2 1) ops /\ ~ declared 1 1 /\
               snd (step (guard_source 1) (run (guard_source 1) (init 2 1) ops) (OSet 0 1)) = IndexError /\
               ~ MInv 2 1 (fst (step (guard_source 1) (run (guard_source 1) (init 2 1) ops) (OSet 0 1)))).
Proof. exact source_guard_refuted. Qed.

(* The executable invariant checker that the harness runs on the implementation's states is sound. *)
Theorem C28_checker_sound : forall N Nchem s, invb N Nchem s = true -> Inv N Nchem s.
Proof. exact invb_sound. Qed.

Goal True. idtac "ASSUMPTIONS-OF C28_history". Abort.
Print Assumptions C28_history.
Goal True. idtac "ASSUMPTIONS-OF C28_initial". Abort.
Print Assumptions C28_initial.
Goal True. idtac "ASSUMPTIONS-OF C28_step". Abort.
Print Assumptions C28_step.
Goal True. idtac "ASSUMPTIONS-OF C28_species". Abort.
Print Assumptions C28_species.
Goal True. idtac "ASSUMPTIONS-OF C28_setocc_rejects". Abort.
Print Assumptions C28_setocc_rejects.
Goal True. idtac "ASSUMPTIONS-OF C28_imul". Abort.
Print Assumptions C28_imul.
Goal True. idtac "ASSUMPTIONS-OF C28_poscar_roundtrip". Abort.
Print Assumptions C28_poscar_roundtrip.
Goal True. idtac "ASSUMPTIONS-OF C28_declared_guard_ok". Abort.
Print Assumptions C28_declared_guard_ok.
Goal True. idtac "ASSUMPTIONS-OF C28_source_guard_refuted". Abort.
Print Assumptions C28_source_guard_refuted.
Goal True. idtac "ASSUMPTIONS-OF C28_checker_sound". Abort.
Print Assumptions C28_checker_sound.
Goal True. idtac "ASSUMPTIONS-OF C28_named_reader_default". Abort.
Print Assumptions C28_named_reader_default.
