(* C18  The crystal's symmetry group is a correct group of self-isometries.
   Statements only; every proof is `exact <lemma>` of Proofs/Lattice_proofs.v.
   Geometry is in lattice coordinates over Z with one common denominator D = c_den C
   (Model/Lattice.v): positions p/D, translations tau/D, integer multiple of the metric. *)
From Coq Require Import ZArith List Bool Arith.
From Onsager Require Import Model.Lattice Proofs.Lattice_proofs.
Import ListNotations.
Local Open Scope Z_scope.

(* The finite checker run on every operation of every generated crystal decides the infinite
   statement: S preserves the metric form on ALL pairs of vectors, has an integer inverse,
   the recorded index map is a permutation of each species, the atom (c,i) of EVERY cell R
   is sent onto the atom (c, indexmap[c][i]) of some cell R', and spins are kept up to one
   global sign. *)
Theorem C18_op_checker_sound :
  forall C g, isSymOpb C g = true ->
    (forall x y : vec, gdot (c_dim C) (metric C) (mv (c_dim C) (rot g) x) (mv (c_dim C) (rot g) y)
                       = gdot (c_dim C) (metric C) x y) /\
    unimod (c_dim C) (rot g) /\
    perms_ok C g /\
    (forall c i, (c < nchem C)%nat -> (i < natoms C c)%nat -> forall R : vec, exists R' : vec,
       forall k, (k < c_dim C)%nat ->
         act (c_dim C) g (atom_at C c i R) k = atom_at C c (pm g c i) R' k) /\
    (exists s, (s = 1 \/ s = -1) /\
       forall c i, (c < nchem C)%nat -> (i < natoms C c)%nat -> spin C c (pm g c i) = s * spin C c i).
Proof. exact isSymOpb_sound_full. Qed.

(* an operation with an integer inverse maps the lattice ONTO itself *)
Theorem C18_lattice_onto :
  forall C g, isSymOp C g -> forall R' : vec, exists R : vec,
    forall k, (k < c_dim C)%nat -> mv (c_dim C) (rot g) R k = R' k.
Proof. exact isSymOp_onto. Qed.

(* the unimodularity test is exactly |det S| = 1 (dimensions 1..3), the atom test is complete *)
Theorem C18_unimodular_test_complete :
  forall d S, (1 <= d <= 3)%nat -> unimod d S -> det d S * det d S = 1 /\ unimodb d S = true.
Proof. exact unimod_test_complete. Qed.

Theorem C18_atom_test_complete :
  forall C g, c_den C <> 0 -> maps_atoms C g -> atomsb C g = true.
Proof. exact atomsb_complete. Qed.

(* what is evaluated for every crystal of the correspondence: both diagnoses 0 => every listed
   operation is valid (all cells) and the list is a group modulo lattice translations
   (contains the identity, closed under the code's product, contains the code's inverses) *)
Theorem C18_group_sound :
  forall C ops, first_bad C ops 0 = (0%nat, 0%nat) -> diagnose_group C ops = 0%nat -> ops <> [] ->
    (forall g, In g ops -> isSymOp C g) /\
    (exists e, In e ops /\ eqmod C (op_id C) e) /\
    (forall a b, In a ops -> In b ops -> exists c, In c ops /\ eqmod C (op_mul (c_dim C) a b) c) /\
    (forall a, In a ops -> exists b, In b ops /\ eqmod C (op_inv (c_dim C) a) b).
Proof. exact crystal_group_sound. Qed.

(* equality modulo lattice translations means: images differ by lattice vectors *)
Theorem C18_eqmod_meaning :
  forall C a b x k, eqmod C a b -> (k < c_dim C)%nat ->
    exists n, act (c_dim C) a x k - act (c_dim C) b x k = c_den C * n.
Proof. exact eqmod_act. Qed.

(* GroupOp algebra (as coded: __mul__, inv by argsort, ident): valid operations are closed under
   product and inverse, the identity is valid, the product acts as the composition, the inverse
   acts as the inverse map and its index map is the inverse permutation *)
Theorem C18_mul_valid :
  forall C a b, isSymOp C a -> isSymOp C b -> isSymOp C (op_mul (c_dim C) a b).
Proof. exact mul_valid. Qed.

Theorem C18_inv_valid :
  forall C a, (1 <= c_dim C <= 3)%nat -> isSymOp C a -> isSymOp C (op_inv (c_dim C) a).
Proof. exact inv_valid. Qed.

Theorem C18_ident_valid : forall C, isSymOp C (op_id C).
Proof. exact id_valid. Qed.

Theorem C18_act_mul :
  forall d a b x k, (k < d)%nat -> act d (op_mul d a b) x k = act d a (act d b x) k.
Proof. exact act_mul. Qed.

Theorem C18_inv_correct :
  forall C a x k, (1 <= c_dim C <= 3)%nat -> isSymOp C a -> (k < c_dim C)%nat ->
    act (c_dim C) (op_mul (c_dim C) a (op_inv (c_dim C) a)) x k = x k /\
    act (c_dim C) (op_mul (c_dim C) (op_inv (c_dim C) a) a) x k = x k.
Proof. exact inv_correct. Qed.

Theorem C18_inv_correct_perm :
  forall C a c i, isSymOp C a -> (c < nchem C)%nat -> (i < natoms C c)%nat ->
    pm (op_inv (c_dim C) a) c (pm a c i) = i /\ pm a c (pm (op_inv (c_dim C) a) c i) = i.
Proof. exact inv_correct_perm. Qed.

Goal True. idtac "ASSUMPTIONS-OF C18_op_checker_sound". Abort.
Print Assumptions C18_op_checker_sound.
Goal True. idtac "ASSUMPTIONS-OF C18_lattice_onto". Abort.
Print Assumptions C18_lattice_onto.
Goal True. idtac "ASSUMPTIONS-OF C18_unimodular_test_complete". Abort.
Print Assumptions C18_unimodular_test_complete.
Goal True. idtac "ASSUMPTIONS-OF C18_atom_test_complete". Abort.
Print Assumptions C18_atom_test_complete.
Goal True. idtac "ASSUMPTIONS-OF C18_group_sound". Abort.
Print Assumptions C18_group_sound.
Goal True. idtac "ASSUMPTIONS-OF C18_eqmod_meaning". Abort.
Print Assumptions C18_eqmod_meaning.
Goal True. idtac "ASSUMPTIONS-OF C18_mul_valid". Abort.
Print Assumptions C18_mul_valid.
Goal True. idtac "ASSUMPTIONS-OF C18_inv_valid". Abort.
Print Assumptions C18_inv_valid.
Goal True. idtac "ASSUMPTIONS-OF C18_ident_valid". Abort.
Print Assumptions C18_ident_valid.
Goal True. idtac "ASSUMPTIONS-OF C18_act_mul". Abort.
Print Assumptions C18_act_mul.
Goal True. idtac "ASSUMPTIONS-OF C18_inv_correct". Abort.
Print Assumptions C18_inv_correct.
Goal True. idtac "ASSUMPTIONS-OF C18_inv_correct_perm". Abort.
Print Assumptions C18_inv_correct_perm.
