(* C06  Tracer limit.  The tracer pair chain (all rates bare) on ANY torus fibres over the bare vacancy network:
   the vacancy's out-edges from a pair state project bijectively onto the vacancy's out-edges from its site.
   tracer_check decides exactly that structure (plus well-formedness, reversibility, uniform fibre size, the
   solute-displacement pattern of swing/exchange edges, and Kirchhoff for the supplied bare correctors); its
   soundness theorem gives, for every chain that passes (any crystal, any torus size, any rates):
     - the pulled-back bare correctors are correctors of the chain,
     - Lvv(chain) = kfib * L(bare)      [kfib = N M^d - 1  =>  L1vv = 0 in the implementation's normalisation],
     - Lsv(chain) = - L(bare)           [=>  Lsv = -L0vv].
   0 <= Lss is L_psd.  Upper bound: with the solute-site map q passing `qstructb` (solute stays on swing edges, solute and
   vacancy swap on exchange edges), Thomson's principle with the test field (bare corrector) o q gives, for EVERY
   direction n,  n.Lss.n <= n.L(bare).n  (C06_Lss_upper), i.e. Lss <= L0vv in the implementation's normalisation. *)
From Coq Require Import List Arith.
From Onsager Require Import Base.OrdRing Model.Net Model.Interstitial Model.NetMaps Model.Lump
     Proofs.Net_proofs Proofs.NetMaps_proofs Proofs.Lump_proofs.
Import ListNotations.

Theorem C06_tracer_identities :
  forall (K : ordring) dim nX nY kfib (Nsw Nex NY : net K) (p : list nat) gam,
  tracer_check dim nX nY kfib Nsw Nex NY p gam = true ->
  let NX := Nsw ++ Nex in
  let pf := permfun p in
  forall k l, k < dim -> l < dim ->
    weakKCL NX (comp (dim + l)) (fun x => fld (nth l gam []) (pf x)) /\
    Bform NX (comp (dim + k)) (comp (dim + l)) (fun x => fld (nth k gam []) (pf x)) (fun x => fld (nth l gam []) (pf x))
      = kmul kfib (Bform NY (comp k) (comp l) (fld (nth k gam [])) (fld (nth l gam []))) /\
    (forall gS, Bform NX (comp k) (comp (dim + l)) gS (fun x => fld (nth l gam []) (pf x))
                = ropp K (Bform NY (comp k) (comp l) (fld (nth k gam [])) (fld (nth l gam [])))).
Proof. exact tracer_check_sound. Qed.

(* general lumping theorem behind it (also used for non-primitive crystal descriptions, C09) *)
Theorem C06_lump_corrector :
  forall (K : ordring) (NX NY : net K) nX nY p view,
    (forall x, x < nX -> Permutation.Permutation (map (proj p view) (out NX x)) (out NY (p x))) ->
    (forall x, x < nX -> p x < nY) ->
    forall dX dY g, wf NX nX -> Permutation.Permutation (map rev NX) NX -> odd K dX -> related K p view dX dY ->
      outKCL NY nY dY g -> weakKCL NX dX (fun x => g (p x)).
Proof. exact lump_corrector. Qed.

Theorem C06_lump_value :
  forall (K : ordring) (NX NY : net K) nX nY p view,
    (forall x, x < nX -> Permutation.Permutation (map (proj p view) (out NX x)) (out NY (p x))) ->
    (forall x, x < nX -> p x < nY) ->
    forall dXA dXB dYA dYB gA gB k,
      wf NX nX -> wf NY nY -> related K p view dXA dYA -> related K p view dXB dYB ->
      (forall y, y < nY -> length (fibre nX p y) = k) ->
      Bform NX dXA dXB (fun x => gA (p x)) (fun x => gB (p x)) = kmul k (Bform NY dYA dYB gA gB).
Proof. exact lump_value. Qed.

Theorem C06_Lss_upper :
  forall (K : ordring) dim nX nY kfib (Nsw Nex NY : net K) (p q : list nat) gam coef gS gY,
    tracer_check dim nX nY kfib Nsw Nex NY p gam = true ->
    qstructb Nsw Nex p q = true ->
    nonnegb (Nsw ++ Nex) = true ->
    weakKCL (Nsw ++ Nex) (lin dim coef (@comp K)) gS ->
    rle K (Bform (Nsw ++ Nex) (lin dim coef (@comp K)) (lin dim coef (@comp K)) gS gS)
          (Bform NY (lin dim coef (@comp K)) (lin dim coef (@comp K)) gY gY).
Proof. exact tracer_upper_sound. Qed.

Theorem C06_Lss_nonneg :
  forall (K : ordring) (N : net K) d g, nonneg N -> rle K (r0 K) (Bform N d d g g).
Proof. exact L_psd. Qed.

Goal True. idtac "ASSUMPTIONS-OF C06_tracer_identities". Abort.
Print Assumptions C06_tracer_identities.
Goal True. idtac "ASSUMPTIONS-OF C06_lump_corrector". Abort.
Print Assumptions C06_lump_corrector.
Goal True. idtac "ASSUMPTIONS-OF C06_lump_value". Abort.
Print Assumptions C06_lump_value.
Goal True. idtac "ASSUMPTIONS-OF C06_Lss_nonneg". Abort.
Print Assumptions C06_Lss_nonneg.
Goal True. idtac "ASSUMPTIONS-OF C06_Lss_upper". Abort.
Print Assumptions C06_Lss_upper.
