(* C21  Jump networks are complete, closed and obstruction-aware.
   Statements only; every proof is `exact <lemma>` of Proofs/.  Crystals range over every
   integer-scaled metric / scale D / list of species with any number of sites (dimension <= 3; a
   2-D crystal is embedded), cutoffs over every integer (scaled cutoff^2), operations over
   every list. *)
From Coq Require Import ZArith List Bool.
From Onsager Require Import Model.Geom3 Model.Jumps Proofs.Geom3_proofs Proofs.Jumps_proofs.
Import ListNotations.
Local Open Scope Z_scope.

(* the enumeration is sound and complete within its box ... *)
Theorem C21_jumps_spec : forall cr chem c2 nmax obst onmax x,
  In x (jumps cr chem c2 nmax obst onmax) <->
  (ji x < nsites cr chem)%nat /\ (jj x < nsites cr chem)%nat /\ In (jR x) (box nmax) /\
  0 < len2 cr chem x < c2 /\ obstructedb cr chem obst onmax x = false.
Proof. exact jumps_spec. Qed.

(* ... lists every jump once ... *)
Theorem C21_jumps_nodup : forall cr chem c2 nmax obst onmax, NoDup (jumps cr chem c2 nmax obst onmax).
Proof. exact jumps_nodup. Qed.

(* ... and the decidable certificate range_ok makes the box irrelevant: every jump of the species
   shorter than the cutoff lies in the box (Cauchy-Schwarz in the metric) *)
Theorem C21_range_ok_complete : forall cr chem c2 nmax spread x,
  jump_range_okb cr chem c2 nmax spread = true ->
  (ji x < nsites cr chem)%nat -> (jj x < nsites cr chem)%nat -> len2 cr chem x < c2 ->
  In (jR x) (box nmax).
Proof. exact range_ok_complete. Qed.

(* the boxed obstruction test decides obstruction by ANY atom of another species in ANY cell *)
Theorem C21_obstruction_exact : forall cr chem obst c2 c2o onmax spread x,
  obst_range_okb cr chem obst c2 c2o onmax spread = true ->
  (ji x < nsites cr chem)%nat -> 0 < len2 cr chem x < c2 ->
  (obstructedb cr chem obst onmax x = true <-> obstructed cr chem obst x).
Proof. exact obstructedb_iff. Qed.

(* hence: the model's jump list is exactly the box-free specification *)
Theorem C21_jumps_complete : forall cr chem c2 nmax spread obst c2o onmax ospread x,
  jump_range_okb cr chem c2 nmax spread = true ->
  obst_range_okb cr chem obst c2 c2o onmax ospread = true ->
  (In x (jumps cr chem c2 nmax obst onmax) <-> is_jump cr chem c2 obst x).
Proof. exact jumps_complete. Qed.

(* the symmetry expansion (orbit / classes, as in the code) is closed under reversal, contains
   the images under every operation, and covers every jump *)
Theorem C21_classes_rev_closed : forall ops js C, In C (classes ops js) -> forall y, In y C -> In (rev y) C.
Proof. exact classes_rev_closed. Qed.

Theorem C21_orbit_contains : forall ops x g, In g ops -> In (act g x) (orbit ops x) /\ In (rev (act g x)) (orbit ops x).
Proof. exact orbit_contains. Qed.

Theorem C21_classes_cover : forall ops js,
  (forall x, In x js -> exists g, In g ops /\ act g x = x) ->
  forall x, In x js -> exists C, In C (classes ops js) /\ In x C.
Proof. exact classes_cover. Qed.

(* valid operations and reversal map jumps to jumps of the same length *)
Theorem C21_act_preserves_length : forall cr chem g x, op_okb cr chem g = true ->
  (ji x < nsites cr chem)%nat -> (jj x < nsites cr chem)%nat ->
  len2 cr chem (act g x) = len2 cr chem x /\
  (ji (act g x) < nsites cr chem)%nat /\ (jj (act g x) < nsites cr chem)%nat.
Proof. exact act_preserves_length. Qed.

Theorem C21_rev_preserves_length : forall cr chem x, len2 cr chem (rev x) = len2 cr chem x.
Proof. exact rev_preserves_length. Qed.

(* the closure checker run on the implementation's classes is sound *)
Theorem C21_classes_closedb_sound : forall ops cls, classes_closedb ops cls = true ->
  forall C, In C cls -> forall y, In y C -> In (rev y) C /\ forall g, In g ops -> In (act g y) C.
Proof. exact classes_closedb_sound. Qed.

(* lattice form and displacement form determine each other *)
Theorem C21_lattice_form_injective : forall cr chem i j R R',
  cD cr <> 0 -> disp cr chem (i, j, R) = disp cr chem (i, j, R') -> R = R'.
Proof. exact lattice_form_injective. Qed.

(* the decision run on every correspondence case: code 0 means the implementation's network is
   EXACTLY the set of unobstructed jumps below the cutoff (no box), duplicate free, every class
   closed under every supplied (and validated) operation and under reversal, and the lattice form
   identical *)
Theorem C21_check_network_sound : forall k, check_network k = 0%nat ->
  let cr := k_cr k in let chem := k_chem k in let flat := concat (k_impl k) in
  NoDup flat /\
  (forall x, In x flat <-> is_jump cr chem (k_c2 k) (k_obst k) x) /\
  (forall C, In C (k_impl k) -> forall y, In y C ->
      In (rev y) C /\ forall g, In g (k_ops k) -> In (act g y) C) /\
  (forall g x, In g (k_ops k) -> (ji x < nsites cr chem)%nat -> (jj x < nsites cr chem)%nat ->
      len2 cr chem (act g x) = len2 cr chem x) /\
  k_latt k = k_impl k.
Proof. exact check_network_sound. Qed.

Goal True. idtac "ASSUMPTIONS-OF C21_jumps_spec". Abort.
Print Assumptions C21_jumps_spec.
Goal True. idtac "ASSUMPTIONS-OF C21_jumps_nodup". Abort.
Print Assumptions C21_jumps_nodup.
Goal True. idtac "ASSUMPTIONS-OF C21_range_ok_complete". Abort.
Print Assumptions C21_range_ok_complete.
Goal True. idtac "ASSUMPTIONS-OF C21_obstruction_exact". Abort.
Print Assumptions C21_obstruction_exact.
Goal True. idtac "ASSUMPTIONS-OF C21_jumps_complete". Abort.
Print Assumptions C21_jumps_complete.
Goal True. idtac "ASSUMPTIONS-OF C21_classes_rev_closed". Abort.
Print Assumptions C21_classes_rev_closed.
Goal True. idtac "ASSUMPTIONS-OF C21_orbit_contains". Abort.
Print Assumptions C21_orbit_contains.
Goal True. idtac "ASSUMPTIONS-OF C21_classes_cover". Abort.
Print Assumptions C21_classes_cover.
Goal True. idtac "ASSUMPTIONS-OF C21_act_preserves_length". Abort.
Print Assumptions C21_act_preserves_length.
Goal True. idtac "ASSUMPTIONS-OF C21_rev_preserves_length". Abort.
Print Assumptions C21_rev_preserves_length.
Goal True. idtac "ASSUMPTIONS-OF C21_classes_closedb_sound". Abort.
Print Assumptions C21_classes_closedb_sound.
Goal True. idtac "ASSUMPTIONS-OF C21_lattice_form_injective". Abort.
Print Assumptions C21_lattice_form_injective.
Goal True. idtac "ASSUMPTIONS-OF C21_check_network_sound". Abort.
Print Assumptions C21_check_network_sound.
