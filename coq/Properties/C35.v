(* C35  The compiled sampler behaves exactly like the reference sampler.
   Statements only; every proof is `exact <lemma>` of Proofs/SamplerJit_proofs.v.
   R K sd st s : the refinement relation between a reference-sampler state st (Model/Sampler.v) and a
   compiled-sampler state s (Model/SamplerJit.v): st satisfies the C33 invariant, same occ and clustercount,
   occupied_set[:Nocc] / unoccupied_set[:Nunocc] list exactly the sites with occ 1 / 0 and index[] is the
   inverse of that listing.  Quantified over every ring of energies, every static table, every occupation,
   every list of moves.  numba compilation is outside the model (trusted).                                  *)
From Coq Require Import List ZArith Arith.
From Onsager Require Import Base.OrdRing Base.Instances Model.Sampler Model.SamplerJit
     Proofs.Sampler_proofs Proofs.SamplerJit_proofs.
Import ListNotations.
Local Open Scope Z_scope.

(* start(): whatever the compiled sampler held before, after start(o) it is related to the reference sampler
   started on o. *)
Theorem C35_start :
  forall (K : ordring) (sd : static K) (s0 : jstate) (o : list Z) (st : mcstate),
    WFJ K sd s0 -> start K sd o = Some st -> R K sd st (jstart K sd s0 o).
Proof. exact R_start. Qed.

(* the relation says what the property needs: the arrays list the reference sets without repetition *)
Theorem C35_listing :
  forall (K : ordring) (sd : static K) st s, R K sd st s ->
    (forall i, In i (firstn (Nocc s) (joset s)) <-> In i (oset st)) /\ NoDup (firstn (Nocc s) (joset s)) /\
    (forall i, In i (firstn (Nunocc s) (juset s)) <-> In i (uset st)) /\ NoDup (firstn (Nunocc s) (juset s)).
Proof. exact R_listing. Qed.

(* equal energies *)
Theorem C35_E :
  forall (K : ordring) (sd : static K) st s, R K sd st s -> (Nenergy sd <= Nint K sd)%nat -> jE K sd s = E K sd st.
Proof. exact R_E. Qed.

(* equal trial energy changes (rows of siteinteract list energy interactions first: rows_okb, checked on
   the real tables on every run) *)
Theorem C35_deltaE :
  forall (K : ordring) (sd : static K) st s i j, R K sd st s ->
    (Nenergy sd <= Nint K sd)%nat -> rows_okb K sd = true ->
    (i < Nsites K sd)%nat -> (j < Nsites K sd)%nat -> nth i (occ st) 2 = 0 -> nth j (occ st) 2 = 1 ->
    deltaE_trial K sd st [i] [j] = Some (jdeltaE K sd s i j).
Proof. exact R_deltaE. Qed.

(* update preserves the relation (and the reference update cannot raise) *)
Theorem C35_update :
  forall (K : ordring) (sd : static K) st s i j, R K sd st s ->
    (i < Nsites K sd)%nat -> (j < Nsites K sd)%nat -> nth i (occ st) 2 = 0 -> nth j (occ st) 2 = 1 ->
    exists st', update K sd st [i] [j] = Some st' /\ R K sd st' (jupdate K sd s i j) /\
                Nocc (jupdate K sd s i j) = Nocc s /\ Nunocc (jupdate K sd s i j) = Nunocc s.
Proof. exact R_update. Qed.

(* same transitions and barriers: the compiled list with its forbidden (infinite) entries removed IS the
   reference list (jump sites in range; with a vacancy every jump starts at the vacancy) *)
Theorem C35_transitions :
  forall (K : ordring) (sd : static K) st s js, R K sd st s -> jumps sd = Some js -> jumps_ok K sd js ->
    transitions K sd st = Some (finite_only K (jtransitions K sd s)).
Proof. exact R_transitions. Qed.

(* a batch of moves equals applying the Metropolis rule move by move ... *)
Theorem C35_MCmoves_batch :
  forall (K : ordring) (sd : static K) s l1 l2,
    jMCmoves K sd s (l1 ++ l2) = jMCmoves K sd (jMCmoves K sd s l1) l2.
Proof. exact MCmoves_app. Qed.

Theorem C35_MCmoves_one :
  forall (K : ordring) (sd : static K) s mv, jMCmoves K sd s [mv] = jmc_step K sd s mv.
Proof. exact MCmoves_one. Qed.

(* ... and it refines the Metropolis rule run on the reference sampler (same trial energies, same accepted
   updates), for any list of choices within range and any thresholds *)
Theorem C35_MCmoves_refines :
  forall (K : ordring) (sd : static K) (moves : list (nat * nat * K)) st s, R K sd st s ->
    (Nenergy sd <= Nint K sd)%nat -> rows_okb K sd = true ->
    (forall oc uc t, In (oc, uc, t) moves -> (oc < Nunocc s)%nat /\ (uc < Nocc s)%nat) ->
    exists st', co_run K sd st s moves = Some (st', jMCmoves K sd s moves) /\ R K sd st' (jMCmoves K sd s moves).
Proof. exact R_MCmoves. Qed.

Goal True. idtac "ASSUMPTIONS-OF C35_start". Abort.
Print Assumptions C35_start.
Goal True. idtac "ASSUMPTIONS-OF C35_listing". Abort.
Print Assumptions C35_listing.
Goal True. idtac "ASSUMPTIONS-OF C35_E". Abort.
Print Assumptions C35_E.
Goal True. idtac "ASSUMPTIONS-OF C35_deltaE". Abort.
Print Assumptions C35_deltaE.
Goal True. idtac "ASSUMPTIONS-OF C35_update". Abort.
Print Assumptions C35_update.
Goal True. idtac "ASSUMPTIONS-OF C35_transitions". Abort.
Print Assumptions C35_transitions.
Goal True. idtac "ASSUMPTIONS-OF C35_MCmoves_batch". Abort.
Print Assumptions C35_MCmoves_batch.
Goal True. idtac "ASSUMPTIONS-OF C35_MCmoves_one". Abort.
Print Assumptions C35_MCmoves_one.
Goal True. idtac "ASSUMPTIONS-OF C35_MCmoves_refines". Abort.
Print Assumptions C35_MCmoves_refines.
