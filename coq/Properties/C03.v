(* C03  Transport tensors are symmetric, non-negative and crystal-invariant.
   All statements: every ordered commutative ring K, every finite reversible network (interstitial unit
   cell, bare vacancy, solute-vacancy pair chain on any torus), any correctors. *)
From Coq Require Import List Arith ZArith.
From Onsager Require Import Base.OrdRing Base.Instances Model.Net Model.Interstitial Model.NetMaps
     Model.Lump Model.TensorSym Proofs.Net_proofs Proofs.NetMaps_proofs Proofs.TensorSym_proofs.
Import ListNotations.

(* symmetric in the Cartesian indices (and Onsager reciprocity between species) *)
Theorem C03_symmetric :
  forall (K : ordring) (N : net K) dA dB gA gB, Bform N dA dB gA gB = Bform N dB dA gB gA.
Proof. exact L_sym. Qed.

(* diagonal coefficients (D, L0vv, Lss) are non-negative in every direction: for the displacement
   contracted with any direction, and in tensor form on every 2-plane *)
Theorem C03_nonneg :
  forall (K : ordring) (N : net K) d g, nonneg N -> rle K (r0 K) (Bform N d d g g).
Proof. exact L_psd. Qed.

Theorem C03_nonneg_tensor :
  forall (K : ordring) (N : net K) dA dB gA gB a b,
    nonneg N -> weakKCL N dA gA -> weakKCL N dB gB ->
    rle K (r0 K)
        (radd K (radd K (rmul K (rmul K a a) (Bform N dA dA gA gA))
                        (rmul K (rmul K (rmul K (radd K (r1 K) (r1 K)) a) b) (Bform N dA dB gA gB)))
                (rmul K (rmul K b b) (Bform N dB dB gB gB))).
Proof. exact L_psd_tensor. Qed.

(* a crystal operation (integer matrix Rm on lattice-coordinate displacements, site permutation p) that
   maps the edge multiset of the network onto itself leaves the transport tensor invariant: L = Rm L Rm^T *)
Theorem C03_crystal_invariant :
  forall (K : ordring) (N : net K) dim Rm p q (g : nat -> nat -> K),
    (forall x, q (p x) = x) ->
    Permutation.Permutation (map_net dim Rm p N) N ->
    (forall l, l < dim -> weakKCL N (comp l) (g l)) ->
    forall k l, k < dim -> l < dim ->
      Bform N (comp k) (comp l) (g k) (g l)
      = conj_tensor dim Rm (fun a b => Bform N (comp a) (comp b) (g a) (g b)) k l.
Proof. exact L_iso. Qed.

(* the executable symmetry check run on the implementation's networks is sound *)
Theorem C03_symmetry_checker_sound :
  forall (K : ordring) (N : net K) dim Rm p q n (g : nat -> nat -> K),
    length p = n -> length q = n -> inverseb n p q = true ->
    isob dim Rm (permfun p) N = true ->
    (forall l, l < dim -> weakKCL N (comp l) (g l)) ->
    forall k l, k < dim -> l < dim ->
      Bform N (comp k) (comp l) (g k) (g l)
      = conj_tensor dim Rm (fun a b => Bform N (comp a) (comp b) (g a) (g b)) k l.
Proof. exact symmetry_checker_sound. Qed.

(* CROSS tensors (solute-vacancy).  C03_symmetric exchanges species and indices TOGETHER (Onsager reciprocity
   Lsv_ab = Lvs_ba); symmetry of X_ab = L(S_a, V_b) in a,b alone is NOT a theorem: *)
Theorem C03_cross_symmetric_refuted :
  exists (N : net Zring) (g : nat -> nat -> Z),
    nonneg N /\ revclosedb N = true /\
    (forall k, k < 4 -> weakKCL N (comp k) (g k)) /\
    Bform N (comp 0) (comp (2 + 1)) (g 0) (g 3) <> Bform N (comp 1) (comp (2 + 0)) (g 1) (g 2).
Proof. exact cross_symmetric_refuted. Qed.

(* ... it holds exactly when the point group leaves no antisymmetric tensor invariant.  Partial statement of the
   property for cross tensors: T invariant under the operations Rs (which C03_crystal_invariant provides, applied to
   the two-species network with displacement ds ++ dv and the block matrix R (+) R) and the executable criterion
   no_axialb give |Rs| * 2 * (T_kl - T_lk) = 0 in every ordered ring, hence T_kl = T_lk in torsion-free rings (Z, Q). *)
Theorem C03_cross_symmetric_partial :
  forall (K : ordring) dim Rs (T : nat -> nat -> K),
    invariant dim Rs T -> no_axialb dim Rs = true ->
    forall k l, k < dim -> l < dim ->
      kmul (length Rs) (radd K (asym T k l) (asym T k l)) = r0 K.
Proof. exact cross_symmetric_of_group. Qed.

Theorem C03_cross_symmetric_partial_Z :
  forall dim Rs (T : nat -> nat -> Z),
    Rs <> [] -> invariant (K:=Zring) dim Rs T -> no_axialb (K:=Zring) dim Rs = true ->
    forall k l, k < dim -> l < dim -> T k l = T l k.
Proof. intros dim Rs T. exact (cross_symmetric_of_group_tf Zring dim Rs T Z_torsion_free). Qed.

(* the invariance premise is itself decided on the implementation's chain: operations (R, p, q) whose block form
   R (+) R with the state permutation p maps the two-species network onto itself leave the cross tensor invariant ... *)
Theorem C03_cross_invariant :
  forall (K : ordring) n dim (N : net K) ops (g : nat -> nat -> K),
    ops_okb dim n N ops = true ->
    (forall l, l < dim + dim -> weakKCL N (comp l) (g l)) ->
    invariant dim (map (fun o => fst (fst o)) ops)
              (fun a b => Bform N (comp a) (comp (dim + b)) (g a) (g (dim + b))).
Proof. exact cross_invariant. Qed.

(* ... so the two executable checks together (every operation maps the chain onto itself; no antisymmetric tensor is
   invariant) make the cross tensor symmetric, for ANY correctors *)
Theorem C03_cross_symmetric_checker_sound :
  forall (K : ordring) n dim (N : net K) ops (g : nat -> nat -> K),
    ops_okb dim n N ops = true ->
    no_axialb dim (map (fun o => fst (fst o)) ops) = true ->
    (forall l, l < dim + dim -> weakKCL N (comp l) (g l)) ->
    forall k l, k < dim -> l < dim ->
      let T := fun a b => Bform N (comp a) (comp (dim + b)) (g a) (g (dim + b)) in
      kmul (length ops) (radd K (asym T k l) (asym T k l)) = r0 K.
Proof. exact cross_symmetric_checker_sound. Qed.

(* the exact evaluator of the cross tensor used by the correspondence is sound *)
Theorem C03_cross_report_sound :
  forall (K : ordring) n dim (N : net K) gam X,
    cross_report n dim N gam = Some X ->
    nonneg N /\
    forall a b, a < dim -> b < dim ->
      forall ga gb, weakKCL N (comp a) ga -> weakKCL N (comp (dim + b)) gb ->
        Bform N (comp a) (comp (dim + b)) ga gb = ent X a b.
Proof. exact cross_report_sound. Qed.

Goal True. idtac "ASSUMPTIONS-OF C03_symmetric". Abort.
Print Assumptions C03_symmetric.
Goal True. idtac "ASSUMPTIONS-OF C03_nonneg". Abort.
Print Assumptions C03_nonneg.
Goal True. idtac "ASSUMPTIONS-OF C03_nonneg_tensor". Abort.
Print Assumptions C03_nonneg_tensor.
Goal True. idtac "ASSUMPTIONS-OF C03_crystal_invariant". Abort.
Print Assumptions C03_crystal_invariant.
Goal True. idtac "ASSUMPTIONS-OF C03_symmetry_checker_sound". Abort.
Print Assumptions C03_symmetry_checker_sound.
Goal True. idtac "ASSUMPTIONS-OF C03_cross_symmetric_refuted". Abort.
Print Assumptions C03_cross_symmetric_refuted.
Goal True. idtac "ASSUMPTIONS-OF C03_cross_symmetric_partial". Abort.
Print Assumptions C03_cross_symmetric_partial.
Goal True. idtac "ASSUMPTIONS-OF C03_cross_symmetric_partial_Z". Abort.
Print Assumptions C03_cross_symmetric_partial_Z.
Goal True. idtac "ASSUMPTIONS-OF C03_cross_report_sound". Abort.
Print Assumptions C03_cross_report_sound.
Goal True. idtac "ASSUMPTIONS-OF C03_cross_invariant". Abort.
Print Assumptions C03_cross_invariant.
Goal True. idtac "ASSUMPTIONS-OF C03_cross_symmetric_checker_sound". Abort.
Print Assumptions C03_cross_symmetric_checker_sound.
