(* C03  Transport tensors are symmetric, non-negative and crystal-invariant.
   All statements: every ordered commutative ring K, every finite reversible network (interstitial unit
   cell, bare vacancy, solute-vacancy pair chain on any torus), any correctors. *)
From Coq Require Import List Arith.
From Onsager Require Import Base.OrdRing Model.Net Model.Interstitial Model.NetMaps
     Proofs.Net_proofs Proofs.NetMaps_proofs.
Import ListNotations.

(* symmetric in the Cartesian indices (and Onsager reciprocity between species) *)
Theorem C03_symmetric :
  forall (K : ordring) (N : net K) dA dB gA gB, Bform N dA dB gA gB = Bform N dB dA gB gA.
Proof. exact L_sym. Qed.

(* diagonal coefficients (D, L0vv, Lss) are non-negative in every direction: for the displacement
   contracted with any direction, and in tensor form on every 2-plane *)
Theorem C03_nonneg :
  forall (K : ordring) (N : net K) d g, nonneg N -> rle K (r0 K) (Bform N d d g g).
Proof. exact L_psd. Qed.

Theorem C03_nonneg_tensor :
  forall (K : ordring) (N : net K) dA dB gA gB a b,
    nonneg N -> weakKCL N dA gA -> weakKCL N dB gB ->
    rle K (r0 K)
        (radd K (radd K (rmul K (rmul K a a) (Bform N dA dA gA gA))
                        (rmul K (rmul K (rmul K (radd K (r1 K) (r1 K)) a) b) (Bform N dA dB gA gB)))
                (rmul K (rmul K b b) (Bform N dB dB gB gB))).
Proof. exact L_psd_tensor. Qed.

(* a crystal operation (integer matrix Rm on lattice-coordinate displacements, site permutation p) that
   maps the edge multiset of the network onto itself leaves the transport tensor invariant: L = Rm L Rm^T *)
Theorem C03_crystal_invariant :
  forall (K : ordring) (N : net K) dim Rm p q (g : nat -> nat -> K),
    (forall x, q (p x) = x) ->
    Permutation.Permutation (map_net dim Rm p N) N ->
    (forall l, l < dim -> weakKCL N (comp l) (g l)) ->
    forall k l, k < dim -> l < dim ->
      Bform N (comp k) (comp l) (g k) (g l)
      = conj_tensor dim Rm (fun a b => Bform N (comp a) (comp b) (g a) (g b)) k l.
Proof. exact L_iso. Qed.

(* the executable symmetry check run on the implementation's networks is sound *)
Theorem C03_symmetry_checker_sound :
  forall (K : ordring) (N : net K) dim Rm p q n (g : nat -> nat -> K),
    length p = n -> length q = n -> inverseb n p q = true ->
    isob dim Rm (permfun p) N = true ->
    (forall l, l < dim -> weakKCL N (comp l) (g l)) ->
    forall k l, k < dim -> l < dim ->
      Bform N (comp k) (comp l) (g k) (g l)
      = conj_tensor dim Rm (fun a b => Bform N (comp a) (comp b) (g a) (g b)) k l.
Proof. exact symmetry_checker_sound. Qed.

Goal True. idtac "ASSUMPTIONS-OF C03_symmetric". Abort.
Print Assumptions C03_symmetric.
Goal True. idtac "ASSUMPTIONS-OF C03_nonneg". Abort.
Print Assumptions C03_nonneg.
Goal True. idtac "ASSUMPTIONS-OF C03_nonneg_tensor". Abort.
Print Assumptions C03_nonneg_tensor.
Goal True. idtac "ASSUMPTIONS-OF C03_crystal_invariant". Abort.
Print Assumptions C03_crystal_invariant.
Goal True. idtac "ASSUMPTIONS-OF C03_symmetry_checker_sound". Abort.
Print Assumptions C03_symmetry_checker_sound.
