(* C02  Interstitial diffusivity equals the exact long-time diffusivity.
   Statements only; every proof is `exact <lemma>` of Proofs/.  K ranges over every ordered
   commutative ring (Z, Qc, R, ...), networks over every finite list of edges. *)
From Coq Require Import List Arith.
From Onsager Require Import Base.OrdRing Model.Net Model.Interstitial Model.NetMaps Proofs.Net_proofs Proofs.Interstitial_proofs Proofs.NetMaps_proofs.
Import ListNotations.

(* The transport coefficient of a network is well defined: it does not depend on which
   solution of Kirchhoff's equations (corrector) is used -- solve, pinv, or any other. *)
Theorem C02_corrector_independent :
  forall (K : ordring) (N : net K) dA dB gA gA' gB gB',
    weakKCL N dA gA -> weakKCL N dB gB' -> Bform N dA dB gA gB = Bform N dA dB gA' gB'.
Proof. exact L_welldef. Qed.

(* It equals the code's "uncorrelated part + bias . corrector" form. *)
Theorem C02_bias_form :
  forall (K : ordring) (N : net K) dA dB gA gB,
    weakKCL N dB gB ->
    Bform N dA dB gA gB = radd K (D0form N dA dB) (sumf (fun e => rmul K (rmul K (cond e) (dA e)) (grad gB e)) N).
Proof. exact L_bias_form. Qed.

Theorem C02_bias_dot :
  forall (K : ordring) (N : net K) n d g, wf N n ->
    sumf (fun e => rmul K (rmul K (cond e) (d e)) (grad g e)) N
    = ropp K (sumf (fun x => rmul K (bias N d x) (g x)) (seq 0 n)).
Proof. exact bias_dot. Qed.

(* Per-site Kirchhoff equations (what a linear solve returns) imply the weak form. *)
Theorem C02_sitewise_kirchhoff_suffices :
  forall (K : ordring) (N : net K) n d g, wf N n -> strongKCL N n d g -> weakKCL N d g.
Proof. exact strong_weak. Qed.

(* Soundness of the executable certificate checker run on every correspondence case:
   true => the bounds (derived from the implementation's float result +- tolerance)
   enclose THE exact coefficient, for any correctors whatsoever. *)
Theorem C02_checker_sound :
  forall (K : ordring) n dim wT jumps gam lo hi,
    check_case (K:=K) n dim wT jumps gam lo hi = true ->
    let N := net_of wT jumps in
    nonneg N /\
    (forall k, k < dim -> weakKCL N (comp k) (fld (nth k gam []))) /\
    (forall k l, k < dim -> l < dim ->
       forall gk gl, weakKCL N (comp k) gk -> weakKCL N (comp l) gl ->
         rle K (nth l (nth k lo []) (r0 K)) (Bform N (comp k) (comp l) gk gl) /\
         rle K (Bform N (comp k) (comp l) gk gl) (nth l (nth k hi []) (r0 K))).
Proof. exact check_case_sound. Qed.

(* The implementation does not solve Kirchhoff's equations on all sites: it solves them PROJECTED on its symmetry-adapted
   vector basis phi_0..phi_{m-1} (FullVectorBasis), with solve or pinv.  If some corrector lies in the span of that basis
   (completeness of the basis: property C20), then ANY field of the span satisfying the projected equations gives the
   exact coefficient -- whichever solution of a possibly singular projected system the linear algebra returns. *)
Theorem C02_projected_solve_exact :
  forall (K : ordring) (N : net K) dA dB m phi xA xB xsA xsB,
    let gA := fun x => lin m xA phi x in let gB := fun x => lin m xB phi x in
    let gsA := fun x => lin m xsA phi x in let gsB := fun x => lin m xsB phi x in
    weakKCL N dA gsA -> weakKCL N dB gsB ->
    projKCL K N dA gA m phi -> projKCL K N dB gB m phi ->
    Bform N dA dB gA gB = Bform N dA dB gsA gsB.
Proof. exact galerkin_exact. Qed.

Goal True. idtac "ASSUMPTIONS-OF C02_corrector_independent". Abort.
Print Assumptions C02_corrector_independent.
Goal True. idtac "ASSUMPTIONS-OF C02_bias_form". Abort.
Print Assumptions C02_bias_form.
Goal True. idtac "ASSUMPTIONS-OF C02_bias_dot". Abort.
Print Assumptions C02_bias_dot.
Goal True. idtac "ASSUMPTIONS-OF C02_sitewise_kirchhoff_suffices". Abort.
Print Assumptions C02_sitewise_kirchhoff_suffices.
Goal True. idtac "ASSUMPTIONS-OF C02_checker_sound". Abort.
Print Assumptions C02_checker_sound.
Goal True. idtac "ASSUMPTIONS-OF C02_projected_solve_exact". Abort.
Print Assumptions C02_projected_solve_exact.
