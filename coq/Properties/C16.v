(* C16  Taylor-expansion arithmetic commutes with evaluation.
   Statements only; every proof is `exact <lemma>` of Proofs/Taylor_proofs.v.
   K ranges over every ordered commutative ring, V / A / B / C over every K-module (scalars,
   matrices of any shape), d over every dimension (3 = Taylor3D, 2 = Taylor2D), L over every Lmax,
   unless a theorem says "class constant" (d = 3 or 2, Lmax = 4: finite case analysis + ring).
   E rad xs a  is  Taylor.__call__(u, fnu)  with fnu[(n,l)] = rad n and xs = u/|u|. *)
From Coq Require Import List Arith ZArith.
From Onsager Require Import Base.OrdRing Base.Instances Model.Taylor Proofs.Taylor_proofs.
Import ListNotations.

(* ---- index tables (all d, all Lmax) ---- *)
Theorem C16_pow2ind_ind2pow : forall d L p, p < Npower d L -> pow2ind d L (ind2pow d L p) = Z.of_nat p.
Proof. exact pow2ind_ind2pow. Qed.

Theorem C16_ind2pow_pow2ind : forall d L e, length e = d -> deg e <= L ->
  exists p, pow2ind d L e = Z.of_nat p /\ p < Npower d L /\ ind2pow d L p = e.
Proof. exact ind2pow_pow2ind. Qed.

Theorem C16_pow2ind_outside : forall d L e, L < deg e -> pow2ind d L e = (-1)%Z.
Proof. exact pow2ind_outside. Qed.

Theorem C16_powlrange_graded : forall d L l p, l <= L -> p < Npower d L ->
  (p < powlrange d l <-> deg (ind2pow d L p) <= l).
Proof. exact powlrange_spec. Qed.

Theorem C16_directmult_correct : forall d L p0 p1,
  p0 < Npower d L -> p1 < Npower d L ->
  deg (ind2pow d L p0) + deg (ind2pow d L p1) <= L ->
  exists q, directmult d L p0 p1 = Z.of_nat q /\ q < Npower d L /\
            ind2pow d L q = eadd (ind2pow d L p0) (ind2pow d L p1) /\
            q < powlrange d (deg (ind2pow d L p0) + deg (ind2pow d L p1)).
Proof. exact directmult_spec. Qed.

Theorem C16_directmult_outside : forall d L p0 p1,
  L < deg (ind2pow d L p0) + deg (ind2pow d L p1) -> directmult d L p0 p1 = (-1)%Z.
Proof. exact directmult_outside. Qed.

(* ---- sum, difference (beta = -1), in-place variants, negation, scalar multiple ---- *)
Theorem C16_sum : forall (K : ordring) d L (V : kmod K), modlaws K V ->
  forall rad xs alpha (a : expansion V) beta (b : expansion V),
  E K d L V rad xs (sumcoeff K V alpha a beta b) =
  madd V (msmul V alpha (E K d L V rad xs a)) (msmul V beta (E K d L V rad xs b)).
Proof. exact E_sumcoeff. Qed.

Theorem C16_neg : forall (K : ordring) d L (V : kmod K), modlaws K V ->
  forall rad xs (a : expansion V), E K d L V rad xs (negcoeff K V a) = mneg K V (E K d L V rad xs a).
Proof. exact E_negcoeff. Qed.

Theorem C16_scalar : forall (K : ordring) d L (V : kmod K), modlaws K V ->
  forall rad xs k (a : expansion V), E K d L V rad xs (scale K V k a) = msmul V k (E K d L V rad xs a).
Proof. exact E_scale. Qed.

(* ---- matrix products with a constant (ldot, rdot), slices (__getitem__): every linear map ---- *)
Theorem C16_linear_map : forall (K : ordring) d L (V W : kmod K), modlaws K V -> modlaws K W ->
  forall f : V -> W, linear K V W f ->
  forall rad xs (a : expansion V), E K d L W rad xs (mapcoeff K V W f a) = f (E K d L V rad xs a).
Proof. exact E_mapcoeff. Qed.

Theorem C16_ldot_is_linear : forall (K : ordring) r m c (a : pw K (r * m)),
  linear K (pwmod K (m * c)) (pwmod K (r * c)) (fun b => matmul K r m c a b).
Proof. exact matmul_linear_r. Qed.

Theorem C16_rdot_is_linear : forall (K : ordring) r m c (b : pw K (m * c)),
  linear K (pwmod K (r * m)) (pwmod K (r * c)) (fun a => matmul K r m c a b).
Proof. exact matmul_linear_l. Qed.

Theorem C16_slice_is_linear : forall (K : ordring) n m idx, linear K (pwmod K n) (pwmod K m) (pselect K n m idx).
Proof. exact pselect_linear. Qed.

(* ---- product of expansions (scalar*scalar, scalar*matrix, matrix*matrix of any compatible shapes):
        any bilinear map, under the combined-order hypothesis ---- *)
Theorem C16_product : forall (K : ordring) d L (A B C : kmod K), modlaws K A -> modlaws K B -> modlaws K C ->
  forall mul : A -> B -> C, bilinear K A B C mul ->
  forall rad xs (a : expansion A) (b : expansion B),
  (forall m n, rad (m + n)%Z = rmul K (rad m) (rad n)) ->
  wf K d L A a -> wf K d L B b ->
  (forall ea eb, In ea a -> In eb b -> snd (fst ea) + snd (fst eb) <= L) ->
  E K d L C rad xs (coeffproduct K d L A B C mul a b) = mul (E K d L A rad xs a) (E K d L B rad xs b).
Proof. exact E_coeffproduct. Qed.

Theorem C16_matrix_product_is_bilinear : forall (K : ordring) r m c,
  bilinear K (pwmod K (r * m)) (pwmod K (m * c)) (pwmod K (r * c)) (matmul K r m c).
Proof. exact matmul_bilinear. Qed.

Theorem C16_scalar_times_matrix_is_bilinear : forall (K : ordring) n,
  bilinear K (pwmod K 1) (pwmod K n) (pwmod K n) (pwscal K n).
Proof. exact pwscal_bilinear. Qed.

Theorem C16_coefficient_spaces_lawful : forall (K : ordring), modlaws K (selfmod K) /\ forall n, modlaws K (pwmod K n).
Proof. exact (fun K => conj (selfmod_laws K) (pwmod_laws K)). Qed.

(* the combined-order hypothesis cannot be dropped: beyond Lmax the faithful model (directmult = -1
   used as an array index) gives a different value; replayed on the implementation by harness/c16.py *)
Theorem C16_product_order_hypothesis_needed :
  exists (a : expansion (selfmod Zring)) (xs : list Z) (rad : Z -> Z),
    wf Zring 3 4 (selfmod Zring) a /\ (forall m n, (0 <= m)%Z -> (0 <= n)%Z -> rad (m + n)%Z = (rad m * rad n)%Z) /\
    E Zring 3 4 (selfmod Zring) rad xs (coeffproduct Zring 3 4 (selfmod Zring) (selfmod Zring) (selfmod Zring) Z.mul a a) <>
    (E Zring 3 4 (selfmod Zring) rad xs a * E Zring 3 4 (selfmod Zring) rad xs a)%Z.
Proof. exact product_order_hypothesis_needed. Qed.

(* ---- truncation keeps exactly the orders n <= Nmax ---- *)
Theorem C16_truncate : forall (K : ordring) d L (V : kmod K), modlaws K V ->
  forall rad xs Nmax (a : expansion V),
  E K d L V rad xs (truncate K V Nmax a) = E K d L V (fun n => if (n <=? Nmax)%Z then rad n else r0 K) xs a.
Proof. exact E_truncate. Qed.

(* ---- reduction, collection, separation (class constant Lmax = 4), on the unit sphere / circle, in every
        ordered ring in which the common denominator of the projector tables is invertible ---- *)
Theorem C16_reduce_separate_3D : forall (K : ordring) (V : kmod K), modlaws K V ->
  forall (dinv : K) (xs : list K), dot xs xs = r1 K ->
  forall rad (a : expansion V), length xs = 3 -> rmul K (zinj (Dden 3)) dinv = r1 K -> wf K 3 4 V a ->
  E K 3 4 V rad xs (reducecoeff K 3 V (LprojKall K 3 4 dinv) a) = E K 3 4 V rad xs a /\
  E K 3 4 V rad xs (collectcoeff K V (LprojKall K 3 4 dinv) a) = E K 3 4 V rad xs a /\
  E K 3 4 V rad xs (reduce K 3 V (LprojKall K 3 4 dinv) a) = E K 3 4 V rad xs a /\
  E K 3 4 V rad xs (separatecoeff K 3 V (LprojK K 3 dinv) a) = E K 3 4 V rad xs a.
Proof. exact reduce3D_exact. Qed.

Theorem C16_reduce_separate_2D : forall (K : ordring) (V : kmod K), modlaws K V ->
  forall (dinv : K) (xs : list K), dot xs xs = r1 K ->
  forall rad (a : expansion V), length xs = 2 -> rmul K (zinj (Dden 2)) dinv = r1 K -> wf K 2 4 V a ->
  E K 2 4 V rad xs (reducecoeff K 2 V (LprojKall K 2 4 dinv) a) = E K 2 4 V rad xs a /\
  E K 2 4 V rad xs (collectcoeff K V (LprojKall K 2 4 dinv) a) = E K 2 4 V rad xs a /\
  E K 2 4 V rad xs (reduce K 2 V (LprojKall K 2 4 dinv) a) = E K 2 4 V rad xs a /\
  E K 2 4 V rad xs (separatecoeff K 2 V (LprojK K 2 dinv) a) = E K 2 4 V rad xs a.
Proof. exact reduce2D_exact. Qed.

(* ---- constructexpansion reproduces the direct power series sum_n rad(n) pre_n sum_(C,v) (v.xs)^n C ---- *)
Theorem C16_construct_3D : forall (K : ordring) (V : kmod K), modlaws K V ->
  forall rad (xs : list K) (basis : list (V * list K)) N pre,
  length xs = 3 -> N <= 4 -> (forall cv, In cv basis -> length (snd cv) = 3) ->
  E K 3 4 V rad xs (construct K 3 4 V basis N pre) =
  msum K V (map (fun n => msmul V (rad (Z.of_nat n))
                  (msum K V (map (fun cv => msmul V (rmul K (pre n) (rpow (dot (snd cv) xs) n)) (fst cv)) basis)))
                (seq 0 (S N))).
Proof. exact construct3D_series. Qed.

Theorem C16_construct_2D : forall (K : ordring) (V : kmod K), modlaws K V ->
  forall rad (xs : list K) (basis : list (V * list K)) N pre,
  length xs = 2 -> N <= 4 -> (forall cv, In cv basis -> length (snd cv) = 2) ->
  E K 2 4 V rad xs (construct K 2 4 V basis N pre) =
  msum K V (map (fun n => msmul V (rad (Z.of_nat n))
                  (msum K V (map (fun cv => msmul V (rmul K (pre n) (rpow (dot (snd cv) xs) n)) (fst cv)) basis)))
                (seq 0 (S N))).
Proof. exact construct2D_series. Qed.

Goal True. idtac "ASSUMPTIONS-OF C16_pow2ind_ind2pow". Abort.
Print Assumptions C16_pow2ind_ind2pow.
Goal True. idtac "ASSUMPTIONS-OF C16_ind2pow_pow2ind". Abort.
Print Assumptions C16_ind2pow_pow2ind.
Goal True. idtac "ASSUMPTIONS-OF C16_pow2ind_outside". Abort.
Print Assumptions C16_pow2ind_outside.
Goal True. idtac "ASSUMPTIONS-OF C16_powlrange_graded". Abort.
Print Assumptions C16_powlrange_graded.
Goal True. idtac "ASSUMPTIONS-OF C16_directmult_correct". Abort.
Print Assumptions C16_directmult_correct.
Goal True. idtac "ASSUMPTIONS-OF C16_directmult_outside". Abort.
Print Assumptions C16_directmult_outside.
Goal True. idtac "ASSUMPTIONS-OF C16_sum". Abort.
Print Assumptions C16_sum.
Goal True. idtac "ASSUMPTIONS-OF C16_neg". Abort.
Print Assumptions C16_neg.
Goal True. idtac "ASSUMPTIONS-OF C16_scalar". Abort.
Print Assumptions C16_scalar.
Goal True. idtac "ASSUMPTIONS-OF C16_linear_map". Abort.
Print Assumptions C16_linear_map.
Goal True. idtac "ASSUMPTIONS-OF C16_ldot_is_linear". Abort.
Print Assumptions C16_ldot_is_linear.
Goal True. idtac "ASSUMPTIONS-OF C16_rdot_is_linear". Abort.
Print Assumptions C16_rdot_is_linear.
Goal True. idtac "ASSUMPTIONS-OF C16_slice_is_linear". Abort.
Print Assumptions C16_slice_is_linear.
Goal True. idtac "ASSUMPTIONS-OF C16_product". Abort.
Print Assumptions C16_product.
Goal True. idtac "ASSUMPTIONS-OF C16_matrix_product_is_bilinear". Abort.
Print Assumptions C16_matrix_product_is_bilinear.
Goal True. idtac "ASSUMPTIONS-OF C16_scalar_times_matrix_is_bilinear". Abort.
Print Assumptions C16_scalar_times_matrix_is_bilinear.
Goal True. idtac "ASSUMPTIONS-OF C16_coefficient_spaces_lawful". Abort.
Print Assumptions C16_coefficient_spaces_lawful.
Goal True. idtac "ASSUMPTIONS-OF C16_product_order_hypothesis_needed". Abort.
Print Assumptions C16_product_order_hypothesis_needed.
Goal True. idtac "ASSUMPTIONS-OF C16_truncate". Abort.
Print Assumptions C16_truncate.
Goal True. idtac "ASSUMPTIONS-OF C16_reduce_separate_3D". Abort.
Print Assumptions C16_reduce_separate_3D.
Goal True. idtac "ASSUMPTIONS-OF C16_reduce_separate_2D". Abort.
Print Assumptions C16_reduce_separate_2D.
Goal True. idtac "ASSUMPTIONS-OF C16_construct_3D". Abort.
Print Assumptions C16_construct_3D.
Goal True. idtac "ASSUMPTIONS-OF C16_construct_2D". Abort.
Print Assumptions C16_construct_2D.
