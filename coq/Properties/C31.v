(* C31  Cluster enumeration is complete and cluster identity is geometric.
   Statements only; every proof is `exact <lemma>` of Proofs/Clusters_proofs.v.
   ge ranges over every crystal given in exact lattice coordinates (rational metric, rational
   positions, any number of sites / chemistries, 2-D or 3-D), every cutoff, every exclusion list;
   k over every cluster order.  A cluster is a list of (site, lattice vector), identified up to
   order and translation (equiv); canon is the canonical representative. *)
From Coq Require Import List Arith ZArith Permutation Sorted.
From Onsager Require Import Model.Clusters Proofs.Clusters_proofs.
Import ListNotations.
Local Open Scope Z_scope.

(* "... and no other": everything the clique growth of makeclusters lists is a set of k distinct
   allowed sites with all pair distances in (0, cutoff). *)
Theorem C31_enumeration_sound :
  forall (ge : geom) (k : nat) (cl : clus), In cl (enumerate ge k) -> clique ge cl /\ length cl = k.
Proof. exact enum_sound. Qed.

(* "containing every cluster up to the maximum order whose sites are pairwise within the cutoff":
   holds whenever the neighbour search box contains every neighbour vector. *)
Theorem C31_enumeration_complete :
  forall (ge : geom), range_ok ge ->
  forall (k : nat) (cl : clus), clique ge cl -> length cl = k -> (1 <= k)%nat -> In (canon cl) (enumerate ge k).
Proof. exact enum_complete. Qed.

(* ... and that hypothesis is decided by verified checkers run on every correspondence case *)
Theorem C31_range_certificate_sound :
  forall (ge : geom) (certs : list rcert), range_okb ge certs = true -> range_ok ge.
Proof. exact range_okb_sound. Qed.

Theorem C31_range_certificate_exact_sound :
  forall (ge : geom) (w : vec) (certs : list rcert), range_okb2 ge w certs = true -> range_ok ge.
Proof. exact range_okb2_sound. Qed.

(* REFUTED without the hypothesis: the box round(cutoff/|a_i|)+1 (BoxOld) that makeclusters used
   before the fix b4d0a84 misses a pair within the cutoff (hexagonal cell, two atoms, cutoff
   6.4975 a).  The witness is replayed on the implementation on every run by harness/c31.py. *)
Theorem C31_makeclusters_complete_refuted :
  exists (ge : geom) (cl : clus), clique ge cl /\ length cl = 2%nat /\ ~ In (canon cl) (enumerate ge 2) /\ ~ range_ok ge.
Proof. exact makeclusters_box_refuted. Qed.

(* REFUTED for transition-state clusters as constructed today: two geometrically different
   clusters (same site set, same transition vector, pair at another place of the set) are equal. *)
Theorem C31_ts_identity_refuted :
  exists a b : clus, canon_ts a <> canon_ts b /\ ceq (Cluster false TS a) (Cluster false TS b) = true
                     /\ ceq (Cluster true TS a) (Cluster true TS b) = false.
Proof. exact ts_identity_refuted. Qed.

(* cluster identity is geometric: the canonical form is a complete invariant of
   "same sites up to order and a common translation" *)
Theorem C31_canonical_form_invariant :
  forall l l' : clus, equiv l l' -> canon l = canon l'.
Proof. exact canon_equiv. Qed.

Theorem C31_canonical_form_complete :
  forall l l' : clus, canon l = canon l' -> equiv l l'.
Proof. exact canon_eq_equiv. Qed.

(* "disjoint symmetry orbits": soundness of the partition checker that is run on the output of
   makeclusters / makeVacancyClusters / makeTSclusters (extra = [] or [reversal]) *)
Theorem C31_orbit_partition_checker_sound :
  forall (cn : clus -> clus) (ops : list gop) (extra : list (clus -> clus)) (orbs : list (list clus)),
    partition_okb cn ops extra orbs = true ->
    (forall o, In o orbs -> is_orbit cn ops extra o /\ NoDup o) /\
    ForallOrdPairs (fun o o' => forall c, In c o -> ~ In c o') orbs.
Proof. exact partition_okb_sound. Qed.

Theorem C31_orbit_exact :
  forall (cn : clus -> clus) (ops : list gop) (orb : list clus), orbit_okb cn ops [] orb = true ->
    exists rep, forall c, In c orb <-> exists g, In g ops /\ act cn g rep = c.
Proof. exact orbit_exact. Qed.

(* a checked operation maps sites to sites of the same chemistry and preserves the neighbour
   relation (all squared distances), so images of clusters within the cutoff are within the cutoff *)
Theorem C31_symmetry_checker_sound :
  forall (ge : geom) (g : gop) (p q : psite),
    gop_okb ge g = true -> (p_site p < nsites ge)%nat -> (p_site q < nsites ge)%nat ->
    (nbr ge (act_site g p) (act_site g q) <-> nbr ge p q) /\
    allowed ge (p_site (act_site g p)) = allowed ge (p_site p).
Proof. exact gop_isometry. Qed.

(* Cluster value type (tt = false: the constructor as it is; tt = true: with the transition sites
   tagged, the proposed repair): equality and hash are invariant under translation ... *)
Theorem C31_cluster_construct_translation :
  forall (tt : bool) (k : ckind) (T : vec) (l : clus), Cluster tt k (map (shift T) l) = Cluster tt k l.
Proof. exact Cluster_translate. Qed.

Theorem C31_cluster_eq_translation :
  forall (tt : bool) (k : ckind) (T : vec) (l : clus), (nspecial k <= length l)%nat ->
    ceq (Cluster tt k l) (Cluster tt k (map (shift T) l)) = true.
Proof. exact Cluster_eq_translate. Qed.

(* ... and under reordering of the non-special sites (sp = the vacancy / transition pair) *)
Theorem C31_cluster_eq_reorder :
  forall (tt : bool) (k : ckind) (sp r r' : clus), length sp = nspecial k -> Permutation r r' ->
    ceq (Cluster tt k (sp ++ r)) (Cluster tt k (sp ++ r')) = true.
Proof. exact Cluster_eq_reorder. Qed.

(* hash = fold of ANY commutative associative operation over ANY per-site hash *)
Theorem C31_cluster_hash_translation :
  forall (A : Type) (op : A -> A -> A) (e : A) (H : ckey -> A) (tt : bool) (k : ckind) (T : vec) (l : clus),
    chash A op e H (Cluster tt k (map (shift T) l)) = chash A op e H (Cluster tt k l).
Proof. exact Cluster_hash_translate. Qed.

Theorem C31_cluster_hash_reorder :
  forall (A : Type) (op : A -> A -> A) (e : A) (H : ckey -> A),
    (forall x y, op x y = op y x) -> (forall x y z, op (op x y) z = op x (op y z)) ->
    forall (tt : bool) (k : ckind) (sp r r' : clus), length sp = nspecial k -> Permutation r r' ->
      chash A op e H (Cluster tt k (sp ++ r)) = chash A op e H (Cluster tt k (sp ++ r')).
Proof. exact Cluster_hash_reorder. Qed.

Goal True. idtac "ASSUMPTIONS-OF C31_enumeration_sound". Abort.
Print Assumptions C31_enumeration_sound.
Goal True. idtac "ASSUMPTIONS-OF C31_enumeration_complete". Abort.
Print Assumptions C31_enumeration_complete.
Goal True. idtac "ASSUMPTIONS-OF C31_range_certificate_sound". Abort.
Print Assumptions C31_range_certificate_sound.
Goal True. idtac "ASSUMPTIONS-OF C31_range_certificate_exact_sound". Abort.
Print Assumptions C31_range_certificate_exact_sound.
Goal True. idtac "ASSUMPTIONS-OF C31_makeclusters_complete_refuted". Abort.
Print Assumptions C31_makeclusters_complete_refuted.
Goal True. idtac "ASSUMPTIONS-OF C31_ts_identity_refuted". Abort.
Print Assumptions C31_ts_identity_refuted.
Goal True. idtac "ASSUMPTIONS-OF C31_canonical_form_invariant". Abort.
Print Assumptions C31_canonical_form_invariant.
Goal True. idtac "ASSUMPTIONS-OF C31_canonical_form_complete". Abort.
Print Assumptions C31_canonical_form_complete.
Goal True. idtac "ASSUMPTIONS-OF C31_orbit_partition_checker_sound". Abort.
Print Assumptions C31_orbit_partition_checker_sound.
Goal True. idtac "ASSUMPTIONS-OF C31_orbit_exact". Abort.
Print Assumptions C31_orbit_exact.
Goal True. idtac "ASSUMPTIONS-OF C31_symmetry_checker_sound". Abort.
Print Assumptions C31_symmetry_checker_sound.
Goal True. idtac "ASSUMPTIONS-OF C31_cluster_construct_translation". Abort.
Print Assumptions C31_cluster_construct_translation.
Goal True. idtac "ASSUMPTIONS-OF C31_cluster_eq_translation". Abort.
Print Assumptions C31_cluster_eq_translation.
Goal True. idtac "ASSUMPTIONS-OF C31_cluster_eq_reorder". Abort.
Print Assumptions C31_cluster_eq_reorder.
Goal True. idtac "ASSUMPTIONS-OF C31_cluster_hash_translation". Abort.
Print Assumptions C31_cluster_hash_translation.
Goal True. idtac "ASSUMPTIONS-OF C31_cluster_hash_reorder". Abort.
Print Assumptions C31_cluster_hash_reorder.
