(* C01  Vacancy-mediated transport coefficients are exact in the dilute limit.
   The one-solute/one-vacancy chain on the torus Z_M^d is a network of Model/Net.v whose edges
   carry 2*dim displacement components (solute, vacancy); K ranges over every ordered
   commutative ring, networks over every finite edge list (hence every torus size M, every
   crystal, every rate assignment).  The limit M -> infinity is NOT formalised (partial). *)
From Coq Require Import List Arith.
Require Import Ncring.
From Onsager Require Import Base.OrdRing Base.NCRing Model.Net Model.Interstitial Proofs.Net_proofs Proofs.Interstitial_proofs.
Import ListNotations.

(* Lss, Lsv, Lvv of the chain do not depend on the correctors chosen *)
Theorem C01_chain_coefficients_welldefined :
  forall (K : ordring) (N : net K) dA dB gA gA' gB gB',
    weakKCL N dA gA -> weakKCL N dB gB' -> Bform N dA dB gA gB = Bform N dA dB gA' gB'.
Proof. exact L_welldef. Qed.

(* certificate checker sound: a `true` answer encloses the exact Lss/Lsv/Lvv blocks *)
Theorem C01_checker_sound :
  forall (K : ordring) n dim wT jumps gam lo hi,
    check_case (K:=K) n dim wT jumps gam lo hi = true ->
    let N := net_of wT jumps in
    nonneg N /\
    (forall k, k < dim -> weakKCL N (comp k) (fld (nth k gam []))) /\
    (forall k l, k < dim -> l < dim ->
       forall gk gl, weakKCL N (comp k) gk -> weakKCL N (comp l) gl ->
         rle K (nth l (nth k lo []) (r0 K)) (Bform N (comp k) (comp l) gk gl) /\
         rle K (Bform N (comp k) (comp l) gk gl) (nth l (nth k hi []) (r0 K))).
Proof. exact check_case_sound. Qed.

Theorem C01_diagnose_zero_is_check :
  forall (K : ordring) n dim (wT : list K) jumps gam lo hi,
    diagnose n dim wT jumps gam lo hi = O -> check_case n dim wT jumps gam lo hi = true.
Proof. exact diagnose_zero. Qed.

(* Dyson / resolvent identities in ANY unital ring (matrices of any size): with G0 the Green
   function of the bare rate matrix (W0 G0 = 1) the code's G = inv(1 + G0 dW) G0 is the Green
   function of W0 + dW; done in two steps (omega1 then omega2) it is the Green function of
   W0 + dW1 + dW2. *)
Theorem C01_dyson_inverse :
  forall (R : Type) (ring0 ring1 : R) (add mul sub : R -> R -> R) (opp : R -> R) (ring_eq : R -> R -> Prop)
         (Ro : Ring_ops (T:=R) (ring0:=ring0) (ring1:=ring1) (add:=add) (mul:=mul) (sub:=sub) (opp:=opp) (ring_eq:=ring_eq))
         (Rr : Ring (Ro:=Ro)) (w0 g0 dw u : R),
    ring_eq (mul w0 g0) ring1 -> ring_eq (mul (add ring1 (mul g0 dw)) u) ring1 ->
    ring_eq (mul (add w0 dw) (mul u g0)) ring1.
Proof. intros R r0' r1' a m s o e Ro Rr. exact (@dyson_inverse R r0' r1' a m s o e Ro Rr). Qed.

Theorem C01_dyson_two_step :
  forall (R : Type) (ring0 ring1 : R) (add mul sub : R -> R -> R) (opp : R -> R) (ring_eq : R -> R -> Prop)
         (Ro : Ring_ops (T:=R) (ring0:=ring0) (ring1:=ring1) (add:=add) (mul:=mul) (sub:=sub) (opp:=opp) (ring_eq:=ring_eq))
         (Rr : Ring (Ro:=Ro)) (w0 g0 d1 d2 u1 u2 : R),
    ring_eq (mul w0 g0) ring1 -> ring_eq (mul (add ring1 (mul g0 d1)) u1) ring1 ->
    ring_eq (mul (add ring1 (mul (mul u1 g0) d2)) u2) ring1 ->
    ring_eq (mul (add (add w0 d1) d2) (mul u2 (mul u1 g0))) ring1.
Proof. intros R r0' r1' a m s o e Ro Rr. exact (@dyson_two_step R r0' r1' a m s o e Ro Rr). Qed.

(* Origin-state correction (crystals whose sites carry a site vector basis; fix b4a4433 of Lij step 5b).  With G = ai g0 the Dyson
   Green function, nT / n the null vectors of the bare rate matrix and c their coefficients, the corrector
   eta = G (b - dw nT c) + nT c solves eta = g0 (b - dw eta) + nT c, and with c = s (n b - n dw G b), s a right inverse of
   n dw nT - n dw G dw nT, no net flux leaves through the null vectors: n (b - dw eta) = 0.  Any unital ring. *)
Theorem C01_originstate_integral_equation :
  forall (R : Type) (ring0 ring1 : R) (add mul sub : R -> R -> R) (opp : R -> R) (ring_eq : R -> R -> Prop)
         (Ro : Ring_ops (T:=R) (ring0:=ring0) (ring1:=ring1) (add:=add) (mul:=mul) (sub:=sub) (opp:=opp) (ring_eq:=ring_eq))
         (Rr : Ring (Ro:=Ro)) (g0 dw ai nT b c : R),
    ring_eq (mul (add ring1 (mul g0 dw)) ai) ring1 ->
    let eta := add (mul (mul ai g0) (sub b (mul (mul dw nT) c))) (mul nT c) in
    ring_eq eta (add (mul g0 (sub b (mul dw eta))) (mul nT c)).
Proof. intros R r0' r1' a m s o e Ro Rr. exact (@originstate_integral_equation R r0' r1' a m s o e Ro Rr). Qed.

Theorem C01_originstate_no_flux :
  forall (R : Type) (ring0 ring1 : R) (add mul sub : R -> R -> R) (opp : R -> R) (ring_eq : R -> R -> Prop)
         (Ro : Ring_ops (T:=R) (ring0:=ring0) (ring1:=ring1) (add:=add) (mul:=mul) (sub:=sub) (opp:=opp) (ring_eq:=ring_eq))
         (Rr : Ring (Ro:=Ro)) (g0 dw ai n nT b s : R),
    let G := mul ai g0 in let u := mul dw nT in let uT := mul n dw in
    ring_eq (mul (sub (mul n u) (mul (mul uT G) u)) s) ring1 ->
    let c := mul s (sub (mul n b) (mul (mul uT G) b)) in
    let eta := add (mul G (sub b (mul u c))) (mul nT c) in
    ring_eq (mul n (sub b (mul dw eta))) ring0.
Proof. intros R r0' r1' a m s o e Ro Rr. exact (@originstate_no_flux R r0' r1' a m s o e Ro Rr). Qed.

Goal True. idtac "ASSUMPTIONS-OF C01_chain_coefficients_welldefined". Abort.
Print Assumptions C01_chain_coefficients_welldefined.
Goal True. idtac "ASSUMPTIONS-OF C01_checker_sound". Abort.
Print Assumptions C01_checker_sound.
Goal True. idtac "ASSUMPTIONS-OF C01_diagnose_zero_is_check". Abort.
Print Assumptions C01_diagnose_zero_is_check.
Goal True. idtac "ASSUMPTIONS-OF C01_dyson_inverse". Abort.
Print Assumptions C01_dyson_inverse.
Goal True. idtac "ASSUMPTIONS-OF C01_dyson_two_step". Abort.
Print Assumptions C01_dyson_two_step.
Goal True. idtac "ASSUMPTIONS-OF C01_originstate_integral_equation". Abort.
Print Assumptions C01_originstate_integral_equation.
Goal True. idtac "ASSUMPTIONS-OF C01_originstate_no_flux". Abort.
Print Assumptions C01_originstate_no_flux.
