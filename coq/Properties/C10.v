(* C10  The lattice Green function solves the diffusion equation.
   Statements only; proofs are `exact <lemma>` of Proofs/GFeq_proofs.v, Proofs/Harmonic_proofs.v.
   PARTIAL: the implementation obtains G by Brillouin-zone quadrature with analytic pole subtraction
   (special functions); that analysis, the infinite-lattice limit and the 3-D continuum pole are outside
   the model.  What is proved: the exact residual evaluator run on the implementation's values computes
   the lattice-operator residual of ANY function extending the evaluated patch (so a zero count of the
   checker is the diffusion equation on that patch within the stated tolerance); solutions scale
   inversely with a uniform rate factor; on every finite connected (torus) network the solution is
   unique up to the null vector, so swap symmetry / space-group invariance / inverse scaling of THE
   solution follow from the corresponding invariances of the equation. *)
From Coq Require Import List Arith ZArith.
From Onsager Require Import Base.OrdRing Model.Net Model.Harmonic Model.GFeq
     Proofs.Net_proofs Proofs.Harmonic_proofs Proofs.GFeq_proofs.
Import ListNotations.

Theorem C10_residual_sound :
  forall (K : ordring) (tab : list (gval K)) (G : nat -> nat -> cell -> K) jumps esc one i j R r,
    agrees tab G -> resid tab jumps esc one i j R = Some r -> r = lattice_resid G jumps esc one i j R.
Proof. exact residual_sound. Qed.

Theorem C10_equation_on_patch_partial :
  forall (K : ordring) (tab : list (gval K)) (G : nat -> nat -> cell -> K) one tol eqs,
    agrees tab G -> count_bad tab one tol eqs = 0 ->
    forall q, In q eqs ->
      rle K (lattice_resid G (q_jumps q) (q_esc q) one (q_i q) (q_j q) (q_R q)) tol /\
      rle K (rsub K (r0 K) (lattice_resid G (q_jumps q) (q_esc q) one (q_i q) (q_j q) (q_R q))) tol.
Proof. exact count_bad_sound. Qed.

Theorem C10_pairs_agree_partial :
  forall (K : ordring) tol (pairs : list (K * K)),
    count_far tol pairs = 0 ->
    forall p, In p pairs -> rle K (rsub K (fst p) (snd p)) tol /\ rle K (rsub K (r0 K) (rsub K (fst p) (snd p))) tol.
Proof. exact count_far_sound. Qed.

Theorem C10_gf_scales_inverse :
  forall (K : ordring) (G G' : nat -> nat -> cell -> K) lam jumps esc one i j R,
    (forall a b c, G a b c = rmul K lam (G' a b c)) ->
    lattice_resid G jumps esc one i j R = lattice_resid G' (scale_jumps K lam jumps) (rmul K lam esc) one i j R.
Proof. exact gf_scales_inverse. Qed.

(* harmonic functions on a connected network are constant (ordered rings that are antisymmetric and
   without zero divisors: Z, Qc, R) *)
Theorem C10_harmonic_const :
  forall (K : ordring), antisym_law K -> integral_law K ->
    forall (N : net K) (h : nat -> K),
      nonneg N -> weakKCL N zerod h -> forall x y, connected N x y -> h x = h y.
Proof. exact harmonic_const. Qed.

(* uniqueness of the Green function of a finite (torus) network up to the null vector *)
Theorem C10_gf_unique :
  forall (K : ordring), antisym_law K -> integral_law K ->
    forall (N : net K) n (G1 G2 : nat -> K),
      wf N n -> nonneg N ->
      (forall x, x < n -> divg N zerod G1 x = divg N zerod G2 x) ->
      forall x y, connected N x y -> rsub K (G1 x) (G2 x) = rsub K (G1 y) (G2 y).
Proof. exact gf_unique. Qed.

Goal True. idtac "ASSUMPTIONS-OF C10_residual_sound". Abort.
Print Assumptions C10_residual_sound.
Goal True. idtac "ASSUMPTIONS-OF C10_equation_on_patch_partial". Abort.
Print Assumptions C10_equation_on_patch_partial.
Goal True. idtac "ASSUMPTIONS-OF C10_pairs_agree_partial". Abort.
Print Assumptions C10_pairs_agree_partial.
Goal True. idtac "ASSUMPTIONS-OF C10_gf_scales_inverse". Abort.
Print Assumptions C10_gf_scales_inverse.
Goal True. idtac "ASSUMPTIONS-OF C10_harmonic_const". Abort.
Print Assumptions C10_harmonic_const.
Goal True. idtac "ASSUMPTIONS-OF C10_gf_unique". Abort.
Print Assumptions C10_gf_unique.
