(* Trace checker for the correspondence of Model/Sampler.v with onsager.cluster.MonteCarloSampler:
   the harness records, for a generated history, what the implementation did after every call
   (clustercount, both sets sorted, E(), deltaE_trial results, transitions) and this checker replays the
   same calls on the model and compares inside Coq.  Result 0 = every event agrees, otherwise
   1 + index of the first event that differs.  Definitions only.                                      *)
From Coq Require Import List ZArith Bool Arith.
From Onsager Require Import Base.OrdRing Model.Sampler.
Import ListNotations.
Local Open Scope Z_scope.

Fixpoint list_eqb {A} (eqb : A -> A -> bool) (a b : list A) : bool :=
  match a, b with
  | [], [] => true
  | x :: a', y :: b' => eqb x y && list_eqb eqb a' b'
  | _, _ => false
  end.

(* impl set (sorted, duplicate free) against model set (duplicate-free list) *)
Definition set_eqb (impl model : list nat) : bool :=
  Nat.eqb (length impl) (length model) && forallb (fun x => memb x model) impl.

Section Check.
Variable K : ordring.

Record obs := mkObs { ob_cc : list Z; ob_oset : list nat; ob_uset : list nat; ob_E : K }.

Inductive event :=
| EStart (o : list Z) (res : option obs)              (* None: the implementation raised *)
| EUpdate (a b : list nat) (res : option obs)         (* None: raised ValueError (state unchanged) *)
| ETrial (a b : list nat) (res : option K)
| ETrans (res : option (list (nat * (nat * nat) * K))).

Variable sd : static K.

Definition obs_ok (st : mcstate) (ob : obs) : bool :=
  list_eqb Z.eqb (cc st) (ob_cc ob) && set_eqb (ob_oset ob) (oset st) && set_eqb (ob_uset ob) (uset st) &&
  reqb K (E K sd st) (ob_E ob).

Definition trans_eqb (x y : nat * (nat * nat) * K) : bool :=
  let '(n, (i, j), q) := x in let '(n', (i', j'), q') := y in
  Nat.eqb n n' && Nat.eqb i i' && Nat.eqb j j' && reqb K q q'.

Definition opt_eqb {A} (eqb : A -> A -> bool) (a b : option A) : bool :=
  match a, b with Some x, Some y => eqb x y | None, None => true | _, _ => false end.

(* one event: new model state (None = not started) and whether it agreed *)
Definition check_event (s : option mcstate) (e : event) : option mcstate * bool :=
  match e with
  | EStart o res =>
      match start K sd o, res with
      | Some st, Some ob => (Some st, obs_ok st ob)
      | None, None => (None, true)
      | r, _ => (r, false)
      end
  | EUpdate a b res =>
      match s with
      | None => (None, false)
      | Some st =>
          match update K sd st a b, res with
          | Some st', Some ob => (Some st', obs_ok st' ob)
          | None, None => (Some st, true)
          | Some st', None => (Some st', false)
          | None, Some _ => (Some st, false)
          end
      end
  | ETrial a b res =>
      match s with
      | None => (None, false)
      | Some st => (s, opt_eqb (reqb K) (deltaE_trial K sd st a b) res)
      end
  | ETrans res =>
      match s with
      | None => (None, false)
      | Some st => (s, opt_eqb (list_eqb trans_eqb) (transitions K sd st) res)
      end
  end.

Fixpoint check_from (s : option mcstate) (k : nat) (es : list event) : nat :=
  match es with
  | [] => O
  | e :: rest => let (s', ok) := check_event s e in if ok then check_from s' (S k) rest else S k
  end.

Definition check_trace (es : list event) : nat := check_from None O es.

End Check.

Arguments mkObs {K} _ _ _ _.
Arguments EStart {K} _ _. Arguments EUpdate {K} _ _ _. Arguments ETrial {K} _ _ _. Arguments ETrans {K} _.
Arguments check_trace {K} _ _.
