(* Unit-cell jump network of one diffusing species (interstitial, or the lone vacancy):
   the network whose transport coefficient is the long-time diffusivity.
   Executable certificate checker used by the C02/C03/C04/C05 correspondences:
   the harness supplies the DIRECTED jump list exactly as the implementation holds it
   (both i->j and j->i present), class weights, exact correctors, and integer bounds
   enclosing the implementation's result; the checker decides, exactly, that
     - the network is well formed, reversible (detailed balance) and non-negative,
     - the supplied fields satisfy Kirchhoff's law at every site,
     - every tensor component of the exact transport coefficient lies in the bounds. *)
From Coq Require Import List Arith Bool ZArith.
From Onsager Require Import Base.OrdRing Model.Net.
Import ListNotations.

Section Interstitial.
Variable K : ordring.

Record jump := mkJump { ji : nat; jj : nat; jcls : nat; jdx : list K }.

(* conductance of a jump of class t is  wT[t]  (= Z * rho_i * rate_ij, the same for both
   directions: this IS detailed balance); all directed jumps become edges, so that
   Bform of this network is TWICE the code's  1/2 sum_ij  *)
Definition edge_of (wT : list K) (j : jump) : edge K :=
  mkEdge (ji j) (jj j) (nth (jcls j) wT (r0 K)) (jdx j).

Definition net_of (wT : list K) (jumps : list jump) : net K := map (edge_of wT) jumps.

Fixpoint list_eqb (a b : list K) : bool :=
  match a, b with
  | [], [] => true
  | x :: a', y :: b' => reqb K x y && list_eqb a' b'
  | _, _ => false
  end.

Definition is_reverse (e e' : edge K) : bool :=
  Nat.eqb (src e) (dst e') && Nat.eqb (dst e) (src e') && reqb K (cond e) (cond e') &&
  list_eqb (map (ropp K) (dsp e)) (dsp e').

(* every directed edge has its reverse in the list *)
Definition revclosedb (N : net K) : bool := forallb (fun e => existsb (is_reverse e) N) N.

Definition dims (dim : nat) : list nat := seq 0 dim.

(* all correctors valid *)
Definition correctorsb (N : net K) (n dim : nat) (gam : list (list K)) : bool :=
  forallb (fun k => KCLb N n (comp k) (fld (nth k gam []))) (dims dim).

Definition Lcomp (N : net K) (gam : list (list K)) (k l : nat) : K :=
  Bform N (comp k) (comp l) (fld (nth k gam [])) (fld (nth l gam [])).

Definition Ltensor (N : net K) (dim : nat) (gam : list (list K)) : list (list K) :=
  map (fun k => map (fun l => Lcomp N gam k l) (dims dim)) (dims dim).

Definition in_bounds (lo hi : list (list K)) (k l : nat) (v : K) : bool :=
  rleb K (nth l (nth k lo []) (r0 K)) v && rleb K v (nth l (nth k hi []) (r0 K)).

Definition check_case (n dim : nat) (wT : list K) (jumps : list jump) (gam : list (list K))
           (lo hi : list (list K)) : bool :=
  let N := net_of wT jumps in
  wfb N n && nonnegb N && revclosedb N && correctorsb N n dim gam &&
  forallb (fun k => forallb (fun l => in_bounds lo hi k l (Lcomp N gam k l)) (dims dim)) (dims dim).

(* same decision, reporting WHICH stage fails (0 = every stage passes):
   1 ill-formed  2 negative conductance  3 not reversible  4 Kirchhoff fails  5 out of bounds *)
Definition diagnose (n dim : nat) (wT : list K) (jumps : list jump) (gam : list (list K))
           (lo hi : list (list K)) : nat :=
  let N := net_of wT jumps in
  if negb (wfb N n) then 1 else
  if negb (nonnegb N) then 2 else
  if negb (revclosedb N) then 3 else
  if negb (correctorsb N n dim gam) then 4 else
  if negb (forallb (fun k => forallb (fun l => in_bounds lo hi k l (Lcomp N gam k l)) (dims dim)) (dims dim))
  then 5 else 0.

End Interstitial.

Arguments mkJump {K} _ _ _ _.
Arguments net_of {K} _ _. Arguments check_case {K} _ _ _ _ _ _ _. Arguments diagnose {K} _ _ _ _ _ _ _.
Arguments correctorsb {K} _ _ _ _. Arguments Lcomp {K} _ _ _ _. Arguments Ltensor {K} _ _ _.
Arguments revclosedb {K} _. Arguments in_bounds {K} _ _ _ _ _. Arguments dims _ : clear implicits.
Arguments list_eqb _ _ _ : clear implicits.
