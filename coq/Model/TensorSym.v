(* Cartesian-index symmetry of CROSS transport tensors (solute-vacancy) - C03.
   Onsager reciprocity (L_sym) exchanges species and indices together; a cross tensor X_ab = L(S_a, V_b) is
   symmetric in a,b alone only when the point group leaves no antisymmetric rank-2 tensor invariant.
   This file holds the executable pieces:
     no_axialb   decides that criterion for a list of integer/ring matrices (the group in lattice coordinates);
     cross_report evaluates the exact cross tensor of a two-species network (displacement = ds ++ dv) from a
                 checked corrector certificate. *)
From Coq Require Import List Arith Bool.
From Onsager Require Import Base.OrdRing Model.Net Model.Interstitial Model.NetMaps Model.Lump.
Import ListNotations.

Section TensorSym.
Variable K : ordring.

Definition ent (R : list (list K)) (k a : nat) : K := nth a (nth k R []) (r0 K).

(* 2x2 minor of R on rows k,l and columns a,b *)
Definition minor (R : list (list K)) (k l a b : nat) : K :=
  rsub K (rmul K (ent R k a) (ent R l b)) (rmul K (ent R k b) (ent R l a)).

(* the group average annihilates every antisymmetric tensor *)
Definition no_axialb (dim : nat) (Rs : list (list (list K))) : bool :=
  forallb (fun k => forallb (fun l => forallb (fun a => forallb (fun b =>
    reqb K (sumf (fun R => minor R k l a b) Rs) (r0 K)) (seq 0 dim)) (seq 0 dim)) (seq 0 dim)) (seq 0 dim).

Definition invariant (dim : nat) (Rs : list (list (list K))) (T : nat -> nat -> K) : Prop :=
  forall R, In R Rs -> forall k l, k < dim -> l < dim -> T k l = conj_tensor dim R T k l.

Definition asym (T : nat -> nat -> K) (a b : nat) : K := rsub K (T a b) (T b a).

(* exact cross tensor X[a][b] = L(S_a, V_b) of a network whose displacement lists are ds ++ dv,
   from a corrector certificate for all 2*dim components; None = certificate rejected *)
Definition cross_report (n dim : nat) (N : net K) (gam : list (list K)) : option (list (list K)) :=
  if wfb N n && nonnegb N && correctorsb N n (2 * dim) gam
  then Some (map (fun a => map (fun b => Lcomp N gam a (dim + b)) (dims dim)) (dims dim))
  else None.

Definition tensor_symb (dim : nat) (X : list (list K)) : bool :=
  forallb (fun a => forallb (fun b => reqb K (ent X a b) (ent X b a)) (seq 0 dim)) (seq 0 dim).

(* block matrix R (+) R acting on displacement lists ds ++ dv *)
Definition blk_ent (dim : nat) (R : list (list K)) (k a : nat) : K :=
  if Nat.ltb k dim then (if Nat.ltb a dim then ent R k a else r0 K)
  else (if Nat.ltb a dim then r0 K else ent R (k - dim) (a - dim)).

Definition blk (dim : nat) (R : list (list K)) : list (list K) :=
  map (fun k => map (fun a => blk_ent dim R k a) (seq 0 (dim + dim))) (seq 0 (dim + dim)).

(* every listed operation (R, p, q): q inverts p on the n states and (R (+) R, p) maps the two-species network onto itself *)
Definition ops_okb (dim n : nat) (N : net K) (ops : list (list (list K) * list nat * list nat)) : bool :=
  forallb (fun o => let '(R, p, q) := o in
                    Nat.eqb (length p) n && Nat.eqb (length q) n && inverseb n p q &&
                    isob (dim + dim) (blk dim R) (permfun p) N) ops.

(* decision reported to the harness for one exact pair chain:
   4 certificate rejected; 6 some operation of the group does not map the chain onto itself; 5 implementation's cross tensor (integer enclosure lo..hi) does not contain the exact one;
   10 + 2*[group has no invariant antisymmetric tensor] + [exact cross tensor symmetric] otherwise *)
Definition cross_code (n dim : nat) (N : net K) (gam : list (list K)) (ops : list (list (list K) * list nat * list nat))
           (lo hi : list (list K)) : nat :=
  let Rs := map (fun o => fst (fst o)) ops in
  match cross_report n dim N gam with
  | None => 4
  | Some X =>
      if negb (ops_okb dim n N ops) then 6 else
      if forallb (fun a => forallb (fun b => in_bounds lo hi a b (ent X a b)) (seq 0 dim)) (seq 0 dim)
      then 10 + (if no_axialb dim Rs then 2 else 0) + (if tensor_symb dim X then 1 else 0)
      else 5
  end.

End TensorSym.

Arguments ent {K} _ _ _. Arguments minor {K} _ _ _ _ _. Arguments no_axialb {K} _ _.
Arguments invariant {K} _ _ _. Arguments asym {K} _ _ _. Arguments cross_report {K} _ _ _ _.
Arguments tensor_symb {K} _ _. Arguments cross_code {K} _ _ _ _ _ _ _.
Arguments blk_ent {K} _ _ _ _. Arguments blk {K} _ _. Arguments ops_okb {K} _ _ _ _.
