(* Energies and jump barriers of a cluster expansion on a supercell, as built by
   onsager/supercell.py : ClusterSupercell.clusterevaluator / jumpnetworkevaluator /
   jumpnetworkevaluator_vacancy and read out by MonteCarloSampler.E / transitions.

   The model is SEMANTIC: an interaction of the sampler with site tuple t and value v contributes v exactly
   when every site of t is occupied (clustercount = 0, C33), so energies and barriers are written as sums of
   "value if all sites occupied" over the same enumeration the code makes (cluster x translation, and for a
   jump: cluster x site of the cluster placed on the jumping atom); the code's merging of interactions with
   equal site tuples only regroups such a sum.

   Geometry: lattice vectors V = Z^3; a cluster site is (mobile?, index among the mobile / spectator basis
   sites, lattice vector); tidx maps a lattice vector to the number of its translation class in the supercell
   (self.transdict[self.incell(R)]); Rvec are the representatives self.Rveclist.  The energy values of the
   clusters are given as HALF values hv (value = hv + hv): the evaluators multiply by 0.5, and no division is
   needed in a ring.  Definitions only; proofs in Proofs/JumpEval_proofs.v.                                 *)
From Coq Require Import List ZArith Bool Arith Lia.
From Onsager Require Import Base.OrdRing.
Import ListNotations.
Local Open Scope Z_scope.

Definition V := (Z * Z * Z)%type.
Definition vadd (a b : V) : V := let '(a1, a2, a3) := a in let '(b1, b2, b3) := b in (a1 + b1, a2 + b2, a3 + b3).
Definition vneg (a : V) : V := let '(a1, a2, a3) := a in (- a1, - a2, - a3).
Definition vsub (a b : V) : V := vadd a (vneg b).
Definition v0 : V := (0, 0, 0).
Definition v_eqb (a b : V) : bool :=
  let '(a1, a2, a3) := a in let '(b1, b2, b3) := b in (a1 =? b1) && (a2 =? b2) && (a3 =? b3).

Record csite := mkCS { smob : bool; sci : nat; sR : V }.
Definition cs_eqb (a b : csite) : bool :=
  Bool.eqb (smob a) (smob b) && Nat.eqb (sci a) (sci b) && v_eqb (sR a) (sR b).
Definition shift (T : V) (s : csite) : csite := mkCS (smob s) (sci s) (vadd (sR s) T).

(* clust - cs : every other site, shifted so that cs is at the origin *)
Definition rest (cl : list csite) (cs : csite) : list csite :=
  map (shift (vneg (sR cs))) (filter (fun s => negb (cs_eqb s cs)) cl).
(* x in mobilesites *)
Definition hasm (x : csite) (l : list csite) : bool := existsb (fun s => smob s && cs_eqb x s) l.
(* the sites of a cluster on which an interaction can be centred: mobile, basis index c *)
Definition centered (c : nat) (cl : list csite) : list csite :=
  filter (fun cs => smob cs && Nat.eqb (sci cs) c) cl.

(* concrete translation index: (invsuper . R) mod size looked up in translist *)
Definition mulMV (M : list (list Z)) (R : V) : V :=
  let '(x, y, z) := R in
  let rowdot (r : list Z) := nth 0 r 0 * x + nth 1 r 0 * y + nth 2 r 0 * z in
  (rowdot (nth 0 M []), rowdot (nth 1 M []), rowdot (nth 2 M [])).
Definition vmod (s : Z) (a : V) : V := let '(a1, a2, a3) := a in (a1 mod s, a2 mod s, a3 mod s).
Fixpoint find_index (t : V) (l : list V) : nat :=
  match l with [] => O | x :: r => if v_eqb x t then O else S (find_index t r) end.
Definition tidx_conc (M : list (list Z)) (size : Z) (translist : list V) (R : V) : nat :=
  find_index (vmod size (mulMV M R)) translist.

Section JumpEval.
Variable K : ordring.
Notation "x + y" := (radd K x y) : K_scope.
Notation "x - y" := (rsub K x y) : K_scope.
Local Open Scope K_scope.

Variable tidx : V -> nat.
Variable Rvec : list V.
Variable Nmob Nspec : nat.
Variable socc : nat -> bool.          (* spectator site holds species 1 *)

(* self.index(R + site.R, site.ci)[0] *)
Definition gidx (R : V) (s : csite) : nat :=
  (tidx (vadd R (sR s)) * (if smob s then Nmob else Nspec) + sci s)%nat.

Definition bval (b : bool) (x : K) : K := if b then x else r0 K.

Definition isocc (mocc : nat -> bool) (R : V) (s : csite) : bool :=
  if smob s then mocc (gidx R s) else socc (gidx R s).
(* all sites of the list, placed at R, are occupied *)
Definition act (mocc : nat -> bool) (sites : list csite) (R : V) : bool := forallb (isocc mocc R) sites.

(* ---- E(): clusterevaluator + MonteCarloSampler.E, without vacancy -------------------------------- *)
Definition Ecl (mocc : nat -> bool) (clhv : list csite * K) : K :=
  sumf (fun R => bval (act mocc (fst clhv) R) (snd clhv + snd clhv)) Rvec.
Definition Energy (mocc : nat -> bool) (c0 : K) (CE : list (list csite * K)) : K :=
  c0 + sumf (Ecl mocc) CE.

(* ---- a jump of the species: basis sites ci -> cj, lattice displacement dR, KRA value ----------------- *)
Record jspec := mkJS { jci : nat; jcj : nat; jdR : V; jkra : K }.
Definition cs_fin (J : jspec) : csite := mkCS true (jcj J) (jdR J).            (* cs_j *)
Definition cs_ini (J : jspec) : csite := mkCS true (jci J) (vneg (jdR J)).     (* cs_i *)
Definition jrev (J : jspec) : jspec := mkJS (jcj J) (jci J) (vneg (jdR J)) (jkra J).

(* one side of the +-1/2 bookkeeping: clusters centred on basis site c at Rs, those containing `other` left out *)
Definition side (mocc : nat -> bool) (c : nat) (other : csite) (Rs : V) (sgn : K -> K) (clhv : list csite * K) : K :=
  sumf (fun cs => if hasm other (rest (fst clhv) cs) then r0 K
                  else bval (act mocc (rest (fst clhv) cs) Rs) (sgn (snd clhv)))
       (centered c (fst clhv)).

(* transition-state clusters: initial, final, the other sites, value *)
Record tsclust := mkTS { ts0 : csite; ts1 : csite; tsoth : list csite; tsw : K }.
Definition ts_match (a b : csite) (J : jspec) : bool :=
  smob a && smob b && Nat.eqb (sci a) (jci J) && Nat.eqb (sci b) (jcj J) && v_eqb (vsub (sR b) (sR a)) (jdR J).
Definition ts_term (mocc : nat -> bool) (J : jspec) (Ri : V) (both : bool) (ts : tsclust) : K :=
  (if ts_match (ts0 ts) (ts1 ts) J then bval (act mocc (map (shift (vneg (sR (ts0 ts)))) (tsoth ts)) Ri) (tsw ts) else r0 K)
  + (if both && ts_match (ts1 ts) (ts0 ts) J
     then bval (act mocc (map (shift (vneg (sR (ts1 ts)))) (tsoth ts)) Ri) (tsw ts) else r0 K).

(* barrier of jump J started at translation Ri, no vacancy: jumpnetworkevaluator + transitions() *)
Definition Qjump (mocc : nat -> bool) (CE : list (list csite * K)) (TSL : list tsclust) (J : jspec) (Ri : V) : K :=
  jkra J
  + sumf (side mocc (jci J) (cs_fin J) Ri (ropp K)) CE
  + sumf (side mocc (jcj J) (cs_ini J) (vadd Ri (jdR J)) (fun x => x)) CE
  + sumf (ts_term mocc J Ri true) TSL.

(* occupation after the atom at i has moved to j *)
Definition swap_occ (mocc : nat -> bool) (i j : nat) (x : nat) : bool :=
  if Nat.eqb x i then mocc j else if Nat.eqb x j then mocc i else mocc x.

(* ---- with a vacancy at site (Rv, basis index cv) --------------------------------------------------- *)
(* vacancy clusters: basis index of the vacancy site (placed at the origin), the other sites, half value *)
Record vclust := mkVC { vci : nat; voth : list csite; vhv : K }.

Definition vac_index (Rv : V) (cv : nat) : nat := gidx Rv (mkCS true cv v0).

(* E() of the sampler whose vacancy is at index vac: interactions containing the vacancy are dropped *)
Definition EnergyV (mocc : nat -> bool) (c0 : K) (CE : list (list csite * K)) (VCE : list vclust) (Rv : V) (cv : nat) : K :=
  let vac := vac_index Rv cv in
  let m := fun x => if Nat.eqb x vac then false else mocc x in
  c0 + sumf (Ecl m) CE
  + sumf (fun vc => if Nat.eqb (vci vc) cv then bval (act m (voth vc) Rv) (vhv vc + vhv vc) else r0 K) VCE.

(* inside the jump interactions the vacancy index is never counted as unoccupied, and site indices go through
   `mapping` (identity, or the exchange of the two end points for the final configuration) *)
Definition actV (mocc : nat -> bool) (vac : nat) (mapping : nat -> nat) (sites : list csite) (R : V) : bool :=
  forallb (fun s => if smob s then (let x := mapping (gidx R s) in Nat.eqb x vac || mocc x) else socc (gidx R s)) sites.

Definition sideV (mocc : nat -> bool) (vac : nat) (mapping : nat -> nat) (c : nat) (other : csite) (Rs : V)
           (sgn : K -> K) (clhv : list csite * K) : K :=
  sumf (fun cs => if hasm other (mkCS true (sci cs) v0 :: rest (fst clhv) cs) then r0 K
                  else bval (actV mocc vac mapping (mkCS (smob cs) (sci cs) v0 :: rest (fst clhv) cs) Rs) (sgn (snd clhv)))
       (centered c (fst clhv)).

Definition QjumpV (mocc : nat -> bool) (CE : list (list csite * K)) (VCE : list vclust) (TSL : list tsclust)
           (J : jspec) (Rv : V) : K :=
  let i := vac_index Rv (jci J) in
  let Rj := vadd Rv (jdR J) in
  let j := gidx Rj (mkCS true (jcj J) v0) in
  let idm := fun x : nat => x in
  let revm := fun x : nat => if Nat.eqb x i then j else if Nat.eqb x j then i else x in
  jkra J
  + sumf (fun vc => if Nat.eqb (vci vc) (jci J) then bval (actV mocc i idm (voth vc) Rv) (ropp K (vhv vc)) else r0 K) VCE
  + sumf (fun vc => if Nat.eqb (vci vc) (jcj J) then bval (actV mocc i revm (voth vc) Rj) (vhv vc) else r0 K) VCE
  + sumf (sideV mocc i idm (jcj J) (cs_ini J) Rj (ropp K)) CE
  + sumf (sideV mocc i revm (jci J) (cs_fin J) Rv (fun x => x)) CE
  + sumf (fun ts => if ts_match (ts0 ts) (ts1 ts) J
                    then bval (actV mocc i idm (map (shift (vneg (sR (ts0 ts)))) (tsoth ts)) Rv) (tsw ts) else r0 K) TSL.

End JumpEval.

Arguments mkJS {K} _ _ _ _. Arguments jci {K} _. Arguments jcj {K} _. Arguments jdR {K} _. Arguments jkra {K} _.
Arguments mkTS {K} _ _ _ _. Arguments ts0 {K} _. Arguments ts1 {K} _. Arguments tsoth {K} _. Arguments tsw {K} _.
Arguments mkVC {K} _ _ _. Arguments vci {K} _. Arguments voth {K} _. Arguments vhv {K} _.
Arguments cs_fin {K} _. Arguments cs_ini {K} _. Arguments jrev {K} _.
