(* Transport theory of a finite reversible jump network over an arbitrary ordered
   commutative ring (DESIGN.md section 3.1).

   A network is a list of UNDIRECTED edges (src, dst, cond) : cond = w_src * rate(src->dst)
   = w_dst * rate(dst->src) (detailed balance) -- the code's  1/2 sum over directed jumps
   of  rho_i * lambda_ij  is the sum over undirected edges of cond.  A displacement
   component is a function  d : edge -> K  (antisymmetric under reversal by construction:
   the edge is stored once, with the displacement of the src->dst direction).

   Bform dA dB gA gB = sum_e cond_e (dA_e + grad gA e) (dB_e + grad gB e)
   A field g is a corrector for d when Kirchhoff's law holds at every state; the
   transport coefficient is L_AB = Bform dA dB gA gB for correctors gA, gB.

   This file holds the executable definitions only; proofs are in Proofs/Net_proofs.v. *)
From Coq Require Import List Arith Bool.
From Onsager Require Import Base.OrdRing.
Import ListNotations.

Section Net.
Variable K : ordring.
Notation "0" := (r0 K). Notation "1" := (r1 K).
Infix "+" := (radd K). Infix "*" := (rmul K). Infix "-" := (rsub K).

Record edge := mkEdge { src : nat; dst : nat; cond : K; dsp : list K }.

Definition net := list edge.

(* k-th displacement component of an edge *)
Definition comp (k : nat) (e : edge) : K := nth k (dsp e) 0.

Definition grad (g : nat -> K) (e : edge) : K := g (dst e) - g (src e).

Definition flux (d : edge -> K) (g : nat -> K) (e : edge) : K := cond e * (d e + grad g e).

Definition Bform (N : net) (dA dB : edge -> K) (gA gB : nat -> K) : K :=
  sumf (fun e => flux dA gA e * (dB e + grad gB e)) N.

(* uncorrelated part and bias form: the code's "D0 + bias . gamma" *)
Definition D0form (N : net) (dA dB : edge -> K) : K := sumf (fun e => cond e * dA e * dB e) N.

Definition divg (N : net) (d : edge -> K) (g : nat -> K) (x : nat) : K :=
  sumf (fun e => flux d g e * (ind x (dst e) - ind x (src e))) N.

Definition bias (N : net) (d : edge -> K) (x : nat) : K :=
  sumf (fun e => cond e * d e * (ind x (src e) - ind x (dst e))) N.

(* Kirchhoff: Prop versions *)
Definition weakKCL (N : net) (d : edge -> K) (g : nat -> K) : Prop :=
  forall phi : nat -> K, sumf (fun e => flux d g e * grad phi e) N = 0.

Definition strongKCL (N : net) (n : nat) (d : edge -> K) (g : nat -> K) : Prop :=
  forall x, x < n -> divg N d g x = 0.

Definition wf (N : net) (n : nat) : Prop := forall e, In e N -> src e < n /\ dst e < n.

Definition nonneg (N : net) : Prop := forall e, In e N -> rle K 0 (cond e).

(* boolean checkers (run on the correspondence inputs) *)
Definition wfb (N : net) (n : nat) : bool :=
  forallb (fun e => Nat.ltb (src e) n && Nat.ltb (dst e) n) N.

Definition nonnegb (N : net) : bool := forallb (fun e => rleb K 0 (cond e)) N.

Definition KCLb (N : net) (n : nat) (d : edge -> K) (g : nat -> K) : bool :=
  forallb (fun x => reqb K (divg N d g x) 0) (seq 0 n).

(* a corrector given as a list of values, default 0 *)
Definition fld (l : list K) (x : nat) : K := nth x l 0.

(* transformations of networks used by the invariance theorems *)
Definition scale_net (lam : K) (N : net) : net :=
  map (fun e => mkEdge (src e) (dst e) (lam * cond e) (dsp e)) N.

Definition relabel (p : nat -> nat) (N : net) : net :=
  map (fun e => mkEdge (p (src e)) (p (dst e)) (cond e) (dsp e)) N.

(* edgewise domination  cond <= cond'  with identical topology and displacements *)
Inductive dominated : net -> net -> Prop :=
| dom_nil : dominated [] []
| dom_cons e e' N N' : src e = src e' -> dst e = dst e' -> dsp e = dsp e' ->
    rle K (cond e) (cond e') -> dominated N N' -> dominated (e :: N) (e' :: N').

Fixpoint dominatedb (N N' : net) : bool :=
  match N, N' with
  | [], [] => true
  | e :: M, e' :: M' =>
      Nat.eqb (src e) (src e') && Nat.eqb (dst e) (dst e') &&
      (fix eql (a b : list K) : bool :=
         match a, b with [], [] => true | x :: a', y :: b' => reqb K x y && eql a' b' | _, _ => false end)
        (dsp e) (dsp e') &&
      rleb K (cond e) (cond e') && dominatedb M M'
  | _, _ => false
  end.

End Net.

Arguments mkEdge {K} _ _ _ _.
Arguments src {K} _. Arguments dst {K} _. Arguments cond {K} _. Arguments dsp {K} _.
Arguments comp {K} _ _. Arguments grad {K} _ _. Arguments flux {K} _ _ _.
Arguments Bform {K} _ _ _ _ _. Arguments D0form {K} _ _ _. Arguments divg {K} _ _ _ _.
Arguments bias {K} _ _ _.
Arguments weakKCL {K} _ _ _. Arguments strongKCL {K} _ _ _ _. Arguments wf {K} _ _.
Arguments nonneg {K} _. Arguments wfb {K} _ _. Arguments nonnegb {K} _. Arguments KCLb {K} _ _ _ _.
Arguments fld {K} _ _. Arguments scale_net {K} _ _. Arguments relabel {K} _ _.
Arguments dominated {K} _ _. Arguments dominatedb {K} _ _.
