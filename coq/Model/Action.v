(* Action of space-group operations on atom positions, general positions, pair states and
   cluster sites, and the lattice-coordinate half of the coordinate conversions (property C23).
   Lattice coordinates over Z with common denominator D = c_den C (see Model/Lattice.v):
   a position is (D R + u)/D with R the cell and 0 <= u < D the unit-cell part.

   Code modelled (onsager/crystal.py, crystalStars.py, cluster.py):
     Crystal.g_pos      rotlatt + round(S u_i + t - u_{perm i}),  (c, perm i)
     Crystal.g_vect     S R + (S u + t - incell(S u + t)),  incell(S u + t)
     Crystal.cart2unit  (u - incell u, incell u) after u = invlatt . v   (invlatt: Model/Cartesian.v)
     Crystal.cart2pos   cart2unit + the unique basis atom at that unit-cell position
     PairState.g / __add__ / __neg__,  ClusterSite.g / __add__
   incell / np.round are modelled exactly (floor, nearest integer): thresholds are not modelled.
   Definitions only; proofs in Proofs/Action_proofs.v. *)
From Coq Require Import ZArith List Bool Arith.
From Onsager Require Import Model.Lattice.
Import ListNotations.
Local Open Scope Z_scope.

(* nearest integer to a / D  (np.round; ties never occur for valid operations) *)
Definition rnd (D a : Z) : Z := (2 * a + D) / (2 * D).

(* position (times D) from (cell, unit-cell part) : lattvec + uvec *)
Definition unit2pos (D : Z) (R u : vec) : vec := fun k => D * R k + u k.
(* (u - incell u, incell u) *)
Definition cart2unit_l (D : Z) (p : vec) : vec * vec := (fun k => p k / D, fun k => p k mod D).

Definition g_pos (C : crystal) (g : symop) (R : vec) (c i : nat) : vec * (nat * nat) :=
  (fun k => mv (c_dim C) (rot g) R k
            + rnd (c_den C) (act (c_dim C) g (upos C c i) k - upos C c (pm g c i) k),
   (c, pm g c i)).

Definition g_vect (C : crystal) (g : symop) (R u : vec) : vec * vec :=
  (fun k => mv (c_dim C) (rot g) R k + act (c_dim C) g u k / c_den C,
   fun k => act (c_dim C) g u k mod c_den C).

Definition atomindices (C : crystal) : list (nat * nat) :=
  flat_map (fun c => map (fun i => (c, i)) (seq 0 (natoms C c))) (seq 0 (nchem C)).

Definition cart2pos_l (C : crystal) (p : vec) : vec * option (nat * nat) :=
  let Ru := cart2unit_l (c_den C) p in
  (fst Ru,
   match filter (fun ci => veqb (c_dim C) (snd Ru) (upos C (fst ci) (snd ci))) (atomindices C) with
   | [x] => Some x
   | _ => None
   end).

(* every basis position is stored inside the cell, and no two atoms coincide *)
Definition incell_basis (C : crystal) : Prop :=
  forall c i, (c < nchem C)%nat -> (i < natoms C c)%nat ->
  forall k, (k < c_dim C)%nat -> 0 <= upos C c i k < c_den C.
Definition distinct_atoms (C : crystal) : Prop :=
  forall c i c' i', (c < nchem C)%nat -> (i < natoms C c)%nat -> (c' < nchem C)%nat -> (i' < natoms C c')%nat ->
  (forall k, (k < c_dim C)%nat -> upos C c i k = upos C c' i' k) -> c = c' /\ i = i'.

(* ---- pair states (i, j, R): solute i in cell 0, vacancy j in cell R --------------------------- *)
Record pstate := mkPS { ps_i : nat; ps_j : nat; ps_R : vec }.

(* D times the lattice coordinates of dx = A (R + u_j - u_i) *)
Definition ps_dx (C : crystal) (chem : nat) (s : pstate) : vec :=
  fun k => c_den C * ps_R s k + upos C chem (ps_j s) k - upos C chem (ps_i s) k.

Definition ps_g (C : crystal) (chem : nat) (g : symop) (s : pstate) : pstate :=
  let gi := g_pos C g vzero chem (ps_i s) in
  let gj := g_pos C g (ps_R s) chem (ps_j s) in
  mkPS (snd (snd gi)) (snd (snd gj)) (vsub (fst gj) (fst gi)).

Definition ps_add (a b : pstate) : pstate := mkPS (ps_i a) (ps_j b) (vadd (ps_R a) (ps_R b)).
Definition ps_neg (a : pstate) : pstate := mkPS (ps_j a) (ps_i a) (vneg (ps_R a)).
Definition ps_eq (d : nat) (a b : pstate) : Prop :=
  ps_i a = ps_i b /\ ps_j a = ps_j b /\ forall k, (k < d)%nat -> ps_R a k = ps_R b k.

(* ---- cluster sites ((c,i), R) ------------------------------------------------------------------ *)
Record csite := mkCS { cs_c : nat; cs_i : nat; cs_R : vec }.
Definition cs_g (C : crystal) (g : symop) (s : csite) : csite :=
  let r := g_pos C g (cs_R s) (cs_c s) (cs_i s) in mkCS (fst (snd r)) (snd (snd r)) (fst r).
Definition cs_add (s : csite) (v : vec) : csite := mkCS (cs_c s) (cs_i s) (vadd (cs_R s) v).
Definition cs_pos (C : crystal) (s : csite) : vec := atom_at C (cs_c s) (cs_i s) (cs_R s).
