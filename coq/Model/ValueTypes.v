(* Value types of the library (C36): executable models of
     crystalStars.PairState     (__eq__/__ne__/__hash__/__add__/__neg__/__sub__/__xor__/iszero/g)
     cluster.ClusterSite        (__eq__/__ne__/__hash__/__neg__/__add__/__sub__/g)
     cluster.Cluster            (__init__ canonical form, __eq__, __hash__, istransition)
     crystal.GroupOp            (__eq__/__ne__/__hash__)          -- tolerance compared
     OnsagerCalc.vacancyThermoKinetics (__eq__/__ne__/__hash__)   -- tolerance compared
   Definitions only.  Integer data are Z / list Z; Cartesian and thermodynamic data live in an
   arbitrary ordered ring K (executed at Qc: every IEEE double is a Qc).  Python's hash() of a tuple
   / of a bytes object is a Section variable about which NOTHING is assumed.  A Python exception
   (ArithmeticError of __add__/__xor__, IndexError of Cluster([])) is the value None. *)
From Coq Require Import ZArith List Bool Lia.
From Onsager Require Import Base.OrdRing.
Import ListNotations.
Local Open Scope Z_scope.

(* ---------------------------------------------------------------------------------------- *)
(* generic list helpers *)
Fixpoint map2 {A : Type} (f : A -> A -> A) (a b : list A) : list A :=
  match a, b with
  | x :: a', y :: b' => f x y :: map2 f a' b'
  | _, _ => []
  end.

Fixpoint list_eqb {A : Type} (e : A -> A -> bool) (a b : list A) : bool :=
  match a, b with
  | [], [] => true
  | x :: a', y :: b' => e x y && list_eqb e a' b'
  | _, _ => false
  end.

(* integer vectors (numpy int arrays of one common dimension) *)
Definition vec := list Z.
Definition veqb (a b : vec) : bool := list_eqb Z.eqb a b.      (* np.all(a == b), equal shapes *)
Definition vadd (a b : vec) : vec := map2 Z.add a b.
Definition vsub (a b : vec) : vec := map2 Z.sub a b.
Definition vneg (a : vec) : vec := map Z.opp a.
Definition vscale (n : Z) (a : vec) : vec := map (Z.mul n) a.
Definition viszero (a : vec) : bool := forallb (Z.eqb 0) a.    (* np.all(a == 0) *)
Definition vzero (d : nat) : vec := repeat 0 d.
Fixpoint dot (a b : vec) : Z :=
  match a, b with
  | x :: a', y :: b' => x * y + dot a' b'
  | _, _ => 0
  end.
Definition mulmv (m : list vec) (v : vec) : vec := map (fun r => dot r v) m.   (* np.dot(rot, v) *)
Definition mateqb (a b : list vec) : bool := list_eqb veqb a b.

(* python list indexing by a non-negative index *)
Definition zth {A : Type} (l : list A) (i : Z) (d : A) : A := nth (Z.to_nat i) l d.

(* ---------------------------------------------------------------------------------------- *)
Section ValueTypes.
Variable K : ordring.
Variable H : list Z -> Z.          (* hash(tuple of ints) *)

Definition kadd (a b : list K) : list K := map2 (radd K) a b.
Definition ksub (a b : list K) : list K := map2 (rsub K) a b.
Definition kneg (a : list K) : list K := map (ropp K) a.
Fixpoint kdot (a b : list K) : K :=
  match a, b with
  | x :: a', y :: b' => radd K (rmul K x y) (kdot a' b')
  | _, _ => r0 K
  end.
Definition kmulmv (m : list (list K)) (v : list K) : list K := map (fun r => kdot r v) m.
Definition keqb (a b : list K) : bool := list_eqb (reqb K) a b.

(* ---------- PairState ------------------------------------------------------------------- *)
Record pstate := mkPS { ps_i : Z; ps_j : Z; ps_R : vec; ps_dx : list K }.

Definition ps_zero (n : Z) (d : nat) : pstate := mkPS n n (vzero d) (repeat (r0 K) d).

Definition ps_iszero (a : pstate) : bool := Z.eqb (ps_i a) (ps_j a) && viszero (ps_R a).

(* __eq__ : dx is NOT compared *)
Definition ps_eqb (a b : pstate) : bool :=
  Z.eqb (ps_i a) (ps_i b) && Z.eqb (ps_j a) (ps_j b) && veqb (ps_R a) (ps_R b).

(* __ne__ : not self.__eq__(other) *)
Definition ps_neb (a b : pstate) : bool := negb (ps_eqb a b).

(* __hash__ : hash((i, j) + tuple(R)) *)
Definition ps_hash (a : pstate) : Z := H (ps_i a :: ps_j a :: ps_R a).

Definition ps_neg (a : pstate) : pstate :=
  mkPS (ps_j a) (ps_i a) (vneg (ps_R a)) (kneg (ps_dx a)).

(* __add__: the two "universal zero" shortcuts, then the endpoint test (ArithmeticError = None) *)
Definition ps_add (a b : pstate) : option pstate :=
  if ps_iszero a && Z.eqb (ps_j a) (-1) then Some b
  else if ps_iszero b && Z.eqb (ps_i b) (-1) then Some a
  else if negb (Z.eqb (ps_j a) (ps_i b)) then None
  else Some (mkPS (ps_i a) (ps_j b) (vadd (ps_R a) (ps_R b)) (kadd (ps_dx a) (ps_dx b))).

(* __sub__: self.__add__(-other) *)
Definition ps_sub (a b : pstate) : option pstate := ps_add a (ps_neg b).

(* __xor__ *)
Definition ps_xor (a b : pstate) : option pstate :=
  if negb (Z.eqb (ps_i a) (ps_i b)) then None
  else Some (mkPS (ps_j b) (ps_j a) (vsub (ps_R a) (ps_R b)) (ksub (ps_dx a) (ps_dx b))).

(* A space-group operation restricted to the sublattice `chem`, in lattice coordinates:
   crys.g_pos(g, R, (chem, i)) = (rot.R + delu_i, indexmap[chem][i]),
   delu_i = round(rot.u_i + trans - u_{g i}) an integer vector;  g_direc = cartrot . dx *)
Record lop := mkLop { l_rot : list vec; l_perm : list Z; l_t : list vec; l_cart : list (list K) }.

Definition g_pos (g : lop) (R : vec) (i : Z) : vec * Z :=
  (vadd (mulmv (l_rot g) R) (zth (l_t g) i []), zth (l_perm g) i 0).

(* PairState.g *)
Definition ps_g (g : lop) (a : pstate) : pstate :=
  let '(gRi, gi) := g_pos g (vzero (length (ps_R a))) (ps_i a) in
  let '(gRj, gj) := g_pos g (ps_R a) (ps_j a) in
  mkPS gi gj (vsub gRj gRi) (kmulmv (l_cart g) (ps_dx a)).

(* ---------- ClusterSite ----------------------------------------------------------------- *)
Record csite := mkCS { cs_c : Z; cs_i : Z; cs_R : vec }.

Definition cs_eqb (a b : csite) : bool :=
  Z.eqb (cs_c a) (cs_c b) && Z.eqb (cs_i a) (cs_i b) && veqb (cs_R a) (cs_R b).
Definition cs_neb (a b : csite) : bool := negb (cs_eqb a b).
Definition cs_hash (a : csite) : Z := H (cs_c a :: cs_i a :: cs_R a).
Definition cs_neg (a : csite) : csite := mkCS (cs_c a) (cs_i a) (vneg (cs_R a)).
(* __add__(vector): ArithmeticError when the dimensions differ *)
Definition cs_add (a : csite) (v : vec) : option csite :=
  if negb (Nat.eqb (length v) (length (cs_R a))) then None
  else Some (mkCS (cs_c a) (cs_i a) (vadd (cs_R a) v)).
Definition cs_sub (a : csite) (v : vec) : option csite := cs_add a (vneg v).
(* group operation on the sublattice of the site's own chemistry *)
Definition cs_g (g : lop) (a : csite) : csite :=
  let '(gR, gi) := g_pos g (cs_R a) (cs_i a) in mkCS (cs_c a) gi gR.

(* ---------- Cluster --------------------------------------------------------------------- *)
Record cluster := mkCl { cl_sites : list csite; cl_trans : bool; cl_vac : bool }.

Definition skey (s : csite) : Z := cs_c s * 2 ^ 32 + cs_i s.

(* sorted(..., key=sortkey) is stable: an element is inserted before the first strictly larger key
   when the list is consumed from the right *)
Fixpoint insert_s (s : csite) (l : list csite) : list csite :=
  match l with
  | [] => [s]
  | x :: l' => if skey s <=? skey x then s :: l else x :: insert_s s l'
  end.
Definition sort_s (l : list csite) : list csite := fold_right insert_s [] l.

(* cs - R0 for a vector of the right dimension (the dimension test of __add__ is part of cs_add) *)
Definition cs_shift (v : vec) (s : csite) : csite := mkCS (cs_c s) (cs_i s) (vadd (cs_R s) v).

(* Cluster.__init__ : canonical form.  None = IndexError on the empty list / ArithmeticError on
   mixed dimensions. *)
Definition cl_make (l : list csite) (transition vacancy nosort : bool) : option cluster :=
  let lis := if nosort then l
             else if transition then firstn 2 l ++ sort_s (skipn 2 l)
             else if vacancy then firstn 1 l ++ sort_s (skipn 1 l)
             else sort_s l in
  match lis with
  | [] => None
  | s0 :: _ =>
    if forallb (fun s => Nat.eqb (length (cs_R s)) (length (cs_R s0))) lis
    then Some (mkCl (map (cs_shift (vneg (cs_R s0))) lis) transition vacancy)
    else None
  end.

Definition cl_nsites (c : cluster) : Z := Z.of_nat (length (cl_sites c)).
Definition cl_norder (c : cluster) : Z :=
  if cl_trans c then cl_nsites c - 2 else if cl_vac c then cl_nsites c - 1 else cl_nsites c.
Definition cl_dim (c : cluster) : nat := match cl_sites c with [] => 0%nat | s :: _ => length (cs_R s) end.
(* __center__ = sum of the lattice vectors *)
Definition cl_center (c : cluster) : vec :=
  fold_left (fun acc s => vadd acc (cs_R s)) (cl_sites c) (vzero (cl_dim c)).
(* __shift_pos__ : R*Nsites - center *)
Definition cl_shiftpos (c : cluster) (s : csite) : vec := vsub (vscale (cl_nsites c) (cs_R s)) (cl_center c).
Definition cl_nvac (c : cluster) : nat := if cl_vac c then (if cl_trans c then 2%nat else 1%nat) else 0%nat.

(* the key r of a site in __equalitymap__ : ci, with the vacancy marking for the first Nvac sites *)
Definition cl_r (c : cluster) (i : nat) (s : csite) : list Z :=
  if Nat.ltb i (cl_nvac c)
  then (if Nat.eqb i 0 then [cs_c s; cs_i s; -1] else [cs_c s; cs_i s; cs_c s])
  else [cs_c s; cs_i s].

Fixpoint enum_from {A : Type} (k : nat) (l : list A) : list (nat * A) :=
  match l with [] => [] | x :: l' => (k, x) :: enum_from (S k) l' end.

(* the entries (r, shiftpos) of __equalitymap__, one per site, in site order *)
Definition cl_entries (c : cluster) : list (list Z * vec) :=
  map (fun p => (cl_r c (fst p) (snd p), cl_shiftpos c (snd p))) (enum_from 0 (cl_sites c)).

(* __hash__ : XOR over the sites of hash(r + shiftpos) *)
Definition cl_hash (c : cluster) : Z :=
  fold_left (fun acc e => Z.lxor acc (H (fst e ++ snd e))) (cl_entries c) 0.

Definition entry_eqb (a b : list Z * vec) : bool := veqb (fst a) (fst b) && veqb (snd a) (snd b).
Definition inclb (a b : list (list Z * vec)) : bool := forallb (fun x => existsb (entry_eqb x) b) a.

(* istransition(site0, site1) of a transition cluster *)
Definition cl_istransition (c : cluster) (s0 s1 : csite) : bool :=
  let a0 := nth 0 (cl_sites c) (mkCS 0 0 []) in
  let a1 := nth 1 (cl_sites c) (mkCS 0 0 []) in
  if cs_eqb a0 (cs_shift (vneg (cs_R s0)) s0) && cs_eqb a1 (cs_shift (vneg (cs_R s0)) s1) then true
  else if cl_vac c then false
  else cs_eqb a0 (cs_shift (vneg (cs_R s1)) s1) && cs_eqb a1 (cs_shift (vneg (cs_R s1)) s0).

(* __eq__ : flags, Norder, the dictionary of sets (equal as sets of (r, shiftpos) entries), and for
   transition clusters the transition state *)
Definition cl_eqb (a b : cluster) : bool :=
  Bool.eqb (cl_trans a) (cl_trans b) && Bool.eqb (cl_vac a) (cl_vac b) &&
  Z.eqb (cl_norder a) (cl_norder b) &&
  inclb (cl_entries a) (cl_entries b) && inclb (cl_entries b) (cl_entries a) &&
  (if cl_trans a
   then cl_istransition a (nth 0 (cl_sites b) (mkCS 0 0 [])) (nth 1 (cl_sites b) (mkCS 0 0 []))
   else true).
Definition cl_neb (a b : cluster) : bool := negb (cl_eqb a b).    (* default __ne__ of Python 3 *)

(* ---------- tolerant comparison: numpy.isclose / allclose -------------------------------- *)
Definition rabs (a : K) : K := if rleb K (r0 K) a then a else ropp K a.

(* |a - b| <= atol + rtol * |b|   (numpy.isclose(a, b), finite values) *)
Definition close (atol rtol a b : K) : bool :=
  rleb K (rabs (rsub K a b)) (radd K atol (rmul K rtol (rabs b))).

(* numpy.allclose on two arrays of the same shape *)
Fixpoint allclose (atol rtol : K) (a b : list K) : bool :=
  match a, b with
  | [], [] => true
  | x :: a', y :: b' => close atol rtol x y && allclose atol rtol a' b'
  | _, _ => false
  end.

(* ---------- GroupOp --------------------------------------------------------------------- *)
Variable Hb : list Z -> Z.              (* hash(rot.data.tobytes()) : a function of the integer entries *)
Variable Hm : list (list Z) -> Z.       (* hash(indexmap) *)
Record groupop := mkGop { go_rot : list vec; go_trans : list K; go_cart : list (list K); go_imap : list (list Z) }.

Definition go_eqb (atol rtol : K) (a b : groupop) : bool :=
  mateqb (go_rot a) (go_rot b) && allclose atol rtol (go_trans a) (go_trans b) &&
  allclose atol rtol (concat (go_cart a)) (concat (go_cart b)) && mateqb (go_imap a) (go_imap b).
Definition go_neb (atol rtol : K) (a b : groupop) : bool := negb (go_eqb atol rtol a b).
Definition go_hash (a : groupop) : Z := Z.lxor (Hb (concat (go_rot a))) (Hm (go_imap a)).

(* ---------- vacancyThermoKinetics ------------------------------------------------------- *)
Variable Hk : list K -> Z.              (* hash(bytes): a function of the exact values in order *)
Record vtk := mkVTK { vt_pre : list K; vt_ene : list K; vt_preT : list K; vt_eneT : list K }.

Definition vtk_eqb (atol rtol : K) (a b : vtk) : bool :=
  allclose atol rtol (vt_pre a) (vt_pre b) && allclose atol rtol (vt_ene a) (vt_ene b) &&
  allclose atol rtol (vt_preT a) (vt_preT b) && allclose atol rtol (vt_eneT a) (vt_eneT b).
(* the intended __ne__ (the current source raises NameError instead: see harness/c36.py) *)
Definition vtk_neb (atol rtol : K) (a b : vtk) : bool := negb (vtk_eqb atol rtol a b).
Definition vtk_bytes (a : vtk) : list K := vt_pre a ++ vt_ene a ++ vt_preT a ++ vt_eneT a.
Definition vtk_hash (a : vtk) : Z := Hk (vtk_bytes a).

End ValueTypes.

Arguments mkPS {K} _ _ _ _. Arguments ps_i {K} _. Arguments ps_j {K} _. Arguments ps_R {K} _. Arguments ps_dx {K} _.
Arguments mkLop {K} _ _ _ _. Arguments l_rot {K} _. Arguments l_perm {K} _. Arguments l_t {K} _. Arguments l_cart {K} _.
Arguments ps_zero {K} _ _. Arguments ps_iszero {K} _. Arguments ps_eqb {K} _ _. Arguments ps_neb {K} _ _.
Arguments ps_hash {K} _ _. Arguments ps_neg {K} _. Arguments ps_add {K} _ _. Arguments ps_sub {K} _ _.
Arguments ps_xor {K} _ _. Arguments g_pos {K} _ _ _. Arguments ps_g {K} _ _.
Arguments cs_g {K} _ _.
Arguments mkGop {K} _ _ _ _. Arguments go_rot {K} _. Arguments go_trans {K} _. Arguments go_cart {K} _. Arguments go_imap {K} _.
Arguments go_eqb {K} _ _ _ _. Arguments go_neb {K} _ _ _ _. Arguments go_hash {K} _ _ _.
Arguments mkVTK {K} _ _ _ _. Arguments vt_pre {K} _. Arguments vt_ene {K} _. Arguments vt_preT {K} _. Arguments vt_eneT {K} _.
Arguments vtk_eqb {K} _ _ _ _. Arguments vtk_neb {K} _ _ _ _. Arguments vtk_bytes {K} _. Arguments vtk_hash {K} _ _.
Arguments rabs {K} _. Arguments close {K} _ _ _ _. Arguments allclose {K} _ _ _ _.
Arguments kadd {K} _ _. Arguments ksub {K} _ _. Arguments kneg {K} _. Arguments kdot {K} _ _. Arguments kmulmv {K} _ _.
Arguments keqb {K} _ _.
