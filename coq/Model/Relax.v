(* Relaxation (internal friction) of a finite reversible jump network -- C12.

   Rate network: undirected edges (i, j) carrying the forward rate lf = lambda(i->j), the
   backward rate lb = lambda(j->i) and the SYMMETRISED rate sw = sqrt(rho_i) lambda(i->j) / sqrt(rho_j)
   (= sqrt(rho_j) lambda(j->i) / sqrt(rho_i)).  With s = sqrt(rho) detailed balance reads, division free,
        s_i * lf = sw * s_j      s_j * lb = sw * s_i          ("balanced").
   momega R phi = (- omega) phi  for the symmetrised rate matrix omega of the code
   (omega_ij += sw, omega_ii -= rate for every directed jump).

   Second part: loss tensors.  F_p = sum_i s_i phi_p(i) P_i, L_p = F_p (x) F_p, the equilibrium
   covariance of the site dipole, and the executable checker that is run on the
   implementation's output (Interstitial.losstensors).

   Definitions only; proofs are in Proofs/Relax_proofs.v. *)
From Coq Require Import List Arith Bool.
From Onsager Require Import Base.OrdRing Model.Net Model.Harmonic.
Import ListNotations.

Section Relax.
Variable K : ordring.
Notation "0" := (r0 K). Notation "1" := (r1 K).
Infix "+" := (radd K). Infix "*" := (rmul K). Infix "-" := (rsub K).

Record redge := mkRedge { ri : nat; rj : nat; lf : K; lb : K; sw : K }.
Definition rnet := list redge.

Definition rwf (R : rnet) (n : nat) : Prop := forall e, In e R -> ri e < n /\ rj e < n.
Definition rwfb (R : rnet) (n : nat) : bool := forallb (fun e => Nat.ltb (ri e) n && Nat.ltb (rj e) n) R.

(* quadratic form of MINUS the symmetrised rate matrix, edge by edge *)
Definition qedge (phi : nat -> K) (e : redge) : K :=
  phi (ri e) * phi (ri e) * lf e + phi (rj e) * phi (rj e) * lb e - (1 + 1) * (phi (ri e) * phi (rj e) * sw e).

Definition qform (R : rnet) (phi : nat -> K) : K := sumf (qedge phi) R.

(* ((- omega) phi)(x) *)
Definition momega (R : rnet) (phi : nat -> K) (x : nat) : K :=
  sumf (fun e => ind x (ri e) * (phi (ri e) * lf e - phi (rj e) * sw e)
                 + ind x (rj e) * (phi (rj e) * lb e - phi (ri e) * sw e)) R.

Definition balanced (s : nat -> K) (R : rnet) : Prop :=
  forall e, In e R -> s (ri e) * lf e = sw e * s (rj e) /\ s (rj e) * lb e = sw e * s (ri e).

(* the conductance network of Net.v:  cond = s_i s_j sw = rho_i lambda_ij *)
Definition cnet (s : nat -> K) (R : rnet) : net K :=
  map (fun e => mkEdge (ri e) (rj e) (s (ri e) * s (rj e) * sw e) []) R.

(* squared norm on states 0..n-1 *)
Definition nrm2 (n : nat) (phi : nat -> K) : K := sumf (fun x => phi x * phi x) (seq 0 n).

(* ------------------------------------------------------------------ loss tensors ------ *)
(* mode strength (one tensor component P : site -> K) *)
Definition Fmode (n : nat) (s phi P : nat -> K) : K := sumf (fun i => s i * phi i * P i) (seq 0 n).

(* equilibrium covariance of two tensor components under the site probability rho *)
Definition cov (n : nat) (rho Pa Pb : nat -> K) : K :=
  sumf (fun i => rho i * Pa i * Pb i) (seq 0 n)
  - sumf (fun i => rho i * Pa i) (seq 0 n) * sumf (fun i => rho i * Pb i) (seq 0 n).

(* the same with unnormalised weights w (rho = w / W):  W^2 cov *)
Definition covW (n : nat) (w Pa Pb : nat -> K) : K :=
  sumf w (seq 0 n) * sumf (fun i => w i * Pa i * Pb i) (seq 0 n)
  - sumf (fun i => w i * Pa i) (seq 0 n) * sumf (fun i => w i * Pb i) (seq 0 n).

(* resolution of the identity on the orthogonal complement of s = sqrt(rho) *)
Definition resolution (n : nat) (s : nat -> K) (modes : list (nat -> K)) : Prop :=
  forall i j, i < n -> j < n -> sumf (fun phi => phi i * phi j) modes = ind i j - s i * s j.

(* ------------------------------------------------------------------ checker ----------- *)
(* tensors are flattened: 2nd rank index a*d+b, 4th rank ((a*d+b)*d+c)*d+e *)
Definition t2 (d : nat) (l : list K) (a b : nat) : K := nth (a * d + b) l 0.
Definition t4 (d : nat) (l : list K) (a b c e : nat) : K := nth (((a * d + b) * d + c) * d + e) l 0.

Record mode := mkMode {
  m_lam : K;                 (* relaxation rate *)
  m_L : list K;              (* loss tensor, d^4 entries *)
  m_F : list (list K);       (* certificate: L ~ sum_k F_k (x) F_k  (d^2 entries each) *)
  m_phi : list K             (* certificate: approximate eigenvector for m_lam *)
}.

Definition near (tol x y : K) : bool := rleb K (x - y) tol && rleb K (y - x) tol.

Definition all2 (d : nat) (f : nat -> nat -> bool) : bool :=
  forallb (fun a => forallb (fun b => f a b) (seq 0 d)) (seq 0 d).
Definition all4 (d : nat) (f : nat -> nat -> nat -> nat -> bool) : bool :=
  all2 d (fun a b => all2 d (fun c e => f a b c e)).

Definition posb (x : K) : bool := rleb K 0 x && negb (reqb K x 0).

(* compliance symmetries, within tol *)
Definition symb (d : nat) (tol : K) (L : list K) : bool :=
  all4 d (fun a b c e => near tol (t4 d L a b c e) (t4 d L b a c e)
                         && near tol (t4 d L a b c e) (t4 d L a b e c)
                         && near tol (t4 d L a b c e) (t4 d L c e a b)).

Definition FF (d : nat) (Fs : list (list K)) (a b c e : nat) : K :=
  sumf (fun F => t2 d F a b * t2 d F c e) Fs.

(* the tensor is within tol (entrywise) of a sum of squares *)
Definition certb (d : nat) (tol : K) (L : list K) (Fs : list (list K)) : bool :=
  all4 d (fun a b c e => near tol (t4 d L a b c e) (FF d Fs a b c e)).

Definition Ltot (d : nat) (modes : list mode) (a b c e : nat) : K :=
  sumf (fun m => t4 d (m_L m) a b c e) modes.

Definition Wtot (n : nat) (w : nat -> K) : K := sumf w (seq 0 n).

(* sum rule: W^2 * sum_modes L = covW, within tol *)
Definition sumruleb (n d : nat) (tol : K) (w : nat -> K) (P : nat -> list K) (modes : list mode) : bool :=
  all4 d (fun a b c e =>
    near tol (Wtot n w * Wtot n w * Ltot d modes a b c e)
             (covW n w (fun i => t2 d (P i) a b) (fun i => t2 d (P i) c e))).

(* eigen-residual certificate:  tolden * |(-omega) phi - lam phi|^2 <= tolnum * |phi|^2 *)
Definition eigres (R : rnet) (lam : K) (phi : nat -> K) (x : nat) : K := momega R phi x - lam * phi x.
Definition eigb (R : rnet) (n : nat) (tolnum tolden lam : K) (phi : nat -> K) : bool :=
  rleb K (tolden * nrm2 n (eigres R lam phi)) (tolnum * nrm2 n phi) && posb (nrm2 n phi).

(* 0 = every check passes; 1 rate not positive; 2 symmetry; 3 not a sum of squares;
   4 eigen-residual; 5 sum rule; 6 ill-formed rate network *)
Definition check_loss (n d : nat) (R : rnet) (w : list K) (P : list (list K)) (modes : list mode)
           (tolsym tolcert tolsum tolnum tolden : K) : nat :=
  if negb (rwfb R n) then 6 else
  if negb (forallb (fun m => posb (m_lam m)) modes) then 1 else
  if negb (forallb (fun m => symb d tolsym (m_L m)) modes) then 2 else
  if negb (forallb (fun m => certb d tolcert (m_L m) (m_F m)) modes) then 3 else
  if negb (forallb (fun m => eigb R n tolnum tolden (m_lam m) (fld (m_phi m))) modes) then 4 else
  if negb (sumruleb n d tolsum (fld w) (fun i => nth i P []) modes) then 5 else 0.

End Relax.

Arguments mkRedge {K} _ _ _ _ _.
Arguments ri {K} _. Arguments rj {K} _. Arguments lf {K} _. Arguments lb {K} _. Arguments sw {K} _.
Arguments rwf {K} _ _. Arguments rwfb {K} _ _. Arguments qedge {K} _ _. Arguments qform {K} _ _.
Arguments momega {K} _ _ _. Arguments balanced {K} _ _. Arguments cnet {K} _ _.
Arguments nrm2 {K} _ _. Arguments Fmode {K} _ _ _ _. Arguments cov {K} _ _ _ _. Arguments covW {K} _ _ _ _.
Arguments resolution {K} _ _ _. Arguments t2 {K} _ _ _ _. Arguments t4 {K} _ _ _ _ _ _.
Arguments mkMode {K} _ _ _ _. Arguments m_lam {K} _. Arguments m_L {K} _. Arguments m_F {K} _. Arguments m_phi {K} _.
Arguments near {K} _ _ _. Arguments all2 _ _ : clear implicits. Arguments all4 _ _ : clear implicits.
Arguments posb {K} _. Arguments symb {K} _ _ _. Arguments FF {K} _ _ _ _ _ _. Arguments certb {K} _ _ _ _.
Arguments Ltot {K} _ _ _ _ _ _. Arguments Wtot {K} _ _. Arguments sumruleb {K} _ _ _ _ _ _.
Arguments eigres {K} _ _ _ _. Arguments eigb {K} _ _ _ _ _ _. Arguments check_loss {K} _ _ _ _ _ _ _ _ _ _ _.
