(* Crystals and space-group operations in LATTICE COORDINATES with exact integer arithmetic
   (DESIGN.md 3.2 / 3.4; properties C18, C19, C23).

   Conventions
   * dimension d (2 or 3 in the code; the linear algebra below is for every d, determinants
     and the adjugate inverse for d = 1, 2, 3);
   * vectors are functions nat -> Z, matrices nat -> nat -> Z; only indices < d matter;
     data coming from the harness are lists (vl / ml read them, vlist / mlist write them);
   * one common denominator D = c_den > 0: a unit-cell position u = p / D is stored as its
     numerator vector p, a translation t = tau / D as tau; the atom (c,i) in cell R sits at
     (D R + p_ci) / D.  S u + t - u' integer  <=>  D | S p + tau - p';
   * the metric g = A^T A is stored as an integer multiple (the isometry equation
     S^T g S = g is homogeneous);
   * scalar spins are integers; an operation keeps spins up to one global sign (the code
     tries the phase factors +1 and -1 for real scalar spins: magnetic groups).

   Code modelled: onsager/crystal.py  GroupOp (__mul__, inv, ident), what Crystal.gengroup /
   maptranslation must return (isSymOp), Crystal.g_pos / g_vect / cart2unit (Model/Action.v).
   Definitions only; proofs are in Proofs/Lattice_proofs.v. *)
From Coq Require Import ZArith List Bool Arith.
Import ListNotations.
Local Open Scope Z_scope.

Definition vec := nat -> Z.
Definition mat := nat -> nat -> Z.

Definition vl (l : list Z) : vec := fun i => nth i l 0.
Definition ml (m : list (list Z)) : mat := fun i j => nth j (nth i m []) 0.

Fixpoint zsum (f : nat -> Z) (n : nat) : Z :=
  match n with O => 0 | S k => zsum f k + f k end.

Definition mv (d : nat) (M : mat) (v : vec) : vec := fun i => zsum (fun j => M i j * v j) d.
Definition mm (d : nat) (A B : mat) : mat := fun i j => zsum (fun k => A i k * B k j) d.
Definition mT (A : mat) : mat := fun i j => A j i.
Definition mI : mat := fun i j => if Nat.eqb i j then 1 else 0.
Definition vzero : vec := fun _ => 0.
Definition vadd (u v : vec) : vec := fun i => u i + v i.
Definition vsub (u v : vec) : vec := fun i => u i - v i.
Definition vneg (u : vec) : vec := fun i => - u i.
Definition vscale (c : Z) (u : vec) : vec := fun i => c * u i.
Definition dot (d : nat) (u v : vec) : Z := zsum (fun i => u i * v i) d.
(* the metric bilinear form  x^T g y *)
Definition gdot (d : nat) (Gm : mat) (u v : vec) : Z := dot d u (mv d Gm v).

Definition vlist (d : nat) (v : vec) : list Z := map v (seq 0 d).
Definition mlist (d : nat) (M : mat) : list (list Z) := map (fun i => map (M i) (seq 0 d)) (seq 0 d).

Definition veqb (d : nat) (u v : vec) : bool := forallb (fun i => u i =? v i) (seq 0 d).
Definition meqb (d : nat) (A B : mat) : bool := forallb (fun i => veqb d (A i) (B i)) (seq 0 d).
(* D divides every component *)
Definition vdivb (d : nat) (D : Z) (v : vec) : bool := forallb (fun i => (v i) mod D =? 0) (seq 0 d).

(* ---- determinants and the adjugate (d = 1, 2, 3) ------------------------------------ *)
Definition nx (i : nat) : nat := match i with 0%nat => 1%nat | 1%nat => 2%nat | _ => 0%nat end.

Definition det2 (M : mat) : Z := M 0%nat 0%nat * M 1%nat 1%nat - M 0%nat 1%nat * M 1%nat 0%nat.
Definition det3 (M : mat) : Z :=
  M 0%nat 0%nat * (M 1%nat 1%nat * M 2%nat 2%nat - M 1%nat 2%nat * M 2%nat 1%nat)
  - M 0%nat 1%nat * (M 1%nat 0%nat * M 2%nat 2%nat - M 1%nat 2%nat * M 2%nat 0%nat)
  + M 0%nat 2%nat * (M 1%nat 0%nat * M 2%nat 1%nat - M 1%nat 1%nat * M 2%nat 0%nat).
Definition det (d : nat) (M : mat) : Z :=
  match d with 1%nat => M 0%nat 0%nat | 2%nat => det2 M | 3%nat => det3 M | _ => 0 end.

Definition adj2 (M : mat) : mat := fun i j =>
  match i, j with
  | 0%nat, 0%nat => M 1%nat 1%nat | 0%nat, 1%nat => - M 0%nat 1%nat
  | 1%nat, 0%nat => - M 1%nat 0%nat | 1%nat, 1%nat => M 0%nat 0%nat
  | _, _ => 0 end.
(* cyclic cofactors: adj i j = cofactor j i *)
Definition adj3 (M : mat) : mat := fun i j =>
  M (nx j) (nx i) * M (nx (nx j)) (nx (nx i)) - M (nx j) (nx (nx i)) * M (nx (nx j)) (nx i).
Definition adj (d : nat) (M : mat) : mat :=
  match d with 1%nat => (fun _ _ => 1) | 2%nat => adj2 M | 3%nat => adj3 M | _ => (fun _ _ => 0) end.
(* the inverse of a unimodular matrix (det = +-1, so 1/det = det); this is what
   np.round(np.linalg.inv(rot)).astype(int) returns for such a matrix *)
Definition minv (d : nat) (M : mat) : mat := fun i j => det d M * adj d M i j.

(* ---- crystals and operations ----------------------------------------------------------- *)
Record crystal := mkCrys {
  c_dim : nat;
  c_den : Z;                         (* common denominator D *)
  c_metric : list (list Z);          (* integer multiple of A^T A *)
  c_basis : list (list (list Z));    (* per species: numerators of the unit-cell positions *)
  c_spins : list (list Z) }.         (* per species: scalar spins (0 when absent) *)

Record symop := mkOp {
  o_rot : list (list Z);             (* GroupOp.rot *)
  o_trans : list Z;                  (* numerators of GroupOp.trans over D *)
  o_perm : list (list nat) }.        (* GroupOp.indexmap *)

Definition nchem (C : crystal) : nat := length (c_basis C).
Definition natoms (C : crystal) (c : nat) : nat := length (nth c (c_basis C) []).
Definition upos (C : crystal) (c i : nat) : vec := vl (nth i (nth c (c_basis C) []) []).
Definition spin (C : crystal) (c i : nat) : Z := nth i (nth c (c_spins C) []) 0.
Definition metric (C : crystal) : mat := ml (c_metric C).
Definition rot (g : symop) : mat := ml (o_rot g).
Definition trn (g : symop) : vec := vl (o_trans g).
Definition pm (g : symop) (c i : nat) : nat := nth i (nth c (o_perm g) []) 0%nat.

(* position (times D) of atom (c,i) of cell R *)
Definition atom_at (C : crystal) (c i : nat) (R : vec) : vec :=
  fun k => c_den C * R k + upos C c i k.
(* the affine map x |-> S x + t on positions (times D) *)
Definition act (d : nat) (g : symop) (x : vec) : vec := fun k => mv d (rot g) x k + trn g k.

(* ---- the specification: quantified over ALL vectors, lattice points and cells ------------ *)
Definition is_isometry (d : nat) (Gm S : mat) : Prop :=
  forall x y : vec, gdot d Gm (mv d S x) (mv d S y) = gdot d Gm x y.
Definition unimod (d : nat) (S : mat) : Prop :=
  exists T : mat, (forall i j, (i < d)%nat -> (j < d)%nat -> mm d S T i j = mI i j) /\
                  (forall i j, (i < d)%nat -> (j < d)%nat -> mm d T S i j = mI i j).
(* S maps the lattice Z^d ONTO itself (into is by typing) *)
Definition lattice_onto (d : nat) (S : mat) : Prop :=
  forall R' : vec, exists R : vec, forall k, (k < d)%nat -> mv d S R k = R' k.
Definition perm_ok (n : nat) (p : list nat) : Prop :=
  length p = n /\ NoDup p /\ forall x, In x p -> (x < n)%nat.
Definition perms_ok (C : crystal) (g : symop) : Prop :=
  length (o_perm g) = nchem C /\
  forall c, (c < nchem C)%nat -> perm_ok (natoms C c) (nth c (o_perm g) []).
(* every atom of every cell goes onto the atom of the same species named by the permutation *)
Definition maps_atoms (C : crystal) (g : symop) : Prop :=
  forall c i, (c < nchem C)%nat -> (i < natoms C c)%nat ->
  forall R : vec, exists R' : vec,
    forall k, (k < c_dim C)%nat -> act (c_dim C) g (atom_at C c i R) k = atom_at C c (pm g c i) R' k.
Definition keeps_spin (C : crystal) (g : symop) : Prop :=
  exists s, (s = 1 \/ s = -1) /\
  forall c i, (c < nchem C)%nat -> (i < natoms C c)%nat -> spin C c (pm g c i) = s * spin C c i.

Record isSymOp (C : crystal) (g : symop) : Prop := mkIsSymOp {
  so_iso : is_isometry (c_dim C) (metric C) (rot g);
  so_unimod : unimod (c_dim C) (rot g);
  so_perm : perms_ok C g;
  so_atoms : maps_atoms C g;
  so_spin : keeps_spin C g }.

(* ---- the finite checker ----------------------------------------------------------------- *)
Fixpoint memb (x : nat) (l : list nat) : bool :=
  match l with [] => false | y :: l' => Nat.eqb x y || memb x l' end.
Fixpoint nodupb (l : list nat) : bool :=
  match l with [] => true | x :: l' => negb (memb x l') && nodupb l' end.
Definition is_permb (n : nat) (p : list nat) : bool :=
  Nat.eqb (length p) n && nodupb p && forallb (fun x => Nat.ltb x n) p.
Definition permsb (C : crystal) (g : symop) : bool :=
  Nat.eqb (length (o_perm g)) (nchem C) &&
  forallb (fun c => is_permb (natoms C c) (nth c (o_perm g) [])) (seq 0 (nchem C)).
Definition forall_atoms (C : crystal) (f : nat -> nat -> bool) : bool :=
  forallb (fun c => forallb (f c) (seq 0 (natoms C c))) (seq 0 (nchem C)).
Definition atomsb (C : crystal) (g : symop) : bool :=
  forall_atoms C (fun c i => vdivb (c_dim C) (c_den C)
                    (vsub (act (c_dim C) g (upos C c i)) (upos C c (pm g c i)))).
Definition spinb (C : crystal) (g : symop) (s : Z) : bool :=
  forall_atoms C (fun c i => spin C c (pm g c i) =? s * spin C c i).
Definition isometryb (d : nat) (Gm S : mat) : bool := meqb d (mm d (mT S) (mm d Gm S)) Gm.
Definition unimodb (d : nat) (S : mat) : bool :=
  meqb d (mm d S (minv d S)) mI && meqb d (mm d (minv d S) S) mI.

Definition isSymOpb (C : crystal) (g : symop) : bool :=
  (0 <? c_den C) && isometryb (c_dim C) (metric C) (rot g) && unimodb (c_dim C) (rot g)
  && permsb C g && atomsb C g && (spinb C g 1 || spinb C g (-1)).

(* diagnosis for the harness: 0 ok, 1 denominator, 2 metric not preserved, 3 not unimodular,
   4 indexmap not a permutation, 5 an atom is not mapped onto the recorded atom, 6 spins *)
Definition diagnose_op (C : crystal) (g : symop) : nat :=
  if negb (0 <? c_den C) then 1%nat
  else if negb (isometryb (c_dim C) (metric C) (rot g)) then 2%nat
  else if negb (unimodb (c_dim C) (rot g)) then 3%nat
  else if negb (permsb C g) then 4%nat
  else if negb (atomsb C g) then 5%nat
  else if negb (spinb C g 1 || spinb C g (-1)) then 6%nat else 0%nat.

(* ---- GroupOp algebra --------------------------------------------------------------------- *)
(* __mul__: rot = S_a S_b, trans = S_a t_b + t_a, indexmap[c][i] = a.indexmap[c][b.indexmap[c][i]] *)
Definition op_mul (d : nat) (a b : symop) : symop :=
  mkOp (mlist d (mm d (rot a) (rot b)))
       (vlist d (vadd (mv d (rot a) (trn b)) (trn a)))
       (map (fun c => map (fun i => pm a c (pm b c i)) (seq 0 (length (nth c (o_perm b) []))))
            (seq 0 (length (o_perm b)))).

(* position of the first occurrence of y in p (length p when absent) *)
Fixpoint index_of (y : nat) (p : list nat) : nat :=
  match p with [] => 0%nat | x :: p' => if Nat.eqb x y then 0%nat else S (index_of y p') end.
(* argsort of a permutation: the x-components of sorted([(y, j) for j, y in enumerate(p)]) *)
Definition pinv (p : list nat) : list nat := map (fun y => index_of y p) (seq 0 (length p)).

(* inv(): rot = S^-1, trans = - S^-1 t, indexmap = argsort *)
Definition op_inv (d : nat) (a : symop) : symop :=
  mkOp (mlist d (minv d (rot a)))
       (vlist d (vneg (mv d (minv d (rot a)) (trn a))))
       (map pinv (o_perm a)).

(* ident(basis) (with the dimension of the basis) *)
Definition op_id (C : crystal) : symop :=
  mkOp (mlist (c_dim C) mI) (vlist (c_dim C) vzero) (map (fun l => seq 0 (length l)) (c_basis C)).

(* equality modulo lattice translations *)
Fixpoint lnat_eqb (a b : list nat) : bool :=
  match a, b with
  | [], [] => true
  | x :: a', y :: b' => Nat.eqb x y && lnat_eqb a' b'
  | _, _ => false end.
Fixpoint llnat_eqb (a b : list (list nat)) : bool :=
  match a, b with
  | [], [] => true
  | x :: a', y :: b' => lnat_eqb x y && llnat_eqb a' b'
  | _, _ => false end.

Definition eqmodb (C : crystal) (a b : symop) : bool :=
  meqb (c_dim C) (rot a) (rot b) && vdivb (c_dim C) (c_den C) (vsub (trn a) (trn b))
  && llnat_eqb (o_perm a) (o_perm b).
Definition eqmod (C : crystal) (a b : symop) : Prop :=
  (forall i j, (i < c_dim C)%nat -> (j < c_dim C)%nat -> rot a i j = rot b i j) /\
  (forall k, (k < c_dim C)%nat -> exists n, trn a k - trn b k = c_den C * n) /\
  o_perm a = o_perm b.

Definition is_groupb (C : crystal) (ops : list symop) : bool :=
  existsb (eqmodb C (op_id C)) ops
  && forallb (fun a => forallb (fun b => existsb (eqmodb C (op_mul (c_dim C) a b)) ops) ops) ops
  && forallb (fun a => existsb (eqmodb C (op_inv (c_dim C) a)) ops) ops.

Definition is_group_mod (C : crystal) (ops : list symop) : Prop :=
  (exists e, In e ops /\ eqmod C (op_id C) e) /\
  (forall a b, In a ops -> In b ops -> exists c, In c ops /\ eqmod C (op_mul (c_dim C) a b) c) /\
  (forall a, In a ops -> exists b, In b ops /\ eqmod C (op_inv (c_dim C) a) b).

(* no two listed operations are equal modulo translations (|G| is the order of the quotient) *)
Fixpoint distinctb (C : crystal) (ops : list symop) : bool :=
  match ops with [] => true | a :: l => negb (existsb (eqmodb C a) l) && distinctb C l end.

(* diagnosis: 0 ok, 1 identity missing, 2 not closed, 3 an inverse missing, 4 duplicates *)
Definition diagnose_group (C : crystal) (ops : list symop) : nat :=
  if negb (existsb (eqmodb C (op_id C)) ops) then 1%nat
  else if negb (forallb (fun a => forallb (fun b => existsb (eqmodb C (op_mul (c_dim C) a b)) ops) ops) ops) then 2%nat
  else if negb (forallb (fun a => existsb (eqmodb C (op_inv (c_dim C) a)) ops) ops) then 3%nat
  else if negb (distinctb C ops) then 4%nat else 0%nat.

(* index (from 1) of the first operation rejected by the checker, with its diagnosis; (0,0) if none *)
Fixpoint first_bad (C : crystal) (ops : list symop) (k : nat) : nat * nat :=
  match ops with
  | [] => (0%nat, 0%nat)
  | g :: l => match diagnose_op C g with 0%nat => first_bad C l (S k) | c => (S k, c) end
  end.
