(* Correspondence checker for Model/JumpEval.v over the ring Z, on concrete supercell data read off the
   implementation (invsuper, size, translist, Rveclist, cluster geometry, half values, jumps in the order of
   MonteCarloSampler.jumps).  For a list of occupations with the implementation's E() and transitions()
   barriers it decides inside Coq whether the model reproduces them.  Definitions only.                  *)
From Coq Require Import List ZArith Bool Arith.
From Onsager Require Import Base.OrdRing Base.Instances Model.JumpEval.
Import ListNotations.
Local Open Scope Z_scope.

Record geom := mkGeom { gM : list (list Z); gsize : Z; gtrans : list V; gRvec : list V;
                        gNmob : nat; gNspec : nat; gsocc : list Z }.

(* a jump of the sampler: its spec, the translation it starts from, and the implementation's (i, j) *)
Record jinst := mkJI { jn_spec : jspec Zring; jn_Ri : V; jn_i : nat; jn_j : nat }.

Record sysdata := mkSys { s_c0 : Z; s_CE : list (list csite * Z); s_VCE : list (vclust Zring);
                          s_TSL : list (tsclust Zring); s_vac : option (V * nat); s_jumps : list jinst }.

(* one occupation: occ, E(), and for every reported transition (jump number, barrier) *)
Definition occase := (list Z * Z * list (nat * Z))%type.

Section Check.
Variable g : geom.
Variable s : sysdata.

Definition tix : V -> nat := tidx_conc (gM g) (gsize g) (gtrans g).
Definition soccf (x : nat) : bool := nth x (gsocc g) 0 =? 1.
Definition moccf (o : list Z) (x : nat) : bool := nth x o 0 =? 1.
Definition N : nat := length (gRvec g).

Definition gix := gidx tix (gNmob g) (gNspec g).

(* geometry sanity: Rveclist are representatives in order, every vector used lands inside translist,
   and the site indices of the jumps are the implementation's *)
Definition reps_okb : bool :=
  Nat.eqb (length (gtrans g)) N &&
  forallb (fun k => Nat.eqb (tix (nth k (gRvec g) v0)) k) (seq O N).

Definition sites_in_range (sites : list csite) : bool :=
  forallb (fun R => forallb (fun c => Nat.ltb (tix (vadd R (sR c))) N &&
                                      Nat.ltb (sci c) (if smob c then gNmob g else gNspec g)) sites) (gRvec g).

Definition jumps_okb : bool :=
  forallb (fun ji => let J := jn_spec ji in
                     Nat.eqb (gix (jn_Ri ji) (mkCS true (jci J) v0)) (jn_i ji) &&
                     Nat.eqb (gix (vadd (jn_Ri ji) (jdR J)) (mkCS true (jcj J) v0)) (jn_j ji) &&
                     Nat.ltb (tix (jn_Ri ji)) N && Nat.ltb (tix (vadd (jn_Ri ji) (jdR J))) N) (s_jumps s).

Definition geom_okb : bool :=
  reps_okb && jumps_okb &&
  forallb (fun c => sites_in_range (fst c)) (s_CE s) &&
  forallb (fun v => sites_in_range (voth v)) (s_VCE s) &&
  forallb (fun t => sites_in_range (ts0 t :: ts1 t :: tsoth t)) (s_TSL s).

(* the domain of the detailed-balance theorem: no cluster is wrapped onto itself by the supercell *)
Fixpoint nodupb (l : list nat) : bool :=
  match l with [] => true | x :: r => negb (existsb (Nat.eqb x) r) && nodupb r end.

Definition inj_sites (sites : list csite) : bool :=
  forallb (fun R => nodupb (map (gix R) (filter smob sites))) (gRvec g).

Definition inj_okb : bool :=
  forallb (fun c => inj_sites (fst c)) (s_CE s) &&
  forallb (fun v => inj_sites (mkCS true (vci v) v0 :: voth v)) (s_VCE s) &&
  forallb (fun t => inj_sites (ts0 t :: ts1 t :: filter (fun x => negb (cs_eqb x (ts1 t)) && negb (cs_eqb x (ts0 t))) (tsoth t))) (s_TSL s).

Definition model_E (o : list Z) : Z :=
  match s_vac s with
  | None => Energy Zring tix (gRvec g) (gNmob g) (gNspec g) soccf (moccf o) (s_c0 s) (s_CE s)
  | Some (Rv, cv) => EnergyV Zring tix (gRvec g) (gNmob g) (gNspec g) soccf (moccf o) (s_c0 s) (s_CE s) (s_VCE s) Rv cv
  end.

Definition model_Q (o : list Z) (ji : jinst) : Z :=
  match s_vac s with
  | None => Qjump Zring tix (gNmob g) (gNspec g) soccf (moccf o) (s_CE s) (s_TSL s) (jn_spec ji) (jn_Ri ji)
  | Some (Rv, cv) => QjumpV Zring tix (gNmob g) (gNspec g) soccf (moccf o) (s_CE s) (s_VCE s) (s_TSL s) (jn_spec ji) Rv
  end.

(* 0 ok, 2 energy differs, 3 a barrier differs, 4 unknown jump number *)
Definition check_occ (c : occase) : nat :=
  let '(o, e, tr) := c in
  if negb (model_E o =? e) then 2%nat
  else if forallb (fun nq => match nth_error (s_jumps s) (fst nq) with
                             | Some ji => model_Q o ji =? snd nq
                             | None => false end) tr then O else 3%nat.

(* (in domain?, first failing code) ; code 1 = geometry sanity failed *)
Definition check_system (cases : list occase) : bool * nat :=
  (inj_okb,
   if negb geom_okb then 1%nat
   else fold_left (fun acc c => if Nat.eqb acc O then check_occ c else acc) cases O).

End Check.
