(* Connectivity of a conductance network (Net.v) and the zero displacement field: the vocabulary of
   "harmonic functions are constant on connected networks" (used by C10: uniqueness of the torus
   Green function, and C12: the only zero mode of a connected network is sqrt(rho)).
   Definitions only; proofs in Proofs/Harmonic_proofs.v. *)
From Coq Require Import List Arith Bool.
From Onsager Require Import Base.OrdRing Model.Net.
Import ListNotations.

Section Harmonic.
Variable K : ordring.

Definition zerod : edge K -> K := fun _ => r0 K.

(* joined by a path of edges of non-zero conductance, traversed in either direction *)
Inductive connected (N : net K) : nat -> nat -> Prop :=
| conn_refl x : connected N x x
| conn_fwd e z : In e N -> cond e <> r0 K -> connected N (dst e) z -> connected N (src e) z
| conn_bwd e z : In e N -> cond e <> r0 K -> connected N (src e) z -> connected N (dst e) z.

(* Dirichlet energy of a field *)
Definition energy (N : net K) (h : nat -> K) : K := Bform N zerod zerod h h.

(* the two order laws beyond `ordring` that strictness needs (both hold in Z, Qc, R) *)
Definition antisym_law : Prop := forall a b : K, rle K a b -> rle K b a -> a = b.
Definition integral_law : Prop := forall a b : K, rmul K a b = r0 K -> a = r0 K \/ b = r0 K.

End Harmonic.

Arguments zerod {K} _. Arguments connected {K} _ _ _. Arguments energy {K} _ _.
