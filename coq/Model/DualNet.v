(* The transport model of Model/Net.v and Model/Interstitial.v instantiated over dual numbers (C11):
   every conductance, displacement and corrector value carries an eps-part; the eps-part of the
   transport coefficient is its exact derivative along the parameter (inverse temperature, a strain
   component).  Definitions only; proofs in Proofs/DualNet_proofs.v.

   Conventions of the checker (harness/c11.py): the network holds ALL directed jumps with
   conductance  wT[class]  (= Z rho_i lambda_ij), so the diffusivity is  D = re(B) / (2 Z)  with
   Z = sum_i w_i the partition sum, and its derivative is  (Z ep(B) - re(B) Z') / (2 Z^2). *)
From Coq Require Import List Arith Bool.
From Onsager Require Import Base.OrdRing Base.Dual Model.Net Model.Interstitial.
Import ListNotations.

Section DualNet.
Variable K : ordring.
Notation DK := (Dual K).
Notation "0" := (r0 K).
Infix "+" := (radd K). Infix "*" := (rmul K). Infix "-" := (rsub K).

(* real / eps part of an element, of a conductance *)
Definition rp (x : DK) : K := re (K:=K) x.
Definition dp (x : DK) : K := ep (K:=K) x.
Definition cre (e : edge DK) : K := rp (cond e).
Definition cep (e : edge DK) : K := dp (cond e).

(* real part of the force  d + grad g  on an edge *)
Definition rforce (d : edge DK -> DK) (g : nat -> DK) (e : edge DK) : K :=
  rp (d e) + (rp (g (dst e)) - rp (g (src e))).

(* weak Kirchhoff law of the real-part network *)
Definition reKCL (N : net DK) (d : edge DK -> DK) (g : nat -> DK) : Prop :=
  forall phi : nat -> K, sumf (fun e : edge DK => cre e * rforce d g e * (phi (dst e) - phi (src e))) N = 0.

(* the derivative WITHOUT the derivative of the corrector *)
Definition envelope_rhs (N : net DK) (dA dB : edge DK -> DK) (gA gB : nat -> DK) : K :=
  sumf (fun e : edge DK => cep e * rforce dA gA e * rforce dB gB e) N
  + sumf (fun e : edge DK => cre e * dp (dA e) * rforce dB gB e) N
  + sumf (fun e : edge DK => cre e * rforce dA gA e * dp (dB e)) N.

(* the real-part network as a network over K *)
Definition re_edge (e : edge DK) : edge K := mkEdge (src e) (dst e) (cre e) (map rp (dsp e)).
Definition re_net (N : net DK) : net K := map re_edge N.

(* quotient rule, division free:  2 Z^2 dD = Z ep(B) - re(B) Z' *)
Definition dquot (Zw Zw' : K) (B : DK) : K := Zw * dp B - rp B * Zw'.

Definition all_kl (dim : nat) (f : nat -> nat -> bool) : bool :=
  forallb (fun k => forallb (fun l => f k l) (dims dim)) (dims dim).

(* 0 = every stage passes; 1 ill-formed  2 negative conductance  3 not reversible
   4 Kirchhoff fails (over dual numbers: both parts, exactly)  5 value out of bounds  6 derivative out of bounds *)
Definition dual_check (n dim : nat) (wT : list DK) (jumps : list (jump DK)) (gam : list (list DK))
           (Zw Zw' : K) (lo hi lo' hi' : list (list K)) : nat :=
  let N := net_of wT jumps in
  if negb (wfb N n) then 1 else
  if negb (nonnegb N) then 2 else
  if negb (revclosedb N) then 3 else
  if negb (correctorsb N n dim gam) then 4 else
  if negb (all_kl dim (fun k l => in_bounds lo hi k l (rp (Lcomp N gam k l)))) then 5 else
  if negb (all_kl dim (fun k l => in_bounds lo' hi' k l (dquot Zw Zw' (Lcomp N gam k l)))) then 6 else 0.

End DualNet.

Arguments rp {K} _. Arguments dp {K} _. Arguments cre {K} _. Arguments cep {K} _.
Arguments rforce {K} _ _ _. Arguments reKCL {K} _ _ _. Arguments envelope_rhs {K} _ _ _ _ _.
Arguments re_edge {K} _. Arguments re_net {K} _. Arguments dquot {K} _ _ _.
Arguments dual_check {K} _ _ _ _ _ _ _ _ _ _ _.
