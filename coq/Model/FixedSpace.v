(* Fixed (invariant) subspace of a list of linear operators, with a certificate checker (C20).

   Vectors are functions  I -> K  on a finite index list `idx` (I = nat for vectors of R^n,
   I = nat*nat for second-rank tensors), operators are  rho : I -> I -> K.  A candidate basis is
   a list of pairs (b_a, c_a): the vector b_a and a covector c_a.  With the SPARSE multipliers
   E : I -> list (row number, coefficient) the checker verifies, exactly,
      (fixed)   every row  (rho - 1)_i  of every operator annihilates every b_a
      (dual)    c_a . b_a' = delta_aa'
      (cert)    delta_ij = sum_a b_a(i) c_a(j) + sum_(r,e) in E i  e * row_r(j)
   from which (Proofs/FixedSpace_proofs.v) every invariant x equals sum_a (c_a . x) b_a, and the
   b_a are linearly independent: they are a basis of EXACTLY the invariant subspace, whose
   dimension is therefore the number of pairs.
   Tensor operators: rhoT S (a,b) (c,d) = S_ac S_bd  (T -> S T S^T), transposition tau (T -> T^T);
   symmetric invariant tensors = invariants of tau :: map rhoT ops. *)
From Coq Require Import List Arith Bool.
From Onsager Require Import Base.OrdRing.
Import ListNotations.

Section FixedSpace.
Variable K : ordring.
Variable I : Type.
Variable ieqb : I -> I -> bool.
Variable idx : list I.
Notation "0" := (r0 K). Notation "1" := (r1 K).
Infix "+" := (radd K). Infix "*" := (rmul K). Infix "-" := (rsub K).

Definition vec := I -> K.
Definition oper := I -> I -> K.

Definition delta (i j : I) : K := if ieqb i j then 1 else 0.
Definition dotI (r x : vec) : K := sumf (fun j => r j * x j) idx.
Definition applyM (rho : oper) (x : vec) : vec := fun i => dotI (rho i) x.
Definition invariant (rho : oper) (x : vec) : Prop := forall i, In i idx -> applyM rho x i = x i.

Definition zerov : vec := fun _ => 0.

Definition rows_of (reps : list oper) : list vec :=
  flat_map (fun rho => map (fun i => (fun j => rho i j - delta i j)) idx) reps.

(* linear combination  sum_a (c_a . x) b_a *)
Definition expand (BC : list (vec * vec)) (x : vec) : vec :=
  fun i => sumf (fun bc => dotI (snd bc) x * fst bc i) BC.

Definition fixedb (rows : list vec) (BC : list (vec * vec)) : bool :=
  forallb (fun r => forallb (fun bc => reqb K (dotI r (fst bc)) 0) BC) rows.

Definition dualb (BC : list (vec * vec)) : bool :=
  let k := length BC in
  forallb (fun a => forallb (fun a' =>
     reqb K (dotI (snd (nth a BC (zerov, zerov))) (fst (nth a' BC (zerov, zerov)))) (if Nat.eqb a' a then 1 else 0))
     (seq 0 k)) (seq 0 k).

Definition certb (rows : list vec) (BC : list (vec * vec)) (E : I -> list (nat * K)) : bool :=
  forallb (fun i => forallb (fun j =>
     reqb K (delta i j)
          (sumf (fun bc => fst bc i * snd bc j) BC + sumf (fun re => snd re * nth (fst re) rows zerov j) (E i))) idx) idx.

Definition basis_okb (reps : list oper) (BC : list (vec * vec)) (E : I -> list (nat * K)) : bool :=
  fixedb (rows_of reps) BC && dualb BC && certb (rows_of reps) BC E.
End FixedSpace.

Arguments delta {K I} ieqb i j.
Arguments dotI {K I} idx r x.
Arguments applyM {K I} idx rho x i.
Arguments invariant {K I} idx rho x.
Arguments rows_of {K I} ieqb idx reps.
Arguments expand {K I} idx BC x i.
Arguments basis_okb {K I} ieqb idx reps BC E.
Arguments fixedb {K I} idx rows BC.
Arguments dualb {K I} idx BC.
Arguments certb {K I} ieqb idx rows BC E.

(* ---- concrete index sets --------------------------------------------------------------- *)
Section Concrete.
Variable K : ordring.

Definition mat := list (list K).
Definition mentry (S : mat) (i j : nat) : K := nth j (nth i S []) (r0 K).

Definition vidx (n : nat) : list nat := seq 0 n.
Definition tidx (n : nat) : list (nat * nat) := list_prod (seq 0 n) (seq 0 n).
Definition peqb (p q : nat * nat) : bool := Nat.eqb (fst p) (fst q) && Nat.eqb (snd p) (snd q).

Definition rhoV (S : mat) : nat -> nat -> K := mentry S.
Definition rhoT (S : mat) : nat * nat -> nat * nat -> K :=
  fun p q => rmul K (mentry S (fst p) (fst q)) (mentry S (snd p) (snd q)).
Definition tau : nat * nat -> nat * nat -> K :=
  fun p q => if peqb (snd p, fst p) q then r1 K else r0 K.

Definition vecV (l : list K) : nat -> K := fun i => nth i l (r0 K).
Definition vecT (l : mat) : nat * nat -> K := fun p => mentry l (fst p) (snd p).
Definition sparse {A} (l : list (list (nat * K))) (pos : A -> nat) : A -> list (nat * K) := fun i => nth (pos i) l [].

(* vectors of R^n invariant under the matrices `ops`: basis given by rows of (B, C) *)
Definition vector_basis_okb (n : nat) (ops : list mat) (B C : mat) (E : list (list (nat * K))) : bool :=
  Nat.eqb (length B) (length C) &&
  basis_okb Nat.eqb (vidx n) (map rhoV ops) (combine (map vecV B) (map vecV C)) (sparse E (fun i => i)).

(* symmetric second-rank tensors invariant under T -> S T S^T *)
Definition tensor_basis_okb (n : nat) (ops : list mat) (B C : list mat) (E : list (list (nat * K))) : bool :=
  Nat.eqb (length B) (length C) &&
  basis_okb peqb (tidx n) (tau :: map rhoT ops) (combine (map vecT B) (map vecT C))
            (sparse E (fun p => (fst p * n + snd p)%nat)).
End Concrete.

Arguments mentry {K} S i j.
Arguments rhoV {K} S i j. Arguments rhoT {K} S p q. Arguments tau {K} p q.
Arguments vecV {K} l i. Arguments vecT {K} l p.
Arguments vector_basis_okb {K} n ops B C E.
Arguments tensor_basis_okb {K} n ops B C E.
