(* Jump networks in lattice coordinates (C21; DESIGN.md 3.2/3.4, section 4 C21).

   A crystal is  (G, D, positions) : the metric scaled to integers, and the unit-cell
   positions of every species scaled by the common denominator D (u = p / D).
   A jump of species `chem` is (i, j, R): from site i in cell 0 to site j in cell R; its
   displacement (scaled by D) is  D*R + p_j - p_i  and its squared length  qf G (disp).

   `jumps` models Crystal.jumpnetwork as a SET: all (i,j,R) in a box with
        0 < |dx|^2 < cutoff^2   and   not obstructed,
   where (the code's collision test) an atom of another species c at x_a obstructs the jump
   when   0 <= (x_a - x_i).dx <= dx.dx   and   |x_a - x_i|^2 - ((x_a - x_i).dx)^2/dx.dx <= mind2[c]
   (closed segment, `<=` because the code accepts np.isclose(d2, mind2) as well as d2 < mind2).
   `orbit`/`classes` model the symmetry expansion (both a jump and its reverse are appended).
   Definitions only; proofs in Proofs/Jumps_proofs.v. *)
From Coq Require Import ZArith List Bool.
From Onsager Require Import Model.Geom3.
Import ListNotations.
Local Open Scope Z_scope.

Record crystal := mkCrystal { cG : metric; cD : Z; cpos : list (list V3) }.

Definition sites (cr : crystal) (c : nat) : list V3 := nth c (cpos cr) [].
Definition nsites (cr : crystal) (c : nat) : nat := length (sites cr c).
Definition pos (cr : crystal) (c i : nat) : V3 := nth i (sites cr c) vzero.

Definition jmp := (nat * nat * V3)%type.
Definition ji (x : jmp) : nat := fst (fst x).
Definition jj (x : jmp) : nat := snd (fst x).
Definition jR (x : jmp) : V3 := snd x.

Definition disp (cr : crystal) (chem : nat) (x : jmp) : V3 :=
  vadd (vscale (cD cr) (jR x)) (vsub (pos cr chem (jj x)) (pos cr chem (ji x))).

Definition len2 (cr : crystal) (chem : nat) (x : jmp) : Z := qf (cG cr) (disp cr chem x).

(* ---- obstruction ------------------------------------------------------------------ *)
(* per-species squared closest distance as a fraction num/den of the SCALED length unit
   (None: species not tested); the diffusing species itself is never tested *)
Definition obst_of (chem : nat) (obst : list (option (Z * Z))) (c : nat) : option (Z * Z) :=
  if Nat.eqb c chem then None else nth c obst None.

(* position of atom a of species c in cell n, relative to site i of chem in cell 0 *)
Definition relpos (cr : crystal) (chem c a : nat) (n : V3) (i : nat) : V3 :=
  vadd (vscale (cD cr) n) (vsub (pos cr c a) (pos cr chem i)).

Definition obstructs (cr : crystal) (chem : nat) (x : jmp) (c a : nat) (n : V3) (num den : Z) : bool :=
  let dx := disp cr chem x in
  let xa := relpos cr chem c a n (ji x) in
  let t := bil (cG cr) xa dx in
  let d2 := qf (cG cr) dx in
  (0 <=? t) && (t <=? d2) && ((qf (cG cr) xa * d2 - t * t) * den <=? num * d2).

Definition obstructedb (cr : crystal) (chem : nat) (obst : list (option (Z * Z))) (onmax : V3) (x : jmp) : bool :=
  existsb (fun c =>
             match obst_of chem obst c with
             | None => false
             | Some (num, den) =>
                 existsb (fun a => existsb (fun n => obstructs cr chem x c a n num den) (box onmax))
                         (seq 0 (nsites cr c))
             end) (seq 0 (length (cpos cr))).

(* ---- enumeration ------------------------------------------------------------------ *)
Definition jumpb (cr : crystal) (chem : nat) (c2 : Z) (obst : list (option (Z * Z))) (onmax : V3) (x : jmp) : bool :=
  let q := len2 cr chem x in
  (0 <? q) && (q <? c2) && negb (obstructedb cr chem obst onmax x).

Definition candidates (cr : crystal) (chem : nat) (nmax : V3) : list jmp :=
  list_prod (list_prod (seq 0 (nsites cr chem)) (seq 0 (nsites cr chem))) (box nmax).

Definition jumps (cr : crystal) (chem : nat) (c2 : Z) (nmax : V3) (obst : list (option (Z * Z))) (onmax : V3) : list jmp :=
  filter (jumpb cr chem c2 obst onmax) (candidates cr chem nmax).

(* ---- certificates that the boxes are large enough ------------------------------------ *)
(* spread bounds |p_a - p_i| componentwise for atoms a of species c and sites i of chem *)
Definition spreadb (cr : crystal) (chem c : nat) (spread : V3) : bool :=
  forallb (fun pa => forallb (fun pi => spread_okb spread (vsub pa pi)) (sites cr chem)) (sites cr c).

Definition jump_range_okb (cr : crystal) (chem : nat) (c2 : Z) (nmax spread : V3) : bool :=
  posdefb (cG cr) && spreadb cr chem chem spread && range_okb (cG cr) (cD cr) c2 nmax spread.

(* obstruction: an obstructing atom lies within  |x_a - x_i|^2 <= mind2 + |dx|^2 < c2o  where
   num <= (c2o - c2) * den  for every tested species *)
Definition obst_boundb (chem : nat) (obst : list (option (Z * Z))) (nspecies : nat) (c2 c2o : Z) : bool :=
  forallb (fun c => match obst_of chem obst c with
                    | None => true
                    | Some (num, den) => (0 <? den) && (num <=? (c2o - c2) * den)
                    end) (seq 0 nspecies).

Definition obst_range_okb (cr : crystal) (chem : nat) (obst : list (option (Z * Z))) (c2 c2o : Z) (onmax spread : V3) : bool :=
  posdefb (cG cr) && obst_boundb chem obst (length (cpos cr)) c2 c2o &&
  forallb (fun c => spreadb cr chem c spread) (seq 0 (length (cpos cr))) &&
  range_okb (cG cr) (cD cr) c2o onmax spread.

(* ---- symmetry operations acting on jumps ------------------------------------------ *)
(* lattice-coordinate rotation S, translation (scaled by D), permutation of the sites of chem and
   the cell shifts:   S p_i + t = p_(perm i) + D * shift_i *)
Record op := mkOp { oS : M3; otr : V3; operm : list nat; oshift : list V3 }.

Definition pidx (g : op) (i : nat) : nat := nth i (operm g) i.
Definition shft (g : op) (i : nat) : V3 := nth i (oshift g) vzero.

Definition act (g : op) (x : jmp) : jmp :=
  (pidx g (ji x), pidx g (jj x), vadd (mulmv (oS g) (jR x)) (vsub (shft g (jj x)) (shft g (ji x)))).

Definition rev (x : jmp) : jmp := (jj x, ji x, vneg (jR x)).

Definition op_okb (cr : crystal) (chem : nat) (g : op) : bool :=
  isometryb (oS g) (cG cr) &&
  Nat.eqb (length (operm g)) (nsites cr chem) && Nat.eqb (length (oshift g)) (nsites cr chem) &&
  forallb (fun i => Nat.ltb (pidx g i) (nsites cr chem) &&
                    veqb (vadd (mulmv (oS g) (pos cr chem i)) (otr g))
                         (vadd (pos cr chem (pidx g i)) (vscale (cD cr) (shft g i))))
          (seq 0 (nsites cr chem)).

Definition jeqb (x y : jmp) : bool := Nat.eqb (ji x) (ji y) && Nat.eqb (jj x) (jj y) && veqb (jR x) (jR y).
Definition mem (x : jmp) (l : list jmp) : bool := existsb (jeqb x) l.

(* the code's expansion: for g in G: if g.x not yet present append g.x and its reverse *)
Definition orbit_step (acc : list jmp) (y : jmp) : list jmp := if mem y acc then acc else acc ++ [y; rev y].
Definition orbit (ops : list op) (x : jmp) : list jmp := fold_left (fun acc g => orbit_step acc (act g x)) ops [].

Definition classes_step (ops : list op) (cls : list (list jmp)) (x : jmp) : list (list jmp) :=
  if existsb (mem x) cls then cls else cls ++ [orbit ops x].
Definition classes (ops : list op) (js : list jmp) : list (list jmp) := fold_left (classes_step ops) js [].

(* checker run on the IMPLEMENTATION's classes *)
Definition classes_closedb (ops : list op) (cls : list (list jmp)) : bool :=
  forallb (fun C => forallb (fun y => mem (rev y) C && forallb (fun g => mem (act g y) C) ops) C) cls.

Fixpoint nodupb (l : list jmp) : bool :=
  match l with [] => true | x :: t => negb (mem x t) && nodupb t end.

Definition subsetb (a b : list jmp) : bool := forallb (fun x => mem x b) a.

Fixpoint jlist_eqb (a b : list jmp) : bool :=
  match a, b with
  | [], [] => true
  | x :: a', y :: b' => jeqb x y && jlist_eqb a' b'
  | _, _ => false
  end.

Fixpoint classes_eqb (a b : list (list jmp)) : bool :=
  match a, b with
  | [], [] => true
  | x :: a', y :: b' => jlist_eqb x y && classes_eqb a' b'
  | _, _ => false
  end.

(* ---- the correspondence decision ----------------------------------------------------
   0 = implementation output is exactly the certified jump set, duplicate free, classes closed
       under every (validated) operation and reversal, lattice form identical
   1 = certificate supplied by the harness rejected (box too small / metric not positive / bad op)
   2 = a jump appears twice          3 = implementation returns something that is not a jump
   4 = implementation misses a jump  5 = a class is not closed under the group or reversal
   6 = lattice form encodes different jumps                                                    *)
Record netcase := mkCase {
  k_cr : crystal; k_chem : nat; k_c2 : Z; k_nmax : V3; k_spread : V3;
  k_obst : list (option (Z * Z)); k_c2o : Z; k_onmax : V3; k_ospread : V3;
  k_ops : list op;
  k_impl : list (list jmp);        (* classes returned by jumpnetwork, converted exactly *)
  k_latt : list (list jmp) }.      (* jumpnetwork2lattice of the same *)

Definition model_jumps (k : netcase) : list jmp :=
  jumps (k_cr k) (k_chem k) (k_c2 k) (k_nmax k) (k_obst k) (k_onmax k).

Definition check_network (k : netcase) : nat :=
  let cr := k_cr k in let chem := k_chem k in
  if negb (jump_range_okb cr chem (k_c2 k) (k_nmax k) (k_spread k)
           && obst_range_okb cr chem (k_obst k) (k_c2 k) (k_c2o k) (k_onmax k) (k_ospread k)
           && forallb (op_okb cr chem) (k_ops k)) then 1%nat else
  let flat := concat (k_impl k) in
  if negb (nodupb flat) then 2%nat else
  if negb (forallb (fun x => Nat.ltb (ji x) (nsites cr chem) && Nat.ltb (jj x) (nsites cr chem)
                             && jumpb cr chem (k_c2 k) (k_obst k) (k_onmax k) x) flat) then 3%nat else
  if negb (subsetb (model_jumps k) flat) then 4%nat else
  if negb (classes_closedb (k_ops k) (k_impl k)) then 5%nat else
  if negb (classes_eqb (k_impl k) (k_latt k)) then 6%nat else 0%nat.

(* a witness for code 4 *)
Definition missing (k : netcase) : list jmp :=
  filter (fun x => negb (mem x (concat (k_impl k)))) (model_jumps k).

(* ---- specification (no boxes, no enumeration) ----------------------------------------- *)
Definition obstructed (cr : crystal) (chem : nat) (obst : list (option (Z * Z))) (x : jmp) : Prop :=
  exists c a n num den,
    (c < length (cpos cr))%nat /\ obst_of chem obst c = Some (num, den) /\ (a < nsites cr c)%nat /\
    obstructs cr chem x c a n num den = true.

Definition is_jump (cr : crystal) (chem : nat) (c2 : Z) (obst : list (option (Z * Z))) (x : jmp) : Prop :=
  (ji x < nsites cr chem)%nat /\ (jj x < nsites cr chem)%nat /\
  0 < len2 cr chem x < c2 /\ ~ obstructed cr chem obst x.
