(* C15: tag input of the calculators (VacancyMediated.tags2preene, generatetags' tagdict), as executable Gallina.
   T = tags (strings; only equality matters), D = the data a user attaches to a tag (prefactor, energy).
   `classes` = the symmetry classes of all tag types, flattened in the order of tags.items()
   (vacancy, solute, solute-vacancy, omega0, omega1, omega2), each class a list of member tags.
   The user dictionary is an association list in insertion order (Python dict; keys distinct). Definitions only. *)
From Coq Require Import List Arith Bool.
From Onsager Require Import Model.Codec.
Import ListNotations.

Section Tags.
Variable T : Type.
Variable teqb : T -> T -> bool.
Variable D : Type.

Definition memb (t : T) (c : list T) : bool := existsb (teqb t) c.

(* t in usertagdict / usertagdict[t] *)
Fixpoint assoc (t : T) (ud : list (T * D)) : option D :=
  match ud with
  | [] => None
  | (k, v) :: r => if teqb k t then Some v else assoc t r
  end.

(* for t in tags: if t in usertagdict: value = usertagdict[t]; break      -- first member IN CLASS ORDER wins *)
Fixpoint class_value (cls : list T) (ud : list (T * D)) : option D :=
  match cls with
  | [] => None
  | t :: r => match assoc t ud with Some v => Some v | None => class_value r ud end
  end.

(* one parameter array: entry i = the user's data for class i if any member tag was supplied, else the default *)
Fixpoint fill (classes : list (list T)) (dflt : list D) (ud : list (T * D)) : list D :=
  match classes, dflt with
  | c :: cs, d :: ds => (match class_value c ud with Some v => v | None => d end) :: fill cs ds ud
  | _, _ => []
  end.

(* tags2preene: the four "state" types over constant defaults, then the LIMB back-fill (an arbitrary function of the
   filled arrays) provides the defaults of omega1 / omega2, which user tags override *)
Variable limb : list D -> list D -> list D -> list D -> list D * list D.
Definition tags2preene (cV cS cSV c0 c1 c2 : list (list T)) (one : D) (ud : list (T * D)) :=
  let fV := fill cV (repeat one (length cV)) ud in
  let fS := fill cS (repeat one (length cS)) ud in
  let fSV := fill cSV (repeat one (length cSV)) ud in
  let f0 := fill c0 (repeat one (length c0)) ud in
  let '(d1, d2) := limb fV fS fSV f0 in
  (fV, fS, fSV, f0, fill c1 d1 ud, fill c2 d2 ud).

(* tagdict[t]: index of the class that contains t *)
Fixpoint find_class (t : T) (classes : list (list T)) (k : nat) : option nat :=
  match classes with
  | [] => None
  | c :: r => if memb t c then Some k else find_class t r (S k)
  end.

Definition is_known (classes : list (list T)) (t : T) : bool :=
  match find_class t classes 0 with Some _ => true | None => false end.

(* VERBOSE report: tupledict[class].append(usertag) for known tags, badtaglist.append(usertag) otherwise;
   then the classes hit 0 times (missing) and the lists of user tags of classes hit more than once (duplicates) *)
Fixpoint known_pairs (classes : list (list T)) (keys : list T) : list (T * nat) :=
  match keys with
  | [] => []
  | t :: r => match find_class t classes 0 with
              | Some n => (t, n) :: known_pairs classes r
              | None => known_pairs classes r
              end
  end.

Definition is_nil {A} (l : list A) : bool := match l with [] => true | _ => false end.

Definition report (classes : list (list T)) (ud : list (T * D)) : list (list T) * list (list T) * list T :=
  let keys := map fst ud in
  let buckets := bucket_loop (repeat [] (length classes)) (known_pairs classes keys) in
  (map fst (filter (fun p => is_nil (snd p)) (combine classes buckets)),
   filter (fun b => Nat.leb 2 (length b)) buckets,
   filter (fun t => negb (is_known classes t)) keys).

(* the specification: the user tags that are members of a class *)
Definition hits (c : list T) (keys : list T) : list T := filter (fun t => memb t c) keys.
Definition report_spec (classes : list (list T)) (ud : list (T * D)) : list (list T) * list (list T) * list T :=
  let keys := map fst ud in
  (filter (fun c => is_nil (hits c keys)) classes,
   filter (fun b => Nat.leb 2 (length b)) (map (fun c => hits c keys) classes),
   filter (fun t => negb (existsb (memb t) classes)) keys).

End Tags.

Arguments memb {T} _ _ _. Arguments assoc {T} _ {D} _ _. Arguments class_value {T} _ {D} _ _.
Arguments fill {T} _ {D} _ _ _. Arguments tags2preene {T} _ {D} _ _ _ _ _ _ _ _ _.
Arguments find_class {T} _ _ _ _. Arguments is_known {T} _ _ _. Arguments known_pairs {T} _ _ _.
Arguments report {T} _ {D} _ _. Arguments hits {T} _ _ _. Arguments report_spec {T} _ {D} _ _.
