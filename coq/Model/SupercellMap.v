(* Executable checkers for supercell symmetry operations, equivalence maps (C27), the supercells and
   mappings produced by makesupercells (C29) and the tag/directory map of the automation tarballs (C30).
   They are run by the harness (inside Coq, vm_compute) on the IMPLEMENTATION's outputs; their
   soundness theorems are in Proofs/SupercellMap_proofs.v.  Definitions only. *)
From Coq Require Import List ZArith Bool.
From Onsager Require Import Model.Supercell.
Import ListNotations.
Local Open Scope Z_scope.

(* ---- a site map is a permutation of 0..N-1 ------------------------------------------------- *)
Definition permb (N : nat) (idx : list Z) : bool :=
  Nat.eqb (length idx) N && nodupb idx && forallb (fun x => (0 <=? x) && (x <? Z.of_nat N)) idx.

(* ---- geometry: integer vectors / matrices as lists ------------------------------------------ *)
Fixpoint dot (a b : list Z) : Z :=
  match a, b with
  | x :: a', y :: b' => x * y + dot a' b'
  | _, _ => 0
  end.
Definition mulmv (R : list (list Z)) (v : list Z) : list Z := map (fun r => dot r v) R.
Fixpoint vadd (a b : list Z) : list Z :=
  match a, b with
  | x :: a', y :: b' => (x + y) :: vadd a' b'
  | _, _ => []
  end.
Definition vscale (s : Z) (v : list Z) : list Z := map (Z.mul s) v.
Fixpoint vsub (a b : list Z) : list Z :=
  match a, b with
  | x :: a', y :: b' => (x - y) :: vsub a' b'
  | _, _ => []
  end.
Definition shapedb (d : nat) (v : list Z) : bool := Nat.eqb (length v) d.
Definition divisibleb (S : Z) (v : list Z) : bool := forallb (fun x => x mod S =? 0) v.

(* sites at integer positions P[i] (units of 1/S of the supercell vectors), operation x -> R x + T:
   site i is carried onto site idx[i] up to a supercell translation *)
Definition geomb (d : nat) (S : Z) (R : list (list Z)) (T : list Z) (P : list (list Z)) (idx : list Z) : bool :=
  (0 <? S) && Nat.eqb (length R) d && forallb (shapedb d) R && shapedb d T && forallb (shapedb d) P &&
  Nat.eqb (length idx) (length P) &&
  forallb (fun p => let '(i, Pi) := p in
                    match nth_error P (Z.to_nat (nth (Z.to_nat i) idx 0)) with
                    | Some Pj => (0 <=? nth (Z.to_nat i) idx 0) &&
                                 divisibleb S (vsub (vadd (mulmv R Pi) T) Pj)
                    | None => false
                    end) (enumerate P).

(* the operation respects a labelling of the sites (sublattice / site chemistry) *)
Definition labelsb (lab idx : list Z) : bool :=
  forallb (fun p => let '(i, l) := p in nth (Z.to_nat (nth (Z.to_nat i) idx 0)) lab (-1) =? l) (enumerate lab).

(* ---- equivalence map: (g, mapping) transforms A into B exactly -------------------------------- *)
Definition equivb (idx : list Z) (mapping : list (list Z)) (A B : sc) : bool :=
  match imul idx A with
  | (A1, OK) => match reorder mapping A1 with
                | (A2, OK) => sc_eqb A2 B
                | _ => false
                end
  | _ => false
  end.

(* does the site map carry the occupation of A onto that of B *)
Definition maps_occb (idx : list Z) (A B : sc) : bool :=
  match imul_occ (occ A) (occ A) 0 idx with
  | Some o => zlist_eqb o (occ B)
  | None => false
  end.

(* no operation of the list does *)
Definition nomapb (G : list (list Z)) (A B : sc) : bool := forallb (fun idx => negb (maps_occb idx A B)) G.

(* number of sites with label k and species v (what the defect-count pre-filter compares) *)
Definition count_lv (lab o : list Z) (k v : Z) : nat :=
  length (filter (fun i => (nth i lab (-1) =? k) && (nth i o (-2) =? v)) (seq 0 (length o))).

(* ---- C29: content of a generated supercell ------------------------------------------------------ *)
(* the occupation differs from the reference occupation exactly at the listed (site, species) pairs *)
Fixpoint set_all (o : list Z) (l : list (Z * Z)) : list Z :=
  match l with [] => o | (i, c) :: t => set_all (upd o (Z.to_nat i) c) t end.
Definition defectsb (ref o : list Z) (defects : list (Z * Z)) : bool :=
  nodupb (map fst defects) &&
  forallb (fun p => (0 <=? fst p) && (fst p <? zlen ref) && negb (nth (Z.to_nat (fst p)) ref (-2) =? snd p)) defects &&
  zlist_eqb o (set_all ref defects).

(* two occupations differ by one atom of species c moving from site i to site j (both directions listed) *)
Definition one_moveb (o1 o2 : list Z) (i j c : Z) : bool :=
  negb (i =? j) && (0 <=? i) && (i <? zlen o1) && (0 <=? j) && (j <? zlen o1) &&
  (nth (Z.to_nat i) o1 (-2) =? c) && (nth (Z.to_nat j) o1 (-2) =? -1) &&
  zlist_eqb o2 (upd (upd o1 (Z.to_nat i) (-1)) (Z.to_nat j) c).

(* ---- C30: the tag <-> directory map is a bijection -------------------------------------------- *)
(* tags and directory names are sent as lists of character codes *)
Fixpoint str_mem (x : list Z) (l : list (list Z)) : bool :=
  match l with [] => false | h :: t => zlist_eqb x h || str_mem x t end.
Fixpoint str_nodupb (l : list (list Z)) : bool :=
  match l with [] => true | h :: t => negb (str_mem h t) && str_nodupb t end.
(* pairs (tag, dir): tags pairwise different, dirs pairwise different, dirs = the expected directory list *)
Definition bijectionb (pairs : list (list Z * list Z)) (dirs : list (list Z)) : bool :=
  str_nodupb (map fst pairs) && str_nodupb (map snd pairs) && str_nodupb dirs &&
  Nat.eqb (length pairs) (length dirs) &&
  forallb (fun p => str_mem (snd p) dirs) pairs.

(* ---- C29: a vector (integer coordinates X in units of 1/D of the supercell vectors, stored as
        numerators 2*X so that the half-open cube [-1/2, 1/2) is  -D <= 2X < D) is its own
        half-cell image ------------------------------------------------------------------------- *)
Definition in_half_cellb (D : Z) (X2 : list Z) : bool := forallb (fun x => (- D <=? x) && (x <? D)) X2.

(* ---- C30: a transformation file ------------------------------------------------------------- *)
(* start index of every species block in a POSCAR whose blocks have the lengths of the given lists *)
Fixpoint shifts (acc : Z) (ch : list (list Z)) : list Z :=
  match ch with [] => [] | cl :: t => acc :: shifts (acc + zlen cl) t end.
(* map2string: the per-species mapping flattened with the block offsets added *)
Definition flatten_mapping (mapping : list (list Z)) : list Z :=
  concat (map (fun p => map (Z.add (fst p)) (snd p)) (combine (shifts 0 mapping) mapping)).
(* species of every atom line of a POSCAR written from the ordering ch *)
Definition line_species (ch : list (list Z)) : list Z :=
  concat (map (fun p => repeat (fst p) (length (snd p))) (enumerate ch)).
Definition site_image (idx : list Z) (i : Z) : Z := nth (Z.to_nat i) idx 0.
(* trans.pl: output line k is g applied to input line flat[k], the header (species counts) is copied.
   The state's POSCAR lists the sites concat (chemorder A), the endpoint's lists concat (chemorder B). *)
Definition transfileb (idx flat : list Z) (A B : sc) : bool :=
  zlist_eqb (map zlen (chemorder A)) (map zlen (chemorder B)) &&
  forallb (fun f => (0 <=? f) && (f <? zlen (concat (chemorder A)))) flat &&
  zlist_eqb (map (fun f => nth (Z.to_nat f) (line_species (chemorder A)) (-1)) flat) (line_species (chemorder B)) &&
  zlist_eqb (concat (chemorder B)) (map (fun f => site_image idx (nth (Z.to_nat f) (concat (chemorder A)) 0)) flat).

(* every Makefile prerequisite is a member of the archive or a file the relaxation produces *)
Definition depsb (deps files : list (list Z)) : bool := forallb (fun d => str_mem d files) deps.
