(* C14: the caching structure of VacancyMediated.Lij as a state machine over a heap of array cells.

   An "array" is one heap cell holding a value of an abstract type V.  The numerics are Section
   functions:  comp_cache cfg ckey  = the arrays computed from the bare-vacancy part of the input and
   stored in the cache (slots 0 GFvalues, 1 Lvvvalues, 2 etavvalues);  comp_result cfg k contents = the
   returned arrays (0 L0vv, 1 Lss, 2 Lsv, 3 L1vv) computed from the input and the CURRENT contents of the
   cached cells.  What the model is about is WHICH cells the caller gets to hold: for every returned
   array a mode  Fresh (a new cell) | Alias slot (the cached cell itself).  The modes are parameters;
   harness/c14.py derives them from the current source (ast alias analysis of Lij) on every run.
   Operations of a history:
     Lij k | Mutate call i v (caller overwrites the i-th array returned by the call-th Lij) |
     Clearcache | Reconfig c (generate(N) / GFcalculator(NGFmax): clears the cache iff c differs) |
   and for every cached slot whether a miss stores a newly allocated array or the callee's single reused buffer;
     SaveLoad (HDF5 round trip: cached arrays are re-read into new cells; the caller's arrays stay) *)
From Coq Require Import List Arith Bool Lia.
Import ListNotations.

Inductive mode := Fresh | Alias (slot : nat).

Section Cache.
Variable V : Type.
Variable dV : V.
Variables key ckey cfg : Type.
Variable ck : key -> ckey.
Variable ckeqb : ckey -> ckey -> bool.
Variable cfgeqb : cfg -> cfg -> bool.
Variable comp_cache : cfg -> ckey -> list V.
Variable comp_result : cfg -> key -> list V -> list V.
Variable rmode : list mode.          (* one mode per returned array *)
Variable smode : list bool.          (* one flag per cached slot: true = the callee (GF calculator) hands out ONE
                                        reused buffer, so the cache entries of all keys are the same cell *)

(* bufs: the callee's reused buffer of each slot, once it exists *)
Record state := mkSt { heap : list V; cache : list (ckey * list nat); conf : cfg; held : list (list nat);
                       bufs : list (option nat) }.

Inductive op := Lij (k : key) | Mutate (call i : nat) (v : V) | Clearcache | Reconfig (c : cfg) | SaveLoad.

Definition init (c : cfg) : state := mkSt [] [] c [] [].

Definition read (h : list V) (cells : list nat) : list V := map (fun c => nth c h dV) cells.

Definition upd (h : list V) (r : nat) (v : V) : list V :=
  map (fun i => if Nat.eqb i r then v else nth i h dV) (seq 0 (length h)).

Fixpoint lookup (c : ckey) (l : list (ckey * list nat)) : option (list nat) :=
  match l with
  | [] => None
  | (c', cells) :: l' => if ckeqb c' c then Some cells else lookup c l'
  end.

(* new cells at the end of the heap *)
Definition alloc (h : list V) (vs : list V) : list V * list nat := (h ++ vs, seq (length h) (length vs)).

(* the cells in which a miss stores the freshly computed arrays: a new cell, or the callee's reused buffer
   (overwritten in place) *)
Fixpoint store (sm : list bool) (bf : list (option nat)) (vs : list V) (h : list V)
  : list V * list nat * list (option nat) :=
  match vs with
  | [] => (h, [], [])
  | v :: vs' =>
    match hd false sm, hd None bf with
    | true, Some c => let '(h', cells, b') := store (tl sm) (tl bf) vs' (upd h c v) in (h', c :: cells, Some c :: b')
    | true, None => let '(h', cells, b') := store (tl sm) (tl bf) vs' (h ++ [v]) in (h', length h :: cells, Some (length h) :: b')
    | false, b => let '(h', cells, b') := store (tl sm) (tl bf) vs' (h ++ [v]) in (h', length h :: cells, b :: b')
    end
  end.

(* the references handed to the caller for result `res` computed from cached cells `cells` *)
Fixpoint build (rm : list mode) (i : nat) (res : list V) (cells : list nat) (h : list V) : list V * list nat :=
  match rm with
  | [] => (h, [])
  | Alias sl :: rm' => let '(h', refs) := build rm' (S i) res cells h in (h', nth sl cells 0 :: refs)
  | Fresh :: rm' => let '(h', refs) := build rm' (S i) res cells (h ++ [nth i res dV]) in (h', length h :: refs)
  end.

Definition step_lij (s : state) (k : key) : state * list V :=
  let c := ck k in
  let '(h1, cache1, cells, bufs1) :=
    match lookup c (cache s) with
    | Some cells => (heap s, cache s, cells, bufs s)
    | None => let '(h', cells, b') := store smode (bufs s) (comp_cache (conf s) c) (heap s) in
              (h', (c, cells) :: cache s, cells, b')
    end in
  let res := comp_result (conf s) k (read h1 cells) in
  let '(h2, refs) := build rmode 0 res cells h1 in
  (mkSt h2 cache1 (conf s) (held s ++ [refs]) bufs1, read h2 refs).

(* HDF5 round trip: every cached array is written and read back into a new cell *)
Fixpoint reload (h : list V) (l : list (ckey * list nat)) : list V * list (ckey * list nat) :=
  match l with
  | [] => (h, [])
  | (c, cells) :: l' =>
    let '(h1, cells') := alloc h (read h cells) in
    let '(h2, l'') := reload h1 l' in (h2, (c, cells') :: l'')
  end.

Definition step (s : state) (o : op) : state * option (cfg * key * list V) :=
  match o with
  | Lij k => let '(s', obs) := step_lij s k in (s', Some (conf s, k, obs))
  | Mutate call i v =>
    let refs := nth call (held s) [] in
    if Nat.ltb i (length refs)
    then (mkSt (upd (heap s) (nth i refs 0) v) (cache s) (conf s) (held s) (bufs s), None)
    else (s, None)
  | Clearcache => (mkSt (heap s) [] (conf s) (held s) (bufs s), None)
  | Reconfig c => if cfgeqb c (conf s) then (s, None) else (mkSt (heap s) [] c (held s) (bufs s), None)
  | SaveLoad => let '(h', c') := reload (heap s) (cache s) in (mkSt h' c' (conf s) (held s) [], None)   (* a loaded GF calculator has no buffer yet *)
  end.

(* the observations (configuration, input, returned values) of all Lij calls of a history *)
Fixpoint run (s : state) (ops : list op) : list (cfg * key * list V) :=
  match ops with
  | [] => []
  | o :: ops' =>
    let '(s', ob) := step s o in
    match ob with Some x => x :: run s' ops' | None => run s' ops' end
  end.

(* what a fresh calculator returns *)
Definition pure (c : cfg) (k : key) : list V :=
  map (fun j => nth j (comp_result c k (comp_cache c (ck k))) dV) (seq 0 (length rmode)).

Definition all_fresh : bool := forallb (fun m => match m with Fresh => true | Alias _ => false end) rmode.
Definition stores_fresh : bool := forallb negb smode.

End Cache.

Arguments mkSt {V ckey cfg} _ _ _ _ _.
Arguments Lij {V key cfg} _. Arguments Mutate {V key cfg} _ _ _. Arguments Clearcache {V key cfg}.
Arguments Reconfig {V key cfg} _. Arguments SaveLoad {V key cfg}.
