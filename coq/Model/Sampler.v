(* Reference Monte Carlo sampler  onsager/cluster.py : MonteCarloSampler
   (start, E, transitions, deltaE_trial, update), written as the code is written.

   Static data (built once by __init__ from supercell.clusterevaluator / jumpnetworkevaluator):
     siteinteract   row i = self.siteinteract[i][:self.Ninteract[i]]   (interaction ids touching site i,
                    WITH multiplicity: a cluster that wraps onto the same site twice lists its id twice)
     interactvalue  values over an arbitrary commutative ring K (floats in the code; rounding not modelled)
     Nenergy        interactions 0..Nenergy-1 are energy terms, the rest belong to jump barriers
     vacancy        site index of the vacancy, or -1
     jumps          None, or the list of (i, j) site pairs (the displacement is jump_dx[n], carried by position)
     interactrange  barrier n sums interactions interactrange[n-1] .. interactrange[n]-1, Python index -1 = last
   Mutable state: occ (entries 1 occupied, 0 unoccupied, -1 the vacancy), clustercount, and the two Python
   sets occupied_set / unoccupied_set, modelled as duplicate-free lists (add = insert if absent,
   remove = KeyError if absent).  Every Python exception is the result None.
   Definitions only; proofs are in Proofs/Sampler_proofs.v.                                              *)
From Coq Require Import List ZArith Bool Arith Lia.
From Onsager Require Import Base.OrdRing.
Import ListNotations.
Local Open Scope Z_scope.

(* ---------------------------------------------------------------- array helpers (ring independent) -- *)
Fixpoint upd {A : Type} (l : list A) (k : nat) (x : A) : list A :=
  match l, k with
  | [], _ => []
  | _ :: l', O => x :: l'
  | a :: l', S k' => a :: upd l' k' x
  end.

(* clustercount[m] += d *)
Definition bump (d : Z) (cc : list Z) (m : nat) : list Z := upd cc m (nth m cc 0 + d).
(* for m in row: clustercount[m] += d *)
Definition bump_all (d : Z) (cc : list Z) (row : list nat) : list Z := fold_left (bump d) row cc.

Definition memb (i : nat) (s : list nat) : bool := existsb (Nat.eqb i) s.
Definition set_add (i : nat) (s : list nat) : list nat := if memb i s then s else s ++ [i].
Fixpoint set_remove (i : nat) (s : list nat) : option (list nat) :=     (* None = KeyError *)
  match s with
  | [] => None
  | a :: s' => if Nat.eqb i a then Some s' else option_map (cons a) (set_remove i s')
  end.

(* Python dict  inter -> count  used by deltaE_trial, insertion ordered *)
Fixpoint dadd (d : list (nat * Z)) (m : nat) (x : Z) : list (nat * Z) :=
  match d with
  | [] => [(m, x)]
  | (k, c) :: r => if Nat.eqb k m then (k, c + x) :: r else (k, c) :: dadd r m x
  end.
Definition dadd_all (x : Z) (d : list (nat * Z)) (row : list nat) : list (nat * Z) :=
  fold_left (fun d m => dadd d m x) row d.

(* interactrange[n-1] with Python's negative index for n = 0 *)
Definition range_lo (ir : list nat) (n : nat) : nat :=
  match n with O => last ir O | S k => nth k ir O end.

Record mcstate := mkState { occ : list Z; cc : list Z; oset : list nat; uset : list nat }.

(* histories: start may be called at any time; update needs a started sampler *)
Inductive op := OStart (o : list Z) | OUpdate (a b : list nat).

Section Sampler.
Variable K : ordring.

Record static := mkStatic {
  siteinteract : list (list nat);
  interactvalue : list K;
  Nenergy : nat;
  vacancy : Z;
  jumps : option (list (nat * nat));
  interactrange : list nat
}.

Variable sd : static.

Definition Nsites : nat := length (siteinteract sd).
Definition Nint : nat := length (interactvalue sd).
Definition row (i : nat) : list nat := nth i (siteinteract sd) [].
Definition val (m : nat) : K := nth m (interactvalue sd) (r0 K).
Definition is_vac (i : nat) : bool := Z.of_nat i =? vacancy sd.

(* ---- start(occ) ------------------------------------------------------------------------------------- *)
(* for i, occ_i, interact, Ninteract in zip(count(), occ, siteinteract, Ninteract): ... *)
Fixpoint start_loop (i : nat) (rows : list (Z * list nat)) (c : list Z) (ol ul : list nat)
  : option (list Z * list nat * list nat) :=
  match rows with
  | [] => Some (c, ol, ul)
  | (o, r) :: rest =>
      if o =? 0 then start_loop (S i) rest (bump_all 1 c r) ol (ul ++ [i])
      else if o =? 1 then start_loop (S i) rest c (ol ++ [i]) ul
      else if is_vac i then start_loop (S i) rest c ol ul
      else None                                   (* RuntimeError: vacancy occupancy at a wrong site *)
  end.

Definition start (o : list Z) : option mcstate :=
  if (0 <=? vacancy sd) && negb (nth (Z.to_nat (vacancy sd)) o 0 =? -1) then None   (* RuntimeWarning *)
  else if negb (Nat.eqb (length o) Nsites) then None     (* domain: one entry per site *)
  else match start_loop O (combine o (siteinteract sd)) (repeat 0%Z Nint) [] [] with
       | Some (c, ol, ul) => Some (mkState o c ol ul)     (* set(occ_list), set(unocc_list) *)
       | None => None
       end.

(* ---- E() ------------------------------------------------------------------------------------------ *)
Definition E (st : mcstate) : K :=
  sumf (fun cv : Z * K => if fst cv =? 0 then snd cv else r0 K)
       (combine (firstn (Nenergy sd) (cc st)) (firstn (Nenergy sd) (interactvalue sd))).

(* ---- update(occsites, unoccsites) ----------------------------------------------------------------- *)
Definition occupy (s : option mcstate) (i : nat) : option mcstate :=
  match s with
  | None => None
  | Some st =>
      if Nat.leb (length (occ st)) i then None            (* IndexError *)
      else if nth i (occ st) 2 =? 0 then
        match set_remove i (uset st) with
        | None => None                                     (* KeyError *)
        | Some u' => Some (mkState (upd (occ st) i 1) (bump_all (-1) (cc st) (row i)) (set_add i (oset st)) u')
        end
      else Some st
  end.

Definition unoccupy (s : option mcstate) (i : nat) : option mcstate :=
  match s with
  | None => None
  | Some st =>
      if Nat.leb (length (occ st)) i then None
      else if nth i (occ st) 2 =? 1 then
        match set_remove i (oset st) with
        | None => None
        | Some o' => Some (mkState (upd (occ st) i 0) (bump_all 1 (cc st) (row i)) o' (set_add i (uset st)))
        end
      else Some st
  end.

Definition vac_in (l : list nat) : bool := existsb is_vac l.

Definition update (st : mcstate) (a b : list nat) : option mcstate :=
  if vac_in a || vac_in b then None                        (* ValueError, nothing changed *)
  else fold_left unoccupy b (fold_left occupy a (Some st)).

(* ---- deltaE_trial(occsites, unoccsites) ------------------------------------------------------------ *)
Definition trial_occ (st : mcstate) (d : list (nat * Z)) (i : nat) : list (nat * Z) :=
  if nth i (occ st) 2 =? 0 then dadd_all 1 d (row i) else d.
Definition trial_unocc (st : mcstate) (d : list (nat * Z)) (i : nat) : list (nat * Z) :=
  if nth i (occ st) 2 =? 1 then dadd_all (-1) d (row i) else d.

Definition trial_dict (st : mcstate) (a b : list nat) : list (nat * Z) :=
  fold_left (trial_unocc st) b (fold_left (trial_occ st) a []).

(* contribution of one dictionary item *)
Definition trial_term (st : mcstate) (mc : nat * Z) : K :=
  let (m, c) := mc in
  if c =? 0 then r0 K
  else if Nat.leb (Nenergy sd) m then r0 K
  else if nth m (cc st) 0 =? 0 then ropp K (val m)
  else if nth m (cc st) 0 =? c then val m
  else r0 K.

Definition in_range (st : mcstate) (l : list nat) : bool := forallb (fun i => Nat.ltb i (length (occ st))) l.

Definition deltaE_trial (st : mcstate) (a b : list nat) : option K :=
  if vac_in a || vac_in b then None
  else if negb (in_range st a && in_range st b) then None   (* IndexError *)
  else Some (sumf (trial_term st) (trial_dict st a b)).

(* ---- transitions() -------------------------------------------------------------------------------- *)
Definition barrier (c : list Z) (n : nat) : K :=
  let lo := range_lo (interactrange sd) n in
  let hi := nth n (interactrange sd) O in
  sumf (fun m => if nth m c 0%Z =? 0 then val m else r0 K) (seq lo (hi - lo)).

(* result rows: (jump number n, (i, j), barrier); the displacement is jump_dx[n] *)
Fixpoint trans_loop (st : mcstate) (n : nat) (js : list (nat * nat)) : list (nat * (nat * nat) * K) :=
  match js with
  | [] => []
  | (i, j) :: rest =>
      if (vacancy sd <? 0) && ((nth i (occ st) 2 =? 0) || (nth j (occ st) 2 =? 1))
      then trans_loop st (S n) rest
      else (n, (i, j), barrier (cc st) n) :: trans_loop st (S n) rest
  end.

Definition transitions (st : mcstate) : option (list (nat * (nat * nat) * K)) :=
  match jumps sd with
  | None => None                                           (* ValueError: no jump network *)
  | Some js => Some (trans_loop st O js)
  end.

(* ---- specification-level quantities (used by the theorems and by the checker) ---------------------- *)
(* number of unoccupied sites (with multiplicity) in interaction m *)
Fixpoint cnt_rows (rows : list (Z * list nat)) (m : nat) : Z :=
  match rows with
  | [] => 0
  | (o, r) :: rest => (if o =? 0 then Z.of_nat (count_occ Nat.eq_dec r m) else 0) + cnt_rows rest m
  end.
Definition cnt (o : list Z) (m : nat) : Z := cnt_rows (combine o (siteinteract sd)) m.
Definition cnt_list (o : list Z) : list Z := map (cnt o) (seq O Nint).

(* energy of an occupation, from scratch *)
Definition E_of (o : list Z) : K :=
  sumf (fun m => if cnt o m =? 0 then val m else r0 K) (seq O (Nat.min (Nenergy sd) Nint)).

(* histories *)
Definition step (s : option mcstate) (x : op) : option mcstate :=
  match x with
  | OStart o => start o                  (* start may be called at any time, also on a fresh sampler *)
  | OUpdate a b => match s with Some st => update st a b | None => None end
  end.

Definition run (o0 : list Z) (ops : list op) : option mcstate := fold_left step ops (start o0).

End Sampler.

Arguments mkStatic {K} _ _ _ _ _ _.
Arguments siteinteract {K} _. Arguments interactvalue {K} _. Arguments Nenergy {K} _.
Arguments vacancy {K} _. Arguments jumps {K} _. Arguments interactrange {K} _.
