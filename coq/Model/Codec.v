(* C13: the list codecs used by the HDF5 code (crystalStars.py / OnsagerCalc.py), as executable Gallina.
     doublelist2flatlistindex / flatlistindex2doublelist      (list of lists <-> flat list + index array)
     PSlist2array / array2PSlist                               (list of pair states <-> three arrays)
     vTKdict2arrays / arrays2vTKdict                           (dict keyed by 4 arrays <-> key matrix, values, splits)
     index array of a partition (jumplist_invmap, invmap) and its inverse loop (sitelist / stars / jumpnetwork_index
     from an index array: the same bucket loop as flatlistindex2doublelist on the flat list 0..N-1)
   A Python exception (max() of an empty sequence, PSlist[0] of an empty list) is the value None.  Definitions only. *)
From Coq Require Import List Arith Bool Lia.
Import ListNotations.

Section Codec.
Variable A : Type.

(* ---- doublelist2flatlistindex: flatlist += entries ; indexlist += [ind for j in entries] *)
Fixpoint encode_from (k : nat) (ll : list (list A)) : list A * list nat :=
  match ll with
  | [] => ([], [])
  | x :: ll' => let '(f, i) := encode_from (S k) ll' in (x ++ f, repeat k (length x) ++ i)
  end.
Definition encode (ll : list (list A)) : list A * list nat := encode_from 0 ll.

(* ---- flatlistindex2doublelist: Nlist = max(indexarray) + 1 ; listlist[ind].append(entry) in order *)
Definition set_nth (l : list (list A)) (n : nat) (x : list A) : list (list A) :=
  firstn n l ++ match skipn n l with [] => [] | _ :: t => x :: t end.

Definition bucket_loop (init : list (list A)) (pairs : list (A * nat)) : list (list A) :=
  fold_left (fun acc p => set_nth acc (snd p) (nth (snd p) acc [] ++ [fst p])) pairs init.

Definition decode (flat : list A) (idx : list nat) : option (list (list A)) :=
  match idx with
  | [] => None                                           (* max([]) raises ValueError *)
  | _ => Some (bucket_loop (repeat [] (S (list_max idx))) (combine flat idx))
  end.

(* what remains of a list of lists after the round trip: trailing empty lists are lost *)
Fixpoint strip_trailing (ll : list (list A)) : list (list A) :=
  match ll with
  | [] => []
  | x :: ll' =>
    match strip_trailing ll' with
    | [] => match x with [] => [] | _ => [x] end
    | r => x :: r
    end
  end.

(* the exact well-formedness condition of the round trip: non-empty with a non-empty last list *)
Definition wf_ll (ll : list (list A)) : bool :=
  match rev ll with
  | [] => false
  | x :: _ => match x with [] => false | _ => true end
  end.

End Codec.

Arguments encode {A} _. Arguments encode_from {A} _ _. Arguments decode {A} _ _. Arguments strip_trailing {A} _.
Arguments wf_ll {A} _. Arguments bucket_loop {A} _ _. Arguments set_nth {A} _ _ _.

(* ---- the index array of a partition and its inverse (sitelist <-> invmap, stars <-> index,
        jumpnetwork_index <-> jumplist_invmap):   for j, lst in enumerate(ll): for i in lst: inv[i] = j *)
Definition upd_nat (l : list nat) (n v : nat) : list nat :=
  firstn n l ++ match skipn n l with [] => [] | _ :: t => v :: t end.
Fixpoint invmap_from (k : nat) (ll : list (list nat)) (inv : list nat) : list nat :=
  match ll with
  | [] => inv
  | x :: ll' => invmap_from (S k) ll' (fold_left (fun acc i => upd_nat acc i k) x inv)
  end.
Definition invmap_of (n : nat) (ll : list (list nat)) : list nat := invmap_from 0 ll (repeat 0 n).
(* the load loops: buckets of 0..N-1 by the index array *)
Definition lists_of_index (idx : list nat) : option (list (list nat)) := decode (seq 0 (length idx)) idx.

(* ---- PSlist2array / array2PSlist *)
Section PS.
Variables I R X : Type.     (* (i,j) row, R row, dx row *)
Record psrow := mkRow { r_ij : I; r_R : R; r_dx : X }.
Definition ps2arrays (l : list psrow) : option (list I * list R * list X) :=
  match l with
  | [] => None                                           (* PSlist[0] raises IndexError *)
  | _ => Some (map r_ij l, map r_R l, map r_dx l)
  end.
Fixpoint zip3 (a : list I) (b : list R) (c : list X) : list psrow :=
  match a, b, c with
  | x :: a', y :: b', z :: c' => mkRow x y z :: zip3 a' b' c'
  | _, _, _ => []
  end.
Definition arrays2ps (t : list I * list R * list X) : list psrow := let '(a, b, c) := t in zip3 a b c.
End PS.
Arguments mkRow {I R X} _ _ _. Arguments ps2arrays {I R X} _. Arguments arrays2ps {I R X} _.

(* ---- vTKdict2arrays / arrays2vTKdict *)
Section VTK.
Variables K W : Type.        (* numbers of the key, cached value *)
Definition vkey := (list K * list K * list K * list K)%type.
Definition hstack (k : vkey) : list K := let '(a, b, c, d) := k in a ++ b ++ c ++ d.
(* np.cumsum([len(v) for v in example])[:-1] *)
Definition splits_of (k : vkey) : list nat :=
  let '(a, b, c, d) := k in [length a; length a + length b; length a + length b + length c].
Definition dict2arrays (d : list (vkey * W)) : option (list (list K) * list W * list nat) :=
  match d with
  | [] => None                                           (* (None, None, None): nothing is written *)
  | (k0, _) :: _ => Some (map (fun kv => hstack (fst kv)) d, map snd d, splits_of k0)
  end.
(* np.hsplit(row, splits) with three split points *)
Definition hsplit (row : list K) (s : list nat) : vkey :=
  let s0 := nth 0 s 0 in let s1 := nth 1 s 0 in let s2 := nth 2 s 0 in
  (firstn s0 row, firstn (s1 - s0) (skipn s0 row), firstn (s2 - s1) (skipn s1 row), skipn s2 row).
Definition arrays2dict (t : option (list (list K) * list W * list nat)) : list (vkey * W) :=
  match t with
  | None => []
  | Some (rows, vals, s) => combine (map (fun r => hsplit r s) rows) vals
  end.
(* all keys have the field lengths of the first one (what one calculator produces) *)
Definition same_shape (k0 k : vkey) : Prop :=
  let '(a0, b0, c0, d0) := k0 in let '(a, b, c, d) := k in
  length a = length a0 /\ length b = length b0 /\ length c = length c0 /\ length d = length d0.
End VTK.
Arguments hstack {K} _. Arguments splits_of {K} _. Arguments dict2arrays {K W} _. Arguments arrays2dict {K W} _.
Arguments hsplit {K} _ _. Arguments same_shape {K} _ _.

(* ---- YAML of a Cluster: Cluster._asdict writes 'clustersitelist' always and each constructor flag iff it is set; the
   constructor reads absent flags as False.  Keys are coded 0 = clustersitelist, 1 = transition, 2 = vacancy. *)
Definition cluster_asdict_keys (transition vacancy : bool) : list nat :=
  0 :: (if transition then [1] else []) ++ (if vacancy then [2] else []).
Definition cluster_flags_of_keys (ks : list nat) : bool * bool :=
  (existsb (Nat.eqb 1) ks, existsb (Nat.eqb 2) ks).

(* ---- numbered families of HDF5 sub-groups ('T3Djump-0', 'T3Djump-1', ...): the writer creates one entry per list
   member under the name `name i`; the reader must fetch them BY NUMBER.  h5py iterates a group in alphabetical order of
   the names, which for decimal numbers is 0, 1, 10, 11, 2, ... *)
Section Family.
Variables K A : Type.
Variable keqb : K -> K -> bool.
Variable name : nat -> K.
Definition write_family_from (s : nat) (l : list A) : list (K * A) := combine (map name (seq s (length l))) l.
Definition write_family (l : list A) : list (K * A) := write_family_from 0 l.
Fixpoint kassoc (k : K) (g : list (K * A)) : option A :=
  match g with [] => None | (k', v) :: r => if keqb k' k then Some v else kassoc k r end.
Definition read_by_number (g : list (K * A)) (n : nat) : list (option A) := map (fun i => kassoc (name i) g) (seq 0 n).
End Family.
Arguments write_family {K A} _ _. Arguments write_family_from {K A} _ _ _. Arguments kassoc {K A} _ _ _.
Arguments read_by_number {K A} _ _ _ _.

(* decimal digits of a number (most significant first) and the alphabetical order of such names *)
Fixpoint digits_fuel (f n : nat) : list nat :=
  match f with
  | 0 => []
  | S f' => if Nat.ltb n 10 then [n] else digits_fuel f' (Nat.div n 10) ++ [Nat.modulo n 10]
  end.
Definition digits (n : nat) : list nat := digits_fuel (S n) n.
Fixpoint lex_leb (a b : list nat) : bool :=
  match a, b with
  | [], _ => true
  | _ :: _, [] => false
  | x :: a', y :: b' => if Nat.ltb x y then true else if Nat.ltb y x then false else lex_leb a' b'
  end.
Fixpoint lex_insert {A} (p : list nat * A) (l : list (list nat * A)) : list (list nat * A) :=
  match l with
  | [] => [p]
  | q :: r => if lex_leb (fst p) (fst q) then p :: l else q :: lex_insert p r
  end.
(* what iterating the group yields *)
Definition read_alphabetical {A} (g : list (list nat * A)) : list A := map snd (fold_right lex_insert [] g).
