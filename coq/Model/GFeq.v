(* The lattice diffusion equation satisfied by the (symmetrised) lattice Green function -- C10.

   Sites of the infinite crystal are (site index i, cell R in Z^d).  A Green-function value
   G(i, j, dx) of the implementation with dx = lattice.(R + u_j - u_i) is keyed by (i, j, R).
   A jump out of site i is (target site b, cell shift S, symmetrised rate w): it leads from (i, 0)
   to (b, S), so that the separation seen from the new source is keyed (b, j, R - S).
   The equation (the implementation's convention: symmetrised GF scaled by sqrt(rho)):

        sum_{(b,S,w) out of i}  w * G(b, j, R - S)  -  esc_i * G(i, j, R)  =  [i = j /\ R = 0]

   `resid` evaluates the left minus the right side EXACTLY from a finite table of values (the
   implementation's doubles as rationals, scaled to integers); None when a needed value is missing.
   Definitions only; proofs in Proofs/GFeq_proofs.v. *)
From Coq Require Import List Arith Bool ZArith.
From Onsager Require Import Base.OrdRing Model.Net Model.Harmonic.
Import ListNotations.

Section GFeq.
Variable K : ordring.
Notation "0" := (r0 K). Notation "1" := (r1 K).
Infix "+" := (radd K). Infix "*" := (rmul K). Infix "-" := (rsub K).

Definition cell := list Z.

Fixpoint cell_eqb (a b : cell) : bool :=
  match a, b with
  | [], [] => true
  | x :: a', y :: b' => Z.eqb x y && cell_eqb a' b'
  | _, _ => false
  end.

Fixpoint cell_sub (a b : cell) : cell :=
  match a, b with
  | x :: a', y :: b' => (x - y)%Z :: cell_sub a' b'
  | _, _ => []
  end.

Definition cell_zero (a : cell) : bool := forallb (fun x => Z.eqb x 0%Z) a.

Record gval := mkG { gi : nat; gj : nat; gR : cell; gv : K }.
Record jmp := mkJ { jto : nat; jS : cell; jw : K }.

Definition key_eqb (i j : nat) (R : cell) (g : gval) : bool :=
  Nat.eqb i (gi g) && Nat.eqb j (gj g) && cell_eqb R (gR g).

Definition lookup (tab : list gval) (i j : nat) (R : cell) : option K :=
  match find (key_eqb i j R) tab with Some g => Some (gv g) | None => None end.

(* sum over the jumps out of the source site, with missing-value propagation *)
Fixpoint hop_sum (tab : list gval) (jumps : list jmp) (j : nat) (R : cell) : option K :=
  match jumps with
  | [] => Some 0
  | h :: rest =>
      match lookup tab (jto h) j (cell_sub R (jS h)), hop_sum tab rest j R with
      | Some v, Some s => Some (jw h * v + s)
      | _, _ => None
      end
  end.

Definition delta (i j : nat) (R : cell) (one : K) : K := if Nat.eqb i j && cell_zero R then one else 0.

(* `one` is the scaled unit (the harness scales rates and values to integers) *)
Definition resid (tab : list gval) (jumps : list jmp) (esc one : K) (i j : nat) (R : cell) : option K :=
  match hop_sum tab jumps j R, lookup tab i j R with
  | Some s, Some g => Some (s - esc * g - delta i j R one)
  | _, _ => None
  end.

(* the same operator applied to a total function *)
Definition hop_sum_fun (G : nat -> nat -> cell -> K) (jumps : list jmp) (j : nat) (R : cell) : K :=
  sumf (fun h => jw h * G (jto h) j (cell_sub R (jS h))) jumps.

Definition lattice_resid (G : nat -> nat -> cell -> K) (jumps : list jmp) (esc one : K) (i j : nat) (R : cell) : K :=
  hop_sum_fun G jumps j R - esc * G i j R - delta i j R one.

(* the table holds values of G *)
Definition agrees (tab : list gval) (G : nat -> nat -> cell -> K) : Prop :=
  forall g, In g tab -> gv g = G (gi g) (gj g) (gR g).

(* ---- checker run on the implementation's values ---------------------------------------- *)
Definition within (tol x : K) : bool := rleb K x tol && rleb K (rsub K 0 x) tol.

Record eqn := mkEqn { q_i : nat; q_j : nat; q_R : cell; q_jumps : list jmp; q_esc : K }.

(* number of equations whose residual is missing or exceeds tol (0 = all hold) *)
Definition count_bad (tab : list gval) (one tol : K) (eqs : list eqn) : nat :=
  length (filter (fun q => match resid tab (q_jumps q) (q_esc q) one (q_i q) (q_j q) (q_R q) with
                           | Some r => negb (within tol r) | None => true end) eqs).

(* pairs that must agree within tol (swap symmetry, space-group images, lambda * G_lambda vs G) *)
Definition count_far (tol : K) (pairs : list (K * K)) : nat :=
  length (filter (fun p => negb (within tol (fst p - snd p))) pairs).

End GFeq.

Arguments mkG {K} _ _ _ _. Arguments gi {K} _. Arguments gj {K} _. Arguments gR {K} _. Arguments gv {K} _.
Arguments mkJ {K} _ _ _. Arguments jto {K} _. Arguments jS {K} _. Arguments jw {K} _.
Arguments lookup {K} _ _ _ _. Arguments hop_sum {K} _ _ _ _. Arguments delta {K} _ _ _ _.
Arguments resid {K} _ _ _ _ _ _ _. Arguments hop_sum_fun {K} _ _ _ _. Arguments lattice_resid {K} _ _ _ _ _ _ _.
Arguments agrees {K} _ _. Arguments within {K} _ _. Arguments mkEqn {K} _ _ _ _ _.
Arguments q_i {K} _. Arguments q_j {K} _. Arguments q_R {K} _. Arguments q_jumps {K} _. Arguments q_esc {K} _.
Arguments count_bad {K} _ _ _ _. Arguments count_far {K} _ _.
