(* Linear maps on displacement components and relabelling of states: the transformation of a
   network under a space-group operation / a change of crystal description (C03, C09). *)
From Coq Require Import List Arith Bool.
From Onsager Require Import Base.OrdRing Model.Net Model.Interstitial.
Import ListNotations.

Section Maps.
Variable K : ordring.

(* linear combination  sum_{l<dim} coef_l * f_l a *)
Definition lin {A : Type} (dim : nat) (coef : list K) (f : nat -> A -> K) (a : A) : K :=
  sumf (fun l => rmul K (nth l coef (r0 K)) (f l a)) (seq 0 dim).

Definition dotn (dim : nat) (row v : list K) : K :=
  sumf (fun l => rmul K (nth l row (r0 K)) (nth l v (r0 K))) (seq 0 dim).

Definition matvec (dim : nat) (Rm : list (list K)) (v : list K) : list K :=
  map (fun k => dotn dim (nth k Rm []) v) (seq 0 dim).

(* image of an edge: states relabelled by p, displacement components mixed by the matrix Rm *)
Definition map_edge (dim : nat) (Rm : list (list K)) (p : nat -> nat) (e : edge K) : edge K :=
  mkEdge (p (src e)) (p (dst e)) (cond e) (matvec dim Rm (dsp e)).

Definition map_net (dim : nat) (Rm : list (list K)) (p : nat -> nat) (N : net K) : net K :=
  map (map_edge dim Rm p) N.

(* transformed tensor  (Rm L Rm^T)_{kl} *)
Definition conj_tensor (dim : nat) (Rm : list (list K)) (L : nat -> nat -> K) (k l : nat) : K :=
  sumf (fun a => sumf (fun b => rmul K (rmul K (nth a (nth k Rm []) (r0 K)) (nth b (nth l Rm []) (r0 K))) (L a b))
                      (seq 0 dim)) (seq 0 dim).

(* boolean equality of edges and multiset equality of networks *)
Definition edge_eqb (e e' : edge K) : bool :=
  Nat.eqb (src e) (src e') && Nat.eqb (dst e) (dst e') && reqb K (cond e) (cond e') &&
  list_eqb K (dsp e) (dsp e').

Definition countb (e : edge K) (N : net K) : nat := length (filter (edge_eqb e) N).

Definition permb (N N' : net K) : bool :=
  forallb (fun e => Nat.eqb (countb e N) (countb e N')) (N ++ N').

(* the operation (Rm, p) maps the network onto itself *)
Definition isob (dim : nat) (Rm : list (list K)) (p : nat -> nat) (N : net K) : bool :=
  permb (map_net dim Rm p N) N.

(* permutation of states given as a list (default: identity outside) and a checked inverse *)
Definition permfun (l : list nat) (x : nat) : nat := nth x l x.
Definition inverseb (n : nat) (p q : list nat) : bool :=
  forallb (fun x => Nat.eqb (permfun q (permfun p x)) x) (seq 0 n).

End Maps.

Arguments lin {K A} _ _ _ _. Arguments dotn {K} _ _ _. Arguments matvec {K} _ _ _.
Arguments edge_eqb {K} _ _. Arguments countb {K} _ _. Arguments permb {K} _ _. Arguments isob {K} _ _ _ _.
Arguments map_edge {K} _ _ _ _. Arguments map_net {K} _ _ _ _. Arguments conj_tensor {K} _ _ _ _ _.
