(* Exact lattice-coordinate geometry in at most three dimensions (DESIGN.md 2.1 / 3.2).

   Vectors are integer triples; a metric is a symmetric integer matrix (the rational
   metric  g = A^T A  of the crystal scaled by a common denominator); a 2-D crystal
   is embedded with third coordinate 0, g33 = scale, g13 = g23 = 0.
   Everything here is executable; proofs are in Proofs/Geom3_proofs.v.
   Used by Jumps.v (C21), KMesh.v (C22: the same forms with the reciprocal metric)
   and Sites.v (C20). *)
From Coq Require Import ZArith List Bool.
Import ListNotations.
Local Open Scope Z_scope.

Definition V3 := (Z * Z * Z)%type.
Definition M3 := (V3 * V3 * V3)%type.       (* three ROWS *)

Definition vx (v : V3) : Z := fst (fst v).
Definition vy (v : V3) : Z := snd (fst v).
Definition vz (v : V3) : Z := snd v.

Definition vadd (a b : V3) : V3 := (vx a + vx b, vy a + vy b, vz a + vz b).
Definition vsub (a b : V3) : V3 := (vx a - vx b, vy a - vy b, vz a - vz b).
Definition vneg (a : V3) : V3 := (- vx a, - vy a, - vz a).
Definition vscale (c : Z) (a : V3) : V3 := (c * vx a, c * vy a, c * vz a).
Definition vzero : V3 := (0, 0, 0).

Definition veqb (a b : V3) : bool := (vx a =? vx b) && (vy a =? vy b) && (vz a =? vz b).

Definition dot3 (a b : V3) : Z := vx a * vx b + vy a * vy b + vz a * vz b.

Definition row1 (m : M3) : V3 := fst (fst m).
Definition row2 (m : M3) : V3 := snd (fst m).
Definition row3 (m : M3) : V3 := snd m.

Definition mulmv (m : M3) (v : V3) : V3 := (dot3 (row1 m) v, dot3 (row2 m) v, dot3 (row3 m) v).

(* symmetric metric *)
Record metric := mkMetric { g11 : Z; g22 : Z; g33 : Z; g23 : Z; g13 : Z; g12 : Z }.

Definition metric_eqb (a b : metric) : bool :=
  (g11 a =? g11 b) && (g22 a =? g22 b) && (g33 a =? g33 b) &&
  (g23 a =? g23 b) && (g13 a =? g13 b) && (g12 a =? g12 b).

(* G v *)
Definition gmul (G : metric) (v : V3) : V3 :=
  (g11 G * vx v + g12 G * vy v + g13 G * vz v,
   g12 G * vx v + g22 G * vy v + g23 G * vz v,
   g13 G * vx v + g23 G * vy v + g33 G * vz v).

(* bilinear and quadratic forms *)
Definition bil (G : metric) (v w : V3) : Z := dot3 v (gmul G w).
Definition qf (G : metric) (v : V3) : Z := bil G v v.

(* S^T G S  (the metric seen after the lattice-coordinate map S) *)
Definition col (m : M3) (k : nat) : V3 :=
  match k with
  | O => (vx (row1 m), vx (row2 m), vx (row3 m))
  | S O => (vy (row1 m), vy (row2 m), vy (row3 m))
  | _ => (vz (row1 m), vz (row2 m), vz (row3 m))
  end.

Definition congr (S : M3) (G : metric) : metric :=
  mkMetric (bil G (col S 0) (col S 0)) (bil G (col S 1) (col S 1)) (bil G (col S 2) (col S 2))
           (bil G (col S 1) (col S 2)) (bil G (col S 0) (col S 2)) (bil G (col S 0) (col S 1)).

Definition isometryb (S : M3) (G : metric) : bool := metric_eqb (congr S G) G.

(* leading principal minors / adjugate diagonal / determinant *)
Definition adj11 (G : metric) : Z := g22 G * g33 G - g23 G * g23 G.
Definition adj22 (G : metric) : Z := g11 G * g33 G - g13 G * g13 G.
Definition adj33 (G : metric) : Z := g11 G * g22 G - g12 G * g12 G.
Definition adj12 (G : metric) : Z := g13 G * g23 G - g12 G * g33 G.
Definition adj13 (G : metric) : Z := g12 G * g23 G - g13 G * g22 G.
Definition adj23 (G : metric) : Z := g12 G * g13 G - g11 G * g23 G.
Definition det3 (G : metric) : Z := g11 G * adj11 G + g12 G * adj12 G + g13 G * adj13 G.

(* Sylvester's criterion (decidable): positive definite *)
Definition posdefb (G : metric) : bool := (0 <? g11 G) && (0 <? adj33 G) && (0 <? det3 G).

(* ---- boxes of lattice vectors ------------------------------------------------------ *)
Definition zrange (n : Z) : list Z := map (fun k => Z.of_nat k - n) (seq 0 (Z.to_nat (2 * n + 1))).

Definition box (nmax : V3) : list V3 :=
  list_prod (list_prod (zrange (vx nmax)) (zrange (vy nmax))) (zrange (vz nmax)).

Definition inboxb (nmax v : V3) : bool :=
  (Z.abs (vx v) <=? vx nmax) && (Z.abs (vy v) <=? vy nmax) && (Z.abs (vz v) <=? vz nmax).

(* ---- range certificate -------------------------------------------------------------
   Every integer vector  v = D*R + dp  with  |dp_k| <= spread_k  and  qf G v < c2  has
   |R_k| <= nmax_k, provided for each k
        m_k := D*(nmax_k+1) - spread_k >= 0   and   adj_kk * c2 <= det * m_k^2
   (Cauchy-Schwarz in the metric G: det * v_k^2 <= adj_kk * qf G v).                    *)
Definition range1b (D adj det c2 nmax spread : Z) : bool :=
  let m := D * (nmax + 1) - spread in
  (0 <=? m) && (adj * c2 <=? det * (m * m)).

Definition range_okb (G : metric) (D c2 : Z) (nmax spread : V3) : bool :=
  (0 <? D) && (0 <=? vx nmax) && (0 <=? vy nmax) && (0 <=? vz nmax) &&
  range1b D (adj11 G) (det3 G) c2 (vx nmax) (vx spread) &&
  range1b D (adj22 G) (det3 G) c2 (vy nmax) (vy spread) &&
  range1b D (adj33 G) (det3 G) c2 (vz nmax) (vz spread).

Definition spread_okb (spread dp : V3) : bool :=
  (Z.abs (vx dp) <=? vx spread) && (Z.abs (vy dp) <=? vy spread) && (Z.abs (vz dp) <=? vz spread).
