(* Directed reversible networks, out-flux form of Kirchhoff's law, and fibred (lumpable) networks.
   Used for the tracer identities (C06: the pair chain fibres over the bare vacancy network) and for
   non-primitive descriptions of a crystal (C09: the supercell network fibres over the primitive one). *)
From Coq Require Import List Arith Bool.
From Onsager Require Import Base.OrdRing Model.Net Model.Interstitial Model.NetMaps.
Import ListNotations.

Section Lump.
Variable K : ordring.

Definition rev (e : edge K) : edge K := mkEdge (dst e) (src e) (cond e) (map (ropp K) (dsp e)).

(* net closed under reversal as a multiset (boolean version: permb) *)
Definition revclosedPb (N : net K) : bool := permb (map rev N) N.

Definition srcb (x : nat) (e : edge K) : bool := Nat.eqb (src e) x.

Definition out (N : net K) (x : nat) : net K := filter (srcb x) N.

(* Kirchhoff in out-flux form: net flux out of every state vanishes *)
Definition outflux (N : net K) (d : edge K -> K) (g : nat -> K) (x : nat) : K :=
  sumf (flux d g) (out N x).

Definition outKCL (N : net K) (n : nat) (d : edge K -> K) (g : nat -> K) : Prop :=
  forall x, x < n -> outflux N d g x = r0 K.

Definition outKCLb (N : net K) (n : nat) (d : edge K -> K) (g : nat -> K) : bool :=
  forallb (fun x => reqb K (outflux N d g x) (r0 K)) (seq 0 n).

(* projection of an edge along a state map; `view` selects the displacement components the base network keeps
   (e.g. skipn dim: forget the solute displacement of a pair-chain edge) *)
Definition proj (p : nat -> nat) (view : list K -> list K) (e : edge K) : edge K :=
  mkEdge (p (src e)) (p (dst e)) (cond e) (view (dsp e)).

(* local fibration: the out-edges of x project bijectively onto the out-edges of p x *)
Definition fibrationb (NX NY : net K) (nX : nat) (p : nat -> nat) (view : list K -> list K) : bool :=
  forallb (fun x => permb (map (proj p view) (out NX x)) (out NY (p x))) (seq 0 nX).

(* every fibre of p over 0..nY-1 has exactly k elements of 0..nX-1 *)
Definition fibre (nX : nat) (p : nat -> nat) (y : nat) : list nat := filter (fun x => Nat.eqb (p x) y) (seq 0 nX).
Definition uniformb (nX nY k : nat) (p : nat -> nat) : bool :=
  forallb (fun x => Nat.ltb (p x) nY) (seq 0 nX) && forallb (fun y => Nat.eqb (length (fibre nX p y)) k) (seq 0 nY).

(* k-fold sum in the ring *)
Fixpoint kmul (k : nat) (a : K) : K := match k with O => r0 K | S k' => radd K a (kmul k' a) end.

End Lump.

Arguments rev {K} _. Arguments revclosedPb {K} _. Arguments out {K} _ _. Arguments outflux {K} _ _ _ _.
Arguments outKCL {K} _ _ _ _. Arguments outKCLb {K} _ _ _ _. Arguments proj {K} _ _ _.
Arguments fibrationb {K} _ _ _ _ _. Arguments kmul {K} _ _. Arguments srcb {K} _ _.

Section TracerCheck.
Variable K : ordring.

(* first `dim` components all zero / equal to minus the next `dim` components *)
Definition ds_zero (dim : nat) (e : edge K) : bool :=
  forallb (fun k => reqb K (comp k e) (r0 K)) (seq 0 dim).
Definition ds_minus_dv (dim : nat) (e : edge K) : bool :=
  forallb (fun k => reqb K (comp k e) (ropp K (comp (dim + k) e))) (seq 0 dim).

(* structural check of a tracer pair chain X = Nsw ++ Nex against the bare vacancy network NY *)
(* solute-site map q: the solute stays on swing edges, solute and vacancy swap sites on exchange edges *)
Definition qstructb (Nsw Nex : net K) (p q : list nat) : bool :=
  forallb (fun e => Nat.eqb (permfun q (src e)) (permfun q (dst e))) Nsw &&
  forallb (fun e => Nat.eqb (permfun q (src e)) (permfun p (dst e)) && Nat.eqb (permfun q (dst e)) (permfun p (src e))) Nex.

Definition tracer_check (dim nX nY kfib : nat) (Nsw Nex NY : net K) (p : list nat) (gam : list (list K)) : bool :=
  let NX := Nsw ++ Nex in
  let pf := permfun p in
  let view := skipn dim (A:=K) in
  wfb NX nX && wfb NY nY && revclosedPb NX && revclosedPb NY &&
  fibrationb NX NY nX pf view && uniformb nX nY kfib pf &&
  forallb (fun l => outKCLb NY nY (comp l) (fld (nth l gam []))) (seq 0 dim) &&
  permb (map (proj pf view) Nex) NY &&
  forallb (ds_zero dim) Nsw && forallb (ds_minus_dv dim) Nex.

End TracerCheck.
Arguments tracer_check {K} _ _ _ _ _ _ _ _ _. Arguments qstructb {K} _ _ _ _.
Arguments ds_zero {K} _ _. Arguments ds_minus_dv {K} _ _.
