(* Solute-vacancy jump networks (C26): the omega1 ("swing": vacancy jumps, solute fixed) and
   omega2 (vacancy-solute exchange) transitions among the kinetic pair states, their brute-force
   enumeration from the definition, and the verified checker that is run on the implementation's
   classification (StarSet.jumpnetwork_omega1/omega2, VacancyMediated.om1_jn/om2_jn).

   A transition is (x, y, dR): indices of the initial/final state in the state list and the
   integer cell part of the vacancy displacement (its Cartesian value is
   lattice.(dR + u[site_final] - u[site_initial]); the harness derives dR from the
   implementation's dx by that formula and checks the float residual).
   Definitions only; proofs in Proofs/OmegaNet_proofs.v. *)
From Coq Require Import List ZArith Bool Arith.
From Onsager Require Import Model.Stars.
Import ListNotations.

Record tr := mkTr { tx : nat; ty : nat; tR : vec }.

Definition tr_eqb (a b : tr) : bool :=
  if Nat.eqb (tx a) (tx b) then if Nat.eqb (ty a) (ty b) then veqb (tR a) (tR b) else false else false.
Definition trev (e : tr) : tr := mkTr (ty e) (tx e) (vopp (tR e)).

Fixpoint mem_tr (e : tr) (l : list tr) : bool :=
  match l with [] => false | a :: l' => if tr_eqb e a then true else mem_tr e l' end.
Fixpoint count_tr (e : tr) (l : list tr) : nat :=
  match l with [] => O | a :: l' => if tr_eqb e a then S (count_tr e l') else count_tr e l' end.

(* ---- the definition, enumerated ---------------------------------------------------------- *)
(* omega1: state x non-zero, a jump j of type t leaving the vacancy's site, x + j = state y
   non-zero and present; kept when x or y satisfies `keep` (the thermodynamic range) *)
Definition om1_list (sts : list ps) (tjumps : list (ps * nat)) (keep : ps -> bool) : list (tr * nat) :=
  flat_map (fun x =>
    let sx := getst sts x in
    if iszero sx then [] else
    flat_map (fun jt =>
      let j := fst jt in
      if Nat.eqb (pj sx) (pi j) then
        let sf := padd sx j in
        if iszero sf then [] else
        match sindex sts sf with
        | Some y => if (if keep sx then true else keep sf) then [(mkTr x y (pR j), snd jt)] else []
        | None => []
        end
      else []) tjumps) (seq 0 (length sts)).

(* omega2: state x non-zero, a jump taking the vacancy onto the solute (x + j = 0); the final
   state is -x (solute and vacancy exchanged).  If -x is missing the transition is still
   listed, with the invalid index |sts|, so that no classification can be accepted *)
Definition om2_list (sts : list ps) (tjumps : list (ps * nat)) : list (tr * nat) :=
  flat_map (fun x =>
    let sx := getst sts x in
    if iszero sx then [] else
    flat_map (fun jt =>
      let j := fst jt in
      if Nat.eqb (pj sx) (pi j) then
        if iszero (padd sx j) then
          [(mkTr x (match sindex sts (pneg sx) with Some y => y | None => length sts end) (pR j), snd jt)]
        else []
      else []) tjumps) (seq 0 (length sts)).

(* ---- symmetry image of a transition -------------------------------------------------------- *)
Definition gtr (sts : list ps) (g : op) (e : tr) : option tr :=
  let sx := getst sts (tx e) in let sy := getst sts (ty e) in
  match sindex sts (gact g sx), sindex sts (gact g sy) with
  | Some x', Some y' => Some (mkTr x' y' (gvec g (pj sx) (pj sy) (tR e)))
  | _, _ => None
  end.

(* ---- checker for a classification ------------------------------------------------------------ *)
Definition towners (classes : list (list tr)) (e : tr) : list nat :=
  filter (fun k => mem_tr e (nth k classes [])) (seq 0 (length classes)).

Definition class_closedb (sts : list ps) (ops : list op) (cl : list tr) : bool :=
  forallb (fun e =>
     (Nat.ltb (tx e) (length sts) && Nat.ltb (ty e) (length sts)) &&
     mem_tr (trev e) cl &&
     forallb (fun g => match gtr sts g e with Some e' => mem_tr e' cl | None => false end) ops) cl.

Definition class_orbitb (sts : list ps) (ops : list op) (cl : list tr) : bool :=
  match cl with
  | [] => false
  | e0 :: _ => forallb (fun e => existsb (fun g =>
       match gtr sts g e0 with Some e' => if tr_eqb e e' then true else tr_eqb e (trev e') | None => false end) ops) cl
  end.

Definition classes_okb (sts : list ps) (ops : list op) (valid : list (tr * nat))
           (classes : list (list tr)) (jtypes : list nat) : bool :=
  Nat.eqb (length jtypes) (length classes) &&
  forallb (fun et => match towners classes (fst et) with
                     | [k] => Nat.eqb (count_tr (fst et) (nth k classes [])) 1 && Nat.eqb (nth k jtypes O) (snd et)
                     | _ => false end) valid &&
  forallb (fun cl => forallb (fun e => existsb (fun et => tr_eqb e (fst et)) valid) cl) classes &&
  forallb (class_closedb sts ops) classes &&
  forallb (class_orbitb sts ops) classes.

(* typed jump list: no two entries with the same jump *)
Fixpoint jumps_nodupb (tj : list (ps * nat)) : bool :=
  match tj with [] => true | a :: l => if mem (fst a) (map fst l) then false else jumps_nodupb l end.

(* ---- correspondence runner --------------------------------------------------------------------
   kinetic states of the implementation `ists` (checked against the model's states (Nth+1, origin
   states on)), its omega1 and omega2 classes with jump types.  prune = true: VacancyMediated
   (only transitions touching the thermodynamic range Nth); false: StarSet.jumpnetwork_omega1.
   0 ok; 1 bad jump list; 2 states differ from the model; 3 omega1 classification; 4 omega2 *)
Definition run_omega (tjumps : list (ps * nat)) (nsites Nkin : nat) (origin prune : bool) (ops : list op)
           (ists : list ps) (c1 : list (list tr)) (t1 : list nat) (c2 : list (list tr)) (t2 : list nat) : nat :=
  let jumps := map fst tjumps in
  if negb (jumps_okb jumps && jumps_nodupb tjumps) then 1%nat
  else if negb (nodupb ists && sameb ists (states jumps nsites Nkin origin)) then 2%nat
  else
    let thermo := states jumps nsites (Nat.pred Nkin) false in
    let keep := if prune then (fun s => mem s thermo) else (fun _ => true) in
    if negb (classes_okb ists ops (om1_list ists tjumps keep) c1 t1) then 3%nat
    else if negb (classes_okb ists ops (om2_list ists tjumps) c2 t2) then 4%nat
    else 0%nat.

(* ---- specification (used by the theorems) ---------------------------------------------------- *)
Definition om1_spec (sts : list ps) (tjumps : list (ps * nat)) (keep : ps -> bool) (e : tr) (t : nat) : Prop :=
  let sx := getst sts (tx e) in let sy := getst sts (ty e) in
  tx e < length sts /\ ty e < length sts /\ iszero sx = false /\ iszero sy = false /\
  (keep sx = true \/ keep sy = true) /\
  exists j, In (j, t) tjumps /\ pj sx = pi j /\ sy = padd sx j /\ tR e = pR j.

Definition om2_spec (sts : list ps) (tjumps : list (ps * nat)) (e : tr) (t : nat) : Prop :=
  let sx := getst sts (tx e) in let sy := getst sts (ty e) in
  tx e < length sts /\ ty e < length sts /\ iszero sx = false /\ sy = pneg sx /\
  exists j, In (j, t) tjumps /\ pj sx = pi j /\ iszero (padd sx j) = true /\ tR e = pR j.

(* what an accepted classification satisfies, relative to a predicate `valid` on transitions *)
Definition classification (sts : list ps) (ops : list op) (valid : tr -> nat -> Prop)
           (classes : list (list tr)) (jtypes : list nat) : Prop :=
  length jtypes = length classes /\
  (forall e t, valid e t -> exists k, k < length classes /\ In e (nth k classes []) /\
       count_tr e (nth k classes []) = 1 /\ nth k jtypes O = t /\
       forall k', k' < length classes -> In e (nth k' classes []) -> k' = k) /\
  (forall k e, k < length classes -> In e (nth k classes []) -> exists t, valid e t) /\
  (forall k e, k < length classes -> In e (nth k classes []) ->
       In (trev e) (nth k classes []) /\
       forall g, In g ops -> exists e', gtr sts g e = Some e' /\ In e' (nth k classes [])) /\
  (forall k, k < length classes -> exists e0, hd_error (nth k classes []) = Some e0 /\
       forall e, In e (nth k classes []) ->
         exists g e', In g ops /\ gtr sts g e0 = Some e' /\ (e = e' \/ e = trev e')).
