(* Thermodynamic inputs -> conductances, over an ordered ring with an abstract exponential
   (Section variable `ex` with the single law used: ex(a+b) = ex a * ex b).
   Site i has weight  pre_i * ex(-E_i) ; a transition state has weight  preT * ex(-ET);
   the conductance of a jump is  wT / Z  with Z = sum of site weights: everything below is stated
   cross-multiplied (division free), i.e. as equality of the conductance RATIOS. *)
From Coq Require Import List.
From Onsager Require Import Base.OrdRing.
Import ListNotations.

Section Thermo.
Variable K : ordring.
Variable ex : K -> K.

Definition weight (pe : K * K) : K := rmul K (fst pe) (ex (ropp K (snd pe))).

(* partition sum over sites given as (prefactor, energy) pairs *)
Definition Zsum (sites : list (K * K)) : K := sumf weight sites.

Definition shift (delta : K) (pe : K * K) : K * K := (fst pe, radd K (snd pe) delta).
Definition prescale (lam : K) (pe : K * K) : K * K := (rmul K lam (fst pe), snd pe).
(* energies multiplied by s while beta is divided by s:  (beta', s*E) with beta' * s = beta *)
Definition betaE (beta : K) (pe : K * K) : K * K := (fst pe, rmul K beta (snd pe)).

End Thermo.
Arguments weight {K} _ _. Arguments Zsum {K} _ _. Arguments shift {K} _ _. Arguments prescale {K} _ _.
Arguments betaE {K} _ _.
