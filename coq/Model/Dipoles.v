(* Populating symmetry-related tensors (C11 b): a finite group G (a list of elements with a
   multiplication) acting additively on a commutative monoid V of tensors.
     avg G x   = sum_{g in G} g.x          (|G| times the symmetric projection -- division free)
   siteDipoles / jumpDipoles: representative tensor = projection onto the invariants of the
   stabiliser S of the representative, every other member = g.T for a g carrying the representative
   to it.  Definitions only; proofs in Proofs/Dipoles_proofs.v. *)
From Coq Require Import List.
Import ListNotations.

Section Action.
Variables (V A : Type) (vadd : V -> V -> V) (v0 : V) (act : A -> V -> V).

Fixpoint vsum (f : A -> V) (l : list A) : V :=
  match l with [] => v0 | a :: l' => vadd (f a) (vsum f l') end.

Definition avg (G : list A) (x : V) : V := vsum (fun g => act g x) G.

Fixpoint ntimes (n : nat) (x : V) : V := match n with O => v0 | S m => vadd x (ntimes m x) end.

Definition invariant (S : list A) (T : V) : Prop := forall h, In h S -> act h T = T.

End Action.

Arguments vsum {V A} _ _ _ _. Arguments avg {V A} _ _ _ _ _. Arguments ntimes {V} _ _ _ _.
Arguments invariant {V A} _ _ _.
