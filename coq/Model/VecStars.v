(* Vector stars (C25).
   (1) Dimension of the space of vectors fixed by a list of integer matrices (the stabiliser of a
       star representative, in lattice coordinates): certificate checker over Z.  3-D; a 2-D
       crystal is embedded with a trivially fixed third axis (dimension + 1).
       Certificate: m fixed vectors (the basis) and 3-m rows of the stacked matrices S - I
       (witnesses that nothing else is fixed), with the non-vanishing minors that make the
       basis free and the witnesses independent.
   (2) Linear-algebra setting of the projection lemma over an arbitrary ordered ring (matrices
       as functions on index ranges); statements in Proofs/VecStars_proofs.v.
   Definitions only. *)
From Coq Require Import List ZArith Bool Arith.
From Onsager Require Import Base.OrdRing Model.Stars.
Import ListNotations.
Local Open Scope Z_scope.

Definition vscale (c : Z) (v : vec) : vec := let '(a, b, d) := v in (c * a, c * b, c * d).
Definition cross (a b : vec) : vec :=
  let '(a1, a2, a3) := a in let '(b1, b2, b3) := b in
  (a2 * b3 - a3 * b2, a3 * b1 - a1 * b3, a1 * b2 - a2 * b1).
Definition det3 (a b c : vec) : Z := vdot a (cross b c).

(* rows of S - I *)
Definition srows (S : mat) : list vec :=
  let '(r1, r2, r3) := S in [vsub r1 (1, 0, 0); vsub r2 (0, 1, 0); vsub r3 (0, 0, 1)].
Definition arows (mats : list mat) : list vec := flat_map srows mats.

Definition fixedb (mats : list mat) (v : vec) : bool := forallb (fun S => veqb (mulmv S v) v) mats.
Fixpoint memv (v : vec) (l : list vec) : bool :=
  match l with [] => false | a :: l' => if veqb v a then true else memv v l' end.

Definition fix_okb (mats : list mat) (m : nat) (basis wit : list vec) : bool :=
  forallb (fixedb mats) basis && forallb (fun w => memv w (arows mats)) wit &&
  match m, basis, wit with
  | 3%nat, [b1; b2; b3], [] => negb (Z.eqb (det3 b1 b2 b3) 0)
  | 2%nat, [b1; b2], [a] => negb (veqb (cross b1 b2) vzero) && negb (veqb a vzero)
  | 1%nat, [b], [a1; a2] => negb (veqb b vzero) && negb (veqb (cross a1 a2) vzero)
  | 0%nat, [], [a1; a2; a3] => negb (Z.eqb (det3 a1 a2 a3) 0)
  | _, _, _ => false
  end.

(* ---- specification ---------------------------------------------------------------------------- *)
Definition fixedv (mats : list mat) (v : vec) : Prop := forall S, In S mats -> mulmv S v = v.

Fixpoint lincomb (cs : list Z) (bs : list vec) : vec :=
  match cs, bs with
  | c :: cs', b :: bs' => vadd (vscale c b) (lincomb cs' bs')
  | _, _ => vzero
  end.

(* the fixed space is the rational span of `basis`, a free family of m fixed integer vectors *)
Definition fixed_space_is (mats : list mat) (m : nat) (basis : list vec) : Prop :=
  length basis = m /\
  (forall b, In b basis -> fixedv mats b) /\
  (forall cs, length cs = m -> lincomb cs basis = vzero -> forall c, In c cs -> c = 0) /\
  (forall v, fixedv mats v -> exists lam cs, lam <> 0 /\ length cs = m /\ vscale lam v = lincomb cs basis).
