(* C31  Cluster enumeration (onsager.cluster.makeclusters and the vacancy / transition-state
   variants) and the Cluster value type (canonical form, equality, hash).

   Geometry is exact: lattice coordinates, integer lattice vectors R, atom positions as integer
   vectors U_n = D * u_n, a rational metric G / sg, squared cutoff r2n / r2d.  Vectors are triples
   of Z; a 2-D crystal is padded (third coordinate 0, metric entry g33 = 1, box half-width 0 in the
   third direction) -- the code's arrays of length `dim`.  Sites of the crystal are numbered
   0..N-1 in the order of Crystal.atomindices (chemistry-major), which is also the order of the
   code's sort key  chem * 2^32 + index.

   A positioned site is (site number, lattice vector); a cluster is a list of positioned sites,
   identified up to order and up to a common translation.

   Part 1: geometry, neighbour lists with the code's search box, clique growth (makeclusters).
   Part 2: range certificate (sum-of-squares) making the search box provably sufficient.
   Part 3: symmetry operations acting on clusters; orbit-partition checker.
   Part 4: vacancy / transition-state variants.
   Part 5: the Cluster value type: __init__ canonical form, __eq__, __hash__ (hash = fold of an
           abstract commutative-associative operation over abstract per-site hashes).
   Definitions only; proofs are in Proofs/Clusters_proofs.v. *)
From Coq Require Import List Arith Bool ZArith Lia Permutation.
Import ListNotations.
Local Open Scope Z_scope.

(* ------------------------------------------------------------------ vectors *)
Definition vec := (Z * Z * Z)%type.
Definition vzero : vec := (0, 0, 0).
Definition vadd (a b : vec) : vec := let '(a0, a1, a2) := a in let '(b0, b1, b2) := b in (a0 + b0, a1 + b1, a2 + b2).
Definition vsub (a b : vec) : vec := let '(a0, a1, a2) := a in let '(b0, b1, b2) := b in (a0 - b0, a1 - b1, a2 - b2).
Definition vneg (a : vec) : vec := let '(a0, a1, a2) := a in (- a0, - a1, - a2).
Definition vscale (k : Z) (a : vec) : vec := let '(a0, a1, a2) := a in (k * a0, k * a1, k * a2).
Definition vdot (a b : vec) : Z := let '(a0, a1, a2) := a in let '(b0, b1, b2) := b in a0 * b0 + a1 * b1 + a2 * b2.
Definition veqb (a b : vec) : bool :=
  let '(a0, a1, a2) := a in let '(b0, b1, b2) := b in Z.eqb a0 b0 && Z.eqb a1 b1 && Z.eqb a2 b2.
(* lexicographic <= *)
Definition vleb (a b : vec) : bool :=
  let '(a0, a1, a2) := a in let '(b0, b1, b2) := b in
  Z.ltb a0 b0 || (Z.eqb a0 b0 && (Z.ltb a1 b1 || (Z.eqb a1 b1 && Z.leb a2 b2))).
Definition vsum (l : list vec) : vec := fold_right vadd vzero l.

Definition mat := (vec * vec * vec)%type.   (* rows *)
Definition mulmv (m : mat) (v : vec) : vec := let '(r0, r1, r2) := m in (vdot r0 v, vdot r1 v, vdot r2 v).

(* ------------------------------------------------------------------ positioned sites, clusters *)
Record psite := mkP { p_site : nat; p_R : vec }.
Definition peqb (p q : psite) : bool := Nat.eqb (p_site p) (p_site q) && veqb (p_R p) (p_R q).
Definition pleb (p q : psite) : bool :=
  Nat.ltb (p_site p) (p_site q) || (Nat.eqb (p_site p) (p_site q) && vleb (p_R p) (p_R q)).
Definition shift (T : vec) (p : psite) : psite := mkP (p_site p) (vadd (p_R p) T).

Definition clus := list psite.

Fixpoint pinsert (p : psite) (l : clus) : clus :=
  match l with [] => [p] | q :: l' => if pleb p q then p :: l else q :: pinsert p l' end.
Fixpoint psort (l : clus) : clus := match l with [] => [] | p :: l' => pinsert p (psort l') end.

(* canonical representative of a cluster modulo order and translation *)
Definition canon (l : clus) : clus :=
  match psort l with [] => [] | h :: t => map (shift (vneg (p_R h))) (h :: t) end.

Fixpoint cl_eqb (a b : clus) : bool :=
  match a, b with [], [] => true | p :: a', q :: b' => peqb p q && cl_eqb a' b' | _, _ => false end.

Definition cl_mem (c : clus) (l : list clus) : bool := existsb (cl_eqb c) l.

Fixpoint dedup (l : list clus) : list clus :=
  match l with [] => [] | c :: l' => if cl_mem c l' then dedup l' else c :: dedup l' end.

Definition memb (x : nat) (l : list nat) : bool := existsb (Nat.eqb x) l.

(* ================================================================== Part 1: geometry, growth *)
(* BoxOld: round(sqrt(r2/metric_ii))+1, makeclusters before the fix b4d0a84 (refuted below);
   BoxNew: ceil(sqrt(r2*invmetric_ii))+1, the current code;  BoxGiven w: explicit half-widths. *)
Inductive boxmode := BoxOld | BoxNew | BoxGiven (w : vec).

Record geom := mkGeom {
  g_dim : nat;                          (* 2 or 3 *)
  g_G : Z * Z * Z * Z * Z * Z;          (* sg * metric: g11 g22 g33 g12 g13 g23 *)
  g_sg : Z;
  g_D : Z;                              (* positions are U / D *)
  g_U : list vec;
  g_chem : list nat;
  g_excl : list nat;                    (* excluded chemistries *)
  g_r2n : Z; g_r2d : Z;                 (* cutoff^2 *)
  g_box : boxmode }.                    (* which neighbour search box *)

Definition quad (G : Z * Z * Z * Z * Z * Z) (v : vec) : Z :=
  let '(g11, g22, g33, g12, g13, g23) := G in let '(x, y, z) := v in
  g11 * x * x + g22 * y * y + g33 * z * z + 2 * g12 * x * y + 2 * g13 * x * z + 2 * g23 * y * z.

Section Geom.
Variable ge : geom.

Definition nsites : nat := length (g_U ge).
Definition Uof (s : nat) : vec := nth s (g_U ge) vzero.
Definition chem_of (s : nat) : nat := nth s (g_chem ge) O.
Definition allowed (s : nat) : bool := Nat.ltb s nsites && negb (memb (chem_of s) (g_excl ge)).
Definition sitelist : list nat := filter allowed (seq O nsites).

(* D * (R + u1 - u0) and its squared length (times sg * D^2) *)
Definition dvec (s0 s1 : nat) (R : vec) : vec := vadd (vscale (g_D ge) R) (vsub (Uof s1) (Uof s0)).
Definition d2 (s0 s1 : nat) (R : vec) : Z := quad (g_G ge) (dvec s0 s1 R).
(* 0 < |dx|^2 < cutoff^2 *)
Definition nbrb (s0 s1 : nat) (R : vec) : bool :=
  Z.ltb 0 (d2 s0 s1 R) && Z.ltb (d2 s0 s1 R * g_r2d ge) (g_r2n ge * g_sg ge * g_D ge * g_D ge).

(* int(np.round(np.sqrt(r2 / metric[i,i]))) + 1  with r2/metric = a/b *)
Definition rsqrt (a b : Z) : Z := (Z.sqrt (4 * a * b) + b) / (2 * b).
Definition nmax_of (gii : Z) : Z := rsqrt (g_r2n ge * g_sg ge) (g_r2d ge * gii) + 1.
(* int(np.ceil(np.sqrt(r2 * invmetric[i,i]))) + 1;  invmetric_ii = sg * adj_ii / det G *)
Definition csqrt (a b : Z) : Z := Z.sqrt_up ((a + b - 1) / b).
Definition adjdiag : Z * Z * Z * Z :=
  let '(g11, g22, g33, g12, g13, g23) := g_G ge in
  if Nat.leb 3 (g_dim ge)
  then (g22 * g33 - g23 * g23, g11 * g33 - g13 * g13, g11 * g22 - g12 * g12,
        g11 * (g22 * g33 - g23 * g23) - g12 * (g12 * g33 - g23 * g13) + g13 * (g12 * g23 - g22 * g13))
  else (g22, g11, 0, g11 * g22 - g12 * g12).
Definition nmax_new (aii det : Z) : Z := csqrt (g_r2n ge * g_sg ge * aii) (g_r2d ge * det) + 1.
Definition nmaxv : vec :=
  let '(g11, g22, g33, _, _, _) := g_G ge in
  let three := Nat.leb 3 (g_dim ge) in
  match g_box ge with
  | BoxOld => (nmax_of g11, nmax_of g22, if three then nmax_of g33 else 0)
  | BoxNew => let '(a1, a2, a3, dt) := adjdiag in
              (nmax_new a1 dt, nmax_new a2 dt, if three then nmax_new a3 dt else 0)
  | BoxGiven (w0, w1, w2) => (w0, w1, if three then w2 else 0)
  end.

Definition in_boxw (w : vec) (R : vec) : bool :=
  let '(n0, n1, n2) := w in let '(x, y, z) := R in
  Z.leb (Z.abs x) n0 && Z.leb (Z.abs y) n1 && Z.leb (Z.abs z) n2.
Definition in_boxb (R : vec) : bool := in_boxw nmaxv R.

Definition zrange (n : Z) : list Z := map (fun k => Z.of_nat k - n) (seq O (Z.to_nat (2 * n + 1))).
(* itertools.product over the nranges *)
Definition boxlistw (w : vec) : list vec :=
  let '(n0, n1, n2) := w in
  flat_map (fun x => flat_map (fun y => map (fun z => (x, y, z)) (zrange n2)) (zrange n1)) (zrange n0).
Definition boxlist : list vec := boxlistw nmaxv.

(* membership test of nndict[s0] and the list itself *)
Definition nnb (s0 : nat) (p : psite) : bool :=
  allowed (p_site p) && in_boxb (p_R p) && nbrb s0 (p_site p) (p_R p).
Definition nn (s0 : nat) : clus :=
  flat_map (fun s1 => map (mkP s1) (filter (nbrb s0 s1) boxlist)) sitelist.

(* one growth step of makeclusters: neighbours of the first site that are neighbours of all *)
Definition extend_ok (cl : clus) (neigh : psite) : bool :=
  negb (existsb (peqb neigh) cl) &&
  forallb (fun c => nnb (p_site neigh) (mkP (p_site c) (vsub (p_R c) (p_R neigh)))) cl.

Definition grow1 (cl : clus) : list clus :=
  match cl with
  | [] => []
  | h :: _ => map (fun neigh => canon (cl ++ [neigh])) (filter (extend_ok cl) (nn (p_site h)))
  end.

Definition grow (prev : list clus) : list clus := dedup (flat_map grow1 prev).

Definition singles : list clus := map (fun s => [mkP s vzero]) sitelist.

(* all clusters of exactly k sites, as canonical representatives *)
Fixpoint enumerate (k : nat) : list clus :=
  match k with
  | O => []
  | S k' => match k' with O => singles | S _ => grow (enumerate k') end
  end.

(* makeclusters(crys, cutoff, maxorder, exclude): orders 1..maxorder *)
Definition makeclusters (maxorder : nat) : list clus := flat_map enumerate (seq 1 maxorder).

(* ---- specification ---- *)
Definition in_dim (R : vec) : Prop := (3 <= g_dim ge)%nat \/ snd R = 0.
Definition nbr (p q : psite) : Prop := nbrb (p_site p) (p_site q) (vsub (p_R q) (p_R p)) = true.
Definition clique (cl : clus) : Prop :=
  NoDup cl /\ (forall p, In p cl -> allowed (p_site p) = true /\ in_dim (p_R p)) /\
  (forall p q, In p cl -> In q cl -> p <> q -> nbr p q).
Definition equiv (a b : clus) : Prop := exists T, Permutation b (map (shift T) a).

(* the search box of the code contains every neighbour vector *)
Definition range_ok : Prop :=
  forall s0 s1 R, allowed s0 = true -> allowed s1 = true -> in_dim R -> nbrb s0 s1 R = true -> in_boxb R = true.

(* ================================================================== Part 2: range certificate *)
(* For coordinate i:  s * quad G x  =  c * x_i^2 + sum_k w_k (l_k . x)^2   (all w_k >= 0, c > 0),
   hence  c * x_i^2 <= s * quad G x.  B bounds |x_i| for every x with quad < cutoff; the box
   half-width must exceed (B + |U1_i - U0_i|) / D. *)
Record rcert := mkCert { rc_s : Z; rc_c : Z; rc_terms : list (Z * vec); rc_B : Z }.

Definition coord (i : nat) (v : vec) : Z := let '(x, y, z) := v in match i with O => x | S O => y | _ => z end.

Definition six_add (a b : Z * Z * Z * Z * Z * Z) : Z * Z * Z * Z * Z * Z :=
  let '(a1, a2, a3, a4, a5, a6) := a in let '(b1, b2, b3, b4, b5, b6) := b in
  (a1 + b1, a2 + b2, a3 + b3, a4 + b4, a5 + b5, a6 + b6).
Definition six_scale (k : Z) (a : Z * Z * Z * Z * Z * Z) : Z * Z * Z * Z * Z * Z :=
  let '(a1, a2, a3, a4, a5, a6) := a in (k * a1, k * a2, k * a3, k * a4, k * a5, k * a6).
Definition six_eqb (a b : Z * Z * Z * Z * Z * Z) : bool :=
  let '(a1, a2, a3, a4, a5, a6) := a in let '(b1, b2, b3, b4, b5, b6) := b in
  Z.eqb a1 b1 && Z.eqb a2 b2 && Z.eqb a3 b3 && Z.eqb a4 b4 && Z.eqb a5 b5 && Z.eqb a6 b6.
(* w (l.x)^2 as a quadratic form *)
Definition sq_form (w : Z) (l : vec) : Z * Z * Z * Z * Z * Z :=
  let '(a, b, c) := l in (w * a * a, w * b * b, w * c * c, w * a * b, w * a * c, w * b * c).
Definition unit_form (i : nat) (c : Z) : Z * Z * Z * Z * Z * Z :=
  match i with O => (c, 0, 0, 0, 0, 0) | S O => (0, c, 0, 0, 0, 0) | _ => (0, 0, c, 0, 0, 0) end.
Definition terms_form (ts : list (Z * vec)) : Z * Z * Z * Z * Z * Z :=
  fold_right (fun t acc => six_add (sq_form (fst t) (snd t)) acc) (0, 0, 0, 0, 0, 0) ts.

Definition rcert_okb (w : vec) (i : nat) (ct : rcert) : bool :=
  Z.ltb 0 (rc_s ct) && Z.ltb 0 (rc_c ct) && Z.leb 0 (rc_B ct) &&
  forallb (fun t => Z.leb 0 (fst t)) (rc_terms ct) &&
  six_eqb (six_scale (rc_s ct) (g_G ge)) (six_add (unit_form i (rc_c ct)) (terms_form (rc_terms ct))) &&
  (* |x_i| >= B+1 is impossible below the cutoff *)
  Z.leb (rc_s ct * (g_r2n ge * g_sg ge * g_D ge * g_D ge)) (rc_c ct * (rc_B ct + 1) * (rc_B ct + 1) * g_r2d ge) &&
  (* box half-width suffices for every pair of sites *)
  forallb (fun s0 => forallb (fun s1 =>
      Z.ltb (rc_B ct + Z.abs (coord i (vsub (Uof s1) (Uof s0)))) (g_D ge * (coord i w + 1)))
    (seq O nsites)) (seq O nsites).

(* every neighbour vector lies in the box of half-widths w *)
Definition certs_okb (w : vec) (certs : list rcert) : bool :=
  Z.ltb 0 (g_D ge) && Z.ltb 0 (g_r2d ge) &&
  rcert_okb w 0 (nth 0 certs (mkCert 0 0 [] 0)) && rcert_okb w 1 (nth 1 certs (mkCert 0 0 [] 0)) &&
  (if Nat.leb 3 (g_dim ge) then rcert_okb w 2 (nth 2 certs (mkCert 0 0 [] 0)) else Z.leb 0 (snd w)).

(* sufficient: the code's own box is certified *)
Definition range_okb (certs : list rcert) : bool := certs_okb nmaxv certs.

(* exact: some box w is certified, and every neighbour vector found in it lies in the code's box *)
Definition range_okb2 (w : vec) (certs : list rcert) : bool :=
  certs_okb w certs &&
  forallb (fun s0 => forallb (fun s1 => forallb (fun R => negb (nbrb s0 s1 R) || in_boxb R) (boxlistw w))
                             (seq O nsites)) (seq O nsites).

(* ================================================================== Part 3: symmetry, orbits *)
(* a space-group operation in lattice coordinates: g (n, R) = (n', rot R + delu_n) *)
Record gop := mkGop { go_rot : mat; go_map : list (nat * vec) }.

Definition act_site (g : gop) (p : psite) : psite :=
  let '(n', du) := nth (p_site p) (go_map g) (O, vzero) in mkP n' (vadd (mulmv (go_rot g) (p_R p)) du).

(* g is a symmetry of the model crystal: metric preserved, site differences mapped, chemistry kept *)
Definition mtgm (M : mat) (G : Z * Z * Z * Z * Z * Z) : Z * Z * Z * Z * Z * Z :=
  let '(g11, g22, g33, g12, g13, g23) := G in
  let '((a, b, c), (d, e, f), (g, h, i)) := M in
  (* columns of M: (a,d,g) (b,e,h) (c,f,i);  entry (p,q) = col_p^T G col_q *)
  let bil := fun (x1 y1 z1 x2 y2 z2 : Z) =>
     g11 * x1 * x2 + g22 * y1 * y2 + g33 * z1 * z2 + g12 * (x1 * y2 + y1 * x2) + g13 * (x1 * z2 + z1 * x2) + g23 * (y1 * z2 + z1 * y2) in
  (bil a d g a d g, bil b e h b e h, bil c f i c f i, bil a d g b e h, bil a d g c f i, bil b e h c f i).

Definition gop_okb (g : gop) : bool :=
  six_eqb (mtgm (go_rot g) (g_G ge)) (g_G ge) &&
  Nat.eqb (length (go_map g)) nsites &&
  forallb (fun n => let '(n', _) := nth n (go_map g) (O, vzero) in
                    Nat.ltb n' nsites && Nat.eqb (chem_of n') (chem_of n)) (seq O nsites) &&
  forallb (fun n => forallb (fun m =>
      let '(n', dn) := nth n (go_map g) (O, vzero) in let '(m', dm) := nth m (go_map g) (O, vzero) in
      veqb (mulmv (go_rot g) (vsub (Uof m) (Uof n)))
           (vadd (vsub (Uof m') (Uof n')) (vscale (g_D ge) (vsub dm dn))))
    (seq O nsites)) (seq O nsites).

End Geom.

(* orbit checker, generic in the canonicalisation cn (plain / vacancy / transition-state clusters) *)
Section Orbits.
Variable cn : clus -> clus.
Variable ops : list gop.
Variable extra : list (clus -> clus).     (* further generators: [] or [reversal] *)

Definition act (g : gop) (c : clus) : clus := cn (map (act_site g) c).

(* one orbit: non-empty, closed under every operation (and extra generator), generated by its
   first element (through one optional extra generator followed by an operation) *)
Definition orbit_okb (orb : list clus) : bool :=
  match orb with
  | [] => false
  | rep :: _ =>
      forallb (fun c => forallb (fun g => cl_mem (act g c) orb) ops && forallb (fun f => cl_mem (f c) orb) extra) orb &&
      forallb (fun c => existsb (fun g => cl_eqb (act g rep) c || existsb (fun f => cl_eqb (act g (f rep)) c) extra) ops) orb
  end.

Fixpoint disjointb (orbs : list (list clus)) : bool :=
  match orbs with
  | [] => true
  | o :: rest => forallb (fun c => forallb (fun o' => negb (cl_mem c o')) rest) o && disjointb rest
  end.

Fixpoint nodupb (l : list clus) : bool :=
  match l with [] => true | c :: l' => negb (cl_mem c l') && nodupb l' end.

Definition partition_okb (orbs : list (list clus)) : bool :=
  forallb orbit_okb orbs && forallb nodupb orbs && disjointb orbs.

(* the union of the orbits equals a reference list, as sets *)
Definition set_eqb (a b : list clus) : bool :=
  forallb (fun c => cl_mem c b) a && forallb (fun c => cl_mem c a) b.
End Orbits.

(* ================================================================== Part 4: variants *)
(* k special sites kept first and in order, the rest sorted; translation fixed by the first site *)
Definition canonk (k : nat) (l : clus) : clus :=
  let lis := firstn k l ++ psort (skipn k l) in
  match lis with [] => [] | h :: _ => map (shift (vneg (p_R h))) lis end.

Fixpoint cl_leb (a b : clus) : bool :=
  match a, b with
  | [], _ => true
  | _ :: _, [] => false
  | p :: a', q :: b' => if peqb p q then cl_leb a' b' else pleb p q
  end.
(* transition-state cluster without vacancy: the pair is unordered (Cluster.__eq__ accepts both) *)
Definition canon_ts (l : clus) : clus :=
  match l with
  | a :: b :: rest => let c1 := canonk 2 (a :: b :: rest) in let c2 := canonk 2 (b :: a :: rest) in
                      if cl_leb c1 c2 then c1 else c2
  | _ => canonk 2 l
  end.

Fixpoint removep (p : psite) (l : clus) : clus :=
  match l with [] => [] | q :: l' => if peqb p q then l' else q :: removep p l' end.

(* reversal of a vacancy transition-state cluster (a -> b | rest): the atom that was at b sits at a
   afterwards, so an end point listed among the rest is replaced by the start point *)
Definition rev_tsvac (l : clus) : clus :=
  match l with
  | a :: b :: rest => canonk 2 (b :: a :: (if existsb (peqb b) rest then a :: removep b rest else rest))
  | _ => l
  end.

Section Variants.
Variable ge : geom.
(* makeVacancyClusters: every site of chemistry chem of every cluster becomes the special site *)
Definition vac_variants (chem : nat) (cl : clus) : list clus :=
  map (fun a => canonk 1 (a :: removep a cl)) (filter (fun a => Nat.eqb (chem_of ge (p_site a)) chem) cl).

(* jumps: (i, j, dR) site numbers and lattice vector of the final site relative to the initial one *)
Definition is_jump (jumps : list (nat * nat * vec)) (a b : psite) : bool :=
  existsb (fun j => let '(i, k, dR) := j in
                    Nat.eqb i (p_site a) && Nat.eqb k (p_site b) && veqb dR (vsub (p_R b) (p_R a))) jumps.

(* makeTSclusters on plain clusters: ordered pairs of cluster sites joined by a jump *)
Definition ts_variants (jumps : list (nat * nat * vec)) (cl : clus) : list clus :=
  flat_map (fun a => flat_map (fun b =>
      if negb (peqb a b) && is_jump jumps a b then [canon_ts (a :: b :: removep b (removep a cl))] else []) cl) cl.

(* makeTSclusters on vacancy clusters (special site first): with and without the end point, and reversed *)
Definition tsvac_variants (jumps : list (nat * nat * vec)) (vcl : clus) : list clus :=
  match vcl with
  | [] => []
  | a :: rest =>
      flat_map (fun b =>
        if is_jump jumps a b then
          let others := removep b rest in
          [canonk 2 (a :: b :: others); canonk 2 (a :: b :: b :: others);
           canonk 2 (b :: a :: others); canonk 2 (b :: a :: a :: others)]
        else []) rest
  end.
End Variants.

(* ================================================================== Part 5: the Cluster value type *)
Inductive ckind := Plain | Vac | TS | TSVac.
Definition ckind_eqb (a b : ckind) : bool :=
  match a, b with Plain, Plain | Vac, Vac | TS, TS | TSVac, TSVac => true | _, _ => false end.
Definition nspecial (k : ckind) : nat := match k with Plain => 0 | Vac => 1 | TS => 2 | TSVac => 2 end%nat.
Definition is_ts (k : ckind) : bool := match k with TS | TSVac => true | _ => false end.
Definition is_vac (k : ckind) : bool := match k with Vac | TSVac => true | _ => false end.

(* stable sort by site number only (the code's key chem*2^32+index) *)
Fixpoint sinsert (p : psite) (l : clus) : clus :=
  match l with [] => [p] | q :: l' => if Nat.leb (p_site p) (p_site q) then p :: l else q :: sinsert p l' end.
Fixpoint ssort (l : clus) : clus := match l with [] => [] | p :: l' => sinsert p (ssort l') end.

(* Cluster.__init__: self.sites *)
Definition mk_sites (k : ckind) (l : clus) : clus :=
  let lis := firstn (nspecial k) l ++ ssort (skipn (nspecial k) l) in
  match lis with [] => [] | h :: _ => map (shift (vneg (p_R h))) lis end.

(* tag appended to the key of the first Nvac sites: 1 = "(-1,)" vacancy, 2 = native chemistry *)
(* tt = true models the repaired constructor that also tags the two transition sites (3) *)
Definition tag (tt : bool) (k : ckind) (i : nat) : nat :=
  match k, i with
  | Vac, O => 1 | TSVac, O => 1 | TSVac, S O => 2
  | TS, O => if tt then 3 else 0 | TS, S O => if tt then 3 else 0
  | _, _ => 0
  end%nat.

Definition ckey := (nat * nat * vec)%type.     (* (tag, site, Nsites * R - center) *)
Definition ckey_eqb (a b : ckey) : bool :=
  let '(t1, s1, v1) := a in let '(t2, s2, v2) := b in Nat.eqb t1 t2 && Nat.eqb s1 s2 && veqb v1 v2.

Fixpoint keys_from (tt : bool) (k : ckind) (i : nat) (N : Z) (center : vec) (l : clus) : list ckey :=
  match l with
  | [] => []
  | p :: l' => (tag tt k i, p_site p, vsub (vscale N (p_R p)) center) :: keys_from tt k (S i) N center l'
  end.
(* the (r + shiftpos) tuples of __init__, in site order *)
Definition ckeys (tt : bool) (k : ckind) (sites : clus) : list ckey :=
  keys_from tt k O (Z.of_nat (length sites)) (vsum (map p_R sites)) sites.

Record cvalue := mkC { c_tt : bool; c_kind : ckind; c_sites : clus }.        (* kind + self.sites *)
Definition Cluster (tt : bool) (k : ckind) (l : clus) : cvalue := mkC tt k (mk_sites k l).
Definition ckeys_of (c : cvalue) : list ckey := ckeys (c_tt c) (c_kind c) (c_sites c).

Definition key_subset (a b : list ckey) : bool := forallb (fun x => existsb (ckey_eqb x) b) a.

(* istransition(site0, site1) *)
Definition istransition (c : cvalue) (s0 s1 : psite) : bool :=
  match c_sites c with
  | a :: b :: _ =>
      (peqb a (shift (vneg (p_R s0)) s0) && peqb b (shift (vneg (p_R s0)) s1)) ||
      (negb (is_vac (c_kind c)) && peqb a (shift (vneg (p_R s1)) s1) && peqb b (shift (vneg (p_R s1)) s0))
  | _ => false
  end.

(* Cluster.__eq__: flags, Norder, the dict of sets (as mutual inclusion of (key) lists), TS pair *)
Definition ceq (c d : cvalue) : bool :=
  ckind_eqb (c_kind c) (c_kind d) &&
  Nat.eqb (length (c_sites c)) (length (c_sites d)) &&
  key_subset (ckeys_of c) (ckeys_of d) &&
  key_subset (ckeys_of d) (ckeys_of c) &&
  (if is_ts (c_kind c)
   then match c_sites d with s0 :: s1 :: _ => istransition c s0 s1 | _ => false end
   else true).

Section Hash.
Variable A : Type.
Variable op : A -> A -> A.        (* ^ on python ints *)
Variable e : A.                   (* 0 *)
Variable H : ckey -> A.           (* hash(r + shiftpos) *)
Definition chash (c : cvalue) : A := fold_left (fun h k => op h (H k)) (ckeys_of c) e.
End Hash.
