(* Occupancy bookkeeping of onsager/supercell.py class Supercell -- executable model (C28; the
   permutation/reordering part is reused by the C27/C29/C30 checkers).

   State of one Supercell object, as far as the bookkeeping is concerned:
       occ       : list Z          (numpy int array, -1 = vacant)
       chemorder : list (list Z)   (per species: ordered list of the occupied sites)
   Python semantics that matter are modelled literally:
     - subscripts accept negative indices (l[-1]) and raise IndexError outside [-n, n);
     - list.index raises ValueError when the value is absent; list.pop(k) removes position k;
     - an exception leaves every mutation made BEFORE it in place, so every operation
       returns (state after, outcome) and not an option.
   The guard of setocc is a parameter [g : Z -> bool] (true = raise IndexError) so that the same
   definitions are run with the guard as written in the pinned source ([guard_source]) and with
   the guard the property demands ([guard_declared]).
   Definitions only; the theorems are in Proofs/Supercell_proofs.v. *)
From Coq Require Import List ZArith Bool.
Import ListNotations.
Local Open Scope Z_scope.

Inductive outcome := OK | IndexError | ValueError.

Record sc := mkSC { occ : list Z; chemorder : list (list Z) }.

Definition zlen {A} (l : list A) : Z := Z.of_nat (length l).

(* ---- Python subscripting ------------------------------------------------------------- *)
Definition pyidx (n i : Z) : option nat :=
  if (0 <=? i) && (i <? n) then Some (Z.to_nat i)
  else if (- n <=? i) && (i <? 0) then Some (Z.to_nat (n + i))
  else None.

Definition pyget {A} (l : list A) (i : Z) : option A :=
  match pyidx (zlen l) i with Some k => nth_error l k | None => None end.

Fixpoint upd {A} (l : list A) (k : nat) (v : A) : list A :=
  match l, k with
  | [], _ => []
  | _ :: t, O => v :: t
  | h :: t, S k' => h :: upd t k' v
  end.

Definition pyset {A} (l : list A) (i : Z) (v : A) : option (list A) :=
  match pyidx (zlen l) i with Some k => Some (upd l k v) | None => None end.

(* list.index(x): position of the first occurrence *)
Fixpoint index_of (x : Z) (l : list Z) : option nat :=
  match l with
  | [] => None
  | h :: t => if h =? x then Some O else option_map S (index_of x t)
  end.

(* list.pop(k): the list afterwards *)
Fixpoint remove_at {A} (k : nat) (l : list A) : list A :=
  match l, k with
  | [], _ => []
  | _ :: t, O => t
  | h :: t, S k' => h :: remove_at k' t
  end.

Fixpoint omap {A B} (f : A -> option B) (l : list A) : option (list B) :=
  match l with
  | [] => Some []
  | a :: t => match f a with
              | None => None
              | Some b => match omap f t with None => None | Some r => Some (b :: r) end
              end
  end.

Definition zrange (n : nat) : list Z := map Z.of_nat (seq 0 n).

Definition enumerate {A} (l : list A) : list (Z * A) := combine (zrange (length l)) l.

(* ---- setocc (supercell.py:315-334) --------------------------------------------------- *)
(*  if <guard c>: raise IndexError
    corig = self.occ[ind]
    if corig != c:
        if corig >= 0:  co = self.chemorder[corig]; co.pop(co.index(ind))
        if c >= 0:      self.chemorder[c].append(ind)
        self.occ[ind] = c                                                                  *)
Definition guard_source (crysNchem c : Z) : bool := (c <? -2) || (c >? crysNchem).
Definition guard_declared (nchem c : Z) : bool := (c <? -1) || (c >=? nchem).

Definition remove_site (ch : list (list Z)) (corig ind : Z) : list (list Z) + outcome :=
  if corig >=? 0 then
    match pyget ch corig with
    | None => inr IndexError
    | Some co => match index_of ind co with
                 | None => inr ValueError
                 | Some k => inl (upd ch (Z.to_nat corig) (remove_at k co))
                 end
    end
  else inl ch.

Definition setocc (g : Z -> bool) (s : sc) (ind c : Z) : sc * outcome :=
  if g c then (s, IndexError) else
  match pyget (occ s) ind with
  | None => (s, IndexError)
  | Some corig =>
    if corig =? c then (s, OK) else
    match remove_site (chemorder s) corig ind with
    | inr e => (s, e)
    | inl ch1 =>
      let s1 := mkSC (occ s) ch1 in
      let store ch2 := match pyset (occ s) ind c with
                       | None => (mkSC (occ s) ch2, IndexError)   (* unreachable: occ[ind] was read *)
                       | Some o2 => (mkSC o2 ch2, OK)
                       end in
      if c >=? 0 then
        match pyget ch1 c with
        | None => (s1, IndexError)
        | Some cl => store (upd ch1 (Z.to_nat c) (cl ++ [ind]))
        end
      else store ch1
    end
  end.

(* a sequence of setocc calls, stopping at the first exception *)
Fixpoint setocc_all (g : Z -> bool) (s : sc) (l : list (Z * Z)) : sc * outcome :=
  match l with
  | [] => (s, OK)
  | (i, c) :: t => let (s', o) := setocc g s i c in
                   match o with OK => setocc_all g s' t | _ => (s', o) end
  end.

(* fillperiodic (supercell.py:336-350) at content level: the harness passes the site list
   [n*N + i for n in range(size) for i in indlist] computed from the object's own tables *)
Definition fillperiodic (g : Z -> bool) (s : sc) (sites : list Z) (c : Z) : sc * outcome :=
  setocc_all g s (map (fun i => (i, c)) sites).

(* ---- __sane__ (supercell.py:204-217); None = IndexError from occ[ind] ------------------ *)
Fixpoint check_species (o : list Z) (c : Z) (clist : list Z) : option bool :=
  match clist with
  | [] => Some true
  | ind :: t => match pyget o ind with
                | None => None
                | Some v => if v =? c then check_species o c t else Some false
                end
  end.

Fixpoint check_all (o : list Z) (c : Z) (ch : list (list Z)) : option bool :=
  match ch with
  | [] => Some true
  | cl :: t => match check_species o c cl with
               | Some true => check_all o (c + 1) t
               | r => r
               end
  end.

Definition zmem (x : Z) (l : list Z) : bool := existsb (Z.eqb x) l.

Fixpoint vacant_rest (occset : list Z) (ind : Z) (o : list Z) : bool :=
  match o with
  | [] => true
  | c :: t => if zmem ind occset then vacant_rest occset (ind + 1) t
              else if c =? -1 then vacant_rest occset (ind + 1) t else false
  end.

Definition sane (s : sc) : option bool :=
  match check_all (occ s) 0 (chemorder s) with
  | Some true => Some (vacant_rest (concat (chemorder s)) 0 (occ s))
  | r => r
  end.

(* ---- reorder (supercell.py:525-541) --------------------------------------------------- *)
Definition reorder1 (clist cmap : list Z) : option (list Z) :=
  omap (fun i => match pyget cmap i with None => None | Some v => pyget clist v end)
       (zrange (length clist)).

Fixpoint reorder_lists (ch mapping : list (list Z)) : option (list (list Z)) :=   (* zip *)
  match ch, mapping with
  | cl :: ch', cm :: m' =>
      match reorder1 cl cm with
      | None => None
      | Some nl => match reorder_lists ch' m' with None => None | Some r => Some (nl :: r) end
      end
  | _, _ => Some []
  end.

Definition reorder (mapping : list (list Z)) (s : sc) : sc * outcome :=
  match reorder_lists (chemorder s) mapping with
  | None => (s, IndexError)
  | Some neworder =>
      let s' := mkSC (occ s) neworder in
      match sane s' with
      | None => (s', IndexError)
      | Some true => (s', OK)
      | Some false => (s, ValueError)
      end
  end.

(* ---- __imul__ (supercell.py:147-162): apply the site map indexmap ---------------------- *)
Fixpoint imul_occ (occ0 gocc : list Z) (ind : Z) (idx : list Z) : option (list Z) :=
  match idx with
  | [] => Some gocc
  | gind :: t => match pyget occ0 ind with
                 | None => None
                 | Some v => match pyset gocc gind v with
                             | None => None
                             | Some g' => imul_occ occ0 g' (ind + 1) t
                             end
                 end
  end.

Definition imul (idx : list Z) (s : sc) : sc * outcome :=
  match imul_occ (occ s) (occ s) 0 idx with
  | None => (s, IndexError)
  | Some gocc =>
      match omap (omap (pyget idx)) (chemorder s) with
      | None => (mkSC gocc (chemorder s), IndexError)
      | Some ch => (mkSC gocc ch, OK)
      end
  end.

(* ---- POSCAR / POSCAR_occ at content level ---------------------------------------------- *)
(* content of the text = for every species the list of sites whose positions are listed, in order
   (position <-> site is the trusted geometric step, checked on real text by the harness) *)
Definition poscar_write (s : sc) : option (list (list Z)) :=
  omap (omap (fun i => option_map Z.of_nat (pyidx (zlen (occ s)) i))) (chemorder s).

Definition read_calls (content : list (list Z)) : list (Z * Z) :=
  flat_map (fun p => map (fun i => (i, fst p)) (snd p)) (enumerate content).

Definition poscar_read (g : Z -> bool) (content : list (list Z)) (s : sc) : sc * outcome :=
  match content with
  | [] => (s, IndexError)          (* empty species line: chemlist[0] fails before anything is changed *)
  | _ =>
    let (s1, o1) := setocc_all g s (map (fun n => (n, -1)) (zrange (length (occ s)))) in
    match o1 with
    | OK => setocc_all g s1 (read_calls content)
    | _ => (s1, o1)
    end
  end.

(* POSCAR with a VASP5 element-name line: the k-th coordinate block belongs to species chemident[k]
   (chemident = [self.chemistry.index(name) for name in the name line]; blocks may come in any order and
   absent species may be left out); zip(Nspecies, chemident) pairs blocks and species *)
Definition read_calls_named (chemident : list Z) (blocks : list (list Z)) : list (Z * Z) :=
  flat_map (fun p => map (fun i => (i, fst p)) (snd p)) (combine chemident blocks).

Definition poscar_read_named (g : Z -> bool) (chemident : list Z) (blocks : list (list Z)) (s : sc) : sc * outcome :=
  match blocks with
  | [] => (s, IndexError)
  | _ =>
    let (s1, o1) := setocc_all g s (map (fun n => (n, -1)) (zrange (length (occ s)))) in
    match o1 with
    | OK => setocc_all g s1 (read_calls_named chemident blocks)
    | _ => (s1, o1)
    end
  end.

(* ---- the machine: the object being edited, a second object (the original of the last copy),
        and the last POSCAR text written ---------------------------------------------------- *)
Record mach := mkM { cur : sc; saved : sc; clip : list (list Z) }.

Inductive op :=
| OSet (ind c : Z)
| OFill (sites : list Z) (c : Z)
| OFillBad                       (* fillperiodic with a tuple that is no atom index *)
| OReorder (mapping : list (list Z))
| OImul (idx : list Z)
| OCopy                          (* saved := cur ; cur := cur.copy() *)
| OSwap
| OWrite                         (* clip := cur.POSCAR() *)
| ORead.                         (* cur.POSCAR_occ(clip) *)

Definition step (g : Z -> bool) (m : mach) (o : op) : mach * outcome :=
  let with_cur r := (mkM (fst r) (saved m) (clip m), snd r) in
  match o with
  | OSet i c => with_cur (setocc g (cur m) i c)
  | OFill sites c => with_cur (fillperiodic g (cur m) sites c)
  | OFillBad => (m, IndexError)
  | OReorder mp => with_cur (reorder mp (cur m))
  | OImul idx => with_cur (imul idx (cur m))
  | OCopy => (mkM (cur m) (cur m) (clip m), OK)
  | OSwap => (mkM (saved m) (cur m) (clip m), OK)
  | OWrite => match poscar_write (cur m) with
              | None => (m, IndexError)
              | Some c => (mkM (cur m) (saved m) c, OK)
              end
  | ORead => with_cur (poscar_read g (clip m) (cur m))
  end.

(* run a history; exceptions are caught by the caller (the state keeps what was mutated) *)
Fixpoint run (g : Z -> bool) (m : mach) (ops : list op) : mach :=
  match ops with
  | [] => m
  | o :: t => run g (fst (step g m o)) t
  end.

Definition init_sc (nsites nchem : nat) : sc := mkSC (repeat (-1) nsites) (repeat [] nchem).
Definition init (nsites nchem : nat) : mach :=
  mkM (init_sc nsites nchem) (init_sc nsites nchem) (repeat [] nchem).

(* ---- executable invariant (the verified checker run on the implementation's states) ---- *)
Fixpoint nodupb (l : list Z) : bool :=
  match l with [] => true | h :: t => negb (zmem h t) && nodupb t end.

(* every listed site is a valid non-negative index holding species c *)
Definition species_okb (o : list Z) (c : Z) (clist : list Z) : bool :=
  nodupb clist &&
  forallb (fun i => (0 <=? i) && (i <? zlen o) && (nth (Z.to_nat i) o (-2) =? c)) clist.

(* every site holding species c is listed *)
Definition listedb (o : list Z) (ch : list (list Z)) : bool :=
  forallb (fun p => let '(i, c) := p in
                    (-1 <=? c) && (c <? zlen ch) &&
                    ((c =? -1) || zmem i (nth (Z.to_nat c) ch [])))
          (enumerate o).

Definition invb (nsites nchem : nat) (s : sc) : bool :=
  Nat.eqb (length (occ s)) nsites && Nat.eqb (length (chemorder s)) nchem &&
  forallb (fun p => species_okb (occ s) (fst p) (snd p)) (enumerate (chemorder s)) &&
  listedb (occ s) (chemorder s).

Definition clipokb (nsites nchem : nat) (cl : list (list Z)) : bool :=
  Nat.eqb (length cl) nchem && nodupb (concat cl) &&
  forallb (fun i => (0 <=? i) && (i <? Z.of_nat nsites)) (concat cl).

Definition minvb (nsites nchem : nat) (m : mach) : bool :=
  invb nsites nchem (cur m) && invb nsites nchem (saved m) && clipokb nsites nchem (clip m).

(* ---- comparison with observations of the implementation -------------------------------- *)
Fixpoint zlist_eqb (a b : list Z) : bool :=
  match a, b with
  | [], [] => true
  | x :: a', y :: b' => (x =? y) && zlist_eqb a' b'
  | _, _ => false
  end.

Fixpoint zll_eqb (a b : list (list Z)) : bool :=
  match a, b with
  | [], [] => true
  | x :: a', y :: b' => zlist_eqb x y && zll_eqb a' b'
  | _, _ => false
  end.

Definition sc_eqb (a b : sc) : bool := zlist_eqb (occ a) (occ b) && zll_eqb (chemorder a) (chemorder b).
Definition mach_eqb (a b : mach) : bool :=
  sc_eqb (cur a) (cur b) && sc_eqb (saved a) (saved b) && zll_eqb (clip a) (clip b).
Definition outcome_eqb (a b : outcome) : bool :=
  match a, b with OK, OK | IndexError, IndexError | ValueError, ValueError => true | _, _ => false end.

(* one observed transition of the implementation: state before, operation, state after, outcome.
   Outcomes are sent as 0/1/2; anything else (an exception class the model never produces) is 3. *)
Definition outcome_code (o : outcome) : nat :=
  match o with OK => 0 | IndexError => 1 | ValueError => 2 end.

Definition check_step (g : Z -> bool) (t : mach * op * mach * nat) : bool :=
  let '(pre, o, post, code) := t in
  let (m', o') := step g pre o in
  mach_eqb m' post && Nat.eqb (outcome_code o') code.

(* a whole observed history from the initial state: index (from 1) of the first step at which
   model and implementation differ, 0 when they agree throughout *)
Fixpoint first_diff (g : Z -> bool) (m : mach) (tr : list (op * mach * nat)) (k : nat) : nat :=
  match tr with
  | [] => O
  | (o, post, code) :: t =>
      let (m', o') := step g m o in
      if mach_eqb m' post && Nat.eqb (outcome_code o') code then first_diff g m' t (S k) else S k
  end.

(* positions (from 0) of the false entries *)
Fixpoint falses (l : list bool) (k : nat) : list nat :=
  match l with [] => [] | b :: t => if b then falses t (S k) else k :: falses t (S k) end.
