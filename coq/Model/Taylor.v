(* Executable model of onsager/PowerExpansion.py (classes Taylor3D / Taylor2D), generic in
   the dimension d (3 / 2), the class constant Lmax, the scalar ring K (any ordered commutative
   ring: Z, Qc, ...) and the coefficient space V (any K-module: scalars, r x c matrices, ...).

   An expansion is a list of entries (n, l, c):  n = radial order (an integer, negative after
   inversion), l = largest angular order present, c = coefficient vector indexed by the power
   index p < powlrange l  (p <-> exponent vector, ordered as makeindexPowerYlm / makeindexPowerFC do).
   Its value at direction xs with radial function rad is
        E rad xs a = sum_(n,l,c) rad n . sum_p xs^(ind2pow p) . c_p
   which is what Taylor3D.__call__(u, fnu) returns for fnu[(n,l)] = rad n, xs = u/|u|.

   This file holds definitions only; proofs are in Proofs/Taylor_proofs.v.                      *)
From Coq Require Import List Arith ZArith Bool.
From Onsager Require Import Base.OrdRing.
Import ListNotations.
Local Open Scope nat_scope.

(* ------------------------------------------------------------------ index tables ------ *)
Definition expo := list nat.

(* all exponent vectors of length d with sum l, in the order of the implementation's loops
   (n1 ascending, then n2 ascending, ..., last one determined) *)
Fixpoint comps (d l : nat) : list expo :=
  match d with
  | 0 => match l with 0 => [[]] | _ => [] end
  | S d' => flat_map (fun n1 => map (cons n1) (comps d' (l - n1))) (seq 0 (S l))
  end.

(* ind2pow as a list: degree 0 block, degree 1 block, ... degree L block *)
Definition enum (d L : nat) : list expo := flat_map (comps d) (seq 0 (S L)).

Definition powlrange (d l : nat) : nat := length (enum d l).
(* the implementation's powlrange[l-1] with powlrange[-1] = 0 *)
Definition plo (d l : nat) : nat := match l with 0 => 0 | S l' => powlrange d l' end.
Definition Npower (d L : nat) : nat := length (enum d L).
Definition ind2pow (d L i : nat) : expo := nth i (enum d L) (repeat 0 d).

Fixpoint expo_eqb (a b : expo) : bool :=
  match a, b with
  | [], [] => true
  | x :: a', y :: b' => Nat.eqb x y && expo_eqb a' b'
  | _, _ => false
  end.

Fixpoint index_of (e : expo) (l : list expo) : option nat :=
  match l with
  | [] => None
  | x :: l' => if expo_eqb e x then Some 0 else option_map S (index_of e l')
  end.

(* pow2ind: -1 where the implementation's array holds -1 (degree > Lmax) *)
Definition pow2ind (d L : nat) (e : expo) : Z :=
  match index_of e (enum d L) with Some i => Z.of_nat i | None => (-1)%Z end.

Fixpoint eadd (a b : expo) : expo :=
  match a, b with x :: a', y :: b' => (x + y) :: eadd a' b' | _, _ => [] end.

Definition deg (e : expo) : nat := list_sum e.

Definition directmult (d L p0 p1 : nat) : Z :=
  let s := eadd (ind2pow d L p0) (ind2pow d L p1) in
  if deg s <=? L then pow2ind d L s else (-1)%Z.

(* unit exponent 2 e_i  /  k e_i *)
Fixpoint eunit (d i k : nat) : expo :=
  match d with 0 => [] | S d' => match i with 0 => k :: repeat 0 d' | S i' => 0 :: eunit d' i' k end end.

Definition multinom (e : expo) : Z :=
  Z.div (Z.of_nat (fact (deg e))) (fold_right (fun k acc => (Z.of_nat (fact k) * acc)%Z) 1%Z e).

(* powercoeff[n][p] *)
Definition powercoeff (d L n p : nat) : Z :=
  let e := ind2pow d L p in if deg e =? n then multinom e else 0%Z.

(* ------------------------------------------------------------------ coefficient spaces -- *)
(* raw signature of a coefficient space; the module laws are a separate predicate, proved for
   the instances in Proofs/Taylor_proofs.v and assumed by the theorems *)
Record kmod (K : ordring) := mkKmod {
  mcar :> Type;
  m0 : mcar;
  madd : mcar -> mcar -> mcar;
  msmul : K -> mcar -> mcar;
  mzerob : mcar -> bool;
}.
Arguments m0 {K} _. Arguments madd {K} _ _ _. Arguments msmul {K} _ _ _. Arguments mzerob {K} _ _.

Record modlaws (K : ordring) (V : kmod K) : Prop := mkLaws {
  madd_assoc : forall u v w : V, madd V u (madd V v w) = madd V (madd V u v) w;
  madd_comm : forall u v : V, madd V u v = madd V v u;
  madd_0_l : forall u : V, madd V (m0 V) u = u;
  msmul_add_r : forall k (u v : V), msmul V k (madd V u v) = madd V (msmul V k u) (msmul V k v);
  msmul_add_l : forall j k (u : V), msmul V (radd K j k) u = madd V (msmul V j u) (msmul V k u);
  msmul_mul : forall j k (u : V), msmul V (rmul K j k) u = msmul V j (msmul V k u);
  msmul_1 : forall u : V, msmul V (r1 K) u = u;
  msmul_0 : forall u : V, msmul V (r0 K) u = m0 V;
  mzerob_spec : forall u : V, mzerob V u = true <-> u = m0 V;
}.

Definition entry (V : Type) : Type := (Z * nat * list V)%type.
Definition expansion (V : Type) : Type := list (entry V).

Section Scalars.
Variable K : ordring.
Notation "0" := (r0 K). Notation "1" := (r1 K).
Infix "+" := (radd K). Infix "*" := (rmul K). Infix "-" := (rsub K).

Fixpoint pinj (p : positive) : K :=
  match p with xH => 1 | xO q => (1 + 1) * pinj q | xI q => 1 + (1 + 1) * pinj q end.
Definition zinj (z : Z) : K :=
  match z with Z0 => 0 | Zpos p => pinj p | Zneg p => ropp K (pinj p) end.

Fixpoint rpow (x : K) (n : nat) : K := match n with O => 1 | S n' => x * rpow x n' end.

(* xs^e = prod_i xs_i^(e_i) : an entry of powexp(u, normalize=False) *)
Fixpoint mono (xs : list K) (e : expo) : K :=
  match xs, e with x :: xs', n :: e' => rpow x n * mono xs' e' | _, _ => 1 end.

Definition dot (xs ys : list K) : K := sumf (fun p => fst p * snd p) (combine xs ys).
Definition matvec (A : list (list K)) (xs : list K) : list K := map (fun row => dot row xs) A.

(* powexp(u, normalize=False) as a vector over all Npower indices *)
Definition powexp (d L : nat) (xs : list K) : list K := map (mono xs) (enum d L).

(* K as a module over itself *)
Definition selfmod : kmod K := mkKmod K K 0 (radd K) (rmul K) (fun x => reqb K x 0).

(* K^n as iterated product: Leibniz equality is componentwise, so the module laws hold on the nose *)
Fixpoint pw (n : nat) : Type := match n with O => unit | S n' => (K * pw n')%type end.
Fixpoint pget (n : nat) : pw n -> nat -> K :=
  match n with
  | O => fun _ _ => 0
  | S n' => fun v i => match i with O => fst v | S i' => pget n' (snd v) i' end
  end.
Fixpoint ptab (n : nat) (f : nat -> K) : pw n :=
  match n with O => tt | S n' => (f O, ptab n' (fun i => f (S i))) end.
Definition pw_of_list (n : nat) (l : list K) : pw n := ptab n (fun i => nth i l 0).
Fixpoint pzerob (n : nat) : pw n -> bool :=
  match n with O => fun _ => true | S n' => fun v => reqb K (fst v) 0 && pzerob n' (snd v) end.
Fixpoint peqb (n : nat) : pw n -> pw n -> bool :=
  match n with O => fun _ _ => true | S n' => fun u v => reqb K (fst u) (fst v) && peqb n' (snd u) (snd v) end.
Definition padd n (u v : pw n) : pw n := ptab n (fun i => pget n u i + pget n v i).
Definition psmul n (k : K) (u : pw n) : pw n := ptab n (fun i => k * pget n u i).
Definition pzero n : pw n := ptab n (fun _ => 0).
Definition pwmod (n : nat) : kmod K := mkKmod K (pw n) (pzero n) (padd n) (psmul n) (pzerob n).

(* matrices r x c, row major, as pw (r*c) *)
Definition matmul (r m c : nat) (a : pw (r * m)) (b : pw (m * c)) : pw (r * c) :=
  ptab (r * c) (fun idx => let i := Nat.div idx c in let j := Nat.modulo idx c in
     sumf (fun k => pget _ a (i * m + k) * pget _ b (k * c + j)) (seq 0 m)).
Definition pwscal (n : nat) (s : pw 1) (v : pw n) : pw n := psmul n (fst s) v.
(* general index selection: the model of __getitem__ with an index / slice key, and of reshape *)
Definition pselect (n m : nat) (idx : list nat) (v : pw n) : pw m := ptab m (fun i => pget n v (nth i idx n)).
End Scalars.

Arguments zinj {K} _. Arguments rpow {K} _ _. Arguments mono {K} _ _. Arguments dot {K} _ _.
Arguments matvec {K} _ _. Arguments powexp {K} _ _ _.

(* ------------------------------------------------------------------ expansions ---------- *)
Section Expansions.
Variable K : ordring.
Variables d L : nat.
Notation "0" := (r0 K). Notation "1" := (r1 K).
Infix "+" := (radd K). Infix "*" := (rmul K). Infix "-" := (rsub K).

Section OneSpace.
Variable V : kmod K.
Notation entry := (entry V). Notation expansion := (expansion V).

Fixpoint msum (l : list V) : V := match l with [] => m0 V | a :: l' => madd V a (msum l') end.
Definition mneg (v : V) : V := msmul V (ropp K 1) v.

(* sum_p xs^(es_p) . c_p over the common prefix: tensordot(u0[:powlrange[l]], coeff, axes=1)
   when length c = powlrange l (the shape numpy requires) *)
Definition evl (es : list expo) (xs : list K) (c : list V) : V :=
  msum (map (fun ev => msmul V (mono xs (fst ev)) (snd ev)) (combine es c)).

Definition Eentry (rad : Z -> K) (xs : list K) (t : entry) : V :=
  let '(n, l, c) := t in msmul V (rad n) (evl (enum d L) xs c).

(* Taylor.__call__(u, fnu) with fnu[(n,l)] = rad n and xs = u / |u| *)
Definition E (rad : Z -> K) (xs : list K) (a : expansion) : V := msum (map (Eentry rad xs) a).

(* homogeneous ("true polynomial") reading used by rotatedirections: the power p in an entry of
   radial order n stands for  q^p (q.q)^((n - deg p)/2) *)
Definition evh (xs : list K) (n : nat) (c : list V) : V :=
  msum (map (fun ev => msmul V (mono xs (fst ev) * rpow (dot xs xs) (Nat.div (n - deg (fst ev)) 2)) (snd ev))
            (combine (enum d L) c)).
Definition Eh (xs : list K) (a : expansion) : V :=
  msum (map (fun t : entry => let '(n, l, c) := t in evh xs (Z.to_nat n) c) a).

(* well-formedness = the implementation's representation invariant *)
Definition wf_entry (t : entry) : Prop := let '(n, l, c) := t in l <= L /\ length c = powlrange d l.
Definition wf (a : expansion) : Prop := Forall wf_entry a.
Definition wfb (a : expansion) : bool :=
  forallb (fun t : entry => let '(n, l, c) := t in Nat.leb l L && Nat.eqb (length c) (powlrange d l)) a.

(* ---- list plumbing ---- *)
(* add the shorter vector into the prefix of the longer one *)
Fixpoint vadd (u v : list V) : list V :=
  match u, v with
  | [], _ => v
  | _, [] => u
  | a :: u', b :: v' => madd V a b :: vadd u' v'
  end.

(* stable insertion sort on the key n + l/(Lmax+1), i.e. (n, l) lexicographic for l <= Lmax *)
Definition key_le (s t : entry) : bool :=
  let '(n1, l1, _) := s in let '(n2, l2, _) := t in
  (n1 <? n2)%Z || ((n1 =? n2)%Z && Nat.leb l1 l2).
Fixpoint insert_sorted (t : entry) (a : expansion) : expansion :=
  match a with
  | [] => [t]
  | s :: a' => if key_le s t then s :: insert_sorted t a' else t :: s :: a'
  end.
Definition sortx (a : expansion) : expansion := fold_left (fun acc t => insert_sorted t acc) a [].

Definition scale (k : K) (a : expansion) : expansion :=
  map (fun t : entry => let '(n, l, c) := t in (n, l, map (msmul V k) c)) a.

(* the merge step shared by sumcoeff and coeffproductcoeff: first entry with the same n *)
Fixpoint merge_into (c : expansion) (b : entry) : expansion :=
  let '(bn, bl, bpow) := b in
  match c with
  | [] => [b]
  | (cn, cl, cpow) :: c' =>
      if (cn =? bn)%Z then
        (if Nat.ltb cl bl then (bn, bl, vadd bpow cpow) else (cn, cl, vadd cpow bpow)) :: c'
      else (cn, cl, cpow) :: merge_into c' b
  end.

(* sumcoeff(a, b, alpha, beta) *)
Definition sumcoeff (alpha : K) (a : expansion) (beta : K) (b : expansion) : expansion :=
  match b with
  | [] => scale alpha a
  | _ => match a with
         | [] => scale beta b
         | _ => sortx (fold_left merge_into (scale beta b) (scale alpha a))
         end
  end.

Definition negcoeff (a : expansion) : expansion :=
  map (fun t : entry => let '(n, l, c) := t in (n, l, map mneg c)) a.

(* truncatecoeff *)
Definition truncate (Nmax : Z) (a : expansion) : expansion :=
  filter (fun t : entry => let '(n, _, _) := t in (n <=? Nmax)%Z) a.

(* constructexpansion(basis, N, pre): basis = list of (coefficient, direction) *)
Definition construct (basis : list (V * list K)) (N : nat) (pre : nat -> K) : expansion :=
  map (fun n =>
         (Z.of_nat n, n,
          fold_left (fun acc cv => vadd acc
                       (map (fun p => msmul V (pre n * (zinj (powercoeff d L n p) * mono (snd cv) (ind2pow d L p))) (fst cv))
                            (seq 0 (powlrange d n))))
                    basis (repeat (m0 V) (powlrange d n))))
      (seq 0 (S N)).

(* ---- projections through harmonic space (reduce / collect / separate) ---- *)
(* P : projector table P[p][p'] with entries in K; c'[p] = sum_{p' < r} P[p][p'] c[p'],  p < r = length c *)
Definition applyproj (P : list (list K)) (c : list V) : list V :=
  map (fun p => msum (map (fun pc => msmul V (nth (fst pc) (nth p P []) 0) (snd pc))
                          (combine (seq 0 (length c)) c)))
      (seq 0 (length c)).

Definition allzero (c : list V) : bool := forallb (mzerob V) c.

(* for lmin in range(l,-1,-1): stop at the first non-zero degree block *)
Fixpoint lowest_l (c : list V) (l : nat) : nat :=
  match l with
  | O => O
  | S l' => if allzero (skipn (powlrange d l') (firstn (powlrange d l) c)) then lowest_l c l' else l
  end.

Definition reducecoeff (Pall : list (list K)) (a : expansion) : expansion :=
  flat_map (fun t : entry => let '(n, l, c) := t in
              let c' := applyproj Pall c in
              if allzero c' then [] else let lm := lowest_l c' l in [(n, lm, firstn (powlrange d lm) c')]) a.

Fixpoint collect_go (Pall : list (list K)) (cur : entry) (rest : expansion) : expansion :=
  let '(n, l, c) := cur in
  let c' := applyproj Pall c in
  match rest with
  | [] => if allzero c' then [] else [(n, l, c)]
  | (n2, l2, c2) :: rest' =>
      if allzero c' then collect_go Pall (n2, l2, c2) rest'
      else if (n =? n2)%Z then collect_go Pall (n2, l2, vadd c2 c') rest'
      else (n, l, c') :: collect_go Pall (n2, l2, c2) rest'
  end.
Definition collectcoeff (Pall : list (list K)) (a : expansion) : expansion :=
  match sortx a with [] => [] | t :: rest => collect_go Pall t rest end.

(* Taylor.reduce() = reducecoeff then collectcoeff *)
Definition reduce (Pall : list (list K)) (a : expansion) : expansion := collectcoeff Pall (reducecoeff Pall a).

(* Pl l0 = projector onto the l0 component *)
Definition separatecoeff (Pl : nat -> list (list K)) (a : expansion) : expansion :=
  let kept := flat_map (fun t : entry => let '(n, l, c) := t in
                 let c' := applyproj (Pl l) c in if allzero c' then [] else [(n, l, c')]) a in
  let extra := flat_map (fun t : entry => let '(n, l, c) := t in
                 flat_map (fun l0 => let cl0 := firstn (powlrange d l0) (applyproj (Pl l0) c) in
                                     if allzero cl0 then [] else [(n, l0, cl0)]) (seq 0 l)) a in
  sortx (kept ++ extra).

(* ---- change of variables ---- *)
Definition kvadd (u v : list K) : list K := map (fun p => fst p + snd p) (combine u v).
Definition kzeros : list K := repeat 0 (Npower d L).
Fixpoint kupd (acc : list K) (i : nat) (x : K) : list K :=
  match acc with
  | [] => []
  | a :: acc' => match i with O => (a + x) :: acc' | S i' => a :: kupd acc' i' x end
  end.
(* numpy index semantics: a negative index counts from the end *)
Definition zindex (len : nat) (i : Z) : nat :=
  if (i <? 0)%Z then Z.to_nat (Z.add (Z.of_nat len) i) else Z.to_nat i.

(* q_i^n = sum_p powercoeff[n][p] A_i^p p^p  (the "single q value" rows of powtrans) *)
Definition rot_single (row : list K) (n : nat) : list K :=
  map (fun p => zinj (powercoeff d L n p) * mono row (ind2pow d L p)) (seq 0 (Npower d L)).
(* product of a homogeneous degree-ni row with a homogeneous degree-nj row through directmult *)
Definition rot_mul (ni nj : nat) (u v : list K) : list K :=
  fold_left (fun acc pi =>
     fold_left (fun acc pj => kupd acc (zindex (Npower d L) (directmult d L pi pj)) (nth pi u 0 * nth pj v 0))
               (seq (plo d nj) (powlrange d nj - plo d nj)) acc)
    (seq (plo d ni) (powlrange d ni - plo d ni)) kzeros.
(* powtrans[pow2ind[e], :] *)
Fixpoint rot_row_go (A : list (list K)) (i : nat) (e : expo) (acc : option (nat * list K)) : option (nat * list K) :=
  match e with
  | [] => acc
  | ni :: e' =>
      let acc' := match ni with
                  | O => acc
                  | S _ => match acc with
                           | None => Some (ni, rot_single (nth i A []) ni)
                           | Some (n0, v) => Some (Nat.add n0 ni, rot_mul n0 ni v (rot_single (nth i A []) ni))
                           end
                  end in
      rot_row_go A (S i) e' acc'
  end.
Definition rot_row (A : list (list K)) (e : expo) : list K :=
  match rot_row_go A 0 e None with
  | None => kupd kzeros 0 1
  | Some (_, v) => v
  end.
Definition krestrict (n : nat) (v : list K) : list K :=
  map (fun pv => if Nat.leb (plo d n) (fst pv) && Nat.ltb (fst pv) (powlrange d n) then snd pv else 0)
      (combine (seq 0 (length v)) v).
(* npowtrans[n][pow2ind[e], :] for deg e = n - 2k *)
Fixpoint rot_nrow (A : list (list K)) (n k : nat) (e : expo) : list K :=
  match k with
  | O => krestrict n (rot_row A e)
  | S k' => fold_left (fun acc i => kvadd acc (rot_nrow A n k' (eadd e (eunit d i 2)))) (seq 0 d) kzeros
  end.
(* rotatedirections(qptrans): table [n][oldp][newp] *)
Definition rot_tabrow (A : list (list K)) (n p : nat) : list K :=
  let e := ind2pow d L p in
  if Nat.leb (deg e) n && Nat.even (n - deg e) then rot_nrow A n (Nat.div (n - deg e) 2) e else kzeros.
Definition rotatedirections (A : list (list K)) : list (list (list K)) :=
  map (fun n => map (rot_tabrow A n) (seq 0 (Npower d L))) (seq 0 (S L)).

(* rotatecoeff(a, npowtrans): None where numpy would raise / index out of the intended range *)
Definition rotate_entry (T : list (list (list K))) (t : entry) : option entry :=
  let '(n, l, c) := t in
  if (n <? 0)%Z || (Z.of_nat L <? n)%Z || Nat.ltb (Z.to_nat n) l then None
  else let nn := Z.to_nat n in
       Some (n, nn, map (fun newp => msum (map (fun pc => msmul V (nth newp (nth (fst pc) (nth nn T []) []) 0) (snd pc))
                                                (combine (seq 0 (length c)) c)))
                        (seq 0 (powlrange d nn))).
Fixpoint rotatecoeff (T : list (list (list K))) (a : expansion) : option expansion :=
  match a with
  | [] => Some []
  | t :: a' => match rotate_entry T t, rotatecoeff T a' with
               | Some t', Some r => Some (t' :: r)
               | _, _ => None
               end
  end.

(* parity-consistent: an entry of order n only has powers p with deg p <= n, deg p = n mod 2 *)
Definition parity_ok_entry (t : entry) : Prop :=
  let '(n, l, c) := t in
  (0 <= n)%Z /\ (n <= Z.of_nat L)%Z /\ l <= Z.to_nat n /\
  forall p, p < length c -> Nat.even (Z.to_nat n - deg (ind2pow d L p)) = false -> nth p c (m0 V) = m0 V.
Definition parity_okb_entry (t : entry) : bool :=
  let '(n, l, c) := t in
  (0 <=? n)%Z && (n <=? Z.of_nat L)%Z && Nat.leb l (Z.to_nat n) &&
  forallb (fun pc => Nat.even (Z.to_nat n - deg (ind2pow d L (fst pc))) || mzerob V (snd pc))
          (combine (seq 0 (length c)) c).
End OneSpace.

(* ---- maps between coefficient spaces: ldot / rdot / __getitem__ / scalar product ---- *)
Section TwoSpaces.
Variables V W : kmod K.
Definition mapcoeff (f : V -> W) (a : expansion V) : expansion W :=
  map (fun t : entry V => let '(n, l, c) := t in (n, l, map f c)) a.
Definition linear (f : V -> W) : Prop :=
  (forall u v, f (madd V u v) = madd W (f u) (f v)) /\ (forall k u, f (msmul V k u) = msmul W k (f u)).
End TwoSpaces.

(* ---- product of expansions through a bilinear map (coeffproductcoeff) ---- *)
Section Product.
Variables A B C : kmod K.
Variable mul : A -> B -> C.

Definition bilinear : Prop :=
  (forall u u' v, mul (madd A u u') v = madd C (mul u v) (mul u' v)) /\
  (forall u v v', mul u (madd B v v') = madd C (mul u v) (mul u v')) /\
  (forall k u v, mul (msmul A k u) v = msmul C k (mul u v)) /\
  (forall k u v, mul u (msmul B k v) = msmul C k (mul u v)).

Fixpoint vupd (acc : list C) (i : nat) (x : C) : list C :=
  match acc with
  | [] => []
  | a :: acc' => match i with O => madd C a x :: acc' | S i' => a :: vupd acc' i' x end
  end.

Definition enumerate {T} (l : list T) : list (nat * T) := combine (seq 0 (length l)) l.

Definition prod_entry (ea : entry A) (eb : entry B) : entry C :=
  let '(an, al, apow) := ea in
  let '(bn, bl, bpow) := eb in
  let cl := Nat.min (Nat.add al bl) L in
  let z := repeat (m0 C) (powlrange d cl) in
  (Z.add an bn, cl,
   fold_left (fun acc pa =>
      fold_left (fun acc pb => vupd acc (zindex (length acc) (directmult d L (fst pa) (fst pb))) (mul (snd pa) (snd pb)))
                (enumerate bpow) acc)
     (enumerate apow) z).

Definition coeffproduct (a : expansion A) (b : expansion B) : expansion C :=
  match a, b with
  | [], _ => []
  | _, [] => []
  | _, _ => sortx C (fold_left (merge_into C)
                       (flat_map (fun ea => map (fun eb => prod_entry ea eb) b) a) [])
  end.
End Product.

(* ---- inversion by the Neumann series (inversecoeff) ---- *)
Section Inverse.
Variable V : kmod K.
Variable vmul : V -> V -> V.
(* Ainv: the inverse of the leading coefficient, supplied from outside (numpy.linalg.inv / 1/x) *)
Definition shiftn (s : Z) (a : expansion V) : expansion V :=
  map (fun t : entry V => let '(n, l, c) := t in (Z.add n s, l, c)) a.

Fixpoint inv_loop (fuel : nat) (leadinvpow Nmax : Z) (Ainv : V) (tail tailn c : expansion V) : expansion V :=
  match fuel with
  | O => c
  | S fuel' =>
      let tailn' := filter (fun t : entry V => let '(n, _, _) := t in (Z.add n leadinvpow <=? Nmax)%Z)
                           (coeffproduct V V V vmul tailn tail) in
      let c' := sumcoeff V 1 c 1 (shiftn leadinvpow (mapcoeff V V (fun v => vmul v Ainv) tailn')) in
      inv_loop fuel' leadinvpow Nmax Ainv tail tailn' c'
  end.

Definition inversecoeff (a : expansion V) (Ainv : V) (Nmax : Z) : option (expansion V) :=
  match sortx V a with
  | [] => None
  | (n0, l0, c0) :: rest =>
      match l0 with
      | S _ => None
      | O =>
        let leadinvpow := (- n0)%Z in
        let c : expansion V := [(leadinvpow, O, [Ainv])] in
        match rest with
        | [] => Some c
        | (n1, _, _) :: _ =>
            if (Z.add leadinvpow n1 <=? 0)%Z then None
            else
              let tail := shiftn leadinvpow (mapcoeff V V (fun v => mneg V (vmul Ainv v)) rest) in
              let t0 := match tail with (n, _, _) :: _ => n | [] => 1%Z end in
              let Nseries := Z.div (Z.sub Nmax leadinvpow) t0 in
              let first := filter (fun t : entry V => let '(n, _, _) := t in (n <=? Nmax)%Z)
                                  (shiftn leadinvpow (mapcoeff V V (fun v => vmul v Ainv) tail)) in
              let c1 := sumcoeff V 1 c 1 first in
              Some (inv_loop (Z.to_nat (Z.sub Nseries 1)) leadinvpow Nmax Ainv tail tail c1)
        end
      end
  end.
End Inverse.

End Expansions.

(* ------------------------------------------------------------------ harmonic projectors --- *)
(* Lproj[l0][p][p'] of the class (Lmax = 4 only, the class constant) as exact rationals
   LprojZ / Dden: the implementation builds these tables in complex floating point from
   sqrt/pi-normalised spherical harmonics (Fourier components in 2-D); the products are rational.
   The literal numerators below were read off the implementation once; that they have the
   property the code relies on (each column p' is a polynomial that agrees with the monomial p'
   on the unit sphere, split into its l0 components) is PROVED in Proofs/Taylor_proofs.v, and the
   implementation's tables are compared with these on every run (harness/c16.py). *)
Definition Lproj3Z : list (list (list Z)) := [
  [[840; 0; 0; 0; 280; 0; 280; 0; 0; 280; 0; 0; 0; 0; 0; 0; 0; 0; 0; 0; 168; 0; 56; 0; 168; 0; 0; 0; 0; 56; 0; 56; 0; 0; 168];
   [0; 0; 0; 0; 0; 0; 0; 0; 0; 0; 0; 0; 0; 0; 0; 0; 0; 0; 0; 0; 0; 0; 0; 0; 0; 0; 0; 0; 0; 0; 0; 0; 0; 0; 0];
   [0; 0; 0; 0; 0; 0; 0; 0; 0; 0; 0; 0; 0; 0; 0; 0; 0; 0; 0; 0; 0; 0; 0; 0; 0; 0; 0; 0; 0; 0; 0; 0; 0; 0; 0];
   [0; 0; 0; 0; 0; 0; 0; 0; 0; 0; 0; 0; 0; 0; 0; 0; 0; 0; 0; 0; 0; 0; 0; 0; 0; 0; 0; 0; 0; 0; 0; 0; 0; 0; 0];
   [0; 0; 0; 0; 0; 0; 0; 0; 0; 0; 0; 0; 0; 0; 0; 0; 0; 0; 0; 0; 0; 0; 0; 0; 0; 0; 0; 0; 0; 0; 0; 0; 0; 0; 0];
   [0; 0; 0; 0; 0; 0; 0; 0; 0; 0; 0; 0; 0; 0; 0; 0; 0; 0; 0; 0; 0; 0; 0; 0; 0; 0; 0; 0; 0; 0; 0; 0; 0; 0; 0];
   [0; 0; 0; 0; 0; 0; 0; 0; 0; 0; 0; 0; 0; 0; 0; 0; 0; 0; 0; 0; 0; 0; 0; 0; 0; 0; 0; 0; 0; 0; 0; 0; 0; 0; 0];
   [0; 0; 0; 0; 0; 0; 0; 0; 0; 0; 0; 0; 0; 0; 0; 0; 0; 0; 0; 0; 0; 0; 0; 0; 0; 0; 0; 0; 0; 0; 0; 0; 0; 0; 0];
   [0; 0; 0; 0; 0; 0; 0; 0; 0; 0; 0; 0; 0; 0; 0; 0; 0; 0; 0; 0; 0; 0; 0; 0; 0; 0; 0; 0; 0; 0; 0; 0; 0; 0; 0];
   [0; 0; 0; 0; 0; 0; 0; 0; 0; 0; 0; 0; 0; 0; 0; 0; 0; 0; 0; 0; 0; 0; 0; 0; 0; 0; 0; 0; 0; 0; 0; 0; 0; 0; 0];
   [0; 0; 0; 0; 0; 0; 0; 0; 0; 0; 0; 0; 0; 0; 0; 0; 0; 0; 0; 0; 0; 0; 0; 0; 0; 0; 0; 0; 0; 0; 0; 0; 0; 0; 0];
   [0; 0; 0; 0; 0; 0; 0; 0; 0; 0; 0; 0; 0; 0; 0; 0; 0; 0; 0; 0; 0; 0; 0; 0; 0; 0; 0; 0; 0; 0; 0; 0; 0; 0; 0];
   [0; 0; 0; 0; 0; 0; 0; 0; 0; 0; 0; 0; 0; 0; 0; 0; 0; 0; 0; 0; 0; 0; 0; 0; 0; 0; 0; 0; 0; 0; 0; 0; 0; 0; 0];
   [0; 0; 0; 0; 0; 0; 0; 0; 0; 0; 0; 0; 0; 0; 0; 0; 0; 0; 0; 0; 0; 0; 0; 0; 0; 0; 0; 0; 0; 0; 0; 0; 0; 0; 0];
   [0; 0; 0; 0; 0; 0; 0; 0; 0; 0; 0; 0; 0; 0; 0; 0; 0; 0; 0; 0; 0; 0; 0; 0; 0; 0; 0; 0; 0; 0; 0; 0; 0; 0; 0];
   [0; 0; 0; 0; 0; 0; 0; 0; 0; 0; 0; 0; 0; 0; 0; 0; 0; 0; 0; 0; 0; 0; 0; 0; 0; 0; 0; 0; 0; 0; 0; 0; 0; 0; 0];
   [0; 0; 0; 0; 0; 0; 0; 0; 0; 0; 0; 0; 0; 0; 0; 0; 0; 0; 0; 0; 0; 0; 0; 0; 0; 0; 0; 0; 0; 0; 0; 0; 0; 0; 0];
   [0; 0; 0; 0; 0; 0; 0; 0; 0; 0; 0; 0; 0; 0; 0; 0; 0; 0; 0; 0; 0; 0; 0; 0; 0; 0; 0; 0; 0; 0; 0; 0; 0; 0; 0];
   [0; 0; 0; 0; 0; 0; 0; 0; 0; 0; 0; 0; 0; 0; 0; 0; 0; 0; 0; 0; 0; 0; 0; 0; 0; 0; 0; 0; 0; 0; 0; 0; 0; 0; 0];
   [0; 0; 0; 0; 0; 0; 0; 0; 0; 0; 0; 0; 0; 0; 0; 0; 0; 0; 0; 0; 0; 0; 0; 0; 0; 0; 0; 0; 0; 0; 0; 0; 0; 0; 0];
   [0; 0; 0; 0; 0; 0; 0; 0; 0; 0; 0; 0; 0; 0; 0; 0; 0; 0; 0; 0; 0; 0; 0; 0; 0; 0; 0; 0; 0; 0; 0; 0; 0; 0; 0];
   [0; 0; 0; 0; 0; 0; 0; 0; 0; 0; 0; 0; 0; 0; 0; 0; 0; 0; 0; 0; 0; 0; 0; 0; 0; 0; 0; 0; 0; 0; 0; 0; 0; 0; 0];
   [0; 0; 0; 0; 0; 0; 0; 0; 0; 0; 0; 0; 0; 0; 0; 0; 0; 0; 0; 0; 0; 0; 0; 0; 0; 0; 0; 0; 0; 0; 0; 0; 0; 0; 0];
   [0; 0; 0; 0; 0; 0; 0; 0; 0; 0; 0; 0; 0; 0; 0; 0; 0; 0; 0; 0; 0; 0; 0; 0; 0; 0; 0; 0; 0; 0; 0; 0; 0; 0; 0];
   [0; 0; 0; 0; 0; 0; 0; 0; 0; 0; 0; 0; 0; 0; 0; 0; 0; 0; 0; 0; 0; 0; 0; 0; 0; 0; 0; 0; 0; 0; 0; 0; 0; 0; 0];
   [0; 0; 0; 0; 0; 0; 0; 0; 0; 0; 0; 0; 0; 0; 0; 0; 0; 0; 0; 0; 0; 0; 0; 0; 0; 0; 0; 0; 0; 0; 0; 0; 0; 0; 0];
   [0; 0; 0; 0; 0; 0; 0; 0; 0; 0; 0; 0; 0; 0; 0; 0; 0; 0; 0; 0; 0; 0; 0; 0; 0; 0; 0; 0; 0; 0; 0; 0; 0; 0; 0];
   [0; 0; 0; 0; 0; 0; 0; 0; 0; 0; 0; 0; 0; 0; 0; 0; 0; 0; 0; 0; 0; 0; 0; 0; 0; 0; 0; 0; 0; 0; 0; 0; 0; 0; 0];
   [0; 0; 0; 0; 0; 0; 0; 0; 0; 0; 0; 0; 0; 0; 0; 0; 0; 0; 0; 0; 0; 0; 0; 0; 0; 0; 0; 0; 0; 0; 0; 0; 0; 0; 0];
   [0; 0; 0; 0; 0; 0; 0; 0; 0; 0; 0; 0; 0; 0; 0; 0; 0; 0; 0; 0; 0; 0; 0; 0; 0; 0; 0; 0; 0; 0; 0; 0; 0; 0; 0];
   [0; 0; 0; 0; 0; 0; 0; 0; 0; 0; 0; 0; 0; 0; 0; 0; 0; 0; 0; 0; 0; 0; 0; 0; 0; 0; 0; 0; 0; 0; 0; 0; 0; 0; 0];
   [0; 0; 0; 0; 0; 0; 0; 0; 0; 0; 0; 0; 0; 0; 0; 0; 0; 0; 0; 0; 0; 0; 0; 0; 0; 0; 0; 0; 0; 0; 0; 0; 0; 0; 0];
   [0; 0; 0; 0; 0; 0; 0; 0; 0; 0; 0; 0; 0; 0; 0; 0; 0; 0; 0; 0; 0; 0; 0; 0; 0; 0; 0; 0; 0; 0; 0; 0; 0; 0; 0];
   [0; 0; 0; 0; 0; 0; 0; 0; 0; 0; 0; 0; 0; 0; 0; 0; 0; 0; 0; 0; 0; 0; 0; 0; 0; 0; 0; 0; 0; 0; 0; 0; 0; 0; 0];
   [0; 0; 0; 0; 0; 0; 0; 0; 0; 0; 0; 0; 0; 0; 0; 0; 0; 0; 0; 0; 0; 0; 0; 0; 0; 0; 0; 0; 0; 0; 0; 0; 0; 0; 0]];
  [[0; 0; 0; 0; 0; 0; 0; 0; 0; 0; 0; 0; 0; 0; 0; 0; 0; 0; 0; 0; 0; 0; 0; 0; 0; 0; 0; 0; 0; 0; 0; 0; 0; 0; 0];
   [0; 840; 0; 0; 0; 0; 0; 0; 0; 0; 504; 0; 168; 0; 0; 0; 0; 168; 0; 0; 0; 0; 0; 0; 0; 0; 0; 0; 0; 0; 0; 0; 0; 0; 0];
   [0; 0; 840; 0; 0; 0; 0; 0; 0; 0; 0; 168; 0; 504; 0; 0; 0; 0; 168; 0; 0; 0; 0; 0; 0; 0; 0; 0; 0; 0; 0; 0; 0; 0; 0];
   [0; 0; 0; 840; 0; 0; 0; 0; 0; 0; 0; 0; 0; 0; 168; 0; 168; 0; 0; 504; 0; 0; 0; 0; 0; 0; 0; 0; 0; 0; 0; 0; 0; 0; 0];
   [0; 0; 0; 0; 0; 0; 0; 0; 0; 0; 0; 0; 0; 0; 0; 0; 0; 0; 0; 0; 0; 0; 0; 0; 0; 0; 0; 0; 0; 0; 0; 0; 0; 0; 0];
   [0; 0; 0; 0; 0; 0; 0; 0; 0; 0; 0; 0; 0; 0; 0; 0; 0; 0; 0; 0; 0; 0; 0; 0; 0; 0; 0; 0; 0; 0; 0; 0; 0; 0; 0];
   [0; 0; 0; 0; 0; 0; 0; 0; 0; 0; 0; 0; 0; 0; 0; 0; 0; 0; 0; 0; 0; 0; 0; 0; 0; 0; 0; 0; 0; 0; 0; 0; 0; 0; 0];
   [0; 0; 0; 0; 0; 0; 0; 0; 0; 0; 0; 0; 0; 0; 0; 0; 0; 0; 0; 0; 0; 0; 0; 0; 0; 0; 0; 0; 0; 0; 0; 0; 0; 0; 0];
   [0; 0; 0; 0; 0; 0; 0; 0; 0; 0; 0; 0; 0; 0; 0; 0; 0; 0; 0; 0; 0; 0; 0; 0; 0; 0; 0; 0; 0; 0; 0; 0; 0; 0; 0];
   [0; 0; 0; 0; 0; 0; 0; 0; 0; 0; 0; 0; 0; 0; 0; 0; 0; 0; 0; 0; 0; 0; 0; 0; 0; 0; 0; 0; 0; 0; 0; 0; 0; 0; 0];
   [0; 0; 0; 0; 0; 0; 0; 0; 0; 0; 0; 0; 0; 0; 0; 0; 0; 0; 0; 0; 0; 0; 0; 0; 0; 0; 0; 0; 0; 0; 0; 0; 0; 0; 0];
   [0; 0; 0; 0; 0; 0; 0; 0; 0; 0; 0; 0; 0; 0; 0; 0; 0; 0; 0; 0; 0; 0; 0; 0; 0; 0; 0; 0; 0; 0; 0; 0; 0; 0; 0];
   [0; 0; 0; 0; 0; 0; 0; 0; 0; 0; 0; 0; 0; 0; 0; 0; 0; 0; 0; 0; 0; 0; 0; 0; 0; 0; 0; 0; 0; 0; 0; 0; 0; 0; 0];
   [0; 0; 0; 0; 0; 0; 0; 0; 0; 0; 0; 0; 0; 0; 0; 0; 0; 0; 0; 0; 0; 0; 0; 0; 0; 0; 0; 0; 0; 0; 0; 0; 0; 0; 0];
   [0; 0; 0; 0; 0; 0; 0; 0; 0; 0; 0; 0; 0; 0; 0; 0; 0; 0; 0; 0; 0; 0; 0; 0; 0; 0; 0; 0; 0; 0; 0; 0; 0; 0; 0];
   [0; 0; 0; 0; 0; 0; 0; 0; 0; 0; 0; 0; 0; 0; 0; 0; 0; 0; 0; 0; 0; 0; 0; 0; 0; 0; 0; 0; 0; 0; 0; 0; 0; 0; 0];
   [0; 0; 0; 0; 0; 0; 0; 0; 0; 0; 0; 0; 0; 0; 0; 0; 0; 0; 0; 0; 0; 0; 0; 0; 0; 0; 0; 0; 0; 0; 0; 0; 0; 0; 0];
   [0; 0; 0; 0; 0; 0; 0; 0; 0; 0; 0; 0; 0; 0; 0; 0; 0; 0; 0; 0; 0; 0; 0; 0; 0; 0; 0; 0; 0; 0; 0; 0; 0; 0; 0];
   [0; 0; 0; 0; 0; 0; 0; 0; 0; 0; 0; 0; 0; 0; 0; 0; 0; 0; 0; 0; 0; 0; 0; 0; 0; 0; 0; 0; 0; 0; 0; 0; 0; 0; 0];
   [0; 0; 0; 0; 0; 0; 0; 0; 0; 0; 0; 0; 0; 0; 0; 0; 0; 0; 0; 0; 0; 0; 0; 0; 0; 0; 0; 0; 0; 0; 0; 0; 0; 0; 0];
   [0; 0; 0; 0; 0; 0; 0; 0; 0; 0; 0; 0; 0; 0; 0; 0; 0; 0; 0; 0; 0; 0; 0; 0; 0; 0; 0; 0; 0; 0; 0; 0; 0; 0; 0];
   [0; 0; 0; 0; 0; 0; 0; 0; 0; 0; 0; 0; 0; 0; 0; 0; 0; 0; 0; 0; 0; 0; 0; 0; 0; 0; 0; 0; 0; 0; 0; 0; 0; 0; 0];
   [0; 0; 0; 0; 0; 0; 0; 0; 0; 0; 0; 0; 0; 0; 0; 0; 0; 0; 0; 0; 0; 0; 0; 0; 0; 0; 0; 0; 0; 0; 0; 0; 0; 0; 0];
   [0; 0; 0; 0; 0; 0; 0; 0; 0; 0; 0; 0; 0; 0; 0; 0; 0; 0; 0; 0; 0; 0; 0; 0; 0; 0; 0; 0; 0; 0; 0; 0; 0; 0; 0];
   [0; 0; 0; 0; 0; 0; 0; 0; 0; 0; 0; 0; 0; 0; 0; 0; 0; 0; 0; 0; 0; 0; 0; 0; 0; 0; 0; 0; 0; 0; 0; 0; 0; 0; 0];
   [0; 0; 0; 0; 0; 0; 0; 0; 0; 0; 0; 0; 0; 0; 0; 0; 0; 0; 0; 0; 0; 0; 0; 0; 0; 0; 0; 0; 0; 0; 0; 0; 0; 0; 0];
   [0; 0; 0; 0; 0; 0; 0; 0; 0; 0; 0; 0; 0; 0; 0; 0; 0; 0; 0; 0; 0; 0; 0; 0; 0; 0; 0; 0; 0; 0; 0; 0; 0; 0; 0];
   [0; 0; 0; 0; 0; 0; 0; 0; 0; 0; 0; 0; 0; 0; 0; 0; 0; 0; 0; 0; 0; 0; 0; 0; 0; 0; 0; 0; 0; 0; 0; 0; 0; 0; 0];
   [0; 0; 0; 0; 0; 0; 0; 0; 0; 0; 0; 0; 0; 0; 0; 0; 0; 0; 0; 0; 0; 0; 0; 0; 0; 0; 0; 0; 0; 0; 0; 0; 0; 0; 0];
   [0; 0; 0; 0; 0; 0; 0; 0; 0; 0; 0; 0; 0; 0; 0; 0; 0; 0; 0; 0; 0; 0; 0; 0; 0; 0; 0; 0; 0; 0; 0; 0; 0; 0; 0];
   [0; 0; 0; 0; 0; 0; 0; 0; 0; 0; 0; 0; 0; 0; 0; 0; 0; 0; 0; 0; 0; 0; 0; 0; 0; 0; 0; 0; 0; 0; 0; 0; 0; 0; 0];
   [0; 0; 0; 0; 0; 0; 0; 0; 0; 0; 0; 0; 0; 0; 0; 0; 0; 0; 0; 0; 0; 0; 0; 0; 0; 0; 0; 0; 0; 0; 0; 0; 0; 0; 0];
   [0; 0; 0; 0; 0; 0; 0; 0; 0; 0; 0; 0; 0; 0; 0; 0; 0; 0; 0; 0; 0; 0; 0; 0; 0; 0; 0; 0; 0; 0; 0; 0; 0; 0; 0];
   [0; 0; 0; 0; 0; 0; 0; 0; 0; 0; 0; 0; 0; 0; 0; 0; 0; 0; 0; 0; 0; 0; 0; 0; 0; 0; 0; 0; 0; 0; 0; 0; 0; 0; 0];
   [0; 0; 0; 0; 0; 0; 0; 0; 0; 0; 0; 0; 0; 0; 0; 0; 0; 0; 0; 0; 0; 0; 0; 0; 0; 0; 0; 0; 0; 0; 0; 0; 0; 0; 0]];
  [[0; 0; 0; 0; (-280); 0; 140; 0; 0; 140; 0; 0; 0; 0; 0; 0; 0; 0; 0; 0; (-240); 0; (-20); 0; 120; 0; 0; 0; 0; (-20); 0; 40; 0; 0; 120];
   [0; 0; 0; 0; 0; 0; 0; 0; 0; 0; 0; 0; 0; 0; 0; 0; 0; 0; 0; 0; 0; 0; 0; 0; 0; 0; 0; 0; 0; 0; 0; 0; 0; 0; 0];
   [0; 0; 0; 0; 0; 0; 0; 0; 0; 0; 0; 0; 0; 0; 0; 0; 0; 0; 0; 0; 0; 0; 0; 0; 0; 0; 0; 0; 0; 0; 0; 0; 0; 0; 0];
   [0; 0; 0; 0; 0; 0; 0; 0; 0; 0; 0; 0; 0; 0; 0; 0; 0; 0; 0; 0; 0; 0; 0; 0; 0; 0; 0; 0; 0; 0; 0; 0; 0; 0; 0];
   [0; 0; 0; 0; 840; 0; (-420); 0; 0; (-420); 0; 0; 0; 0; 0; 0; 0; 0; 0; 0; 720; 0; 60; 0; (-360); 0; 0; 0; 0; 60; 0; (-120); 0; 0; (-360)];
   [0; 0; 0; 0; 0; 840; 0; 0; 0; 0; 0; 0; 0; 0; 0; 0; 0; 0; 0; 0; 0; 360; 0; 360; 0; 0; 0; 0; 0; 0; 120; 0; 0; 0; 0];
   [0; 0; 0; 0; 0; 0; 420; 0; 0; (-420); 0; 0; 0; 0; 0; 0; 0; 0; 0; 0; 0; 0; 60; 0; 360; 0; 0; 0; 0; (-60); 0; 0; 0; 0; (-360)];
   [0; 0; 0; 0; 0; 0; 0; 840; 0; 0; 0; 0; 0; 0; 0; 0; 0; 0; 0; 0; 0; 0; 0; 0; 0; 360; 0; 120; 0; 0; 0; 0; 360; 0; 0];
   [0; 0; 0; 0; 0; 0; 0; 0; 840; 0; 0; 0; 0; 0; 0; 0; 0; 0; 0; 0; 0; 0; 0; 0; 0; 0; 120; 0; 360; 0; 0; 0; 0; 360; 0];
   [0; 0; 0; 0; 0; 0; (-420); 0; 0; 420; 0; 0; 0; 0; 0; 0; 0; 0; 0; 0; 0; 0; (-60); 0; (-360); 0; 0; 0; 0; 60; 0; 0; 0; 0; 360];
   [0; 0; 0; 0; 0; 0; 0; 0; 0; 0; 0; 0; 0; 0; 0; 0; 0; 0; 0; 0; 0; 0; 0; 0; 0; 0; 0; 0; 0; 0; 0; 0; 0; 0; 0];
   [0; 0; 0; 0; 0; 0; 0; 0; 0; 0; 0; 0; 0; 0; 0; 0; 0; 0; 0; 0; 0; 0; 0; 0; 0; 0; 0; 0; 0; 0; 0; 0; 0; 0; 0];
   [0; 0; 0; 0; 0; 0; 0; 0; 0; 0; 0; 0; 0; 0; 0; 0; 0; 0; 0; 0; 0; 0; 0; 0; 0; 0; 0; 0; 0; 0; 0; 0; 0; 0; 0];
   [0; 0; 0; 0; 0; 0; 0; 0; 0; 0; 0; 0; 0; 0; 0; 0; 0; 0; 0; 0; 0; 0; 0; 0; 0; 0; 0; 0; 0; 0; 0; 0; 0; 0; 0];
   [0; 0; 0; 0; 0; 0; 0; 0; 0; 0; 0; 0; 0; 0; 0; 0; 0; 0; 0; 0; 0; 0; 0; 0; 0; 0; 0; 0; 0; 0; 0; 0; 0; 0; 0];
   [0; 0; 0; 0; 0; 0; 0; 0; 0; 0; 0; 0; 0; 0; 0; 0; 0; 0; 0; 0; 0; 0; 0; 0; 0; 0; 0; 0; 0; 0; 0; 0; 0; 0; 0];
   [0; 0; 0; 0; 0; 0; 0; 0; 0; 0; 0; 0; 0; 0; 0; 0; 0; 0; 0; 0; 0; 0; 0; 0; 0; 0; 0; 0; 0; 0; 0; 0; 0; 0; 0];
   [0; 0; 0; 0; 0; 0; 0; 0; 0; 0; 0; 0; 0; 0; 0; 0; 0; 0; 0; 0; 0; 0; 0; 0; 0; 0; 0; 0; 0; 0; 0; 0; 0; 0; 0];
   [0; 0; 0; 0; 0; 0; 0; 0; 0; 0; 0; 0; 0; 0; 0; 0; 0; 0; 0; 0; 0; 0; 0; 0; 0; 0; 0; 0; 0; 0; 0; 0; 0; 0; 0];
   [0; 0; 0; 0; 0; 0; 0; 0; 0; 0; 0; 0; 0; 0; 0; 0; 0; 0; 0; 0; 0; 0; 0; 0; 0; 0; 0; 0; 0; 0; 0; 0; 0; 0; 0];
   [0; 0; 0; 0; 0; 0; 0; 0; 0; 0; 0; 0; 0; 0; 0; 0; 0; 0; 0; 0; 0; 0; 0; 0; 0; 0; 0; 0; 0; 0; 0; 0; 0; 0; 0];
   [0; 0; 0; 0; 0; 0; 0; 0; 0; 0; 0; 0; 0; 0; 0; 0; 0; 0; 0; 0; 0; 0; 0; 0; 0; 0; 0; 0; 0; 0; 0; 0; 0; 0; 0];
   [0; 0; 0; 0; 0; 0; 0; 0; 0; 0; 0; 0; 0; 0; 0; 0; 0; 0; 0; 0; 0; 0; 0; 0; 0; 0; 0; 0; 0; 0; 0; 0; 0; 0; 0];
   [0; 0; 0; 0; 0; 0; 0; 0; 0; 0; 0; 0; 0; 0; 0; 0; 0; 0; 0; 0; 0; 0; 0; 0; 0; 0; 0; 0; 0; 0; 0; 0; 0; 0; 0];
   [0; 0; 0; 0; 0; 0; 0; 0; 0; 0; 0; 0; 0; 0; 0; 0; 0; 0; 0; 0; 0; 0; 0; 0; 0; 0; 0; 0; 0; 0; 0; 0; 0; 0; 0];
   [0; 0; 0; 0; 0; 0; 0; 0; 0; 0; 0; 0; 0; 0; 0; 0; 0; 0; 0; 0; 0; 0; 0; 0; 0; 0; 0; 0; 0; 0; 0; 0; 0; 0; 0];
   [0; 0; 0; 0; 0; 0; 0; 0; 0; 0; 0; 0; 0; 0; 0; 0; 0; 0; 0; 0; 0; 0; 0; 0; 0; 0; 0; 0; 0; 0; 0; 0; 0; 0; 0];
   [0; 0; 0; 0; 0; 0; 0; 0; 0; 0; 0; 0; 0; 0; 0; 0; 0; 0; 0; 0; 0; 0; 0; 0; 0; 0; 0; 0; 0; 0; 0; 0; 0; 0; 0];
   [0; 0; 0; 0; 0; 0; 0; 0; 0; 0; 0; 0; 0; 0; 0; 0; 0; 0; 0; 0; 0; 0; 0; 0; 0; 0; 0; 0; 0; 0; 0; 0; 0; 0; 0];
   [0; 0; 0; 0; 0; 0; 0; 0; 0; 0; 0; 0; 0; 0; 0; 0; 0; 0; 0; 0; 0; 0; 0; 0; 0; 0; 0; 0; 0; 0; 0; 0; 0; 0; 0];
   [0; 0; 0; 0; 0; 0; 0; 0; 0; 0; 0; 0; 0; 0; 0; 0; 0; 0; 0; 0; 0; 0; 0; 0; 0; 0; 0; 0; 0; 0; 0; 0; 0; 0; 0];
   [0; 0; 0; 0; 0; 0; 0; 0; 0; 0; 0; 0; 0; 0; 0; 0; 0; 0; 0; 0; 0; 0; 0; 0; 0; 0; 0; 0; 0; 0; 0; 0; 0; 0; 0];
   [0; 0; 0; 0; 0; 0; 0; 0; 0; 0; 0; 0; 0; 0; 0; 0; 0; 0; 0; 0; 0; 0; 0; 0; 0; 0; 0; 0; 0; 0; 0; 0; 0; 0; 0];
   [0; 0; 0; 0; 0; 0; 0; 0; 0; 0; 0; 0; 0; 0; 0; 0; 0; 0; 0; 0; 0; 0; 0; 0; 0; 0; 0; 0; 0; 0; 0; 0; 0; 0; 0];
   [0; 0; 0; 0; 0; 0; 0; 0; 0; 0; 0; 0; 0; 0; 0; 0; 0; 0; 0; 0; 0; 0; 0; 0; 0; 0; 0; 0; 0; 0; 0; 0; 0; 0; 0]];
  [[0; 0; 0; 0; 0; 0; 0; 0; 0; 0; 0; 0; 0; 0; 0; 0; 0; 0; 0; 0; 0; 0; 0; 0; 0; 0; 0; 0; 0; 0; 0; 0; 0; 0; 0];
   [0; 0; 0; 0; 0; 0; 0; 0; 0; 0; (-504); 0; 252; 0; 0; 0; 0; 252; 0; 0; 0; 0; 0; 0; 0; 0; 0; 0; 0; 0; 0; 0; 0; 0; 0];
   [0; 0; 0; 0; 0; 0; 0; 0; 0; 0; 0; (-168); 0; 126; 0; 0; 0; 0; 42; 0; 0; 0; 0; 0; 0; 0; 0; 0; 0; 0; 0; 0; 0; 0; 0];
   [0; 0; 0; 0; 0; 0; 0; 0; 0; 0; 0; 0; 0; 0; (-168); 0; 42; 0; 0; 126; 0; 0; 0; 0; 0; 0; 0; 0; 0; 0; 0; 0; 0; 0; 0];
   [0; 0; 0; 0; 0; 0; 0; 0; 0; 0; 0; 0; 0; 0; 0; 0; 0; 0; 0; 0; 0; 0; 0; 0; 0; 0; 0; 0; 0; 0; 0; 0; 0; 0; 0];
   [0; 0; 0; 0; 0; 0; 0; 0; 0; 0; 0; 0; 0; 0; 0; 0; 0; 0; 0; 0; 0; 0; 0; 0; 0; 0; 0; 0; 0; 0; 0; 0; 0; 0; 0];
   [0; 0; 0; 0; 0; 0; 0; 0; 0; 0; 0; 0; 0; 0; 0; 0; 0; 0; 0; 0; 0; 0; 0; 0; 0; 0; 0; 0; 0; 0; 0; 0; 0; 0; 0];
   [0; 0; 0; 0; 0; 0; 0; 0; 0; 0; 0; 0; 0; 0; 0; 0; 0; 0; 0; 0; 0; 0; 0; 0; 0; 0; 0; 0; 0; 0; 0; 0; 0; 0; 0];
   [0; 0; 0; 0; 0; 0; 0; 0; 0; 0; 0; 0; 0; 0; 0; 0; 0; 0; 0; 0; 0; 0; 0; 0; 0; 0; 0; 0; 0; 0; 0; 0; 0; 0; 0];
   [0; 0; 0; 0; 0; 0; 0; 0; 0; 0; 0; 0; 0; 0; 0; 0; 0; 0; 0; 0; 0; 0; 0; 0; 0; 0; 0; 0; 0; 0; 0; 0; 0; 0; 0];
   [0; 0; 0; 0; 0; 0; 0; 0; 0; 0; 840; 0; (-420); 0; 0; 0; 0; (-420); 0; 0; 0; 0; 0; 0; 0; 0; 0; 0; 0; 0; 0; 0; 0; 0; 0];
   [0; 0; 0; 0; 0; 0; 0; 0; 0; 0; 0; 840; 0; (-630); 0; 0; 0; 0; (-210); 0; 0; 0; 0; 0; 0; 0; 0; 0; 0; 0; 0; 0; 0; 0; 0];
   [0; 0; 0; 0; 0; 0; 0; 0; 0; 0; 0; 0; 420; 0; 0; 0; 0; (-420); 0; 0; 0; 0; 0; 0; 0; 0; 0; 0; 0; 0; 0; 0; 0; 0; 0];
   [0; 0; 0; 0; 0; 0; 0; 0; 0; 0; 0; 0; 0; 210; 0; 0; 0; 0; (-210); 0; 0; 0; 0; 0; 0; 0; 0; 0; 0; 0; 0; 0; 0; 0; 0];
   [0; 0; 0; 0; 0; 0; 0; 0; 0; 0; 0; 0; 0; 0; 840; 0; (-210); 0; 0; (-630); 0; 0; 0; 0; 0; 0; 0; 0; 0; 0; 0; 0; 0; 0; 0];
   [0; 0; 0; 0; 0; 0; 0; 0; 0; 0; 0; 0; 0; 0; 0; 840; 0; 0; 0; 0; 0; 0; 0; 0; 0; 0; 0; 0; 0; 0; 0; 0; 0; 0; 0];
   [0; 0; 0; 0; 0; 0; 0; 0; 0; 0; 0; 0; 0; 0; 0; 0; 630; 0; 0; (-630); 0; 0; 0; 0; 0; 0; 0; 0; 0; 0; 0; 0; 0; 0; 0];
   [0; 0; 0; 0; 0; 0; 0; 0; 0; 0; 0; 0; (-420); 0; 0; 0; 0; 420; 0; 0; 0; 0; 0; 0; 0; 0; 0; 0; 0; 0; 0; 0; 0; 0; 0];
   [0; 0; 0; 0; 0; 0; 0; 0; 0; 0; 0; 0; 0; (-630); 0; 0; 0; 0; 630; 0; 0; 0; 0; 0; 0; 0; 0; 0; 0; 0; 0; 0; 0; 0; 0];
   [0; 0; 0; 0; 0; 0; 0; 0; 0; 0; 0; 0; 0; 0; 0; 0; (-210); 0; 0; 210; 0; 0; 0; 0; 0; 0; 0; 0; 0; 0; 0; 0; 0; 0; 0];
   [0; 0; 0; 0; 0; 0; 0; 0; 0; 0; 0; 0; 0; 0; 0; 0; 0; 0; 0; 0; 0; 0; 0; 0; 0; 0; 0; 0; 0; 0; 0; 0; 0; 0; 0];
   [0; 0; 0; 0; 0; 0; 0; 0; 0; 0; 0; 0; 0; 0; 0; 0; 0; 0; 0; 0; 0; 0; 0; 0; 0; 0; 0; 0; 0; 0; 0; 0; 0; 0; 0];
   [0; 0; 0; 0; 0; 0; 0; 0; 0; 0; 0; 0; 0; 0; 0; 0; 0; 0; 0; 0; 0; 0; 0; 0; 0; 0; 0; 0; 0; 0; 0; 0; 0; 0; 0];
   [0; 0; 0; 0; 0; 0; 0; 0; 0; 0; 0; 0; 0; 0; 0; 0; 0; 0; 0; 0; 0; 0; 0; 0; 0; 0; 0; 0; 0; 0; 0; 0; 0; 0; 0];
   [0; 0; 0; 0; 0; 0; 0; 0; 0; 0; 0; 0; 0; 0; 0; 0; 0; 0; 0; 0; 0; 0; 0; 0; 0; 0; 0; 0; 0; 0; 0; 0; 0; 0; 0];
   [0; 0; 0; 0; 0; 0; 0; 0; 0; 0; 0; 0; 0; 0; 0; 0; 0; 0; 0; 0; 0; 0; 0; 0; 0; 0; 0; 0; 0; 0; 0; 0; 0; 0; 0];
   [0; 0; 0; 0; 0; 0; 0; 0; 0; 0; 0; 0; 0; 0; 0; 0; 0; 0; 0; 0; 0; 0; 0; 0; 0; 0; 0; 0; 0; 0; 0; 0; 0; 0; 0];
   [0; 0; 0; 0; 0; 0; 0; 0; 0; 0; 0; 0; 0; 0; 0; 0; 0; 0; 0; 0; 0; 0; 0; 0; 0; 0; 0; 0; 0; 0; 0; 0; 0; 0; 0];
   [0; 0; 0; 0; 0; 0; 0; 0; 0; 0; 0; 0; 0; 0; 0; 0; 0; 0; 0; 0; 0; 0; 0; 0; 0; 0; 0; 0; 0; 0; 0; 0; 0; 0; 0];
   [0; 0; 0; 0; 0; 0; 0; 0; 0; 0; 0; 0; 0; 0; 0; 0; 0; 0; 0; 0; 0; 0; 0; 0; 0; 0; 0; 0; 0; 0; 0; 0; 0; 0; 0];
   [0; 0; 0; 0; 0; 0; 0; 0; 0; 0; 0; 0; 0; 0; 0; 0; 0; 0; 0; 0; 0; 0; 0; 0; 0; 0; 0; 0; 0; 0; 0; 0; 0; 0; 0];
   [0; 0; 0; 0; 0; 0; 0; 0; 0; 0; 0; 0; 0; 0; 0; 0; 0; 0; 0; 0; 0; 0; 0; 0; 0; 0; 0; 0; 0; 0; 0; 0; 0; 0; 0];
   [0; 0; 0; 0; 0; 0; 0; 0; 0; 0; 0; 0; 0; 0; 0; 0; 0; 0; 0; 0; 0; 0; 0; 0; 0; 0; 0; 0; 0; 0; 0; 0; 0; 0; 0];
   [0; 0; 0; 0; 0; 0; 0; 0; 0; 0; 0; 0; 0; 0; 0; 0; 0; 0; 0; 0; 0; 0; 0; 0; 0; 0; 0; 0; 0; 0; 0; 0; 0; 0; 0];
   [0; 0; 0; 0; 0; 0; 0; 0; 0; 0; 0; 0; 0; 0; 0; 0; 0; 0; 0; 0; 0; 0; 0; 0; 0; 0; 0; 0; 0; 0; 0; 0; 0; 0; 0]];
  [[0; 0; 0; 0; 0; 0; 0; 0; 0; 0; 0; 0; 0; 0; 0; 0; 0; 0; 0; 0; 72; 0; (-36); 0; 27; 0; 0; 0; 0; (-36); 0; 9; 0; 0; 27];
   [0; 0; 0; 0; 0; 0; 0; 0; 0; 0; 0; 0; 0; 0; 0; 0; 0; 0; 0; 0; 0; 0; 0; 0; 0; 0; 0; 0; 0; 0; 0; 0; 0; 0; 0];
   [0; 0; 0; 0; 0; 0; 0; 0; 0; 0; 0; 0; 0; 0; 0; 0; 0; 0; 0; 0; 0; 0; 0; 0; 0; 0; 0; 0; 0; 0; 0; 0; 0; 0; 0];
   [0; 0; 0; 0; 0; 0; 0; 0; 0; 0; 0; 0; 0; 0; 0; 0; 0; 0; 0; 0; 0; 0; 0; 0; 0; 0; 0; 0; 0; 0; 0; 0; 0; 0; 0];
   [0; 0; 0; 0; 0; 0; 0; 0; 0; 0; 0; 0; 0; 0; 0; 0; 0; 0; 0; 0; (-720); 0; 360; 0; (-270); 0; 0; 0; 0; 360; 0; (-90); 0; 0; (-270)];
   [0; 0; 0; 0; 0; 0; 0; 0; 0; 0; 0; 0; 0; 0; 0; 0; 0; 0; 0; 0; 0; (-360); 0; 270; 0; 0; 0; 0; 0; 0; 90; 0; 0; 0; 0];
   [0; 0; 0; 0; 0; 0; 0; 0; 0; 0; 0; 0; 0; 0; 0; 0; 0; 0; 0; 0; 0; 0; (-60); 0; 60; 0; 0; 0; 0; 60; 0; 0; 0; 0; (-60)];
   [0; 0; 0; 0; 0; 0; 0; 0; 0; 0; 0; 0; 0; 0; 0; 0; 0; 0; 0; 0; 0; 0; 0; 0; 0; (-360); 0; 90; 0; 0; 0; 0; 270; 0; 0];
   [0; 0; 0; 0; 0; 0; 0; 0; 0; 0; 0; 0; 0; 0; 0; 0; 0; 0; 0; 0; 0; 0; 0; 0; 0; 0; (-120); 0; 60; 0; 0; 0; 0; 60; 0];
   [0; 0; 0; 0; 0; 0; 0; 0; 0; 0; 0; 0; 0; 0; 0; 0; 0; 0; 0; 0; 0; 0; 60; 0; (-60); 0; 0; 0; 0; (-60); 0; 0; 0; 0; 60];
   [0; 0; 0; 0; 0; 0; 0; 0; 0; 0; 0; 0; 0; 0; 0; 0; 0; 0; 0; 0; 0; 0; 0; 0; 0; 0; 0; 0; 0; 0; 0; 0; 0; 0; 0];
   [0; 0; 0; 0; 0; 0; 0; 0; 0; 0; 0; 0; 0; 0; 0; 0; 0; 0; 0; 0; 0; 0; 0; 0; 0; 0; 0; 0; 0; 0; 0; 0; 0; 0; 0];
   [0; 0; 0; 0; 0; 0; 0; 0; 0; 0; 0; 0; 0; 0; 0; 0; 0; 0; 0; 0; 0; 0; 0; 0; 0; 0; 0; 0; 0; 0; 0; 0; 0; 0; 0];
   [0; 0; 0; 0; 0; 0; 0; 0; 0; 0; 0; 0; 0; 0; 0; 0; 0; 0; 0; 0; 0; 0; 0; 0; 0; 0; 0; 0; 0; 0; 0; 0; 0; 0; 0];
   [0; 0; 0; 0; 0; 0; 0; 0; 0; 0; 0; 0; 0; 0; 0; 0; 0; 0; 0; 0; 0; 0; 0; 0; 0; 0; 0; 0; 0; 0; 0; 0; 0; 0; 0];
   [0; 0; 0; 0; 0; 0; 0; 0; 0; 0; 0; 0; 0; 0; 0; 0; 0; 0; 0; 0; 0; 0; 0; 0; 0; 0; 0; 0; 0; 0; 0; 0; 0; 0; 0];
   [0; 0; 0; 0; 0; 0; 0; 0; 0; 0; 0; 0; 0; 0; 0; 0; 0; 0; 0; 0; 0; 0; 0; 0; 0; 0; 0; 0; 0; 0; 0; 0; 0; 0; 0];
   [0; 0; 0; 0; 0; 0; 0; 0; 0; 0; 0; 0; 0; 0; 0; 0; 0; 0; 0; 0; 0; 0; 0; 0; 0; 0; 0; 0; 0; 0; 0; 0; 0; 0; 0];
   [0; 0; 0; 0; 0; 0; 0; 0; 0; 0; 0; 0; 0; 0; 0; 0; 0; 0; 0; 0; 0; 0; 0; 0; 0; 0; 0; 0; 0; 0; 0; 0; 0; 0; 0];
   [0; 0; 0; 0; 0; 0; 0; 0; 0; 0; 0; 0; 0; 0; 0; 0; 0; 0; 0; 0; 0; 0; 0; 0; 0; 0; 0; 0; 0; 0; 0; 0; 0; 0; 0];
   [0; 0; 0; 0; 0; 0; 0; 0; 0; 0; 0; 0; 0; 0; 0; 0; 0; 0; 0; 0; 840; 0; (-420); 0; 315; 0; 0; 0; 0; (-420); 0; 105; 0; 0; 315];
   [0; 0; 0; 0; 0; 0; 0; 0; 0; 0; 0; 0; 0; 0; 0; 0; 0; 0; 0; 0; 0; 840; 0; (-630); 0; 0; 0; 0; 0; 0; (-210); 0; 0; 0; 0];
   [0; 0; 0; 0; 0; 0; 0; 0; 0; 0; 0; 0; 0; 0; 0; 0; 0; 0; 0; 0; 0; 0; 420; 0; (-420); 0; 0; 0; 0; (-420); 0; 0; 0; 0; 420];
   [0; 0; 0; 0; 0; 0; 0; 0; 0; 0; 0; 0; 0; 0; 0; 0; 0; 0; 0; 0; 0; 0; 0; 210; 0; 0; 0; 0; 0; 0; (-210); 0; 0; 0; 0];
   [0; 0; 0; 0; 0; 0; 0; 0; 0; 0; 0; 0; 0; 0; 0; 0; 0; 0; 0; 0; 0; 0; 0; 0; 105; 0; 0; 0; 0; 0; 0; (-105); 0; 0; 105];
   [0; 0; 0; 0; 0; 0; 0; 0; 0; 0; 0; 0; 0; 0; 0; 0; 0; 0; 0; 0; 0; 0; 0; 0; 0; 840; 0; (-210); 0; 0; 0; 0; (-630); 0; 0];
   [0; 0; 0; 0; 0; 0; 0; 0; 0; 0; 0; 0; 0; 0; 0; 0; 0; 0; 0; 0; 0; 0; 0; 0; 0; 0; 840; 0; (-420); 0; 0; 0; 0; (-420); 0];
   [0; 0; 0; 0; 0; 0; 0; 0; 0; 0; 0; 0; 0; 0; 0; 0; 0; 0; 0; 0; 0; 0; 0; 0; 0; 0; 0; 630; 0; 0; 0; 0; (-630); 0; 0];
   [0; 0; 0; 0; 0; 0; 0; 0; 0; 0; 0; 0; 0; 0; 0; 0; 0; 0; 0; 0; 0; 0; 0; 0; 0; 0; 0; 0; 420; 0; 0; 0; 0; (-420); 0];
   [0; 0; 0; 0; 0; 0; 0; 0; 0; 0; 0; 0; 0; 0; 0; 0; 0; 0; 0; 0; 0; 0; (-420); 0; 420; 0; 0; 0; 0; 420; 0; 0; 0; 0; (-420)];
   [0; 0; 0; 0; 0; 0; 0; 0; 0; 0; 0; 0; 0; 0; 0; 0; 0; 0; 0; 0; 0; 0; 0; (-630); 0; 0; 0; 0; 0; 0; 630; 0; 0; 0; 0];
   [0; 0; 0; 0; 0; 0; 0; 0; 0; 0; 0; 0; 0; 0; 0; 0; 0; 0; 0; 0; 0; 0; 0; 0; (-630); 0; 0; 0; 0; 0; 0; 630; 0; 0; (-630)];
   [0; 0; 0; 0; 0; 0; 0; 0; 0; 0; 0; 0; 0; 0; 0; 0; 0; 0; 0; 0; 0; 0; 0; 0; 0; 0; 0; (-210); 0; 0; 0; 0; 210; 0; 0];
   [0; 0; 0; 0; 0; 0; 0; 0; 0; 0; 0; 0; 0; 0; 0; 0; 0; 0; 0; 0; 0; 0; 0; 0; 0; 0; 0; 0; (-420); 0; 0; 0; 0; 420; 0];
   [0; 0; 0; 0; 0; 0; 0; 0; 0; 0; 0; 0; 0; 0; 0; 0; 0; 0; 0; 0; 0; 0; 0; 0; 105; 0; 0; 0; 0; 0; 0; (-105); 0; 0; 105]]
]%Z.

Definition Lproj2Z : list (list (list Z)) := [
  [[8; 0; 0; 4; 0; 4; 0; 0; 0; 0; 3; 0; 1; 0; 3];
   [0; 0; 0; 0; 0; 0; 0; 0; 0; 0; 0; 0; 0; 0; 0];
   [0; 0; 0; 0; 0; 0; 0; 0; 0; 0; 0; 0; 0; 0; 0];
   [0; 0; 0; 0; 0; 0; 0; 0; 0; 0; 0; 0; 0; 0; 0];
   [0; 0; 0; 0; 0; 0; 0; 0; 0; 0; 0; 0; 0; 0; 0];
   [0; 0; 0; 0; 0; 0; 0; 0; 0; 0; 0; 0; 0; 0; 0];
   [0; 0; 0; 0; 0; 0; 0; 0; 0; 0; 0; 0; 0; 0; 0];
   [0; 0; 0; 0; 0; 0; 0; 0; 0; 0; 0; 0; 0; 0; 0];
   [0; 0; 0; 0; 0; 0; 0; 0; 0; 0; 0; 0; 0; 0; 0];
   [0; 0; 0; 0; 0; 0; 0; 0; 0; 0; 0; 0; 0; 0; 0];
   [0; 0; 0; 0; 0; 0; 0; 0; 0; 0; 0; 0; 0; 0; 0];
   [0; 0; 0; 0; 0; 0; 0; 0; 0; 0; 0; 0; 0; 0; 0];
   [0; 0; 0; 0; 0; 0; 0; 0; 0; 0; 0; 0; 0; 0; 0];
   [0; 0; 0; 0; 0; 0; 0; 0; 0; 0; 0; 0; 0; 0; 0];
   [0; 0; 0; 0; 0; 0; 0; 0; 0; 0; 0; 0; 0; 0; 0]];
  [[0; 0; 0; 0; 0; 0; 0; 0; 0; 0; 0; 0; 0; 0; 0];
   [0; 8; 0; 0; 0; 0; 6; 0; 2; 0; 0; 0; 0; 0; 0];
   [0; 0; 8; 0; 0; 0; 0; 2; 0; 6; 0; 0; 0; 0; 0];
   [0; 0; 0; 0; 0; 0; 0; 0; 0; 0; 0; 0; 0; 0; 0];
   [0; 0; 0; 0; 0; 0; 0; 0; 0; 0; 0; 0; 0; 0; 0];
   [0; 0; 0; 0; 0; 0; 0; 0; 0; 0; 0; 0; 0; 0; 0];
   [0; 0; 0; 0; 0; 0; 0; 0; 0; 0; 0; 0; 0; 0; 0];
   [0; 0; 0; 0; 0; 0; 0; 0; 0; 0; 0; 0; 0; 0; 0];
   [0; 0; 0; 0; 0; 0; 0; 0; 0; 0; 0; 0; 0; 0; 0];
   [0; 0; 0; 0; 0; 0; 0; 0; 0; 0; 0; 0; 0; 0; 0];
   [0; 0; 0; 0; 0; 0; 0; 0; 0; 0; 0; 0; 0; 0; 0];
   [0; 0; 0; 0; 0; 0; 0; 0; 0; 0; 0; 0; 0; 0; 0];
   [0; 0; 0; 0; 0; 0; 0; 0; 0; 0; 0; 0; 0; 0; 0];
   [0; 0; 0; 0; 0; 0; 0; 0; 0; 0; 0; 0; 0; 0; 0];
   [0; 0; 0; 0; 0; 0; 0; 0; 0; 0; 0; 0; 0; 0; 0]];
  [[0; 0; 0; 0; 0; 0; 0; 0; 0; 0; 0; 0; 0; 0; 0];
   [0; 0; 0; 0; 0; 0; 0; 0; 0; 0; 0; 0; 0; 0; 0];
   [0; 0; 0; 0; 0; 0; 0; 0; 0; 0; 0; 0; 0; 0; 0];
   [0; 0; 0; 4; 0; (-4); 0; 0; 0; 0; 4; 0; 0; 0; (-4)];
   [0; 0; 0; 0; 8; 0; 0; 0; 0; 0; 0; 4; 0; 4; 0];
   [0; 0; 0; (-4); 0; 4; 0; 0; 0; 0; (-4); 0; 0; 0; 4];
   [0; 0; 0; 0; 0; 0; 0; 0; 0; 0; 0; 0; 0; 0; 0];
   [0; 0; 0; 0; 0; 0; 0; 0; 0; 0; 0; 0; 0; 0; 0];
   [0; 0; 0; 0; 0; 0; 0; 0; 0; 0; 0; 0; 0; 0; 0];
   [0; 0; 0; 0; 0; 0; 0; 0; 0; 0; 0; 0; 0; 0; 0];
   [0; 0; 0; 0; 0; 0; 0; 0; 0; 0; 0; 0; 0; 0; 0];
   [0; 0; 0; 0; 0; 0; 0; 0; 0; 0; 0; 0; 0; 0; 0];
   [0; 0; 0; 0; 0; 0; 0; 0; 0; 0; 0; 0; 0; 0; 0];
   [0; 0; 0; 0; 0; 0; 0; 0; 0; 0; 0; 0; 0; 0; 0];
   [0; 0; 0; 0; 0; 0; 0; 0; 0; 0; 0; 0; 0; 0; 0]];
  [[0; 0; 0; 0; 0; 0; 0; 0; 0; 0; 0; 0; 0; 0; 0];
   [0; 0; 0; 0; 0; 0; 0; 0; 0; 0; 0; 0; 0; 0; 0];
   [0; 0; 0; 0; 0; 0; 0; 0; 0; 0; 0; 0; 0; 0; 0];
   [0; 0; 0; 0; 0; 0; 0; 0; 0; 0; 0; 0; 0; 0; 0];
   [0; 0; 0; 0; 0; 0; 0; 0; 0; 0; 0; 0; 0; 0; 0];
   [0; 0; 0; 0; 0; 0; 0; 0; 0; 0; 0; 0; 0; 0; 0];
   [0; 0; 0; 0; 0; 0; 2; 0; (-2); 0; 0; 0; 0; 0; 0];
   [0; 0; 0; 0; 0; 0; 0; 6; 0; (-6); 0; 0; 0; 0; 0];
   [0; 0; 0; 0; 0; 0; (-6); 0; 6; 0; 0; 0; 0; 0; 0];
   [0; 0; 0; 0; 0; 0; 0; (-2); 0; 2; 0; 0; 0; 0; 0];
   [0; 0; 0; 0; 0; 0; 0; 0; 0; 0; 0; 0; 0; 0; 0];
   [0; 0; 0; 0; 0; 0; 0; 0; 0; 0; 0; 0; 0; 0; 0];
   [0; 0; 0; 0; 0; 0; 0; 0; 0; 0; 0; 0; 0; 0; 0];
   [0; 0; 0; 0; 0; 0; 0; 0; 0; 0; 0; 0; 0; 0; 0];
   [0; 0; 0; 0; 0; 0; 0; 0; 0; 0; 0; 0; 0; 0; 0]];
  [[0; 0; 0; 0; 0; 0; 0; 0; 0; 0; 0; 0; 0; 0; 0];
   [0; 0; 0; 0; 0; 0; 0; 0; 0; 0; 0; 0; 0; 0; 0];
   [0; 0; 0; 0; 0; 0; 0; 0; 0; 0; 0; 0; 0; 0; 0];
   [0; 0; 0; 0; 0; 0; 0; 0; 0; 0; 0; 0; 0; 0; 0];
   [0; 0; 0; 0; 0; 0; 0; 0; 0; 0; 0; 0; 0; 0; 0];
   [0; 0; 0; 0; 0; 0; 0; 0; 0; 0; 0; 0; 0; 0; 0];
   [0; 0; 0; 0; 0; 0; 0; 0; 0; 0; 0; 0; 0; 0; 0];
   [0; 0; 0; 0; 0; 0; 0; 0; 0; 0; 0; 0; 0; 0; 0];
   [0; 0; 0; 0; 0; 0; 0; 0; 0; 0; 0; 0; 0; 0; 0];
   [0; 0; 0; 0; 0; 0; 0; 0; 0; 0; 0; 0; 0; 0; 0];
   [0; 0; 0; 0; 0; 0; 0; 0; 0; 0; 1; 0; (-1); 0; 1];
   [0; 0; 0; 0; 0; 0; 0; 0; 0; 0; 0; 4; 0; (-4); 0];
   [0; 0; 0; 0; 0; 0; 0; 0; 0; 0; (-6); 0; 6; 0; (-6)];
   [0; 0; 0; 0; 0; 0; 0; 0; 0; 0; 0; (-4); 0; 4; 0];
   [0; 0; 0; 0; 0; 0; 0; 0; 0; 0; 1; 0; (-1); 0; 1]]
]%Z.

Definition Dden (d : nat) : Z := match d with 3 => 840%Z | 2 => 8%Z | _ => 1%Z end.
Definition LprojZ (d l0 : nat) : list (list Z) :=
  match d with 3 => nth l0 Lproj3Z [] | 2 => nth l0 Lproj2Z [] | _ => [] end.
Definition zmadd (A B : list (list Z)) : list (list Z) :=
  map (fun rr => map (fun xy => Z.add (fst xy) (snd xy)) (combine (fst rr) (snd rr))) (combine A B).
(* Lproj[-1] = sum over l0 *)
Definition LprojZall (d L : nat) : list (list Z) :=
  fold_left (fun acc l0 => zmadd acc (LprojZ d l0)) (seq 1 L) (LprojZ d 0).

(* projector tables with entries in K, for any K in which Dden is invertible (zinj Dden * dinv = 1) *)
Definition LprojK (K : ordring) (d : nat) (dinv : K) (l0 : nat) : list (list K) :=
  map (map (fun z => rmul K (zinj z) dinv)) (LprojZ d l0).
Definition LprojKall (K : ordring) (d L : nat) (dinv : K) : list (list K) :=
  map (map (fun z => rmul K (zinj z) dinv)) (LprojZall d L).
