(* Cell reduction (property C19): what Crystal.reduce / minlattice do to the lattice, in
   lattice coordinates of the cell they start from (integer matrices, Model/Lattice.v).

   reduce():  a pure translation t = T / M of the crystal is found (M = gcd of the site counts,
     T integer); m = index of the smallest non-zero |T_k|; the new lattice is
        [ A t | a_i | a_j ]   with (i,j) = (m+1,m+2) if T_m > 0 else (m+2,m+1)      (3-D)
        [ A t | a_i ]         with i = m+1 mod 2                                    (2-D)
     i.e. A . P / M with the integer matrix P = [ T | M e_i | M e_j ]  (reduce_P below);
     the basis is divided by M / |T_m| (the code raises unless len(new) * (M // |T_m|) = len(old)).
   minlattice():  a signed permutation of the lattice vectors (last one negated when the result would
     be left-handed), then shears  a_b <- a_b - u a_a  (shear below), recursively.
   The summary checker `reduce_okb` is evaluated on every generated supercell.
   Definitions only; proofs in Proofs/Reduce_proofs.v. *)
From Coq Require Import ZArith List Bool Arith.
From Onsager Require Import Model.Lattice.
Import ListNotations.
Local Open Scope Z_scope.

(* unit vector, column form *)
Definition evec (i : nat) : vec := fun k => if Nat.eqb k i then 1 else 0.
(* matrix from columns *)
Definition cols3 (c0 c1 c2 : vec) : mat :=
  fun i j => match j with 0%nat => c0 i | 1%nat => c1 i | _ => c2 i end.
Definition cols2 (c0 c1 : vec) : mat := fun i j => match j with 0%nat => c0 i | _ => c1 i end.

(* the code's choice of (i, j) *)
Definition reduce_ij (m : nat) (Tm : Z) : nat * nat :=
  if 0 <? Tm then (nx m, nx (nx m)) else (nx (nx m), nx m).
(* M times the change of basis of one reduce() step *)
Definition reduce_P3 (M : Z) (T : vec) (m : nat) : mat :=
  let ij := reduce_ij m (T m) in
  cols3 T (vscale M (evec (fst ij))) (vscale M (evec (snd ij))).
Definition reduce_P2 (M : Z) (T : vec) (m : nat) : mat :=
  cols2 T (vscale M (evec (match m with 0%nat => 1%nat | _ => 0%nat end))).

(* minlattice: shear  a_b <- a_b - u a_a  is right multiplication by I - u E_ab *)
Definition shear (a b : nat) (u : Z) : mat :=
  fun i j => mI i j - (if Nat.eqb i a && Nat.eqb j b then u else 0).
(* negate the last column *)
Definition flip_last (d : nat) (P : mat) : mat := fun i j => if Nat.eqb (S j) d then - P i j else P i j.
(* the orientation fix of minlattice: super[:, -1] = -super[:, -1] when det(lattice) det(super) < 0 *)
Definition orient (d : nat) (A P : mat) : mat :=
  if det d A * det d P <? 0 then flip_last d P else P.

(* ---- summary of what reduction must preserve --------------------------------------------------- *)
(* U: lattice of the result in lattice coordinates of the primitive description (A_res = A_prim U);
   counts per species; group orders *)
Fixpoint lz_eqb (a b : list Z) : bool :=
  match a, b with
  | [], [] => true
  | x :: a', y :: b' => (x =? y) && lz_eqb a' b'
  | _, _ => false end.
Definition total (l : list Z) : Z := fold_right Z.add 0 l.

Definition reduce_okb (d : nat) (U : mat) (cprim cres : list Z) (gprim gres : Z) : bool :=
  (Z.abs (det d U) * total cprim =? total cres) && lz_eqb cprim cres && (0 <? det d U) && (gprim =? gres).

(* diagnosis: 0 ok, 1 volume per atom, 2 atoms per species, 3 left-handed, 4 group order *)
Definition reduce_diag (d : nat) (U : mat) (cprim cres : list Z) (gprim gres : Z) : nat :=
  if negb (Z.abs (det d U) * total cprim =? total cres) then 1%nat
  else if negb (lz_eqb cprim cres) then 2%nat
  else if negb (0 <? det d U) then 3%nat
  else if negb (gprim =? gres) then 4%nat else 0%nat.

(* the points of the box [0,n0) x [0,n1) x [0,n2): coset representatives of an upper-triangular supercell *)
Definition box3 (n0 n1 n2 : nat) : list (nat * nat * nat) :=
  flat_map (fun x => flat_map (fun y => map (fun z => (x, y, z)) (seq 0 n2)) (seq 0 n1)) (seq 0 n0).

(* ---- certificate that minlattice() finished: the returned cell is sorted and pair-reduced -------------------- *)
(* Gm = (integer multiple of) the metric of the returned cell.  The code stops only when, after sorting the vectors by
   length, round(g_01/g_00) = round(g_02/g_00) = round(g_12/g_11) = 0, i.e. |2 g_ij| <= g_ii (ties allowed). *)
Definition pair_reducedb (Gm : mat) (i j : nat) : bool := Z.abs (2 * Gm i j) <=? Gm i i.
Definition reducedb (d : nat) (Gm : mat) : bool :=
  match d with
  | 2%nat => (0 <? Gm 0%nat 0%nat) && (Gm 0%nat 0%nat <=? Gm 1%nat 1%nat) && pair_reducedb Gm 0 1
  | 3%nat => (0 <? Gm 0%nat 0%nat) && (Gm 0%nat 0%nat <=? Gm 1%nat 1%nat) && (Gm 1%nat 1%nat <=? Gm 2%nat 2%nat)
             && pair_reducedb Gm 0 1 && pair_reducedb Gm 0 2 && pair_reducedb Gm 1 2
  | _ => false end.
(* squared length (times the same multiple) of a_j - u a_i *)
Definition pair_len (Gm : mat) (i j : nat) (u : Z) : Z := Gm j j - 2 * u * Gm i j + u * u * Gm i i.
