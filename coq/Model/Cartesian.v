(* Cartesian side of the coordinate conversions and group actions (property C23), over an
   arbitrary ordered commutative ring K (the reals of the implementation; Qc for execution).
   A = lattice (columns), Ai = invlatt, S = rot, t = trans, cartrot = A S Ai.
     unit2cart / pos2cart   A (R + u)
     cart2unit (linear part) Ai v
     g_cart                 cartrot x + A t
     g_direc                cartrot v
     g_tensor               cartrot T cartrot^T
   Definitions only; proofs in Proofs/Cartesian_proofs.v. *)
From Coq Require Import List Arith.
From Onsager Require Import Base.OrdRing.
Import ListNotations.

Section Cart.
Variable K : ordring.
Notation "0" := (r0 K). Notation "1" := (r1 K).
Infix "+" := (radd K). Infix "*" := (rmul K). Infix "-" := (rsub K).

Definition kvec := nat -> K.
Definition kmat := nat -> nat -> K.
Definition ksum (f : nat -> K) (d : nat) : K := sumf (fun i => f i) (seq 0 d).
Definition kmv (d : nat) (M : kmat) (v : kvec) : kvec := fun i => ksum (fun j => M i j * v j) d.
Definition kmm (d : nat) (A B : kmat) : kmat := fun i j => ksum (fun k => A i k * B k j) d.
Definition kT (A : kmat) : kmat := fun i j => A j i.
Definition kI : kmat := fun i j => @ind K i j.
Definition kadd (u v : kvec) : kvec := fun i => u i + v i.
Definition ksub (u v : kvec) : kvec := fun i => u i - v i.
Definition kneg (u : kvec) : kvec := fun i => ropp K (u i).
Definition kouter (u v : kvec) : kmat := fun i j => u i * v j.
Definition kdot (d : nat) (u v : kvec) : K := ksum (fun i => u i * v i) d.
Definition keq (d : nat) (A B : kmat) : Prop := forall i j, i < d -> j < d -> A i j = B i j.

Definition cartrot (d : nat) (A S Ai : kmat) : kmat := kmm d A (kmm d S Ai).
Definition unit2cart (d : nat) (A : kmat) (R u : kvec) : kvec := kmv d A (kadd R u).
Definition g_cart (d : nat) (Cr A : kmat) (t x : kvec) : kvec := kadd (kmv d Cr x) (kmv d A t).
Definition g_direc (d : nat) (Cr : kmat) (v : kvec) : kvec := kmv d Cr v.
Definition g_tensor (d : nat) (Cr T : kmat) : kmat := kmm d Cr (kmm d T (kT Cr)).
(* the lattice-coordinate image S (R + u) + t of a position *)
Definition g_latt (d : nat) (S : kmat) (t x : kvec) : kvec := kadd (kmv d S x) t.
End Cart.
