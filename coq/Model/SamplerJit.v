(* Compiled Monte Carlo sampler  onsager/cluster.py : MonteCarloSampler_jit  (start, E, transitions,
   deltaE_trial, update, MCmoves), written as the code is written, over the same static tables as the
   reference sampler (Model/Sampler.v: MonteCarloSampler_param passes siteinteract / interactvalue /
   interactrange / jumps through unchanged).

   State: occ, clustercount, and the two "sets" as arrays of length Nsites of which only the first
   Nocc / Nunocc entries are meaningful, plus index[i] = position of site i in its array (-1: vacancy).
   The scratch arrays dcluster and jump_Q are completely rewritten by the one method that uses them and are
   therefore local values here.  A forbidden transition has barrier None (np.inf in the code).
   Array subscripts are nat; a negative index[] (only the vacancy has one) is outside the domain.
   numba compilation itself is not modelled.  Definitions only; proofs in Proofs/SamplerJit_proofs.v.      *)
From Coq Require Import List ZArith Bool Arith Lia.
From Onsager Require Import Base.OrdRing Model.Sampler.
Import ListNotations.
Local Open Scope Z_scope.

Record jstate := mkJ {
  jocc : list Z; jcc : list Z; Nocc : nat; Nunocc : nat;
  joset : list nat; juset : list nat; jindex : list Z
}.

(* for m in range(Ninteract[site]): n = siteinteract[site, m]; if n >= Nenergy: break; dcluster[n] += d *)
Fixpoint dcl_row (ne : nat) (d : Z) (dc : list Z) (r : list nat) : list Z :=
  match r with
  | [] => dc
  | n :: r' => if Nat.leb ne n then dc else dcl_row ne d (bump d dc n) r'
  end.

(* the rows the break is harmless for: energy interactions (< ne) precede all others *)
Fixpoint efirstb (ne : nat) (r : list nat) : bool :=
  match r with
  | [] => true
  | n :: r' => if Nat.leb ne n then forallb (Nat.leb ne) r' else efirstb ne r'
  end.

Section Jit.
Variable K : ordring.
Variable sd : static K.

Notation Nsites := (Nsites K sd).
Notation row := (row K sd).
Notation val := (val K sd).

(* ---- start(occ): one loop iteration for site i --------------------------------------------------- *)
Definition jstart_step (o : list Z) (s : jstate) (i : nat) : jstate :=
  let oi := nth i o 2 in
  let s1 := mkJ (upd (jocc s) i oi) (jcc s) (Nocc s) (Nunocc s) (joset s) (juset s) (jindex s) in
  if oi =? 1 then
    mkJ (jocc s1) (jcc s1) (S (Nocc s1)) (Nunocc s1) (upd (joset s1) (Nocc s1) i) (juset s1)
        (upd (jindex s1) i (Z.of_nat (Nocc s1)))
  else if oi =? 0 then
    mkJ (jocc s1) (bump_all 1 (jcc s1) (row i)) (Nocc s1) (S (Nunocc s1)) (joset s1) (upd (juset s1) (Nunocc s1) i)
        (upd (jindex s1) i (Z.of_nat (Nunocc s1)))
  else
    mkJ (jocc s1) (jcc s1) (Nocc s1) (Nunocc s1) (joset s1) (juset s1) (upd (jindex s1) i (-1)).

Fixpoint jstart_loop (rem i : nat) (o : list Z) (s : jstate) : jstate :=
  match rem with
  | O => s
  | S r => jstart_loop r (S i) o (jstart_step o s i)
  end.

(* clustercount[:] = 0; Nocc = Nunocc = 0; for i in range(Nsites): ...  (the arrays keep their stale tails) *)
Definition jstart (s : jstate) (o : list Z) : jstate :=
  jstart_loop Nsites O o
    (mkJ (jocc s) (map (fun _ => 0) (jcc s)) O O (joset s) (juset s) (jindex s)).

(* ---- E() ------------------------------------------------------------------------------------------ *)
Definition jE (s : jstate) : K :=
  sumf (fun n => if nth n (jcc s) 0 =? 0 then val n else r0 K) (seq O (Nenergy sd)).

(* ---- transitions(): every jump, forbidden ones marked None (= np.inf) ----------------------------- *)
Definition jallowed (s : jstate) (ij : nat * nat) : bool :=
  let (i, j) := ij in
  (nth i (jocc s) 2 =? -1) || ((nth i (jocc s) 2 =? 1) && (nth j (jocc s) 2 =? 0)).

Fixpoint jtrans_loop (s : jstate) (n : nat) (js : list (nat * nat)) : list (nat * (nat * nat) * option K) :=
  match js with
  | [] => []
  | ij :: rest =>
      (n, ij, if jallowed s ij then Some (barrier K sd (jcc s) n) else None) :: jtrans_loop s (S n) rest
  end.

Definition jtransitions (s : jstate) : list (nat * (nat * nat) * option K) :=
  match jumps sd with None => [] | Some js => jtrans_loop s O js end.     (* Njumps = 0 without a network *)

(* ---- deltaE_trial(occsite, unoccsite) ------------------------------------------------------------- *)
Definition jdcluster (i j : nat) : list Z :=
  dcl_row (Nenergy sd) (-1) (dcl_row (Nenergy sd) 1 (repeat 0 (Nenergy sd)) (row i)) (row j).

Definition jtrial_term (s : jstate) (dc : list Z) (n : nat) : K :=
  if nth n dc 0 =? 0 then r0 K
  else if nth n (jcc s) 0 =? 0 then ropp K (val n)
  else if nth n (jcc s) 0 =? nth n dc 0 then val n
  else r0 K.

Definition jdeltaE (s : jstate) (i j : nat) : K :=
  sumf (jtrial_term s (jdcluster i j)) (seq O (Nenergy sd)).

(* ---- update(occsite, unoccsite) ------------------------------------------------------------------- *)
Definition jupdate (s : jstate) (i j : nat) : jstate :=
  let o' := upd (upd (jocc s) i 1) j 0 in
  let c' := bump_all 1 (bump_all (-1) (jcc s) (row i)) (row j) in
  let a := Z.to_nat (nth i (jindex s) (-1)) in         (* index of occsite in unoccupied_set *)
  let b := Z.to_nat (nth j (jindex s) (-1)) in         (* index of unoccsite in occupied_set *)
  mkJ o' c' (Nocc s) (Nunocc s) (upd (joset s) b i) (upd (juset s) a j)
      (upd (upd (jindex s) i (Z.of_nat b)) j (Z.of_nat a)).

(* ---- MCmoves(occchoices, unoccchoices, kTlogu): the random numbers are explicit inputs ------------- *)
Definition rltb (x y : K) : bool := negb (rleb K y x).          (* x < y *)

Definition jmc_step (s : jstate) (mv : nat * nat * K) : jstate :=
  let '(oc, uc, t) := mv in
  let i := nth oc (juset s) O in
  let j := nth uc (joset s) O in
  if rltb (jdeltaE s i j) t then jupdate s i j else s.

Definition jMCmoves (s : jstate) (moves : list (nat * nat * K)) : jstate := fold_left jmc_step moves s.

(* ---- the Metropolis rule on the REFERENCE sampler, for given sites and threshold ------------------ *)
Definition ref_mc_step (st : mcstate) (i j : nat) (t : K) : option mcstate :=
  match deltaE_trial K sd st [i] [j] with
  | Some dE => if rltb dE t then update K sd st [i] [j] else Some st
  | None => None
  end.

(* reference and compiled sampler side by side: the compiled sampler chooses the sites from its arrays *)
Fixpoint co_run (st : mcstate) (s : jstate) (moves : list (nat * nat * K)) : option (mcstate * jstate) :=
  match moves with
  | [] => Some (st, s)
  | mv :: rest =>
      let '(oc, uc, t) := mv in
      match ref_mc_step st (nth oc (juset s) O) (nth uc (joset s) O) t with
      | Some st' => co_run st' (jmc_step s mv) rest
      | None => None
      end
  end.

(* the reference result a compiled transition list must reduce to: drop the forbidden ones *)
Fixpoint finite_only (l : list (nat * (nat * nat) * option K)) : list (nat * (nat * nat) * K) :=
  match l with
  | [] => []
  | (n, ij, Some q) :: r => (n, ij, q) :: finite_only r
  | (_, _, None) :: r => finite_only r
  end.

Definition rows_okb : bool := forallb (efirstb (Nenergy sd)) (siteinteract sd).

End Jit.
