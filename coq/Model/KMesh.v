(* k-point mesh reduction (C22; DESIGN.md section 4 C22).

   Part 1 (generic): greedy selection of class representatives over a decidable equivalence
   given as a class function  cls : A -> B  (two mesh points are equivalent iff cls agrees);
   `reduce` keeps the first point of every class with the number of mesh points in the class.
   The weight of a representative is count / (mesh size).  A checker `valid_reductionb`
   accepts ANY list of (representative, count) -- e.g. the implementation's -- that is a correct
   reduction of the mesh.

   Part 2 (geometry): mesh points in reciprocal-lattice coordinates, k = B n / L with n in Z^3;
   a point group operation acts by an integer matrix T = S^-T; `cls_min` is the lexicographic
   minimum over the orbit.  `inBZb` decides membership in the (closed) first Brillouin zone
       forall reciprocal lattice vectors H:  |k|^2 <= |k - H|^2
   by testing the H in a box certified (Cauchy-Schwarz, Geom3.range_okb) to contain every H
   with |H| < 2|k|.
   Definitions only; proofs in Proofs/KMesh_proofs.v. *)
From Coq Require Import ZArith List Bool Arith.
From Onsager Require Import Base.OrdRing Model.Geom3.
Import ListNotations.

Section Reduce.
Variables A B : Type.
Variable cls : A -> B.
Variable beqb : B -> B -> bool.

Fixpoint insert (k : A) (acc : list (A * nat)) : list (A * nat) :=
  match acc with
  | [] => [(k, 1%nat)]
  | (r, c) :: t => if beqb (cls r) (cls k) then (r, S c) :: t else (r, c) :: insert k t
  end.

Definition reduce (mesh : list A) : list (A * nat) := fold_left (fun acc k => insert k acc) mesh [].

Definition count_class (b : B) (mesh : list A) : nat := length (filter (fun k => beqb b (cls k)) mesh).

Fixpoint distinctb (l : list B) : bool :=
  match l with [] => true | b :: t => negb (existsb (beqb b) t) && distinctb t end.

(* any list of (representative, count) that is a correct reduction of the mesh *)
Definition valid_reductionb (mesh : list A) (red : list (A * nat)) : bool :=
  distinctb (map (fun rc => cls (fst rc)) red) &&
  forallb (fun rc => Nat.ltb 0 (snd rc) && Nat.eqb (snd rc) (count_class (cls (fst rc)) mesh)) red &&
  forallb (fun k => existsb (fun rc => beqb (cls (fst rc)) (cls k)) red) mesh.

(* a reduction may list several representatives of one class (an orbit split over two |k|^2 shells by rounding): merging the
   entries of equal class (adding their counts) must give a valid reduction, and every listed count must be positive *)
Fixpoint absorb (rc : A * nat) (acc : list (A * nat)) : list (A * nat) :=
  match acc with
  | [] => [rc]
  | (r, c) :: t => if beqb (cls r) (cls (fst rc)) then (r, (c + snd rc)%nat) :: t else (r, c) :: absorb rc t
  end.
Definition merge (red : list (A * nat)) : list (A * nat) := fold_left (fun acc rc => absorb rc acc) red [].
Definition valid_reduction2b (mesh : list A) (red : list (A * nat)) : bool :=
  forallb (fun rc => Nat.ltb 0 (snd rc)) red && valid_reductionb mesh (merge red).

Definition total (red : list (A * nat)) : nat := fold_right (fun rc s => (snd rc + s)%nat) 0%nat red.
End Reduce.

Arguments insert {A B} cls beqb k acc.
Arguments reduce {A B} cls beqb mesh.
Arguments count_class {A B} cls beqb b mesh.
Arguments valid_reductionb {A B} cls beqb mesh red.
Arguments absorb {A B} cls beqb rc acc.
Arguments merge {A B} cls beqb red.
Arguments valid_reduction2b {A B} cls beqb mesh red.
Arguments distinctb {B} beqb l.
Arguments total {A} red.

(* weighted sums over an arbitrary ordered ring *)
Section WSum.
Variable K : ordring.
Fixpoint nK (n : nat) : K := match n with O => r0 K | S m => radd K (r1 K) (nK m) end.
Definition wsum {A} (f : A -> K) (red : list (A * nat)) : K :=
  sumf (fun rc => rmul K (nK (snd rc)) (f (fst rc))) red.
End WSum.
Arguments nK {K} n.
Arguments wsum {K A} f red.

(* ---- geometry ---------------------------------------------------------------------- *)
Local Open Scope Z_scope.

Definition vltb (a b : V3) : bool :=
  (vx a <? vx b) || ((vx a =? vx b) && ((vy a <? vy b) || ((vy a =? vy b) && (vz a <? vz b)))).

Definition vmin (a b : V3) : V3 := if vltb b a then b else a.

(* canonical representative of the orbit of n under the operations *)
Definition cls_min (ops : list M3) (n : V3) : V3 := fold_left (fun m T => vmin m (mulmv T n)) ops n.

(* k = n / L lies in the closed first Brillouin zone of the reciprocal lattice with metric Q *)
Definition bz_ineqb (Q : metric) (L : Z) (n h : V3) : bool := 2 * bil Q n h <=? L * qf Q h.

Definition inBZb (Q : metric) (L : Z) (c2 : Z) (hmax : V3) (n : V3) : bool :=
  posdefb Q && (0 <? L) && (4 * qf Q n <=? L * L * c2) &&
  range_okb Q 1 c2 hmax vzero && forallb (bz_ineqb Q L n) (box hmax).

(* ---- the correspondence decision ----------------------------------------------------
   0 ok   1 certificate / operations rejected   2 a point of the full mesh is outside the BZ
   3 a point of the reduced mesh is outside the BZ   4 the reduced mesh is not a valid reduction (a count is not positive, the
   counts of the representatives of a class do not add up to its multiplicity, or a class has no representative)
   (the second component is the index of the first offending point for codes 2, 3) *)
Record meshcase := mkMesh {
  m_Q : metric; m_L : Z; m_c2 : Z; m_hmax : V3; m_ops : list M3;
  m_full : list V3; m_red : list (V3 * nat) }.

Fixpoint first_false {A} (p : A -> bool) (l : list A) (i : nat) : option nat :=
  match l with [] => None | a :: t => if p a then first_false p t (S i) else Some i end.

Definition check_mesh (k : meshcase) : nat * nat :=
  if negb (posdefb (m_Q k) && forallb (fun T => isometryb T (m_Q k)) (m_ops k)) then (1%nat, 0%nat) else
  match first_false (inBZb (m_Q k) (m_L k) (m_c2 k) (m_hmax k)) (m_full k) 0 with
  | Some i => (2%nat, i)
  | None =>
    match first_false (fun rc => inBZb (m_Q k) (m_L k) (m_c2 k) (m_hmax k) (fst rc)) (m_red k) 0 with
    | Some i => (3%nat, i)
    | None =>
      if valid_reduction2b (cls_min (m_ops k)) veqb (m_full k) (m_red k) then (0%nat, length (reduce (cls_min (m_ops k)) veqb (m_full k)))
      else (4%nat, length (reduce (cls_min (m_ops k)) veqb (m_full k)))
    end
  end.
