(* C32  Cluster-expansion energy evaluators of onsager.supercell.ClusterSupercell and
   onsager.cluster.MonteCarloSampler, and the brute-force energy they must all reproduce.

   Part 1 (Section Generic) is parametric in
     K      : the ring of cluster values (any ordered commutative ring: Z, Qc, ...)
     S, V   : cluster sites (chem/index + lattice vector) and supercell lattice vectors
     idx    : V -> S -> bool * nat   = ClusterSupercell.index(R + site.R, site.ci)
                                       (mobile?, index into mocc / socc)
     Rvecs  : ClusterSupercell.Rveclist (one lattice vector per translation; size = length)
     vacancy, Rvac, vmatch : ClusterSupercell.vacancy, ciR(vacancy)[1], and the test
                                       clust.vacancy().ci == ci_vac
   so every theorem of Proofs/Energy_proofs.v holds for EVERY supercell / periodic wrap /
   site numbering.  Part 2 instantiates idx etc. with the integer arithmetic of
   ClusterSupercell.__init__ / Supercell.maketrans / index / ciR for the correspondence runs.

   Conventions read off the code (supercell.py 767-972, cluster.py 521-610):
   * a site counts as occupied iff its occupation number == 1 (mobile: mocc, spectator: socc);
   * `for site in clust` runs over the NON-special sites only (Cluster.__getitem__); the
     special site of a vacancy cluster is never tested;
   * a vacancy cluster is evaluated only if the supercell has a vacancy whose (chem,index)
     equals that of the cluster's special site, and then only at the single translation
     R_vac; all other clusters are summed over every translation of the supercell;
   * the empty cluster: counter[-1] = size; clusterevaluator adds size*values[-1] when
     len(values) > len(clusters);
   * clusters of one group (symmetry orbit) share one value: zip(clusters, values).
   Definitions only; no proofs in this file. *)
From Coq Require Import List Arith Bool ZArith Lia.
From Onsager Require Import Base.OrdRing.
Import ListNotations.

(* ------------------------------------------------------------------ small list utilities *)
Fixpoint insert_nat (a : nat) (l : list nat) : list nat :=
  match l with
  | [] => [a]
  | b :: l' => if Nat.leb a b then a :: l else b :: insert_nat a l'
  end.
(* python sorted() on a tuple of ints *)
Fixpoint isort (l : list nat) : list nat :=
  match l with [] => [] | a :: l' => insert_nat a (isort l') end.

Fixpoint list_nat_eqb (a b : list nat) : bool :=
  match a, b with
  | [], [] => true
  | x :: a', y :: b' => Nat.eqb x y && list_nat_eqb a' b'
  | _, _ => false
  end.

(* interdict: the python dict  tuple -> index  is the list of keys in index order *)
Fixpoint find_key (t : list nat) (keys : list (list nat)) : option nat :=
  match keys with
  | [] => None
  | k :: ks => if list_nat_eqb t k then Some 0
               else match find_key t ks with Some m => Some (S m) | None => None end
  end.

(* l[m] += 1 *)
Fixpoint incr (m : nat) (l : list nat) : list nat :=
  match l, m with
  | [], _ => []
  | c :: l', 0 => S c :: l'
  | c :: l', S m' => c :: incr m' l'
  end.

(* siteinteract[n].append(x) *)
Fixpoint app_at (n : nat) (x : nat) (l : list (list nat)) : list (list nat) :=
  match l, n with
  | [], _ => []
  | r :: l', 0 => (r ++ [x]) :: l'
  | r :: l', S n' => r :: app_at n' x l'
  end.

Definition memb (x : nat) (l : list nat) : bool := existsb (Nat.eqb x) l.

Section Generic.
Variable K : ordring.
Notation "0" := (r0 K). Notation "1" := (r1 K).
Infix "+" := (radd K). Infix "*" := (rmul K).

Variables S V : Type.
Variable idx : V -> S -> bool * nat.
Variable Rvecs : list V.
Variable vacancy : option nat.
Variable Rvac : V.
Variable vmatch : S -> bool.

(* cvac = Some s : a vacancy cluster with special site s;  csites : the sites iterated by
   `for site in clust` *)
Record cluster := mkCl { cvac : option S; csites : list S }.

Definition size : nat := length Rvecs.

Fixpoint ofnat (n : nat) : K := match n with O => 0 | Datatypes.S n' => 1 + ofnat n' end.

(* if clust.__vacancy__: (None -> continue | ci mismatch -> continue | [R_vac]) else Rveclist *)
Definition skipped (cl : cluster) : bool :=
  match cvac cl with
  | None => false
  | Some s => match vacancy with None => true | Some _ => negb (vmatch s) end
  end.

Definition rvecs_for (cl : cluster) : list V :=
  match cvac cl with
  | None => Rvecs
  | Some _ => if skipped cl then [] else [Rvac]
  end.

Section Occ.
Variables mo so : nat -> Z.       (* mocc[n], socc[n] *)

Definition isocc (R : V) (s : S) : bool :=
  let (mob, n) := idx R s in if mob then Z.eqb (mo n) 1 else Z.eqb (so n) 1.

(* ---------------------------------------------------------------- brute force (the property) *)
Definition occK (b : bool) : K := if b then 1 else 0.
Definition prodK (l : list K) : K := fold_right (rmul K) 1 l.

Definition bf_term (cl : cluster) (R : V) : K := prodK (map (fun s => occK (isocc R s)) (csites cl)).
Definition bf_count (grp : list cluster) : K := sumf (fun cl => sumf (bf_term cl) (rvecs_for cl)) grp.
Definition Ebrute (clusters : list (list cluster)) (values : list K) : K :=
  sumf (fun gv => snd gv * bf_count (fst gv)) (combine clusters values)
  + ofnat size * nth (length clusters) values 0.

(* ---------------------------------------------------------------- 1. evalcluster *)
Definition ec_count (grp : list cluster) : nat :=
  fold_left (fun c cl =>
     fold_left (fun c R => if forallb (isocc R) (csites cl) then Datatypes.S c else c) (rvecs_for cl) c) grp O.

Definition evalcluster (clusters : list (list cluster)) : list nat := map ec_count clusters ++ [size].

(* np.dot(values, clustercount) *)
Definition dotK (values : list K) (counts : list nat) : K :=
  sumf (fun vc => fst vc * ofnat (snd vc)) (combine values counts).

Definition E_counter clusters values : K := dotK values (evalcluster clusters).

(* ---------------------------------------------------------------- 2. expandcluster_matrices *)
(* one row: (ind, active) folded over the sites *)
Definition row (cl : cluster) (R : V) : list nat * bool :=
  fold_left (fun ia s => let (mob, n) := idx R s in
                         if mob then (fst ia ++ [n], snd ia) else (fst ia, snd ia && Z.eqb (so n) 1))
            (csites cl) ([], true).

Definition clmat (cl : cluster) : list (list nat) :=
  flat_map (fun R => let ia := row cl R in if snd ia then [fst ia] else []) (rvecs_for cl).

Definition expand_matrices (clusters : list (list cluster)) : list (list (list (list nat))) :=
  map (fun grp => map clmat (filter (fun cl => negb (skipped cl)) grp)) clusters.

(* evaluation of the matrices for a mobile occupation: a row counts iff all its entries are 1 *)
Definition rows_count (m : list (list nat)) : nat :=
  length (filter (fun r => forallb (fun n => Z.eqb (mo n) 1) r) m).
Definition mats_count (ms : list (list (list nat))) : nat := fold_left (fun c m => (c + rows_count m)%nat) ms O.

Definition E_matrices clusters values : K :=
  dotK values (map mats_count (expand_matrices clusters) ++ [size]).

End Occ.

(* ---------------------------------------------------------------- 3. clusterevaluator *)
Record cev := mkCev { interact : list K; keys : list (list nat); sitei : list (list nat); e0 : K }.

Fixpoint add_at (m : nat) (v : K) (l : list K) : list K :=
  match l, m with
  | [], _ => []
  | x :: l', O => (x + v) :: l'
  | x :: l', Datatypes.S m' => x :: add_at m' v l'
  end.

Definition mobile_idx (cl : cluster) (R : V) : list nat :=
  flat_map (fun s => let (mob, n) := idx R s in if mob then [n] else []) (csites cl).

Definition spec_ok (so : nat -> Z) (cl : cluster) (R : V) : bool :=
  forallb (fun s => let (mob, n) := idx R s in if mob then true else Z.eqb (so n) 1) (csites cl).

Definition has_vac (t : list nat) : bool :=
  match vacancy with None => false | Some v => memb v t end.

Definition cev_step (so : nat -> Z) (value : K) (cl : cluster) (st : cev) (R : V) : cev :=
  if spec_ok so cl R then
    let ms := mobile_idx cl R in
    match ms with
    | [] => mkCev (interact st) (keys st) (sitei st) (e0 st + value)
    | _ => let t := isort ms in
           if has_vac t then st
           else match find_key t (keys st) with
                | Some m => mkCev (add_at m value (interact st)) (keys st) (sitei st) (e0 st)
                | None => let Nint := length (interact st) in
                          mkCev (interact st ++ [value]) (keys st ++ [t])
                                (fold_left (fun si n => app_at n Nint si) t (sitei st)) (e0 st)
                end
    end
  else st.

Definition cev_cluster so value (st : cev) (cl : cluster) : cev :=
  fold_left (cev_step so value cl) (rvecs_for cl) st.

Definition cev_group so (st : cev) (gv : list cluster * K) : cev :=
  fold_left (cev_cluster so (snd gv)) (fst gv) st.

Definition cev_init (N : nat) (clusters : list (list cluster)) (values : list K) : cev :=
  mkCev [] [] (repeat [] N)
        (if Nat.ltb (length clusters) (length values) then ofnat size * last values 0 else 0).

Definition cev_run so N clusters values : cev :=
  fold_left (cev_group so) (combine clusters values) (cev_init N clusters values).

(* returned pair (siteinteract, interact) *)
Definition clusterevaluator so N clusters values : list (list nat) * list K :=
  let st := cev_run so N clusters values in (sitei st, interact st ++ [e0 st]).

(* evaluation of (siteinteract, interact) as documented (test_supercell.testClusterEvaluator):
   count, for every interaction, the unoccupied (== 0) sites carrying it; sum those with count 0 *)
Definition count_site (cc : list nat) (ms : list nat) : list nat := fold_left (fun c m => incr m c) ms cc.

Definition start_counts (L : nat) (si : list (list nat)) (mo : nat -> Z) : list nat :=
  fold_left (fun cc i => if Z.eqb (mo i) 0 then count_site cc (nth i si []) else cc)
            (seq O (length si)) (repeat O L).

Definition sum_on (counts : list nat) (vals : list K) : K :=
  sumf (fun cv => if Nat.eqb (fst cv) O then snd cv else 0) (combine counts vals).

Definition E_interact so mo N clusters values : K :=
  let (si, ia) := clusterevaluator so N clusters values in
  sum_on (start_counts (length ia) si mo) ia.

(* ---------------------------------------------------------------- 4. MonteCarloSampler *)
(* __init__: Ninteract, siteinteract padded with -1 to a rectangular array (an array with no
   columns has no rows: zip_longest of empty lists is empty); start(); E() *)
Definition pad_row (w : nat) (r : list nat) : list Z :=
  map Z.of_nat r ++ repeat (-1)%Z (w - length r).

Definition sampler_array (si : list (list nat)) : list (list Z) :=
  let w := fold_right Nat.max O (map (@length nat) si) in
  if Nat.eqb w O then [] else map (pad_row w) si.

(* zip(count(), occ, siteinteract, Ninteract) *)
Fixpoint sampler_start (i : nat) (mo : nat -> Z) (arr : list (list Z)) (nint : list nat) (cc : list nat) : list nat :=
  match arr, nint with
  | r :: arr', k :: nint' =>
      sampler_start (Datatypes.S i) mo arr' nint'
        (if Z.eqb (mo i) 0 then count_site cc (map Z.to_nat (firstn k r)) else cc)
  | _, _ => cc
  end.

Definition E_sampler so mo N clusters values : K :=
  let (si, ia) := clusterevaluator so N clusters values in
  let Nenergy := length ia in
  let cc := sampler_start O mo (sampler_array si) (map (@length nat) si) (repeat O (length ia)) in
  sum_on (firstn Nenergy cc) (firstn Nenergy ia).

(* ---------------------------------------------------------------- domain of the property *)
(* occupations are 0/1 except at the vacancy, which is not 1 (the code insists on -1) *)
Definition valid_occ (N : nat) (mo : nat -> Z) : Prop :=
  (forall i, (i < N)%nat -> Some i <> vacancy -> mo i = 0%Z \/ mo i = 1%Z) /\
  (forall v, vacancy = Some v -> mo v <> 1%Z).

Definition valid_occb (N : nat) (mo : nat -> Z) : bool :=
  forallb (fun i => match vacancy with
                    | Some v => if Nat.eqb v i then true else Z.eqb (mo i) 0 || Z.eqb (mo i) 1
                    | None => Z.eqb (mo i) 0 || Z.eqb (mo i) 1
                    end) (seq O N)
  && match vacancy with Some v => negb (Z.eqb (mo v) 1) | None => true end.

(* every mobile index the clusters touch is a row of siteinteract *)
Definition in_range (N : nat) (clusters : list (list cluster)) : Prop :=
  forall grp cl R s n, In grp clusters -> In cl grp -> In R (rvecs_for cl) -> In s (csites cl) ->
                       idx R s = (true, n) -> (n < N)%nat.

Definition in_rangeb (N : nat) (clusters : list (list cluster)) : bool :=
  forallb (fun grp => forallb (fun cl => forallb (fun R => forallb (fun s =>
     let (mob, n) := idx R s in if mob then Nat.ltb n N else true) (csites cl)) (rvecs_for cl)) grp) clusters.

End Generic.

Arguments mkCl {S} _ _.
Arguments cvac {S} _. Arguments csites {S} _.

(* ======================================================================================== *)
(* Part 2: the concrete ClusterSupercell index arithmetic (3-D, as Supercell.maketrans).     *)
Local Open Scope Z_scope.

Definition vec := (Z * Z * Z)%type.
Definition vadd (a b : vec) : vec := let '(a0, a1, a2) := a in let '(b0, b1, b2) := b in (a0 + b0, a1 + b1, a2 + b2).
Definition vdot (a b : vec) : Z := let '(a0, a1, a2) := a in let '(b0, b1, b2) := b in a0 * b0 + a1 * b1 + a2 * b2.
Definition veqb (a b : vec) : bool :=
  let '(a0, a1, a2) := a in let '(b0, b1, b2) := b in Z.eqb a0 b0 && Z.eqb a1 b1 && Z.eqb a2 b2.
Definition mat := (vec * vec * vec)%type.   (* rows *)
Definition mulmv (m : mat) (v : vec) : vec := let '(r0, r1, r2) := m in (vdot r0 v, vdot r1 v, vdot r2 v).
Definition vmap (f : Z -> Z) (v : vec) : vec := let '(a, b, c) := v in (f a, f b, f c).

Definition det3 (m : mat) : Z :=
  let '((a, b, c), (d, e, f), (g, h, i)) := m in a * (e * i - f * h) - b * (d * i - f * g) + c * (d * h - e * g).
Definition adj3 (m : mat) : mat :=
  let '((a, b, c), (d, e, f), (g, h, i)) := m in
  ((e * i - f * h, c * h - b * i, b * f - c * e),
   (f * g - d * i, a * i - c * g, c * d - a * f),
   (d * h - e * g, b * g - a * h, a * e - b * d)).
Definition mscale (s : Z) (m : mat) : mat := let '(r0, r1, r2) := m in (vmap (Z.mul s) r0, vmap (Z.mul s) r1, vmap (Z.mul s) r2).
Definition mmaxabs (m : mat) : Z :=
  let '((a, b, c), (d, e, f), (g, h, i)) := m in
  fold_right Z.max 0 (map Z.abs [a; b; c; d; e; f; g; h; i]).

Record csite := mkSite { s_chem : nat; s_ind : nat; s_R : vec }.

Record supercell := mkSup {
  superlatt : mat;
  nbasis : list nat;          (* atoms per chemistry of the crystal *)
  spect : list nat;           (* sorted, unique spectator chemistries *)
  sc_vacancy : option nat }.

Definition sc_size (sc : supercell) : Z := Z.abs (det3 (superlatt sc)).
(* np.round(inv(superlatt) * size) = adj * sign(det) *)
Definition sc_invsuper (sc : supercell) : mat := mscale (Z.sgn (det3 (superlatt sc))) (adj3 (superlatt sc)).

Definition zrange (n : Z) : list Z := map (fun k => Z.of_nat k - n) (seq O (Z.to_nat (2 * n + 1))).

Definition add_new (t : vec) (l : list vec) : list vec := if existsb (veqb t) l then l else l ++ [t].

(* Supercell.maketrans: translist in order of first appearance *)
Definition sc_translist (sc : supercell) : list vec :=
  let n := mmaxabs (superlatt sc) in
  let sz := sc_size sc in
  fold_left (fun tl nv => add_new (vmap (fun x => x mod sz) (mulmv (sc_invsuper sc) nv)) tl)
            (flat_map (fun n0 => flat_map (fun n1 => map (fun n2 => (n0, n1, n2)) (zrange n)) (zrange n)) (zrange n))
            [].

Definition sc_Rveclist (sc : supercell) : list vec :=
  map (fun t => vmap (fun x => x / sc_size sc) (mulmv (superlatt sc) t)) (sc_translist sc).

Fixpoint vindex (t : vec) (l : list vec) : nat :=
  match l with [] => O | u :: l' => if veqb t u then O else S (vindex t l') end.

(* mobileindices / spectatorindices as lists of (c, i) *)
Definition indices_of (sc : supercell) (want_spec : bool) : list (nat * nat) :=
  flat_map (fun c => if Bool.eqb (existsb (Nat.eqb c) (spect sc)) want_spec
                     then map (fun i => (c, i)) (seq O (nth c (nbasis sc) O)) else [])
           (seq O (length (nbasis sc))).

Fixpoint ci_index (ci : nat * nat) (l : list (nat * nat)) : option nat :=
  match l with
  | [] => None
  | x :: l' => if Nat.eqb (fst ci) (fst x) && Nat.eqb (snd ci) (snd x) then Some O
               else match ci_index ci l' with Some k => Some (S k) | None => None end
  end.

(* everything derived in ClusterSupercell.__init__, computed once *)
Record scdata := mkData { d_size : Z; d_inv : mat; d_tl : list vec; d_mob : list (nat * nat); d_spec : list (nat * nat) }.
Definition sc_data (sc : supercell) : scdata :=
  mkData (sc_size sc) (sc_invsuper sc) (sc_translist sc) (indices_of sc false) (indices_of sc true).

(* ClusterSupercell.index(R, ci) *)
Definition sc_index_d (d : scdata) (R : vec) (ci : nat * nat) : bool * nat :=
  let t := vindex (vmap (fun x => x mod d_size d) (mulmv (d_inv d) R)) (d_tl d) in
  match ci_index ci (d_mob d) with
  | Some k => (true, (t * length (d_mob d) + k)%nat)
  | None => match ci_index ci (d_spec d) with
            | Some k => (false, (t * length (d_spec d) + k)%nat)
            | None => (false, O)     (* KeyError in the code; outside the domain *)
            end
  end.

Definition sc_idx (sc : supercell) : vec -> csite -> bool * nat :=
  let d := sc_data sc in fun R s => sc_index_d d (vadd R (s_R s)) (s_chem s, s_ind s).

Definition sc_Nsites (sc : supercell) : nat := (length (indices_of sc false) * length (sc_translist sc))%nat.

(* ciR(vacancy) *)
Definition sc_Rvac (sc : supercell) : vec :=
  match sc_vacancy sc with
  | Some v => nth (v / length (indices_of sc false))%nat (sc_Rveclist sc) (0, 0, 0)
  | None => (0, 0, 0)
  end.
Definition sc_vmatch (sc : supercell) : csite -> bool :=
  match sc_vacancy sc with
  | Some v => let ci := nth (v mod length (indices_of sc false))%nat (indices_of sc false) (O, O) in
              fun s => Nat.eqb (s_chem s) (fst ci) && Nat.eqb (s_ind s) (snd ci)
  | None => fun _ => false
  end.

Definition occ_of (l : list Z) (n : nat) : Z := nth n l 0.

(* one correspondence case over the ring K: everything the four evaluators return *)
Section Concrete.
Variable K : ordring.
Variable sc : supercell.
Notation cl := (@cluster csite).
Let I := sc_idx sc.
Let RV := sc_Rveclist sc.
Let vac := sc_vacancy sc.
Let Rv := sc_Rvac sc.
Let vm := sc_vmatch sc.

Definition c_brute (clusters : list (list cl)) (values : list K) (mocc socc : list Z) : K :=
  Ebrute K csite vec I RV vac Rv vm (occ_of mocc) (occ_of socc) clusters values.
Definition c_evalcluster (clusters : list (list cl)) (mocc socc : list Z) : list nat :=
  evalcluster csite vec I RV vac Rv vm (occ_of mocc) (occ_of socc) clusters.
Definition c_counter (clusters : list (list cl)) (values : list K) (mocc socc : list Z) : K :=
  E_counter K csite vec I RV vac Rv vm (occ_of mocc) (occ_of socc) clusters values.
Definition c_matrices (clusters : list (list cl)) (socc : list Z) :=
  expand_matrices csite vec I RV vac Rv vm (occ_of socc) clusters.
Definition c_Ematrices (clusters : list (list cl)) (values : list K) (mocc socc : list Z) : K :=
  E_matrices K csite vec I RV vac Rv vm (occ_of mocc) (occ_of socc) clusters values.
Definition c_clusterevaluator (clusters : list (list cl)) (values : list K) (socc : list Z) :=
  clusterevaluator K csite vec I RV vac Rv vm (occ_of socc) (sc_Nsites sc) clusters values.
Definition c_Einteract (clusters : list (list cl)) (values : list K) (mocc socc : list Z) : K :=
  E_interact K csite vec I RV vac Rv vm (occ_of socc) (occ_of mocc) (sc_Nsites sc) clusters values.
Definition c_Esampler (clusters : list (list cl)) (values : list K) (mocc socc : list Z) : K :=
  E_sampler K csite vec I RV vac Rv vm (occ_of socc) (occ_of mocc) (sc_Nsites sc) clusters values.
Definition c_in_range (clusters : list (list cl)) : bool :=
  in_rangeb csite vec I RV vac Rv vm (sc_Nsites sc) clusters.
Definition c_valid_occ (mocc : list Z) : bool := valid_occb vac (sc_Nsites sc) (occ_of mocc).
End Concrete.
