(* Trace checker for the correspondence of Model/SamplerJit.v with onsager.cluster.MonteCarloSampler_jit,
   co-simulated with the reference model (Model/Sampler.v): the harness records what the COMPILED
   implementation did after every call; this checker replays the calls on the compiled-sampler model AND on
   the reference model, and checks inside Coq that
     - the compiled model reproduces the implementation's arrays / energies / transitions exactly,
     - the refinement relation (boolean form Rb) holds between the two model states after every call,
     - reference-model observations equal compiled-model observations (E, deltaE_trial, transitions).
   Result 0 = all events agree, otherwise 1 + index of the first failing event.  Definitions only.     *)
From Coq Require Import List ZArith Bool Arith.
From Onsager Require Import Base.OrdRing Model.Sampler Model.SamplerCheck Model.SamplerJit.
Import ListNotations.
Local Open Scope Z_scope.

Section JCheck.
Variable K : ordring.
Variable sd : static K.

(* what is read off the implementation object: occ, clustercount, Nocc, Nunocc,
   occupied_set[:Nocc], unoccupied_set[:Nunocc], index, E() *)
Record jobs := mkJobs { jo_occ : list Z; jo_cc : list Z; jo_no : nat; jo_nu : nat;
                        jo_oset : list nat; jo_uset : list nat; jo_index : list Z; jo_E : K }.

Inductive jevent :=
| JInit (s : jstate) (started : option (list Z))   (* arrays of the freshly constructed object; the reference
                                                      sampler it was built from was started on `started` *)
| JStart (o : list Z) (ob : jobs)
| JUpdate (i j : nat) (ob : jobs)
| JTrial (i j : nat) (dE : K)
| JTrans (res : list (nat * (nat * nat) * option K))
| JMC (moves : list (nat * nat * K)) (ob : jobs).

Definition jobs_ok (s : jstate) (ob : jobs) : bool :=
  list_eqb Z.eqb (jocc s) (jo_occ ob) && list_eqb Z.eqb (jcc s) (jo_cc ob) &&
  Nat.eqb (Nocc s) (jo_no ob) && Nat.eqb (Nunocc s) (jo_nu ob) &&
  list_eqb Nat.eqb (firstn (Nocc s) (joset s)) (jo_oset ob) &&
  list_eqb Nat.eqb (firstn (Nunocc s) (juset s)) (jo_uset ob) &&
  list_eqb Z.eqb (jindex s) (jo_index ob) && reqb K (jE K sd s) (jo_E ob).

(* boolean form of the refinement relation of Proofs/SamplerJit_proofs.v (listing part; the invariant of the
   reference state is a theorem) *)
Definition listingb (o : list Z) (idx : list Z) (arr : list nat) (n : nat) (v : Z) : bool :=
  forallb (fun k => let x := nth k arr O in
                    Nat.ltb x (length o) && (nth x o 2 =? v) && (nth x idx (-1) =? Z.of_nat k)) (seq O n) &&
  forallb (fun x => negb (nth x o 2 =? v) ||
                    (let k := Z.to_nat (nth x idx (-1)) in
                     (0 <=? nth x idx (-1)) && Nat.ltb k n && Nat.eqb (nth k arr O) x)) (seq O (length o)).

Definition Rb (st : mcstate) (s : jstate) : bool :=
  list_eqb Z.eqb (jocc s) (occ st) && list_eqb Z.eqb (jcc s) (cc st) &&
  Nat.eqb (length (joset s)) (length (occ st)) && Nat.eqb (length (juset s)) (length (occ st)) &&
  Nat.eqb (length (jindex s)) (length (occ st)) &&
  Nat.leb (Nocc s) (length (occ st)) && Nat.leb (Nunocc s) (length (occ st)) &&
  listingb (occ st) (jindex s) (joset s) (Nocc s) 1 && listingb (occ st) (jindex s) (juset s) (Nunocc s) 0 &&
  set_eqb (firstn (Nocc s) (joset s)) (oset st) && set_eqb (firstn (Nunocc s) (juset s)) (uset st) &&
  reqb K (jE K sd s) (E K sd st).

Definition jtrans_eqb (x y : nat * (nat * nat) * option K) : bool :=
  let '(n, (i, j), q) := x in let '(n', (i', j'), q') := y in
  Nat.eqb n n' && Nat.eqb i i' && Nat.eqb j j' && opt_eqb (reqb K) q q'.

Definition both_ok (st : option mcstate) (s : jstate) (ob : jobs) : bool :=
  jobs_ok s ob && match st with Some t => Rb t s | None => false end.

Definition jcheck_event (cur : option mcstate * jstate) (e : jevent) : (option mcstate * jstate) * bool :=
  let (st, s) := cur in
  match e with
  | JInit s0 started =>
      match started with
      | None => ((None, s0), true)
      | Some o => let st' := start K sd o in ((st', s0), match st' with Some t => Rb t s0 | None => false end)
      end
  | JStart o ob =>
      let st' := start K sd o in let s' := jstart K sd s o in ((st', s'), both_ok st' s' ob)
  | JUpdate i j ob =>
      let st' := match st with Some t => update K sd t [i] [j] | None => None end in
      let s' := jupdate K sd s i j in ((st', s'), both_ok st' s' ob)
  | JTrial i j dE =>
      (cur, reqb K (jdeltaE K sd s i j) dE &&
            match st with Some t => opt_eqb (reqb K) (deltaE_trial K sd t [i] [j]) (Some dE) | None => false end)
  | JTrans res =>
      (cur, list_eqb jtrans_eqb (jtransitions K sd s) res &&
            match st with
            | Some t => opt_eqb (list_eqb (trans_eqb K)) (transitions K sd t) (Some (finite_only K (jtransitions K sd s)))
            | None => false
            end)
  | JMC moves ob =>
      let s' := jMCmoves K sd s moves in
      match st with
      | Some t => match co_run K sd t s moves with
                  | Some (t', s'') => ((Some t', s'), both_ok (Some t') s' ob)
                  | None => ((None, s'), false)
                  end
      | None => ((None, s'), false)
      end
  end.

Fixpoint jcheck_from (cur : option mcstate * jstate) (k : nat) (es : list jevent) : nat :=
  match es with
  | [] => O
  | e :: rest => let (cur', ok) := jcheck_event cur e in if ok then jcheck_from cur' (S k) rest else S k
  end.

Definition jcheck_trace (es : list jevent) : nat :=
  if rows_okb K sd then jcheck_from (None, mkJ [] [] O O [] [] []) O es else 4000%nat.  (* 4000: some siteinteract row is not energy-first *)

End JCheck.

Arguments mkJobs {K} _ _ _ _ _ _ _ _.
Arguments JInit {K} _ _. Arguments JStart {K} _ _. Arguments JUpdate {K} _ _ _. Arguments JTrial {K} _ _ _.
Arguments JTrans {K} _. Arguments JMC {K} _ _.
Arguments jcheck_trace {K} _ _.
