(* Pair states, star sets and their symmetry orbits -- executable model of
   onsager/crystalStars.py: PairState arithmetic, StarSet.generate, StarSet.__iadd__,
   StarSet.diffgenerate, and the verified checkers that are run on the implementation's
   states / stars / index / lookups (C24).

   Everything is integer combinatorics.  A pair state is (i, j, R): solute on site i of
   cell 0, vacancy on site j of cell R.  A jump (i, j, R) moves the vacancy from site i
   (any cell) to site j, R cells further.  Lattice vectors are triples of Z; a 2-D crystal
   is embedded with third component 0 (and symmetry matrices with a 1 in the zz corner).
   A space-group operation acts through an integer matrix S, a site permutation and the
   integer cell shift of every site:  g.(i,j,R) = (p i, p j, S R + shift j - shift i).

   Definitions only; the proofs are in Proofs/Stars_proofs.v. *)
From Coq Require Import List ZArith Bool Arith.
Import ListNotations.
Local Open Scope Z_scope.

(* ---- lattice vectors and matrices ------------------------------------------------- *)
Definition vec := (Z * Z * Z)%type.
Definition vzero : vec := (0, 0, 0).
Definition vadd (a b : vec) : vec :=
  let '(a1, a2, a3) := a in let '(b1, b2, b3) := b in (a1 + b1, a2 + b2, a3 + b3).
Definition vsub (a b : vec) : vec :=
  let '(a1, a2, a3) := a in let '(b1, b2, b3) := b in (a1 - b1, a2 - b2, a3 - b3).
Definition vopp (a : vec) : vec := let '(a1, a2, a3) := a in (- a1, - a2, - a3).
Definition veqb (a b : vec) : bool :=
  let '(a1, a2, a3) := a in let '(b1, b2, b3) := b in
  if Z.eqb a1 b1 then if Z.eqb a2 b2 then Z.eqb a3 b3 else false else false.
Definition vdot (a b : vec) : Z :=
  let '(a1, a2, a3) := a in let '(b1, b2, b3) := b in a1 * b1 + a2 * b2 + a3 * b3.

Definition mat := (vec * vec * vec)%type.        (* rows *)
Definition mulmv (m : mat) (v : vec) : vec :=
  let '(r1, r2, r3) := m in (vdot r1 v, vdot r2 v, vdot r3 v).

(* ---- pair states ---------------------------------------------------------------------- *)
Record ps := mkPS { pi : nat; pj : nat; pR : vec }.

Definition ps_eqb (a b : ps) : bool :=
  if Nat.eqb (pi a) (pi b) then if Nat.eqb (pj a) (pj b) then veqb (pR a) (pR b) else false else false.
Definition iszero (s : ps) : bool := if Nat.eqb (pi s) (pj s) then veqb (pR s) vzero else false.
Definition zero (i : nat) : ps := mkPS i i vzero.
(* PairState.__add__ (defined when pj a = pi b), __neg__, __xor__ (defined when pi a = pi b) *)
Definition padd (a b : ps) : ps := mkPS (pi a) (pj b) (vadd (pR a) (pR b)).
Definition pneg (a : ps) : ps := mkPS (pj a) (pi a) (vopp (pR a)).
Definition pxor (a b : ps) : ps := mkPS (pj b) (pj a) (vsub (pR a) (pR b)).

Fixpoint mem (s : ps) (l : list ps) : bool :=
  match l with [] => false | a :: l' => if ps_eqb s a then true else mem s l' end.

(* python set insertion: add every element of l not yet present to acc *)
Fixpoint dedup_into (acc l : list ps) : list ps :=
  match l with
  | [] => acc
  | s :: l' => dedup_into (if mem s acc then acc else s :: acc) l'
  end.

Fixpoint nodupb (l : list ps) : bool :=
  match l with [] => true | a :: l' => if mem a l' then false else nodupb l' end.

(* ---- StarSet.generate: the state set ---------------------------------------------------- *)
(* all defined non-zero sums  s1 + s2,  s1 in sh, s2 a jump *)
Definition step (jumps sh : list ps) : list ps :=
  flat_map (fun s1 => flat_map (fun s2 =>
     if Nat.eqb (pj s1) (pi s2) then (let s := padd s1 s2 in if iszero s then [] else [s]) else [])
     jumps) sh.
Definition next (jumps sh : list ps) : list ps := dedup_into [] (step jumps sh).

(* n further shells from `last`, accumulated into acc (the loop of generate) *)
Fixpoint grow (jumps : list ps) (n : nat) (last acc : list ps) : list ps :=
  match n with
  | O => acc
  | S n' => let nx := next jumps last in grow jumps n' nx (dedup_into acc nx)
  end.

Definition origins (nsites : nat) : list ps := map zero (seq 0 nsites).

Definition states (jumps : list ps) (nsites N : nat) (origin : bool) : list ps :=
  match N with
  | O => if origin then origins nsites else []
  | S n => let j0 := dedup_into [] jumps in
           grow jumps n j0 (dedup_into j0 (if origin then origins nsites else []))
  end.

Definition reach (jumps : list ps) (N : nat) : list ps := states jumps 0 N false.

(* ---- StarSet.__iadd__ / diffgenerate on state lists ----------------------------------- *)
Definition sums (l1 l2 : list ps) : list ps :=
  flat_map (fun s1 => flat_map (fun s2 => if Nat.eqb (pj s1) (pi s2) then [padd s1 s2] else []) l2) l1.

Definition sadd (l1 l2 : list ps) : list ps :=
  l1 ++ dedup_into [] (filter (fun s => if iszero s then false else negb (mem s l1)) (sums l1 l2)).

Definition diffgen (l1 l2 : list ps) : list ps :=
  dedup_into [] (flat_map (fun s1 => flat_map (fun s2 =>
      if Nat.eqb (pi s1) (pi s2) then [pxor s2 s1] else []) l2) l1).

(* ---- symmetry operations ------------------------------------------------------------------ *)
Record op := mkOp { oS : mat; operm : list nat; oshift : list vec }.

Definition gvec (g : op) (a b : nat) (R : vec) : vec :=
  vadd (mulmv (oS g) R) (vsub (nth b (oshift g) vzero) (nth a (oshift g) vzero)).

Definition gact (g : op) (s : ps) : ps :=
  mkPS (nth (pi s) (operm g) O) (nth (pj s) (operm g) O) (gvec g (pi s) (pj s) (pR s)).

(* ---- checkers for the implementation's stars / index ----------------------------------- *)
Definition getst (sts : list ps) (x : nat) : ps := nth x sts (zero 0).

Fixpoint memn (x : nat) (l : list nat) : bool :=
  match l with [] => false | a :: l' => if Nat.eqb x a then true else memn x l' end.
Fixpoint nodupnb (l : list nat) : bool :=
  match l with [] => true | a :: l' => if memn a l' then false else nodupnb l' end.

(* one star: non-empty, indices valid, closed under every operation, and every member an
   image of the first member *)
Definition star_okb (ops : list op) (sts : list ps) (star : list nat) : bool :=
  match star with
  | [] => false
  | r :: _ =>
    let ss := map (getst sts) star in
    forallb (fun x => Nat.ltb x (length sts)) star &&
    forallb (fun s => forallb (fun g => mem (gact g s) ss) ops) ss &&
    forallb (fun s => existsb (fun g => ps_eqb s (gact g (getst sts r))) ops) ss
  end.

Definition owners (stars : list (list nat)) (x : nat) : list nat :=
  filter (fun k => memn x (nth k stars [])) (seq 0 (length stars)).

Definition partition_okb (n : nat) (stars : list (list nat)) : bool :=
  forallb (fun x => match owners stars x with [_] => true | _ => false end) (seq 0 n).

Definition stars_okb (ops : list op) (sts : list ps) (stars : list (list nat)) : bool :=
  nodupb sts && partition_okb (length sts) stars && forallb (star_okb ops sts) stars.

Definition index_okb (n : nat) (stars : list (list nat)) (index : list nat) : bool :=
  Nat.eqb (length index) n &&
  forallb (fun x => memn x (nth (nth x index O) stars [])) (seq 0 n).

(* stateindex / starindex lookups *)
Fixpoint sindex_from (k : nat) (s : ps) (l : list ps) : option nat :=
  match l with [] => None | a :: l' => if ps_eqb s a then Some k else sindex_from (S k) s l' end.
Definition sindex (sts : list ps) (s : ps) : option nat := sindex_from 0 s sts.

Definition optn_eqb (a b : option nat) : bool :=
  match a, b with Some x, Some y => Nat.eqb x y | None, None => true | _, _ => false end.

(* queries: (state, stateindex answer, starindex answer) *)
Definition lookups_okb (sts : list ps) (index : list nat) (qs : list (ps * option nat * option nat)) : bool :=
  forallb (fun q => let '(s, a, b) := q in
     optn_eqb a (sindex sts s) &&
     optn_eqb b (match sindex sts s with Some x => Some (nth x index O) | None => None end)) qs.

(* ---- set comparison ----------------------------------------------------------------------- *)
Definition subsetb (a b : list ps) : bool := forallb (fun s => mem s b) a.
Definition sameb (a b : list ps) : bool := subsetb a b && subsetb b a.

Definition jumps_okb (jumps : list ps) : bool := forallb (fun j => negb (iszero j)) jumps.

(* ---- the correspondence runner (one case = one StarSet of the implementation) ----------
   result 0 = everything agrees; otherwise the first failing stage:
   1 ill-formed input (zero jump)           2 states list has duplicates
   3 states <> model states                 4 stars are not the orbit partition
   5 index inconsistent                     6 stateindex/starindex lookups wrong *)
Definition run_starset (jumps : list ps) (nsites N : nat) (origin : bool) (ops : list op)
           (ists : list ps) (istars : list (list nat)) (iindex : list nat)
           (qs : list (ps * option nat * option nat)) : nat :=
  if negb (jumps_okb jumps) then 1%nat
  else if negb (nodupb ists) then 2%nat
  else if negb (sameb ists (states jumps nsites N origin)) then 3%nat
  else if negb (stars_okb ops ists istars) then 4%nat
  else if negb (index_okb (length ists) istars iindex) then 5%nat
  else if negb (lookups_okb ists iindex qs) then 6%nat
  else 0%nat.

(* S(N1,o1) + S(N2,o2): implementation's resulting state list vs the model's sadd of the
   model's own state lists AND vs generate(N1+N2); 0 ok, 1 differs from sadd, 2 sadd differs
   from states (N1+N2) (cannot happen: theorem sadd_states), 3 duplicates *)
Definition run_add (jumps : list ps) (nsites N1 N2 : nat) (o1 o2 : bool) (isum : list ps) : nat :=
  let m := sadd (states jumps nsites N1 o1) (states jumps nsites N2 o2) in
  if negb (nodupb isum) then 3%nat
  else if negb (sameb isum m) then 1%nat
  else if negb (sameb m (states jumps nsites (N1 + N2) o1)) then 2%nat
  else 0%nat.

(* diffgenerate(S1, S2) from the model's state lists; 0 ok, 1 differs, 3 duplicates *)
Definition run_diff (jumps : list ps) (nsites N1 N2 : nat) (o1 o2 : bool) (idiff : list ps) : nat :=
  let m := diffgen (states jumps nsites N1 o1) (states jumps nsites N2 o2) in
  if negb (nodupb idiff) then 3%nat
  else if negb (sameb idiff m) then 1%nat
  else 0%nat.

(* ---- specification predicates (used by the theorems) ------------------------------------
   path jumps k s : s is the end point of a chain of k jumps (each starting on the site where
   the previous one ended), the solute sitting on the site the chain starts from *)
Inductive path (jumps : list ps) : nat -> ps -> Prop :=
| path1 : forall j, In j jumps -> path jumps 1 j
| pathS : forall k s j, path jumps k s -> In j jumps -> pj s = pi j -> path jumps (S k) (padd s j).

(* the same with every partial sum non-zero (what the shell-by-shell loop actually builds) *)
Inductive spath (jumps : list ps) : nat -> ps -> Prop :=
| spath1 : forall j, In j jumps -> iszero j = false -> spath jumps 1 j
| spathS : forall k s j, spath jumps k s -> In j jumps -> pj s = pi j ->
                         iszero (padd s j) = false -> spath jumps (S k) (padd s j).

(* stars / index of any state list (used for difference sets): 0 ok, 4 stars, 5 index *)
Definition run_stars (ops : list op) (sts : list ps) (stars : list (list nat)) (index : list nat) : nat :=
  if negb (stars_okb ops sts stars) then 4%nat
  else if negb (index_okb (length sts) stars index) then 5%nat else 0%nat.

(* ---- ONE StarSet object over a history of operations (state machine) --------------------------
   generate(N, originstates=o) returns at once only when BOTH N and the flag equal the object's
   current range and flag, otherwise rebuilds everything (so the object always is what was requested last); `+= other` as modelled by sadd
   (copies the other set when the own range is 0, no-op when the other's range is 0).
   The look-up dictionary of the implementation is rebuilt from the state list on every rebuild, so
   the model's look-up is `sindex` on the current list: no entry can outlive its state. *)
Record sobj := mkObj { oN : nat; oo : bool; ost : list ps }.
Inductive hop := HGen (N : nat) (o : bool) | HAdd (N : nat) (o : bool).
Definition fresh_obj (jumps : list ps) (nsites N : nat) (o : bool) : sobj := mkObj N o (states jumps nsites N o).
Definition hstep (jumps : list ps) (nsites : nat) (obj : sobj) (h : hop) : sobj :=
  match h with
  | HGen N o => if (if Nat.eqb N (oN obj) then Bool.eqb o (oo obj) else false) then obj else fresh_obj jumps nsites N o
  | HAdd N o => if Nat.ltb N 1 then obj
                else if Nat.ltb (oN obj) 1 then fresh_obj jumps nsites N o
                else mkObj (oN obj + N) (oo obj) (sadd (ost obj) (states jumps nsites N o))
  end.
Definition hrun (jumps : list ps) (nsites N0 : nat) (o0 : bool) (h : list hop) : sobj :=
  fold_left (hstep jumps nsites) h (fresh_obj jumps nsites N0 o0).

(* the implementation's object after the same history, judged against the state machine AND as a
   star set of its current range; codes as run_starset, 3 also when it differs from the machine *)
Definition run_hist (jumps : list ps) (nsites N0 : nat) (o0 : bool) (h : list hop) (ops : list op)
           (ists : list ps) (istars : list (list nat)) (iindex : list nat)
           (qs : list (ps * option nat * option nat)) : nat :=
  let obj := hrun jumps nsites N0 o0 h in
  if negb (jumps_okb jumps) then 1%nat
  else if negb (sameb ists (ost obj)) then 3%nat
  else run_starset jumps nsites (oN obj) (oo obj) ops ists istars iindex qs.
