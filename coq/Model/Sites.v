(* Site symmetry in lattice coordinates (C20): orbits of positions, Wyckoff sets, site point groups.

   Positions are integer triples scaled by D (u = p / D), a space-group operation is (S, t) with
   S an integer matrix and t the translation scaled by D; it maps p to S p + t, taken modulo D
   (back into the unit cell).  `orbit_pos` models Crystal.Wyckoffpos (images under every operation,
   duplicates removed); the checkers decide, for the IMPLEMENTATION's output,
     wyckoffpos_okb : the returned list is duplicate free and is exactly the orbit,
     wyckoff_okb    : the returned partition of the atoms of a species is exactly the partition into orbits,
     pointgroup_okb : the returned site point group fixes the site EXACTLY (no lattice translation
                      left) and consists of exactly the operations of G that map the site to itself.
   Definitions only; proofs in Proofs/Sites_proofs.v. *)
From Coq Require Import ZArith List Bool Arith.
From Onsager Require Import Model.Geom3.
Import ListNotations.
Local Open Scope Z_scope.

Definition sop := (M3 * V3)%type.

Definition vmod (D : Z) (v : V3) : V3 := (vx v mod D, vy v mod D, vz v mod D).
Definition image_raw (g : sop) (p : V3) : V3 := vadd (mulmv (fst g) p) (snd g).
Definition image (D : Z) (g : sop) (p : V3) : V3 := vmod D (image_raw g p).

Definition vmem (v : V3) (l : list V3) : bool := existsb (veqb v) l.
Fixpoint dedup (l : list V3) : list V3 :=
  match l with [] => [] | v :: t => if vmem v t then dedup t else v :: dedup t end.
Fixpoint vnodupb (l : list V3) : bool :=
  match l with [] => true | v :: t => negb (vmem v t) && vnodupb t end.
Definition same_setb (a b : list V3) : bool := forallb (fun v => vmem v b) a && forallb (fun v => vmem v a) b.

Definition orbit_pos (D : Z) (ops : list sop) (p : V3) : list V3 := dedup (map (fun g => image D g p) ops).

Definition wyckoffpos_okb (D : Z) (ops : list sop) (p : V3) (impl : list V3) : bool :=
  vnodupb impl && same_setb impl (orbit_pos D ops p).

(* ---- site point group ------------------------------------------------------------------ *)
Definition m3eqb (a b : M3) : bool := veqb (row1 a) (row1 b) && veqb (row2 a) (row2 b) && veqb (row3 a) (row3 b).
Definition sop_eqmodb (D : Z) (g h : sop) : bool := m3eqb (fst g) (fst h) && veqb (vmod D (snd g)) (vmod D (snd h)).
Definition stabiliser (D : Z) (ops : list sop) (p : V3) : list sop :=
  filter (fun g => veqb (image D g p) (vmod D p)) ops.

Definition pointgroup_okb (D : Z) (ops : list sop) (p : V3) (pg : list sop) : bool :=
  forallb (fun h => veqb (image_raw h p) p && existsb (sop_eqmodb D h) ops) pg &&
  forallb (fun g => existsb (fun h => sop_eqmodb D h g) pg) (stabiliser D ops p) &&
  Nat.eqb (length pg) (length (stabiliser D ops p)).

(* ---- Wyckoff sets of one species -------------------------------------------------------- *)
Definition sitep (sites : list V3) (i : nat) : V3 := nth i sites vzero.
Definition maps_to (D : Z) (sites : list V3) (g : sop) (i j : nat) : bool :=
  veqb (image D g (sitep sites i)) (vmod D (sitep sites j)).

Definition wyckoff_okb (D : Z) (ops : list sop) (sites : list V3) (parts : list (list nat)) : bool :=
  vnodupb (map (vmod D) sites) &&
  forallb (fun W => forallb (fun i => Nat.ltb i (length sites)) W) parts &&
  forallb (fun i => Nat.eqb (count_occ Nat.eq_dec (concat parts) i) 1) (seq 0 (length sites)) &&
  forallb (fun W => forallb (fun i =>
      forallb (fun g => existsb (fun j => maps_to D sites g i j) W) ops &&
      forallb (fun j => existsb (fun g => maps_to D sites g i j) ops) W) W) parts.

(* ---- the correspondence decision for one crystal ----------------------------------------
   code 0 ok; 1 a Wyckoff partition is wrong; 2 a site point group is wrong; 3 Wyckoffpos wrong *)
Record sitecase := mkSiteCase {
  s_D : Z; s_ops : list sop;
  s_species : list (list V3 * list (list nat));          (* positions, implementation's Wyckoff partition *)
  s_pointg : list (V3 * list sop);                        (* site position, implementation's point group *)
  s_wpos : list (V3 * list V3) }.                         (* probe position, implementation's Wyckoffpos *)

Definition check_sites (k : sitecase) : nat :=
  if negb (forallb (fun sp => wyckoff_okb (s_D k) (s_ops k) (fst sp) (snd sp)) (s_species k)) then 1%nat else
  if negb (forallb (fun pp => pointgroup_okb (s_D k) (s_ops k) (fst pp) (snd pp)) (s_pointg k)) then 2%nat else
  if negb (forallb (fun pw => wyckoffpos_okb (s_D k) (s_ops k) (fst pw) (snd pw)) (s_wpos k)) then 3%nat else 0%nat.
