(* Proofs about Model/Geom3.v: positivity (Sylvester), the component bound
   det * v_k^2 <= adj_kk * |v|^2_G  (Cauchy-Schwarz), boxes, the range certificate. *)
From Coq Require Import ZArith List Bool Lia ZifyBool Ring Permutation.
From Onsager Require Import Model.Geom3.
Import ListNotations.
Local Open Scope Z_scope.

Ltac v3 v := let x := fresh "x" in let y := fresh "y" in let z := fresh "z" in destruct v as [[x y] z].
Ltac unf := unfold det3, qf, bil, gmul, dot3, vadd, vsub, vneg, vscale, vx, vy, vz, adj11, adj22, adj33,
            adj12, adj13, adj23 in *; cbn [fst snd] in *.

Lemma veqb_eq a b : veqb a b = true <-> a = b.
Proof.
  v3 a; v3 b. unfold veqb, vx, vy, vz; cbn [fst snd]. split.
  - intro H. apply andb_true_iff in H as [H H3]. apply andb_true_iff in H as [H1 H2].
    apply Z.eqb_eq in H1, H2, H3. subst. reflexivity.
  - intro H. inversion H. subst. rewrite !Z.eqb_refl. reflexivity.
Qed.

Lemma V3_eq_dec (a b : V3) : {a = b} + {a <> b}.
Proof. repeat decide equality. Defined.

Lemma metric_eqb_eq a b : metric_eqb a b = true <-> a = b.
Proof.
  destruct a, b. unfold metric_eqb; cbn. split.
  - intro H. repeat (apply andb_true_iff in H as [H ?]).
    repeat match goal with E : (_ =? _) = true |- _ => apply Z.eqb_eq in E end. subst. reflexivity.
  - intro H. inversion H. subst. rewrite !Z.eqb_refl. reflexivity.
Qed.

(* ---- algebra of the forms --------------------------------------------------------- *)
Lemma bil_sym G v w : bil G v w = bil G w v.
Proof. v3 v; v3 w. unf. ring. Qed.

Lemma qf_neg G v : qf G (vneg v) = qf G v.
Proof. v3 v. unf. ring. Qed.

Lemma qf_congr S G v : qf G (mulmv S v) = qf (congr S G) v.
Proof.
  destruct S as [[r1 r2] r3]. v3 r1; v3 r2; v3 r3; v3 v.
  unfold congr, col, mulmv, row1, row2, row3. unf. cbn [g11 g22 g33 g23 g13 g12]. ring.
Qed.

Lemma bil_congr S G v w : bil G (mulmv S v) (mulmv S w) = bil (congr S G) v w.
Proof.
  destruct S as [[r1 r2] r3]. v3 r1; v3 r2; v3 r3; v3 v; v3 w.
  unfold congr, col, mulmv, row1, row2, row3. unf. cbn [g11 g22 g33 g23 g13 g12]. ring.
Qed.

Lemma isometry_qf S G v : isometryb S G = true -> qf G (mulmv S v) = qf G v.
Proof. intro H. apply metric_eqb_eq in H. rewrite qf_congr, H. reflexivity. Qed.

Lemma isometry_bil S G v w : isometryb S G = true -> bil G (mulmv S v) (mulmv S w) = bil G v w.
Proof. intro H. apply metric_eqb_eq in H. rewrite bil_congr, H. reflexivity. Qed.

Lemma mulmv_add S a b : mulmv S (vadd a b) = vadd (mulmv S a) (mulmv S b).
Proof.
  destruct S as [[r1 r2] r3]. v3 r1; v3 r2; v3 r3; v3 a; v3 b.
  unfold mulmv, row1, row2, row3. unf. f_equal; [f_equal|]; ring.
Qed.

Lemma mulmv_sub S a b : mulmv S (vsub a b) = vsub (mulmv S a) (mulmv S b).
Proof.
  destruct S as [[r1 r2] r3]. v3 r1; v3 r2; v3 r3; v3 a; v3 b.
  unfold mulmv, row1, row2, row3. unf. f_equal; [f_equal|]; ring.
Qed.

Lemma mulmv_scale S c a : mulmv S (vscale c a) = vscale c (mulmv S a).
Proof.
  destruct S as [[r1 r2] r3]. v3 r1; v3 r2; v3 r3; v3 a.
  unfold mulmv, row1, row2, row3. unf. f_equal; [f_equal|]; ring.
Qed.

Lemma mulmv_neg S a : mulmv S (vneg a) = vneg (mulmv S a).
Proof.
  destruct S as [[r1 r2] r3]. v3 r1; v3 r2; v3 r3; v3 a.
  unfold mulmv, row1, row2, row3. unf. f_equal; [f_equal|]; ring.
Qed.

(* ---- Sylvester: positive definite -------------------------------------------------- *)
Lemma sylvester_identity G v :
  g11 G * adj33 G * qf G v =
    adj33 G * ((g11 G * vx v + g12 G * vy v + g13 G * vz v) * (g11 G * vx v + g12 G * vy v + g13 G * vz v))
    + (adj33 G * vy v - adj23 G * vz v) * (adj33 G * vy v - adj23 G * vz v)
    + g11 G * det3 G * (vz v * vz v).
Proof. v3 v. unf. ring. Qed.

Lemma posdef_parts G : posdefb G = true -> 0 < g11 G /\ 0 < adj33 G /\ 0 < det3 G.
Proof. unfold posdefb. lia. Qed.

Lemma posdef_nonneg G v : posdefb G = true -> 0 <= qf G v.
Proof.
  intro H. apply posdef_parts in H as (H1 & H2 & H3).
  pose proof (sylvester_identity G v) as E.
  pose proof (Z.square_nonneg (g11 G * vx v + g12 G * vy v + g13 G * vz v)) as S1.
  pose proof (Z.square_nonneg (adj33 G * vy v - adj23 G * vz v)) as S2.
  pose proof (Z.square_nonneg (vz v)) as S3.
  set (s1 := (g11 G * vx v + g12 G * vy v + g13 G * vz v) * (g11 G * vx v + g12 G * vy v + g13 G * vz v)) in *.
  set (s2 := (adj33 G * vy v - adj23 G * vz v) * (adj33 G * vy v - adj23 G * vz v)) in *.
  set (s3 := vz v * vz v) in *.
  assert (0 <= adj33 G * s1) by (apply Z.mul_nonneg_nonneg; lia).
  assert (0 <= g11 G * det3 G * s3) by (apply Z.mul_nonneg_nonneg; [apply Z.mul_nonneg_nonneg|]; lia).
  assert (P : 0 < g11 G * adj33 G) by (apply Z.mul_pos_pos; lia).
  assert (0 <= g11 G * adj33 G * qf G v) by lia.
  destruct (Z_lt_le_dec (qf G v) 0) as [L|L]; [|exact L].
  exfalso. assert (g11 G * adj33 G * qf G v < 0) by (apply Z.mul_pos_neg; lia). lia.
Qed.

Lemma posdef_zero G v : posdefb G = true -> qf G v = 0 -> v = vzero.
Proof.
  intros H Q. apply posdef_parts in H as (H1 & H2 & H3).
  pose proof (sylvester_identity G v) as E. rewrite Q in E.
  pose proof (Z.square_nonneg (g11 G * vx v + g12 G * vy v + g13 G * vz v)) as S1.
  pose proof (Z.square_nonneg (adj33 G * vy v - adj23 G * vz v)) as S2.
  pose proof (Z.square_nonneg (vz v)) as S3.
  set (t1 := g11 G * vx v + g12 G * vy v + g13 G * vz v) in *.
  set (t2 := adj33 G * vy v - adj23 G * vz v) in *.
  assert (A1 : 0 <= adj33 G * (t1 * t1)) by (apply Z.mul_nonneg_nonneg; lia).
  assert (A3 : 0 <= g11 G * det3 G * (vz v * vz v)) by (apply Z.mul_nonneg_nonneg; [apply Z.mul_nonneg_nonneg|]; lia).
  assert (P3 : 0 < g11 G * det3 G) by (apply Z.mul_pos_pos; lia).
  assert (Z3 : g11 G * det3 G * (vz v * vz v) = 0) by lia.
  assert (Z2 : t2 * t2 = 0) by lia.
  assert (Z1 : adj33 G * (t1 * t1) = 0) by lia.
  assert (Ez : vz v = 0) by nia.
  assert (Et2 : t2 = 0) by nia.
  assert (Ey : vy v = 0) by (subst t2; rewrite Ez in Et2; nia).
  assert (Et1 : t1 = 0) by nia.
  assert (Ex : vx v = 0) by (subst t1; rewrite Ez, Ey in Et1; nia).
  v3 v. unfold vx, vy, vz in *; cbn [fst snd] in *. subst. reflexivity.
Qed.

Lemma posdef_pos G v : posdefb G = true -> v <> vzero -> 0 < qf G v.
Proof.
  intros H N. pose proof (posdef_nonneg G v H).
  destruct (Z.eq_dec (qf G v) 0) as [E|E]; [|lia].
  exfalso. apply N. eapply posdef_zero; eauto.
Qed.

(* adjugate diagonal entries are positive too *)
Lemma posdef_adj G : posdefb G = true -> 0 < adj11 G /\ 0 < adj22 G /\ 0 < adj33 G /\ 0 < g22 G /\ 0 < g33 G.
Proof.
  intro H. pose proof (posdef_parts G H) as (H1 & H2 & H3).
  (* adj_kk * det = qf G (adjugate column k) > 0 *)
  assert (A1 : adj11 G * det3 G = qf G (adj11 G, adj12 G, adj13 G)) by (unf; ring).
  assert (A2 : adj22 G * det3 G = qf G (adj12 G, adj22 G, adj23 G)) by (unf; ring).
  assert (P1 := posdef_nonneg G (adj11 G, adj12 G, adj13 G) H).
  assert (P2 := posdef_nonneg G (adj12 G, adj22 G, adj23 G) H).
  assert (Q2 : g22 G = qf G (0, 1, 0)) by (unf; ring).
  assert (Q3 : g33 G = qf G (0, 0, 1)) by (unf; ring).
  assert (0 < qf G (0, 1, 0)) by (apply posdef_pos; [exact H | discriminate]).
  assert (0 < qf G (0, 0, 1)) by (apply posdef_pos; [exact H | discriminate]).
  assert (N1 : adj11 G <> 0).
  { intro E0.
    assert (Q0 : qf G (adj11 G, adj12 G, adj13 G) = 0) by (rewrite <- A1, E0; ring).
    assert (Z0 : (adj11 G, adj12 G, adj13 G) = vzero) by (eapply posdef_zero; eauto).
    (* then det = g12*adj12 + g13*adj13 = 0 *)
    inversion Z0 as [[Ea Eb Ec]]. unfold det3 in H3. rewrite Ea, Eb, Ec in H3. lia. }
  assert (N2 : adj22 G <> 0).
  { intro E0.
    assert (Q0 : qf G (adj12 G, adj22 G, adj23 G) = 0) by (rewrite <- A2, E0; ring).
    assert (Z0 : (adj12 G, adj22 G, adj23 G) = vzero) by (eapply posdef_zero; eauto).
    inversion Z0 as [[Ea Eb Ec]].
    assert (D2 : det3 G = g12 G * adj12 G + g22 G * adj22 G + g23 G * adj23 G) by (unf; ring).
    rewrite D2, Ea, Eb, Ec in H3. lia. }
  repeat split; try lia; nia.
Qed.

(* ---- the component bound (Cauchy-Schwarz with the adjugate columns) ---------------- *)
Lemma cs_generic G v w : posdefb G = true ->
  (bil G w v) ^ 2 <= qf G w * qf G v.
Proof.
  intro H.
  assert (I : qf G (vsub (vscale (qf G w) v) (vscale (bil G w v) w))
              = qf G w * (qf G w * qf G v - (bil G w v) ^ 2)).
  { v3 v; v3 w. unf. ring. }
  pose proof (posdef_nonneg G (vsub (vscale (qf G w) v) (vscale (bil G w v) w)) H) as P.
  rewrite I in P.
  pose proof (posdef_nonneg G w H) as Pw.
  destruct (Z.eq_dec (qf G w) 0) as [E|E].
  - apply (posdef_zero G w H) in E. subst w.
    assert (B0 : bil G vzero v = 0) by (v3 v; unfold vzero; unf; ring).
    assert (Q0 : qf G vzero = 0) by (unfold vzero; unf; ring).
    rewrite B0, Q0. cbn. lia.
  - assert (Pa : 0 < qf G w) by lia.
    destruct (Z_lt_le_dec (qf G w * qf G v - bil G w v ^ 2) 0) as [L|L]; [|lia].
    exfalso. assert (qf G w * (qf G w * qf G v - bil G w v ^ 2) < 0) by (apply Z.mul_pos_neg; lia). lia.
Qed.

Lemma comp_bound_x G v : posdefb G = true -> det3 G * (vx v) ^ 2 <= adj11 G * qf G v.
Proof.
  intro H. pose proof (posdef_parts G H) as (_ & _ & Hd).
  pose proof (cs_generic G v (adj11 G, adj12 G, adj13 G) H) as C.
  assert (B : bil G (adj11 G, adj12 G, adj13 G) v = det3 G * vx v) by (v3 v; unf; ring).
  assert (Q : qf G (adj11 G, adj12 G, adj13 G) = adj11 G * det3 G) by (unf; ring).
  rewrite B, Q in C.
  replace ((det3 G * vx v) ^ 2) with (det3 G * (det3 G * vx v ^ 2)) in C by ring.
  replace (adj11 G * det3 G * qf G v) with (det3 G * (adj11 G * qf G v)) in C by ring.
  apply Z.mul_le_mono_pos_l in C; assumption.
Qed.

Lemma comp_bound_y G v : posdefb G = true -> det3 G * (vy v) ^ 2 <= adj22 G * qf G v.
Proof.
  intro H. pose proof (posdef_parts G H) as (_ & _ & Hd).
  pose proof (cs_generic G v (adj12 G, adj22 G, adj23 G) H) as C.
  assert (B : bil G (adj12 G, adj22 G, adj23 G) v = det3 G * vy v) by (v3 v; unf; ring).
  assert (Q : qf G (adj12 G, adj22 G, adj23 G) = adj22 G * det3 G) by (unf; ring).
  rewrite B, Q in C.
  replace ((det3 G * vy v) ^ 2) with (det3 G * (det3 G * vy v ^ 2)) in C by ring.
  replace (adj22 G * det3 G * qf G v) with (det3 G * (adj22 G * qf G v)) in C by ring.
  apply Z.mul_le_mono_pos_l in C; assumption.
Qed.

Lemma comp_bound_z G v : posdefb G = true -> det3 G * (vz v) ^ 2 <= adj33 G * qf G v.
Proof.
  intro H. pose proof (posdef_parts G H) as (_ & _ & Hd).
  pose proof (cs_generic G v (adj13 G, adj23 G, adj33 G) H) as C.
  assert (B : bil G (adj13 G, adj23 G, adj33 G) v = det3 G * vz v) by (v3 v; unf; ring).
  assert (Q : qf G (adj13 G, adj23 G, adj33 G) = adj33 G * det3 G) by (unf; ring).
  rewrite B, Q in C.
  replace ((det3 G * vz v) ^ 2) with (det3 G * (det3 G * vz v ^ 2)) in C by ring.
  replace (adj33 G * det3 G * qf G v) with (det3 G * (adj33 G * qf G v)) in C by ring.
  apply Z.mul_le_mono_pos_l in C; assumption.
Qed.

(* ---- boxes ---------------------------------------------------------------------- *)
Lemma zrange_In n r : In r (zrange n) <-> - n <= r <= n.
Proof.
  unfold zrange. rewrite in_map_iff. split.
  - intros (k & E & Hk). apply in_seq in Hk. lia.
  - intro H. exists (Z.to_nat (r + n)). split; [lia|]. apply in_seq. lia.
Qed.

Lemma NoDup_map_inj {A B} (f : A -> B) l :
  (forall a b, In a l -> In b l -> f a = f b -> a = b) -> NoDup l -> NoDup (map f l).
Proof.
  induction l as [|a l IH]; intros Inj N; cbn [map]; [constructor|].
  inversion N as [|? ? Na Nl]; subst. constructor.
  - intro H. apply in_map_iff in H as (b & E & Hb).
    assert (b = a) by (apply Inj; [right; exact Hb | left; reflexivity | exact E]). subst b. contradiction.
  - apply IH; [|exact Nl]. intros x y Hx Hy. apply Inj; right; assumption.
Qed.

Lemma zrange_NoDup n : NoDup (zrange n).
Proof.
  unfold zrange. apply NoDup_map_inj; [|apply seq_NoDup].
  intros a b _ _ E. lia.
Qed.

Lemma NoDup_list_prod {A B} (la : list A) (lb : list B) :
  NoDup la -> NoDup lb -> NoDup (list_prod la lb).
Proof.
  intros Na Nb. induction la as [|a la IH]; cbn [list_prod]; [constructor|].
  inversion Na as [|? ? Ha Nla]; subst.
  assert (N1 : NoDup (map (fun y : B => (a, y)) lb)).
  { apply NoDup_map_inj; [|exact Nb]. intros x y _ _ E. inversion E. reflexivity. }
  assert (G : forall l1 l2 : list (A * B), NoDup l1 -> NoDup l2 ->
                (forall p, In p l1 -> In p l2 -> False) -> NoDup (l1 ++ l2)).
  { intros l1. induction l1 as [|p l1 IH1]; intros l2 M1 M2 Dj; cbn [app]; [exact M2|].
    inversion M1 as [|? ? Hp Ml1]; subst. constructor.
    - intro H. apply in_app_or in H as [H|H]; [contradiction|]. apply (Dj p); [left; reflexivity | exact H].
    - apply IH1; [exact Ml1 | exact M2|]. intros q Hq1 Hq2. apply (Dj q); [right; exact Hq1 | exact Hq2]. }
  apply G; [exact N1 | apply IH; exact Nla |].
  intros [x y] H1 H2. apply in_map_iff in H1 as (y' & E & _). inversion E; subst.
  apply in_prod_iff in H2 as [H2 _]. contradiction.
Qed.

Lemma box_In nmax v :
  In v (box nmax) <-> (- vx nmax <= vx v <= vx nmax) /\ (- vy nmax <= vy v <= vy nmax) /\ (- vz nmax <= vz v <= vz nmax).
Proof.
  v3 v. unfold box. change (vx (x, y, z)) with x. change (vy (x, y, z)) with y. change (vz (x, y, z)) with z.
  rewrite <- !zrange_In. split.
  - intro H. apply in_prod_iff in H as [H H3]. apply in_prod_iff in H as [H1 H2]. tauto.
  - intros (H1 & H2 & H3). apply in_prod_iff; split; [apply in_prod_iff; split|]; assumption.
Qed.

Lemma box_NoDup nmax : NoDup (box nmax).
Proof. unfold box. repeat apply NoDup_list_prod; apply zrange_NoDup. Qed.

Lemma inboxb_In nmax v : inboxb nmax v = true <-> In v (box nmax).
Proof. rewrite box_In. unfold inboxb. lia. Qed.

(* ---- range certificate ------------------------------------------------------------ *)
Lemma range1_sound D adj det c2 nmax spread R dp q :
  0 < D -> 0 <= nmax -> 0 < det -> 0 < adj ->
  range1b D adj det c2 nmax spread = true ->
  Z.abs dp <= spread ->
  det * (D * R + dp) ^ 2 <= adj * q -> q < c2 ->
  - nmax <= R <= nmax.
Proof.
  intros HD Hn Hdet Hadj Hr Hdp Hcs Hq.
  unfold range1b in Hr. apply andb_true_iff in Hr as [Hm Hr].
  apply Z.leb_le in Hm, Hr.
  destruct (Z_le_gt_dec (Z.abs R) nmax) as [L|L]; [lia|].
  exfalso.
  set (m := D * (nmax + 1) - spread) in *.
  assert (Hv : m <= Z.abs (D * R + dp)) by nia.
  assert (m * m <= (D * R + dp) ^ 2) by nia.
  assert (adj * q < adj * c2) by nia.
  nia.
Qed.

Theorem range_ok_sound G D c2 nmax spread R dp :
  posdefb G = true -> range_okb G D c2 nmax spread = true -> spread_okb spread dp = true ->
  qf G (vadd (vscale D R) dp) < c2 -> In R (box nmax).
Proof.
  intros HP HR HS Hq.
  pose proof (posdef_parts G HP) as (_ & _ & Hdet).
  pose proof (posdef_adj G HP) as (A1 & A2 & A3 & _).
  unfold range_okb in HR.
  repeat (apply andb_true_iff in HR as [HR ?]).
  unfold spread_okb in HS. repeat (apply andb_true_iff in HS as [HS ?]).
  set (v := vadd (vscale D R) dp) in *.
  pose proof (comp_bound_x G v HP) as Bx.
  pose proof (comp_bound_y G v HP) as By.
  pose proof (comp_bound_z G v HP) as Bz.
  apply box_In.
  assert (Ex : vx v = D * vx R + vx dp) by (subst v; v3 R; v3 dp; unf; reflexivity).
  assert (Ey : vy v = D * vy R + vy dp) by (subst v; v3 R; v3 dp; unf; reflexivity).
  assert (Ez : vz v = D * vz R + vz dp) by (subst v; v3 R; v3 dp; unf; reflexivity).
  rewrite Ex in Bx. rewrite Ey in By. rewrite Ez in Bz.
  repeat split.
  1,2: eapply (range1_sound D (adj11 G) (det3 G) c2 (vx nmax) (vx spread) (vx R) (vx dp) (qf G v)); eauto; lia.
  1,2: eapply (range1_sound D (adj22 G) (det3 G) c2 (vy nmax) (vy spread) (vy R) (vy dp) (qf G v)); eauto; lia.
  1,2: eapply (range1_sound D (adj33 G) (det3 G) c2 (vz nmax) (vz spread) (vz R) (vz dp) (qf G v)); eauto; lia.
Qed.

(* non-vacuity: the hexagonal metric (scaled by 2), D = 1, cutoff^2 = 3 (scaled 6) *)
Example hex_metric : metric := mkMetric 2 2 2 0 0 (-1).
Example hex_posdef : posdefb hex_metric = true. Proof. reflexivity. Qed.
Example hex_range : range_okb hex_metric 1 6 (2, 2, 1) (0, 0, 0) = true. Proof. vm_compute. reflexivity. Qed.
Example hex_range_tight : range_okb hex_metric 1 6 (0, 2, 1) (0, 0, 0) = false. Proof. vm_compute. reflexivity. Qed.
