(* C13: round-trip theorems for the list codecs of the HDF5 code (Model/Codec.v). *)
From Coq Require Import List Arith Bool Lia.
From Onsager Require Import Model.Codec.
Import ListNotations.

Section CodecProofs.
Variable A : Type.
Notation LL := (list (list A)).

(* ---------- the bucket loop ---------- *)
Lemma set_nth_length (l : LL) n x : n < length l -> length (set_nth l n x) = length l.
Proof.
  intro H. unfold set_nth. rewrite app_length, firstn_length_le by lia.
  destruct (skipn n l) as [|y t] eqn:E.
  - apply (f_equal (@length _)) in E. rewrite skipn_length in E. cbn in E. lia.
  - apply (f_equal (@length _)) in E. rewrite skipn_length in E. cbn in *. lia.
Qed.

Lemma set_nth_nth (l : LL) n x m : n < length l -> nth m (set_nth l n x) [] = if Nat.eqb m n then x else nth m l [].
Proof.
  intro H. unfold set_nth.
  assert (E : skipn n l = nth n l [] :: skipn (S n) l).
  { rewrite <- (firstn_skipn n l) at 2 3. clear x m. revert l H. induction n as [|n IH]; intros [|y l] H; cbn in *; try lia.
    - reflexivity.
    - rewrite <- IH by lia. destruct (skipn n l) eqn:S; [|reflexivity].
      apply (f_equal (@length _)) in S. rewrite skipn_length in S. cbn in S. lia. }
  assert (E' : forall l n, n < length l -> skipn n l = nth n l ([]:list A) :: skipn (S n) l).
  { clear. intros l n; revert l. induction n as [|n IH]; intros [|y l] H; cbn in *; try lia; [reflexivity | apply IH; lia]. }
  clear E. rewrite (E' l n H).
  destruct (Nat.eqb_spec m n) as [->|N].
  - rewrite app_nth2; rewrite firstn_length_le by lia; [|lia]. rewrite Nat.sub_diag. reflexivity.
  - destruct (Nat.lt_ge_cases m n) as [L|G].
    + rewrite app_nth1 by (rewrite firstn_length_le; lia).
      rewrite <- (firstn_skipn n l) at 2. rewrite app_nth1 by (rewrite firstn_length_le; lia). reflexivity.
    + rewrite app_nth2 by (rewrite firstn_length_le; lia). rewrite firstn_length_le by lia.
      rewrite <- (firstn_skipn n l) at 2. rewrite app_nth2 by (rewrite firstn_length_le; lia). rewrite firstn_length_le by lia.
      rewrite (E' l n H). destruct (m - n) as [|k] eqn:D; [lia | reflexivity].
Qed.

Definition bucket (pairs : list (A * nat)) (n : nat) : list A := map fst (filter (fun p => Nat.eqb (snd p) n) pairs).

Lemma bucket_loop_spec pairs : forall acc : LL,
  (forall p, In p pairs -> snd p < length acc) ->
  length (bucket_loop acc pairs) = length acc /\
  forall n, nth n (bucket_loop acc pairs) [] = nth n acc [] ++ bucket pairs n.
Proof.
  induction pairs as [|p ps IH]; intros acc H; unfold bucket_loop; cbn [fold_left].
  - split; [reflexivity | intro n; unfold bucket; cbn; rewrite app_nil_r; reflexivity].
  - assert (Hp : snd p < length acc) by (apply H; left; reflexivity).
    set (acc' := set_nth acc (snd p) (nth (snd p) acc [] ++ [fst p])).
    assert (L' : length acc' = length acc) by (apply set_nth_length; exact Hp).
    destruct (IH acc') as [L N]; [intros q Hq; rewrite L'; apply H; right; exact Hq|].
    fold (bucket_loop acc' ps). split; [lia|]. intro n. rewrite N. unfold acc'. rewrite set_nth_nth by exact Hp.
    unfold bucket. cbn [filter]. rewrite (Nat.eqb_sym (snd p) n).
    destruct (Nat.eqb_spec n (snd p)) as [->|]; cbn [map]; [rewrite <- app_assoc; reflexivity | reflexivity].
Qed.

Lemma nth_repeat_nil n m : nth n (repeat ([] : list A) m) [] = [].
Proof. revert n; induction m as [|m IH]; intros [|n]; cbn; auto. Qed.

(* flatlistindex2doublelist: as many lists as max(index)+1; list n holds, in order, the entries with index n *)
Theorem decode_spec (flat : list A) idx ll : decode flat idx = Some ll ->
  length ll = S (list_max idx) /\ forall n, nth n ll [] = bucket (combine flat idx) n.
Proof.
  unfold decode. destruct idx as [|i0 idx']; [discriminate|]. intro E; injection E as <-.
  set (idx := i0 :: idx') in *.
  destruct (bucket_loop_spec (combine flat idx) (repeat [] (S (list_max idx)))) as [L N].
  - intros [pa pi] Hp. rewrite repeat_length. apply in_combine_r in Hp. cbn [snd].
    assert (F : Forall (fun k => k <= list_max idx) idx) by (apply list_max_le; lia).
    rewrite Forall_forall in F. specialize (F _ Hp). lia.
  - change (length (bucket_loop (repeat [] (S (list_max idx))) (combine flat idx)) = S (list_max idx) /\
            forall n, nth n (bucket_loop (repeat [] (S (list_max idx))) (combine flat idx)) [] = bucket (combine flat idx) n).
    split; [rewrite L; apply repeat_length|]. intro n. rewrite N, nth_repeat_nil. reflexivity.
Qed.

(* ---------- encode ---------- *)
Lemma encode_from_length k (ll : LL) : length (fst (encode_from k ll)) = length (snd (encode_from k ll)).
Proof.
  revert k; induction ll as [|x ll IH]; intro k; cbn [encode_from]; [reflexivity|].
  specialize (IH (S k)). destruct (encode_from (S k) ll) as [f i]. cbn [fst snd] in *.
  rewrite !app_length, repeat_length. lia.
Qed.

Lemma combine_app {B C} (a a' : list B) (b b' : list C) : length a = length b ->
  combine (a ++ a') (b ++ b') = combine a b ++ combine a' b'.
Proof. revert b; induction a as [|x a IH]; intros [|y b] E; cbn in *; try lia; [reflexivity|]. rewrite IH by lia. reflexivity. Qed.

Lemma bucket_app p q n : bucket (p ++ q) n = bucket p n ++ bucket q n.
Proof. unfold bucket. rewrite filter_app, map_app. reflexivity. Qed.

Lemma bucket_repeat (x : list A) k n : bucket (combine x (repeat k (length x))) n = if Nat.eqb k n then x else [].
Proof.
  unfold bucket. induction x as [|a x IH]; cbn [length repeat combine filter map snd].
  - destruct (Nat.eqb k n); reflexivity.
  - destruct (Nat.eqb k n) eqn:E; cbn [map fst]; rewrite IH; reflexivity.
Qed.

Lemma bucket_encode (ll : LL) : forall k n,
  bucket (combine (fst (encode_from k ll)) (snd (encode_from k ll))) n = if Nat.leb k n then nth (n - k) ll [] else [].
Proof.
  induction ll as [|x ll IH]; intros k n; cbn [encode_from].
  - cbn. destruct (Nat.leb k n); [destruct (n - k); reflexivity | reflexivity].
  - specialize (IH (S k) n). pose proof (encode_from_length (S k) ll) as EL.
    destruct (encode_from (S k) ll) as [f i]. cbn [fst snd] in *.
    rewrite combine_app by (rewrite repeat_length; reflexivity). rewrite bucket_app, bucket_repeat, IH.
    destruct (Nat.eqb_spec k n) as [->|N].
    + rewrite Nat.leb_refl, Nat.sub_diag. cbn [nth]. destruct (Nat.leb_spec (S n) n); [lia|]. apply app_nil_r.
    + destruct (Nat.leb_spec (S k) n), (Nat.leb_spec k n); try lia; cbn [app]; [|reflexivity].
      replace (n - k) with (S (n - S k)) by lia. reflexivity.
Qed.

(* ---------- lists that end with a non-empty list are determined by their entries ---------- *)
Definition ends_nonempty (l : LL) : Prop := l = [] \/ last l [] <> [].

Lemma last_nth (l : LL) : last l [] = nth (length l - 1) l [].
Proof.
  induction l as [|x l IH]; [reflexivity|]. destruct l as [|y l]; [reflexivity|].
  change (last (x :: y :: l) []) with (last (y :: l) []). rewrite IH. cbn [length].
  replace (S (S (length l)) - 1) with (S (length l)) by lia. replace (S (length l) - 1) with (length l) by lia. reflexivity.
Qed.

Lemma ends_nonempty_ext (a b : LL) : ends_nonempty a -> ends_nonempty b ->
  (forall n, nth n a [] = nth n b []) -> a = b.
Proof.
  intros Ea Eb N.
  assert (Len : forall x y : LL, ends_nonempty x -> (forall n, nth n x [] = nth n y []) -> length x <= length y).
  { intros x y [->|Hx] M; [cbn; lia|]. destruct (Nat.le_gt_cases (length x) (length y)) as [|G]; [assumption|].
    exfalso. apply Hx. rewrite last_nth, M. apply nth_overflow. lia. }
  apply nth_ext with (d := []) (d' := []).
  - apply Nat.le_antisymm; [apply Len; assumption | apply Len; [assumption | intro n; symmetry; apply N]].
  - intros n _. apply N.
Qed.

Lemma strip_nth (ll : LL) n : nth n (strip_trailing ll) [] = nth n ll [].
Proof.
  revert n; induction ll as [|x ll IH]; intro n; [reflexivity|]. cbn [strip_trailing].
  destruct (strip_trailing ll) as [|r rs] eqn:S.
  - destruct x as [|a x].
    + destruct n as [|n]; [reflexivity|]. cbn [nth]. rewrite <- IH. destruct n; reflexivity.
    + destruct n as [|n]; [reflexivity|]. cbn [nth]. rewrite <- IH. destruct n; reflexivity.
  - destruct n as [|n]; [reflexivity|]. cbn [nth]. apply IH.
Qed.

Lemma strip_ends (ll : LL) : ends_nonempty (strip_trailing ll).
Proof.
  induction ll as [|x ll IH]; [left; reflexivity|]. cbn [strip_trailing].
  destruct (strip_trailing ll) as [|r rs] eqn:S.
  - destruct x; [left; reflexivity | right; cbn; discriminate].
  - right. destruct IH as [IH|IH]; [discriminate|]. exact IH.
Qed.

Lemma wf_ll_ends (ll : LL) : wf_ll ll = true <-> (ll <> [] /\ last ll [] <> []).
Proof.
  unfold wf_ll. destruct (rev ll) as [|x r] eqn:R.
  - apply (f_equal (@rev _)) in R. rewrite rev_involutive in R. cbn in R. subst. split; [discriminate | intros [N _]; contradiction].
  - apply (f_equal (@rev _)) in R. rewrite rev_involutive in R. cbn in R. subst ll. rewrite last_last.
    split.
    + intro W. split; [destruct (rev r); discriminate | destruct x; [discriminate | discriminate]].
    + intros [_ N]. destruct x; [contradiction | reflexivity].
Qed.

Lemma list_max_In (l : list nat) : l <> [] -> In (list_max l) l.
Proof.
  induction l as [|a l IH]; [contradiction|]. intros _. cbn [list_max fold_right].
  change (fold_right Nat.max 0 l) with (list_max l).
  destruct l as [|b l]; [cbn; left; lia|].
  destruct (Nat.max_spec a (list_max (b :: l))) as [[_ ->]|[_ ->]]; [right; apply IH; discriminate | left; reflexivity].
Qed.

(* ---------- the round trip ---------- *)
(* in general the round trip yields the list WITHOUT its trailing empty lists; if every list is empty the
   decoder raises *)
Theorem flat_roundtrip_general (ll : LL) :
  decode (fst (encode ll)) (snd (encode ll)) =
  match strip_trailing ll with [] => None | r => Some r end.
Proof.
  unfold encode. pose proof (bucket_encode ll 0) as B. pose proof (encode_from_length 0 ll) as EL.
  destruct (encode_from 0 ll) as [f i] eqn:E. cbn [fst snd] in *.
  assert (B' : forall n, bucket (combine f i) n = nth n ll []).
  { intro n. rewrite B. cbn. rewrite Nat.sub_0_r. reflexivity. }
  destruct i as [|i0 i'] eqn:Ei.
  - (* no entries at all: every list is empty *)
    cbn [decode]. destruct (strip_trailing ll) as [|r rs] eqn:S; [reflexivity|]. exfalso.
    destruct (strip_ends ll) as [X|X]; rewrite S in X; [discriminate|].
    apply X. rewrite last_nth, <- S, strip_nth, <- B'. destruct f; [reflexivity | cbn in EL; lia].
  - rewrite <- Ei in *. destruct (decode f i) as [r|] eqn:D; [|subst i; discriminate].
    destruct (decode_spec f i r D) as [L N].
    assert (R : r = strip_trailing ll).
    { apply ends_nonempty_ext.
      - right. rewrite last_nth, L. replace (S (list_max i) - 1) with (list_max i) by lia. rewrite N.
        assert (Hin : In (list_max i) i) by (apply list_max_In; subst i; discriminate).
        (* some entry carries the maximal index *)
        assert (G : forall (f : list A) i m, length f = length i -> In m i -> bucket (combine f i) m <> []).
        { clear. intros f i m; revert f. induction i as [|a i IH]; intros f EL Hin; [destruct Hin|].
          destruct f as [|x f]; [cbn in EL; lia|]. cbn in EL. destruct Hin as [X|X].
          - subst a. unfold bucket. cbn. rewrite Nat.eqb_refl. cbn. discriminate.
          - unfold bucket in *. cbn. destruct (Nat.eqb a m); cbn; [discriminate | apply IH; [lia | exact X]]. }
        apply G; assumption.
      - apply strip_ends.
      - intro n. rewrite N, B', strip_nth. reflexivity. }
    rewrite <- R. destruct r; [cbn in L; lia | reflexivity].
Qed.

(* the exact condition: the round trip is the identity iff the list is non-empty and its last list is non-empty *)
Theorem flat_roundtrip_iff (ll : LL) :
  decode (fst (encode ll)) (snd (encode ll)) = Some ll <-> wf_ll ll = true.
Proof.
  rewrite flat_roundtrip_general, wf_ll_ends. split.
  - intro E. destruct (strip_trailing ll) as [|r rs] eqn:S; [discriminate|]. injection E as E.
    destruct (strip_ends ll) as [X|X]; rewrite S in X; [discriminate|]. rewrite E in X. split; [rewrite <- E; discriminate | exact X].
  - intros [N Lne].
    assert (S : strip_trailing ll = ll).
    { apply ends_nonempty_ext; [apply strip_ends | right; exact Lne | intro n; apply strip_nth]. }
    rewrite S. destruct ll; [contradiction | reflexivity].
Qed.

Theorem flat_roundtrip (ll : LL) : wf_ll ll = true -> decode (fst (encode ll)) (snd (encode ll)) = Some ll.
Proof. apply flat_roundtrip_iff. Qed.

End CodecProofs.

(* a trailing empty list is lost; a list of empty lists cannot be decoded *)
Theorem flat_roundtrip_refuted :
  exists ll : list (list nat), decode (fst (encode ll)) (snd (encode ll)) <> Some ll /\
                               decode (fst (encode ll)) (snd (encode ll)) = Some [[1]].
Proof. exists [[1]; []]. split; [vm_compute; discriminate | vm_compute; reflexivity]. Qed.

Example flat_roundtrip_example :
  let ll := [[3; 1]; []; [4]; [1; 5; 9]] in wf_ll ll = true /\ decode (fst (encode ll)) (snd (encode ll)) = Some ll.
Proof. split; vm_compute; reflexivity. Qed.

(* ---------- index arrays: sitelist from invmap, stars from index, jumpnetwork_index from invmap ---------- *)
Lemma bucket_seq (l : list nat) : forall s n,
  bucket nat (combine (seq s (length l)) l) n = filter (fun x => Nat.eqb (nth (x - s) l 0) n) (seq s (length l)).
Proof.
  induction l as [|a l IH]; intros s n; [reflexivity|].
  cbn [length seq combine]. unfold bucket in *. cbn [filter snd]. rewrite Nat.sub_diag. change (nth 0 (a :: l) 0) with a.
  assert (T : filter (fun x => Nat.eqb (nth (x - s) (a :: l) 0) n) (seq (S s) (length l))
              = filter (fun x => Nat.eqb (nth (x - S s) l 0) n) (seq (S s) (length l))).
  { apply filter_ext_in. intros x Hx. apply in_seq in Hx. replace (x - s) with (S (x - S s)) by lia. reflexivity. }
  rewrite T, <- IH. destruct (Nat.eqb a n); reflexivity.
Qed.

(* the lists rebuilt by the load loops: list n = the ascending positions x with index[x] = n *)
Theorem lists_of_index_spec idx ll : lists_of_index idx = Some ll ->
  length ll = S (list_max idx) /\
  forall n, nth n ll [] = filter (fun x => Nat.eqb (nth x idx 0) n) (seq 0 (length idx)).
Proof.
  unfold lists_of_index. intro E. destruct (decode_spec nat _ _ _ E) as [L N]. split; [exact L|].
  intro n. rewrite N, bucket_seq. apply filter_ext. intro x. rewrite Nat.sub_0_r. reflexivity.
Qed.

Example lists_of_index_example :
  lists_of_index (invmap_of 6 [[0; 3]; [1; 2; 5]; [4]]) = Some [[0; 3]; [1; 2; 5]; [4]] /\
  lists_of_index (invmap_of 3 [[2; 0]; [1]]) = Some [[0; 2]; [1]].      (* an unsorted list comes back sorted *)
Proof. split; vm_compute; reflexivity. Qed.

(* ---------- PSlist2array / array2PSlist ---------- *)
Theorem pslist_roundtrip {I R X} (l : list (psrow I R X)) : l <> [] ->
  exists t, ps2arrays l = Some t /\ arrays2ps t = l.
Proof.
  intro N. unfold ps2arrays. destruct l as [|r0 l0] eqn:E; [contradiction|]. rewrite <- E. clear N E r0 l0.
  eexists; split; [reflexivity|]. unfold arrays2ps.
  induction l as [|[a b c] l IH]; [reflexivity|]. cbn. rewrite IH. reflexivity.
Qed.

(* ---------- vTKdict2arrays / arrays2vTKdict ---------- *)
Lemma firstn_exact {B} (a r : list B) : firstn (length a) (a ++ r) = a.
Proof. induction a; cbn; [destruct r; reflexivity | f_equal; assumption]. Qed.
Lemma skipn_exact {B} (a r : list B) : skipn (length a) (a ++ r) = r.
Proof. induction a; cbn; [reflexivity | assumption]. Qed.

Lemma hsplit_hstack {K} (k0 k : vkey K) : same_shape k0 k -> hsplit (hstack k) (splits_of k0) = k.
Proof.
  destruct k0 as [[[a0 b0] c0] d0], k as [[[a b] c] d]. cbn [same_shape]. intros (Ea & Eb & Ec & Ed).
  unfold hsplit, hstack, splits_of. cbn [nth]. rewrite <- Ea, <- Eb, <- Ec.
  replace (length a + length b - length a) with (length b) by lia.
  replace (length a + length b + length c - (length a + length b)) with (length c) by lia.
  rewrite firstn_exact, skipn_exact, firstn_exact.
  replace (a ++ b ++ c ++ d) with ((a ++ b) ++ c ++ d) by (rewrite <- app_assoc; reflexivity).
  rewrite <- (app_length a b), skipn_exact, firstn_exact.
  replace ((a ++ b) ++ c ++ d) with ((a ++ b ++ c) ++ d) by (rewrite <- !app_assoc; reflexivity).
  replace (length (a ++ b) + length c) with (length (a ++ b ++ c)) by (rewrite !app_length; lia).
  rewrite skipn_exact. reflexivity.
Qed.

Theorem vtk_roundtrip {K W} (d : list (vkey K * W)) :
  (forall k0 w0 k w, nth_error d 0 = Some (k0, w0) -> In (k, w) d -> same_shape k0 k) ->
  arrays2dict (dict2arrays d) = d.
Proof.
  intro S. destruct d as [|[k0 w0] d']; [reflexivity|].
  change (combine (map (fun r => hsplit r (splits_of k0)) (map (fun kv : vkey K * W => hstack (fst kv)) ((k0, w0) :: d')))
                  (map snd ((k0, w0) :: d')) = (k0, w0) :: d').
  rewrite map_map.
  assert (G : forall l : list (vkey K * W), (forall k w, In (k, w) l -> same_shape k0 k) ->
              combine (map (fun x => hsplit (hstack (fst x)) (splits_of k0)) l) (map snd l) = l).
  { induction l as [|[k w] l IH]; intro Hs; [reflexivity|]. cbn [map combine fst snd].
    rewrite hsplit_hstack by (apply (Hs k w); left; reflexivity). rewrite IH; [reflexivity|].
    intros k' w' Hin. apply (Hs k' w'). right; exact Hin. }
  apply G. intros k w Hin. apply (S k0 w0 k w); [reflexivity | exact Hin].
Qed.

(* keys of different field lengths (never produced by one calculator) do not survive *)
Example vtk_roundtrip_ragged_refuted :
  let d := [(([1], [2], [3], [4]), 0); (([1; 1], [], [3], [4]), 1)] in arrays2dict (dict2arrays d) <> d.
Proof. vm_compute. discriminate. Qed.

Example vtk_roundtrip_example :
  let d := [(([1; 2], [0], [3], [4; 4]), 7); (([5; 6], [1], [3], [9; 9]), 8)] in arrays2dict (dict2arrays d) = d.
Proof. vm_compute. reflexivity. Qed.

(* ---------- Cluster YAML flags: every combination of the constructor flags survives the dictionary ---------- *)
Theorem cluster_flags_roundtrip (t v : bool) : cluster_flags_of_keys (cluster_asdict_keys t v) = (t, v).
Proof. destruct t, v; reflexivity. Qed.

(* ---------- numbered families of sub-groups: reading by number restores the list, for every length ---------- *)
Section FamilyProofs.
Variables K A : Type.
Variable keqb : K -> K -> bool.
Variable name : nat -> K.
Hypothesis name_inj : forall i j, keqb (name i) (name j) = true <-> i = j.

Lemma kassoc_write_from (l : list A) : forall s i, s <= i ->
  kassoc keqb (name i) (write_family_from name s l) = nth_error l (i - s).
Proof.
  induction l as [|x l IH]; intros s i Hi; unfold write_family_from in *; cbn [length seq map combine kassoc].
  - destruct (i - s); reflexivity.
  - destruct (keqb (name s) (name i)) eqn:E.
    + apply name_inj in E. subst. rewrite Nat.sub_diag. reflexivity.
    + assert (i <> s) by (intro X; subst; rewrite (proj2 (name_inj s s) eq_refl) in E; discriminate).
      rewrite (IH (S s) i) by lia. replace (i - s) with (S (i - S s)) by lia. reflexivity.
Qed.

Lemma map_nth_error_seq (l : list A) : map (fun i => nth_error l i) (seq 0 (length l)) = map Some l.
Proof.
  induction l as [|x l IH]; [reflexivity|]. cbn [length seq map nth_error]. f_equal.
  rewrite <- seq_shift, map_map. exact IH.
Qed.

Theorem family_roundtrip (l : list A) :
  read_by_number keqb name (write_family name l) (length l) = map Some l.
Proof.
  unfold read_by_number, write_family. rewrite <- map_nth_error_seq. apply map_ext_in. intros i _.
  rewrite kassoc_write_from by lia. rewrite Nat.sub_0_r. reflexivity.
Qed.
End FamilyProofs.

(* reading the same family in the group's alphabetical iteration order is wrong from 11 members on *)
Theorem family_alphabetical_refuted :
  exists l : list nat,
    read_alphabetical (write_family digits l) <> l /\
    read_alphabetical (write_family digits l) = [0; 1; 10; 2; 3; 4; 5; 6; 7; 8; 9].
Proof. exists (seq 0 11). split; [vm_compute; discriminate | vm_compute; reflexivity]. Qed.

Fixpoint lnat_eqb (a b : list nat) : bool :=
  match a, b with [], [] => true | x :: a', y :: b' => Nat.eqb x y && lnat_eqb a' b' | _, _ => false end.
Example family_roundtrip_example :
  read_by_number lnat_eqb digits (write_family digits (seq 100 120)) 120 = map Some (seq 100 120) /\
  read_alphabetical (write_family digits (seq 0 10)) = seq 0 10.
Proof. split; vm_compute; reflexivity. Qed.
