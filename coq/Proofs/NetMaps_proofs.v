From Coq Require Import List Arith Bool Lia Ring Permutation.
From Onsager Require Import Base.OrdRing Model.Net Model.Interstitial Model.NetMaps Proofs.Net_proofs.
Import ListNotations.

Section P.
Variable K : ordring.
Notation "0" := (r0 K). Notation "1" := (r1 K).
Infix "+" := (radd K). Infix "*" := (rmul K). Infix "-" := (rsub K).
Add Ring Kring3 : (r_ring K).
Notation edge := (edge K).
Notation net := (net K).

(* ---- linear combinations of correctors over an arbitrary index list ---------------- *)
Lemma weak_zero (N : net) : weakKCL N (fun _ => 0) (fun _ => 0).
Proof.
  intro phi. transitivity (sumf (fun _ : edge => 0) N); [|apply sumf_zero].
  apply sumf_ext. intros e _. unfold flux, grad; cbv beta; ring.
Qed.

Lemma weak_lin_list (N : net) (coef : list K) (d : nat -> edge -> K) (g : nat -> nat -> K) (ls : list nat) :
  (forall l, In l ls -> weakKCL N (d l) (g l)) ->
  weakKCL N (fun e => sumf (fun l => nth l coef 0 * d l e) ls)
            (fun x => sumf (fun l => nth l coef 0 * g l x) ls).
Proof.
  induction ls as [|l ls IH]; intro H; cbn [sumf].
  - apply weak_zero.
  - assert (H1 := H l (or_introl eq_refl)).
    assert (H2 : weakKCL N (fun e => sumf (fun l0 => nth l0 coef 0 * d l0 e) ls)
                           (fun x => sumf (fun l0 => nth l0 coef 0 * g l0 x) ls)).
    { apply IH. intros l0 Hl0. apply H. right. exact Hl0. }
    pose proof (weak_add K N (d l) _ (g l) _ (nth l coef 0) 1 H1 H2) as W.
    intro phi. etransitivity; [|exact (W phi)]. apply sumf_ext. intros e _. unfold flux, grad; cbv beta; ring.
Qed.

Lemma weak_lin (N : net) dim coef (d : nat -> edge -> K) (g : nat -> nat -> K) :
  (forall l, l < dim -> weakKCL N (d l) (g l)) ->
  weakKCL N (lin dim coef d) (lin dim coef g).
Proof.
  intro H. unfold lin. apply weak_lin_list. intros l Hl. apply H. apply in_seq in Hl. lia.
Qed.

(* bilinearity over index lists *)
Lemma Bform_lin_l (N : net) coef (d : nat -> edge -> K) (g : nat -> nat -> K) dC gC ls :
  Bform N (fun e => sumf (fun l => nth l coef 0 * d l e) ls) dC
          (fun x => sumf (fun l => nth l coef 0 * g l x) ls) gC
  = sumf (fun l => nth l coef 0 * Bform N (d l) dC (g l) gC) ls.
Proof.
  induction ls as [|l ls IH]; cbn [sumf].
  - unfold Bform. transitivity (sumf (fun _ : edge => 0) N); [|apply sumf_zero].
    apply sumf_ext. intros e _. unfold flux, grad; cbv beta; ring.
  - transitivity (nth l coef 0 * Bform N (d l) dC (g l) gC
                  + 1 * Bform N (fun e => sumf (fun l0 => nth l0 coef 0 * d l0 e) ls) dC
                                (fun x => sumf (fun l0 => nth l0 coef 0 * g l0 x) ls) gC).
    + rewrite <- (Bform_bilin K N (d l) _ dC (g l) _ gC (nth l coef 0) 1).
      unfold Bform. apply sumf_ext. intros e _. unfold flux, grad; cbv beta; ring.
    + rewrite IH. ring.
Qed.

Lemma Bform_lin (N : net) dim cA cB (d : nat -> edge -> K) (g : nat -> nat -> K) :
  Bform N (lin dim cA d) (lin dim cB d) (lin dim cA g) (lin dim cB g)
  = sumf (fun a => sumf (fun b => nth a cA 0 * nth b cB 0 * Bform N (d a) (d b) (g a) (g b)) (seq 0 dim)) (seq 0 dim).
Proof.
  unfold lin. rewrite Bform_lin_l. apply sumf_ext. intros a _.
  rewrite (L_sym K N (d a)). rewrite Bform_lin_l. rewrite <- sumf_scal.
  apply sumf_ext. intros b _. rewrite (L_sym K N (d b) (d a)). ring.
Qed.

(* ---- components of a transformed edge ----------------------------------------------- *)
Lemma nth_map_seq {A} (f : nat -> A) (dflt : A) n k : k < n -> nth k (map f (seq O n)) dflt = f k.
Proof.
  intro H. rewrite (nth_indep _ dflt (f O)) by (rewrite map_length, seq_length; exact H).
  rewrite map_nth. rewrite seq_nth by exact H. reflexivity.
Qed.

Lemma comp_map_edge dim Rm p (e : edge) k : k < dim ->
  comp k (map_edge dim Rm p e) = lin dim (nth k Rm []) (@comp K) e.
Proof.
  intro Hk. unfold comp at 1, map_edge, matvec; cbn [dsp].
  rewrite (nth_map_seq (fun k0 => dotn dim (nth k0 Rm []) (dsp e)) 0 dim k Hk).
  unfold dotn, lin, comp. reflexivity.
Qed.

(* ---- transformation theorem --------------------------------------------------------- *)
(* If g_l are correctors of the components on N, then on the image network (states relabelled by the
   bijection p, displacements mixed by Rm) the fields  y |-> sum_l Rm[k][l] g_l(q y)  are correctors *)
Theorem map_net_KCL (N : net) dim Rm p q (g : nat -> nat -> K) :
  (forall x, q (p x) = x) ->
  (forall l, l < dim -> weakKCL N (comp l) (g l)) ->
  forall k, k < dim ->
    weakKCL (map_net dim Rm p N) (comp k) (fun y => lin dim (nth k Rm []) g (q y)).
Proof.
  intros Hq Hg k Hk phi. unfold map_net. rewrite sumf_map.
  pose proof (weak_lin N dim (nth k Rm []) (@comp K) g Hg) as W.
  etransitivity; [|exact (W (fun x => phi (p x)))]. apply sumf_ext. intros e _.
  unfold flux, grad. rewrite (comp_map_edge dim Rm p e k Hk).
  cbn [map_edge src dst cond]. rewrite !Hq. reflexivity.
Qed.

Theorem map_net_Bform (N : net) dim Rm p q (g : nat -> nat -> K) :
  (forall x, q (p x) = x) ->
  forall k l, k < dim -> l < dim ->
    Bform (map_net dim Rm p N) (comp k) (comp l)
          (fun y => lin dim (nth k Rm []) g (q y)) (fun y => lin dim (nth l Rm []) g (q y))
    = conj_tensor dim Rm (fun a b => Bform N (comp a) (comp b) (g a) (g b)) k l.
Proof.
  intros Hq k l Hk Hl. unfold conj_tensor.
  rewrite <- (Bform_lin N dim (nth k Rm []) (nth l Rm []) (@comp K) g).
  unfold Bform, map_net. rewrite sumf_map. apply sumf_ext. intros e _.
  unfold flux, grad. rewrite (comp_map_edge dim Rm p e k Hk), (comp_map_edge dim Rm p e l Hl).
  cbn [map_edge src dst cond]. rewrite !Hq. reflexivity.
Qed.

(* Transport tensor of the image network = Rm L Rm^T (any correctors on either side). *)
Theorem L_transform (N : net) dim Rm p q (g g' : nat -> nat -> K) :
  (forall x, q (p x) = x) ->
  (forall l, l < dim -> weakKCL N (comp l) (g l)) ->
  (forall l, l < dim -> weakKCL (map_net dim Rm p N) (comp l) (g' l)) ->
  forall k l, k < dim -> l < dim ->
    Bform (map_net dim Rm p N) (comp k) (comp l) (g' k) (g' l)
    = conj_tensor dim Rm (fun a b => Bform N (comp a) (comp b) (g a) (g b)) k l.
Proof.
  intros Hq Hg Hg' k l Hk Hl.
  rewrite <- (map_net_Bform N dim Rm p q g Hq k l Hk Hl).
  apply L_welldef.
  - apply Hg'. exact Hk.
  - apply (map_net_KCL N dim Rm p q g Hq Hg l Hl).
Qed.

(* Invariance: if the operation maps the network onto itself (as a multiset of edges) then
   L = Rm L Rm^T  -- the crystal-symmetry invariance of every transport tensor. *)
Theorem L_iso (N : net) dim Rm p q (g : nat -> nat -> K) :
  (forall x, q (p x) = x) ->
  Permutation (map_net dim Rm p N) N ->
  (forall l, l < dim -> weakKCL N (comp l) (g l)) ->
  forall k l, k < dim -> l < dim ->
    Bform N (comp k) (comp l) (g k) (g l)
    = conj_tensor dim Rm (fun a b => Bform N (comp a) (comp b) (g a) (g b)) k l.
Proof.
  intros Hq Hperm Hg k l Hk Hl.
  rewrite <- (L_transform N dim Rm p q g (fun l0 y => lin dim (nth l0 Rm []) g (q y)) Hq Hg
                (fun l0 Hl0 => map_net_KCL N dim Rm p q g Hq Hg l0 Hl0) k l Hk Hl).
  rewrite (perm_Bform K _ _ (comp k) (comp l) _ _ Hperm).
  apply L_welldef.
  - apply Hg. exact Hk.
  - apply (perm_KCL K _ _ (comp l) _ Hperm). apply (map_net_KCL N dim Rm p q g Hq Hg l Hl).
Qed.

End P.

Section Perm.
Variable K : ordring.
Notation edge := (edge K).
Notation net := (net K).

Lemma list_eqb_spec (a b : list K) : list_eqb K a b = true <-> a = b.
Proof.
  revert b. induction a as [|x a IH]; intros [|y b]; cbn [list_eqb]; split; intro H; try discriminate; try reflexivity.
  - apply andb_true_iff in H. destruct H as [H1 H2]. apply (reqb_spec K) in H1. apply IH in H2. subst. reflexivity.
  - injection H as H1 H2. subst. apply andb_true_iff. split; [apply (reqb_spec K); reflexivity | apply IH; reflexivity].
Qed.

Lemma edge_eqb_spec (e e' : edge) : edge_eqb e e' = true <-> e = e'.
Proof.
  unfold edge_eqb. split; intro H.
  - repeat (apply andb_true_iff in H; destruct H as [H ?]).
    destruct e as [s d c v], e' as [s' d' c' v']; cbn [src dst cond dsp] in *.
    match goal with
    | H1 : Nat.eqb s s' = true, H2 : Nat.eqb d d' = true, H3 : reqb K c c' = true, H4 : list_eqb K v v' = true |- _ =>
        apply Nat.eqb_eq in H1; apply Nat.eqb_eq in H2; apply (reqb_spec K) in H3; apply list_eqb_spec in H4; subst; reflexivity
    end.
  - subst e'. rewrite !Nat.eqb_refl. cbn [andb].
    apply andb_true_iff. split; [apply (reqb_spec K); reflexivity | apply list_eqb_spec; reflexivity].
Qed.

Lemma edge_eq_dec (e e' : edge) : {e = e'} + {e <> e'}.
Proof.
  destruct (edge_eqb e e') eqn:E.
  - left. apply edge_eqb_spec. exact E.
  - right. intro H. apply edge_eqb_spec in H. congruence.
Qed.

Lemma countb_count_occ (e : edge) (N : net) : countb e N = count_occ edge_eq_dec N e.
Proof.
  unfold countb. induction N as [|x N IH]; cbn [filter count_occ length]; [reflexivity|].
  destruct (edge_eq_dec x e) as [E|E].
  - subst x. assert (T : edge_eqb e e = true) by (apply edge_eqb_spec; reflexivity).
    rewrite T. cbn [length]. rewrite IH. reflexivity.
  - destruct (edge_eqb e x) eqn:T.
    + apply edge_eqb_spec in T. congruence.
    + exact IH.
Qed.

Theorem permb_sound (N N' : net) : permb N N' = true -> Permutation N N'.
Proof.
  unfold permb. intro H. rewrite forallb_forall in H.
  apply (Permutation_count_occ edge_eq_dec). intro x.
  destruct (in_dec edge_eq_dec x (N ++ N')) as [I|I].
  - specialize (H x I). apply Nat.eqb_eq in H. rewrite <- !countb_count_occ. exact H.
  - assert (~ In x N /\ ~ In x N') as [I1 I2].
    { split; intro J; apply I; apply in_or_app; [left|right]; exact J. }
    rewrite (proj1 (count_occ_not_In edge_eq_dec N x) I1), (proj1 (count_occ_not_In edge_eq_dec N' x) I2). reflexivity.
Qed.

Lemma inverseb_sound n p q : inverseb n p q = true -> forall x, x < n -> permfun q (permfun p x) = x.
Proof.
  unfold inverseb. intros H x Hx. rewrite forallb_forall in H. apply Nat.eqb_eq. apply H. apply in_seq. lia.
Qed.

End Perm.

Section Sym.
Variable K : ordring.

Lemma perm_inverse_all n p q :
  length p = n -> length q = n -> inverseb n p q = true -> forall x, permfun q (permfun p x) = x.
Proof.
  intros Lp Lq H x. destruct (Nat.lt_ge_cases x n) as [Hx|Hx].
  - apply (inverseb_sound n p q H x Hx).
  - unfold permfun. rewrite (nth_overflow p x) by lia. rewrite (nth_overflow q x) by lia. reflexivity.
Qed.

(* Soundness of the executable symmetry check: if the operation (Rm on displacement components,
   state permutation p with checked inverse q) maps the edge multiset onto itself, then the transport
   tensor computed with ANY correctors satisfies L = Rm L Rm^T. *)
Theorem symmetry_checker_sound (N : net K) dim Rm p q n (g : nat -> nat -> K) :
  length p = n -> length q = n -> inverseb n p q = true ->
  isob dim Rm (permfun p) N = true ->
  (forall l, l < dim -> weakKCL N (comp l) (g l)) ->
  forall k l, k < dim -> l < dim ->
    Bform N (comp k) (comp l) (g k) (g l)
    = conj_tensor dim Rm (fun a b => Bform N (comp a) (comp b) (g a) (g b)) k l.
Proof.
  intros Lp Lq Hinv Hiso Hg k l Hk Hl.
  apply (L_iso K N dim Rm (permfun p) (permfun q) g).
  - apply (perm_inverse_all n p q Lp Lq Hinv).
  - apply permb_sound. exact Hiso.
  - exact Hg.
  - exact Hk.
  - exact Hl.
Qed.

End Sym.

Section RayleighTensor.
Variable K : ordring.

Lemma lin_comp_geometric dim coef : geometric K (lin dim coef (@comp K)).
Proof.
  intros e e' H. unfold lin. apply sumf_ext. intros l _. unfold comp. rewrite H. reflexivity.
Qed.

(* Rayleigh monotonicity in every direction n:  n.L.n <= n.L'.n  when N' dominates N *)
Theorem rayleigh_tensor (N N' : net K) dim coef (g g' : nat -> nat -> K) :
  nonneg N -> dominated N N' ->
  (forall l, l < dim -> weakKCL N (comp l) (g l)) ->
  (forall l, l < dim -> weakKCL N' (comp l) (g' l)) ->
  rle K (sumf (fun a => sumf (fun b => rmul K (rmul K (nth a coef (r0 K)) (nth b coef (r0 K)))
                                        (Bform N (comp a) (comp b) (g a) (g b))) (seq 0 dim)) (seq 0 dim))
        (sumf (fun a => sumf (fun b => rmul K (rmul K (nth a coef (r0 K)) (nth b coef (r0 K)))
                                        (Bform N' (comp a) (comp b) (g' a) (g' b))) (seq 0 dim)) (seq 0 dim)).
Proof.
  intros Hn Hdom Hg Hg'.
  rewrite <- (Bform_lin K N dim coef coef (@comp K) g).
  rewrite <- (Bform_lin K N' dim coef coef (@comp K) g').
  apply rayleigh.
  - apply lin_comp_geometric.
  - exact Hn.
  - exact Hdom.
  - apply weak_lin. exact Hg.
  - apply weak_lin. exact Hg'.
Qed.

End RayleighTensor.

(* ---- the projected (Galerkin) solve of the implementation is exact ----------------------- *)
Section Galerkin.
Variable K : ordring.
Notation "0" := (r0 K). Notation "1" := (r1 K).
Infix "+" := (radd K). Infix "*" := (rmul K). Infix "-" := (rsub K).
Add Ring Kring7 : (r_ring K).

(* Kirchhoff tested only against the basis fields phi_0..phi_{m-1} (the equations the code solves in its vector basis) *)
Definition projKCL (N : net K) (d : edge K -> K) (g : nat -> K) (m : nat) (phi : nat -> nat -> K) : Prop :=
  forall a, a < m -> sumf (fun e => flux d g e * grad (phi a) e) N = 0.

Lemma grad_lin m coef (phi : nat -> nat -> K) e :
  grad (fun x => lin m coef phi x) e = sumf (fun a => nth a coef 0 * grad (phi a) e) (seq 0 m).
Proof.
  unfold grad, lin. rewrite <- sumf_sub. apply sumf_ext. intros a _. ring.
Qed.

Lemma proj_tests_span (N : net K) d g m phi coef :
  projKCL N d g m phi -> sumf (fun e => flux d g e * grad (fun x => lin m coef phi x) e) N = 0.
Proof.
  intro H.
  transitivity (sumf (fun e => sumf (fun a => nth a coef 0 * (flux d g e * grad (phi a) e)) (seq 0 m)) N).
  - apply sumf_ext. intros e _. rewrite grad_lin. rewrite <- sumf_scal. apply sumf_ext. intros a _. ring.
  - rewrite sumf_swap. transitivity (sumf (fun _ : nat => 0) (seq 0 m)); [|apply sumf_zero].
    apply sumf_ext. intros a Ha. apply in_seq in Ha. rewrite sumf_scal. rewrite (H a) by lia. ring.
Qed.

(* If SOME corrector gs lies in the span of the basis, then ANY field of the span that satisfies the projected
   equations (solve, pseudo-inverse, any solution of a singular projected system) gives the exact coefficient.
   Stated for a pair of displacement components A, B. *)
Theorem galerkin_exact (N : net K) dA dB m phi xA xB xsA xsB :
  let gA := fun x => lin m xA phi x in let gB := fun x => lin m xB phi x in
  let gsA := fun x => lin m xsA phi x in let gsB := fun x => lin m xsB phi x in
  weakKCL N dA gsA -> weakKCL N dB gsB ->
  projKCL N dA gA m phi -> projKCL N dB gB m phi ->
  Bform N dA dB gA gB = Bform N dA dB gsA gsB.
Proof.
  intros gA gB gsA gsB HsA HsB HA HB.
  (* differences lie in the span *)
  set (yA := map (fun a => nth a xA 0 - nth a xsA 0) (seq 0 m)).
  set (yB := map (fun a => nth a xB 0 - nth a xsB 0) (seq 0 m)).
  assert (nthy : forall (u v : list K) a, a < m ->
             nth a (map (fun a0 => nth a0 u 0 - nth a0 v 0) (seq 0 m)) 0 = nth a u 0 - nth a v 0).
  { intros u v a Ha. apply (nth_map_seq (fun a0 => nth a0 u 0 - nth a0 v 0) 0 m a Ha). }
  assert (DA : forall e, grad gA e - grad gsA e = grad (fun x => lin m yA phi x) e).
  { intro e. unfold gA, gsA. rewrite !grad_lin. rewrite <- sumf_sub. apply sumf_ext. intros a Ha.
    apply in_seq in Ha. unfold yA. rewrite nthy by lia. ring. }
  assert (DB : forall e, grad gB e - grad gsB e = grad (fun x => lin m yB phi x) e).
  { intro e. unfold gB, gsB. rewrite !grad_lin. rewrite <- sumf_sub. apply sumf_ext. intros a Ha.
    apply in_seq in Ha. unfold yB. rewrite nthy by lia. ring. }
  (* Bform(gA,gB) - Bform(gsA,gsB) = sum flux_A(gA) * (grad gB - grad gsB) + sum flux_B(gsB) * (grad gA - grad gsA) *)
  assert (E : Bform N dA dB gA gB
              = Bform N dA dB gsA gsB
                + sumf (fun e => flux dA gA e * grad (fun x => lin m yB phi x) e) N
                + sumf (fun e => flux dB gsB e * grad (fun x => lin m yA phi x) e) N).
  { unfold Bform. rewrite <- !sumf_add. apply sumf_ext. intros e _.
    rewrite <- (DA e), <- (DB e). unfold flux. ring. }
  rewrite E. rewrite (proj_tests_span N dA gA m phi yB HA). rewrite (HsB (fun x => lin m yA phi x)). ring.
Qed.

End Galerkin.
