(* Proofs about Model/Supercell.v (C28; reused by C27, C29, C30).
   Invariant of the occupancy bookkeeping, its preservation by every operation for all
   arguments and all histories, acceptance/rejection of species, POSCAR round trip at content
   level, refutation of the guard written in the pinned source, soundness of the executable
   invariant checker.  No axioms. *)
From Coq Require Import List ZArith Bool Lia Arith.
From Onsager Require Import Model.Supercell.
Import ListNotations.
Local Open Scope Z_scope.

(* ---------- Python subscripts ---------- *)
Lemma pyidx_nonneg n i : 0 <= i < n -> pyidx n i = Some (Z.to_nat i).
Proof.
  intros H. unfold pyidx.
  destruct (0 <=? i) eqn:E1; destruct (i <? n) eqn:E2; try lia. reflexivity.
Qed.

Lemma pyidx_high n i : 0 <= n -> n <= i -> pyidx n i = None.
Proof.
  intros Hn H. unfold pyidx.
  destruct (0 <=? i) eqn:E1; destruct (i <? n) eqn:E2; try lia; cbn [andb];
  destruct (- n <=? i) eqn:E3; destruct (i <? 0) eqn:E4; try lia; reflexivity.
Qed.

Lemma pyidx_low n i : 0 <= n -> i < - n -> pyidx n i = None.
Proof.
  intros Hn H. unfold pyidx.
  destruct (0 <=? i) eqn:E1; destruct (i <? n) eqn:E2; try lia; cbn [andb];
  destruct (- n <=? i) eqn:E3; destruct (i <? 0) eqn:E4; try lia; reflexivity.
Qed.

Lemma pyget_nonneg {A} (l : list A) i : 0 <= i -> pyget l i = nth_error l (Z.to_nat i).
Proof.
  intros H. unfold pyget, zlen.
  destruct (Z_lt_ge_dec i (Z.of_nat (length l))) as [Hlt|Hge].
  - rewrite pyidx_nonneg by lia. reflexivity.
  - rewrite pyidx_high by lia. symmetry. apply nth_error_None. lia.
Qed.

Lemma pyset_nonneg {A} (l : list A) i v : 0 <= i < zlen l -> pyset l i v = Some (upd l (Z.to_nat i) v).
Proof. intros H. unfold pyset. rewrite pyidx_nonneg by exact H. reflexivity. Qed.

(* ---------- upd ---------- *)
Lemma upd_length {A} (l : list A) k v : length (upd l k v) = length l.
Proof. revert k; induction l as [|h t IH]; intros [|k]; cbn; auto. Qed.

Lemma nth_error_upd {A} (l : list A) k v j :
  nth_error (upd l k v) j = if Nat.eqb j k then (if Nat.ltb k (length l) then Some v else None) else nth_error l j.
Proof.
  revert k j; induction l as [|h t IH]; intros k j.
  - destruct k, j; cbn; try reflexivity. destruct (Nat.eqb j k); reflexivity.
  - destruct k as [|k], j as [|j]; cbn [upd nth_error Nat.eqb length]; try reflexivity.
    rewrite IH. destruct (Nat.eqb j k); reflexivity.
Qed.

Lemma nth_error_upd_eq {A} (l : list A) k v : (k < length l)%nat -> nth_error (upd l k v) k = Some v.
Proof. intros H. rewrite nth_error_upd, Nat.eqb_refl. apply Nat.ltb_lt in H. rewrite H. reflexivity. Qed.

Lemma nth_error_upd_neq {A} (l : list A) k v j : j <> k -> nth_error (upd l k v) j = nth_error l j.
Proof. intros H. rewrite nth_error_upd. apply Nat.eqb_neq in H. rewrite H. reflexivity. Qed.

Lemma nth_upd_eq {A} (l : list A) k v d : (k < length l)%nat -> nth k (upd l k v) d = v.
Proof. intros H. apply nth_error_nth. apply nth_error_upd_eq, H. Qed.

Lemma nth_upd_neq {A} (l : list A) k v j d : j <> k -> nth j (upd l k v) d = nth j l d.
Proof.
  intros H. destruct (nth_error l j) eqn:E.
  - rewrite (nth_error_nth l j d E). apply nth_error_nth. rewrite nth_error_upd_neq; auto.
  - assert (E' := E). apply nth_error_None in E. rewrite (nth_overflow l d E).
    apply nth_overflow. rewrite upd_length. exact E.
Qed.

Lemma nth_error_nth' {A} (l : list A) k d : (k < length l)%nat -> nth_error l k = Some (nth k l d).
Proof. intros H. apply nth_error_nth'. exact H. Qed.

(* ---------- list.index / list.pop ---------- *)
Fixpoint remove_first (x : Z) (l : list Z) : list Z :=
  match l with [] => [] | h :: t => if h =? x then t else h :: remove_first x t end.

Lemma index_of_in x l : In x l -> exists k, index_of x l = Some k /\ remove_at k l = remove_first x l.
Proof.
  induction l as [|h t IH]; intros H; [destruct H|]. cbn.
  destruct (h =? x) eqn:E.
  - exists O. split; reflexivity.
  - destruct H as [H|H]; [apply Z.eqb_neq in E; congruence|].
    destruct (IH H) as [k [Hk Hr]]. exists (S k). rewrite Hk. cbn. rewrite Hr. split; reflexivity.
Qed.

Lemma index_of_none x l : ~ In x l -> index_of x l = None.
Proof.
  induction l as [|h t IH]; intros H; cbn; [reflexivity|].
  destruct (h =? x) eqn:E.
  - apply Z.eqb_eq in E. exfalso. apply H. left. exact E.
  - rewrite IH; [reflexivity|]. intros H'. apply H. right. exact H'.
Qed.

Lemma in_remove_first x l y : NoDup l -> (In y (remove_first x l) <-> In y l /\ y <> x).
Proof.
  induction l as [|h t IH]; intros ND; cbn; [tauto|].
  inversion ND as [|? ? Hnin ND']; subst.
  destruct (h =? x) eqn:E.
  - apply Z.eqb_eq in E. subst h. split.
    + intros H. split; [right; exact H|]. intros ->. contradiction.
    + intros [[H|H] Hne]; [congruence|exact H].
  - apply Z.eqb_neq in E. cbn. rewrite (IH ND'). split.
    + intros [H|[H Hne]]; [subst; split; [left; reflexivity|exact E]|split; [right; exact H|exact Hne]].
    + intros [[H|H] Hne]; [left; exact H|right; split; assumption].
Qed.

Lemma in_remove_first_incl x l y : In y (remove_first x l) -> In y l.
Proof.
  induction l as [|h t IH]; cbn; [tauto|]. destruct (h =? x); [intros; right; assumption|].
  intros [H|H]; [left; exact H|right; apply IH, H].
Qed.

Lemma nodup_remove_first x l : NoDup l -> NoDup (remove_first x l).
Proof.
  induction l as [|h t IH]; intros ND; cbn; [constructor|].
  inversion ND as [|? ? Hnin ND']; subst. destruct (h =? x); [exact ND'|].
  constructor; [|apply IH, ND']. intros H. apply Hnin. eapply in_remove_first_incl, H.
Qed.

Lemma nodup_app_one (l : list Z) x : NoDup l -> ~ In x l -> NoDup (l ++ [x]).
Proof.
  intros ND H. induction l as [|h t IH]; cbn; [constructor; [intros []|constructor]|].
  inversion ND as [|? ? Hnin ND']; subst. constructor.
  - rewrite in_app_iff. intros [H1|[H1|[]]]; [contradiction|]. subst. apply H. left. reflexivity.
  - apply IH; [exact ND'|]. intros H1. apply H. right. exact H1.
Qed.

(* ---------- the invariant ---------- *)
Definition guard_ok (g : Z -> bool) (nchem : nat) : Prop :=
  forall c, g c = true <-> (c < -1 \/ Z.of_nat nchem <= c).

Definition co_at (s : sc) (c : nat) : list Z := nth c (chemorder s) [].

Record Inv (N Nchem : nat) (s : sc) : Prop := mkInv {
  inv_len_occ : length (occ s) = N;
  inv_len_co : length (chemorder s) = Nchem;
  inv_nodup : forall c, (c < Nchem)%nat -> NoDup (co_at s c);
  inv_in : forall c i, (c < Nchem)%nat ->
             (In i (co_at s c) <-> 0 <= i /\ nth_error (occ s) (Z.to_nat i) = Some (Z.of_nat c));
  inv_range : forall k v, nth_error (occ s) k = Some v -> -1 <= v < Z.of_nat Nchem }.

Lemma guard_ok_declared nchem : guard_ok (guard_declared (Z.of_nat nchem)) nchem.
Proof.
  intros c. unfold guard_declared. rewrite orb_true_iff, Z.ltb_lt, Z.geb_le. tauto.
Qed.

Lemma guard_ok_false g nchem c : guard_ok g nchem -> -1 <= c < Z.of_nat nchem -> g c = false.
Proof. intros G H. destruct (g c) eqn:E; [apply G in E; lia|reflexivity]. Qed.

Lemma guard_ok_true g nchem c : guard_ok g nchem -> ~ (-1 <= c < Z.of_nat nchem) -> g c = true.
Proof. intros G H. apply G. lia. Qed.

(* the state setocc produces when it changes something *)
Definition rem_site (ch : list (list Z)) (corig ind : Z) : list (list Z) :=
  if corig >=? 0 then upd ch (Z.to_nat corig) (remove_first ind (nth (Z.to_nat corig) ch [])) else ch.
Definition add_site (ch : list (list Z)) (c ind : Z) : list (list Z) :=
  if c >=? 0 then upd ch (Z.to_nat c) (nth (Z.to_nat c) ch [] ++ [ind]) else ch.
Definition setocc_res (s : sc) (corig ind c : Z) : sc :=
  mkSC (upd (occ s) (Z.to_nat ind) c) (add_site (rem_site (chemorder s) corig ind) c ind).

Lemma rem_site_length ch corig ind : length (rem_site ch corig ind) = length ch.
Proof. unfold rem_site. destruct (corig >=? 0); [apply upd_length|reflexivity]. Qed.
Lemma add_site_length ch c ind : length (add_site ch c ind) = length ch.
Proof. unfold add_site. destruct (c >=? 0); [apply upd_length|reflexivity]. Qed.

Section SetOcc.
Variables (g : Z -> bool) (N Nchem : nat) (s : sc).
Hypothesis G : guard_ok g Nchem.
Hypothesis I : Inv N Nchem s.

Lemma setocc_reject ind c : ~ (-1 <= c < Z.of_nat Nchem) -> setocc g s ind c = (s, IndexError).
Proof. intros H. unfold setocc. rewrite (guard_ok_true g Nchem c G H). reflexivity. Qed.

Lemma setocc_out_of_range ind c : Z.of_nat N <= ind -> setocc g s ind c = (s, IndexError).
Proof.
  intros H. unfold setocc. destruct (g c); [reflexivity|].
  rewrite pyget_nonneg by lia. replace (nth_error (occ s) (Z.to_nat ind)) with (@None Z); [reflexivity|].
  symmetry. apply nth_error_None. rewrite (inv_len_occ _ _ _ I). lia.
Qed.

Lemma setocc_same ind c :
  0 <= ind -> -1 <= c < Z.of_nat Nchem -> nth_error (occ s) (Z.to_nat ind) = Some c -> setocc g s ind c = (s, OK).
Proof.
  intros H0 Hc E. unfold setocc. rewrite (guard_ok_false g Nchem c G Hc).
  rewrite pyget_nonneg by lia. rewrite E. rewrite Z.eqb_refl. reflexivity.
Qed.

Lemma setocc_eval ind c corig :
  0 <= ind -> -1 <= c < Z.of_nat Nchem -> nth_error (occ s) (Z.to_nat ind) = Some corig -> corig <> c ->
  setocc g s ind c = (setocc_res s corig ind c, OK).
Proof.
  intros H0 Hc E Hne. unfold setocc. rewrite (guard_ok_false g Nchem c G Hc).
  rewrite pyget_nonneg by lia. rewrite E.
  apply Z.eqb_neq in Hne. rewrite Hne. apply Z.eqb_neq in Hne.
  assert (Hr := inv_range _ _ _ I _ _ E).
  assert (Hlen : (Z.to_nat ind < length (occ s))%nat) by (apply nth_error_Some; congruence).
  assert (R : remove_site (chemorder s) corig ind = inl (rem_site (chemorder s) corig ind)).
  { unfold remove_site, rem_site. destruct (corig >=? 0) eqn:E0; [|reflexivity].
    apply Z.geb_le in E0. rewrite pyget_nonneg by lia.
    assert (Hc0 : (Z.to_nat corig < Nchem)%nat) by lia.
    rewrite (nth_error_nth' (chemorder s) (Z.to_nat corig) []) by (rewrite (inv_len_co _ _ _ I); exact Hc0).
    assert (Hin : In ind (nth (Z.to_nat corig) (chemorder s) [])).
    { apply (inv_in _ _ _ I _ ind Hc0). split; [exact H0|]. rewrite E. f_equal. lia. }
    destruct (index_of_in _ _ Hin) as [k [Hk Hrm]]. rewrite Hk, Hrm. reflexivity. }
  rewrite R. cbv zeta. unfold setocc_res.
  rewrite pyset_nonneg by (unfold zlen; lia).
  unfold add_site. destruct (c >=? 0) eqn:E1; [|reflexivity].
  apply Z.geb_le in E1. rewrite pyget_nonneg by lia.
  rewrite (nth_error_nth' _ (Z.to_nat c) []) by (rewrite rem_site_length, (inv_len_co _ _ _ I); lia).
  reflexivity.
Qed.

End SetOcc.

Lemma zgeb_false c : (c >=? 0) = false -> c < 0.
Proof. intros H. rewrite Z.geb_leb in H. apply Z.leb_gt in H. exact H. Qed.

Lemma nth_add_site ch c ind c' : (c' < length ch)%nat ->
  nth c' (add_site ch c ind) [] = if (c >=? 0) && Nat.eqb c' (Z.to_nat c) then nth c' ch [] ++ [ind] else nth c' ch [].
Proof.
  intros H. unfold add_site. destruct (c >=? 0); cbn [andb]; [|reflexivity].
  destruct (Nat.eqb c' (Z.to_nat c)) eqn:E.
  - apply Nat.eqb_eq in E. subst c'. rewrite nth_upd_eq by exact H. reflexivity.
  - apply Nat.eqb_neq in E. apply nth_upd_neq. exact E.
Qed.

Lemma nth_rem_site ch corig ind c' : (c' < length ch)%nat ->
  nth c' (rem_site ch corig ind) [] =
  if (corig >=? 0) && Nat.eqb c' (Z.to_nat corig) then remove_first ind (nth c' ch []) else nth c' ch [].
Proof.
  intros H. unfold rem_site. destruct (corig >=? 0); cbn [andb]; [|reflexivity].
  destruct (Nat.eqb c' (Z.to_nat corig)) eqn:E.
  - apply Nat.eqb_eq in E. subst c'. rewrite nth_upd_eq by exact H. reflexivity.
  - apply Nat.eqb_neq in E. apply nth_upd_neq. exact E.
Qed.

Lemma setocc_res_inv N Nchem s ind c corig :
  Inv N Nchem s -> 0 <= ind -> -1 <= c < Z.of_nat Nchem ->
  nth_error (occ s) (Z.to_nat ind) = Some corig -> corig <> c ->
  Inv N Nchem (setocc_res s corig ind c).
Proof.
  intros I H0 Hc E Hne.
  assert (Hr := inv_range _ _ _ I _ _ E).
  assert (Hlen : (Z.to_nat ind < length (occ s))%nat) by (apply nth_error_Some; congruence).
  assert (Hco : forall c', (c' < Nchem)%nat ->
     co_at (setocc_res s corig ind c) c' =
       if (c >=? 0) && Nat.eqb c' (Z.to_nat c) then co_at s c' ++ [ind]
       else if (corig >=? 0) && Nat.eqb c' (Z.to_nat corig) then remove_first ind (co_at s c')
       else co_at s c').
  { intros c' Hc'. unfold co_at, setocc_res. cbn [chemorder].
    rewrite nth_add_site by (rewrite rem_site_length, (inv_len_co _ _ _ I); exact Hc').
    rewrite nth_rem_site by (rewrite (inv_len_co _ _ _ I); exact Hc').
    destruct ((c >=? 0) && Nat.eqb c' (Z.to_nat c)) eqn:E1; [|reflexivity].
    destruct ((corig >=? 0) && Nat.eqb c' (Z.to_nat corig)) eqn:E2; [|reflexivity].
    apply andb_true_iff in E1. destruct E1 as [E1 E1']. apply andb_true_iff in E2. destruct E2 as [E2 E2'].
    apply Z.geb_le in E1. apply Z.geb_le in E2. apply Nat.eqb_eq in E1'. apply Nat.eqb_eq in E2'. lia. }
  assert (Hocc : forall i, 0 <= i -> nth_error (occ (setocc_res s corig ind c)) (Z.to_nat i) =
                                   if i =? ind then Some c else nth_error (occ s) (Z.to_nat i)).
  { intros i Hi. unfold setocc_res. cbn [occ]. rewrite nth_error_upd.
    destruct (i =? ind) eqn:Ei.
    - apply Z.eqb_eq in Ei. subst i. rewrite Nat.eqb_refl. apply Nat.ltb_lt in Hlen. rewrite Hlen. reflexivity.
    - apply Z.eqb_neq in Ei. replace (Nat.eqb (Z.to_nat i) (Z.to_nat ind)) with false; [reflexivity|].
      symmetry. apply Nat.eqb_neq. lia. }
  constructor.
  - unfold setocc_res. cbn [occ]. rewrite upd_length. apply (inv_len_occ _ _ _ I).
  - unfold setocc_res. cbn [chemorder]. rewrite add_site_length, rem_site_length. apply (inv_len_co _ _ _ I).
  - intros c' Hc'. rewrite (Hco c' Hc').
    destruct ((c >=? 0) && Nat.eqb c' (Z.to_nat c)) eqn:E1.
    + apply andb_true_iff in E1. destruct E1 as [E1 E1']. apply Z.geb_le in E1. apply Nat.eqb_eq in E1'.
      apply nodup_app_one; [apply (inv_nodup _ _ _ I), Hc'|].
      intros Hin. apply (inv_in _ _ _ I c' ind Hc') in Hin. destruct Hin as [_ Hin]. rewrite E in Hin.
      injection Hin as Hin. lia.
    + destruct ((corig >=? 0) && Nat.eqb c' (Z.to_nat corig)); [apply nodup_remove_first|]; apply (inv_nodup _ _ _ I), Hc'.
  - intros c' i Hc'. rewrite (Hco c' Hc').
    destruct (Z_lt_ge_dec i 0) as [Hneg|Hpos].
    { (* negative values never occur in the lists *)
      split; [|intros [? _]; lia]. intros Hin. exfalso.
      assert (Hold : In i (co_at s c') -> False) by (intros Hx; apply (inv_in _ _ _ I c' i Hc') in Hx; lia).
      destruct ((c >=? 0) && Nat.eqb c' (Z.to_nat c)).
      - apply in_app_iff in Hin. destruct Hin as [Hin|[Hin|[]]]; [auto|lia].
      - destruct ((corig >=? 0) && Nat.eqb c' (Z.to_nat corig)); [apply in_remove_first_incl in Hin|]; auto. }
    apply Z.ge_le in Hpos. rewrite (Hocc i Hpos).
    assert (Hiff := inv_in _ _ _ I c' i Hc').
    destruct ((c >=? 0) && Nat.eqb c' (Z.to_nat c)) eqn:E1.
    + apply andb_true_iff in E1. destruct E1 as [E1 E1']. apply Z.geb_le in E1. apply Nat.eqb_eq in E1'.
      rewrite in_app_iff. destruct (i =? ind) eqn:Ei.
      * apply Z.eqb_eq in Ei. subst i. split; [intros _; split; [lia|f_equal; lia]|intros _; right; left; reflexivity].
      * apply Z.eqb_neq in Ei. rewrite Hiff. split; [intros [Hx|[Hx|[]]]; [exact Hx|congruence]|intros Hx; left; exact Hx].
    + destruct ((corig >=? 0) && Nat.eqb c' (Z.to_nat corig)) eqn:E2.
      * apply andb_true_iff in E2. destruct E2 as [E2 E2']. apply Z.geb_le in E2. apply Nat.eqb_eq in E2'.
        rewrite (in_remove_first ind _ i (inv_nodup _ _ _ I c' Hc')). rewrite Hiff.
        destruct (i =? ind) eqn:Ei.
        -- apply Z.eqb_eq in Ei. subst i. split; [intros [_ Hx]; congruence|].
           intros [_ Hx]. injection Hx as Hx. exfalso.
           apply andb_false_iff in E1. destruct E1 as [E1|E1]; [apply zgeb_false in E1; lia|].
           apply Nat.eqb_neq in E1. lia.
        -- apply Z.eqb_neq in Ei. tauto.
      * rewrite Hiff. destruct (i =? ind) eqn:Ei; [|tauto].
        apply Z.eqb_eq in Ei. subst i. rewrite E. split.
        -- intros [_ Hx]. injection Hx as Hx. exfalso.
           apply andb_false_iff in E2. destruct E2 as [E2|E2]; [apply zgeb_false in E2; lia|].
           apply Nat.eqb_neq in E2. lia.
        -- intros [_ Hx]. injection Hx as Hx. exfalso.
           apply andb_false_iff in E1. destruct E1 as [E1|E1]; [apply zgeb_false in E1; lia|].
           apply Nat.eqb_neq in E1. lia.
  - intros k v Hk. unfold setocc_res in Hk. cbn [occ] in Hk. rewrite nth_error_upd in Hk.
    destruct (Nat.eqb k (Z.to_nat ind)).
    + destruct (Nat.ltb (Z.to_nat ind) (length (occ s))); [injection Hk as <-; exact Hc|discriminate].
    + apply (inv_range _ _ _ I _ _ Hk).
Qed.

Lemma upd_same {A} (l : list A) k v : nth_error l k = Some v -> upd l k v = l.
Proof.
  revert k; induction l as [|h t IH]; intros [|k] H; cbn in *; try discriminate.
  - injection H as ->. reflexivity.
  - rewrite IH by exact H. reflexivity.
Qed.

(* a site index that is not one of Python's negative in-range subscripts *)
Definition idx_dom (N : nat) (ind : Z) : Prop := 0 <= ind \/ ind < - Z.of_nat N.
Definition declared (Nchem : nat) (c : Z) : Prop := -1 <= c < Z.of_nat Nchem.

Section SetOcc2.
Variables (g : Z -> bool) (N Nchem : nat).
Hypothesis G : guard_ok g Nchem.

Theorem setocc_accepts s ind c :
  Inv N Nchem s -> 0 <= ind < Z.of_nat N -> declared Nchem c ->
  exists s', setocc g s ind c = (s', OK) /\ Inv N Nchem s' /\ occ s' = upd (occ s) (Z.to_nat ind) c.
Proof.
  intros I Hi Hc.
  destruct (nth_error (occ s) (Z.to_nat ind)) as [corig|] eqn:E.
  2:{ apply nth_error_None in E. rewrite (inv_len_occ _ _ _ I) in E. lia. }
  destruct (Z.eq_dec corig c) as [->|Hne].
  - exists s. split; [apply (setocc_same g Nchem s G); [lia|exact Hc|exact E]|]. split; [exact I|].
    symmetry. apply upd_same, E.
  - exists (setocc_res s corig ind c). split; [apply (setocc_eval g N Nchem s G I); [lia|exact Hc|exact E|exact Hne]|].
    split; [apply setocc_res_inv; [exact I|lia|exact Hc|exact E|exact Hne]|reflexivity].
Qed.

Theorem setocc_rejects s ind c : ~ declared Nchem c -> setocc g s ind c = (s, IndexError).
Proof. intros H. unfold setocc. rewrite (guard_ok_true g Nchem c G H). reflexivity. Qed.

Lemma setocc_low s ind c : Inv N Nchem s -> ind < - Z.of_nat N -> setocc g s ind c = (s, IndexError).
Proof.
  intros I H. unfold setocc. destruct (g c); [reflexivity|].
  unfold pyget, zlen. rewrite (inv_len_occ _ _ _ I). rewrite pyidx_low by lia. reflexivity.
Qed.

Theorem setocc_inv s ind c : Inv N Nchem s -> idx_dom N ind -> Inv N Nchem (fst (setocc g s ind c)).
Proof.
  intros I [H|H].
  - destruct (Z_lt_ge_dec ind (Z.of_nat N)) as [Hlt|Hge].
    + destruct (Z_le_gt_dec (-1) c) as [H1|H1]; [destruct (Z_lt_ge_dec c (Z.of_nat Nchem)) as [H2|H2]|].
      * destruct (setocc_accepts s ind c I (conj H Hlt) (conj H1 H2)) as [s' [E [I' _]]]. rewrite E. exact I'.
      * rewrite setocc_rejects by (unfold declared; lia). exact I.
      * rewrite setocc_rejects by (unfold declared; lia). exact I.
    + rewrite (setocc_out_of_range g N Nchem s I) by lia. exact I.
  - rewrite setocc_low by assumption. exact I.
Qed.

Lemma setocc_all_inv l : forall s, Inv N Nchem s -> Forall (fun p => idx_dom N (fst p)) l ->
  Inv N Nchem (fst (setocc_all g s l)).
Proof.
  induction l as [|[i c] t IH]; intros s I HF; cbn [setocc_all]; [exact I|].
  inversion HF as [|? ? Hd HF']; subst. cbn [fst] in Hd.
  assert (I' := setocc_inv s i c I Hd).
  destruct (setocc g s i c) as [s' o]. cbn [fst] in I'.
  destruct o; [apply IH; assumption|exact I'|exact I'].
Qed.

Theorem fillperiodic_inv s sites c : Inv N Nchem s -> Forall (idx_dom N) sites ->
  Inv N Nchem (fst (fillperiodic g s sites c)).
Proof.
  intros I HF. unfold fillperiodic. apply setocc_all_inv; [exact I|].
  rewrite Forall_map. cbn [fst]. exact HF.
Qed.

End SetOcc2.

(* ---------- __sane__ and reorder ---------- *)
Lemma zmem_in x l : zmem x l = true <-> In x l.
Proof.
  unfold zmem. rewrite existsb_exists. split.
  - intros [y [Hy E]]. apply Z.eqb_eq in E. subst. exact Hy.
  - intros H. exists x. split; [exact H|apply Z.eqb_refl].
Qed.

Lemma check_species_true o c cl : check_species o c cl = Some true -> forall ind, In ind cl -> pyget o ind = Some c.
Proof.
  induction cl as [|h t IH]; cbn; intros H ind Hin; [destruct Hin|].
  destruct (pyget o h) as [v|] eqn:E; [|discriminate].
  destruct (v =? c) eqn:Ev; [|discriminate]. apply Z.eqb_eq in Ev. subst v.
  destruct Hin as [<-|Hin]; [exact E|apply IH; assumption].
Qed.

Lemma check_all_true o ch : forall c0, check_all o c0 ch = Some true ->
  forall j cl, nth_error ch j = Some cl -> forall ind, In ind cl -> pyget o ind = Some (c0 + Z.of_nat j).
Proof.
  induction ch as [|h t IH]; intros c0 H j cl Hj ind Hin; [destruct j; discriminate|].
  cbn in H. destruct (check_species o c0 h) as [[|]|] eqn:E; try discriminate.
  destruct j as [|j]; cbn in Hj.
  - injection Hj as <-. rewrite Z.add_0_r. eapply check_species_true; eassumption.
  - rewrite (IH (c0 + 1) H j cl Hj ind Hin). f_equal. lia.
Qed.

Lemma check_species_some o c cl : (forall ind, In ind cl -> 0 <= ind < zlen o) -> check_species o c cl <> None.
Proof.
  induction cl as [|h t IH]; cbn; intros H; [discriminate|].
  assert (Hh := H h (or_introl eq_refl)).
  rewrite pyget_nonneg by lia.
  destruct (nth_error o (Z.to_nat h)) as [v|] eqn:E.
  - destruct (v =? c); [apply IH; intros; apply H; right; assumption|discriminate].
  - apply nth_error_None in E. unfold zlen in Hh. lia.
Qed.

Lemma check_all_some o ch : forall c0, (forall cl, In cl ch -> forall ind, In ind cl -> 0 <= ind < zlen o) ->
  check_all o c0 ch <> None.
Proof.
  induction ch as [|h t IH]; intros c0 H; cbn; [discriminate|].
  assert (Hs := check_species_some o c0 h (H h (or_introl eq_refl))).
  destruct (check_species o c0 h) as [[|]|]; [|discriminate|congruence].
  apply IH. intros cl Hcl. apply H. right. exact Hcl.
Qed.

Lemma vacant_rest_true occset o : forall i0, vacant_rest occset i0 o = true ->
  forall k v, nth_error o k = Some v -> ~ In (i0 + Z.of_nat k) occset -> v = -1.
Proof.
  induction o as [|h t IH]; intros i0 H k v Hk Hn; [destruct k; discriminate|].
  cbn in H. destruct k as [|k]; cbn in Hk.
  - injection Hk as ->. rewrite Z.add_0_r in Hn.
    destruct (zmem i0 occset) eqn:E; [apply zmem_in in E; contradiction|].
    destruct (v =? -1) eqn:Ev; [apply Z.eqb_eq in Ev; exact Ev|discriminate].
  - assert (H' : vacant_rest occset (i0 + 1) t = true).
    { destruct (zmem i0 occset); [exact H|]. destruct (h =? -1); [exact H|discriminate]. }
    apply (IH (i0 + 1) H' k v Hk). replace (i0 + 1 + Z.of_nat k) with (i0 + Z.of_nat (S k)) by lia. exact Hn.
Qed.

Lemma omap_some {A B} (f : A -> option B) l r : omap f l = Some r ->
  length r = length l /\ forall y, In y r -> exists x, In x l /\ f x = Some y.
Proof.
  revert r; induction l as [|a t IH]; intros r H; cbn in H.
  - injection H as <-. split; [reflexivity|intros y []].
  - destruct (f a) as [b|] eqn:E; [|discriminate]. destruct (omap f t) as [r'|]; [|discriminate].
    injection H as <-. destruct (IH r' eq_refl) as [L P]. split; [cbn; lia|].
    intros y [<-|Hy]; [exists a; split; [left; reflexivity|exact E]|].
    destruct (P y Hy) as [x [Hx Hf]]. exists x. split; [right; exact Hx|exact Hf].
Qed.

Lemma pyget_in {A} (l : list A) i v : pyget l i = Some v -> In v l.
Proof.
  unfold pyget. destruct (pyidx (zlen l) i); [|discriminate]. apply nth_error_In.
Qed.

Lemma reorder1_some cl cm nl : reorder1 cl cm = Some nl -> length nl = length cl /\ incl nl cl.
Proof.
  unfold reorder1. intros H. apply omap_some in H. destruct H as [L P]. split.
  - rewrite L. unfold zrange. rewrite map_length, seq_length. reflexivity.
  - intros y Hy. destruct (P y Hy) as [x [_ Hf]]. destruct (pyget cm x); [|discriminate]. eapply pyget_in, Hf.
Qed.

Lemma reorder_lists_some ch : forall m no, reorder_lists ch m = Some no ->
  length no = Nat.min (length ch) (length m) /\
  forall c, (c < length no)%nat -> length (nth c no []) = length (nth c ch []) /\ incl (nth c no []) (nth c ch []).
Proof.
  induction ch as [|cl t IH]; intros m no H.
  - cbn in H. injection H as <-. split; [reflexivity|]. intros c Hc. cbn in Hc. lia.
  - destruct m as [|cm m']; cbn in H.
    + injection H as <-. split; [reflexivity|]. intros c Hc. cbn in Hc. lia.
    + destruct (reorder1 cl cm) as [nl|] eqn:E; [|discriminate].
      destruct (reorder_lists t m') as [r|] eqn:E2; [|discriminate]. injection H as <-.
      destruct (IH m' r E2) as [L P]. split; [cbn; rewrite L; reflexivity|].
      intros [|c] Hc; cbn [nth]; [apply reorder1_some in E; exact E|]. apply P. cbn in Hc. lia.
Qed.

Theorem reorder_inv N Nchem s mapping :
  Inv N Nchem s -> (Nchem <= length mapping)%nat -> Inv N Nchem (fst (reorder mapping s)).
Proof.
  intros I Hm. unfold reorder.
  destruct (reorder_lists (chemorder s) mapping) as [no|] eqn:E; [|exact I].
  destruct (reorder_lists_some _ _ _ E) as [L P].
  rewrite (inv_len_co _ _ _ I) in L. rewrite Nat.min_l in L by exact Hm.
  assert (Hrange : forall c i, (c < Nchem)%nat -> In i (nth c no []) -> In i (co_at s c)).
  { intros c i Hc Hin. rewrite <- L in Hc. apply (proj2 (P c Hc)). exact Hin. }
  destruct (sane (mkSC (occ s) no)) as [[|]|] eqn:Es; cbn [fst]; [|exact I|].
  2:{ exfalso. unfold sane in Es. cbn [occ chemorder] in Es.
      assert (Hs : check_all (occ s) 0 no <> None).
      { apply check_all_some. intros cl Hcl ind Hind.
        destruct (In_nth_error _ _ Hcl) as [c Hc].
        assert (Hc' : (c < Nchem)%nat) by (rewrite <- L; apply nth_error_Some; congruence).
        assert (Hin : In ind (co_at s c)).
        { apply Hrange; [exact Hc'|]. rewrite (nth_error_nth _ _ [] Hc). exact Hind. }
        apply (inv_in _ _ _ I c ind Hc') in Hin. destruct Hin as [H0 Hn].
        assert ((Z.to_nat ind < length (occ s))%nat) by (apply nth_error_Some; congruence). unfold zlen. lia. }
      destruct (check_all (occ s) 0 no) as [[|]|]; congruence. }
  unfold sane in Es. cbn [occ chemorder] in Es.
  destruct (check_all (occ s) 0 no) as [[|]|] eqn:Ec; try discriminate. injection Es as Ev.
  assert (Hback : forall c i, (c < Nchem)%nat -> In i (co_at s c) -> In i (nth c no [])).
  { intros c i Hc Hin. apply (inv_in _ _ _ I c i Hc) in Hin. destruct Hin as [H0 Hn].
    destruct (in_dec Z.eq_dec i (concat no)) as [Hcat|Hcat].
    - apply in_concat in Hcat. destruct Hcat as [l [Hl Hil]].
      destruct (In_nth_error _ _ Hl) as [c2 Hc2].
      assert (Hc2' : (c2 < Nchem)%nat) by (rewrite <- L; apply nth_error_Some; congruence).
      assert (Hin2 : In i (co_at s c2)).
      { apply Hrange; [exact Hc2'|]. rewrite (nth_error_nth _ _ [] Hc2). exact Hil. }
      apply (inv_in _ _ _ I c2 i Hc2') in Hin2. destruct Hin2 as [_ Hn2]. rewrite Hn in Hn2. injection Hn2 as Hn2.
      assert (c2 = c) by lia. subst c2. rewrite (nth_error_nth _ _ [] Hc2). exact Hil.
    - exfalso. assert (Hv := vacant_rest_true _ _ 0 Ev (Z.to_nat i) _ Hn).
      replace (0 + Z.of_nat (Z.to_nat i)) with i in Hv by lia. specialize (Hv Hcat). lia. }
  constructor; cbn [occ chemorder].
  - apply (inv_len_occ _ _ _ I).
  - exact L.
  - intros c Hc. unfold co_at. cbn [chemorder].
    apply (@NoDup_incl_NoDup Z (co_at s c)); [apply (inv_nodup _ _ _ I), Hc| |intros i; apply Hback, Hc].
    assert (Hc' : (c < length no)%nat) by (rewrite L; exact Hc). rewrite (proj1 (P c Hc')). unfold co_at. lia.
  - intros c i Hc. unfold co_at at 1. cbn [chemorder]. rewrite <- (inv_in _ _ _ I c i Hc).
    split; [apply Hrange, Hc|apply Hback, Hc].
  - apply (inv_range _ _ _ I).
Qed.

(* ---------- __imul__ ---------- *)
Definition is_perm (N : nat) (idx : list Z) : Prop :=
  length idx = N /\ NoDup idx /\ forall x, In x idx -> 0 <= x < Z.of_nat N.

Definition pidx (idx : list Z) (i : Z) : Z := nth (Z.to_nat i) idx 0.

Lemma in_zrange n x : In x (zrange n) <-> 0 <= x < Z.of_nat n.
Proof.
  unfold zrange. rewrite in_map_iff. split.
  - intros [k [<- Hk]]. apply in_seq in Hk. lia.
  - intros H. exists (Z.to_nat x). split; [lia|apply in_seq; lia].
Qed.

Lemma zrange_length n : length (zrange n) = n.
Proof. unfold zrange. rewrite map_length, seq_length. reflexivity. Qed.

Lemma perm_surj N idx j : is_perm N idx -> 0 <= j < Z.of_nat N -> exists m, (m < N)%nat /\ nth m idx 0 = j.
Proof.
  intros [L [ND R]] Hj.
  assert (Hin : In j idx).
  { apply (NoDup_length_incl ND (l' := zrange N)).
    - rewrite zrange_length. lia.
    - intros x Hx. apply in_zrange, R, Hx.
    - apply in_zrange, Hj. }
  destruct (In_nth _ _ 0 Hin) as [m [Hm E]]. exists m. split; [lia|exact E].
Qed.

Lemma perm_inj N idx a b : is_perm N idx -> (a < N)%nat -> (b < N)%nat -> nth a idx 0 = nth b idx 0 -> a = b.
Proof. intros [L [ND R]] Ha Hb E. apply (proj1 (NoDup_nth idx 0) ND); [lia|lia|exact E]. Qed.

Lemma perm_range N idx m : is_perm N idx -> (m < N)%nat -> 0 <= nth m idx 0 < Z.of_nat N.
Proof. intros [L [ND R]] Hm. apply R, nth_In. lia. Qed.

Lemma imul_occ_spec occ0 : forall idx gocc ind,
  0 <= ind -> NoDup idx -> (forall x, In x idx -> 0 <= x < zlen gocc) ->
  (Z.to_nat ind + length idx <= length occ0)%nat ->
  exists g', imul_occ occ0 gocc ind idx = Some g' /\ length g' = length gocc /\
    (forall m x, nth_error idx m = Some x -> nth_error g' (Z.to_nat x) = nth_error occ0 (Z.to_nat ind + m)) /\
    (forall j, ~ In (Z.of_nat j) idx -> nth_error g' j = nth_error gocc j).
Proof.
  induction idx as [|gind t IH]; intros gocc ind H0 ND R Hlen.
  - exists gocc. cbn. split; [reflexivity|]. split; [reflexivity|]. split; [intros [|m] x Hx; discriminate|reflexivity].
  - cbn [imul_occ]. rewrite pyget_nonneg by exact H0.
    destruct (nth_error occ0 (Z.to_nat ind)) as [v|] eqn:Ev.
    2:{ apply nth_error_None in Ev. cbn [length] in Hlen. lia. }
    assert (Hg := R gind (or_introl eq_refl)).
    rewrite pyset_nonneg by exact Hg.
    inversion ND as [|? ? Hnin ND']; subst.
    destruct (IH (upd gocc (Z.to_nat gind) v) (ind + 1)) as [g' [E [L [P1 P2]]]].
    + lia.
    + exact ND'.
    + intros x Hx. unfold zlen. rewrite upd_length. apply R. right. exact Hx.
    + cbn [length] in Hlen. lia.
    + exists g'. split; [exact E|]. split; [rewrite L; apply upd_length|]. split.
      * intros [|m] x Hx; cbn in Hx.
        -- injection Hx as <-. rewrite P2.
           ++ rewrite nth_error_upd_eq by (unfold zlen in Hg; lia). rewrite Nat.add_0_r. symmetry. exact Ev.
           ++ rewrite Z2Nat.id by lia. exact Hnin.
        -- rewrite (P1 m x Hx). f_equal. lia.
      * intros j Hj. rewrite P2 by (intros Hx; apply Hj; right; exact Hx).
        apply nth_error_upd_neq. intros ->. apply Hj. left. lia.
Qed.

Lemma omap_map {A B} (f : A -> option B) (h : A -> B) l : (forall x, In x l -> f x = Some (h x)) -> omap f l = Some (map h l).
Proof.
  induction l as [|a t IH]; intros H; cbn; [reflexivity|].
  rewrite (H a (or_introl eq_refl)). rewrite IH by (intros; apply H; right; assumption). reflexivity.
Qed.

Lemma nodup_map_inj (f : Z -> Z) l : NoDup l -> (forall x y, In x l -> In y l -> f x = f y -> x = y) -> NoDup (map f l).
Proof.
  induction l as [|a t IH]; intros ND H; cbn; [constructor|].
  inversion ND as [|? ? Hnin ND']; subst. constructor.
  - rewrite in_map_iff. intros [y [E Hy]]. apply Hnin.
    rewrite (H a y (or_introl eq_refl) (or_intror Hy) (eq_sym E)). exact Hy.
  - apply IH; [exact ND'|]. intros x y Hx Hy. apply H; right; assumption.
Qed.

Theorem imul_spec N Nchem s idx :
  Inv N Nchem s -> is_perm N idx ->
  exists s', imul idx s = (s', OK) /\ Inv N Nchem s' /\
    chemorder s' = map (map (pidx idx)) (chemorder s) /\
    (forall m, (m < N)%nat -> nth_error (occ s') (Z.to_nat (nth m idx 0)) = nth_error (occ s) m).
Proof.
  intros I P. assert (P' := P). destruct P' as [L [ND R]].
  destruct (imul_occ_spec (occ s) idx (occ s) 0) as [g' [E [Lg [P1 P2]]]].
  - lia.
  - exact ND.
  - intros x Hx. unfold zlen. rewrite (inv_len_occ _ _ _ I). apply R, Hx.
  - rewrite (inv_len_occ _ _ _ I), L. cbn. lia.
  - assert (Hget : forall cl, In cl (chemorder s) -> forall i, In i cl -> pyget idx i = Some (pidx idx i)).
    { intros cl Hcl i Hi. destruct (In_nth_error _ _ Hcl) as [c Hc].
      assert (Hc' : (c < Nchem)%nat) by (rewrite <- (inv_len_co _ _ _ I); apply nth_error_Some; congruence).
      assert (Hin : In i (co_at s c)) by (unfold co_at; rewrite (nth_error_nth _ _ [] Hc); exact Hi).
      apply (inv_in _ _ _ I c i Hc') in Hin. destruct Hin as [H0 Hn].
      assert ((Z.to_nat i < length (occ s))%nat) by (apply nth_error_Some; congruence).
      rewrite pyget_nonneg by exact H0. unfold pidx. apply nth_error_nth'. rewrite L, <- (inv_len_occ _ _ _ I). assumption. }
    assert (Ech : omap (omap (pyget idx)) (chemorder s) = Some (map (map (pidx idx)) (chemorder s))).
    { apply omap_map. intros cl Hcl. apply omap_map. apply Hget, Hcl. }
    assert (Hocc : forall m, (m < N)%nat -> nth_error g' (Z.to_nat (nth m idx 0)) = nth_error (occ s) m).
    { intros m Hm. rewrite (P1 m (nth m idx 0)); [reflexivity|]. apply nth_error_nth'. lia. }
    exists (mkSC g' (map (map (pidx idx)) (chemorder s))).
    split; [unfold imul; rewrite E, Ech; reflexivity|]. split; [|split; [reflexivity|exact Hocc]].
    assert (Hco : forall c, co_at (mkSC g' (map (map (pidx idx)) (chemorder s))) c = map (pidx idx) (co_at s c)).
    { intros c. unfold co_at. cbn [chemorder]. change (@nil Z) with (map (pidx idx) []) at 1. apply map_nth. }
    constructor; cbn [occ chemorder].
    + rewrite Lg. apply (inv_len_occ _ _ _ I).
    + rewrite map_length. apply (inv_len_co _ _ _ I).
    + intros c Hc. rewrite Hco. apply nodup_map_inj; [apply (inv_nodup _ _ _ I), Hc|].
      intros x y Hx Hy Exy.
      apply (inv_in _ _ _ I c x Hc) in Hx. apply (inv_in _ _ _ I c y Hc) in Hy.
      destruct Hx as [Hx0 Hx]. destruct Hy as [Hy0 Hy].
      assert ((Z.to_nat x < length (occ s))%nat) by (apply nth_error_Some; congruence).
      assert ((Z.to_nat y < length (occ s))%nat) by (apply nth_error_Some; congruence).
      rewrite (inv_len_occ _ _ _ I) in *.
      assert (Z.to_nat x = Z.to_nat y) by (apply (perm_inj N idx); assumption). lia.
    + intros c j Hc. rewrite Hco. rewrite in_map_iff. split.
      * intros [i [<- Hi]]. apply (inv_in _ _ _ I c i Hc) in Hi. destruct Hi as [Hi0 Hi].
        assert (Hlt : (Z.to_nat i < N)%nat) by (rewrite <- (inv_len_occ _ _ _ I); apply nth_error_Some; congruence).
        unfold pidx. split; [apply (perm_range N idx _ P Hlt)|]. rewrite Hocc by exact Hlt. exact Hi.
      * intros [Hj0 Hj].
        assert (Hlt : (Z.to_nat j < N)%nat).
        { rewrite <- (inv_len_occ _ _ _ I), <- Lg. apply nth_error_Some. congruence. }
        destruct (perm_surj N idx j P) as [m [Hm Em]]; [lia|].
        exists (Z.of_nat m). unfold pidx. rewrite Nat2Z.id. split; [exact Em|].
        apply (inv_in _ _ _ I c _ Hc). split; [lia|]. rewrite Nat2Z.id. rewrite <- Hocc by exact Hm. rewrite Em. exact Hj.
    + intros k v Hk.
      assert (Hlt : (k < N)%nat) by (rewrite <- (inv_len_occ _ _ _ I), <- Lg; apply nth_error_Some; congruence).
      destruct (perm_surj N idx (Z.of_nat k) P) as [m [Hm Em]]; [lia|].
      assert (Hx := Hocc m Hm). rewrite Em, Nat2Z.id, Hk in Hx. symmetry in Hx. apply (inv_range _ _ _ I _ _ Hx).
Qed.

(* ---------- POSCAR write / read (content level) ---------- *)
Definition clipOK (N Nchem : nat) (cl : list (list Z)) : Prop :=
  length cl = Nchem /\ (forall c, NoDup (nth c cl [])) /\
  (forall c c' i, In i (nth c cl []) -> In i (nth c' cl []) -> c = c') /\
  (forall c i, In i (nth c cl []) -> 0 <= i < Z.of_nat N).

Lemma inv_site_range N Nchem s c i : Inv N Nchem s -> (c < Nchem)%nat -> In i (co_at s c) -> 0 <= i < Z.of_nat N.
Proof.
  intros I Hc Hin. apply (inv_in _ _ _ I c i Hc) in Hin. destruct Hin as [H0 Hn].
  assert ((Z.to_nat i < length (occ s))%nat) by (apply nth_error_Some; congruence).
  rewrite (inv_len_occ _ _ _ I) in *. lia.
Qed.

Lemma inv_clipOK N Nchem s : Inv N Nchem s -> clipOK N Nchem (chemorder s).
Proof.
  intros I. split; [apply (inv_len_co _ _ _ I)|]. split; [|split].
  - intros c. destruct (Nat.lt_ge_cases c Nchem) as [Hc|Hc]; [apply (inv_nodup _ _ _ I c Hc)|].
    rewrite nth_overflow by (rewrite (inv_len_co _ _ _ I); exact Hc). constructor.
  - intros c c' i H1 H2.
    assert (Hc : (c < Nchem)%nat).
    { destruct (Nat.lt_ge_cases c Nchem) as [Hc|Hc]; [exact Hc|]. rewrite nth_overflow in H1 by (rewrite (inv_len_co _ _ _ I); exact Hc). destruct H1. }
    assert (Hc' : (c' < Nchem)%nat).
    { destruct (Nat.lt_ge_cases c' Nchem) as [Hc'|Hc']; [exact Hc'|]. rewrite nth_overflow in H2 by (rewrite (inv_len_co _ _ _ I); exact Hc'). destruct H2. }
    apply (inv_in _ _ _ I c i Hc) in H1. apply (inv_in _ _ _ I c' i Hc') in H2.
    destruct H1 as [_ H1]. destruct H2 as [_ H2]. rewrite H1 in H2. injection H2 as H2. lia.
  - intros c i H1.
    assert (Hc : (c < Nchem)%nat).
    { destruct (Nat.lt_ge_cases c Nchem) as [Hc|Hc]; [exact Hc|]. rewrite nth_overflow in H1 by (rewrite (inv_len_co _ _ _ I); exact Hc). destruct H1. }
    eapply inv_site_range; eassumption.
Qed.

Lemma omap_id {A} (f : A -> option A) l : (forall x, In x l -> f x = Some x) -> omap f l = Some l.
Proof. intros H. rewrite (omap_map f (fun x => x) l H). rewrite map_id. reflexivity. Qed.

Theorem poscar_write_spec N Nchem s : Inv N Nchem s -> poscar_write s = Some (chemorder s).
Proof.
  intros I. unfold poscar_write. apply omap_id. intros cl Hcl. apply omap_id. intros i Hi.
  destruct (In_nth_error _ _ Hcl) as [c Hc].
  assert (Hc' : (c < Nchem)%nat) by (rewrite <- (inv_len_co _ _ _ I); apply nth_error_Some; congruence).
  assert (Hin : In i (co_at s c)) by (unfold co_at; rewrite (nth_error_nth _ _ [] Hc); exact Hi).
  assert (Hr := inv_site_range _ _ _ _ _ I Hc' Hin).
  unfold zlen. rewrite (inv_len_occ _ _ _ I). rewrite pyidx_nonneg by exact Hr. cbn. f_equal. lia.
Qed.

(* two consistent states with the same ordering have the same occupation *)
Lemma inv_occ_determined N Nchem s1 s2 :
  Inv N Nchem s1 -> Inv N Nchem s2 -> chemorder s1 = chemorder s2 -> occ s1 = occ s2.
Proof.
  intros I1 I2 E.
  assert (Hco : forall c, co_at s1 c = co_at s2 c) by (intros c; unfold co_at; rewrite E; reflexivity).
  apply (nth_ext _ _ (-1) (-1)); [rewrite (inv_len_occ _ _ _ I1), (inv_len_occ _ _ _ I2); reflexivity|].
  intros k Hk. rewrite (inv_len_occ _ _ _ I1) in Hk.
  assert (E1 := nth_error_nth' (occ s1) k (-1)). rewrite (inv_len_occ _ _ _ I1) in E1. specialize (E1 Hk).
  assert (E2 := nth_error_nth' (occ s2) k (-1)). rewrite (inv_len_occ _ _ _ I2) in E2. specialize (E2 Hk).
  set (v1 := nth k (occ s1) (-1)) in *. set (v2 := nth k (occ s2) (-1)) in *.
  assert (R1 := inv_range _ _ _ I1 _ _ E1). assert (R2 := inv_range _ _ _ I2 _ _ E2).
  destruct (Z_lt_ge_dec v1 0) as [N1|P1]; destruct (Z_lt_ge_dec v2 0) as [N2|P2]; [lia| | |].
  - exfalso. assert (Hc : (Z.to_nat v2 < Nchem)%nat) by lia.
    assert (Hin : In (Z.of_nat k) (co_at s2 (Z.to_nat v2))).
    { apply (inv_in _ _ _ I2 _ _ Hc). split; [lia|]. rewrite Nat2Z.id, E2. f_equal. lia. }
    rewrite <- Hco in Hin. apply (inv_in _ _ _ I1 _ _ Hc) in Hin. destruct Hin as [_ Hin].
    rewrite Nat2Z.id, E1 in Hin. injection Hin as Hin. lia.
  - exfalso. assert (Hc : (Z.to_nat v1 < Nchem)%nat) by lia.
    assert (Hin : In (Z.of_nat k) (co_at s1 (Z.to_nat v1))).
    { apply (inv_in _ _ _ I1 _ _ Hc). split; [lia|]. rewrite Nat2Z.id, E1. f_equal. lia. }
    rewrite Hco in Hin. apply (inv_in _ _ _ I2 _ _ Hc) in Hin. destruct Hin as [_ Hin].
    rewrite Nat2Z.id, E2 in Hin. injection Hin as Hin. lia.
  - assert (Hc : (Z.to_nat v1 < Nchem)%nat) by lia.
    assert (Hin : In (Z.of_nat k) (co_at s1 (Z.to_nat v1))).
    { apply (inv_in _ _ _ I1 _ _ Hc). split; [lia|]. rewrite Nat2Z.id, E1. f_equal. lia. }
    rewrite Hco in Hin. apply (inv_in _ _ _ I2 _ _ Hc) in Hin. destruct Hin as [_ Hin].
    rewrite Nat2Z.id, E2 in Hin. injection Hin as Hin. lia.
Qed.

Lemma sc_eq s1 s2 : occ s1 = occ s2 -> chemorder s1 = chemorder s2 -> s1 = s2.
Proof. destruct s1, s2; cbn; intros -> ->; reflexivity. Qed.

(* phase 1 of POSCAR_occ: every site is vacated *)
Definition upd_call (o : list Z) (p : Z * Z) : list Z := upd o (Z.to_nat (fst p)) (snd p).

Lemma setocc_all_ok g N Nchem l : guard_ok g Nchem -> forall s, Inv N Nchem s ->
  Forall (fun p => 0 <= fst p < Z.of_nat N /\ declared Nchem (snd p)) l ->
  exists s', setocc_all g s l = (s', OK) /\ Inv N Nchem s' /\ occ s' = fold_left upd_call l (occ s).
Proof.
  intros G. induction l as [|[i c] t IH]; intros s I HF.
  - exists s. cbn. auto.
  - inversion HF as [|? ? [Hi Hc] HF']; subst. cbn [fst snd] in Hi, Hc.
    destruct (setocc_accepts g N Nchem G s i c I Hi Hc) as [s1 [E1 [I1 O1]]].
    destruct (IH s1 I1 HF') as [s' [E' [I' O']]].
    exists s'. cbn [setocc_all]. rewrite E1. split; [exact E'|]. split; [exact I'|].
    cbn [fold_left]. unfold upd_call at 2. cbn [fst snd]. rewrite <- O1. exact O'.
Qed.

Lemma fold_upd_const v0 l : (forall p, In p l -> snd p = v0) -> forall o k v,
  nth_error (fold_left upd_call l o) k = Some v ->
  v = v0 \/ (nth_error o k = Some v /\ ~ In k (map (fun p => Z.to_nat (fst p)) l)).
Proof.
  induction l as [|p t IH]; intros H o k v Hk; cbn in *; [right; split; [exact Hk|tauto]|].
  destruct (IH (fun q Hq => H q (or_intror Hq)) _ k v Hk) as [->|[Hn Hnin]]; [left; reflexivity|].
  unfold upd_call in Hn. rewrite nth_error_upd in Hn.
  destruct (Nat.eqb k (Z.to_nat (fst p))) eqn:E.
  - destruct (Nat.ltb _ _); [|discriminate]. injection Hn as <-. left. apply H. left. reflexivity.
  - apply Nat.eqb_neq in E. right. split; [exact Hn|]. intros [Hx|Hx]; [congruence|contradiction].
Qed.

Lemma inv_vacant_init N Nchem s : Inv N Nchem s -> (forall k v, nth_error (occ s) k = Some v -> v = -1) ->
  s = init_sc N Nchem.
Proof.
  intros I H. apply sc_eq; unfold init_sc; cbn [occ chemorder].
  - apply (nth_ext _ _ (-1) (-1)); [rewrite repeat_length; apply (inv_len_occ _ _ _ I)|].
    intros k Hk. rewrite nth_repeat. apply (H k). apply nth_error_nth'. exact Hk.
  - apply (nth_ext _ _ [] []); [rewrite repeat_length; apply (inv_len_co _ _ _ I)|].
    intros c Hc. rewrite nth_repeat. rewrite (inv_len_co _ _ _ I) in Hc.
    destruct (nth c (chemorder s) []) as [|x t] eqn:E; [reflexivity|]. exfalso.
    assert (Hin : In x (co_at s c)) by (unfold co_at; rewrite E; left; reflexivity).
    apply (inv_in _ _ _ I c x Hc) in Hin. destruct Hin as [_ Hin]. apply H in Hin. lia.
Qed.

Lemma vacate_spec g N Nchem s : guard_ok g Nchem -> Inv N Nchem s ->
  setocc_all g s (map (fun n => (n, -1)) (zrange (length (occ s)))) = (init_sc N Nchem, OK).
Proof.
  intros G I. rewrite (inv_len_occ _ _ _ I).
  destruct (setocc_all_ok g N Nchem (map (fun n => (n, -1)) (zrange N)) G s I) as [s' [E [I' O]]].
  - rewrite Forall_map. apply Forall_forall. intros n Hn. apply in_zrange in Hn. cbn [fst snd].
    split; [exact Hn|]. unfold declared. lia.
  - rewrite E. f_equal. apply inv_vacant_init; [exact I'|].
    intros k v Hk. rewrite O in Hk.
    assert (Hall : forall p, In p (map (fun n : Z => (n, -1)) (zrange N)) -> snd p = -1).
    { intros p Hp. apply in_map_iff in Hp. destruct Hp as [n [<- _]]. reflexivity. }
    destruct (fold_upd_const (-1) _ Hall _ _ _ Hk) as [->|[Hn Hnin]]; [reflexivity|].
    exfalso. apply Hnin. rewrite map_map. cbn [fst]. apply in_map_iff.
    assert (Hlt : (k < N)%nat).
    { assert (Hl : length (occ s') = N) by apply (inv_len_occ _ _ _ I'). rewrite O in Hl. rewrite <- Hl. apply nth_error_Some. congruence. }
    exists (Z.of_nat k). split; [apply Nat2Z.id|]. apply in_zrange. lia.
Qed.

(* phase 2 of POSCAR_occ: the listed sites are occupied species by species, in file order *)
Lemma setocc_vacant_eval g s i c :
  g c = false -> 0 <= c -> 0 <= i -> nth_error (occ s) (Z.to_nat i) = Some (-1) ->
  (Z.to_nat c < length (chemorder s))%nat ->
  setocc g s i c = (mkSC (upd (occ s) (Z.to_nat i) c)
                         (upd (chemorder s) (Z.to_nat c) (nth (Z.to_nat c) (chemorder s) [] ++ [i])), OK).
Proof.
  intros Hg Hc Hi Hv Hl. unfold setocc. rewrite Hg. rewrite pyget_nonneg by exact Hi. rewrite Hv.
  replace (-1 =? c) with false by (symmetry; apply Z.eqb_neq; lia).
  unfold remove_site. replace (-1 >=? 0) with false by reflexivity. cbv zeta.
  replace (c >=? 0) with true by (symmetry; apply Z.geb_le; lia).
  rewrite pyget_nonneg by exact Hc. rewrite (nth_error_nth' _ _ [] Hl).
  assert ((Z.to_nat i < length (occ s))%nat) by (apply nth_error_Some; congruence).
  rewrite pyset_nonneg by (unfold zlen; lia). reflexivity.
Qed.

Definition calls_for (c : nat) (l : list (Z * Z)) : list Z :=
  map fst (filter (fun p => snd p =? Z.of_nat c) l).

Lemma fill_calls g N Nchem : guard_ok g Nchem -> forall l s,
  length (occ s) = N -> length (chemorder s) = Nchem ->
  NoDup (map fst l) ->
  (forall p, In p l -> 0 <= fst p /\ nth_error (occ s) (Z.to_nat (fst p)) = Some (-1) /\ 0 <= snd p < Z.of_nat Nchem) ->
  exists s', setocc_all g s l = (s', OK) /\ length (chemorder s') = Nchem /\
    forall c, (c < Nchem)%nat -> nth c (chemorder s') [] = nth c (chemorder s) [] ++ calls_for c l.
Proof.
  intros G. induction l as [|[i c0] t IH]; intros s Lo Lc ND H.
  - exists s. cbn. split; [reflexivity|]. split; [exact Lc|]. intros c _. rewrite app_nil_r. reflexivity.
  - destruct (H (i, c0) (or_introl eq_refl)) as [Hi [Hv Hc0]]. cbn [fst snd] in Hi, Hv, Hc0.
    cbn [map fst] in ND. apply NoDup_cons_iff in ND. destruct ND as [Hnin ND'].
    assert (E1 := setocc_vacant_eval g s i c0 (guard_ok_false g Nchem c0 G ltac:(lia)) ltac:(lia) Hi Hv ltac:(lia)).
    set (s1 := mkSC (upd (occ s) (Z.to_nat i) c0) (upd (chemorder s) (Z.to_nat c0) (nth (Z.to_nat c0) (chemorder s) [] ++ [i]))) in *.
    destruct (IH s1) as [s' [E' [L' P']]].
    + unfold s1. cbn [occ]. rewrite upd_length. exact Lo.
    + unfold s1. cbn [chemorder]. rewrite upd_length. exact Lc.
    + exact ND'.
    + intros p Hp. destruct (H p (or_intror Hp)) as [Hp0 [Hpv Hpc]]. split; [exact Hp0|]. split; [|exact Hpc].
      unfold s1. cbn [occ]. rewrite nth_error_upd_neq; [exact Hpv|].
      intros Eq. apply Hnin. apply in_map_iff. exists p. split; [lia|exact Hp].
    + exists s'. cbn [setocc_all]. rewrite E1. split; [exact E'|]. split; [exact L'|].
      intros c Hc. rewrite (P' c Hc). unfold s1. cbn [chemorder]. unfold calls_for. cbn [filter snd].
      destruct (c0 =? Z.of_nat c) eqn:Ec.
      * apply Z.eqb_eq in Ec. subst c0. rewrite Nat2Z.id. rewrite nth_upd_eq by lia.
        cbn [map fst]. rewrite <- app_assoc. reflexivity.
      * apply Z.eqb_neq in Ec. rewrite nth_upd_neq by lia. reflexivity.
Qed.

Definition rcalls (a : nat) (content : list (list Z)) : list (Z * Z) :=
  flat_map (fun p => map (fun i => (i, fst p)) (snd p)) (combine (map Z.of_nat (seq a (length content))) content).

Lemma read_calls_rcalls content : read_calls content = rcalls 0 content.
Proof. reflexivity. Qed.

Lemma filter_tag (a : Z) (c : nat) (cl : list Z) :
  map fst (filter (fun p : Z * Z => snd p =? Z.of_nat c) (map (fun i => (i, a)) cl)) = if a =? Z.of_nat c then cl else [].
Proof.
  induction cl as [|h t IH]; cbn; [destruct (a =? Z.of_nat c); reflexivity|].
  destruct (a =? Z.of_nat c) eqn:E; cbn; rewrite IH; reflexivity.
Qed.

Lemma calls_for_rcalls c content : forall a,
  calls_for c (rcalls a content) = if Nat.leb a c then nth (c - a) content [] else [].
Proof.
  induction content as [|cl t IH]; intros a.
  - unfold rcalls, calls_for. cbn. destruct (Nat.leb a c); [destruct (c - a)%nat; reflexivity|reflexivity].
  - unfold rcalls, calls_for in *. cbn [length seq map combine flat_map fst snd].
    rewrite filter_app, map_app. rewrite filter_tag. specialize (IH (S a)).
    change (flat_map _ _) with (flat_map (fun p : Z * list Z => map (fun i : Z => (i, fst p)) (snd p))
       (combine (map Z.of_nat (seq (S a) (length t))) t)) in IH. rewrite IH.
    destruct (Z.of_nat a =? Z.of_nat c) eqn:E.
    + apply Z.eqb_eq in E. assert (a = c) by lia. subst a. rewrite Nat.leb_refl, Nat.sub_diag.
      replace (Nat.leb (S c) c) with false by (symmetry; apply Nat.leb_gt; lia). cbn [nth]. apply app_nil_r.
    + apply Z.eqb_neq in E. cbn [app]. destruct (Nat.leb a c) eqn:El.
      * apply Nat.leb_le in El. replace (Nat.leb (S a) c) with true by (symmetry; apply Nat.leb_le; lia).
        replace (c - a)%nat with (S (c - S a)) by lia. reflexivity.
      * apply Nat.leb_gt in El. replace (Nat.leb (S a) c) with false by (symmetry; apply Nat.leb_gt; lia). reflexivity.
Qed.

Lemma rcalls_sites content : forall a, map fst (rcalls a content) = concat content.
Proof.
  induction content as [|cl t IH]; intros a; [reflexivity|].
  unfold rcalls in *. cbn [length seq map combine flat_map fst snd concat]. rewrite map_app, map_map. cbn [fst].
  rewrite map_id. f_equal. apply (IH (S a)).
Qed.

Lemma rcalls_in content : forall a p, In p (rcalls a content) ->
  exists c, (a <= c)%nat /\ snd p = Z.of_nat c /\ In (fst p) (nth (c - a) content []) /\ (c - a < length content)%nat.
Proof.
  induction content as [|cl t IH]; intros a p H; [destruct H|].
  unfold rcalls in *. cbn [length seq map combine flat_map fst snd] in H. apply in_app_iff in H. destruct H as [H|H].
  - apply in_map_iff in H. destruct H as [i [<- Hi]]. exists a. cbn [fst snd length]. rewrite Nat.sub_diag. cbn [nth].
    split; [lia|]. split; [reflexivity|]. split; [exact Hi|lia].
  - destruct (IH (S a) p H) as [c [Hc [Hs [Hin Hl]]]]. exists c. split; [lia|]. split; [exact Hs|].
    replace (c - a)%nat with (S (c - S a)) by lia. cbn [nth length]. split; [exact Hin|lia].
Qed.

Lemma nodup_app (a b : list Z) : NoDup a -> NoDup b -> (forall x, In x a -> ~ In x b) -> NoDup (a ++ b).
Proof.
  induction a as [|h t IH]; intros Na Nb H; cbn; [exact Nb|].
  inversion Na as [|? ? Hnin Na']; subst. constructor.
  - rewrite in_app_iff. intros [Hx|Hx]; [contradiction|]. apply (H h (or_introl eq_refl) Hx).
  - apply IH; [exact Na'|exact Nb|]. intros x Hx. apply H. right. exact Hx.
Qed.

Lemma nodup_concat (ll : list (list Z)) :
  (forall c, NoDup (nth c ll [])) ->
  (forall c c' i, In i (nth c ll []) -> In i (nth c' ll []) -> c = c') -> NoDup (concat ll).
Proof.
  induction ll as [|h t IH]; intros H1 H2; cbn; [constructor|].
  apply nodup_app.
  - apply (H1 O).
  - apply IH; [intros c; apply (H1 (S c))|]. intros c c' i Hi Hi'. assert (S c = S c') by (apply (H2 (S c) (S c') i); assumption). lia.
  - intros x Hx Hcat. apply in_concat in Hcat. destruct Hcat as [l [Hl Hxl]].
    destruct (In_nth _ _ [] Hl) as [c [Hc Ec]]. assert (O = S c); [|discriminate].
    apply (H2 O (S c) x); [exact Hx|cbn [nth]; rewrite Ec; exact Hxl].
Qed.

Theorem poscar_read_spec g N Nchem s0 cl :
  (0 < Nchem)%nat -> guard_ok g Nchem -> Inv N Nchem s0 -> clipOK N Nchem cl ->
  exists s', poscar_read g cl s0 = (s', OK) /\ Inv N Nchem s' /\ chemorder s' = cl.
Proof.
  intros Hpos G I [Lc [C1 [C2 C3]]]. unfold poscar_read.
  destruct cl as [|cl0 clt] eqn:Ecl; [cbn in Lc; lia|]. rewrite <- Ecl in *. clear Ecl cl0 clt.
  rewrite (vacate_spec g N Nchem s0 G I).
  rewrite read_calls_rcalls.
  assert (Iinit : Inv N Nchem (init_sc N Nchem)).
  { assert (X := vacate_spec g N Nchem s0 G I).
    assert (Y := setocc_all_inv g N Nchem G (map (fun n => (n, -1)) (zrange (length (occ s0)))) s0 I).
    rewrite X in Y. apply Y. rewrite Forall_map. apply Forall_forall. intros n Hn. apply in_zrange in Hn. left. cbn. lia. }
  destruct (fill_calls g N Nchem G (rcalls 0 cl) (init_sc N Nchem)) as [s' [E [L P]]].
  - apply (inv_len_occ _ _ _ Iinit).
  - apply (inv_len_co _ _ _ Iinit).
  - rewrite rcalls_sites. apply nodup_concat; assumption.
  - intros p Hp. destruct (rcalls_in _ _ _ Hp) as [c [_ [Hs [Hin Hl]]]]. rewrite Nat.sub_0_r in Hin, Hl.
    assert (Hr := C3 c _ Hin). split; [lia|]. split; [|rewrite Hs; lia].
    unfold init_sc. cbn [occ]. rewrite (nth_error_nth' _ _ (-1)) by (rewrite repeat_length; lia). rewrite nth_repeat. reflexivity.
  - exists s'. split; [exact E|].
    assert (Ech : chemorder s' = cl).
    { apply (nth_ext _ _ [] []); [rewrite L, Lc; reflexivity|]. intros c Hc. rewrite L in Hc. rewrite (P c Hc).
      unfold init_sc. cbn [chemorder]. rewrite nth_repeat. cbn [app]. rewrite calls_for_rcalls. cbn. rewrite Nat.sub_0_r. reflexivity. }
    split; [|exact Ech].
    assert (Y := setocc_all_inv g N Nchem G (rcalls 0 cl) (init_sc N Nchem) Iinit). rewrite E in Y. apply Y.
    apply Forall_forall. intros p Hp. destruct (rcalls_in _ _ _ Hp) as [c [_ [_ [Hin _]]]]. rewrite Nat.sub_0_r in Hin.
    left. apply (C3 c _ Hin).
Qed.

(* writing a POSCAR and reading it back (into any consistent supercell) reproduces occupation and ordering *)
Theorem poscar_roundtrip g N Nchem s s0 :
  (0 < Nchem)%nat -> guard_ok g Nchem -> Inv N Nchem s -> Inv N Nchem s0 ->
  exists content, poscar_write s = Some content /\ poscar_read g content s0 = (s, OK).
Proof.
  intros Hpos G I I0. exists (chemorder s). split; [apply (poscar_write_spec N Nchem), I|].
  destruct (poscar_read_spec g N Nchem s0 (chemorder s) Hpos G I0 (inv_clipOK _ _ _ I)) as [s' [E [I' Ec]]].
  rewrite E. f_equal. apply sc_eq; [|exact Ec]. apply (inv_occ_determined N Nchem); assumption.
Qed.

(* ---------- the machine and all histories ---------- *)
Definition MInv (N Nchem : nat) (m : mach) : Prop :=
  Inv N Nchem (cur m) /\ Inv N Nchem (saved m) /\ clipOK N Nchem (clip m).

(* arguments for which the property speaks: no negative Python subscripts as site indices, one mapping list
   per species, site maps that are permutations.  Species, mappings' contents, sites out of range: arbitrary. *)
Definition op_dom (N Nchem : nat) (o : op) : Prop :=
  match o with
  | OSet i _ => idx_dom N i
  | OFill sites _ => Forall (idx_dom N) sites
  | OReorder mp => (Nchem <= length mp)%nat
  | OImul idx => is_perm N idx
  | _ => True
  end.

Lemma init_sc_inv N Nchem : Inv N Nchem (init_sc N Nchem).
Proof.
  unfold init_sc. constructor; cbn [occ chemorder].
  - apply repeat_length.
  - apply repeat_length.
  - intros c _. unfold co_at. cbn [chemorder]. rewrite nth_repeat. constructor.
  - intros c i _. unfold co_at. cbn [chemorder]. rewrite nth_repeat. split; [intros []|].
    intros [_ H]. apply nth_error_In, repeat_spec in H. lia.
  - intros k v H. apply nth_error_In, repeat_spec in H. lia.
Qed.

Lemma init_minv N Nchem : MInv N Nchem (init N Nchem).
Proof.
  unfold init, MInv. cbn [cur saved clip]. split; [apply init_sc_inv|]. split; [apply init_sc_inv|].
  apply (inv_clipOK N Nchem (init_sc N Nchem)), init_sc_inv.
Qed.

Theorem step_inv g N Nchem m o :
  (0 < Nchem)%nat -> guard_ok g Nchem -> MInv N Nchem m -> op_dom N Nchem o -> MInv N Nchem (fst (step g m o)).
Proof.
  intros Hpos G [Ic [Is Cl]] D. destruct o; cbn [step fst snd cur saved clip op_dom] in *.
  - split; [|split; assumption]. apply (setocc_inv g N Nchem G); assumption.
  - split; [|split; assumption]. apply (fillperiodic_inv g N Nchem G); assumption.
  - split; [|split]; assumption.
  - split; [|split; assumption]. apply reorder_inv; assumption.
  - split; [|split; assumption]. destruct (imul_spec N Nchem (cur m) idx Ic D) as [s' [E [I' _]]]. rewrite E. exact I'.
  - split; [|split]; assumption.
  - split; [|split]; assumption.
  - rewrite (poscar_write_spec N Nchem _ Ic). cbn [fst cur saved clip]. split; [|split]; try assumption.
    apply inv_clipOK, Ic.
  - split; [|split; assumption].
    destruct (poscar_read_spec g N Nchem (cur m) (clip m) Hpos G Ic Cl) as [s' [E [I' _]]]. rewrite E. exact I'.
Qed.

Theorem history_inv g N Nchem : (0 < Nchem)%nat -> guard_ok g Nchem -> forall ops m,
  MInv N Nchem m -> Forall (op_dom N Nchem) ops -> MInv N Nchem (run g m ops).
Proof.
  intros Hpos G. induction ops as [|o t IH]; intros m I HF; cbn [run]; [exact I|].
  inversion HF as [|? ? Ho HF']; subst. apply IH; [|exact HF']. apply step_inv; assumption.
Qed.

(* at every point of every history: declared species are accepted, all others rejected with nothing changed *)
Theorem history_species g N Nchem ops i c :
  (0 < Nchem)%nat -> guard_ok g Nchem -> Forall (op_dom N Nchem) ops -> 0 <= i < Z.of_nat N ->
  let s := cur (run g (init N Nchem) ops) in
  (declared Nchem c -> exists s', setocc g s i c = (s', OK) /\ Inv N Nchem s' /\
                                  nth_error (occ s') (Z.to_nat i) = Some c /\
                                  forall k, k <> Z.to_nat i -> nth_error (occ s') k = nth_error (occ s) k) /\
  (~ declared Nchem c -> setocc g s i c = (s, IndexError)).
Proof.
  intros Hpos G HF Hi s.
  assert (I : Inv N Nchem s) by (apply (history_inv g N Nchem Hpos G ops (init N Nchem) (init_minv N Nchem) HF)).
  split.
  - intros Hc. destruct (setocc_accepts g N Nchem G s i c I Hi Hc) as [s' [E [I' O]]].
    exists s'. split; [exact E|]. split; [exact I'|]. rewrite O. split.
    + apply nth_error_upd_eq. rewrite (inv_len_occ _ _ _ I). lia.
    + intros k Hk. apply nth_error_upd_neq, Hk.
  - intros Hc. apply (setocc_rejects g Nchem G), Hc.
Qed.

(* ---------- the guard as written in the pinned source ---------- *)
Lemma guard_source_not_ok (cn ns : nat) : ~ guard_ok (guard_source (Z.of_nat cn)) (cn + ns).
Proof.
  intros G. assert (H : guard_source (Z.of_nat cn) (-2) = true) by (apply G; lia).
  unfold guard_source in H. apply orb_true_iff in H. destruct H as [H|H]; [apply Z.ltb_lt in H; lia|].
  apply Z.gtb_lt in H. lia.
Qed.

Theorem source_guard_refuted :
  (forall cn ns : nat, ~ guard_ok (guard_source (Z.of_nat cn)) (cn + ns)) /\
  (* an undeclared species is accepted and the bookkeeping becomes inconsistent *)
  (exists ops, Forall (op_dom 2 1) ops /\ ~ MInv 2 1 (run (guard_source 1) (init 2 1) ops) /\
               snd (step (guard_source 1) (init 2 1) (OSet 0 (-2))) = OK /\ ~ declared 1 (-2)) /\
  (* a declared species (second solute) is rejected *)
  (declared 3 2 /\ step (guard_source 1) (init 2 3) (OSet 0 2) = (init 2 3, IndexError)) /\
  (* an undeclared species is rejected only after the site has been unlisted *)
  (exists ops, Forall (op_dom 2 1) ops /\ ~ declared 1 1 /\
               snd (step (guard_source 1) (run (guard_source 1) (init 2 1) ops) (OSet 0 1)) = IndexError /\
               ~ MInv 2 1 (fst (step (guard_source 1) (run (guard_source 1) (init 2 1) ops) (OSet 0 1)))).
Proof.
  split; [exact guard_source_not_ok|]. split; [|split].
  - exists [OSet 0 (-2)]. split; [repeat constructor; cbn; lia|]. split; [|split; [reflexivity|unfold declared; lia]].
    intros [I _]. assert (H := inv_range _ _ _ I O (-2) eq_refl). lia.
  - split; [unfold declared; lia|reflexivity].
  - exists [OSet 0 0]. split; [repeat constructor; cbn; lia|]. split; [unfold declared; lia|]. split; [reflexivity|].
    intros [I _]. assert (H := proj2 (inv_in _ _ _ I O 0 ltac:(lia)) (conj (Z.le_refl 0) eq_refl)). destruct H.
Qed.

(* ---------- the executable invariant checker run on the implementation's states ---------- *)
Lemma nodupb_sound l : nodupb l = true -> NoDup l.
Proof.
  induction l as [|h t IH]; cbn; intros H; [constructor|]. apply andb_true_iff in H. destruct H as [H1 H2].
  constructor; [|apply IH, H2]. intros Hin. apply zmem_in in Hin. rewrite Hin in H1. discriminate.
Qed.

Lemma enumerate_in {A} (l : list A) : forall a k x, nth_error l k = Some x ->
  In (Z.of_nat (a + k), x) (combine (map Z.of_nat (seq a (length l))) l).
Proof.
  induction l as [|h t IH]; intros a k x H; [destruct k; discriminate|].
  cbn [length seq map combine]. destruct k as [|k]; cbn in H.
  - injection H as ->. left. rewrite Nat.add_0_r. reflexivity.
  - right. replace (a + S k)%nat with (S a + k)%nat by lia. apply IH, H.
Qed.

Theorem invb_sound N Nchem s : invb N Nchem s = true -> Inv N Nchem s.
Proof.
  unfold invb. intros H. repeat (apply andb_true_iff in H; destruct H as [H ?]).
  apply Nat.eqb_eq in H. rename H into Lo. rename H0 into Hl. rename H1 into Hs. rename H2 into Lc.
  apply Nat.eqb_eq in Lc. rewrite forallb_forall in Hs. unfold listedb in Hl. rewrite forallb_forall in Hl.
  assert (Hsp : forall c, (c < Nchem)%nat -> species_okb (occ s) (Z.of_nat c) (co_at s c) = true).
  { intros c Hc. apply (Hs (Z.of_nat c, co_at s c)). unfold enumerate, zrange.
    apply (enumerate_in (chemorder s) 0 c). unfold co_at. apply nth_error_nth'. lia. }
  constructor; try assumption.
  - intros c Hc. specialize (Hsp c Hc). unfold species_okb in Hsp. apply andb_true_iff in Hsp. apply nodupb_sound, Hsp.
  - intros c i Hc. split.
    + intros Hin. specialize (Hsp c Hc). unfold species_okb in Hsp. apply andb_true_iff in Hsp. destruct Hsp as [_ Hf].
      rewrite forallb_forall in Hf. specialize (Hf i Hin). repeat (apply andb_true_iff in Hf; destruct Hf as [Hf ?]).
      apply Z.leb_le in Hf. apply Z.ltb_lt in H0. apply Z.eqb_eq in H. unfold zlen in H0. split; [exact Hf|].
      rewrite (nth_error_nth' _ _ (-2)) by lia. f_equal. exact H.
    + intros [H0 Hn]. assert (Hp := Hl (i, Z.of_nat c)). cbv beta iota in Hp.
      assert (Hin : In (i, Z.of_nat c) (enumerate (occ s))).
      { unfold enumerate, zrange. replace i with (Z.of_nat (0 + Z.to_nat i)) by lia. apply enumerate_in, Hn. }
      specialize (Hp Hin). repeat (apply andb_true_iff in Hp; destruct Hp as [Hp ?]).
      apply orb_true_iff in H. destruct H as [H|H]; [apply Z.eqb_eq in H; lia|].
      apply zmem_in in H. rewrite Nat2Z.id in H. exact H.
  - intros k v Hk. assert (Hp := Hl (Z.of_nat k, v)). cbv beta iota in Hp.
    assert (Hin : In (Z.of_nat k, v) (enumerate (occ s))) by (unfold enumerate, zrange; apply (enumerate_in (occ s) 0 k), Hk).
    specialize (Hp Hin). repeat (apply andb_true_iff in Hp; destruct Hp as [Hp ?]).
    apply Z.leb_le in Hp. apply Z.ltb_lt in H0. unfold zlen in H0. lia.
Qed.

(* ---------- non-vacuity: concrete instances ---------- *)
Example ex_history :
  let g := guard_declared 3 in
  let m := run g (init 4 3) [OFill [0; 2] 0; OSet 1 2; OSet 3 2; OSet 0 1; OReorder [[0]; [0]; [1; 0]];
                             OImul [1; 0; 3; 2]; OCopy; OWrite; OSet 3 (-1); OSet 7 0; OSet 0 5; ORead] in
  cur m = mkSC [2; 1; 2; 0] [[3]; [1]; [2; 0]] /\ minvb 4 3 m = true /\
  Forall (op_dom 4 3) [OFill [0; 2] 0; OSet 1 2; OReorder [[0]; [0]; [1; 0]]; OImul [1; 0; 3; 2]].
Proof.
  cbv zeta. split; [vm_compute; reflexivity|]. split; [vm_compute; reflexivity|].
  apply Forall_cons; [|apply Forall_cons; [|apply Forall_cons; [|apply Forall_cons; [|apply Forall_nil]]]].
  - cbn. apply Forall_cons; [left; lia|apply Forall_cons; [left; lia|apply Forall_nil]].
  - cbn. left. lia.
  - cbn. lia.
  - cbn. unfold is_perm. split; [reflexivity|]. split.
    + repeat (apply NoDup_cons; [cbn; intuition lia|]). apply NoDup_nil.
    + intros x Hx. cbn in Hx. intuition lia.
Qed.

Example ex_roundtrip :
  let s := mkSC [2; 1; 2; 0] [[3]; [1]; [2; 0]] in
  invb 4 3 s = true /\ poscar_write s = Some [[3]; [1]; [2; 0]] /\
  poscar_read (guard_declared 3) [[3]; [1]; [2; 0]] (mkSC [0; 0; -1; 1] [[1; 0]; [3]; []]) = (s, OK).
Proof. vm_compute. repeat split; reflexivity. Qed.

Example ex_reorder_rejects :
  reorder [[0; 0]] (mkSC [0; 0] [[0; 1]]) = (mkSC [0; 0] [[0; 1]], ValueError) /\
  reorder [[1]] (mkSC [0; 0] [[0; 1]]) = (mkSC [0; 0] [[0; 1]], IndexError).
Proof. vm_compute. split; reflexivity. Qed.

(* ---------- POSCAR with an element-name line ---------- *)
(* without a name line the blocks are numbered in the supercell's own order: the plain reader is the named reader
   with chemident = 0, 1, 2, ... *)
Lemma poscar_read_named_default g content s :
  poscar_read_named g (zrange (length content)) content s = poscar_read g content s.
Proof. reflexivity. Qed.

(* blocks in a permuted order and absent species left out: an instance *)
Example ex_named_read :
  poscar_read_named (guard_declared 3) [2; 0] [[3; 1]; [0]] (init_sc 4 3) = (mkSC [0; 2; -1; 2] [[0]; []; [3; 1]], OK) /\
  poscar_read_named (guard_declared 3) [1; 0; 2] [[2]; [0]; [3; 1]] (mkSC [1; 1; -1; -1] [[]; [0; 1]; []])
    = (mkSC [0; 2; 1; 2] [[0]; [2]; [3; 1]], OK).
Proof. vm_compute. split; reflexivity. Qed.
