From Coq Require Import List ZArith Bool Lia.
From Onsager Require Import Model.Supercell.
Import ListNotations.
Local Open Scope Z_scope.

(* placeholder, extended below *)
Lemma guard_source_accepts_m2 : forall cn, 0 <= cn -> guard_source cn (-2) = false.
Proof. intros cn H. unfold guard_source. destruct (cn <? -2) eqn:E; lia. Qed.
