(* Harmonic functions on a connected network are constant -- for every ordered commutative ring
   that is antisymmetric and has no zero divisors (Z, Qc, R, ...), every finite network. *)
From Coq Require Import List Arith Bool Lia Ring.
From Onsager Require Import Base.OrdRing Base.Instances Model.Net Model.Harmonic Proofs.Net_proofs.
Import ListNotations.

Section HarmonicProofs.
Variable K : ordring.
Notation "0" := (r0 K). Notation "1" := (r1 K).
Infix "+" := (radd K). Infix "*" := (rmul K). Infix "-" := (rsub K).
Notation "- x" := (ropp K x).
Infix "<=" := (rle K).
Add Ring KringH : (r_ring K).

Hypothesis antisym : antisym_law K.
Hypothesis integral : integral_law K.

Lemma neg_nonpos (a : K) : 0 <= a -> - a <= 0.
Proof.
  intro H. replace (- a) with (0 + (- a)) by ring. replace 0 with (a + (- a)) at 2 by ring.
  apply rle_add. exact H.
Qed.

(* a sum of non-negative terms vanishes only if every term does *)
Lemma sum_nonneg_zero {A} (f : A -> K) l :
  (forall a, In a l -> 0 <= f a) -> sumf f l = 0 -> forall a, In a l -> f a = 0.
Proof.
  induction l as [|x l IH]; intros Hnn Hs a Ha; [destruct Ha|].
  cbn [sumf] in Hs.
  assert (Hx : 0 <= f x) by (apply Hnn; left; reflexivity).
  assert (Hl : 0 <= sumf f l) by (apply sumf_nonneg; intros b Hb; apply Hnn; right; exact Hb).
  assert (Ex : f x = 0).
  { apply antisym; [|exact Hx]. replace (f x) with (- sumf f l).
    - apply neg_nonpos; exact Hl.
    - replace (f x) with (f x + sumf f l - sumf f l) by ring. rewrite Hs. ring. }
  destruct Ha as [Ha|Ha]; [subst a; exact Ex|].
  apply IH; [intros b Hb; apply Hnn; right; exact Hb | | exact Ha].
  rewrite Ex in Hs. rewrite <- Hs. ring.
Qed.

Lemma energy_squares (N : net K) h :
  energy N h = sumf (fun e => cond e * (grad h e * grad h e)) N.
Proof. unfold energy, Bform. apply sumf_ext. intros e _. unfold flux, zerod. ring. Qed.

(* zero Dirichlet energy => constant on every connected component *)
Theorem energy_zero_const (N : net K) h :
  nonneg N -> energy N h = 0 -> forall x y, connected N x y -> h x = h y.
Proof.
  intros Hnn He.
  assert (Hedge : forall e, In e N -> cond e <> 0 -> h (dst e) = h (src e)).
  { intros e Hin Hc. rewrite energy_squares in He.
    pose proof (sum_nonneg_zero (fun e => cond e * (grad h e * grad h e)) N) as Z.
    assert (T : cond e * (grad h e * grad h e) = 0).
    { apply Z; [| exact He | exact Hin]. intros a Ha. apply rle_mul; [apply Hnn; exact Ha | apply rle_sq]. }
    destruct (integral _ _ T) as [T1|T1]; [contradiction|].
    destruct (integral _ _ T1) as [T2|T2]; unfold grad in T2;
      (replace (h (dst e)) with ((h (dst e) - h (src e)) + h (src e)) by ring; rewrite T2; ring). }
  intros x y Hc. induction Hc as [x | e z Hin Hne _ IH | e z Hin Hne _ IH].
  - reflexivity.
  - rewrite <- IH. symmetry. apply Hedge; assumption.
  - rewrite <- IH. apply Hedge; assumption.
Qed.

(* harmonic (Kirchhoff with zero displacement, weak form) => zero energy => constant *)
Theorem harmonic_const (N : net K) h :
  nonneg N -> weakKCL N zerod h -> forall x y, connected N x y -> h x = h y.
Proof.
  intros Hnn Hk. apply energy_zero_const; [exact Hnn|].
  unfold energy, Bform. rewrite <- (Hk h). apply sumf_ext. intros e _. unfold zerod. ring.
Qed.

(* per-site form: what "G solves the lattice equation with zero right-hand side" gives *)
Corollary harmonic_const_sites (N : net K) n h :
  wf N n -> nonneg N -> strongKCL N n zerod h -> forall x y, connected N x y -> h x = h y.
Proof. intros Hwf Hnn Hs. apply harmonic_const; [exact Hnn | eapply strong_weak; eassumption]. Qed.

End HarmonicProofs.

(* the two extra laws hold in the executable instances *)
From Coq Require Import ZArith QArith Qcanon.
Lemma Z_antisym : antisym_law Zring.
Proof. intros a b H1 H2. cbn in *. lia. Qed.
Lemma Z_integral : integral_law Zring.
Proof. intros a b H. cbn in *. nia. Qed.
Lemma Qc_antisym : antisym_law Qcring.
Proof. intros a b H1 H2. cbn in *. apply Qcle_antisym; assumption. Qed.
Lemma Qc_integral : integral_law Qcring.
Proof. intros a b H. cbn in *. apply Qcmult_integral. exact H. Qed.

(* non-vacuity: a path 0 - 1 - 2 over Z; a harmonic field on it is constant *)
Example path_connected :
  connected (K:=Zring) [mkEdge (K:=Zring) 0 1 2%Z []; mkEdge (K:=Zring) 2 1 3%Z []] 0 2.
Proof.
  apply (conn_fwd Zring _ (mkEdge (K:=Zring) 0 1 2%Z []) 2); [left; reflexivity | cbn; discriminate |].
  apply (conn_bwd Zring _ (mkEdge (K:=Zring) 2 1 3%Z []) 2); [right; left; reflexivity | cbn; discriminate |].
  apply conn_refl.
Qed.
