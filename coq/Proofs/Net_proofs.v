(* Theorems about Model/Net.v, for every ordered commutative ring, every finite
   network (any number of states / edges), every displacement field.          *)
From Coq Require Import List Arith Bool Lia Ring Permutation.
From Onsager Require Import Base.OrdRing Model.Net.
Import ListNotations.

Section NetProofs.
Variable K : ordring.
Notation "0" := (r0 K). Notation "1" := (r1 K).
Infix "+" := (radd K). Infix "*" := (rmul K). Infix "-" := (rsub K).
Notation "- x" := (ropp K x).
Infix "<=" := (rle K).
Add Ring Kring2 : (r_ring K).

Notation edge := (edge K).
Notation net := (net K).

Implicit Types (N : net) (e : edge) (d : edge -> K) (g h phi : nat -> K).

(* ---------------------------------------------------------------- Kirchhoff forms -- *)
Lemma KCLb_sound N n d g : KCLb N n d g = true -> strongKCL N n d g.
Proof.
  unfold KCLb, strongKCL. intros H x Hx.
  rewrite forallb_forall in H. apply (reqb_spec K). apply H. apply in_seq. lia.
Qed.

Lemma KCLb_complete N n d g : strongKCL N n d g -> KCLb N n d g = true.
Proof.
  unfold KCLb, strongKCL. intros H. apply forallb_forall. intros x Hx.
  apply (reqb_spec K). apply H. apply in_seq in Hx. lia.
Qed.

Lemma wfb_sound N n : wfb N n = true -> wf N n.
Proof.
  unfold wfb, wf. intros H e He. rewrite forallb_forall in H. specialize (H e He).
  apply andb_true_iff in H. destruct H as [H1 H2].
  apply Nat.ltb_lt in H1. apply Nat.ltb_lt in H2. split; assumption.
Qed.

Lemma nonnegb_sound N : nonnegb N = true -> nonneg N.
Proof.
  unfold nonnegb, nonneg. intros H e He. rewrite forallb_forall in H.
  apply (rleb_spec K). apply H. exact He.
Qed.

(* the pointwise (per state) Kirchhoff law implies the weak form against every test field *)
Theorem strong_weak N n d g : wf N n -> strongKCL N n d g -> weakKCL N d g.
Proof.
  intros Hwf Hs phi.
  transitivity (sumf (fun x => phi x * divg N d g x) (seq 0 n)).
  - unfold divg.
    transitivity (sumf (fun x => sumf (fun e => phi x * (flux d g e * (ind x (dst e) - ind x (src e)))) N) (seq 0 n)).
    + rewrite sumf_swap. apply sumf_ext. intros e He.
      destruct (Hwf e He) as [Hs1 Hd1].
      transitivity (flux d g e * (sumf (fun x => phi x * ind x (dst e)) (seq 0 n)
                                  - sumf (fun x => phi x * ind x (src e)) (seq 0 n))).
      * rewrite (sumf_ind_pick K phi (dst e) n Hd1), (sumf_ind_pick K phi (src e) n Hs1).
        unfold grad. ring.
      * rewrite <- sumf_sub. rewrite <- sumf_scal. apply sumf_ext. intros x _. ring.
    + apply sumf_ext. intros x _. rewrite sumf_scal. reflexivity.
  - transitivity (sumf (fun _ : nat => 0) (seq 0 n)).
    + apply sumf_ext. intros x Hx. apply in_seq in Hx. rewrite (Hs x) by lia. ring.
    + apply sumf_zero.
Qed.

Corollary KCLb_weak N n d g : wfb N n = true -> KCLb N n d g = true -> weakKCL N d g.
Proof. intros H1 H2. eapply strong_weak; [apply wfb_sound; exact H1 | apply KCLb_sound; exact H2]. Qed.

(* ---------------------------------------------------------------- Thomson / uniqueness *)
Lemma Bform_expand N d g h :
  Bform N d d h h = Bform N d d g g
                    + (1 + 1) * sumf (fun e => flux d g e * grad (fun x => h x - g x) e) N
                    + sumf (fun e => cond e * (grad (fun x => h x - g x) e * grad (fun x => h x - g x) e)) N.
Proof.
  unfold Bform. rewrite <- sumf_scal. rewrite <- !sumf_add. apply sumf_ext. intros e _.
  unfold flux, grad. ring.
Qed.

(* Thomson / Dirichlet principle: the corrector minimises the quadratic form *)
Theorem thomson N d g h : nonneg N -> weakKCL N d g -> Bform N d d g g <= Bform N d d h h.
Proof.
  intros Hc Hk. rewrite (Bform_expand N d g h). rewrite (Hk (fun x => h x - g x)).
  replace (Bform N d d g g + (1 + 1) * 0) with (Bform N d d g g) by ring.
  apply rle_add_nonneg. apply sumf_nonneg. intros e He.
  apply rle_mul; [apply Hc; exact He | apply rle_sq].
Qed.

Theorem L_psd N d g : nonneg N -> 0 <= Bform N d d g g.
Proof.
  intros Hc. unfold Bform. apply sumf_nonneg. intros e He. unfold flux.
  replace (cond e * (d e + grad g e) * (d e + grad g e))
    with (cond e * ((d e + grad g e) * (d e + grad g e))) by ring.
  apply rle_mul; [apply Hc; exact He | apply rle_sq].
Qed.

Theorem L_sym N dA dB gA gB : Bform N dA dB gA gB = Bform N dB dA gB gA.
Proof. unfold Bform. apply sumf_ext. intros e _. unfold flux. ring. Qed.

(* the value does not depend on which correctors are used (they are unique only up to
   constants on connected components) *)
Theorem L_welldef N dA dB gA gA' gB gB' :
  weakKCL N dA gA -> weakKCL N dB gB' ->
  Bform N dA dB gA gB = Bform N dA dB gA' gB'.
Proof.
  intros HA HB.
  assert (E1 : Bform N dA dB gA gB
               = Bform N dA dB gA gB' + sumf (fun e => flux dA gA e * grad (fun x => gB x - gB' x) e) N).
  { unfold Bform. rewrite <- sumf_add. apply sumf_ext. intros e _. unfold flux, grad. ring. }
  assert (E2 : Bform N dA dB gA gB'
               = Bform N dA dB gA' gB' + sumf (fun e => flux dB gB' e * grad (fun x => gA x - gA' x) e) N).
  { unfold Bform. rewrite <- sumf_add. apply sumf_ext. intros e _. unfold flux, grad. ring. }
  rewrite E1, HA, E2, HB. ring.
Qed.

(* the code's form  "uncorrelated part + bias . corrector" *)
Theorem L_bias_form N dA dB gA gB :
  weakKCL N dB gB ->
  Bform N dA dB gA gB = D0form N dA dB + sumf (fun e => cond e * dA e * grad gB e) N.
Proof.
  intros HB. unfold D0form.
  assert (E : Bform N dA dB gA gB
              = sumf (fun e => cond e * dA e * dB e) N + sumf (fun e => cond e * dA e * grad gB e) N
                + sumf (fun e => flux dB gB e * grad gA e) N).
  { unfold Bform. rewrite <- !sumf_add. apply sumf_ext. intros e _. unfold flux. ring. }
  rewrite E, HB. ring.
Qed.

(* sum_e cond dA (g(dst) - g(src)) = - sum_x bias_x g_x *)
Lemma bias_dot N n d g : wf N n ->
  sumf (fun e => cond e * d e * grad g e) N = - sumf (fun x => bias N d x * g x) (seq 0 n).
Proof.
  intros Hwf. unfold bias.
  transitivity (- sumf (fun x => sumf (fun e => g x * (cond e * d e * (ind x (src e) - ind x (dst e)))) N) (seq 0 n)).
  - rewrite sumf_swap.
    replace (- sumf (fun e => sumf (fun x => g x * (cond e * d e * (ind x (src e) - ind x (dst e)))) (seq 0 n)) N)
      with (sumf (fun e => - sumf (fun x => g x * (cond e * d e * (ind x (src e) - ind x (dst e)))) (seq 0 n)) N).
    + apply sumf_ext. intros e He. destruct (Hwf e He) as [Hs Hd].
      transitivity (cond e * d e * (sumf (fun x => g x * ind x (dst e)) (seq 0 n)
                                    - sumf (fun x => g x * ind x (src e)) (seq 0 n))).
      * rewrite (sumf_ind_pick K g (dst e) n Hd), (sumf_ind_pick K g (src e) n Hs). reflexivity.
      * rewrite <- sumf_sub.
        transitivity (sumf (fun x => (- (1)) * (g x * (cond e * d e * (ind x (src e) - ind x (dst e))))) (seq 0 n)).
        -- rewrite <- sumf_scal. apply sumf_ext. intros x _. ring.
        -- rewrite sumf_scal. ring.
    + transitivity (sumf (fun e => (- (1)) * sumf (fun x => g x * (cond e * d e * (ind x (src e) - ind x (dst e)))) (seq 0 n)) N).
      * apply sumf_ext. intros e _. ring.
      * rewrite sumf_scal. ring.
  - f_equal. apply sumf_ext. intros x _. rewrite sumf_scal. ring.
Qed.

(* ---------------------------------------------------------------- linearity ---------- *)
Lemma weak_add N dA dB gA gB a b :
  weakKCL N dA gA -> weakKCL N dB gB ->
  weakKCL N (fun e => a * dA e + b * dB e) (fun x => a * gA x + b * gB x).
Proof.
  intros HA HB phi.
  transitivity (a * sumf (fun e => flux dA gA e * grad phi e) N + b * sumf (fun e => flux dB gB e * grad phi e) N).
  - rewrite <- !sumf_scal. rewrite <- sumf_add. apply sumf_ext. intros e _. unfold flux, grad. ring.
  - rewrite HA, HB. ring.
Qed.

Lemma Bform_bilin N dA dB dC gA gB gC a b :
  Bform N (fun e => a * dA e + b * dB e) dC (fun x => a * gA x + b * gB x) gC
  = a * Bform N dA dC gA gC + b * Bform N dB dC gB gC.
Proof.
  unfold Bform. rewrite <- !sumf_scal. rewrite <- sumf_add. apply sumf_ext. intros e _.
  unfold flux, grad. ring.
Qed.

(* 2x2 block of the tensor: n.L.n >= 0 for every direction (a,b) in the plane of two
   displacement components; the general statement is L_psd applied to the contracted
   displacement a*dA+b*dB, whose corrector is a*gA+b*gB (weak_add) *)
Theorem L_psd_tensor N dA dB gA gB a b :
  nonneg N -> weakKCL N dA gA -> weakKCL N dB gB ->
  0 <= a * a * Bform N dA dA gA gA + (1 + 1) * a * b * Bform N dA dB gA gB + b * b * Bform N dB dB gB gB.
Proof.
  intros Hc HA HB.
  pose proof (L_psd N (fun e => a * dA e + b * dB e) (fun x => a * gA x + b * gB x) Hc) as P.
  rewrite Bform_bilin in P.
  rewrite (L_sym N dA (fun e => a * dA e + b * dB e)) in P.
  rewrite (L_sym N dB (fun e => a * dA e + b * dB e)) in P.
  rewrite !Bform_bilin in P.
  rewrite (L_sym N dB dA gB gA) in P.
  replace (a * a * Bform N dA dA gA gA + (1 + 1) * a * b * Bform N dA dB gA gB + b * b * Bform N dB dB gB gB)
    with (a * (a * Bform N dA dA gA gA + b * Bform N dA dB gA gB)
          + b * (a * Bform N dA dB gA gB + b * Bform N dB dB gB gB)) by ring.
  exact P.
Qed.

(* ---------------------------------------------------------------- Rayleigh ----------- *)
(* displacement fields that only look at the stored displacement of the edge *)
Definition geometric d : Prop := forall e e', dsp e = dsp e' -> d e = d e'.

Lemma comp_geometric k : geometric (comp k).
Proof. intros e e' H. unfold comp. rewrite H. reflexivity. Qed.

Lemma dominated_nonneg N N' : dominated N N' -> nonneg N -> nonneg N'.
Proof.
  induction 1 as [| e e' M M' Hs Hd Hp Hc HM IH]; intros Hn x Hx.
  - destruct Hx.
  - destruct Hx as [Hx|Hx].
    + subst x. apply rle_trans with (cond e); [apply Hn; left; reflexivity | exact Hc].
    + apply IH; [intros y Hy; apply Hn; right; exact Hy | exact Hx].
Qed.

Lemma dominated_Bform_le N N' d g : geometric d -> dominated N N' ->
  Bform N d d g g <= Bform N' d d g g.
Proof.
  intros Hg. induction 1 as [| e e' M M' Hs Hd Hp Hc HM IH]; unfold Bform; cbn [sumf].
  - apply rle_refl.
  - apply rle_add2; [| exact IH].
    unfold flux, grad. rewrite Hs, Hd, (Hg e e' Hp).
    set (u := d e' + (g (dst e') - g (src e'))).
    replace (cond e * u * u) with ((u * u) * cond e) by ring.
    replace (cond e' * u * u) with ((u * u) * cond e') by ring.
    apply rle_mul_mono; [apply rle_sq | exact Hc].
Qed.

(* raising any conductances (same topology, same displacements) never lowers L *)
Theorem rayleigh N N' d g g' :
  geometric d -> nonneg N -> dominated N N' ->
  weakKCL N d g -> weakKCL N' d g' ->
  Bform N d d g g <= Bform N' d d g' g'.
Proof.
  intros Hg Hn Hdom Hk Hk'.
  apply rle_trans with (Bform N d d g' g').
  - apply thomson; assumption.
  - apply dominated_Bform_le; assumption.
Qed.

Lemma dominatedb_sound N N' : dominatedb N N' = true -> dominated N N'.
Proof.
  revert N'. induction N as [|e M IH]; intros [|e' M']; cbn [dominatedb]; intro H; try discriminate.
  - constructor.
  - repeat (apply andb_true_iff in H; destruct H as [H ?]).
    match goal with
    | H1 : Nat.eqb (src e) (src e') = true, H2 : Nat.eqb (dst e) (dst e') = true,
      H3 : rleb K _ _ = true, H4 : dominatedb M M' = true |- _ =>
        apply Nat.eqb_eq in H1; apply Nat.eqb_eq in H2; apply (rleb_spec K) in H3;
        constructor; [exact H1 | exact H2 | | exact H3 | apply IH; exact H4]
    end.
    match goal with H5 : _ (dsp e) (dsp e') = true |- _ => revert H5 end.
    generalize (dsp e) (dsp e'). induction l as [|x a IHa]; intros [|y b]; intro H5; try discriminate; [reflexivity|].
    apply andb_true_iff in H5. destruct H5 as [H5 H6]. apply (reqb_spec K) in H5. subst y.
    f_equal. apply IHa. exact H6.
Qed.

(* ---------------------------------------------------------------- scaling ------------ *)
Theorem scale_KCL N lam d g : geometric d -> weakKCL N d g -> weakKCL (scale_net lam N) d g.
Proof.
  intros Hg Hk phi. unfold scale_net. rewrite sumf_map.
  transitivity (lam * sumf (fun e => flux d g e * grad phi e) N).
  - rewrite <- sumf_scal. apply sumf_ext. intros e _. unfold flux, grad; cbn [src dst cond].
    rewrite (Hg (mkEdge (src e) (dst e) (lam * cond e) (dsp e)) e) by reflexivity. ring.
  - rewrite Hk. ring.
Qed.

Theorem L_scale N lam dA dB gA gB : geometric dA -> geometric dB ->
  Bform (scale_net lam N) dA dB gA gB = lam * Bform N dA dB gA gB.
Proof.
  intros HA HB. unfold Bform, scale_net. rewrite sumf_map. rewrite <- sumf_scal.
  apply sumf_ext. intros e _. unfold flux, grad; cbn [src dst cond].
  rewrite (HA (mkEdge (src e) (dst e) (lam * cond e) (dsp e)) e) by reflexivity.
  rewrite (HB (mkEdge (src e) (dst e) (lam * cond e) (dsp e)) e) by reflexivity. ring.
Qed.

(* ---------------------------------------------------------------- gauge -------------- *)
(* moving the sites inside the cell by p changes every displacement by p(dst)-p(src);
   the corrector shifts by -p and L is unchanged *)
Theorem gauge_KCL N d g p :
  weakKCL N d g -> weakKCL N (fun e => d e + (p (dst e) - p (src e))) (fun x => g x - p x).
Proof.
  intros Hk phi. rewrite <- (Hk phi). apply sumf_ext. intros e _. unfold flux, grad. ring.
Qed.

Theorem L_gauge N dA dB gA gB pA pB :
  Bform N (fun e => dA e + (pA (dst e) - pA (src e))) (fun e => dB e + (pB (dst e) - pB (src e)))
          (fun x => gA x - pA x) (fun x => gB x - pB x)
  = Bform N dA dB gA gB.
Proof. unfold Bform. apply sumf_ext. intros e _. unfold flux, grad. ring. Qed.

(* ---------------------------------------------------------------- relabelling -------- *)
Theorem relabel_Bform N p dA dB gA gB : geometric dA -> geometric dB ->
  Bform (relabel p N) dA dB gA gB = Bform N dA dB (fun x => gA (p x)) (fun x => gB (p x)).
Proof.
  intros HA HB. unfold Bform, relabel. rewrite sumf_map. apply sumf_ext. intros e _.
  unfold flux, grad; cbn [src dst cond].
  rewrite (HA (mkEdge (p (src e)) (p (dst e)) (cond e) (dsp e)) e) by reflexivity.
  rewrite (HB (mkEdge (p (src e)) (p (dst e)) (cond e) (dsp e)) e) by reflexivity. ring.
Qed.

Theorem perm_Bform N N' dA dB gA gB : Permutation N N' -> Bform N dA dB gA gB = Bform N' dA dB gA gB.
Proof. intros H. unfold Bform. apply sumf_perm. exact H. Qed.

Theorem perm_KCL N N' d g : Permutation N N' -> weakKCL N d g -> weakKCL N' d g.
Proof. intros H Hk phi. rewrite <- (Hk phi). symmetry. apply sumf_perm. exact H. Qed.

(* a bijective relabelling of the states carries correctors to correctors *)
Theorem relabel_KCL N p q d g : geometric d -> (forall x, q (p x) = x) ->
  weakKCL N d g -> weakKCL (relabel p N) d (fun y => g (q y)).
Proof.
  intros Hg Hq Hk phi. unfold relabel. rewrite sumf_map.
  rewrite <- (Hk (fun x => phi (p x))). apply sumf_ext. intros e _.
  unfold flux, grad; cbn [src dst cond]. rewrite !Hq.
  rewrite (Hg (mkEdge (p (src e)) (p (dst e)) (cond e) (dsp e)) e) by reflexivity. ring.
Qed.

End NetProofs.
