(* Proofs about Model/Jumps.v (C21). All statements hold for every crystal (metric, scale,
   positions, any number of species and sites), every cutoff, every list of operations. *)
From Coq Require Import ZArith List Bool Lia ZifyBool Arith.
From Onsager Require Import Model.Geom3 Model.Jumps Proofs.Geom3_proofs.
Import ListNotations.
Local Open Scope Z_scope.

(* ---- equality tests -------------------------------------------------------------- *)
Lemma jeqb_eq x y : jeqb x y = true <-> x = y.
Proof.
  destruct x as [[i j] R], y as [[i' j'] R']. unfold jeqb, ji, jj, jR; cbn [fst snd]. split.
  - intro H. apply andb_true_iff in H as [H H3]. apply andb_true_iff in H as [H1 H2].
    apply Nat.eqb_eq in H1, H2. apply veqb_eq in H3. subst. reflexivity.
  - intro H. inversion H; subst. rewrite !Nat.eqb_refl. cbn. apply veqb_eq. reflexivity.
Qed.

Lemma mem_In x l : mem x l = true <-> In x l.
Proof.
  unfold mem. rewrite existsb_exists. split.
  - intros (y & Hy & E). apply jeqb_eq in E. subst. exact Hy.
  - intro H. exists x. split; [exact H | apply jeqb_eq; reflexivity].
Qed.

Lemma mem_false x l : mem x l = false <-> ~ In x l.
Proof. rewrite <- mem_In. destruct (mem x l); split; congruence. Qed.

Lemma nodupb_NoDup l : nodupb l = true -> NoDup l.
Proof.
  induction l as [|x l IH]; cbn [nodupb]; intro H; [constructor|].
  apply andb_true_iff in H as [H1 H2]. constructor.
  - apply mem_false. destruct (mem x l); [discriminate | reflexivity].
  - apply IH; exact H2.
Qed.

Lemma subsetb_incl a b : subsetb a b = true <-> incl a b.
Proof.
  unfold subsetb, incl. rewrite forallb_forall. split; intros H x Hx; apply mem_In, H, Hx.
Qed.

Lemma jlist_eqb_eq a b : jlist_eqb a b = true -> a = b.
Proof.
  revert b. induction a as [|x a IH]; intros [|y b] H; cbn [jlist_eqb] in H; try discriminate; [reflexivity|].
  apply andb_true_iff in H as [H1 H2]. apply jeqb_eq in H1. subst. f_equal. apply IH; exact H2.
Qed.

Lemma classes_eqb_eq a b : classes_eqb a b = true -> a = b.
Proof.
  revert b. induction a as [|x a IH]; intros [|y b] H; cbn [classes_eqb] in H; try discriminate; [reflexivity|].
  apply andb_true_iff in H as [H1 H2]. apply jlist_eqb_eq in H1. subst. f_equal. apply IH; exact H2.
Qed.

(* ---- enumeration: sound, complete within the box, duplicate free -------------------- *)
Lemma candidates_In cr chem nmax x :
  In x (candidates cr chem nmax) <->
  (ji x < nsites cr chem)%nat /\ (jj x < nsites cr chem)%nat /\ In (jR x) (box nmax).
Proof.
  destruct x as [[i j] R]. unfold candidates, ji, jj, jR; cbn [fst snd]. split.
  - intro H. apply in_prod_iff in H as [H H3]. apply in_prod_iff in H as [H1 H2].
    apply in_seq in H1, H2. repeat split; [lia | lia | exact H3].
  - intros (H1 & H2 & H3). apply in_prod_iff; split; [apply in_prod_iff; split; apply in_seq; lia | exact H3].
Qed.

Theorem jumps_spec cr chem c2 nmax obst onmax x :
  In x (jumps cr chem c2 nmax obst onmax) <->
  (ji x < nsites cr chem)%nat /\ (jj x < nsites cr chem)%nat /\ In (jR x) (box nmax) /\
  0 < len2 cr chem x < c2 /\ obstructedb cr chem obst onmax x = false.
Proof.
  unfold jumps. rewrite filter_In, candidates_In. unfold jumpb.
  destruct (obstructedb cr chem obst onmax x); cbn [negb]; split; intro H.
  - destruct H as (_ & H). rewrite andb_false_r in H. discriminate.
  - destruct H as (_ & _ & _ & _ & H). discriminate.
  - destruct H as ((H1 & H2 & H3) & H). repeat split; try assumption; lia.
  - destruct H as (H1 & H2 & H3 & H4 & _). split; [tauto | lia].
Qed.

Theorem jumps_nodup cr chem c2 nmax obst onmax : NoDup (jumps cr chem c2 nmax obst onmax).
Proof.
  unfold jumps. apply NoDup_filter. unfold candidates.
  apply NoDup_list_prod; [apply NoDup_list_prod; apply seq_NoDup | apply box_NoDup].
Qed.

(* ---- the box certificate --------------------------------------------------------- *)
Lemma spreadb_sound cr chem c spread a i :
  spreadb cr chem c spread = true -> (a < nsites cr c)%nat -> (i < nsites cr chem)%nat ->
  spread_okb spread (vsub (pos cr c a) (pos cr chem i)) = true.
Proof.
  unfold spreadb, pos, nsites. intros H Ha Hi.
  rewrite forallb_forall in H. specialize (H (nth a (sites cr c) vzero) (nth_In _ _ Ha)).
  rewrite forallb_forall in H. apply H. apply nth_In. exact Hi.
Qed.

Theorem range_ok_complete cr chem c2 nmax spread x :
  jump_range_okb cr chem c2 nmax spread = true ->
  (ji x < nsites cr chem)%nat -> (jj x < nsites cr chem)%nat -> len2 cr chem x < c2 ->
  In (jR x) (box nmax).
Proof.
  unfold jump_range_okb. intros H Hi Hj Hq.
  apply andb_true_iff in H as [H HR]. apply andb_true_iff in H as [HP HS].
  eapply range_ok_sound; [exact HP | exact HR | | exact Hq].
  apply spreadb_sound with (chem := chem); assumption.
Qed.

(* ---- obstruction: the boxed test decides the unbounded specification ----------------- *)
Lemma obst_boundb_sound chem obst n c2 c2o c num den :
  obst_boundb chem obst n c2 c2o = true -> (c < n)%nat -> obst_of chem obst c = Some (num, den) ->
  0 < den /\ num <= (c2o - c2) * den.
Proof.
  unfold obst_boundb. intros H Hc E. rewrite forallb_forall in H.
  specialize (H c). rewrite E in H. assert (In c (seq 0 n)) as I by (apply in_seq; lia).
  specialize (H I). lia.
Qed.

Lemma obstructs_near cr chem x c a n num den c2 c2o :
  posdefb (cG cr) = true -> 0 < den -> num <= (c2o - c2) * den ->
  0 < len2 cr chem x < c2 ->
  obstructs cr chem x c a n num den = true ->
  qf (cG cr) (relpos cr chem c a n (ji x)) < c2o.
Proof.
  intros HP Hden Hnum Hq H. unfold obstructs in H. unfold len2 in Hq.
  set (dx := disp cr chem x) in *. set (xa := relpos cr chem c a n (ji x)) in *.
  set (t := bil (cG cr) xa dx) in *. set (d2 := qf (cG cr) dx) in *. set (qa := qf (cG cr) xa) in *.
  apply andb_true_iff in H as [H H3]. apply andb_true_iff in H as [H1 H2].
  apply Z.leb_le in H1, H2, H3.
  assert (T : t * t <= d2 * d2) by nia.
  assert (A : (qa * d2 - t * t) * den <= (c2o - c2) * den * d2) by nia.
  assert (B : qa * d2 - t * t <= (c2o - c2) * d2).
  { apply Z.mul_le_mono_pos_r with (p := den); [exact Hden|]. lia. }
  assert (C : qa * d2 <= (c2o - c2 + d2) * d2) by lia.
  assert (E : qa <= c2o - c2 + d2).
  { apply Z.mul_le_mono_pos_r with (p := d2); lia. }
  lia.
Qed.

Theorem obstructedb_iff cr chem obst c2 c2o onmax spread x :
  obst_range_okb cr chem obst c2 c2o onmax spread = true ->
  (ji x < nsites cr chem)%nat -> 0 < len2 cr chem x < c2 ->
  (obstructedb cr chem obst onmax x = true <-> obstructed cr chem obst x).
Proof.
  unfold obst_range_okb. intros H Hi Hq.
  apply andb_true_iff in H as [H HR]. apply andb_true_iff in H as [H HS]. apply andb_true_iff in H as [HP HB].
  unfold obstructedb, obstructed. rewrite existsb_exists. split.
  - intros (c & Hc & H). apply in_seq in Hc.
    destruct (obst_of chem obst c) as [[num den]|] eqn:E; [|discriminate].
    apply existsb_exists in H as (a & Ha & H). apply in_seq in Ha.
    apply existsb_exists in H as (n & Hn & H).
    exists c, a, n, num, den. repeat split; try assumption; lia.
  - intros (c & a & n & num & den & Hc & E & Ha & H).
    exists c. split; [apply in_seq; lia|]. rewrite E.
    apply existsb_exists. exists a. split; [apply in_seq; lia|].
    apply existsb_exists. exists n. split; [|exact H].
    destruct (obst_boundb_sound _ _ _ _ _ _ _ _ HB Hc E) as [Hden Hnum].
    pose proof (obstructs_near cr chem x c a n num den c2 c2o HP Hden Hnum Hq H) as Q.
    unfold relpos in Q.
    eapply range_ok_sound; [exact HP | exact HR | | exact Q].
    rewrite forallb_forall in HS. apply spreadb_sound with (chem := chem); [|exact Ha | exact Hi].
    apply HS. apply in_seq. lia.
Qed.

(* ---- completeness: the enumeration is exactly the specification ----------------------- *)
Theorem jumps_complete cr chem c2 nmax spread obst c2o onmax ospread x :
  jump_range_okb cr chem c2 nmax spread = true ->
  obst_range_okb cr chem obst c2 c2o onmax ospread = true ->
  (In x (jumps cr chem c2 nmax obst onmax) <-> is_jump cr chem c2 obst x).
Proof.
  intros HJ HO. rewrite jumps_spec. unfold is_jump. split.
  - intros (H1 & H2 & H3 & H4 & H5). repeat split; try assumption; try lia.
    intro Ob. apply (obstructedb_iff cr chem obst c2 c2o onmax ospread x HO H1 H4) in Ob. congruence.
  - intros (H1 & H2 & H4 & H5). repeat split; try assumption; try lia.
    + eapply range_ok_complete; eauto; lia.
    + destruct (obstructedb cr chem obst onmax x) eqn:E; [|reflexivity].
      exfalso. apply H5. apply (obstructedb_iff cr chem obst c2 c2o onmax ospread x HO H1 H4). exact E.
Qed.

(* ---- reversal and symmetry operations ------------------------------------------------ *)
Lemma vneg_invol v : vneg (vneg v) = v.
Proof. destruct v as [[a b] c]. unfold vneg, vx, vy, vz; cbn [fst snd]. rewrite !Z.opp_involutive. reflexivity. Qed.

Lemma rev_invol x : rev (rev x) = x.
Proof. destruct x as [[i j] R]. unfold rev, ji, jj, jR; cbn [fst snd]. rewrite vneg_invol. reflexivity. Qed.

Lemma disp_rev cr chem x : disp cr chem (rev x) = vneg (disp cr chem x).
Proof.
  destruct x as [[i j] R]. unfold disp, rev, ji, jj, jR; cbn [fst snd].
  destruct R as [[a b] c]. destruct (pos cr chem i) as [[a1 b1] c1], (pos cr chem j) as [[a2 b2] c2].
  unfold vadd, vscale, vsub, vneg, vx, vy, vz; cbn [fst snd]. f_equal; [f_equal|]; ring.
Qed.

Theorem rev_preserves_length cr chem x : len2 cr chem (rev x) = len2 cr chem x.
Proof. unfold len2. rewrite disp_rev. apply qf_neg. Qed.

Lemma op_okb_parts cr chem g : op_okb cr chem g = true ->
  isometryb (oS g) (cG cr) = true /\
  forall i, (i < nsites cr chem)%nat ->
    (pidx g i < nsites cr chem)%nat /\
    vadd (mulmv (oS g) (pos cr chem i)) (otr g) = vadd (pos cr chem (pidx g i)) (vscale (cD cr) (shft g i)).
Proof.
  unfold op_okb. intro H. apply andb_true_iff in H as [H HF]. apply andb_true_iff in H as [H _].
  apply andb_true_iff in H as [HI _]. split; [exact HI|].
  intros i Hi. rewrite forallb_forall in HF. specialize (HF i).
  assert (In i (seq 0 (nsites cr chem))) as I by (apply in_seq; lia). specialize (HF I).
  apply andb_true_iff in HF as [H1 H2]. apply veqb_eq in H2. split; [apply Nat.ltb_lt; exact H1 | exact H2].
Qed.

Lemma act_disp cr chem g x : op_okb cr chem g = true ->
  (ji x < nsites cr chem)%nat -> (jj x < nsites cr chem)%nat ->
  disp cr chem (act g x) = mulmv (oS g) (disp cr chem x).
Proof.
  intros H Hi Hj. destruct (op_okb_parts cr chem g H) as [_ HP].
  destruct (HP _ Hi) as [_ Ei]. destruct (HP _ Hj) as [_ Ej].
  destruct x as [[i j] R]. unfold disp, act, ji, jj, jR in *; cbn [fst snd] in *.
  rewrite mulmv_add, mulmv_scale, mulmv_sub.
  set (Spi := mulmv (oS g) (pos cr chem i)) in *. set (Spj := mulmv (oS g) (pos cr chem j)) in *.
  set (SR := mulmv (oS g) R). set (qi := pos cr chem (pidx g i)) in *. set (qj := pos cr chem (pidx g j)) in *.
  set (si := shft g i) in *. set (sj := shft g j) in *. set (t := otr g) in *. set (D := cD cr) in *.
  destruct Spi as [[a1 b1] c1], Spj as [[a2 b2] c2], SR as [[a3 b3] c3], qi as [[a4 b4] c4], qj as [[a5 b5] c5],
    si as [[a6 b6] c6], sj as [[a7 b7] c7], t as [[a8 b8] c8].
  unfold vadd, vsub, vscale, vx, vy, vz in *; cbn [fst snd] in *.
  inversion Ei; inversion Ej. f_equal; [f_equal|]; lia.
Qed.

Theorem act_preserves_length cr chem g x : op_okb cr chem g = true ->
  (ji x < nsites cr chem)%nat -> (jj x < nsites cr chem)%nat ->
  len2 cr chem (act g x) = len2 cr chem x /\
  (ji (act g x) < nsites cr chem)%nat /\ (jj (act g x) < nsites cr chem)%nat.
Proof.
  intros H Hi Hj. destruct (op_okb_parts cr chem g H) as [HI HP]. split.
  - unfold len2. rewrite (act_disp cr chem g x H Hi Hj). apply isometry_qf. exact HI.
  - destruct x as [[i j] R]. unfold act, ji, jj in *; cbn [fst snd] in *.
    split; [apply (HP i Hi) | apply (HP j Hj)].
Qed.

(* ---- the model's class partition is closed under reversal ----------------------------- *)
Definition rev_closed (l : list jmp) : Prop := forall y, In y l -> In (rev y) l.

Lemma orbit_step_rev acc y : rev_closed acc -> rev_closed (orbit_step acc y).
Proof.
  unfold orbit_step. intro H. destruct (mem y acc); [exact H|].
  intros z Hz. apply in_app_or in Hz as [Hz|Hz]; apply in_or_app.
  - left; apply H; exact Hz.
  - right. destruct Hz as [Hz|[Hz|[]]]; subst z; [right; left; reflexivity | left; symmetry; apply rev_invol].
Qed.

Lemma orbit_step_incl acc y : incl acc (orbit_step acc y) /\ In y (orbit_step acc y).
Proof.
  unfold orbit_step. destruct (mem y acc) eqn:E.
  - split; [apply incl_refl | apply mem_In; exact E].
  - split; [apply incl_appl, incl_refl | apply in_or_app; right; left; reflexivity].
Qed.

Lemma orbit_fold_rev ops x acc : rev_closed acc ->
  rev_closed (fold_left (fun acc g => orbit_step acc (act g x)) ops acc).
Proof.
  revert acc. induction ops as [|g ops IH]; intros acc H; cbn [fold_left]; [exact H|].
  apply IH. apply orbit_step_rev. exact H.
Qed.

Lemma orbit_fold_incl ops x acc :
  incl acc (fold_left (fun acc g => orbit_step acc (act g x)) ops acc) /\
  forall g, In g ops -> In (act g x) (fold_left (fun acc g => orbit_step acc (act g x)) ops acc).
Proof.
  revert acc. induction ops as [|g ops IH]; intros acc; cbn [fold_left].
  - split; [apply incl_refl | intros g []].
  - destruct (IH (orbit_step acc (act g x))) as [I1 I2].
    destruct (orbit_step_incl acc (act g x)) as [J1 J2]. split.
    + eapply incl_tran; eauto.
    + intros h [E|Hh]; [subst h; apply I1; exact J2 | apply I2; exact Hh].
Qed.

Theorem orbit_rev_closed ops x : rev_closed (orbit ops x).
Proof. unfold orbit. apply orbit_fold_rev. intros y []. Qed.

Theorem orbit_contains ops x g : In g ops -> In (act g x) (orbit ops x) /\ In (rev (act g x)) (orbit ops x).
Proof.
  intro H. assert (I : In (act g x) (orbit ops x)) by (apply (orbit_fold_incl ops x []); exact H).
  split; [exact I | apply orbit_rev_closed; exact I].
Qed.

Lemma classes_fold_rev ops js cls :
  (forall C, In C cls -> rev_closed C) ->
  forall C, In C (fold_left (classes_step ops) js cls) -> rev_closed C.
Proof.
  revert cls. induction js as [|x js IH]; intros cls H; cbn [fold_left]; [exact H|].
  apply IH. unfold classes_step. destruct (existsb (mem x) cls); [exact H|].
  intros C HC. apply in_app_or in HC as [HC|[HC|[]]]; [apply H; exact HC | subst C; apply orbit_rev_closed].
Qed.

Theorem classes_rev_closed ops js : forall C, In C (classes ops js) -> forall y, In y C -> In (rev y) C.
Proof. intros C HC. apply (classes_fold_rev ops js [] (fun C (F : In C []) => match F with end) C HC). Qed.

Lemma classes_fold_cover ops js cls :
  (forall x, In x js -> exists g, In g ops /\ act g x = x) ->
  (forall C, In C cls -> In C (fold_left (classes_step ops) js cls)) /\
  forall x, In x js -> exists C, In C (fold_left (classes_step ops) js cls) /\ In x C.
Proof.
  revert cls. induction js as [|x js IH]; intros cls Hid; cbn [fold_left].
  - split; [tauto | intros x []].
  - assert (Hid' : forall y, In y js -> exists g, In g ops /\ act g y = y) by (intros y Hy; apply Hid; right; exact Hy).
    destruct (IH (classes_step ops cls x) Hid') as [K1 K2]. split.
    + intros C HC. apply K1. unfold classes_step. destruct (existsb (mem x) cls); [exact HC | apply in_or_app; left; exact HC].
    + intros y [E|Hy]; [subst y | apply K2; exact Hy].
      unfold classes_step in *. destruct (existsb (mem x) cls) eqn:E.
      * apply existsb_exists in E as (C & HC & M). exists C. split; [apply K1; exact HC | apply mem_In; exact M].
      * exists (orbit ops x). split; [apply K1; apply in_or_app; right; left; reflexivity|].
        destruct (Hid x (or_introl eq_refl)) as (g & Hg & Eg). rewrite <- Eg at 1. apply orbit_contains. exact Hg.
Qed.

Theorem classes_cover ops js :
  (forall x, In x js -> exists g, In g ops /\ act g x = x) ->
  forall x, In x js -> exists C, In C (classes ops js) /\ In x C.
Proof. intro H. apply (classes_fold_cover ops js [] H). Qed.

(* ---- the closure checker ----------------------------------------------------------- *)
Theorem classes_closedb_sound ops cls : classes_closedb ops cls = true ->
  forall C, In C cls -> forall y, In y C -> In (rev y) C /\ forall g, In g ops -> In (act g y) C.
Proof.
  unfold classes_closedb. intros H C HC y Hy.
  rewrite forallb_forall in H. specialize (H C HC). rewrite forallb_forall in H. specialize (H y Hy).
  apply andb_true_iff in H as [H1 H2]. split; [apply mem_In; exact H1|].
  intros g Hg. rewrite forallb_forall in H2. apply mem_In. apply H2. exact Hg.
Qed.

(* ---- lattice form: (i,j,R) and (i,j,dx) determine each other ------------------------- *)
Theorem lattice_form_injective cr chem i j R R' :
  cD cr <> 0 -> disp cr chem (i, j, R) = disp cr chem (i, j, R') -> R = R'.
Proof.
  intros HD H. unfold disp, ji, jj, jR in H; cbn [fst snd] in H.
  destruct R as [[a b] c], R' as [[a' b'] c']. destruct (vsub (pos cr chem j) (pos cr chem i)) as [[u v] w].
  unfold vadd, vscale, vx, vy, vz in H; cbn [fst snd] in H. inversion H.
  f_equal; [f_equal|]; nia.
Qed.

(* ---- the correspondence decision is sound ------------------------------------------- *)
Theorem check_network_sound k : check_network k = 0%nat ->
  let cr := k_cr k in let chem := k_chem k in let flat := concat (k_impl k) in
  NoDup flat /\
  (forall x, In x flat <-> is_jump cr chem (k_c2 k) (k_obst k) x) /\
  (forall C, In C (k_impl k) -> forall y, In y C ->
      In (rev y) C /\ forall g, In g (k_ops k) -> In (act g y) C) /\
  (forall g x, In g (k_ops k) -> (ji x < nsites cr chem)%nat -> (jj x < nsites cr chem)%nat ->
      len2 cr chem (act g x) = len2 cr chem x) /\
  k_latt k = k_impl k.
Proof.
  unfold check_network. intro H.
  destruct (jump_range_okb (k_cr k) (k_chem k) (k_c2 k) (k_nmax k) (k_spread k)
            && obst_range_okb (k_cr k) (k_chem k) (k_obst k) (k_c2 k) (k_c2o k) (k_onmax k) (k_ospread k)
            && forallb (op_okb (k_cr k) (k_chem k)) (k_ops k)) eqn:E1; cbn [negb] in H; [|discriminate].
  destruct (nodupb (concat (k_impl k))) eqn:E2; cbn [negb] in H; [|discriminate].
  match type of H with (if negb ?b then _ else _) = _ => destruct b eqn:E3 end; cbn [negb] in H; [|discriminate].
  destruct (subsetb (model_jumps k) (concat (k_impl k))) eqn:E4; cbn [negb] in H; [|discriminate].
  destruct (classes_closedb (k_ops k) (k_impl k)) eqn:E5; cbn [negb] in H; [|discriminate].
  destruct (classes_eqb (k_impl k) (k_latt k)) eqn:E6; cbn [negb] in H; [|discriminate].
  apply andb_true_iff in E1 as [E1 HOps]. apply andb_true_iff in E1 as [HJ HO].
  cbv zeta. split; [apply nodupb_NoDup; exact E2|]. split; [|split; [|split]].
  - intro x. split.
    + intro Hx. rewrite forallb_forall in E3. specialize (E3 x Hx).
      apply andb_true_iff in E3 as [E3 J]. apply andb_true_iff in E3 as [I1 I2].
      apply Nat.ltb_lt in I1, I2.
      unfold jumpb in J. apply andb_true_iff in J as [J J3]. apply andb_true_iff in J as [J1 J2].
      unfold is_jump. repeat split; try assumption; try lia.
      intro Ob.
      assert (Q : 0 < len2 (k_cr k) (k_chem k) x < k_c2 k) by lia.
      apply (obstructedb_iff _ _ _ _ _ _ _ x HO I1 Q) in Ob. rewrite Ob in J3. discriminate.
    + intro Hx. apply subsetb_incl in E4. apply E4. unfold model_jumps.
      apply (jumps_complete _ _ _ _ _ _ _ _ _ x HJ HO). exact Hx.
  - apply classes_closedb_sound. exact E5.
  - intros g x Hg Hi Hj. rewrite forallb_forall in HOps.
    apply (act_preserves_length _ _ g x (HOps g Hg) Hi Hj).
  - symmetry. apply classes_eqb_eq. exact E6.
Qed.

(* ---- non-vacuity: square lattice, one site, cutoff^2 = 2 (first shell) --------------- *)
Example sq : crystal := mkCrystal (mkMetric 1 1 2 0 0 0) 1 [[(0, 0, 0)]].
Example sq_c4 : op := mkOp ((0, -1, 0), (1, 0, 0), (0, 0, 1)) (0, 0, 0) [0%nat] [(0, 0, 0)].
Example sq_id : op := mkOp ((1, 0, 0), (0, 1, 0), (0, 0, 1)) (0, 0, 0) [0%nat] [(0, 0, 0)].
Example sq_case : netcase :=
  mkCase sq 0 2 (1, 1, 0) (0, 0, 0) [None] 2 (1, 1, 0) (0, 0, 0) [sq_id; sq_c4]
         [[(0%nat, 0%nat, (1, 0, 0)); (0%nat, 0%nat, (-1, 0, 0)); (0%nat, 0%nat, (0, 1, 0)); (0%nat, 0%nat, (0, -1, 0))]]
         [[(0%nat, 0%nat, (1, 0, 0)); (0%nat, 0%nat, (-1, 0, 0)); (0%nat, 0%nat, (0, 1, 0)); (0%nat, 0%nat, (0, -1, 0))]].
Example sq_ok : check_network sq_case = 0%nat. Proof. vm_compute. reflexivity. Qed.
Example sq_jumps : length (model_jumps sq_case) = 4%nat. Proof. vm_compute. reflexivity. Qed.
Example sq_classes : classes [sq_id; sq_c4] (model_jumps sq_case) = [[(0%nat, 0%nat, (-1, 0, 0)); (0%nat, 0%nat, (1, 0, 0)); (0%nat, 0%nat, (0, -1, 0)); (0%nat, 0%nat, (0, 1, 0))]].
Proof. vm_compute. reflexivity. Qed.
(* obstruction: B2-like cell, species 1 at the cell centre blocks the <110>... here the diagonal of the square *)
Example sqb : crystal := mkCrystal (mkMetric 4 4 4 0 0 0) 2 [[(0, 0, 0)]; [(1, 1, 0)]].
Example sqb_diag_blocked :
  obstructedb sqb 0 [None; Some (0, 1)] (2, 2, 0) (0%nat, 0%nat, (1, 1, 0)) = true /\
  obstructedb sqb 0 [None; Some (0, 1)] (2, 2, 0) (0%nat, 0%nat, (1, 0, 0)) = false.
Proof. vm_compute. split; reflexivity. Qed.
