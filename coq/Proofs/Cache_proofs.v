(* C14: history independence of the cache state machine (Model/Cache.v).
   C14_history  : if every returned array is Fresh, every Lij of every history returns `pure`.
   C14_refuted  : with the first returned array aliasing cached slot 1 (the current source:
                  L0vv IS Lvvvalues[vTK]) the history [Lij k; Mutate 0 0 v; Lij k] returns v. *)
From Coq Require Import List Arith Bool Lia.
From Onsager Require Import Model.Cache.
Import ListNotations.

Section CacheProofs.
Variable V : Type.
Variable dV : V.
Variables key ckey cfg : Type.
Variable ck : key -> ckey.
Variable ckeqb : ckey -> ckey -> bool.
Variable cfgeqb : cfg -> cfg -> bool.
Variable comp_cache : cfg -> ckey -> list V.
Variable comp_result : cfg -> key -> list V -> list V.
Variable rmode : list mode.
Variable smode : list bool.

Hypothesis ckeqb_sound : forall a b, ckeqb a b = true -> a = b.
Hypothesis cfgeqb_sound : forall a b, cfgeqb a b = true -> a = b.

Notation state := (state V ckey cfg).
Notation read := (read V dV).
Notation upd := (upd V dV).
Notation step := (step V dV key ckey cfg ck ckeqb cfgeqb comp_cache comp_result rmode smode).
Notation run := (run V dV key ckey cfg ck ckeqb cfgeqb comp_cache comp_result rmode smode).
Notation store := (store V dV).
Notation pure := (pure V dV key ckey cfg ck comp_cache comp_result rmode).
Notation build := (build V dV).
Notation reload := (reload V dV ckey).
Notation lookup := (lookup ckey ckeqb).

(* ---------- heap lemmas ---------- *)
Lemma read_app h t cells : Forall (fun x => x < length h) cells -> read (h ++ t) cells = read h cells.
Proof.
  intro F. unfold Cache.read. apply map_ext_in. intros c Hc. rewrite Forall_forall in F.
  apply app_nth1. apply F; exact Hc.
Qed.

Lemma read_alloc h vs : read (h ++ vs) (seq (length h) (length vs)) = vs.
Proof.
  revert h. induction vs as [|v vs IH]; intro h; [reflexivity|].
  cbn [length seq]. unfold Cache.read. cbn [map]. f_equal.
  - apply nth_middle.
  - replace (h ++ v :: vs) with ((h ++ [v]) ++ vs) by (rewrite <- app_assoc; reflexivity).
    replace (S (length h)) with (length (h ++ [v])) by (rewrite app_length; cbn; lia).
    apply IH.
Qed.

Lemma nth_map_seq {A} (f : nat -> A) n i d : i < n -> nth i (map f (seq 0 n)) d = f i.
Proof.
  intro Hi. rewrite (nth_indep _ d (f 0)) by (rewrite map_length, seq_length; exact Hi).
  rewrite (map_nth f (seq 0 n) 0 i). rewrite seq_nth by exact Hi. reflexivity.
Qed.

Lemma length_upd h r v : length (upd h r v) = length h.
Proof. unfold Cache.upd. rewrite map_length, seq_length. reflexivity. Qed.

Lemma nth_upd h r v i : i < length h -> nth i (upd h r v) dV = if Nat.eqb i r then v else nth i h dV.
Proof. intro Hi. unfold Cache.upd. rewrite nth_map_seq by exact Hi. reflexivity. Qed.

Lemma read_upd_other h r v cells :
  Forall (fun x => x < length h) cells -> ~ In r cells -> read (upd h r v) cells = read h cells.
Proof.
  intros F N. unfold Cache.read. apply map_ext_in. intros c Hc. rewrite Forall_forall in F.
  rewrite nth_upd by (apply F; exact Hc).
  destruct (Nat.eqb_spec c r) as [->|]; [contradiction | reflexivity].
Qed.

Lemma lookup_In c l cells : lookup c l = Some cells -> In (c, cells) l.
Proof.
  induction l as [|[c' cells'] l IH]; cbn; [discriminate|].
  destruct (ckeqb c' c) eqn:E.
  - intro X; injection X as ->. apply ckeqb_sound in E. subst. left; reflexivity.
  - intro X. right. apply IH; exact X.
Qed.

Definition is_fresh (m : mode) : bool := match m with Fresh => true | Alias _ => false end.

Lemma build_fresh rm i res cells h : forallb is_fresh rm = true ->
  build rm i res cells h = (h ++ map (fun j => nth j res dV) (seq i (length rm)), seq (length h) (length rm)).
Proof.
  revert i h. induction rm as [|m rm IH]; intros i h F; cbn [Cache.build length seq map].
  - rewrite app_nil_r. reflexivity.
  - cbn [forallb] in F. apply andb_true_iff in F as [Fm F]. destruct m; [|discriminate].
    rewrite (IH (S i) (h ++ [nth i res dV]) F). rewrite <- app_assoc. cbn [app].
    rewrite app_length. cbn [length]. replace (length h + 1) with (S (length h)) by lia. reflexivity.
Qed.

(* with no reused buffer a miss stores into newly allocated cells *)
Lemma store_fresh vs : forall sm bf h, forallb negb sm = true ->
  fst (fst (store sm bf vs h)) = h ++ vs /\ snd (fst (store sm bf vs h)) = seq (length h) (length vs).
Proof.
  induction vs as [|v vs IH]; intros sm bf h F; cbn [Cache.store].
  - cbn. rewrite app_nil_r. split; reflexivity.
  - assert (Hd : hd false sm = false) by (destruct sm as [|[|] sm']; cbn in *; [reflexivity | discriminate | reflexivity]).
    assert (Ft : forallb negb (tl sm) = true) by (destruct sm as [|b sm']; cbn in *; [reflexivity | apply andb_true_iff in F; apply F]).
    rewrite Hd. destruct (IH (tl sm) (tl bf) (h ++ [v]) Ft) as [E1 E2].
    destruct (store (tl sm) (tl bf) vs (h ++ [v])) as [[h' cells] b']. cbn [fst snd] in *. split.
    + rewrite E1, <- app_assoc. reflexivity.
    + rewrite E2, app_length. cbn [length seq]. replace (length h + 1) with (S (length h)) by lia. reflexivity.
Qed.

(* ---------- the invariant ---------- *)
Definition cached_ok (s : state) : Prop :=
  forall c cells, In (c, cells) (cache V ckey cfg s) ->
    read (heap V ckey cfg s) cells = comp_cache (conf V ckey cfg s) c /\
    Forall (fun x => x < length (heap V ckey cfg s)) cells.

Definition held_ok (s : state) : Prop :=
  forall refs r, In refs (held V ckey cfg s) -> In r refs ->
    r < length (heap V ckey cfg s) /\
    forall c cells, In (c, cells) (cache V ckey cfg s) -> ~ In r cells.

Definition Inv (s : state) : Prop := cached_ok s /\ held_ok s.

Lemma Inv_init c : Inv (init V ckey cfg c).
Proof. split; intros ? ? []. Qed.

Lemma Forall_lt_mono (l : list nat) a b : a <= b -> Forall (fun x => x < a) l -> Forall (fun x => x < b) l.
Proof. intros L F. eapply Forall_impl; [|exact F]. cbn. intros; lia. Qed.

(* HDF5 round trip *)
Lemma reload_spec l : forall h h' l',
  reload h l = (h', l') ->
  (forall c cells, In (c, cells) l -> Forall (fun x => x < length h) cells) ->
  length h <= length h' /\
  forall c cells', In (c, cells') l' ->
    (exists cells, In (c, cells) l /\ read h' cells' = read h cells) /\
    Forall (fun x => length h <= x < length h') cells'.
Proof.
  induction l as [|[c0 cells0] l IH]; intros h h' l' E F; cbn [Cache.reload] in E.
  - injection E as <- <-. split; [lia | intros ? ? []].
  - unfold alloc in E. destruct (reload (h ++ read h cells0) l) as [h2 l2] eqn:R. injection E as <- <-.
    assert (F0 : Forall (fun x => x < length h) cells0) by (apply (F c0); left; reflexivity).
    assert (F' : forall c cells, In (c, cells) l -> Forall (fun x => x < length (h ++ read h cells0)) cells).
    { intros c cells Hin. eapply Forall_lt_mono; [|apply (F c); right; exact Hin]. rewrite app_length; lia. }
    destruct (IH _ _ _ R F') as [L2 S2]. rewrite app_length in L2.
    assert (Lr : length (read h cells0) = length cells0) by (unfold Cache.read; apply map_length).
    split; [lia|]. intros c cells' [X|Hin].
    + injection X as <- <-. split.
      * exists cells0. split; [left; reflexivity|].
        (* h2 extends h ++ read h cells0 : use the reload of the tail only through reads below its base *)
        assert (Hext : exists t, h2 = (h ++ read h cells0) ++ t).
        { clear - R. revert R. generalize (h ++ read h cells0). revert h2 l2.
          induction l as [|[c1 cells1] l IHl]; intros h2 l2 g R; cbn [Cache.reload] in R.
          - injection R as <- <-. exists []. rewrite app_nil_r. reflexivity.
          - unfold alloc in R. destruct (reload (g ++ read g cells1) l) as [h3 l3] eqn:R3. injection R as <- <-.
            destruct (IHl _ _ _ R3) as [t ->]. exists (read g cells1 ++ t). rewrite app_assoc. reflexivity. }
        destruct Hext as [t ->]. rewrite read_app.
        -- apply read_alloc.
        -- apply Forall_forall. intros x Hx. apply in_seq in Hx. rewrite app_length. lia.
      * apply Forall_forall. intros x Hx. apply in_seq in Hx. lia.
    + destruct (S2 c cells' Hin) as [(cells & Hc & Er) Fr]. split.
      * exists cells. split; [right; exact Hc|]. rewrite Er. apply read_app. apply (F c). right; exact Hc.
      * eapply Forall_impl; [|exact Fr]. cbn. intros x Hx. rewrite app_length in Hx. lia.
Qed.

Hypothesis all_fresh_rmode : all_fresh rmode = true.
Hypothesis stores_fresh_smode : stores_fresh smode = true.

(* one step preserves the invariant, and an Lij step returns `pure` *)
Lemma step_ok s o : Inv s ->
  Inv (fst (step s o)) /\
  forall c k obs, snd (step s o) = Some (c, k, obs) -> obs = pure c k.
Proof.
  intros [CO HO]. destruct s as [h ca cf he bf]. destruct o as [k | call i v | | c' | ]; cbn [Cache.step].
  - (* Lij *)
    unfold step_lij. cbn [heap cache conf held bufs].
    set (c := ck k).
    (* the cached cells used, after a possible allocation *)
    assert (Hcase : exists h1 ca1 cells bf1,
              (match lookup c ca with
               | Some cells => (h, ca, cells, bf)
               | None => let '(h', cells, b') := store smode bf (comp_cache cf c) h in (h', (c, cells) :: ca, cells, b')
               end) = (h1, ca1, cells, bf1) /\
              Inv (mkSt h1 ca1 cf he bf1) /\ In (c, cells) ca1).
    { destruct (lookup c ca) as [cells|] eqn:L.
      - exists h, ca, cells, bf. split; [reflexivity|]. split; [split; assumption | apply lookup_In; exact L].
      - unfold stores_fresh in stores_fresh_smode.
        destruct (store_fresh (comp_cache cf c) smode bf h stores_fresh_smode) as [E1 E2].
        destruct (store smode bf (comp_cache cf c) h) as [[h' cells] b']. cbn [fst snd] in E1, E2. subst h' cells.
        eexists _, _, _, _. split; [reflexivity|]. split; [|left; reflexivity]. split.
        + intros c0 cells0 [X|Hin]; cbn [heap cache conf].
          * injection X as <- <-. split; [apply read_alloc|].
            apply Forall_forall. intros x Hx. apply in_seq in Hx. rewrite app_length. lia.
          * destruct (CO c0 cells0 Hin) as [R F]. cbn [heap conf] in R, F. split.
            -- rewrite read_app by exact F. exact R.
            -- eapply Forall_lt_mono; [|exact F]. rewrite app_length; lia.
        + intros refs r Hr Hin. cbn [heap cache held] in *. destruct (HO refs r Hr Hin) as [Lr Nr]. cbn [heap cache] in Lr, Nr.
          split; [rewrite app_length; lia|]. intros c0 cells0 [X|Hc].
          * injection X as <- <-. intro Hx. apply in_seq in Hx. lia.
          * apply (Nr c0 cells0 Hc). }
    destruct Hcase as (h1 & ca1 & cells & bf1 & -> & [CO1 HO1] & Hin1).
    destruct (CO1 c cells Hin1) as [R1 F1]. cbn [heap conf] in R1, F1.
    unfold all_fresh in all_fresh_rmode.
    rewrite (build_fresh rmode 0 _ cells h1 all_fresh_rmode).
    set (vals := map (fun j => nth j (comp_result cf k (read h1 cells)) dV) (seq 0 (length rmode))).
    assert (Lv : length vals = length rmode) by (unfold vals; rewrite map_length, seq_length; reflexivity).
    cbn [fst snd]. split.
    + split.
      * intros c0 cells0 Hc. cbn [heap cache conf] in *. destruct (CO1 c0 cells0 Hc) as [R F]. cbn [heap conf] in R, F. split.
        -- rewrite read_app by exact F. exact R.
        -- eapply Forall_lt_mono; [|exact F]. rewrite app_length; lia.
      * intros refs r Hr Hin. cbn [heap cache held] in *. apply in_app_or in Hr as [Hr|[<-|[]]].
        -- destruct (HO1 refs r Hr Hin) as [Lr Nr]. cbn [heap cache] in Lr, Nr. split; [rewrite app_length; lia | exact Nr].
        -- apply in_seq in Hin. split; [rewrite app_length; lia|].
           intros c0 cells0 Hc Hx. destruct (CO1 c0 cells0 Hc) as [_ F]. cbn [heap] in F.
           rewrite Forall_forall in F. specialize (F r Hx). lia.
    + intros c1 k1 obs X. injection X as <- <- <-.
      rewrite <- Lv. rewrite read_alloc. unfold vals, Cache.pure. rewrite R1. reflexivity.
  - (* Mutate *)
    cbn [heap cache conf held bufs].
    destruct (Nat.ltb_spec i (length (nth call he []))) as [Li|Li]; cbn [fst snd]; [|split; [split; assumption | discriminate]].
    split; [|discriminate].
    set (refs := nth call he []) in *. set (r := nth i refs 0).
    assert (Hrefs : In refs he).
    { unfold refs. destruct (Nat.lt_ge_cases call (length he)) as [Lc|Lc]; [apply nth_In; exact Lc|].
      exfalso. unfold refs in Li. rewrite nth_overflow in Li by exact Lc. cbn in Li. lia. }
    assert (Hr : In r refs) by (apply nth_In; exact Li).
    destruct (HO refs r Hrefs Hr) as [Lr Nr]. cbn [heap cache] in Lr, Nr.
    split.
    + intros c0 cells0 Hc. cbn [heap cache conf] in *. destruct (CO c0 cells0 Hc) as [R F]. cbn [heap conf] in R, F. split.
      * rewrite read_upd_other; [exact R | exact F | apply (Nr c0 cells0 Hc)].
      * rewrite length_upd. exact F.
    + intros refs' r' Hr' Hin'. cbn [heap cache held] in *. rewrite length_upd. apply (HO refs' r' Hr' Hin').
  - (* Clearcache *)
    cbn [fst snd]. split; [|discriminate]. split.
    + intros ? ? [].
    + intros refs r Hr Hin. cbn [heap cache held] in *. destruct (HO refs r Hr Hin) as [Lr _]. split; [exact Lr | intros ? ? []].
  - (* Reconfig *)
    cbn [conf]. destruct (cfgeqb c' cf); cbn [fst snd]; (split; [|discriminate]); [split; assumption|]. split.
    + intros ? ? [].
    + intros refs r Hr Hin. cbn [heap cache held] in *. destruct (HO refs r Hr Hin) as [Lr _]. split; [exact Lr | intros ? ? []].
  - (* SaveLoad *)
    cbn [heap cache conf held bufs]. destruct (reload h ca) as [h' ca'] eqn:R. cbn [fst snd]. split; [|discriminate].
    assert (F : forall c cells, In (c, cells) ca -> Forall (fun x => x < length h) cells).
    { intros c cells Hc. destruct (CO c cells Hc) as [_ F]. exact F. }
    destruct (reload_spec ca h h' ca' R F) as [L S]. split.
    + intros c0 cells' Hc. cbn [heap cache conf] in *. destruct (S c0 cells' Hc) as [(cells & Hc0 & Er) Fr]. split.
      * rewrite Er. destruct (CO c0 cells Hc0) as [Rr _]. exact Rr.
      * eapply Forall_impl; [|exact Fr]. cbn. intros; lia.
    + intros refs r Hr Hin. cbn [heap cache held] in *. destruct (HO refs r Hr Hin) as [Lr _]. cbn [heap] in Lr. split; [lia|].
      intros c0 cells' Hc Hx. destruct (S c0 cells' Hc) as [_ Fr]. rewrite Forall_forall in Fr. specialize (Fr r Hx). lia.
Qed.

Lemma run_ok ops : forall s, Inv s ->
  Forall (fun x => snd x = pure (fst (fst x)) (snd (fst x))) (run s ops).
Proof.
  induction ops as [|o ops IH]; intros s I; cbn [Cache.run]; [constructor|].
  destruct (step_ok s o I) as [I' Ob]. destruct (step s o) as [s' ob]. cbn [fst snd] in *.
  destruct ob as [[[c k] obs]|].
  - constructor; [cbn; apply (Ob c k obs eq_refl) | apply IH; exact I'].
  - apply IH; exact I'.
Qed.

(* C14: every Lij of every history over every pool of inputs returns what a fresh calculator returns *)
Theorem history_independent c0 ops :
  Forall (fun x => snd x = pure (fst (fst x)) (snd (fst x))) (run (init V ckey cfg c0) ops).
Proof. apply run_ok. apply Inv_init. Qed.

End CacheProofs.

(* ---------- the current source: the first returned array IS cached slot 1 ---------------- *)
Section Refuted.
Variable V : Type.
Variable dV : V.
Variables key ckey cfg : Type.
Variable ck : key -> ckey.
Variable ckeqb : ckey -> ckey -> bool.
Variable cfgeqb : cfg -> cfg -> bool.
Variable comp_cache : cfg -> ckey -> list V.
Variable comp_result : cfg -> key -> list V -> list V.
Hypothesis ckeqb_refl : forall a, ckeqb a a = true.
(* three cached arrays (GF, L0vv, etav) *)
Hypothesis three_slots : forall c x, length (comp_cache c x) = 3.

Definition current_modes : list mode := [Alias 1; Fresh; Fresh; Fresh].
Definition fresh_modes : list mode := [Fresh; Fresh; Fresh; Fresh].
Definition no_buffers : list bool := [false; false; false].
Definition eta_buffer : list bool := [false; false; true].      (* biascorrection() reuses one array *)

(* after [Lij k; Mutate 0 0 v; Lij k] the second Lij returns the caller's edit v as L0vv, whatever the numerics *)
Theorem alias_refuted c0 k v :
  exists obs1 obs2,
    run V dV key ckey cfg ck ckeqb cfgeqb comp_cache comp_result current_modes no_buffers (init V ckey cfg c0)
        [Lij k; Mutate 0 0 v; Lij k] = [(c0, k, obs1); (c0, k, obs2)] /\
    nth 0 obs1 dV = nth 1 (comp_cache c0 (ck k)) dV /\ nth 0 obs2 dV = v.
Proof.
  pose proof (three_slots c0 (ck k)) as L3.
  destruct (comp_cache c0 (ck k)) as [|g [|l [|e [|? ?]]]] eqn:CC; try discriminate. clear L3.
  cbn [run step]. unfold step_lij. cbn [heap cache conf held bufs init lookup]. rewrite CC.
  cbn [store no_buffers hd tl app length seq read map nth current_modes build].
  cbn [Nat.ltb Nat.leb length nth]. cbn [upd length seq map Nat.eqb nth heap cache conf held bufs].
  cbn [lookup]. rewrite ckeqb_refl. cbn [read map nth build app length].
  eexists _, _. split; [reflexivity|]. split; reflexivity.
Qed.

(* L0vv is handed through from the cache (Lij does not compute with it) *)
Hypothesis passthrough : forall c k cont, nth 0 (comp_result c k cont) dV = nth 1 cont dV.

Theorem alias_refuted_history c0 k v :
  v <> nth 1 (comp_cache c0 (ck k)) dV ->
  exists ops,
    ~ Forall (fun x => snd x = pure V dV key ckey cfg ck comp_cache comp_result current_modes (fst (fst x)) (snd (fst x)))
        (run V dV key ckey cfg ck ckeqb cfgeqb comp_cache comp_result current_modes no_buffers (init V ckey cfg c0) ops).
Proof.
  intro N. exists [Lij k; Mutate 0 0 v; Lij k].
  destruct (alias_refuted c0 k v) as (obs1 & obs2 & E & _ & E2). rewrite E.
  intro F. apply Forall_inv_tail in F. apply Forall_inv in F. cbn [fst snd] in F.
  apply N. rewrite <- E2, F. unfold pure. cbn [current_modes length seq map nth]. apply passthrough.
Qed.

(* A callee that reuses ONE buffer for the third cached array (etav): every cache entry is that buffer.  After
   [Lij a; Lij b; Lij a] with different cache keys, the third call (a cache hit) computes from b's etav --
   although every returned array is fresh and the caller edits nothing. *)
Theorem shared_buffer_refuted c0 a b :
  ckeqb (ck a) (ck b) = false -> ckeqb (ck b) (ck a) = false ->
  exists obs1 obs2 obs3,
    run V dV key ckey cfg ck ckeqb cfgeqb comp_cache comp_result fresh_modes eta_buffer (init V ckey cfg c0)
        [Lij a; Lij b; Lij a] = [(c0, a, obs1); (c0, b, obs2); (c0, a, obs3)] /\
    obs1 = pure V dV key ckey cfg ck comp_cache comp_result fresh_modes c0 a /\
    obs3 = map (fun j => nth j (comp_result c0 a [nth 0 (comp_cache c0 (ck a)) dV; nth 1 (comp_cache c0 (ck a)) dV;
                                                 nth 2 (comp_cache c0 (ck b)) dV]) dV) (seq 0 4).
Proof.
  intros Nab Nba.
  pose proof (three_slots c0 (ck a)) as La. pose proof (three_slots c0 (ck b)) as Lb.
  destruct (comp_cache c0 (ck a)) as [|ga [|la [|ea [|? ?]]]] eqn:CA; try discriminate.
  destruct (comp_cache c0 (ck b)) as [|gb [|lb [|eb [|? ?]]]] eqn:CB; try discriminate. clear La Lb.
  cbn [run step]. unfold step_lij. cbn [heap cache conf held bufs init lookup]. rewrite CA.
  cbn [store eta_buffer hd tl app length seq read map nth fresh_modes build heap cache conf held bufs].
  cbn [lookup]. rewrite Nab. cbn [lookup]. rewrite CB.
  cbn [store eta_buffer hd tl app length seq read map nth fresh_modes build heap cache conf held bufs upd Nat.eqb].
  cbn [lookup]. rewrite Nba, ckeqb_refl.
  cbn [read map nth build app length heap cache conf held bufs fresh_modes].
  eexists _, _, _. split; [reflexivity|]. split; [|reflexivity].
  unfold pure. rewrite CA. reflexivity.
Qed.

End Refuted.

(* ---------- non-vacuity: a concrete instance ---------------------------------------------- *)
(* keys (vTK id, rest) ; values are numbers; cached arrays [100+c; 200+c; 300+c] ; results pass slot 1 through *)
Definition ex_cache (cf : nat) (c : nat) : list nat := [100 + c + 1000 * cf; 200 + c + 1000 * cf; 300 + c + 1000 * cf].
Definition ex_result (cf : nat) (k : nat * nat) (cont : list nat) : list nat :=
  [nth 1 cont 0; nth 0 cont 0 + snd k; nth 2 cont 0 + snd k; nth 0 cont 0 + nth 2 cont 0].
Definition ex_run (rm : list mode) (sm : list bool) :=
  run nat 0 (nat * nat) nat nat fst Nat.eqb Nat.eqb ex_cache ex_result rm sm (init nat nat nat 0).

Example history_example_fresh :
  ex_run [Fresh; Fresh; Fresh; Fresh] [false; false; false]
    [Lij (1, 5); Mutate 0 0 7; Lij (1, 6); SaveLoad; Mutate 1 0 9; Reconfig 2; Lij (1, 5); Clearcache; Lij (1, 5)]
  = [(0, (1, 5), [201; 106; 306; 402]); (0, (1, 6), [201; 107; 307; 402]);
     (2, (1, 5), [2201; 2106; 2306; 4402]); (2, (1, 5), [2201; 2106; 2306; 4402])].
Proof. vm_compute. reflexivity. Qed.

Example history_example_alias :
  ex_run [Alias 1; Fresh; Fresh; Fresh] [false; false; false] [Lij (1, 5); Mutate 0 0 7; Lij (1, 6)]
  = [(0, (1, 5), [201; 106; 306; 402]); (0, (1, 6), [7; 107; 307; 402])].
Proof. vm_compute. reflexivity. Qed.

(* one reused etav buffer: the hit for key 1 after key 2 was evaluated uses key 2's etav (302 instead of 301) *)
Example history_example_buffer :
  ex_run [Fresh; Fresh; Fresh; Fresh] [false; false; true] [Lij (1, 5); Lij (2, 5); Lij (1, 5)]
  = [(0, (1, 5), [201; 106; 306; 402]); (0, (2, 5), [202; 107; 307; 404]); (0, (1, 5), [201; 106; 307; 403])].
Proof. vm_compute. reflexivity. Qed.
