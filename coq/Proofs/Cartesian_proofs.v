(* Proofs about Model/Cartesian.v (property C23, Cartesian half): ring identities over an
   arbitrary ordered commutative ring K. *)
From Coq Require Import List Arith Lia Ring.
From Onsager Require Import Base.OrdRing Model.Cartesian.
Import ListNotations.

Section CartProofs.
Variable K : ordring.
Notation "0" := (r0 K). Notation "1" := (r1 K).
Infix "+" := (radd K). Infix "*" := (rmul K). Infix "-" := (rsub K).
Add Ring Kr : (r_ring K).

Notation kvec := (kvec K). Notation kmat := (kmat K).

Lemma ksum_ext f g d : (forall i, i < d -> f i = g i) -> ksum K f d = ksum K g d.
Proof. intro H. unfold ksum. apply sumf_ext. intros i Hi. apply in_seq in Hi. apply H. lia. Qed.

Lemma ksum_add f g d : ksum K (fun i => f i + g i) d = ksum K f d + ksum K g d.
Proof. unfold ksum. apply sumf_add. Qed.

Lemma ksum_scal c f d : ksum K (fun i => c * f i) d = c * ksum K f d.
Proof. unfold ksum. apply sumf_scal. Qed.

Lemma ksum_scal_r c f d : ksum K (fun i => f i * c) d = ksum K f d * c.
Proof.
  rewrite (ksum_ext _ (fun i => c * f i)) by (intros; ring). rewrite ksum_scal. ring.
Qed.

Lemma ksum_swap (f : nat -> nat -> K) n m :
  ksum K (fun i => ksum K (fun j => f i j) m) n = ksum K (fun j => ksum K (fun i => f i j) n) m.
Proof. unfold ksum. apply (sumf_swap K f). Qed.

Lemma ksum_pick_r (v : nat -> K) j d : j < d -> ksum K (fun k => v k * kI K k j) d = v j.
Proof. intro H. unfold ksum, kI. apply sumf_ind_pick; exact H. Qed.

Lemma ksum_pick_l (v : nat -> K) i d : i < d -> ksum K (fun k => kI K i k * v k) d = v i.
Proof.
  intro H. rewrite (ksum_ext _ (fun k => v k * kI K k i)).
  - apply ksum_pick_r; exact H.
  - intros k _. unfold kI, ind. rewrite (Nat.eqb_sym i k). ring.
Qed.

Lemma kmv_ext d M (x y : kvec) i : (forall j, j < d -> x j = y j) -> kmv K d M x i = kmv K d M y i.
Proof. intro H. unfold kmv. apply ksum_ext. intros j Hj. rewrite H by exact Hj. reflexivity. Qed.

Lemma kmv_ext_mat d (A B : kmat) x i : (forall j, j < d -> A i j = B i j) -> kmv K d A x i = kmv K d B x i.
Proof. intro H. unfold kmv. apply ksum_ext. intros j Hj. rewrite H by exact Hj. reflexivity. Qed.

Lemma kmv_add d M (x y : kvec) i : kmv K d M (kadd K x y) i = kmv K d M x i + kmv K d M y i.
Proof. unfold kmv, kadd. rewrite <- ksum_add. apply ksum_ext. intros j _. ring. Qed.

Lemma kmv_sub d M (x y : kvec) i : kmv K d M (ksub K x y) i = kmv K d M x i - kmv K d M y i.
Proof.
  unfold kmv, ksub.
  replace (ksum K (fun j => M i j * x j) d - ksum K (fun j => M i j * y j) d)
    with (ksum K (fun j => M i j * x j) d + ropp K 1 * ksum K (fun j => M i j * y j) d) by ring.
  rewrite <- ksum_scal, <- ksum_add. apply ksum_ext. intros j _. ring.
Qed.

Lemma kmv_neg d M (x : kvec) i : kmv K d M (kneg K x) i = ropp K (kmv K d M x i).
Proof.
  unfold kmv, kneg. replace (ropp K (ksum K (fun j => M i j * x j) d)) with (ropp K 1 * ksum K (fun j => M i j * x j) d) by ring.
  rewrite <- ksum_scal. apply ksum_ext. intros j _. ring.
Qed.

Lemma kmv_kmm d (A B : kmat) x i : kmv K d (kmm K d A B) x i = kmv K d A (kmv K d B x) i.
Proof.
  unfold kmv, kmm.
  rewrite (ksum_ext _ (fun j => ksum K (fun k => A i k * B k j * x j) d))
    by (intros j _; rewrite <- ksum_scal_r; reflexivity).
  rewrite ksum_swap. apply ksum_ext. intros k _.
  rewrite <- ksum_scal. apply ksum_ext. intros j _. ring.
Qed.

Lemma kmv_I d x i : i < d -> kmv K d (kI K) x i = x i.
Proof. intro H. unfold kmv. apply ksum_pick_l; exact H. Qed.

Notation kdot := (kdot K).

Lemma kdot_ext d (u u' v v' : kvec) :
  (forall i, i < d -> u i = u' i) -> (forall i, i < d -> v i = v' i) -> kdot d u v = kdot d u' v'.
Proof. intros H1 H2. unfold kdot. apply ksum_ext. intros i Hi. rewrite H1, H2 by exact Hi. reflexivity. Qed.

Lemma kdot_kmv_T d (A : kmat) x y : kdot d (kmv K d A x) y = kdot d x (kmv K d (kT K A) y).
Proof.
  unfold kdot, kmv, kT.
  rewrite (ksum_ext _ (fun i => ksum K (fun j => A i j * x j * y i) d))
    by (intros i _; rewrite <- ksum_scal_r; reflexivity).
  rewrite ksum_swap. apply ksum_ext. intros j _.
  rewrite <- ksum_scal. apply ksum_ext. intros i _. ring.
Qed.

(* unit vector e_i picks a component of a dot product *)
Lemma kdot_unit d i (v : kvec) : i < d -> kdot d (fun k => kI K i k) v = v i.
Proof. intro H. unfold kdot. apply ksum_pick_l; exact H. Qed.

(* ---- hypotheses about the lattice: invlatt is the inverse of lattice ------------------------- *)
Variable d : nat.
Variables A Ai : kmat.
Hypothesis HAiA : keq K d (kmm K d Ai A) (kI K).
Hypothesis HAAi : keq K d (kmm K d A Ai) (kI K).

(* cart2unit o unit2cart and unit2cart o cart2unit (linear parts) *)
Theorem cart_roundtrip x i : i < d ->
  kmv K d Ai (kmv K d A x) i = x i /\ kmv K d A (kmv K d Ai x) i = x i.
Proof.
  intro Hi. split; rewrite <- kmv_kmm.
  - rewrite (kmv_ext_mat d _ (kI K)) by (intros j Hj; apply HAiA; assumption). apply kmv_I; exact Hi.
  - rewrite (kmv_ext_mat d _ (kI K)) by (intros j Hj; apply HAAi; assumption). apply kmv_I; exact Hi.
Qed.

(* whatever the split u = (u - cell) + cell chosen by incell, unit2cart(cart2unit v) = v *)
Theorem unit2cart_cart2unit (v cell : kvec) i : i < d ->
  unit2cart K d A (ksub K (kmv K d Ai v) cell) cell i = v i.
Proof.
  intro Hi. unfold unit2cart.
  rewrite (kmv_ext d A _ (kmv K d Ai v)) by (intros j _; unfold kadd, ksub; ring).
  apply cart_roundtrip; exact Hi.
Qed.

(* cart2unit(unit2cart (R, u)) recovers R + u (the split into cell and unit-cell part is Model/Action.v) *)
Theorem cart2unit_unit2cart (R u : kvec) i : i < d ->
  kmv K d Ai (unit2cart K d A R u) i = R i + u i.
Proof. intro Hi. unfold unit2cart. destruct (cart_roundtrip (kadd K R u) i Hi) as [H _]. exact H. Qed.

(* ---- the routes agree: cartrot = A S A^-1 --------------------------------------------------- *)
Lemma cartrot_A S x i : kmv K d (cartrot K d A S Ai) (kmv K d A x) i = kmv K d A (kmv K d S x) i.
Proof.
  unfold cartrot. rewrite kmv_kmm. apply kmv_ext. intros j Hj. rewrite kmv_kmm.
  apply kmv_ext. intros l Hl. apply cart_roundtrip; exact Hl.
Qed.

Lemma cartrot_apply S x i : kmv K d (cartrot K d A S Ai) x i = kmv K d A (kmv K d S (kmv K d Ai x)) i.
Proof. unfold cartrot. rewrite kmv_kmm. apply kmv_ext. intros j Hj. apply kmv_kmm. Qed.

(* g_cart on the Cartesian image of a position = Cartesian image of the lattice-coordinate action
   (g_vect / g_pos route: S (R + u) + t) *)
Theorem g_cart_unit2cart S t R u i :
  g_cart K d (cartrot K d A S Ai) A t (unit2cart K d A R u) i
  = kmv K d A (g_latt K d S t (kadd K R u)) i.
Proof.
  unfold g_cart, unit2cart, g_latt. unfold kadd at 1. rewrite cartrot_A. rewrite kmv_add. reflexivity.
Qed.

(* g_direc on a Cartesian difference of positions = image of the lattice-coordinate difference *)
Theorem g_direc_lattice S w i :
  g_direc K d (cartrot K d A S Ai) (kmv K d A w) i = kmv K d A (kmv K d S w) i.
Proof. unfold g_direc. apply cartrot_A. Qed.

Theorem g_cart_diff S t x y i :
  g_cart K d (cartrot K d A S Ai) A t x i - g_cart K d (cartrot K d A S Ai) A t y i
  = g_direc K d (cartrot K d A S Ai) (ksub K x y) i.
Proof. unfold g_cart, g_direc, kadd. rewrite kmv_sub. ring. Qed.

(* g_tensor acts on dyads as g_direc on both factors, and is additive *)
Theorem g_tensor_outer Cr (u v : kvec) i j :
  g_tensor K d Cr (kouter K u v) i j = kouter K (g_direc K d Cr u) (g_direc K d Cr v) i j.
Proof.
  unfold g_tensor, kouter, g_direc, kmm, kmv, kT.
  rewrite (ksum_ext _ (fun k => (Cr i k * u k) * ksum K (fun l => Cr j l * v l) d)).
  - rewrite ksum_scal_r. reflexivity.
  - intros k _. rewrite <- !ksum_scal. apply ksum_ext. intros l _. ring.
Qed.

Theorem g_tensor_add Cr (T1 T2 : kmat) i j :
  g_tensor K d Cr (fun a b => T1 a b + T2 a b) i j = g_tensor K d Cr T1 i j + g_tensor K d Cr T2 i j.
Proof.
  unfold g_tensor, kmm. rewrite <- ksum_add. apply ksum_ext. intros k _.
  rewrite <- !ksum_scal. rewrite <- ksum_add. apply ksum_ext. intros l _. ring.
Qed.

(* ---- composition: (g1*g2) = g1 after g2, with cartrot12 = C1 C2, trans12 = S1 t2 + t1 ---------- *)
Theorem g_cart_mul S1 t1 C2 t2 x i :
  g_cart K d (kmm K d (cartrot K d A S1 Ai) C2) A (kadd K (kmv K d S1 t2) t1) x i
  = g_cart K d (cartrot K d A S1 Ai) A t1 (g_cart K d C2 A t2 x) i.
Proof.
  unfold g_cart. unfold kadd at 1 3. rewrite kmv_kmm. rewrite !kmv_add. rewrite cartrot_A. ring.
Qed.

Theorem g_direc_mul C1 C2 v i : g_direc K d (kmm K d C1 C2) v i = g_direc K d C1 (g_direc K d C2 v) i.
Proof. unfold g_direc. apply kmv_kmm. Qed.

(* the code multiplies the cartrots: that is the cartrot of the product *)
Theorem cartrot_mul S1 S2 x i :
  kmv K d (kmm K d (cartrot K d A S1 Ai) (cartrot K d A S2 Ai)) x i
  = kmv K d (cartrot K d A (kmm K d S1 S2) Ai) x i.
Proof.
  rewrite kmv_kmm.
  rewrite (kmv_ext d _ _ (kmv K d A (kmv K d S2 (kmv K d Ai x)))) by (intros j Hj; apply cartrot_apply).
  rewrite cartrot_A. rewrite cartrot_apply. apply kmv_ext. intros j Hj. symmetry. apply kmv_kmm.
Qed.

(* ---- isometry: rot preserves the metric form  <=>  cartrot preserves the Cartesian dot product ---- *)
Section Iso.
Variable S Si : kmat.
Hypothesis Hiso : forall u v : kvec,
  kdot d (kmv K d A (kmv K d S u)) (kmv K d A (kmv K d S v)) = kdot d (kmv K d A u) (kmv K d A v).
Hypothesis HSiS : keq K d (kmm K d Si S) (kI K).
Hypothesis HSSi : keq K d (kmm K d S Si) (kI K).

Let Cr := cartrot K d A S Ai.

Lemma Cr_Ai x i : kmv K d Cr x i = kmv K d A (kmv K d S (kmv K d Ai x)) i.
Proof. unfold Cr. apply cartrot_apply. Qed.

Theorem cartrot_orthogonal x y : kdot d (kmv K d Cr x) (kmv K d Cr y) = kdot d x y.
Proof.
  rewrite (kdot_ext d _ (kmv K d A (kmv K d S (kmv K d Ai x))) _ (kmv K d A (kmv K d S (kmv K d Ai y))))
    by (intros; apply Cr_Ai).
  rewrite Hiso. apply kdot_ext; intros i Hi; apply cart_roundtrip; exact Hi.
Qed.

(* hence the transpose (what GroupOp.inv stores as cartrot) is the inverse *)
Theorem cartrot_T_inverse y i : i < d -> kmv K d (kT K Cr) (kmv K d Cr y) i = y i.
Proof.
  intro Hi. rewrite <- (kdot_unit d i (kmv K d (kT K Cr) (kmv K d Cr y)) Hi).
  rewrite <- kdot_kmv_T. rewrite cartrot_orthogonal. apply kdot_unit; exact Hi.
Qed.

(* g.inv() acts as the inverse map on Cartesian positions: cartrot^T, trans = - S^-1 t *)
Theorem g_cart_inv t x i : i < d ->
  g_cart K d (kT K Cr) A (kneg K (kmv K d Si t)) (g_cart K d Cr A t x) i = x i.
Proof.
  intro Hi. unfold g_cart. unfold kadd at 1. rewrite kmv_add.
  rewrite cartrot_T_inverse by exact Hi.
  assert (E : forall j, j < d -> kmv K d A t j = kmv K d Cr (kmv K d A (kmv K d Si t)) j).
  { intros j Hj. unfold Cr. rewrite cartrot_A. apply kmv_ext. intros l Hl.
    rewrite <- kmv_kmm. rewrite (kmv_ext_mat d _ (kI K)) by (intros m Hm; apply HSSi; assumption).
    symmetry. apply kmv_I; exact Hl. }
  rewrite (kmv_ext d (kT K Cr) _ _ i E). rewrite cartrot_T_inverse by exact Hi.
  rewrite kmv_neg. ring.
Qed.
End Iso.

End CartProofs.

(* ---- non-vacuity over Qc: the oblique lattice A = [[1,1/2],[0,1]], rotation by pi ------------- *)
From Coq Require Import QArith Qcanon.
From Onsager Require Import Base.Instances.
Definition qm (l : list (list Qc)) : kmat Qcring := fun i j => nth j (nth i l []) (Q2Qc 0).
Definition exA := qm [[Q2Qc 1; Q2Qc (1#2)]; [Q2Qc 0; Q2Qc 1]].
Definition exAi := qm [[Q2Qc 1; Q2Qc (-1#2)]; [Q2Qc 0; Q2Qc 1]].
Example ex_inverse : forall i j, (i < 2)%nat -> (j < 2)%nat ->
  kmm Qcring 2 exAi exA i j = kI Qcring i j /\ kmm Qcring 2 exA exAi i j = kI Qcring i j.
Proof.
  intros i j Hi Hj. assert (Ei : i = 0%nat \/ i = 1%nat) by lia. assert (Ej : j = 0%nat \/ j = 1%nat) by lia.
  destruct Ei, Ej; subst; split; apply Qc_is_canon; vm_compute; reflexivity.
Qed.
