(* Soundness of the executable checkers of Model/SupercellMap.v (C27, C29, C30). No axioms. *)
From Coq Require Import List ZArith Bool Lia Arith.
From Onsager Require Import Model.Supercell Model.SupercellMap Proofs.Supercell_proofs.
Import ListNotations.
Local Open Scope Z_scope.

(* ---------- permutation checker ---------- *)
Theorem permb_sound N idx : permb N idx = true -> is_perm N idx.
Proof.
  unfold permb. intros H. repeat (apply andb_true_iff in H; destruct H as [H ?]).
  apply Nat.eqb_eq in H. split; [exact H|]. split; [apply nodupb_sound; assumption|].
  intros x Hx. rewrite forallb_forall in H0. specialize (H0 x Hx). apply andb_true_iff in H0. destruct H0 as [A B].
  apply Z.leb_le in A. apply Z.ltb_lt in B. lia.
Qed.

(* ---------- list equality checkers ---------- *)
Lemma zlist_eqb_eq a : forall b, zlist_eqb a b = true -> a = b.
Proof.
  induction a as [|x a IH]; intros [|y b] H; cbn in H; try discriminate; [reflexivity|].
  apply andb_true_iff in H. destruct H as [H1 H2]. apply Z.eqb_eq in H1. subst. f_equal. apply IH, H2.
Qed.

Lemma zlist_eqb_refl a : zlist_eqb a a = true.
Proof. induction a as [|x a IH]; cbn; [reflexivity|]. rewrite Z.eqb_refl, IH. reflexivity. Qed.

Lemma zll_eqb_eq a : forall b, zll_eqb a b = true -> a = b.
Proof.
  induction a as [|x a IH]; intros [|y b] H; cbn in H; try discriminate; [reflexivity|].
  apply andb_true_iff in H. destruct H as [H1 H2]. apply zlist_eqb_eq in H1. subst. f_equal. apply IH, H2.
Qed.

Lemma sc_eqb_eq a b : sc_eqb a b = true -> a = b.
Proof.
  unfold sc_eqb. intros H. apply andb_true_iff in H. destruct H as [H1 H2].
  apply sc_eq; [apply zlist_eqb_eq, H1|apply zll_eqb_eq, H2].
Qed.

(* ---------- what a successful reorder did, position by position ---------- *)
Lemma omap_nth {A B} (f : A -> option B) l r : omap f l = Some r ->
  forall k, nth_error r k = match nth_error l k with Some x => f x | None => None end.
Proof.
  revert r; induction l as [|a t IH]; intros r H k; cbn in H.
  - injection H as <-. destruct k; reflexivity.
  - destruct (f a) as [b|] eqn:E; [|discriminate]. destruct (omap f t) as [r'|] eqn:E'; [|discriminate].
    injection H as <-. destruct k as [|k]; cbn; [symmetry; exact E|apply IH; reflexivity].
Qed.

Lemma zrange_nth n k : (k < n)%nat -> nth_error (zrange n) k = Some (Z.of_nat k).
Proof.
  intros H. unfold zrange. rewrite nth_error_map. rewrite (nth_error_nth' (seq 0 n) k O) by (rewrite seq_length; exact H).
  rewrite seq_nth by exact H. reflexivity.
Qed.

Lemma reorder1_nth cl cm nl : reorder1 cl cm = Some nl -> forall k, (k < length cl)%nat ->
  nth_error nl k = match pyget cm (Z.of_nat k) with Some v => pyget cl v | None => None end.
Proof.
  unfold reorder1. intros H k Hk. rewrite (omap_nth _ _ _ H k). rewrite zrange_nth by exact Hk. reflexivity.
Qed.

Lemma reorder_lists_nth ch : forall m no, reorder_lists ch m = Some no ->
  forall c, (c < length ch)%nat -> (c < length m)%nat -> reorder1 (nth c ch []) (nth c m []) = Some (nth c no []).
Proof.
  induction ch as [|cl t IH]; intros m no H c Hc Hm; [cbn in Hc; lia|].
  destruct m as [|cm m']; [cbn in Hm; lia|]. cbn in H.
  destruct (reorder1 cl cm) as [nl|] eqn:E; [|discriminate].
  destruct (reorder_lists t m') as [r|] eqn:E2; [|discriminate]. injection H as <-.
  destruct c as [|c]; cbn [nth]; [exact E|]. apply (IH m' r E2); cbn in Hc, Hm; lia.
Qed.

Lemma reorder_ok mapping s s' : reorder mapping s = (s', OK) ->
  occ s' = occ s /\ reorder_lists (chemorder s) mapping = Some (chemorder s').
Proof.
  unfold reorder. destruct (reorder_lists (chemorder s) mapping) as [no|]; [|discriminate].
  destruct (sane _) as [[|]|]; try discriminate. intros H. injection H as <-. cbn. split; reflexivity.
Qed.

(* ---------- the equivalence-map checker ---------- *)
(* (g, mapping) transforms A into B:  B.occ[g(i)] = A.occ[i]  and
   B.chemorder[c][k] = g(A.chemorder[c][mapping[c][k]])   (the documented contract of equivalencemap) *)
Definition Equiv (N : nat) (idx : list Z) (mapping : list (list Z)) (A B : sc) : Prop :=
  (forall m, (m < N)%nat -> nth_error (occ B) (Z.to_nat (nth m idx 0)) = nth_error (occ A) m) /\
  length (chemorder B) = length (chemorder A) /\
  (forall c, (c < length (chemorder A))%nat -> length (nth c (chemorder B) []) = length (nth c (chemorder A) [])) /\
  (forall c k, (c < length (chemorder A))%nat -> (k < length (nth c (chemorder B) []))%nat ->
     exists j y, pyget (nth c mapping []) (Z.of_nat k) = Some j /\ pyget (nth c (chemorder A) []) j = Some y /\
                 nth_error (nth c (chemorder B) []) k = Some (pidx idx y)).

Theorem equivb_sound N Nchem idx mapping A B :
  equivb idx mapping A B = true -> is_perm N idx -> Inv N Nchem A -> (Nchem <= length mapping)%nat ->
  Inv N Nchem B /\ Equiv N idx mapping A B.
Proof.
  unfold equivb. intros H P I Hm.
  destruct (imul_spec N Nchem A idx I P) as [A1 [E1 [I1 [C1 O1]]]]. rewrite E1 in H.
  destruct (reorder mapping A1) as [A2 o] eqn:E2. destruct o; try discriminate.
  apply sc_eqb_eq in H. subst A2.
  assert (IB : Inv N Nchem B) by (assert (X := reorder_inv N Nchem A1 mapping I1 Hm); rewrite E2 in X; exact X).
  split; [exact IB|].
  destruct (reorder_ok _ _ _ E2) as [Eo Er].
  destruct (reorder_lists_some _ _ _ Er) as [L Pl].
  assert (LA1 : length (chemorder A1) = Nchem) by apply (inv_len_co _ _ _ I1).
  assert (LA : length (chemorder A) = Nchem) by apply (inv_len_co _ _ _ I).
  assert (LB : length (chemorder B) = Nchem) by apply (inv_len_co _ _ _ IB).
  assert (Hn : forall c, nth c (chemorder A1) [] = map (pidx idx) (nth c (chemorder A) [])).
  { intros c. rewrite C1. change (@nil Z) with (map (pidx idx) []) at 1. apply map_nth. }
  split; [intros m Hlt; rewrite Eo; apply O1, Hlt|]. split; [lia|]. split.
  - intros c Hc. rewrite (proj1 (Pl c ltac:(lia))). rewrite Hn, map_length. reflexivity.
  - intros c k Hc Hk.
    assert (R1 := reorder_lists_nth _ _ _ Er c ltac:(lia) ltac:(lia)).
    assert (Hk' : (k < length (nth c (chemorder A1) []))%nat) by (rewrite <- (proj1 (Pl c ltac:(lia))); exact Hk).
    assert (R2 := reorder1_nth _ _ _ R1 k Hk').
    destruct (pyget (nth c mapping []) (Z.of_nat k)) as [j|] eqn:Ej.
    2:{ exfalso. apply nth_error_None in R2. lia. }
    exists j. rewrite Hn in R2. unfold pyget in R2 |- *. unfold zlen in *. rewrite map_length in R2.
    destruct (pyidx (Z.of_nat (length (nth c (chemorder A) []))) j) as [q|] eqn:Eq.
    2:{ exfalso. apply nth_error_None in R2. lia. }
    rewrite nth_error_map in R2. destruct (nth_error (nth c (chemorder A) []) q) as [y|] eqn:Ey.
    2:{ exfalso. cbn in R2. apply nth_error_None in R2. lia. }
    exists y. split; [reflexivity|]. split; [reflexivity|exact R2].
Qed.

(* ---------- "no operation maps the occupations" ---------- *)
Lemma maps_occb_complete N idx A B :
  is_perm N idx -> length (occ A) = N -> length (occ B) = N ->
  (forall m, (m < N)%nat -> nth_error (occ B) (Z.to_nat (nth m idx 0)) = nth_error (occ A) m) ->
  maps_occb idx A B = true.
Proof.
  intros P LA LB H. assert (P' := P). destruct P' as [L [ND R]]. unfold maps_occb.
  destruct (imul_occ_spec (occ A) idx (occ A) 0) as [g' [E [Lg [P1 P2]]]]; [lia|exact ND| |rewrite LA, L; cbn; lia|].
  { intros x Hx. unfold zlen. rewrite LA. apply R, Hx. }
  rewrite E. replace g' with (occ B); [apply zlist_eqb_refl|].
  apply (nth_ext _ _ (-1) (-1)); [lia|]. intros k Hk. rewrite LB in Hk.
  destruct (perm_surj N idx (Z.of_nat k) P) as [m [Hm Em]]; [lia|].
  assert (X := H m Hm). rewrite Em, Nat2Z.id in X.
  assert (Y := P1 m (nth m idx 0)). rewrite Em, Nat2Z.id in Y.
  assert (Y' : nth_error g' k = nth_error (occ A) m). { rewrite Y; [reflexivity|]. rewrite <- Em. apply nth_error_nth'. lia. }
  assert (Z1 := nth_error_nth' (occ B) k (-1)). rewrite LB in Z1. specialize (Z1 Hk).
  assert (Z2 := nth_error_nth' g' k (-1)). rewrite Lg, LA in Z2. specialize (Z2 Hk).
  rewrite X in Z1. rewrite Y' in Z2. congruence.
Qed.

Theorem nomapb_sound N G A B :
  nomapb G A B = true -> length (occ A) = N -> length (occ B) = N ->
  forall idx, In idx G -> is_perm N idx ->
  ~ (forall m, (m < N)%nat -> nth_error (occ B) (Z.to_nat (nth m idx 0)) = nth_error (occ A) m).
Proof.
  unfold nomapb. intros H LA LB idx Hin P Hmap. rewrite forallb_forall in H. specialize (H idx Hin).
  rewrite (maps_occb_complete N idx A B P LA LB Hmap) in H. discriminate.
Qed.

(* ---------- the defect-count pre-filter of equivalencemap is sound ---------- *)
Lemma nodup_map_inj_gen {A B} (f : A -> B) l : NoDup l -> (forall x y, In x l -> In y l -> f x = f y -> x = y) -> NoDup (map f l).
Proof.
  induction l as [|a t IH]; intros ND H; cbn; [constructor|].
  inversion ND as [|? ? Hnin ND']; subst. constructor.
  - rewrite in_map_iff. intros [y [E Hy]]. apply Hnin.
    rewrite (H a y (or_introl eq_refl) (or_intror Hy) (eq_sym E)). exact Hy.
  - apply IH; [exact ND'|]. intros x y Hx Hy. apply H; right; assumption.
Qed.

(* an operation that preserves the site labels (sublattice, site chemistry) and carries occupation A onto B
   leaves every count "sites with label k holding species v" unchanged; so differing counts exclude every operation *)
Theorem prefilter_sound N idx lab oA oB k v :
  is_perm N idx -> length oA = N -> length oB = N ->
  (forall m, (m < N)%nat -> nth (Z.to_nat (nth m idx 0)) lab (-1) = nth m lab (-1)) ->
  (forall m, (m < N)%nat -> nth (Z.to_nat (nth m idx 0)) oB (-2) = nth m oA (-2)) ->
  count_lv lab oA k v = count_lv lab oB k v.
Proof.
  intros P LA LB Hlab Hocc. unfold count_lv. rewrite LA, LB.
  set (PA := fun i => (nth i lab (-1) =? k) && (nth i oA (-2) =? v)).
  set (PB := fun i => (nth i lab (-1) =? k) && (nth i oB (-2) =? v)).
  set (f := fun m => Z.to_nat (nth m idx 0)).
  assert (HA : forall m, In m (filter PA (seq 0 N)) <-> (m < N)%nat /\ PA m = true).
  { intros m. rewrite filter_In, in_seq. split; intros [X Y]; split; try lia; exact Y. }
  assert (HB : forall m, In m (filter PB (seq 0 N)) <-> (m < N)%nat /\ PB m = true).
  { intros m. rewrite filter_In, in_seq. split; intros [X Y]; split; try lia; exact Y. }
  assert (Hf : forall m, (m < N)%nat -> (f m < N)%nat /\ PB (f m) = PA m).
  { intros m Hm. unfold f. assert (Hr := perm_range N idx m P Hm). split; [lia|].
    unfold PA, PB. rewrite (Hlab m Hm), (Hocc m Hm). reflexivity. }
  assert (ND : NoDup (map f (filter PA (seq 0 N)))).
  { apply nodup_map_inj_gen; [apply NoDup_filter, seq_NoDup|]. intros x y Hx Hy E. apply HA in Hx, Hy. destruct Hx as [Hx _]. destruct Hy as [Hy _].
    apply (perm_inj N idx x y P); [exact Hx|exact Hy|]. unfold f in E.
    assert (Hrx := perm_range N idx x P Hx). assert (Hry := perm_range N idx y P Hy). apply Z2Nat.inj; [lia|lia|exact E]. }
  assert (L1 : (length (map f (filter PA (seq 0 N))) <= length (filter PB (seq 0 N)))%nat).
  { apply NoDup_incl_length; [exact ND|]. intros j Hj. apply in_map_iff in Hj. destruct Hj as [m [<- Hm]].
    apply HA in Hm. destruct (Hf m (proj1 Hm)) as [X Y]. apply HB. split; [exact X|]. rewrite Y. apply Hm. }
  assert (L2 : (length (filter PB (seq 0 N)) <= length (map f (filter PA (seq 0 N))))%nat).
  { apply NoDup_incl_length; [apply NoDup_filter, seq_NoDup|]. intros j Hj. apply HB in Hj. destruct Hj as [Hj Pj].
    destruct (perm_surj N idx (Z.of_nat j) P) as [m [Hm Em]]; [lia|].
    apply in_map_iff. exists m. split; [unfold f; rewrite Em; apply Nat2Z.id|].
    apply HA. split; [exact Hm|]. destruct (Hf m Hm) as [_ Y]. rewrite <- Y. unfold f. rewrite Em, Nat2Z.id. exact Pj. }
  rewrite map_length in L1, L2. lia.
Qed.

Theorem labelsb_sound lab idx : labelsb lab idx = true ->
  forall m, (m < length lab)%nat -> nth (Z.to_nat (nth m idx 0)) lab (-1) = nth m lab (-1).
Proof.
  unfold labelsb. intros H m Hm. rewrite forallb_forall in H.
  assert (Hin : In (Z.of_nat m, nth m lab (-1)) (enumerate lab)).
  { unfold enumerate, zrange. apply (enumerate_in lab 0 m). apply nth_error_nth'. exact Hm. }
  specialize (H _ Hin). cbv beta iota in H. rewrite Nat2Z.id in H. apply Z.eqb_eq in H. exact H.
Qed.

(* ---------- geometry: the operation maps the infinite periodic set of sites onto itself ---------- *)
Lemma vadd_length a : forall b, length a = length b -> length (vadd a b) = length a.
Proof. induction a as [|x a IH]; intros [|y b] H; cbn in *; try lia. rewrite IH; lia. Qed.

Lemma vsub_length a : forall b, length a = length b -> length (vsub a b) = length a.
Proof. induction a as [|x a IH]; intros [|y b] H; cbn in *; try lia. rewrite IH; lia. Qed.

Lemma nth_vadd a : forall b k, length a = length b -> nth k (vadd a b) 0 = nth k a 0 + nth k b 0.
Proof.
  induction a as [|x a IH]; intros [|y b] k H; cbn in H; try lia.
  - destruct k; reflexivity.
  - destruct k as [|k]; cbn; [reflexivity|]. apply IH. lia.
Qed.

Lemma nth_vsub a : forall b k, length a = length b -> nth k (vsub a b) 0 = nth k a 0 - nth k b 0.
Proof.
  induction a as [|x a IH]; intros [|y b] k H; cbn in H; try lia.
  - destruct k; reflexivity.
  - destruct k as [|k]; cbn; [reflexivity|]. apply IH. lia.
Qed.

Lemma nth_vscale s v k : nth k (vscale s v) 0 = s * nth k v 0.
Proof.
  unfold vscale. destruct (Nat.lt_ge_cases k (length v)) as [H|H].
  - rewrite (nth_indep _ 0 (s * 0)) by (rewrite map_length; exact H). apply map_nth.
  - rewrite !nth_overflow; [lia|exact H|rewrite map_length; exact H].
Qed.

Lemma dot_linear r : forall a n s, length a = length n -> dot r (vadd a (vscale s n)) = dot r a + s * dot r n.
Proof.
  induction r as [|x r IH]; intros [|y a] [|z n] s H; cbn in H; try lia; cbn; try lia.
  fold (vscale s n). rewrite IH by lia. lia.
Qed.

Lemma nth_mulmv R v k : (k < length R)%nat -> nth k (mulmv R v) 0 = dot (nth k R []) v.
Proof.
  intros H. unfold mulmv. rewrite (nth_indep _ 0 (dot [] v)) by (rewrite map_length; exact H).
  apply (map_nth (fun r => dot r v)).
Qed.

Theorem geomb_sound d S R T P idx : geomb d S R T P idx = true ->
  forall i Pi, nth_error P i = Some Pi -> forall n, length n = d ->
  exists Pj n', nth_error P (Z.to_nat (nth i idx 0)) = Some Pj /\ length n' = d /\
    vadd (mulmv R (vadd Pi (vscale S n))) T = vadd Pj (vscale S n').
Proof.
  unfold geomb. intros H i Pi Hi n Hn. repeat (apply andb_true_iff in H; destruct H as [H ?]).
  apply Z.ltb_lt in H. rename H into HS. rename H0 into Hall. rename H1 into Lidx. rename H2 into HP.
  rename H3 into HT. rename H4 into HR. rename H5 into LR.
  apply Nat.eqb_eq in LR. apply Nat.eqb_eq in Lidx. unfold shapedb in HT. apply Nat.eqb_eq in HT.
  rewrite forallb_forall in HR, HP, Hall.
  assert (LPi : length Pi = d) by (apply Nat.eqb_eq, (HP Pi), (nth_error_In _ _ Hi)).
  assert (Hin : In (Z.of_nat i, Pi) (enumerate P)) by (unfold enumerate, zrange; apply (enumerate_in P 0 i), Hi).
  specialize (Hall _ Hin). cbv beta iota in Hall. rewrite Nat2Z.id in Hall.
  destruct (nth_error P (Z.to_nat (nth i idx 0))) as [Pj|] eqn:Ej; [|discriminate].
  apply andb_true_iff in Hall. destruct Hall as [_ Hdiv].
  assert (LPj : length Pj = d) by (apply Nat.eqb_eq, (HP Pj), (nth_error_In _ _ Ej)).
  assert (Lm : forall v, length (mulmv R v) = d) by (intros v; unfold mulmv; rewrite map_length; exact LR).
  set (w := vsub (vadd (mulmv R Pi) T) Pj) in *.
  assert (Lw : length w = d) by (unfold w; rewrite vsub_length; rewrite vadd_length; rewrite ?Lm; lia).
  assert (Lvs : forall v, length (vscale S v) = length v) by (intros v; unfold vscale; apply map_length).
  set (q := map (fun x => x / S) w).
  assert (Lq : length q = d) by (unfold q; rewrite map_length; exact Lw).
  assert (Ln' : length (vadd (mulmv R n) q) = d) by (rewrite vadd_length; rewrite Lm; lia).
  assert (La1 : length (vadd Pi (vscale S n)) = d) by (rewrite vadd_length; rewrite ?Lvs; lia).
  assert (Llhs : length (vadd (mulmv R (vadd Pi (vscale S n))) T) = d) by (rewrite vadd_length; rewrite Lm; lia).
  assert (Lrhs : length (vadd Pj (vscale S (vadd (mulmv R n) q))) = d) by (rewrite vadd_length; rewrite ?Lvs; lia).
  exists Pj, (vadd (mulmv R n) q).
  split; [reflexivity|]. split; [exact Ln'|].
  apply (nth_ext _ _ 0 0); [lia|].
  intros k Hk. rewrite Llhs in Hk.
    rewrite nth_vadd by (rewrite Lm; lia). rewrite nth_mulmv by lia.
    rewrite dot_linear by lia.
    rewrite nth_vadd by (rewrite Lvs; lia).
    rewrite nth_vscale. rewrite nth_vadd by (rewrite Lm; lia). rewrite nth_mulmv by lia.
    assert (Hw : nth k w 0 = dot (nth k R []) Pi + nth k T 0 - nth k Pj 0).
    { unfold w. rewrite nth_vsub by (rewrite vadd_length; rewrite ?Lm; lia).
      rewrite nth_vadd by (rewrite Lm; lia). rewrite nth_mulmv by lia. reflexivity. }
    assert (Hd : nth k w 0 mod S = 0).
    { unfold divisibleb in Hdiv. rewrite forallb_forall in Hdiv. apply Z.eqb_eq, Hdiv, nth_In. lia. }
    assert (Hqk : nth k q 0 = nth k w 0 / S).
    { unfold q. rewrite (nth_indep (map (fun x => x / S) w) 0 (0 / S)) by (rewrite map_length; lia).
      exact (map_nth (fun x => x / S) w 0 k). }
    rewrite Hqk.
    assert (Hq : nth k w 0 = S * (nth k w 0 / S)) by (apply Z_div_exact_full_2; lia).
    lia.
Qed.

(* ---------- C29: defect content of a supercell ---------- *)
Lemma set_all_nth l : forall o k, ~ In k (map (fun p => Z.to_nat (fst p)) l) -> nth_error (set_all o l) k = nth_error o k.
Proof.
  induction l as [|[i c] t IH]; intros o k H; cbn [set_all]; [reflexivity|].
  rewrite IH by (intros Hx; apply H; right; exact Hx).
  apply nth_error_upd_neq. intros ->. apply H. left. reflexivity.
Qed.

Lemma set_all_hit l : forall o i c, NoDup (map fst l) -> (forall p, In p l -> 0 <= fst p < zlen o) -> In (i, c) l ->
  nth_error (set_all o l) (Z.to_nat i) = Some c.
Proof.
  induction l as [|[i0 c0] t IH]; intros o i c ND R Hin; [destruct Hin|].
  cbn [map fst] in ND. apply NoDup_cons_iff in ND. destruct ND as [Hnin ND]. cbn [set_all].
  assert (R0 := R (i0, c0) (or_introl eq_refl)). cbn [fst] in R0.
  destruct Hin as [Hin|Hin].
  - injection Hin as -> ->. rewrite set_all_nth.
    + apply nth_error_upd_eq. unfold zlen in R0. lia.
    + intros Hx. apply in_map_iff in Hx. destruct Hx as [p [Ep Hp]]. apply Hnin. apply in_map_iff. exists p. split; [|exact Hp].
      assert (Rp := R p (or_intror Hp)). lia.
  - apply IH; [exact ND| |exact Hin]. intros p Hp. unfold zlen. rewrite upd_length. apply R. right. exact Hp.
Qed.

(* the supercell's occupation is the reference occupation with exactly the listed sites changed,
   each to a species different from the reference *)
Theorem defectsb_sound ref o defects : defectsb ref o defects = true ->
  length o = length ref /\
  (forall i c, In (i, c) defects -> 0 <= i /\ nth_error o (Z.to_nat i) = Some c /\ nth_error ref (Z.to_nat i) <> Some c) /\
  (forall k, ~ In (Z.of_nat k) (map fst defects) -> nth_error o k = nth_error ref k).
Proof.
  unfold defectsb. intros H. repeat (apply andb_true_iff in H; destruct H as [H ?]).
  apply nodupb_sound in H. apply zlist_eqb_eq in H0. subst o. rewrite forallb_forall in H1.
  assert (R : forall p, In p defects -> 0 <= fst p < zlen ref).
  { intros p Hp. specialize (H1 p Hp). apply andb_true_iff in H1. destruct H1 as [Hab _].
    apply andb_true_iff in Hab. destruct Hab as [Ha Hb]. apply Z.leb_le in Ha. apply Z.ltb_lt in Hb. lia. }
  split; [|split].
  - clear H H1. revert ref R. induction defects as [|[i c] t IH]; intros ref R; cbn [set_all]; [reflexivity|].
    rewrite IH; [apply upd_length|]. intros p Hp. unfold zlen. rewrite upd_length. apply R. right. exact Hp.
  - intros i c Hin. assert (Ri := R (i, c) Hin). cbn [fst] in Ri. split; [lia|]. split; [apply set_all_hit; assumption|].
    specialize (H1 (i, c) Hin). apply andb_true_iff in H1. destruct H1 as [_ Hc]. cbn [fst snd] in Hc.
    apply negb_true_iff, Z.eqb_neq in Hc. intros E. apply Hc. apply (nth_error_nth _ _ (-2)) in E. exact E.
  - intros k Hk. apply set_all_nth. intros Hx. apply Hk. apply in_map_iff in Hx. destruct Hx as [p [Ep Hp]].
    apply in_map_iff. exists p. split; [|exact Hp]. assert (Rp := R p Hp). lia.
Qed.

(* the two endpoints of a transition differ by one atom of species c that sits on site i in the first and on
   site j (vacant in the first) in the second; every other site is unchanged *)
Theorem one_moveb_sound o1 o2 i j c : one_moveb o1 o2 i j c = true ->
  i <> j /\ 0 <= i /\ 0 <= j /\
  nth_error o1 (Z.to_nat i) = Some c /\ nth_error o1 (Z.to_nat j) = Some (-1) /\
  nth_error o2 (Z.to_nat i) = Some (-1) /\ nth_error o2 (Z.to_nat j) = Some c /\
  (forall k, k <> Z.to_nat i -> k <> Z.to_nat j -> nth_error o2 k = nth_error o1 k).
Proof.
  unfold one_moveb. intros H. repeat (apply andb_true_iff in H; destruct H as [H ?]).
  apply negb_true_iff, Z.eqb_neq in H. apply Z.leb_le in H6. apply Z.ltb_lt in H5. apply Z.leb_le in H4. apply Z.ltb_lt in H3.
  apply Z.eqb_eq in H2. apply Z.eqb_eq in H1. apply zlist_eqb_eq in H0. subst o2. unfold zlen in *.
  assert (Li : (Z.to_nat i < length o1)%nat) by lia. assert (Lj : (Z.to_nat j < length o1)%nat) by lia.
  assert (Hne : Z.to_nat i <> Z.to_nat j) by lia.
  split; [exact H|]. split; [exact H6|]. split; [exact H4|].
  split; [rewrite (nth_error_nth' _ _ (-2) Li); f_equal; exact H2|].
  split; [rewrite (nth_error_nth' _ _ (-2) Lj); f_equal; exact H1|].
  split; [rewrite nth_error_upd_neq by exact Hne; apply nth_error_upd_eq; exact Li|].
  split; [apply nth_error_upd_eq; rewrite upd_length; exact Lj|].
  intros k Hi Hj. rewrite nth_error_upd_neq by exact Hj. apply nth_error_upd_neq. exact Hi.
Qed.

(* a vector inside the half-open cube is the only member of its class modulo supercell translations there:
   its half-cell image is itself, and no other translate lies in the cube *)
Theorem in_half_cell_unique D X2 : in_half_cellb D X2 = true ->
  forall n, length n = length X2 -> in_half_cellb D (vadd X2 (vscale (2 * D) n)) = true -> Forall (fun x => x = 0) n.
Proof.
  unfold in_half_cellb. revert X2. intros X2. induction X2 as [|x X2 IH]; intros H n Hn H2.
  - destruct n; [constructor|discriminate].
  - destruct n as [|a n]; [discriminate|]. cbn [forallb vadd vscale map] in H, H2. apply andb_true_iff in H. destruct H as [Hx H].
    apply andb_true_iff in H2. destruct H2 as [Hx2 H2].
    apply andb_true_iff in Hx. destruct Hx as [A1 A2]. apply andb_true_iff in Hx2. destruct Hx2 as [B1 B2].
    apply Z.leb_le in A1. apply Z.ltb_lt in A2. apply Z.leb_le in B1. apply Z.ltb_lt in B2.
    constructor; [destruct (Z_lt_le_dec a 0); [nia|destruct (Z_lt_le_dec 0 a); [nia|lia]]|].
    apply IH; [exact H|cbn in Hn; lia|exact H2].
Qed.

(* ---------- C30: the tag <-> directory map ---------- *)
Lemma str_mem_in x l : str_mem x l = true -> In x l.
Proof.
  induction l as [|h t IH]; cbn; [discriminate|]. intros H. apply orb_true_iff in H. destruct H as [H|H].
  - left. symmetry. apply zlist_eqb_eq, H.
  - right. apply IH, H.
Qed.

Lemma str_mem_complete x l : In x l -> str_mem x l = true.
Proof.
  induction l as [|h t IH]; cbn; [tauto|]. intros [->|H]; [rewrite zlist_eqb_refl; reflexivity|].
  rewrite (IH H). apply orb_true_r.
Qed.

Lemma str_nodupb_sound l : str_nodupb l = true -> NoDup l.
Proof.
  induction l as [|h t IH]; cbn; intros H; [constructor|]. apply andb_true_iff in H. destruct H as [H1 H2].
  constructor; [|apply IH, H2]. intros Hin. rewrite (str_mem_complete _ _ Hin) in H1. discriminate.
Qed.

(* tags.json is a bijection between the tags and the state/transition directories of the archive:
   no tag twice, no directory twice, every mapped directory exists, every existing directory is mapped *)
Theorem bijectionb_sound pairs dirs : bijectionb pairs dirs = true ->
  NoDup (map fst pairs) /\ NoDup (map snd pairs) /\
  (forall d, In d dirs <-> exists tag, In (tag, d) pairs).
Proof.
  unfold bijectionb. intros H. repeat (apply andb_true_iff in H; destruct H as [H ?]).
  apply str_nodupb_sound in H. apply str_nodupb_sound in H3. apply str_nodupb_sound in H2. apply Nat.eqb_eq in H1.
  rewrite forallb_forall in H0.
  split; [exact H|]. split; [exact H3|].
  assert (Hincl : incl (map snd pairs) dirs).
  { intros d Hd. apply in_map_iff in Hd. destruct Hd as [p [<- Hp]]. apply str_mem_in, H0, Hp. }
  assert (Hback : incl dirs (map snd pairs)).
  { apply (NoDup_length_incl H3); [rewrite map_length; lia|exact Hincl]. }
  intros d. split.
  - intros Hd. apply Hback in Hd. apply in_map_iff in Hd. destruct Hd as [[tag d'] [E Hp]]. cbn in E. subst d'. exists tag. exact Hp.
  - intros [tag Hp]. apply Hincl. apply in_map_iff. exists (tag, d). split; [reflexivity|exact Hp].
Qed.

(* ---------- non-vacuity ---------- *)
Example ex_equiv :
  let A := mkSC [0; -1; 0; 1] [[0; 2]; [3]] in
  let B := mkSC [-1; 0; 1; 0] [[3; 1]; [2]] in
  equivb [1; 0; 3; 2] [[1; 0]; [0]] A B = true /\ permb 4 [1; 0; 3; 2] = true /\
  invb 4 2 A = true /\ nomapb [[0; 1; 2; 3]; [2; 3; 0; 1]] A B = true /\ maps_occb [1; 0; 3; 2] A B = true.
Proof. vm_compute. repeat split; reflexivity. Qed.

Example ex_geom :   (* 2x1x1 simple cubic cell, sites at 0 and 1/2: the half translation swaps them; a mirror keeps them *)
  geomb 3 2 [[1; 0; 0]; [0; 1; 0]; [0; 0; 1]] [1; 0; 0] [[0; 0; 0]; [1; 0; 0]] [1; 0] = true /\
  geomb 3 2 [[-1; 0; 0]; [0; 1; 0]; [0; 0; 1]] [0; 0; 0] [[0; 0; 0]; [1; 0; 0]] [0; 1] = true /\
  geomb 3 2 [[1; 0; 0]; [0; 1; 0]; [0; 0; 1]] [1; 0; 0] [[0; 0; 0]; [1; 0; 0]] [0; 1] = false.
Proof. vm_compute. repeat split; reflexivity. Qed.

Example ex_content :
  defectsb [0; 0; 0; 0] [0; 1; 0; -1] [(1, 1); (3, -1)] = true /\
  one_moveb [0; 1; 0; -1] [0; 1; -1; 0] 2 3 0 = true /\
  in_half_cellb 4 [-4; 3; 0] = true /\ in_half_cellb 4 [4; 0; 0] = false /\
  bijectionb [([118], [114; 48]); ([115], [114; 49])] [[114; 49]; [114; 48]] = true.
Proof. vm_compute. repeat split; reflexivity. Qed.

(* ---------- C30: transformation files and Makefile prerequisites ---------- *)
Theorem transfileb_sound idx flat A B : transfileb idx flat A B = true ->
  map zlen (chemorder A) = map zlen (chemorder B) /\
  (forall f, In f flat -> 0 <= f < zlen (concat (chemorder A))) /\
  map (fun f => nth (Z.to_nat f) (line_species (chemorder A)) (-1)) flat = line_species (chemorder B) /\
  concat (chemorder B) = map (fun f => site_image idx (nth (Z.to_nat f) (concat (chemorder A)) 0)) flat.
Proof.
  unfold transfileb. intros H. repeat (apply andb_true_iff in H; destruct H as [H ?]).
  apply zlist_eqb_eq in H. apply zlist_eqb_eq in H0. apply zlist_eqb_eq in H1. rewrite forallb_forall in H2.
  split; [exact H|]. split; [|split; assumption].
  intros f Hf. specialize (H2 f Hf). apply andb_true_iff in H2. destruct H2 as [X Y].
  apply Z.leb_le in X. apply Z.ltb_lt in Y. lia.
Qed.

Theorem depsb_sound deps files : depsb deps files = true -> forall d, In d deps -> In d files.
Proof. unfold depsb. intros H d Hd. rewrite forallb_forall in H. apply str_mem_in, H, Hd. Qed.

Example ex_transfile :
  let A := mkSC [0; -1; 0; 1] [[0; 2]; [3]] in
  let B := mkSC [-1; 0; 1; 0] [[3; 1]; [2]] in
  flatten_mapping [[1; 0]; [0]] = [1; 0; 2] /\ transfileb [1; 0; 3; 2] [1; 0; 2] A B = true /\
  transfileb [1; 0; 3; 2] [0; 1; 2] A B = false /\ depsb [[1]; [2]] [[2]; [3]; [1]] = true.
Proof. vm_compute. repeat split; reflexivity. Qed.
