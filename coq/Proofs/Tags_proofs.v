(* C15: the tag -> class mapping of tags2preene (Model/Tags.v). *)
From Coq Require Import List Arith Bool Lia.
From Onsager Require Import Model.Codec Model.Tags Proofs.Codec_proofs.
Import ListNotations.

Section TagsProofs.
Variable T : Type.
Variable teqb : T -> T -> bool.
Variable D : Type.
Hypothesis teqb_spec : forall a b, teqb a b = true <-> a = b.

Notation memb := (memb teqb).
Notation find_class := (find_class teqb).

Lemma memb_In t c : memb t c = true <-> In t c.
Proof.
  unfold Tags.memb. rewrite existsb_exists. split.
  - intros (x & Hx & E). apply teqb_spec in E. subst. exact Hx.
  - intro H. exists t. split; [exact H | apply teqb_spec; reflexivity].
Qed.

(* every tag belongs to at most one class (generatetags raises ValueError otherwise) *)
Definition disjoint (classes : list (list T)) : Prop :=
  forall n m t, n < length classes -> m < length classes ->
    In t (nth n classes []) -> In t (nth m classes []) -> n = m.

Lemma find_class_some t classes : forall k n, find_class t classes k = Some n ->
  k <= n /\ n - k < length classes /\ In t (nth (n - k) classes []).
Proof.
  induction classes as [|c r IH]; intros k n E; cbn [Tags.find_class] in E; [discriminate|].
  destruct (memb t c) eqn:M.
  - injection E as <-. rewrite Nat.sub_diag. cbn. split; [lia | split; [lia | apply memb_In; exact M]].
  - destruct (IH _ _ E) as (L & B & I). split; [lia|]. cbn [length]. split; [lia|].
    replace (n - k) with (S (n - S k)) by lia. exact I.
Qed.

Lemma find_class_none t classes : forall k, find_class t classes k = None <-> existsb (memb t) classes = false.
Proof.
  induction classes as [|c r IH]; intro k; cbn [Tags.find_class existsb]; [split; reflexivity|].
  destruct (memb t c); cbn [orb]; [split; discriminate | apply IH].
Qed.

Lemma find_class_first t classes : forall k n, n < length classes -> In t (nth n classes []) ->
  exists m, find_class t classes k = Some (k + m) /\ m <= n.
Proof.
  induction classes as [|c r IH]; intros k n L I; cbn in L; [lia|]. cbn [Tags.find_class].
  destruct (memb t c) eqn:M; [exists 0; split; [f_equal; lia | lia]|].
  destruct n as [|n]; [cbn in I; apply memb_In in I; congruence|].
  destruct (IH (S k) n) as (m & E & Lm); [lia | exact I|]. exists (S m). split; [rewrite E; f_equal; lia | lia].
Qed.

Lemma find_class_disjoint classes t n : disjoint classes -> n < length classes ->
  (find_class t classes 0 = Some n <-> In t (nth n classes [])).
Proof.
  intros Dj L. split.
  - intro E. destruct (find_class_some _ _ _ _ E) as (_ & _ & I). rewrite Nat.sub_0_r in I. exact I.
  - intro I. destruct (find_class_first t classes 0 n L I) as (m & E & Lm). cbn in E. rewrite E. f_equal.
    destruct (find_class_some _ _ _ _ E) as (_ & B & I'). rewrite Nat.sub_0_r in *.
    apply (Dj m n t); assumption.
Qed.

(* ---------- the VERBOSE report ---------- *)
Definition optnat_eqb (a : option nat) (n : nat) : bool := match a with Some m => Nat.eqb m n | None => false end.

Lemma bucket_known classes keys n :
  bucket T (known_pairs teqb classes keys) n = filter (fun t => optnat_eqb (find_class t classes 0) n) keys.
Proof.
  unfold bucket. induction keys as [|t r IH]; [reflexivity|]. cbn [Tags.known_pairs filter].
  destruct (find_class t classes 0) as [m|] eqn:E; cbn [optnat_eqb].
  - cbn [filter snd]. destruct (Nat.eqb m n); cbn [map fst]; rewrite IH; reflexivity.
  - exact IH.
Qed.

Lemma known_pairs_bound classes keys p : In p (known_pairs teqb classes keys) -> snd p < length classes.
Proof.
  induction keys as [|t r IH]; cbn [Tags.known_pairs]; [intros []|].
  destruct (find_class t classes 0) as [m|] eqn:E; [|exact IH].
  intros [<-|H]; [|apply IH; exact H]. cbn. destruct (find_class_some _ _ _ _ E) as (_ & B & _). lia.
Qed.

Lemma nth_map_in {A B} (f : A -> B) l n d d' : n < length l -> nth n (map f l) d' = f (nth n l d).
Proof. intro H. rewrite (nth_indep _ d' (f d)) by (rewrite map_length; exact H). apply map_nth. Qed.

Lemma buckets_are_hits classes keys : disjoint classes ->
  bucket_loop (repeat [] (length classes)) (known_pairs teqb classes keys) = map (fun c => hits teqb c keys) classes.
Proof.
  intro Dj.
  destruct (bucket_loop_spec T (known_pairs teqb classes keys) (repeat [] (length classes))) as [L N].
  { intros p Hp. rewrite repeat_length. apply (known_pairs_bound classes keys p Hp). }
  rewrite repeat_length in L.
  apply nth_ext with (d := []) (d' := []); [rewrite L, map_length; reflexivity|].
  intros n Hn. rewrite L in Hn. rewrite N, nth_repeat_nil, bucket_known. cbn [app].
  rewrite (nth_map_in (fun c => hits teqb c keys) classes n [] []) by exact Hn. unfold hits. apply filter_ext. intro t.
  destruct (find_class t classes 0) as [m|] eqn:E; cbn [optnat_eqb].
  - destruct (Nat.eqb_spec m n) as [->|Ne].
    + symmetry. apply memb_In. apply (find_class_disjoint classes t n Dj Hn). exact E.
    + destruct (Tags.memb teqb t (nth n classes [])) eqn:M; [|reflexivity]. exfalso. apply Ne.
      apply memb_In in M. apply (find_class_disjoint classes t n Dj Hn) in M. congruence.
  - destruct (Tags.memb teqb t (nth n classes [])) eqn:M; [|reflexivity]. exfalso.
    apply memb_In in M. apply (find_class_disjoint classes t n Dj Hn) in M. congruence.
Qed.

Lemma filter_combine_map {A B} (f : A -> B) (p : B -> bool) (l : list A) :
  map fst (filter (fun x => p (snd x)) (combine l (map f l))) = filter (fun a => p (f a)) l.
Proof. induction l as [|a l IH]; [reflexivity|]. cbn. destruct (p (f a)); cbn; rewrite IH; reflexivity. Qed.

(* The verbose report lists precisely: the classes no supplied tag belongs to; for every class with two or more
   supplied member tags, exactly those tags; and the supplied tags that belong to no class. *)
Theorem report_exact (classes : list (list T)) (ud : list (T * D)) : disjoint classes ->
  report teqb classes ud = report_spec teqb classes ud.
Proof.
  intro Dj. unfold report, report_spec. rewrite (buckets_are_hits classes (map fst ud) Dj).
  f_equal; [f_equal|].
  - apply (filter_combine_map (fun c => hits teqb c (map fst ud)) (@is_nil T)).
  - apply filter_ext. intro t. f_equal. unfold is_known.
    destruct (find_class t classes 0) eqn:E.
    + destruct (existsb (Tags.memb teqb t) classes) eqn:X; [reflexivity|]. apply (find_class_none t classes 0) in X. congruence.
    + symmetry. apply (find_class_none t classes 0). exact E.
Qed.

(* ---------- data ---------- *)
Lemma assoc_In t (ud : list (T * D)) v : assoc teqb t ud = Some v -> In (t, v) ud.
Proof.
  induction ud as [|[k w] r IH]; cbn [Tags.assoc]; [discriminate|].
  destruct (teqb k t) eqn:E; [intro X; injection X as <-; apply teqb_spec in E; subst; left; reflexivity | intro X; right; apply IH; exact X].
Qed.
Lemma assoc_None t (ud : list (T * D)) : assoc teqb t ud = None <-> ~ In t (map fst ud).
Proof.
  induction ud as [|[k w] r IH]; cbn [Tags.assoc map fst In]; [tauto|].
  destruct (teqb k t) eqn:E.
  - apply teqb_spec in E. subst. split; [discriminate | intro N; exfalso; apply N; left; reflexivity].
  - rewrite IH. split; [intros N [X|X]; [subst; rewrite (proj2 (teqb_spec t t) eq_refl) in E; discriminate | contradiction] | tauto].
Qed.

(* first member in class order that was supplied wins *)
Theorem class_value_first (cls : list T) (ud : list (T * D)) v :
  class_value teqb cls ud = Some v <->
  exists pre t post, cls = pre ++ t :: post /\ assoc teqb t ud = Some v /\ forall s, In s pre -> assoc teqb s ud = None.
Proof.
  induction cls as [|t r IH]; cbn [Tags.class_value].
  - split; [discriminate | intros (pre & t & post & E & _); destruct pre; discriminate].
  - destruct (assoc teqb t ud) as [w|] eqn:A.
    + split.
      * intro X; injection X as <-. exists [], t, r. split; [reflexivity | split; [exact A | intros s []]].
      * intros (pre & t' & post & E & A' & N). destruct pre as [|p pre]; cbn in E; injection E as -> ->; [congruence|].
        rewrite (N p (or_introl eq_refl)) in A. discriminate.
    + rewrite IH. split.
      * intros (pre & t' & post & -> & A' & N). exists (t :: pre), t', post. split; [reflexivity | split; [exact A'|]].
        intros s [<-|H]; [exact A | apply N; exact H].
      * intros (pre & t' & post & E & A' & N). destruct pre as [|p pre]; cbn in E; injection E as -> ->; [congruence|].
        exists pre, t', post. split; [reflexivity | split; [exact A' | intros s H; apply N; right; exact H]].
Qed.

Lemma class_value_None (cls : list T) (ud : list (T * D)) :
  class_value teqb cls ud = None <-> forall t, In t cls -> assoc teqb t ud = None.
Proof.
  induction cls as [|t r IH]; cbn [Tags.class_value]; [split; [intros _ ? [] | reflexivity]|].
  destruct (assoc teqb t ud) eqn:A.
  - split; [discriminate | intro H; rewrite (H t (or_introl eq_refl)) in A; discriminate].
  - rewrite IH. split; [intros H s [<-|I]; [exact A | apply H; exact I] | intros H s I; apply H; right; exact I].
Qed.

Lemma fill_nth_error classes : forall (dflt : list D) ud i,
  nth_error (fill teqb classes dflt ud) i =
  match nth_error classes i, nth_error dflt i with
  | Some c, Some d => Some (match class_value teqb c ud with Some v => v | None => d end)
  | _, _ => None
  end.
Proof.
  induction classes as [|c cs IH]; intros dflt ud i.
  - cbn. destruct i; reflexivity.
  - destruct dflt as [|d ds]; cbn [Tags.fill].
    + destruct i; cbn; [reflexivity | destruct (nth_error cs i); reflexivity].
    + destruct i as [|i]; cbn [nth_error]; [reflexivity | apply IH].
Qed.

Lemma nth_error_ext {A} (a b : list A) : (forall i, nth_error a i = nth_error b i) -> a = b.
Proof.
  revert b; induction a as [|x a IH]; intros [|y b] H; try reflexivity; try (specialize (H 0); discriminate).
  f_equal; [specialize (H 0); cbn in H; congruence | apply IH; intro i; exact (H (S i))].
Qed.

(* Supplying data under ANY one member tag of each class reproduces exactly that data. *)
Theorem one_member_reproduces (classes : list (list T)) (chosen : list T) (xs dflt : list D) :
  disjoint classes -> length chosen = length classes -> length xs = length classes -> length dflt = length classes ->
  (forall i t, nth_error chosen i = Some t -> exists c, nth_error classes i = Some c /\ In t c) ->
  fill teqb classes dflt (combine chosen xs) = xs.
Proof.
  intros Dj Lc Lx Ld Mem. apply nth_error_ext. intro i. rewrite fill_nth_error.
  destruct (nth_error classes i) as [c|] eqn:Ec.
  2:{ apply nth_error_None in Ec. symmetry. apply nth_error_None. lia. }
  assert (Li : i < length classes) by (apply nth_error_Some; congruence).
  destruct (nth_error dflt i) as [d|] eqn:Ed; [|apply nth_error_None in Ed; lia].
  destruct (nth_error chosen i) as [t|] eqn:Et; [|apply nth_error_None in Et; lia].
  destruct (nth_error xs i) as [x|] eqn:Ex; [|apply nth_error_None in Ex; lia].
  f_equal.
  destruct (Mem i t Et) as (c' & Ec' & It). rewrite Ec in Ec'. injection Ec' as <-.
  (* position of a key in the dictionary *)
  assert (Pos : forall s v, assoc teqb s (combine chosen xs) = Some v ->
                 exists j, nth_error chosen j = Some s /\ nth_error xs j = Some v).
  { clear - teqb_spec. revert xs. induction chosen as [|k ks IH]; intros [|y ys] s v A; cbn in A; try discriminate.
    destruct (teqb k s) eqn:E.
    - injection A as <-. apply teqb_spec in E. subst. exists 0. split; reflexivity.
    - destruct (IH ys s v A) as (j & J1 & J2). exists (S j). split; assumption. }
  assert (Key : In t (map fst (combine chosen xs))).
  { clear - Et Ex. revert xs i Et Ex. induction chosen as [|k ks IH]; intros [|y ys] [|i] Et Ex; cbn in *; try discriminate.
    - injection Et as ->. left; reflexivity.
    - right. apply (IH ys i); assumption. }
  destruct (class_value teqb c (combine chosen xs)) as [v|] eqn:CV.
  - apply class_value_first in CV as (pre & s & post & Ecs & As & _).
    destruct (Pos s v As) as (j & J1 & J2).
    destruct (Mem j s J1) as (cj & Ecj & Isj).
    assert (Lj : j < length classes) by (apply nth_error_Some; congruence).
    assert (Isi : In s c) by (rewrite Ecs; apply in_or_app; right; left; reflexivity).
    assert (E : j = i).
    { apply (Dj j i s Lj Li).
      - rewrite (nth_error_nth _ _ _ Ecj). exact Isj.
      - rewrite (nth_error_nth _ _ _ Ec). exact Isi. }
    subst j. congruence.
  - exfalso. rewrite class_value_None in CV. specialize (CV t It). apply assoc_None in CV. contradiction.
Qed.

(* the LIMB back-fill only supplies the entries of omega1/omega2 for which no member tag was given *)
Theorem tags2preene_entries (limb : list D -> list D -> list D -> list D -> list D * list D)
        cV cS cSV c0 c1 c2 one ud fV fS fSV f0 f1 f2 :
  tags2preene teqb limb cV cS cSV c0 c1 c2 one ud = (fV, fS, fSV, f0, f1, f2) ->
  fV = fill teqb cV (repeat one (length cV)) ud /\ fS = fill teqb cS (repeat one (length cS)) ud /\
  fSV = fill teqb cSV (repeat one (length cSV)) ud /\ f0 = fill teqb c0 (repeat one (length c0)) ud /\
  f1 = fill teqb c1 (fst (limb fV fS fSV f0)) ud /\ f2 = fill teqb c2 (snd (limb fV fS fSV f0)) ud.
Proof.
  unfold tags2preene. destruct (limb _ _ _ _) as [d1 d2] eqn:E. intro X. injection X as <- <- <- <- <- <-.
  rewrite E. repeat split.
Qed.

End TagsProofs.

(* ---------- non-vacuity ---------- *)
Example report_example :
  let classes := [[1; 2]; [3]; [4; 5; 6]; [7]] in
  let ud := [(5, 50); (9, 90); (1, 10); (4, 40); (2, 20)] in
  report Nat.eqb classes ud = ([[3]; [7]], [[1; 2]; [5; 4]], [9]) /\
  fill Nat.eqb classes [0; 0; 0; 0] ud = [10; 0; 40; 0].
Proof. split; vm_compute; reflexivity. Qed.

Example one_member_example :
  fill Nat.eqb [[1; 2]; [3]; [4; 5; 6]] [0; 0; 0] (combine [2; 3; 6] [20; 30; 60]) = [20; 30; 60].
Proof. vm_compute. reflexivity. Qed.
