(* Theorems about Model/Relax.v (C12): Dirichlet form of the symmetrised rate matrix,
   Parseval-type sum rule for the loss tensors, symmetry / positivity of every loss tensor,
   soundness of the checker run on the implementation's output.
   Everything for an arbitrary ordered commutative ring and arbitrary finite networks. *)
From Coq Require Import List Arith Bool Lia Ring.
From Onsager Require Import Base.OrdRing Base.Instances Model.Net Model.Harmonic Model.Relax Proofs.Harmonic_proofs.
Import ListNotations.

Section RelaxProofs.
Variable K : ordring.
Notation "0" := (r0 K). Notation "1" := (r1 K).
Infix "+" := (radd K). Infix "*" := (rmul K). Infix "-" := (rsub K).
Notation "- x" := (ropp K x).
Infix "<=" := (rle K).
Add Ring KringR : (r_ring K).

Notation redge := (redge K).
Notation rnet := (rnet K).
Implicit Types (R : rnet) (phi psi s : nat -> K).

Lemma rwfb_sound R n : rwfb R n = true -> rwf R n.
Proof.
  unfold rwfb, rwf. intros H e He. rewrite forallb_forall in H. specialize (H e He).
  apply andb_true_iff in H. destruct H as [H1 H2].
  apply Nat.ltb_lt in H1. apply Nat.ltb_lt in H2. split; assumption.
Qed.

Lemma ind_sym (x y : nat) : @ind K x y = ind y x.
Proof. unfold ind. rewrite Nat.eqb_sym. reflexivity. Qed.

(* sum_x phi_x * (ind x y * a) picks phi_y * a *)
Lemma pick_scaled phi (y n : nat) (a : K) : y < n ->
  sumf (fun x => phi x * (ind x y * a)) (seq 0 n) = phi y * a.
Proof.
  intro Hy. transitivity (a * sumf (fun x => phi x * ind x y) (seq 0 n)).
  - rewrite <- sumf_scal. apply sumf_ext. intros x _. ring.
  - rewrite (sumf_ind_pick K phi y n Hy). ring.
Qed.

(* ---------------------------------------------------------------- Dirichlet form ------ *)
(* the edge-wise quadratic form IS phi^T (-omega) phi *)
Theorem qform_matvec R n phi : rwf R n ->
  sumf (fun x => phi x * momega R phi x) (seq 0 n) = qform R phi.
Proof.
  intros Hwf. unfold momega, qform.
  transitivity (sumf (fun x => sumf (fun e =>
       phi x * (ind x (ri e) * (phi (ri e) * lf e - phi (rj e) * sw e))
     + phi x * (ind x (rj e) * (phi (rj e) * lb e - phi (ri e) * sw e))) R) (seq 0 n)).
  { apply sumf_ext. intros x _. rewrite <- sumf_scal. apply sumf_ext. intros e _. ring. }
  rewrite sumf_swap. apply sumf_ext. intros e He. destruct (Hwf e He) as [Hi Hj].
  rewrite sumf_add. rewrite (pick_scaled phi (ri e) n _ Hi), (pick_scaled phi (rj e) n _ Hj).
  unfold qedge. ring.
Qed.

Lemma qedge_balanced s psi e :
  s (ri e) * lf e = sw e * s (rj e) -> s (rj e) * lb e = sw e * s (ri e) ->
  qedge (fun x => s x * psi x) e
  = (s (ri e) * s (rj e) * sw e) * ((psi (rj e) - psi (ri e)) * (psi (rj e) - psi (ri e))).
Proof.
  intros H1 H2. unfold qedge.
  replace (s (ri e) * psi (ri e) * (s (ri e) * psi (ri e)) * lf e)
    with (s (ri e) * psi (ri e) * psi (ri e) * (s (ri e) * lf e)) by ring.
  replace (s (rj e) * psi (rj e) * (s (rj e) * psi (rj e)) * lb e)
    with (s (rj e) * psi (rj e) * psi (rj e) * (s (rj e) * lb e)) by ring.
  rewrite H1, H2. ring.
Qed.

(* phi^T(-omega)phi with phi = sqrt(rho) psi is the Dirichlet energy of psi on the conductance
   network of Net.v (Bform with zero displacement) *)
Theorem dirichlet_identity R s psi : balanced s R ->
  qform R (fun x => s x * psi x) = Bform (cnet s R) zerod zerod psi psi.
Proof.
  intros Hb. unfold qform, Bform, cnet. rewrite sumf_map. apply sumf_ext. intros e He.
  destruct (Hb e He) as [H1 H2]. rewrite (qedge_balanced s psi e H1 H2).
  unfold flux, grad, zerod; cbn [src dst cond]. ring.
Qed.

Theorem dirichlet_squares R s psi : balanced s R ->
  qform R (fun x => s x * psi x)
  = sumf (fun e => (s (ri e) * s (rj e) * sw e) * ((psi (rj e) - psi (ri e)) * (psi (rj e) - psi (ri e)))) R.
Proof.
  intros Hb. unfold qform. apply sumf_ext. intros e He. destruct (Hb e He) as [H1 H2].
  apply qedge_balanced; assumption.
Qed.

(* the symmetrised rate matrix is negative semidefinite *)
Theorem dirichlet_nsd R s psi :
  balanced s R -> (forall e, In e R -> 0 <= sw e) -> (forall x, 0 <= s x) ->
  0 <= qform R (fun x => s x * psi x).
Proof.
  intros Hb Hsw Hs. rewrite (dirichlet_squares R s psi Hb). apply sumf_nonneg. intros e He.
  apply rle_mul; [| apply rle_sq].
  apply rle_mul; [apply rle_mul; apply Hs | apply Hsw; exact He].
Qed.

(* for an arbitrary vector phi (no division by sqrt(rho)): edge by edge *)
Theorem dirichlet_edge s phi e :
  s (ri e) * lf e = sw e * s (rj e) -> s (rj e) * lb e = sw e * s (ri e) ->
  s (ri e) * s (rj e) * qedge phi e
  = sw e * ((phi (ri e) * s (rj e) - phi (rj e) * s (ri e)) * (phi (ri e) * s (rj e) - phi (rj e) * s (ri e))).
Proof.
  intros H1 H2. unfold qedge.
  transitivity (s (rj e) * phi (ri e) * phi (ri e) * (s (ri e) * lf e)
                + s (ri e) * phi (rj e) * phi (rj e) * (s (rj e) * lb e)
                - (1 + 1) * (s (ri e) * s (rj e) * (phi (ri e) * phi (rj e) * sw e))); [ring|].
  rewrite H1, H2. ring.
Qed.

(* every eigenvalue of -omega is >= 0 (times the squared norm, division free) *)
Theorem eigen_nonneg R n s psi lam :
  rwf R n -> balanced s R -> (forall e, In e R -> 0 <= sw e) -> (forall x, 0 <= s x) ->
  (forall x, x < n -> momega R (fun y => s y * psi y) x = lam * (s x * psi x)) ->
  0 <= lam * nrm2 n (fun y => s y * psi y).
Proof.
  intros Hwf Hb Hsw Hs Heig.
  replace (lam * nrm2 n (fun y => s y * psi y)) with (qform R (fun y => s y * psi y)).
  - apply dirichlet_nsd; assumption.
  - rewrite <- (qform_matvec R n _ Hwf). unfold nrm2. rewrite <- sumf_scal.
    apply sumf_ext. intros x Hx. apply in_seq in Hx. rewrite Heig by lia. ring.
Qed.

(* ---------------------------------------------------------------- sum rule ------------ *)
Lemma sum_prod {A B} (f : A -> K) (g : B -> K) l1 l2 :
  sumf f l1 * sumf g l2 = sumf (fun a => sumf (fun b => f a * g b) l2) l1.
Proof.
  transitivity (sumf (fun a => sumf g l2 * f a) l1).
  - rewrite sumf_scal. ring.
  - apply sumf_ext. intros a _. rewrite sumf_scal. ring.
Qed.

(* Parseval: ANY family of vectors resolving the identity on the complement of s = sqrt(rho)
   (the non-zero eigenvectors of the symmetrised rate matrix of a connected network, in any
   basis of each degenerate eigenspace) gives the same total, the equilibrium covariance *)
Theorem parseval_cov n s (modes : list (nat -> K)) Pa Pb :
  resolution n s modes ->
  sumf (fun phi => Fmode n s phi Pa * Fmode n s phi Pb) modes = cov n (fun i => s i * s i) Pa Pb.
Proof.
  intros Hres. unfold Fmode, cov.
  transitivity (sumf (fun i => sumf (fun j => (s i * Pa i) * (s j * Pb j) * (ind i j - s i * s j)) (seq 0 n)) (seq 0 n)).
  - transitivity (sumf (fun phi => sumf (fun i => sumf (fun j => (s i * Pa i) * (s j * Pb j) * (phi i * phi j)) (seq 0 n)) (seq 0 n)) modes).
    + apply sumf_ext. intros phi _. rewrite sum_prod. apply sumf_ext. intros i _. apply sumf_ext. intros j _. ring.
    + rewrite sumf_swap. apply sumf_ext. intros i Hi.
      rewrite sumf_swap. apply sumf_ext. intros j Hj.
      apply in_seq in Hi. apply in_seq in Hj. rewrite sumf_scal. rewrite Hres by lia. reflexivity.
  - transitivity (sumf (fun i => (s i * Pa i) * (s i * Pb i)
                                 - (s i * s i * Pa i) * sumf (fun j => s j * s j * Pb j) (seq 0 n)) (seq 0 n)).
    + apply sumf_ext. intros i Hi. apply in_seq in Hi.
      transitivity (sumf (fun j => (s i * Pa i) * ((fun j => s j * Pb j) j * ind j i)
                                   - (s i * s i * Pa i) * (s j * s j * Pb j)) (seq 0 n)).
      * apply sumf_ext. intros j _. rewrite (ind_sym i j). ring.
      * rewrite sumf_sub. rewrite !sumf_scal. rewrite (sumf_ind_pick K (fun j => s j * Pb j) i n) by lia. reflexivity.
    + rewrite sumf_sub. f_equal.
      * apply sumf_ext. intros i _. ring.
      * transitivity (sumf (fun j => s j * s j * Pb j) (seq 0 n) * sumf (fun i => s i * s i * Pa i) (seq 0 n)).
        -- rewrite <- sumf_scal. apply sumf_ext. intros i _. ring.
        -- ring.
Qed.

(* unnormalised weights: W rho_i = w_i  =>  W^2 cov(rho) = covW(w)  (what the checker evaluates) *)
Theorem cov_scale n (W : K) rho w Pa Pb :
  (forall i, i < n -> W * rho i = w i) -> W = sumf w (seq 0 n) ->
  W * W * cov n rho Pa Pb = covW n w Pa Pb.
Proof.
  intros Hw HW. unfold cov, covW. rewrite <- HW.
  assert (E1 : sumf (fun i => w i * Pa i * Pb i) (seq 0 n) = W * sumf (fun i => rho i * Pa i * Pb i) (seq 0 n)).
  { rewrite <- sumf_scal. apply sumf_ext. intros i Hi. apply in_seq in Hi. rewrite <- Hw by lia. ring. }
  assert (E2 : forall P, sumf (fun i => w i * P i) (seq 0 n) = W * sumf (fun i => rho i * P i) (seq 0 n)).
  { intros P. rewrite <- sumf_scal. apply sumf_ext. intros i Hi. apply in_seq in Hi. rewrite <- Hw by lia. ring. }
  rewrite E1, (E2 Pa), (E2 Pb). ring.
Qed.

(* ---------------------------------------------------------------- each loss tensor ---- *)
(* L_abcd = F_ab F_cd : compliance symmetries for symmetric site dipoles *)
Theorem loss_sym_pair n s phi Pab Pcd :
  Fmode n s phi Pab * Fmode n s phi Pcd = Fmode n s phi Pcd * Fmode n s phi Pab.
Proof. ring. Qed.

Theorem loss_sym_index n s phi Pab Pba Pcd :
  (forall i, i < n -> Pab i = Pba i) ->
  Fmode n s phi Pab * Fmode n s phi Pcd = Fmode n s phi Pba * Fmode n s phi Pcd.
Proof.
  intros H. f_equal. unfold Fmode. apply sumf_ext. intros i Hi. apply in_seq in Hi. rewrite H by lia. reflexivity.
Qed.

(* positive semidefinite: u.L.u = (u.F)^2 >= 0 for every u, over any list of component pairs *)
Theorem loss_psd {C : Type} (comps : list C) (u F : C -> K) :
  sumf (fun I => sumf (fun J => u I * (F I * F J) * u J) comps) comps
  = sumf (fun I => u I * F I) comps * sumf (fun I => u I * F I) comps
  /\ 0 <= sumf (fun I => sumf (fun J => u I * (F I * F J) * u J) comps) comps.
Proof.
  assert (E : sumf (fun I => sumf (fun J => u I * (F I * F J) * u J) comps) comps
              = sumf (fun I => u I * F I) comps * sumf (fun I => u I * F I) comps).
  { rewrite sum_prod. apply sumf_ext. intros I _. apply sumf_ext. intros J _. ring. }
  split; [exact E | rewrite E; apply rle_sq].
Qed.

(* a tensor within E of a sum of squares is positive semidefinite up to the E term *)
Theorem psd_from_cert {C : Type} (comps : list C) (L E : C -> C -> K) (Fs : list (C -> K)) (u : C -> K) :
  (forall I J, In I comps -> In J comps -> L I J = sumf (fun F => F I * F J) Fs + E I J) ->
  sumf (fun I => sumf (fun J => u I * L I J * u J) comps) comps
  = sumf (fun F => sumf (fun I => u I * F I) comps * sumf (fun I => u I * F I) comps) Fs
    + sumf (fun I => sumf (fun J => u I * E I J * u J) comps) comps
  /\ sumf (fun I => sumf (fun J => u I * E I J * u J) comps) comps
     <= sumf (fun I => sumf (fun J => u I * L I J * u J) comps) comps.
Proof.
  intros H.
  assert (Eq : sumf (fun I => sumf (fun J => u I * L I J * u J) comps) comps
               = sumf (fun F => sumf (fun I => u I * F I) comps * sumf (fun I => u I * F I) comps) Fs
                 + sumf (fun I => sumf (fun J => u I * E I J * u J) comps) comps).
  { transitivity (sumf (fun I => sumf (fun J => sumf (fun F => (u I * F I) * (u J * F J)) Fs + u I * E I J * u J) comps) comps).
    - apply sumf_ext. intros I HI. apply sumf_ext. intros J HJ. rewrite (H I J HI HJ).
      transitivity (sumf (fun F => u I * u J * (F I * F J)) Fs + u I * E I J * u J).
      + rewrite sumf_scal. ring.
      + f_equal. apply sumf_ext. intros F _. ring.
    - transitivity (sumf (fun I => sumf (fun J => sumf (fun F => (u I * F I) * (u J * F J)) Fs) comps) comps
                    + sumf (fun I => sumf (fun J => u I * E I J * u J) comps) comps).
      + rewrite <- sumf_add. apply sumf_ext. intros I _. rewrite <- sumf_add. reflexivity.
      + f_equal.
        transitivity (sumf (fun I => sumf (fun F => sumf (fun J => (u I * F I) * (u J * F J)) comps) Fs) comps).
        * apply sumf_ext. intros I _. apply sumf_swap.
        * rewrite sumf_swap. apply sumf_ext. intros F _. rewrite sum_prod. reflexivity. }
  split; [exact Eq|]. rewrite Eq.
  replace (sumf (fun I => sumf (fun J => u I * E I J * u J) comps) comps)
    with (0 + sumf (fun I => sumf (fun J => u I * E I J * u J) comps) comps) at 1 by ring.
  apply rle_add. apply sumf_nonneg. intros F _. apply rle_sq.
Qed.

(* ---------------------------------------------------------------- checker soundness --- *)
Lemma near_sound tol x y : near tol x y = true -> x - y <= tol /\ y - x <= tol.
Proof.
  unfold near. intro H. apply andb_true_iff in H. destruct H as [H1 H2].
  split; apply (rleb_spec K); assumption.
Qed.

Lemma all2_sound d f : all2 d f = true -> forall a b, a < d -> b < d -> f a b = true.
Proof.
  unfold all2. intros H a b Ha Hb. rewrite forallb_forall in H.
  assert (Ia : In a (seq 0 d)) by (apply in_seq; lia).
  specialize (H a Ia). rewrite forallb_forall in H. apply H. apply in_seq. lia.
Qed.

Lemma all4_sound d f : all4 d f = true ->
  forall a b c e, a < d -> b < d -> c < d -> e < d -> f a b c e = true.
Proof.
  unfold all4. intros H a b c e Ha Hb Hc He.
  pose proof (all2_sound d _ H a b Ha Hb) as H2. cbv beta in H2.
  exact (all2_sound d _ H2 c e Hc He).
Qed.

Lemma posb_sound x : posb x = true -> 0 <= x /\ x <> 0.
Proof.
  unfold posb. intro H. apply andb_true_iff in H. destruct H as [H1 H2]. split.
  - apply (rleb_spec K). exact H1.
  - intro E. apply negb_true_iff in H2. rewrite (proj2 (reqb_spec K x 0) E) in H2. discriminate.
Qed.

(* what a passing run of the checker establishes about the reported modes *)
Definition loss_spec (n d : nat) (R : rnet) (w : list K) (P : list (list K)) (modes : list (mode K))
           (tolsym tolcert tolsum tolnum tolden : K) : Prop :=
  rwf R n /\
  (forall m, In m modes ->
     (0 <= m_lam m /\ m_lam m <> 0) /\
     (forall a b c e, a < d -> b < d -> c < d -> e < d ->
        (t4 d (m_L m) a b c e - t4 d (m_L m) b a c e <= tolsym /\ t4 d (m_L m) b a c e - t4 d (m_L m) a b c e <= tolsym) /\
        (t4 d (m_L m) a b c e - t4 d (m_L m) a b e c <= tolsym /\ t4 d (m_L m) a b e c - t4 d (m_L m) a b c e <= tolsym) /\
        (t4 d (m_L m) a b c e - t4 d (m_L m) c e a b <= tolsym /\ t4 d (m_L m) c e a b - t4 d (m_L m) a b c e <= tolsym)) /\
     (forall a b c e, a < d -> b < d -> c < d -> e < d ->
        t4 d (m_L m) a b c e - FF d (m_F m) a b c e <= tolcert /\ FF d (m_F m) a b c e - t4 d (m_L m) a b c e <= tolcert) /\
     (tolden * nrm2 n (eigres R (m_lam m) (fld (m_phi m))) <= tolnum * nrm2 n (fld (m_phi m))
      /\ nrm2 n (fld (m_phi m)) <> 0)) /\
  (forall a b c e, a < d -> b < d -> c < d -> e < d ->
     let lhs := Wtot n (fld w) * Wtot n (fld w) * Ltot d modes a b c e in
     let rhs := covW n (fld w) (fun i => t2 d (nth i P []) a b) (fun i => t2 d (nth i P []) c e) in
     lhs - rhs <= tolsum /\ rhs - lhs <= tolsum).

Theorem check_loss_sound n d R w P modes tolsym tolcert tolsum tolnum tolden :
  check_loss n d R w P modes tolsym tolcert tolsum tolnum tolden = 0%nat ->
  loss_spec n d R w P modes tolsym tolcert tolsum tolnum tolden.
Proof.
  unfold check_loss, loss_spec.
  destruct (rwfb R n) eqn:Hwf; cbn [negb]; [|discriminate].
  destruct (forallb (fun m => posb (m_lam m)) modes) eqn:Hpos; cbn [negb]; [|discriminate].
  destruct (forallb (fun m => symb d tolsym (m_L m)) modes) eqn:Hsym; cbn [negb]; [|discriminate].
  destruct (forallb (fun m => certb d tolcert (m_L m) (m_F m)) modes) eqn:Hcert; cbn [negb]; [|discriminate].
  destruct (forallb (fun m => eigb R n tolnum tolden (m_lam m) (fld (m_phi m))) modes) eqn:Heig; cbn [negb]; [|discriminate].
  destruct (sumruleb n d tolsum (fld w) (fun i => nth i P []) modes) eqn:Hsum; cbn [negb]; [|discriminate].
  intros _. split; [apply rwfb_sound; exact Hwf|]. split.
  - intros m Hm.
    rewrite forallb_forall in Hpos, Hsym, Hcert, Heig.
    specialize (Hpos m Hm). specialize (Hsym m Hm). specialize (Hcert m Hm). specialize (Heig m Hm).
    split; [apply posb_sound; exact Hpos|]. split; [|split].
    + intros a b c e Ha Hb Hc He. unfold symb in Hsym.
      pose proof (all4_sound d _ Hsym a b c e Ha Hb Hc He) as H. cbv beta in H.
      apply andb_true_iff in H. destruct H as [H H3]. apply andb_true_iff in H. destruct H as [H1 H2].
      split; [apply near_sound; exact H1|]. split; apply near_sound; assumption.
    + intros a b c e Ha Hb Hc He. unfold certb in Hcert.
      pose proof (all4_sound d _ Hcert a b c e Ha Hb Hc He) as H. cbv beta in H.
      apply near_sound; exact H.
    + unfold eigb in Heig. apply andb_true_iff in Heig. destruct Heig as [H1 H2].
      split; [apply (rleb_spec K); exact H1 | apply posb_sound; exact H2].
  - intros a b c e Ha Hb Hc He. cbv zeta. unfold sumruleb in Hsum.
    pose proof (all4_sound d _ Hsum a b c e Ha Hb Hc He) as H. cbv beta in H.
    apply near_sound; exact H.
Qed.

End RelaxProofs.


(* ---------------------------------------------------------------- zero modes ---------- *)
Section ZeroModes.
Variable K : ordring.
Hypothesis antisym : antisym_law K.
Hypothesis integral : integral_law K.
Add Ring KringZ : (r_ring K).

(* a vector annihilated by the symmetrised rate matrix is sqrt(rho) times a field that is constant
   on every connected component: on a connected network the zero mode is unique, so every
   mode orthogonal to sqrt(rho) relaxes with a non-zero (hence, by eigen_nonneg, positive) rate *)
Theorem zero_mode_const (R : rnet K) n (s psi : nat -> K) :
  rwf R n -> balanced s R ->
  (forall e, In e R -> rle K (r0 K) (sw e)) -> (forall x, rle K (r0 K) (s x)) ->
  (forall x, x < n -> momega R (fun y => rmul K (s y) (psi y)) x = r0 K) ->
  forall x y, connected (cnet s R) x y -> psi x = psi y.
Proof.
  intros Hwf Hb Hsw Hs Hz.
  apply (energy_zero_const K antisym integral).
  - intros e He. unfold cnet in He. apply in_map_iff in He. destruct He as [e0 [E He0]]. subst e. cbn [cond].
    apply rle_mul; [apply rle_mul; apply Hs | apply Hsw; exact He0].
  - unfold energy. rewrite <- (dirichlet_identity K R s psi Hb). rewrite <- (qform_matvec K R n _ Hwf).
    transitivity (sumf (fun _ : nat => r0 K) (seq 0 n)); [| apply sumf_zero].
    apply sumf_ext. intros x Hx. apply in_seq in Hx. rewrite Hz by lia. ring.
Qed.
End ZeroModes.

(* ---------------------------------------------------------------- non-vacuity --------- *)
From Coq Require Import ZArith QArith Qcanon.

(* two-site network over Qc: rho = (9/25, 16/25), s = (3/5, 4/5), rates 4 and 9/4, symmetrised rate 3;
   the single relaxation mode (4/5, -3/5) resolves the identity on the complement of s *)
Module Example.
Local Open Scope Qc_scope.
Definition q (a : Z) (b : positive) : Qc := Q2Qc (a # b).
Definition s2 (x : nat) : Qc := match x with O => q 3 5 | S O => q 4 5 | _ => 0 end.
Definition ph (x : nat) : Qc := match x with O => q 4 5 | S O => q (-3) 5 | _ => 0 end.
Definition R2 : rnet Qcring := [mkRedge (K:=Qcring) 0 1 (q 4 1) (q 9 4) (q 3 1)].

Example balanced_ex : balanced (K:=Qcring) s2 R2.
Proof.
  intros e [He|[]]. subst e. cbn [ri rj lf lb sw s2]. split; apply Qc_is_canon; vm_compute; reflexivity.
Qed.

Example resolution_ex : resolution (K:=Qcring) 2 s2 [ph].
Proof.
  intros i j Hi Hj.
  destruct i as [|[|i]]; [| |lia]; (destruct j as [|[|j]]; [| |lia]); apply Qc_is_canon; vm_compute; reflexivity.
Qed.

(* the relaxation rate of that mode is lf + lb = 25/4 > 0 and it is an exact eigenvector *)
Example eigen_ex : forall x, (x < 2)%nat -> momega (K:=Qcring) R2 ph x = (q 25 4 * ph x).
Proof.
  intros x Hx. destruct x as [|[|x]]; [| |lia]; apply Qc_is_canon; vm_compute; reflexivity.
Qed.

(* the checker accepts an exact instance (d = 1: scalar "dipoles" P = (5, 15), s = (1,2), W = 5) and rejects a wrong
   tensor, a wrong total and a wrong rate *)
Definition Rz : rnet Zring := [mkRedge (K:=Zring) 0 1 4 1 2]%Z.
Example check_ex :
  check_loss (K:=Zring) 2 1 Rz [1; 4]%Z [[5]; [15]]%Z
             [mkMode (K:=Zring) 5%Z [16]%Z [[(-4)]]%Z [2; (-1)]%Z] 0%Z 0%Z 0%Z 0%Z 1%Z = 0%nat
  /\ check_loss (K:=Zring) 2 1 Rz [1; 4]%Z [[5]; [15]]%Z
             [mkMode (K:=Zring) 5%Z [17]%Z [[(-4)]]%Z [2; (-1)]%Z] 0%Z 0%Z 0%Z 0%Z 1%Z = 3%nat
  /\ check_loss (K:=Zring) 2 1 Rz [1; 4]%Z [[5]; [16]]%Z
             [mkMode (K:=Zring) 5%Z [16]%Z [[(-4)]]%Z [2; (-1)]%Z] 0%Z 0%Z 0%Z 0%Z 1%Z = 5%nat
  /\ check_loss (K:=Zring) 2 1 Rz [1; 4]%Z [[5]; [15]]%Z
             [mkMode (K:=Zring) 4%Z [16]%Z [[(-4)]]%Z [2; (-1)]%Z] 0%Z 0%Z 0%Z 0%Z 1%Z = 4%nat.
Proof. repeat split; vm_compute; reflexivity. Qed.
End Example.
