(* Proofs about Model/Action.v (property C23, lattice-coordinate half). *)
From Coq Require Import ZArith List Bool Arith Lia.
From Onsager Require Import Model.Lattice Model.Action Proofs.Lattice_proofs.
Import ListNotations.
Local Open Scope Z_scope.

Lemma rnd_exact D n : 0 < D -> rnd D (D * n) = n.
Proof.
  intro H. unfold rnd. replace (2 * (D * n) + D) with (n * (2 * D) + D) by ring.
  rewrite Z.div_add_l by lia. rewrite Z.div_small by lia. ring.
Qed.

Lemma mv_vzero d M k : mv d M vzero k = 0.
Proof. unfold mv, vzero. rewrite (zsum_ext _ (fun _ => 0)) by (intros; ring). apply zsum_zero. Qed.

Lemma act_unit2pos d D g R u k : act d g (unit2pos D R u) k = D * mv d (rot g) R k + act d g u k.
Proof. unfold act, unit2pos. rewrite mv_lin. ring. Qed.

(* the integer vector by which a valid operation shifts the cell of atom (c,i) *)
Lemma valid_shift C g c i : maps_atoms C g -> (c < nchem C)%nat -> (i < natoms C c)%nat ->
  exists K0 : vec, forall k, (k < c_dim C)%nat ->
    act (c_dim C) g (upos C c i) k - upos C c (pm g c i) k = c_den C * K0 k.
Proof.
  intros H Hc Hi. destruct (H c i Hc Hi vzero) as [K0 HK]. exists K0. intros k Hk.
  specialize (HK k Hk). rewrite act_atom in HK. rewrite mv_vzero in HK. unfold atom_at in HK. lia.
Qed.

(* ---- g_pos ------------------------------------------------------------------------------------ *)
Theorem g_pos_correct C g R c i : 0 < c_den C -> maps_atoms C g ->
  (c < nchem C)%nat -> (i < natoms C c)%nat -> forall k, (k < c_dim C)%nat ->
  atom_at C c (pm g c i) (fst (g_pos C g R c i)) k = act (c_dim C) g (atom_at C c i R) k.
Proof.
  intros HD H Hc Hi k Hk. destruct (valid_shift C g c i H Hc Hi) as [K0 HK].
  unfold g_pos. cbn [fst]. unfold atom_at at 1. rewrite (HK k Hk). rewrite rnd_exact by exact HD.
  rewrite act_atom. specialize (HK k Hk). lia.
Qed.

(* ---- g_vect ----------------------------------------------------------------------------------- *)
Theorem g_vect_correct C g R u k : 0 < c_den C ->
  unit2pos (c_den C) (fst (g_vect C g R u)) (snd (g_vect C g R u)) k
    = act (c_dim C) g (unit2pos (c_den C) R u) k
  /\ 0 <= snd (g_vect C g R u) k < c_den C.
Proof.
  intro HD. unfold g_vect. cbn [fst snd]. split.
  - rewrite act_unit2pos. unfold unit2pos.
    pose proof (Z.div_mod (act (c_dim C) g u k) (c_den C)). lia.
  - apply Z.mod_pos_bound; exact HD.
Qed.

(* the two routes agree on atoms: g_vect applied to the unit-cell position of atom (c,i) returns
   the cell and the unit-cell position of the atom returned by g_pos *)
Theorem g_pos_vect_agree C g R c i : 0 < c_den C -> maps_atoms C g -> perms_ok C g -> incell_basis C ->
  (c < nchem C)%nat -> (i < natoms C c)%nat -> forall k, (k < c_dim C)%nat ->
  fst (g_vect C g R (upos C c i)) k = fst (g_pos C g R c i) k /\
  snd (g_vect C g R (upos C c i)) k = upos C c (pm g c i) k.
Proof.
  intros HD H HP HI Hc Hi k Hk. destruct (valid_shift C g c i H Hc Hi) as [K0 HK].
  specialize (HK k Hk).
  assert (Hb : 0 <= upos C c (pm g c i) k < c_den C).
  { apply HI; [exact Hc | apply perm_lt; assumption | exact Hk]. }
  assert (E : act (c_dim C) g (upos C c i) k = K0 k * c_den C + upos C c (pm g c i) k) by lia.
  unfold g_vect, g_pos. cbn [fst snd]. split.
  - rewrite HK. rewrite rnd_exact by exact HD. rewrite E.
    rewrite Z.div_add_l by lia. rewrite Z.div_small by exact Hb. ring.
  - rewrite E. rewrite Z.add_comm. rewrite Z.mod_add by lia. apply Z.mod_small; exact Hb.
Qed.

(* ---- unit-cell / cell split (cart2unit after invlatt) ------------------------------------------- *)
Theorem cart2unit_unit2pos D R u k : 0 < D -> 0 <= u k < D ->
  fst (cart2unit_l D (unit2pos D R u)) k = R k /\ snd (cart2unit_l D (unit2pos D R u)) k = u k.
Proof.
  intros HD Hu. unfold cart2unit_l, unit2pos. cbn [fst snd].
  replace (D * R k + u k) with (R k * D + u k) by ring. split.
  - rewrite Z.div_add_l by lia. rewrite Z.div_small by exact Hu. ring.
  - rewrite Z.add_comm. rewrite Z.mod_add by lia. apply Z.mod_small; exact Hu.
Qed.

Theorem unit2pos_cart2unit D p k : D <> 0 ->
  unit2pos D (fst (cart2unit_l D p)) (snd (cart2unit_l D p)) k = p k.
Proof. intro HD. unfold cart2unit_l, unit2pos. cbn [fst snd]. pose proof (Z.div_mod (p k) D HD). lia. Qed.

(* ---- cart2pos after pos2cart ----------------------------------------------------------------------- *)
Lemma NoDup_app_disj {A} (l1 l2 : list A) :
  NoDup l1 -> NoDup l2 -> (forall x, In x l1 -> ~ In x l2) -> NoDup (l1 ++ l2).
Proof.
  induction l1 as [|a l1 IH]; intros H1 H2 Hd; cbn [app]; [exact H2|].
  inversion H1 as [|a' l' Ha Hl]; subst. constructor.
  - intro Hin. apply in_app_or in Hin. destruct Hin as [Hin|Hin]; [exact (Ha Hin)|].
    apply (Hd a); [left; reflexivity | exact Hin].
  - apply IH; [exact Hl | exact H2|]. intros x Hx. apply Hd. right. exact Hx.
Qed.

Lemma NoDup_pairs (n : nat -> nat) s m :
  NoDup (flat_map (fun c => map (fun i => (c, i)) (seq 0 (n c))) (seq s m)).
Proof.
  revert s. induction m as [|m IH]; intro s; cbn [seq flat_map]; [constructor|].
  apply NoDup_app_disj.
  - apply NoDup_map_inj; [|apply seq_NoDup]. intros x y _ _ E. inversion E. reflexivity.
  - apply IH.
  - intros [c i] H1 H2. apply in_map_iff in H1. destruct H1 as [i' [E _]]. inversion E; subst.
    apply in_flat_map in H2. destruct H2 as [c' [Hc' Hin]]. apply in_seq in Hc'.
    apply in_map_iff in Hin. destruct Hin as [i'' [E' _]]. inversion E'. lia.
Qed.

Lemma atomindices_NoDup C : NoDup (atomindices C).
Proof. apply NoDup_pairs. Qed.

Lemma atomindices_In C c i : In (c, i) (atomindices C) <-> (c < nchem C)%nat /\ (i < natoms C c)%nat.
Proof.
  unfold atomindices. rewrite in_flat_map. split.
  - intros [c' [Hc' Hin]]. apply in_seq in Hc'. apply in_map_iff in Hin. destruct Hin as [i' [E Hi']].
    apply in_seq in Hi'. inversion E; subst. lia.
  - intros [Hc Hi]. exists c. split; [apply in_seq; lia|]. apply in_map_iff. exists i.
    split; [reflexivity | apply in_seq; lia].
Qed.

Lemma filter_unique {A} (f : A -> bool) l x :
  NoDup l -> In x l -> f x = true -> (forall y, In y l -> f y = true -> y = x) -> filter f l = [x].
Proof.
  induction l as [|a l IH]; intros Hn Hin Hx Hu; [destruct Hin|].
  inversion Hn as [|a' l' Ha Hl]; subst. cbn [filter]. destruct Hin as [E|Hin].
  - subst a. rewrite Hx. f_equal.
    assert (N : forall y, In y l -> f y = false).
    { intros y Hy. destruct (f y) eqn:E; [|reflexivity]. exfalso.
      assert (y = x) by (apply Hu; [right; exact Hy | exact E]). subst y. exact (Ha Hy). }
    clear -N. induction l as [|b l IH]; [reflexivity|]. cbn [filter].
    rewrite (N b (or_introl eq_refl)). apply IH. intros y Hy. apply N. right. exact Hy.
  - destruct (f a) eqn:E.
    + exfalso. assert (a = x) by (apply Hu; [left; reflexivity | exact E]). subst a. exact (Ha Hin).
    + apply IH; [exact Hl | exact Hin | exact Hx|]. intros y Hy. apply Hu. right. exact Hy.
Qed.

Theorem cart2pos_pos2cart C c i R : 0 < c_den C -> incell_basis C -> distinct_atoms C ->
  (c < nchem C)%nat -> (i < natoms C c)%nat ->
  snd (cart2pos_l C (atom_at C c i R)) = Some (c, i) /\
  forall k, (k < c_dim C)%nat -> fst (cart2pos_l C (atom_at C c i R)) k = R k.
Proof.
  intros HD HI HU Hc Hi.
  assert (RT : forall k, (k < c_dim C)%nat ->
     fst (cart2unit_l (c_den C) (atom_at C c i R)) k = R k /\
     snd (cart2unit_l (c_den C) (atom_at C c i R)) k = upos C c i k).
  { intros k Hk. apply (cart2unit_unit2pos (c_den C) R (upos C c i) k HD). apply HI; assumption. }
  unfold cart2pos_l. cbn [fst snd]. split; [|intros k Hk; apply RT; exact Hk].
  rewrite (filter_unique _ _ (c, i)); [reflexivity | apply atomindices_NoDup | apply atomindices_In; split; assumption | |].
  - cbn [fst snd]. apply veqb_spec. intros k Hk. apply RT; exact Hk.
  - intros [c' i'] Hin Hy. apply atomindices_In in Hin. destruct Hin as [Hc' Hi']. cbn [fst snd] in Hy.
    rewrite veqb_spec in Hy.
    destruct (HU c i c' i' Hc Hi Hc' Hi') as [E1 E2].
    + intros k Hk. rewrite <- (Hy k Hk). symmetry. apply RT; exact Hk.
    + subst. reflexivity.
Qed.

(* ---- composition and inversion on atom positions ----------------------------------------------------- *)
Theorem g_pos_mul C a b R c i : 0 < c_den C -> isSymOp C a -> isSymOp C b ->
  (c < nchem C)%nat -> (i < natoms C c)%nat ->
  snd (g_pos C (op_mul (c_dim C) a b) R c i) = snd (g_pos C a (fst (g_pos C b R c i)) c (pm b c i)) /\
  forall k, (k < c_dim C)%nat ->
    fst (g_pos C (op_mul (c_dim C) a b) R c i) k = fst (g_pos C a (fst (g_pos C b R c i)) c (pm b c i)) k.
Proof.
  intros HD Ha Hb Hc Hi. pose proof (mul_valid C a b Ha Hb) as Hab.
  pose proof Ha as [_ _ Pa Aa _]. pose proof Hb as [_ _ Pb Ab _]. pose proof Hab as [_ _ _ Aab _].
  assert (Hbi : (pm b c i < natoms C c)%nat) by (apply perm_lt; assumption).
  assert (PM : pm (op_mul (c_dim C) a b) c i = pm a c (pm b c i)).
  { destruct Pb as [Lb Qb]. destruct (Qb c Hc) as [Hl _]. apply pm_mul; lia. }
  split; [unfold g_pos; cbn [snd]; rewrite PM; reflexivity|].
  intros k Hk.
  pose proof (g_pos_correct C _ R c i HD Aab Hc Hi k Hk) as H1.
  pose proof (g_pos_correct C a (fst (g_pos C b R c i)) c (pm b c i) HD Aa Hc Hbi k Hk) as H3.
  rewrite act_mul in H1 by exact Hk.
  rewrite (act_ext (c_dim C) a _ (atom_at C c (pm b c i) (fst (g_pos C b R c i)))) in H1
    by (intros j Hj; symmetry; apply g_pos_correct; assumption).
  rewrite <- H3 in H1. rewrite PM in H1. unfold atom_at in H1.
  apply (Z.mul_reg_l _ _ (c_den C)); lia.
Qed.

Theorem g_pos_inv C a R c i : 0 < c_den C -> (1 <= c_dim C <= 3)%nat -> isSymOp C a ->
  (c < nchem C)%nat -> (i < natoms C c)%nat ->
  snd (g_pos C (op_inv (c_dim C) a) (fst (g_pos C a R c i)) c (pm a c i)) = (c, i) /\
  forall k, (k < c_dim C)%nat ->
    fst (g_pos C (op_inv (c_dim C) a) (fst (g_pos C a R c i)) c (pm a c i)) k = R k.
Proof.
  intros HD Hd Ha Hc Hi. pose proof (inv_valid C a Hd Ha) as Hia.
  pose proof Ha as [_ Ua Pa Aa _]. pose proof Hia as [_ _ _ Aia _].
  assert (Hai : (pm a c i < natoms C c)%nat) by (apply perm_lt; assumption).
  destruct (inv_correct_perm C a c i Ha Hc Hi) as [PI _].
  split; [unfold g_pos; cbn [snd]; rewrite PI; reflexivity|].
  intros k Hk.
  pose proof (g_pos_correct C _ (fst (g_pos C a R c i)) c (pm a c i) HD Aia Hc Hai k Hk) as H1.
  rewrite (act_ext (c_dim C) _ _ (act (c_dim C) a (atom_at C c i R))) in H1
    by (intros j Hj; apply g_pos_correct; assumption).
  rewrite act_inv_l in H1; [| apply minv_l; [exact Hd | apply unimod_det; assumption] | exact Hk].
  rewrite PI in H1. unfold atom_at in H1. apply (Z.mul_reg_l _ _ (c_den C)); lia.
Qed.

Lemma g_pos_snd C g R c i : snd (g_pos C g R c i) = (c, pm g c i).
Proof. reflexivity. Qed.

(* ---- pair states ---------------------------------------------------------------------------------------- *)
(* the (i, j, R) route and the dx route agree: lattice coordinates of the new dx are S applied to the old *)
Theorem ps_g_dx C chem g s : 0 < c_den C -> maps_atoms C g ->
  (chem < nchem C)%nat -> (ps_i s < natoms C chem)%nat -> (ps_j s < natoms C chem)%nat ->
  forall k, (k < c_dim C)%nat ->
    ps_dx C chem (ps_g C chem g s) k = mv (c_dim C) (rot g) (ps_dx C chem s) k.
Proof.
  intros HD H Hc Hi Hj k Hk.
  pose proof (g_pos_correct C g vzero chem (ps_i s) HD H Hc Hi k Hk) as H1.
  pose proof (g_pos_correct C g (ps_R s) chem (ps_j s) HD H Hc Hj k Hk) as H2.
  unfold ps_dx, ps_g. cbn [ps_i ps_j ps_R]. unfold vsub.
  rewrite !g_pos_snd. cbn [snd].
  unfold atom_at in H1 at 1. unfold atom_at in H2 at 1.
  assert (E : mv (c_dim C) (rot g) (fun k0 => c_den C * ps_R s k0 + upos C chem (ps_j s) k0 - upos C chem (ps_i s) k0) k
              = act (c_dim C) g (atom_at C chem (ps_j s) (ps_R s)) k - act (c_dim C) g (atom_at C chem (ps_i s) vzero) k).
  { unfold act.
    replace (mv (c_dim C) (rot g) (atom_at C chem (ps_j s) (ps_R s)) k + trn g k -
             (mv (c_dim C) (rot g) (atom_at C chem (ps_i s) vzero) k + trn g k))
      with (mv (c_dim C) (rot g) (atom_at C chem (ps_j s) (ps_R s)) k - mv (c_dim C) (rot g) (atom_at C chem (ps_i s) vzero) k) by ring.
    rewrite <- mv_sub. apply mv_ext. intros j _. unfold vsub, atom_at, vzero. ring. }
  rewrite E. rewrite <- H1, <- H2. ring.
Qed.

Lemma g_pos_fst C g R c i k :
  fst (g_pos C g R c i) k = mv (c_dim C) (rot g) R k + fst (g_pos C g vzero c i) k.
Proof. unfold g_pos. cbn [fst]. rewrite mv_vzero. ring. Qed.

(* PairState.g commutes with the arithmetic of pair states *)
Theorem ps_g_add C chem g a b : ps_j a = ps_i b ->
  ps_eq (c_dim C) (ps_g C chem g (ps_add a b)) (ps_add (ps_g C chem g a) (ps_g C chem g b)).
Proof.
  intro E. unfold ps_eq. split; [reflexivity|]. split; [reflexivity|]. intros k Hk.
  unfold ps_g, ps_add. cbn [ps_i ps_j ps_R]. unfold vsub, vadd.
  rewrite (g_pos_fst C g (fun i => ps_R a i + ps_R b i)). rewrite (g_pos_fst C g (ps_R a)).
  rewrite (g_pos_fst C g (ps_R b)). rewrite E.
  change (fun i => ps_R a i + ps_R b i) with (vadd (ps_R a) (ps_R b)). rewrite mv_add. ring.
Qed.

Theorem ps_g_neg C chem g a :
  ps_eq (c_dim C) (ps_g C chem g (ps_neg a)) (ps_neg (ps_g C chem g a)).
Proof.
  unfold ps_eq. split; [reflexivity|]. split; [reflexivity|]. intros k Hk.
  unfold ps_g, ps_neg. cbn [ps_i ps_j ps_R]. unfold vsub, vneg.
  rewrite (g_pos_fst C g (fun i => - ps_R a i)). rewrite (g_pos_fst C g (ps_R a)).
  change (fun i => - ps_R a i) with (vneg (ps_R a)). rewrite mv_neg. ring.
Qed.

(* acting with a*b on a pair state = acting with b, then with a *)
Theorem ps_g_mul C chem a b s : 0 < c_den C -> isSymOp C a -> isSymOp C b ->
  (chem < nchem C)%nat -> (ps_i s < natoms C chem)%nat -> (ps_j s < natoms C chem)%nat ->
  ps_eq (c_dim C) (ps_g C chem (op_mul (c_dim C) a b) s) (ps_g C chem a (ps_g C chem b s)).
Proof.
  intros HD Ha Hb Hc Hi Hj.
  destruct (g_pos_mul C a b vzero chem (ps_i s) HD Ha Hb Hc Hi) as [Si Fi].
  destruct (g_pos_mul C a b (ps_R s) chem (ps_j s) HD Ha Hb Hc Hj) as [Sj Fj].
  unfold ps_eq, ps_g. cbn [ps_i ps_j ps_R]. rewrite !g_pos_snd in *. cbn [snd] in *.
  split; [injection Si as E; exact E|]. split; [injection Sj as E; exact E|].
  intros k Hk. unfold vsub at 1 2. rewrite (Fi k Hk), (Fj k Hk).
  rewrite (g_pos_fst C a (fst (g_pos C b (ps_R s) chem (ps_j s)))).
  rewrite (g_pos_fst C a (fst (g_pos C b vzero chem (ps_i s)))).
  rewrite (g_pos_fst C a (vsub (fst (g_pos C b (ps_R s) chem (ps_j s))) (fst (g_pos C b vzero chem (ps_i s))))).
  rewrite mv_sub. ring.
Qed.

(* ---- cluster sites ------------------------------------------------------------------------------------------ *)
Theorem cs_g_pos C g s : 0 < c_den C -> maps_atoms C g ->
  (cs_c s < nchem C)%nat -> (cs_i s < natoms C (cs_c s))%nat -> forall k, (k < c_dim C)%nat ->
  cs_pos C (cs_g C g s) k = act (c_dim C) g (cs_pos C s) k.
Proof.
  intros HD H Hc Hi k Hk. unfold cs_pos, cs_g. cbn [cs_c cs_i cs_R]. unfold g_pos at 1 2. cbn [fst snd].
  apply g_pos_correct; assumption.
Qed.

Theorem cs_g_add C g s v k :
  cs_c (cs_g C g (cs_add s v)) = cs_c (cs_g C g s) /\ cs_i (cs_g C g (cs_add s v)) = cs_i (cs_g C g s) /\
  cs_R (cs_g C g (cs_add s v)) k = cs_R (cs_g C g s) k + mv (c_dim C) (rot g) v k.
Proof.
  unfold cs_g, cs_add. cbn [cs_c cs_i cs_R]. split; [reflexivity|]. split; [reflexivity|].
  rewrite (g_pos_fst C g (vadd (cs_R s) v)). rewrite (g_pos_fst C g (cs_R s)). rewrite mv_add. ring.
Qed.

(* ---- non-vacuity: honeycomb, 3-fold rotation about a hexagon centre ----------------------------------------- *)
Definition ex_hc2 : crystal := mkCrys 2 3 [[2;-1];[-1;2]] [[[1;2];[2;1]]] [[0;0]].
Definition ex_c3 : symop := mkOp [[0;-1];[1;-1]] [0;0] [[0%nat;1%nat]].
Definition ex_m : symop := mkOp [[0;1];[1;0]] [0;0] [[1%nat;0%nat]].
Example ex_c3_valid : isSymOpb ex_hc2 ex_c3 = true /\ isSymOpb ex_hc2 ex_m = true.
Proof. vm_compute. split; reflexivity. Qed.
Example ex_g_pos : let r := g_pos ex_hc2 ex_c3 (vl [1;0]) 0 0 in (vlist 2 (fst r), snd r) = ([-1;0], (0%nat, 0%nat)).
Proof. vm_compute. reflexivity. Qed.
Example ex_g_vect : let r := g_vect ex_hc2 ex_c3 (vl [1;0]) (vl [1;2]) in (vlist 2 (fst r), vlist 2 (snd r)) = ([-1;0], [1;2]).
Proof. vm_compute. reflexivity. Qed.
Example ex_ps : let s := ps_g ex_hc2 0 ex_m (mkPS 0 1 (vl [1;0])) in (ps_i s, ps_j s, vlist 2 (ps_R s)) = (1%nat, 0%nat, [0;1]).
Proof. vm_compute. reflexivity. Qed.
Example ex_cart2pos : let r := cart2pos_l ex_hc2 (vl [7;-4]) in (vlist 2 (fst r), snd r) = ([2;-2], Some (0%nat, 0%nat)).
Proof. vm_compute. reflexivity. Qed.
