From Coq Require Import List Ring.
From Onsager Require Import Base.OrdRing Model.Thermo.
Import ListNotations.

Section P.
Variable K : ordring.
Variable ex : K -> K.
Hypothesis ex_add : forall a b, ex (radd K a b) = rmul K (ex a) (ex b).
Notation "0" := (r0 K). Notation "1" := (r1 K).
Infix "+" := (radd K). Infix "*" := (rmul K). Infix "-" := (rsub K). Notation "- x" := (ropp K x).
Add Ring Kr4 : (r_ring K).

Lemma weight_shift delta pe : weight ex (shift delta pe) = ex (- delta) * weight ex pe.
Proof.
  unfold weight, shift; cbn [fst snd].
  replace (- (snd pe + delta)) with (- snd pe + - delta) by ring. rewrite ex_add. ring.
Qed.

Lemma Zsum_shift delta sites : Zsum ex (map (shift delta) sites) = ex (- delta) * Zsum ex sites.
Proof.
  unfold Zsum. rewrite sumf_map. rewrite <- sumf_scal. apply sumf_ext. intros pe _. apply weight_shift.
Qed.

(* common shift of all site and transition-state energies of a species: every conductance ratio wT/Z is unchanged *)
Theorem shift_invariant delta sites ts :
  weight ex (shift delta ts) * Zsum ex sites = weight ex ts * Zsum ex (map (shift delta) sites).
Proof. rewrite weight_shift, Zsum_shift. ring. Qed.

Lemma Zsum_prescale lam sites : Zsum ex (map (prescale lam) sites) = lam * Zsum ex sites.
Proof.
  unfold Zsum. rewrite sumf_map. rewrite <- sumf_scal. apply sumf_ext. intros pe _.
  unfold weight, prescale; cbn [fst snd]. ring.
Qed.

(* joint scaling of site and transition prefactors: conductance ratios unchanged *)
Theorem prefactor_scaling lam sites ts :
  weight ex (prescale lam ts) * Zsum ex sites = weight ex ts * Zsum ex (map (prescale lam) sites).
Proof. rewrite Zsum_prescale. unfold weight, prescale; cbn [fst snd]. ring. Qed.

(* scaling only the transition prefactor scales the conductance *)
Theorem rate_scaling lam ts : weight ex (prescale lam ts) = lam * weight ex ts.
Proof. unfold weight, prescale; cbn [fst snd]. ring. Qed.

(* energies and temperature scaled together: beta' * s = beta  =>  beta' * (s * E) = beta * E *)
Theorem kT_coscaling beta beta' s pe :
  beta' * s = beta -> betaE beta' (fst pe, s * snd pe) = betaE beta pe.
Proof.
  intro H. unfold betaE; cbn [fst snd]. f_equal. rewrite <- H. ring.
Qed.

End P.

(* LIMB back-fill for a transition between two NON-interacting pair states with the solute on the same site s:
   preT1 = preT0 * sq(pS*pS), ET1 = ET0 + half*(ES+ES)  has exactly the weight of the bare transition state times the
   solute site weight, i.e. the swing rate equals the bare vacancy rate.  sq, half: any functions with the laws below. *)
Section Limb.
Variable K : ordring.
Variable ex : K -> K.
Variable sq : K -> K.
Variable half : K.
Hypothesis ex_add : forall a b, ex (radd K a b) = rmul K (ex a) (ex b).
Hypothesis sq_sq : forall a, rle K (r0 K) a -> sq (rmul K a a) = a.
Hypothesis half_half : radd K half half = r1 K.
Add Ring Kr6 : (r_ring K).

Theorem limb_noninteracting_is_bare preT0 ET0 pS ES :
  rle K (r0 K) pS ->
  weight ex (rmul K preT0 (sq (rmul K pS pS)), radd K ET0 (rmul K half (radd K ES ES)))
  = rmul K (weight ex (preT0, ET0)) (weight ex (pS, ES)).
Proof.
  intro Hp. unfold weight; cbn [fst snd]. rewrite (sq_sq pS Hp).
  replace (rmul K half (radd K ES ES)) with (rmul K (radd K half half) ES) by ring.
  rewrite half_half.
  replace (ropp K (radd K ET0 (rmul K (r1 K) ES))) with (radd K (ropp K ET0) (ropp K ES)) by ring.
  rewrite ex_add. ring.
Qed.
End Limb.
