(* Proofs about Model/FixedSpace.v (C20): the certificate checker is sound -- for every ordered
   ring, every finite index set, every list of operators: if basis_okb accepts (B, C, E) then the
   vectors of B are invariant, linearly independent, and every invariant vector is the
   combination sum_a (c_a . x) b_a: B is a basis of exactly the invariant subspace. *)
From Coq Require Import List Arith Bool Lia Ring ZArith.
From Onsager Require Import Base.OrdRing Base.Instances Model.FixedSpace Proofs.Geom3_proofs.
Import ListNotations.

Section FixedSpace.
Variable K : ordring.
Variable I : Type.
Variable ieqb : I -> I -> bool.
Hypothesis ieqb_spec : forall a b, ieqb a b = true <-> a = b.
Variable idx : list I.
Hypothesis idx_nodup : NoDup idx.
Add Ring Kr : (r_ring K).
Notation "0" := (r0 K). Notation "1" := (r1 K).
Infix "+" := (radd K). Infix "*" := (rmul K). Infix "-" := (rsub K).
Notation delta := (delta (K:=K) ieqb).
Notation dotI := (dotI (K:=K) idx).

Lemma sumf_mul_r {A} (f : A -> K) c l : sumf f l * c = sumf (fun a => f a * c) l.
Proof. induction l as [|a l IH]; cbn [sumf]; [ring | rewrite <- IH; ring]. Qed.

Lemma ieqb_refl i : ieqb i i = true. Proof. apply ieqb_spec. reflexivity. Qed.

Lemma pick_list (x : I -> K) (i : I) (l : list I) : NoDup l ->
  sumf (fun j => delta i j * x j) l = if existsb (ieqb i) l then x i else 0.
Proof.
  induction l as [|j l IH]; intro N; cbn [sumf existsb]; [reflexivity|].
  inversion N as [|? ? Nj Nl]; subst. rewrite (IH Nl). unfold FixedSpace.delta.
  destruct (ieqb i j) eqn:E; cbn [orb].
  - apply ieqb_spec in E. subst j.
    destruct (existsb (ieqb i) l) eqn:E2.
    + exfalso. apply existsb_exists in E2 as (y & Hy & Ey). apply ieqb_spec in Ey. subst y. contradiction.
    + ring.
  - destruct (existsb (ieqb i) l); ring.
Qed.

Lemma pick (x : I -> K) (i : I) : In i idx -> sumf (fun j => delta i j * x j) idx = x i.
Proof.
  intro Hi. rewrite (pick_list x i idx idx_nodup).
  assert (E : existsb (ieqb i) idx = true) by (apply existsb_exists; exists i; split; [exact Hi | apply ieqb_refl]).
  rewrite E. reflexivity.
Qed.

(* ---- rows of (rho - 1) annihilate x  <->  x invariant ---------------------------------- *)
Lemma row_dot (rho : I -> I -> K) (x : I -> K) i : In i idx ->
  dotI (fun j => rho i j - delta i j) x = applyM idx rho x i - x i.
Proof.
  intro Hi. unfold FixedSpace.dotI, applyM, FixedSpace.dotI.
  rewrite <- (pick x i Hi). rewrite <- sumf_sub. apply sumf_ext. intros j _. ring.
Qed.

Theorem rows_invariant (reps : list (I -> I -> K)) (x : I -> K) :
  (forall r, In r (rows_of ieqb idx reps) -> dotI r x = 0) <-> (forall rho, In rho reps -> invariant idx rho x).
Proof.
  unfold rows_of. split.
  - intros H rho Hrho i Hi.
    assert (R : dotI (fun j => rho i j - delta i j) x = 0).
    { apply H. apply in_flat_map. exists rho. split; [exact Hrho|]. apply in_map_iff. exists i. split; [reflexivity | exact Hi]. }
    rewrite (row_dot rho x i Hi) in R.
    replace (applyM idx rho x i) with ((applyM idx rho x i - x i) + x i) by ring. rewrite R. ring.
  - intros H r Hr. apply in_flat_map in Hr as (rho & Hrho & Hr). apply in_map_iff in Hr as (i & E & Hi). subst r.
    rewrite (row_dot rho x i Hi). rewrite (H rho Hrho i Hi). ring.
Qed.

(* ---- the certificate ------------------------------------------------------------------ *)
Lemma certb_span rows BC E (x : I -> K) :
  certb ieqb idx rows BC E = true ->
  (forall r, In r rows -> dotI r x = 0) ->
  forall i, In i idx -> x i = expand idx BC x i.
Proof.
  unfold certb. intros HC HR i Hi.
  rewrite forallb_forall in HC. specialize (HC i Hi). rewrite forallb_forall in HC.
  rewrite <- (pick x i Hi) at 1.
  transitivity (sumf (fun j => (sumf (fun bc => fst bc i * snd bc j) BC
                                + sumf (fun re => snd re * nth (fst re) rows (zerov K I) j) (E i)) * x j) idx).
  { apply sumf_ext. intros j Hj. specialize (HC j Hj). apply reqb_spec in HC. rewrite HC. reflexivity. }
  transitivity (sumf (fun j => sumf (fun bc => fst bc i * (snd bc j * x j)) BC) idx
                + sumf (fun j => sumf (fun re => snd re * (nth (fst re) rows (zerov K I) j * x j)) (E i)) idx).
  { rewrite <- sumf_add. apply sumf_ext. intros j _.
    replace ((sumf (fun bc => fst bc i * snd bc j) BC + sumf (fun re => snd re * nth (fst re) rows (zerov K I) j) (E i)) * x j)
      with (sumf (fun bc => fst bc i * snd bc j) BC * x j + sumf (fun re => snd re * nth (fst re) rows (zerov K I) j) (E i) * x j) by ring.
    rewrite !sumf_mul_r. f_equal; apply sumf_ext; intros a _; ring. }
  rewrite (sumf_swap K (fun j bc => fst bc i * (snd bc j * x j)) idx BC).
  rewrite (sumf_swap K (fun j re => snd re * (nth (fst re) rows (zerov K I) j * x j)) idx (E i)).
  assert (Z : sumf (fun re => sumf (fun j => snd re * (nth (fst re) rows (zerov K I) j * x j)) idx) (E i) = 0).
  { transitivity (sumf (fun _ : nat * K => 0) (E i)); [|apply sumf_zero].
    apply sumf_ext. intros re _. rewrite sumf_scal.
    assert (D : sumf (fun j => nth (fst re) rows (zerov K I) j * x j) idx = 0).
    { destruct (nth_in_or_default (fst re) rows (zerov K I)) as [Hin|Hd].
      - apply (HR _ Hin).
      - rewrite Hd. unfold zerov. transitivity (sumf (fun _ : I => 0) idx); [|apply sumf_zero]. apply sumf_ext. intros; ring. }
    rewrite D. ring. }
  rewrite Z. unfold expand, FixedSpace.dotI.
  transitivity (sumf (fun bc => sumf (fun j => fst bc i * (snd bc j * x j)) idx) BC); [ring|].
  apply sumf_ext. intros bc _. rewrite sumf_scal. apply (Rmul_comm (r_ring K)).
Qed.

Lemma fixedb_sound rows BC : fixedb idx rows BC = true ->
  forall r bc, In r rows -> In bc BC -> dotI r (fst bc) = 0.
Proof.
  unfold fixedb. intros H r bc Hr Hbc. rewrite forallb_forall in H. specialize (H r Hr).
  rewrite forallb_forall in H. apply reqb_spec. apply H. exact Hbc.
Qed.

Lemma dualb_independent BC (y : nat -> K) :
  dualb idx BC = true ->
  (forall i, In i idx -> sumf (fun a => y a * fst (nth a BC (zerov K I, zerov K I)) i) (seq 0 (length BC)) = 0) ->
  forall a, a < length BC -> y a = 0.
Proof.
  unfold dualb. intros HD H0 a Ha.
  set (k := length BC) in *. set (d := (zerov K I, zerov K I)) in *.
  set (combo := fun i => sumf (fun a' => y a' * fst (nth a' BC d) i) (seq 0 k)).
  assert (E1 : dotI (snd (nth a BC d)) combo = 0).
  { unfold FixedSpace.dotI. transitivity (sumf (fun _ : I => 0) idx); [|apply sumf_zero].
    apply sumf_ext. intros j Hj. unfold combo. rewrite (H0 j Hj). ring. }
  assert (E2 : dotI (snd (nth a BC d)) combo = y a).
  { unfold FixedSpace.dotI, combo.
    transitivity (sumf (fun j => sumf (fun a' => y a' * (snd (nth a BC d) j * fst (nth a' BC d) j)) (seq 0 k)) idx).
    { apply sumf_ext. intros j _. rewrite <- sumf_scal. apply sumf_ext. intros a' _. ring. }
    rewrite sumf_swap.
    transitivity (sumf (fun a' => y a' * ind a' a) (seq 0 k)); [|apply sumf_ind_pick; exact Ha].
    apply sumf_ext. intros a' Ha'. rewrite sumf_scal. f_equal.
    rewrite forallb_forall in HD. specialize (HD a). assert (Ia : In a (seq 0 k)) by (apply in_seq; lia).
    specialize (HD Ia). rewrite forallb_forall in HD. specialize (HD a' Ha'). apply reqb_spec in HD.
    unfold FixedSpace.dotI in HD. rewrite HD. unfold ind. reflexivity. }
  rewrite <- E2. exact E1.
Qed.

(* ---- main theorem ------------------------------------------------------------------- *)
Theorem basis_ok_sound (reps : list (I -> I -> K)) BC E :
  basis_okb ieqb idx reps BC E = true ->
  (* every basis vector is invariant under every operator *)
  (forall bc rho, In bc BC -> In rho reps -> invariant idx rho (fst bc)) /\
  (* every invariant vector is the combination  sum_a (c_a . x) b_a  of the basis vectors *)
  (forall x : I -> K, (forall rho, In rho reps -> invariant idx rho x) ->
     forall i, In i idx -> x i = expand idx BC x i) /\
  (* the basis vectors are linearly independent *)
  (forall y : nat -> K,
     (forall i, In i idx -> sumf (fun a => y a * fst (nth a BC (zerov K I, zerov K I)) i) (seq 0 (length BC)) = 0) ->
     forall a, a < length BC -> y a = 0).
Proof.
  unfold basis_okb. intro H. apply andb_true_iff in H as [H HC]. apply andb_true_iff in H as [HF HD].
  split; [|split].
  - intros bc rho Hbc Hrho. revert rho Hrho. apply rows_invariant.
    intros r Hr. apply (fixedb_sound _ _ HF r bc Hr Hbc).
  - intros x Hx i Hi. apply (certb_span _ _ _ x HC); [|exact Hi]. apply rows_invariant. exact Hx.
  - intros y. apply dualb_independent. exact HD.
Qed.
End FixedSpace.

(* ---- concrete index sets ------------------------------------------------------------- *)
Lemma peqb_spec p q : peqb p q = true <-> p = q.
Proof.
  destruct p as [a b], q as [c d]. unfold peqb; cbn [fst snd]. rewrite andb_true_iff, !Nat.eqb_eq.
  split; [intros [-> ->]; reflexivity | intro E; inversion E; split; reflexivity].
Qed.

Lemma tidx_nodup n : NoDup (tidx n).
Proof. unfold tidx. apply NoDup_list_prod; apply seq_NoDup. Qed.

Theorem vector_basis_sound (K : ordring) n ops B C E :
  vector_basis_okb (K:=K) n ops B C E = true ->
  let BC := combine (map vecV B) (map vecV C) in
  length BC = length B /\
  (forall bc S, In bc BC -> In S ops -> invariant (vidx n) (rhoV S) (fst bc)) /\
  (forall x : nat -> K, (forall S, In S ops -> invariant (vidx n) (rhoV S) x) ->
     forall i, i < n -> x i = expand (vidx n) BC x i) /\
  (forall y : nat -> K,
     (forall i, i < n -> sumf (fun a => rmul K (y a) (fst (nth a BC (zerov K nat, zerov K nat)) i)) (seq 0 (length BC)) = r0 K) ->
     forall a, a < length BC -> y a = r0 K).
Proof.
  unfold vector_basis_okb. intro H. apply andb_true_iff in H as [HL H]. apply Nat.eqb_eq in HL.
  pose proof (basis_ok_sound K nat Nat.eqb Nat.eqb_eq (vidx n) (seq_NoDup n 0) _ _ _ H) as (P1 & P2 & P3).
  cbv zeta. split; [|split; [|split]].
  - rewrite combine_length, !map_length. lia.
  - intros bc S Hbc HS. apply P1; [exact Hbc | apply in_map; exact HS].
  - intros x Hx i Hi. apply P2; [|apply in_seq; lia].
    intros rho Hrho. apply in_map_iff in Hrho as (S & <- & HS). apply Hx. exact HS.
  - intros y Hy. apply P3. intros i Hi. apply Hy. apply in_seq in Hi. lia.
Qed.

Theorem tensor_basis_sound (K : ordring) n ops B C E :
  tensor_basis_okb (K:=K) n ops B C E = true ->
  let BC := combine (map vecT B) (map vecT C) in
  length BC = length B /\
  (forall bc, In bc BC -> invariant (tidx n) tau (fst bc) /\ forall S, In S ops -> invariant (tidx n) (rhoT S) (fst bc)) /\
  (forall x : nat * nat -> K, invariant (tidx n) tau x -> (forall S, In S ops -> invariant (tidx n) (rhoT S) x) ->
     forall p, In p (tidx n) -> x p = expand (tidx n) BC x p) /\
  (forall y : nat -> K,
     (forall p, In p (tidx n) -> sumf (fun a => rmul K (y a) (fst (nth a BC (zerov K (nat * nat), zerov K (nat * nat))) p)) (seq 0 (length BC)) = r0 K) ->
     forall a, a < length BC -> y a = r0 K).
Proof.
  unfold tensor_basis_okb. intro H. apply andb_true_iff in H as [HL H]. apply Nat.eqb_eq in HL.
  pose proof (basis_ok_sound K (nat * nat) peqb peqb_spec (tidx n) (tidx_nodup n) _ _ _ H) as (P1 & P2 & P3).
  cbv zeta. split; [|split; [|split]].
  - rewrite combine_length, !map_length. lia.
  - intros bc Hbc. split; [apply P1; [exact Hbc | left; reflexivity]|].
    intros S HS. apply P1; [exact Hbc | right; apply in_map; exact HS].
  - intros x Hs Hx p Hp. apply P2; [|exact Hp].
    intros rho [<-|Hrho]; [exact Hs|]. apply in_map_iff in Hrho as (S & <- & HS). apply Hx. exact HS.
  - intros y Hy. apply P3. exact Hy.
Qed.

(* invariance under tau is symmetry *)
Theorem tau_invariant_symmetric (K : ordring) n (x : nat * nat -> K) :
  invariant (tidx n) tau x <-> forall a b, a < n -> b < n -> x (b, a) = x (a, b).
Proof.
  assert (P : forall a b, a < n -> b < n -> applyM (tidx n) tau x (a, b) = x (b, a)).
  { intros a b Ha Hb. unfold applyM, FixedSpace.dotI.
    assert (Hin : In (b, a) (tidx n)) by (apply in_prod_iff; split; apply in_seq; lia).
    rewrite <- (pick K (nat * nat) peqb peqb_spec (tidx n) (tidx_nodup n) x (b, a) Hin).
    apply sumf_ext. intros q _. unfold tau, delta. cbn [fst snd]. reflexivity. }
  split.
  - intros H a b Ha Hb. rewrite <- (P a b Ha Hb). apply H. apply in_prod_iff; split; apply in_seq; lia.
  - intros H [a b] Hp. apply in_prod_iff in Hp as [Ha Hb]. apply in_seq in Ha, Hb.
    rewrite P by lia. apply H; lia.
Qed.

(* ---- non-vacuity (over Z): the mirror x <-> y in the plane fixes the line (1,1) --------- *)
Local Open Scope Z_scope.
Example mirror_xy : list (list Z) := [[0; 1]; [1; 0]].
(* rows of (rho - 1): row 0 = (-1, 1), row 1 = (1, -1);  I = b c^T + E M  with b = (1,1), c = (1,0):
   [[1,0],[0,1]] - [[1,0],[1,0]] = [[0,0],[-1,1]]  = E M with E row 1 = 1 * row 0 *)
Example mirror_basis_ok :
  vector_basis_okb (K:=Zring) 2 [mirror_xy] [[1; 1]] [[1; 0]] [[]; [(0%nat, 1)]] = true.
Proof. vm_compute. reflexivity. Qed.
Example mirror_wrong_basis :
  vector_basis_okb (K:=Zring) 2 [mirror_xy] [[1; -1]] [[1; 0]] [[]; [(0%nat, 1)]] = false.
Proof. vm_compute. reflexivity. Qed.
(* symmetric tensors invariant under the same mirror: xx+yy and xy+yx ... and xx-yy is not: dimension 2 *)
Example mirror_tensor_ok :
  tensor_basis_okb (K:=Zring) 2 [mirror_xy]
     [[[1; 0]; [0; 1]]; [[0; 1]; [1; 0]]]
     [[[1; 0]; [0; 0]]; [[0; 1]; [0; 0]]]
     [ []; [] ; [(1%nat, 1)]; [(4%nat, 1)] ] = true.
Proof. vm_compute. reflexivity. Qed.
