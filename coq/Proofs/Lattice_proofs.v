(* Proofs about Model/Lattice.v: finite sums, integer matrices, soundness of the symmetry
   operation checker (for ALL lattice points and cells), GroupOp algebra, group checker. *)
From Coq Require Import ZArith List Bool Arith Lia.
From Onsager Require Import Model.Lattice.
Import ListNotations.
Local Open Scope Z_scope.

(* ---- finite sums ---------------------------------------------------------------------- *)
Lemma zsum_ext f g n : (forall i, (i < n)%nat -> f i = g i) -> zsum f n = zsum g n.
Proof.
  induction n as [|n IH]; intro H; cbn [zsum]; [reflexivity|].
  rewrite IH by (intros; apply H; lia). rewrite H by lia. reflexivity.
Qed.

Lemma zsum_add f g n : zsum (fun i => f i + g i) n = zsum f n + zsum g n.
Proof. induction n as [|n IH]; cbn [zsum]; [reflexivity | rewrite IH; ring]. Qed.

Lemma zsum_scal c f n : zsum (fun i => c * f i) n = c * zsum f n.
Proof. induction n as [|n IH]; cbn [zsum]; [ring | rewrite IH; ring]. Qed.

Lemma zsum_scal_r c f n : zsum (fun i => f i * c) n = zsum f n * c.
Proof. induction n as [|n IH]; cbn [zsum]; [ring | rewrite IH; ring]. Qed.

Lemma zsum_zero n : zsum (fun _ => 0) n = 0.
Proof. induction n as [|n IH]; cbn [zsum]; [reflexivity | rewrite IH; ring]. Qed.

Lemma zsum_swap (f : nat -> nat -> Z) n m :
  zsum (fun i => zsum (fun j => f i j) m) n = zsum (fun j => zsum (fun i => f i j) n) m.
Proof.
  induction n as [|n IH]; cbn [zsum].
  - rewrite zsum_zero. reflexivity.
  - rewrite IH. rewrite <- zsum_add. reflexivity.
Qed.

Lemma zsum_pick (v : vec) i n : (i < n)%nat -> zsum (fun k => mI i k * v k) n = v i.
Proof.
  induction n as [|n IH]; intro H; [lia|]. cbn [zsum]. unfold mI at 2.
  destruct (Nat.eqb i n) eqn:E.
  - apply Nat.eqb_eq in E. subst n.
    rewrite (zsum_ext _ (fun _ => 0)).
    + rewrite zsum_zero. ring.
    + intros k Hk. unfold mI. replace (Nat.eqb i k) with false; [ring|].
      symmetry. apply Nat.eqb_neq. lia.
  - apply Nat.eqb_neq in E. rewrite IH by lia. ring.
Qed.

Lemma zsum_pick_r (v : vec) j n : (j < n)%nat -> zsum (fun k => v k * mI k j) n = v j.
Proof.
  intro H. rewrite (zsum_ext _ (fun k => mI j k * v k)).
  - apply zsum_pick; exact H.
  - intros k _. unfold mI. rewrite (Nat.eqb_sym k j). ring.
Qed.

(* ---- lists <-> functions -------------------------------------------------------------- *)
Lemma nth_map_seq {A} (f : nat -> A) d i x : (i < d)%nat -> nth i (map f (seq 0 d)) x = f i.
Proof.
  intro H. rewrite (nth_indep _ x (f 0%nat)) by (rewrite map_length, seq_length; exact H).
  rewrite map_nth. rewrite seq_nth by exact H. reflexivity.
Qed.

Lemma vl_vlist d v i : (i < d)%nat -> vl (vlist d v) i = v i.
Proof. intro H. unfold vl, vlist. apply nth_map_seq; exact H. Qed.

Lemma ml_mlist d M i j : (i < d)%nat -> (j < d)%nat -> ml (mlist d M) i j = M i j.
Proof.
  intros Hi Hj. unfold ml, mlist. rewrite (nth_map_seq (fun i => map (M i) (seq 0 d))) by exact Hi.
  apply nth_map_seq; exact Hj.
Qed.

Lemma forallb_seq f n : forallb f (seq 0 n) = true <-> forall i, (i < n)%nat -> f i = true.
Proof.
  rewrite forallb_forall. split; intros H i Hi.
  - apply H. apply in_seq. lia.
  - apply H. apply in_seq in Hi. lia.
Qed.

Lemma veqb_spec d u v : veqb d u v = true <-> forall i, (i < d)%nat -> u i = v i.
Proof.
  unfold veqb. rewrite forallb_seq. split; intros H i Hi.
  - apply Z.eqb_eq. apply H; exact Hi.
  - apply Z.eqb_eq. apply H; exact Hi.
Qed.

Definition meq (d : nat) (A B : mat) : Prop := forall i j, (i < d)%nat -> (j < d)%nat -> A i j = B i j.

Lemma meqb_spec d A B : meqb d A B = true <-> meq d A B.
Proof.
  unfold meqb, meq. rewrite forallb_seq. split; intros H i.
  - intros j Hi Hj. apply (proj1 (veqb_spec d (A i) (B i)) (H i Hi)); exact Hj.
  - intro Hi. apply veqb_spec. intros j Hj. apply H; assumption.
Qed.

Lemma vdivb_spec d D v : D <> 0 ->
  (vdivb d D v = true <-> forall i, (i < d)%nat -> v i = D * (v i / D)).
Proof.
  intro HD. unfold vdivb. rewrite forallb_seq. split; intros H i Hi.
  - apply Z.div_exact; [exact HD|]. apply Z.eqb_eq. apply H; exact Hi.
  - apply Z.eqb_eq. apply Z.div_exact; [exact HD|]. apply H; exact Hi.
Qed.

(* ---- matrix algebra ------------------------------------------------------------------- *)
Lemma mv_ext d M x y i : (forall j, (j < d)%nat -> x j = y j) -> mv d M x i = mv d M y i.
Proof. intro H. unfold mv. apply zsum_ext. intros j Hj. rewrite H by exact Hj. reflexivity. Qed.

Lemma mv_ext_mat d A B x i : (forall j, (j < d)%nat -> A i j = B i j) -> mv d A x i = mv d B x i.
Proof. intro H. unfold mv. apply zsum_ext. intros j Hj. rewrite H by exact Hj. reflexivity. Qed.

Lemma mv_lin d M a (x y : vec) i :
  mv d M (fun k => a * x k + y k) i = a * mv d M x i + mv d M y i.
Proof.
  unfold mv. rewrite <- zsum_scal, <- zsum_add. apply zsum_ext. intros j _. ring.
Qed.

Lemma mv_add d M (x y : vec) i : mv d M (vadd x y) i = mv d M x i + mv d M y i.
Proof. unfold mv, vadd. rewrite <- zsum_add. apply zsum_ext. intros j _. ring. Qed.

Lemma mv_sub d M (x y : vec) i : mv d M (vsub x y) i = mv d M x i - mv d M y i.
Proof.
  unfold mv, vsub. replace (zsum (fun j => M i j * x j) d - zsum (fun j => M i j * y j) d)
    with (zsum (fun j => M i j * x j) d + (-1) * zsum (fun j => M i j * y j) d) by ring.
  rewrite <- zsum_scal, <- zsum_add. apply zsum_ext. intros j _. ring.
Qed.

Lemma mv_neg d M (x : vec) i : mv d M (vneg x) i = - mv d M x i.
Proof.
  unfold mv, vneg. replace (- zsum (fun j => M i j * x j) d) with ((-1) * zsum (fun j => M i j * x j) d) by ring.
  rewrite <- zsum_scal. apply zsum_ext. intros j _. ring.
Qed.

Lemma mv_mm d A B x i : mv d (mm d A B) x i = mv d A (mv d B x) i.
Proof.
  unfold mv, mm.
  rewrite (zsum_ext _ (fun j => zsum (fun k => A i k * B k j * x j) d))
    by (intros j _; rewrite <- zsum_scal_r; reflexivity).
  rewrite zsum_swap. apply zsum_ext. intros k _.
  rewrite <- zsum_scal. apply zsum_ext. intros j _. ring.
Qed.

Lemma mv_I d x i : (i < d)%nat -> mv d mI x i = x i.
Proof. intro H. unfold mv. apply zsum_pick; exact H. Qed.

Lemma dot_ext d u u' v v' :
  (forall i, (i < d)%nat -> u i = u' i) -> (forall i, (i < d)%nat -> v i = v' i) -> dot d u v = dot d u' v'.
Proof. intros H1 H2. unfold dot. apply zsum_ext. intros i Hi. rewrite H1, H2 by exact Hi. reflexivity. Qed.

Lemma dot_mv_T d A x y : dot d (mv d A x) y = dot d x (mv d (mT A) y).
Proof.
  unfold dot, mv, mT.
  rewrite (zsum_ext _ (fun i => zsum (fun j => A i j * x j * y i) d))
    by (intros i _; rewrite <- zsum_scal_r; reflexivity).
  rewrite zsum_swap. apply zsum_ext. intros j _.
  rewrite <- zsum_scal. apply zsum_ext. intros i _. ring.
Qed.

Lemma gdot_ext d Gm u u' v v' :
  (forall i, (i < d)%nat -> u i = u' i) -> (forall i, (i < d)%nat -> v i = v' i) ->
  gdot d Gm u v = gdot d Gm u' v'.
Proof.
  intros H1 H2. unfold gdot. apply dot_ext; [exact H1|]. intros i _. apply mv_ext; exact H2.
Qed.

Lemma meq_refl d A : meq d A A.
Proof. intros i j _ _; reflexivity. Qed.
Lemma meq_sym d A B : meq d A B -> meq d B A.
Proof. intros H i j Hi Hj; symmetry; apply H; assumption. Qed.
Lemma meq_trans d A B C : meq d A B -> meq d B C -> meq d A C.
Proof. intros H1 H2 i j Hi Hj. rewrite H1, H2 by assumption. reflexivity. Qed.

Lemma mm_congr d A A' B B' : meq d A A' -> meq d B B' -> meq d (mm d A B) (mm d A' B').
Proof.
  intros H1 H2 i j Hi Hj. unfold mm. apply zsum_ext. intros k Hk.
  rewrite H1, H2 by assumption. reflexivity.
Qed.

Lemma mm_assoc d A B C i j : mm d (mm d A B) C i j = mm d A (mm d B C) i j.
Proof.
  unfold mm.
  rewrite (zsum_ext _ (fun k => zsum (fun l => A i l * B l k * C k j) d))
    by (intros k _; rewrite <- zsum_scal_r; reflexivity).
  rewrite zsum_swap. apply zsum_ext. intros l _.
  rewrite <- zsum_scal. apply zsum_ext. intros k _. ring.
Qed.

Lemma mm_I_l d A : meq d (mm d mI A) A.
Proof. intros i j Hi Hj. unfold mm. apply (zsum_pick (fun k => A k j)); exact Hi. Qed.

Lemma mm_I_r d A : meq d (mm d A mI) A.
Proof. intros i j Hi Hj. unfold mm. apply (zsum_pick_r (fun k => A i k)); exact Hj. Qed.

(* ---- determinants, adjugate (d = 1,2,3) -------------------------------------------------- *)
Lemma det_mm d A B : (1 <= d <= 3)%nat -> det d (mm d A B) = det d A * det d B.
Proof.
  intro H. assert (E : d = 1%nat \/ d = 2%nat \/ d = 3%nat) by lia.
  destruct E as [E|[E|E]]; subst d; unfold det, det2, det3, mm; cbn [zsum]; ring.
Qed.

Lemma det_ext d A B : meq d A B -> det d A = det d B.
Proof.
  intro H. destruct d as [|[|[|[|d]]]]; [reflexivity| | | |reflexivity];
    unfold det, det2, det3; repeat rewrite (H _ _) by lia; reflexivity.
Qed.

Lemma det_I d : (1 <= d <= 3)%nat -> det d mI = 1.
Proof.
  intro H. assert (E : d = 1%nat \/ d = 2%nat \/ d = 3%nat) by lia.
  destruct E as [E|[E|E]]; subst d; reflexivity.
Qed.

Lemma det_T d A : det d (mT A) = det d A.
Proof.
  destruct d as [|[|[|[|d]]]]; try reflexivity; unfold det, det2, det3, mT; ring.
Qed.

Lemma lt3_cases i : (i < 3)%nat -> i = 0%nat \/ i = 1%nat \/ i = 2%nat.
Proof. lia. Qed.
Lemma lt2_cases i : (i < 2)%nat -> i = 0%nat \/ i = 1%nat.
Proof. lia. Qed.

Lemma adj_r d S : (1 <= d <= 3)%nat -> forall i j, (i < d)%nat -> (j < d)%nat ->
  mm d S (adj d S) i j = det d S * mI i j.
Proof.
  intros H i j Hi Hj. assert (E : d = 1%nat \/ d = 2%nat \/ d = 3%nat) by lia.
  destruct E as [E|[E|E]]; subst d.
  - assert (i = 0%nat) by lia. assert (j = 0%nat) by lia. subst. unfold mm, adj, det, mI; cbn [zsum Nat.eqb]; ring.
  - destruct (lt2_cases i Hi) as [?|?]; destruct (lt2_cases j Hj) as [?|?]; subst;
      unfold mm, adj, adj2, det, det2, mI; cbn [zsum Nat.eqb]; ring.
  - destruct (lt3_cases i Hi) as [?|[?|?]]; destruct (lt3_cases j Hj) as [?|[?|?]]; subst;
      unfold mm, adj, adj3, det, det3, mI, nx; cbn [zsum Nat.eqb]; ring.
Qed.

Lemma adj_l d S : (1 <= d <= 3)%nat -> forall i j, (i < d)%nat -> (j < d)%nat ->
  mm d (adj d S) S i j = det d S * mI i j.
Proof.
  intros H i j Hi Hj. assert (E : d = 1%nat \/ d = 2%nat \/ d = 3%nat) by lia.
  destruct E as [E|[E|E]]; subst d.
  - assert (i = 0%nat) by lia. assert (j = 0%nat) by lia. subst. unfold mm, adj, det, mI; cbn [zsum Nat.eqb]; ring.
  - destruct (lt2_cases i Hi) as [?|?]; destruct (lt2_cases j Hj) as [?|?]; subst;
      unfold mm, adj, adj2, det, det2, mI; cbn [zsum Nat.eqb]; ring.
  - destruct (lt3_cases i Hi) as [?|[?|?]]; destruct (lt3_cases j Hj) as [?|[?|?]]; subst;
      unfold mm, adj, adj3, det, det3, mI, nx; cbn [zsum Nat.eqb]; ring.
Qed.

Lemma sq1 a b : a * b = 1 -> a * a = 1.
Proof. intro H. assert (a = 1 \/ a = -1) by (apply Z.mul_eq_1 in H; lia). lia. Qed.

(* a matrix with an integer inverse has det = +-1 and minv is its inverse *)
Lemma unimod_det d S : (1 <= d <= 3)%nat -> unimod d S -> det d S * det d S = 1.
Proof.
  intros H [T [H1 _]]. apply (sq1 _ (det d T)). rewrite <- det_mm by exact H.
  rewrite (det_ext d _ mI) by exact H1. apply det_I; exact H.
Qed.

Lemma minv_r d S : (1 <= d <= 3)%nat -> det d S * det d S = 1 -> meq d (mm d S (minv d S)) mI.
Proof.
  intros H Hd i j Hi Hj. unfold mm, minv.
  rewrite (zsum_ext _ (fun k => det d S * (S i k * adj d S k j))) by (intros; ring).
  rewrite zsum_scal. fold (mm d S (adj d S) i j). rewrite adj_r by assumption.
  rewrite Z.mul_assoc, Hd. ring.
Qed.

Lemma minv_l d S : (1 <= d <= 3)%nat -> det d S * det d S = 1 -> meq d (mm d (minv d S) S) mI.
Proof.
  intros H Hd i j Hi Hj. unfold mm, minv.
  rewrite (zsum_ext _ (fun k => det d S * (adj d S i k * S k j))) by (intros; ring).
  rewrite zsum_scal. fold (mm d (adj d S) S i j). rewrite adj_l by assumption.
  rewrite Z.mul_assoc, Hd. ring.
Qed.

(* completeness of the unimodularity test: |det| = 1 is exactly what it needs (d <= 3) *)
Lemma unimodb_complete d S : (1 <= d <= 3)%nat -> unimod d S -> unimodb d S = true.
Proof.
  intros H HU. pose proof (unimod_det d S H HU) as Hd. unfold unimodb.
  apply andb_true_iff; split; apply meqb_spec; [apply minv_r | apply minv_l]; assumption.
Qed.

Lemma unimodb_sound d S : unimodb d S = true -> unimod d S.
Proof.
  unfold unimodb. intro H. apply andb_true_iff in H. destruct H as [H1 H2].
  exists (minv d S). split; apply meqb_spec; assumption.
Qed.

Lemma unimod_onto d S : unimod d S -> lattice_onto d S.
Proof.
  intros [T [H1 _]] R'. exists (mv d T R'). intros k Hk.
  rewrite <- mv_mm. rewrite (mv_ext_mat d _ mI) by (intros j Hj; apply H1; assumption).
  apply mv_I; exact Hk.
Qed.

(* ---- isometry ---------------------------------------------------------------------------- *)
Lemma isometryb_sound d Gm S : isometryb d Gm S = true -> is_isometry d Gm S.
Proof.
  unfold isometryb. intro H. apply meqb_spec in H. intros x y.
  unfold gdot. rewrite dot_mv_T. apply dot_ext; [reflexivity|]. intros i Hi.
  rewrite <- mv_mm. rewrite <- mv_mm. apply mv_ext_mat. intros j Hj.
  rewrite mm_assoc. apply H; assumption.
Qed.

(* ---- permutations ------------------------------------------------------------------------ *)
Lemma memb_spec x l : memb x l = true <-> In x l.
Proof.
  induction l as [|y l IH]; cbn [memb In]; [split; [discriminate | tauto]|].
  rewrite orb_true_iff, IH, Nat.eqb_eq. split; intros [H|H]; auto.
Qed.

Lemma nodupb_spec l : nodupb l = true -> NoDup l.
Proof.
  induction l as [|x l IH]; cbn [nodupb]; intro H; [constructor|].
  apply andb_true_iff in H. destruct H as [H1 H2]. constructor; [|apply IH; exact H2].
  intro Hin. apply memb_spec in Hin. rewrite Hin in H1. discriminate.
Qed.

Lemma is_permb_sound n p : is_permb n p = true -> perm_ok n p.
Proof.
  unfold is_permb. intro H. apply andb_true_iff in H. destruct H as [H H3].
  apply andb_true_iff in H. destruct H as [H1 H2]. split; [apply Nat.eqb_eq; exact H1|].
  split; [apply nodupb_spec; exact H2|]. intros x Hx.
  rewrite forallb_forall in H3. apply Nat.ltb_lt. apply H3; exact Hx.
Qed.

Lemma permsb_sound C g : permsb C g = true -> perms_ok C g.
Proof.
  unfold permsb. intro H. apply andb_true_iff in H. destruct H as [H1 H2].
  split; [apply Nat.eqb_eq; exact H1|]. intros c Hc. apply is_permb_sound.
  apply (proj1 (forallb_seq _ _) H2); exact Hc.
Qed.

Lemma forall_atoms_spec C f :
  forall_atoms C f = true <-> forall c i, (c < nchem C)%nat -> (i < natoms C c)%nat -> f c i = true.
Proof.
  unfold forall_atoms. rewrite forallb_seq. split.
  - intros H c i Hc Hi. apply (proj1 (forallb_seq _ _) (H c Hc)); exact Hi.
  - intros H c Hc. apply forallb_seq. intros i Hi. apply H; assumption.
Qed.

Lemma perm_lt C g c i : perms_ok C g -> (c < nchem C)%nat -> (i < natoms C c)%nat -> (pm g c i < natoms C c)%nat.
Proof.
  intros [_ H] Hc Hi. destruct (H c Hc) as [Hl [_ Hb]]. apply Hb. unfold pm. apply nth_In. lia.
Qed.

(* ---- the operation checker is sound, for ALL cells R ------------------------------------- *)
Lemma act_ext d g x y k : (forall j, (j < d)%nat -> x j = y j) -> act d g x k = act d g y k.
Proof. intro H. unfold act. rewrite (mv_ext d _ x y) by exact H. reflexivity. Qed.

Lemma act_atom d C g c i R k :
  act d g (atom_at C c i R) k = c_den C * mv d (rot g) R k + act d g (upos C c i) k.
Proof. unfold act, atom_at. rewrite mv_lin. ring. Qed.

Lemma atomsb_sound C g : c_den C <> 0 -> atomsb C g = true -> maps_atoms C g.
Proof.
  intros HD H c i Hc Hi R. unfold atomsb in H.
  pose proof (proj1 (forall_atoms_spec C _) H c i Hc Hi) as H1. cbv beta in H1.
  rewrite (vdivb_spec _ _ _ HD) in H1.
  exists (fun k => mv (c_dim C) (rot g) R k
                   + vsub (act (c_dim C) g (upos C c i)) (upos C c (pm g c i)) k / c_den C).
  intros k Hk. rewrite act_atom. unfold atom_at.
  specialize (H1 k Hk). unfold vsub in H1 |- *.
  rewrite Z.mul_add_distr_l. rewrite <- H1. ring.
Qed.

Lemma spinb_sound C g s : (s = 1 \/ s = -1) -> spinb C g s = true ->
  forall c i, (c < nchem C)%nat -> (i < natoms C c)%nat -> spin C c (pm g c i) = s * spin C c i.
Proof.
  intros _ H c i Hc Hi. unfold spinb in H. apply Z.eqb_eq.
  apply (proj1 (forall_atoms_spec C _) H c i Hc Hi).
Qed.

Theorem isSymOpb_sound C g : isSymOpb C g = true -> isSymOp C g.
Proof.
  unfold isSymOpb. intro H.
  apply andb_true_iff in H; destruct H as [H H6].
  apply andb_true_iff in H; destruct H as [H H5].
  apply andb_true_iff in H; destruct H as [H H4].
  apply andb_true_iff in H; destruct H as [H H3].
  apply andb_true_iff in H; destruct H as [H1 H2].
  apply Z.ltb_lt in H1.
  constructor.
  - apply isometryb_sound; exact H2.
  - apply unimodb_sound; exact H3.
  - apply permsb_sound; exact H4.
  - apply atomsb_sound; [lia | exact H5].
  - apply orb_true_iff in H6. destruct H6 as [H6|H6].
    + exists 1. split; [left; reflexivity|]. apply spinb_sound; [left; reflexivity | exact H6].
    + exists (-1). split; [right; reflexivity|]. apply spinb_sound; [right; reflexivity | exact H6].
Qed.

Lemma diagnose_op_0 C g : diagnose_op C g = 0%nat <-> isSymOpb C g = true.
Proof.
  unfold diagnose_op, isSymOpb.
  destruct (0 <? c_den C); cbn [negb andb]; [|split; discriminate].
  destruct (isometryb _ _ _); cbn [negb andb]; [|split; discriminate].
  destruct (unimodb _ _); cbn [negb andb]; [|split; discriminate].
  destruct (permsb _ _); cbn [negb andb]; [|split; discriminate].
  destruct (atomsb _ _); cbn [negb andb]; [|split; discriminate].
  destruct (spinb C g 1 || spinb C g (-1)); cbn [negb]; split; try discriminate; reflexivity.
Qed.

(* a valid operation maps the lattice onto itself and preserves all distances *)
Corollary isSymOp_onto C g : isSymOp C g -> lattice_onto (c_dim C) (rot g).
Proof. intros [_ H _ _ _]. apply unimod_onto; exact H. Qed.

(* completeness of the atom test: if atom (c,i) of cell 0 is mapped onto the recorded atom
   in some cell, the divisibility test holds *)
Lemma atomsb_complete C g : c_den C <> 0 -> maps_atoms C g -> atomsb C g = true.
Proof.
  intros HD H. unfold atomsb. apply forall_atoms_spec. intros c i Hc Hi.
  apply (vdivb_spec _ _ _ HD). intros k Hk.
  destruct (H c i Hc Hi vzero) as [R' HR]. specialize (HR k Hk).
  rewrite act_atom in HR. unfold atom_at in HR. unfold vsub.
  assert (E : act (c_dim C) g (upos C c i) k - upos C c (pm g c i) k = c_den C * R' k).
  { assert (mv (c_dim C) (rot g) vzero k = 0).
    { unfold mv, vzero. rewrite (zsum_ext _ (fun _ => 0)) by (intros; ring). apply zsum_zero. }
    lia. }
  rewrite E. rewrite Z.mul_comm at 2. rewrite Z.div_mul by exact HD. reflexivity.
Qed.

(* ---- GroupOp algebra: accessors of the computed operations ------------------------------- *)
Lemma rot_mul d a b : meq d (rot (op_mul d a b)) (mm d (rot a) (rot b)).
Proof. intros i j Hi Hj. unfold rot at 1, op_mul. cbn [o_rot]. apply ml_mlist; assumption. Qed.

Lemma trn_mul d a b k : (k < d)%nat -> trn (op_mul d a b) k = mv d (rot a) (trn b) k + trn a k.
Proof. intro H. unfold trn at 1, op_mul. cbn [o_trans]. rewrite vl_vlist by exact H. reflexivity. Qed.

Lemma pm_mul d a b c i : (c < length (o_perm b))%nat -> (i < length (nth c (o_perm b) []))%nat ->
  pm (op_mul d a b) c i = pm a c (pm b c i).
Proof.
  intros Hc Hi. unfold pm at 1, op_mul. cbn [o_perm].
  rewrite (nth_map_seq (fun c => map (fun i => pm a c (pm b c i)) (seq 0 (length (nth c (o_perm b) []))))) by exact Hc.
  apply (nth_map_seq (fun i => pm a c (pm b c i))); exact Hi.
Qed.

Lemma rot_inv d a : meq d (rot (op_inv d a)) (minv d (rot a)).
Proof. intros i j Hi Hj. unfold rot at 1, op_inv. cbn [o_rot]. apply ml_mlist; assumption. Qed.

Lemma trn_inv d a k : (k < d)%nat -> trn (op_inv d a) k = - mv d (minv d (rot a)) (trn a) k.
Proof. intro H. unfold trn at 1, op_inv. cbn [o_trans]. rewrite vl_vlist by exact H. reflexivity. Qed.

Lemma rot_id C : meq (c_dim C) (rot (op_id C)) mI.
Proof. intros i j Hi Hj. unfold rot, op_id. cbn [o_rot]. apply ml_mlist; assumption. Qed.

Lemma trn_id C k : (k < c_dim C)%nat -> trn (op_id C) k = 0.
Proof. intro H. unfold trn, op_id. cbn [o_trans]. rewrite vl_vlist by exact H. reflexivity. Qed.

Lemma pm_id C c i : (c < nchem C)%nat -> (i < natoms C c)%nat -> pm (op_id C) c i = i.
Proof.
  intros Hc Hi. unfold pm, op_id. cbn [o_perm]. unfold nchem in Hc. unfold natoms in Hi.
  rewrite (nth_indep _ [] ((fun l : list (list Z) => seq 0 (length l)) [])) by (rewrite map_length; exact Hc).
  rewrite (map_nth (fun l : list (list Z) => seq 0 (length l))).
  rewrite seq_nth by exact Hi. reflexivity.
Qed.

(* acting with a*b is acting with b, then with a *)
Theorem act_mul d a b x k : (k < d)%nat -> act d (op_mul d a b) x k = act d a (act d b x) k.
Proof.
  intro Hk. unfold act. rewrite trn_mul by exact Hk.
  rewrite (mv_ext_mat d _ (mm d (rot a) (rot b))) by (intros j Hj; apply rot_mul; assumption).
  rewrite mv_mm.
  change (fun k0 => mv d (rot b) x k0 + trn b k0) with (vadd (mv d (rot b) x) (trn b)).
  rewrite mv_add. ring.
Qed.

(* inverse: (inv a) after a is the identity map, and a after (inv a) too *)
Theorem act_inv_l d a x k : meq d (mm d (minv d (rot a)) (rot a)) mI -> (k < d)%nat ->
  act d (op_inv d a) (act d a x) k = x k.
Proof.
  intros H Hk. unfold act at 1. rewrite trn_inv by exact Hk.
  rewrite (mv_ext_mat d _ (minv d (rot a))) by (intros j Hj; apply rot_inv; assumption).
  unfold act. change (fun k0 => mv d (rot a) x k0 + trn a k0) with (vadd (mv d (rot a) x) (trn a)).
  rewrite mv_add. rewrite <- mv_mm.
  rewrite (mv_ext_mat d _ mI) by (intros j Hj; apply H; assumption).
  rewrite mv_I by exact Hk. ring.
Qed.

Theorem act_inv_r d a x k : meq d (mm d (rot a) (minv d (rot a))) mI -> (k < d)%nat ->
  act d a (act d (op_inv d a) x) k = x k.
Proof.
  intros H Hk. unfold act at 1.
  assert (E : forall j, (j < d)%nat -> act d (op_inv d a) x j
                 = vsub (mv d (minv d (rot a)) x) (mv d (minv d (rot a)) (trn a)) j).
  { intros j Hj. unfold act, vsub. rewrite trn_inv by exact Hj.
    rewrite (mv_ext_mat d _ (minv d (rot a))) by (intros l Hl; apply rot_inv; assumption). ring. }
  rewrite (mv_ext d _ _ _ k E). rewrite mv_sub. rewrite <- !mv_mm.
  rewrite !(mv_ext_mat d (mm d (rot a) (minv d (rot a))) mI) by (intros j Hj; apply H; assumption).
  rewrite !mv_I by exact Hk. ring.
Qed.

(* ---- permutations: argsort inverts --------------------------------------------------------- *)
Lemma index_of_lt y p : In y p -> (index_of y p < length p)%nat.
Proof.
  induction p as [|x p IH]; cbn [index_of In length]; [tauto|]. intro H.
  destruct (Nat.eqb x y) eqn:E; [lia|]. apply Nat.eqb_neq in E.
  destruct H as [H|H]; [congruence|]. specialize (IH H). lia.
Qed.

Lemma index_of_nth y p : In y p -> nth (index_of y p) p 0%nat = y.
Proof.
  induction p as [|x p IH]; cbn [index_of In]; [tauto|]. intro H.
  destruct (Nat.eqb x y) eqn:E.
  - apply Nat.eqb_eq in E. exact E.
  - apply Nat.eqb_neq in E. destruct H as [H|H]; [congruence|]. cbn [nth]. apply IH; exact H.
Qed.

Lemma nth_index_of i p : NoDup p -> (i < length p)%nat -> index_of (nth i p 0%nat) p = i.
Proof.
  revert i. induction p as [|x p IH]; intros i Hn Hi; cbn [length] in Hi; [lia|].
  inversion Hn as [|x' p' Hx Hp]; subst. destruct i as [|i]; cbn [nth index_of].
  - rewrite Nat.eqb_refl. reflexivity.
  - destruct (Nat.eqb x (nth i p 0%nat)) eqn:E.
    + apply Nat.eqb_eq in E. exfalso. apply Hx. rewrite E. apply nth_In. lia.
    + rewrite IH; [reflexivity | exact Hp | lia].
Qed.

(* pigeonhole: a duplicate-free list of n numbers below n contains every number below n *)
Lemma perm_onto n p y : perm_ok n p -> (y < n)%nat -> In y p.
Proof.
  intros [Hl [Hn Hb]] Hy.
  assert (I : incl (seq 0 n) p).
  { apply NoDup_length_incl; [exact Hn | rewrite seq_length; lia |].
    intros x Hx. apply in_seq. specialize (Hb x Hx). lia. }
  apply I. apply in_seq. lia.
Qed.

Lemma NoDup_map_inj {A B} (f : A -> B) l :
  (forall x y, In x l -> In y l -> f x = f y -> x = y) -> NoDup l -> NoDup (map f l).
Proof.
  induction l as [|a l IH]; intros Hf Hn; cbn [map]; [constructor|].
  inversion Hn as [|a' l' Ha Hl]; subst. constructor.
  - intro Hin. apply in_map_iff in Hin. destruct Hin as [x [Hx Hxl]].
    assert (x = a) by (apply Hf; [right; exact Hxl | left; reflexivity | exact Hx]).
    subst x. apply Ha; exact Hxl.
  - apply IH; [|exact Hl]. intros x y Hx Hy. apply Hf; right; assumption.
Qed.

Lemma pinv_length p : length (pinv p) = length p.
Proof. unfold pinv. rewrite map_length, seq_length. reflexivity. Qed.

Lemma pinv_nth p y : (y < length p)%nat -> nth y (pinv p) 0%nat = index_of y p.
Proof. intro H. unfold pinv. apply (nth_map_seq (fun y => index_of y p)); exact H. Qed.

Theorem pinv_perm n p : perm_ok n p -> perm_ok n (pinv p).
Proof.
  intro H. pose proof H as [Hl [Hn Hb]]. split; [rewrite pinv_length; exact Hl|]. split.
  - unfold pinv. apply NoDup_map_inj; [|apply seq_NoDup].
    intros x y Hx Hy E. apply in_seq in Hx. apply in_seq in Hy.
    rewrite <- (index_of_nth x p) by (apply (perm_onto n); [exact H | lia]).
    rewrite <- (index_of_nth y p) by (apply (perm_onto n); [exact H | lia]).
    rewrite E. reflexivity.
  - intros x Hx. unfold pinv in Hx. apply in_map_iff in Hx. destruct Hx as [y [Hy Hin]].
    apply in_seq in Hin. subst x. rewrite <- Hl. apply index_of_lt.
    apply (perm_onto n); [exact H | lia].
Qed.

(* inv_correct for the permutation part: argsort(p)[p[i]] = i and p[argsort(p)[y]] = y *)
Theorem pinv_left n p i : perm_ok n p -> (i < n)%nat -> nth (nth i p 0%nat) (pinv p) 0%nat = i.
Proof.
  intros [Hl [Hn Hb]] Hi. rewrite pinv_nth.
  - apply nth_index_of; [exact Hn | lia].
  - rewrite Hl. apply Hb. apply nth_In. lia.
Qed.

Theorem pinv_right n p y : perm_ok n p -> (y < n)%nat -> nth (nth y (pinv p) 0%nat) p 0%nat = y.
Proof.
  intros H Hy. pose proof H as [Hl _]. rewrite pinv_nth by lia.
  apply index_of_nth. apply (perm_onto n); assumption.
Qed.

Lemma pm_inv d a c i : pm (op_inv d a) c i = nth i (pinv (nth c (o_perm a) [])) 0%nat.
Proof.
  unfold pm, op_inv. cbn [o_perm].
  destruct (Nat.lt_ge_cases c (length (o_perm a))) as [H|H].
  - rewrite (nth_indep _ [] (pinv [])) by (rewrite map_length; exact H). rewrite map_nth. reflexivity.
  - rewrite (nth_overflow (map pinv (o_perm a))) by (rewrite map_length; exact H).
    rewrite (nth_overflow (o_perm a)) by exact H. reflexivity.
Qed.

(* ---- products, inverses and the identity are valid operations ------------------------------ *)
Lemma id_valid C : isSymOp C (op_id C).
Proof.
  constructor.
  - intros x y. apply gdot_ext; intros i Hi;
      (rewrite (mv_ext_mat _ _ mI) by (intros j Hj; apply rot_id; assumption); apply mv_I; exact Hi).
  - exists mI. split.
    + apply (meq_trans _ _ (mm (c_dim C) mI mI)); [apply mm_congr; [apply rot_id | apply meq_refl] | apply mm_I_l].
    + apply (meq_trans _ _ (mm (c_dim C) mI mI)); [apply mm_congr; [apply meq_refl | apply rot_id] | apply mm_I_l].
  - split; [unfold op_id; cbn [o_perm]; rewrite map_length; reflexivity|].
    intros c Hc. unfold op_id. cbn [o_perm]. unfold nchem in Hc.
    rewrite (nth_indep _ [] ((fun l : list (list Z) => seq 0 (length l)) [])) by (rewrite map_length; exact Hc).
    rewrite (map_nth (fun l : list (list Z) => seq 0 (length l))). fold (natoms C c).
    split; [apply seq_length|]. split; [apply seq_NoDup|]. intros x Hx. apply in_seq in Hx. lia.
  - intros c i Hc Hi R. exists R. intros k Hk. rewrite pm_id by assumption.
    unfold act. rewrite trn_id by exact Hk.
    rewrite (mv_ext_mat _ _ mI) by (intros j Hj; apply rot_id; assumption).
    rewrite mv_I by exact Hk. ring.
  - exists 1. split; [left; reflexivity|]. intros c i Hc Hi. rewrite pm_id by assumption. ring.
Qed.

Lemma nth_perm_inj n p i j : perm_ok n p -> (i < n)%nat -> (j < n)%nat -> nth i p 0%nat = nth j p 0%nat -> i = j.
Proof.
  intros [Hl [Hn _]] Hi Hj E. apply (proj1 (NoDup_nth p 0%nat) Hn); [lia | lia | exact E].
Qed.

Theorem mul_valid C a b : isSymOp C a -> isSymOp C b -> isSymOp C (op_mul (c_dim C) a b).
Proof.
  intros [Ia Ua Pa Aa Sa] [Ib Ub Pb Ab Sb]. set (d := c_dim C) in *.
  assert (RM : forall x i, (i < d)%nat -> mv d (rot (op_mul d a b)) x i = mv d (rot a) (mv d (rot b) x) i).
  { intros x i Hi. rewrite (mv_ext_mat d _ (mm d (rot a) (rot b))) by (intros j Hj; apply rot_mul; assumption).
    apply mv_mm. }
  pose proof Pa as [La Qa]. pose proof Pb as [Lb Qb].
  constructor; fold d.
  - intros x y. rewrite (gdot_ext d _ _ (mv d (rot a) (mv d (rot b) x)) _ (mv d (rot a) (mv d (rot b) y)))
      by (intros; apply RM; assumption).
    rewrite Ia. apply Ib.
  - destruct Ua as [Ta [Ua1 Ua2]]. destruct Ub as [Tb [Ub1 Ub2]].
    exists (mm d Tb Ta). split.
    + apply (meq_trans d _ (mm d (mm d (rot a) (rot b)) (mm d Tb Ta))).
      { apply mm_congr; [apply rot_mul | apply meq_refl]. }
      apply (meq_trans d _ (mm d (rot a) (mm d (rot b) (mm d Tb Ta)))).
      { intros i j _ _. apply mm_assoc. }
      apply (meq_trans d _ (mm d (rot a) Ta)); [|exact Ua1].
      apply mm_congr; [apply meq_refl|].
      apply (meq_trans d _ (mm d (mm d (rot b) Tb) Ta)).
      { intros i j _ _. symmetry. apply mm_assoc. }
      apply (meq_trans d _ (mm d mI Ta)); [apply mm_congr; [exact Ub1 | apply meq_refl] | apply mm_I_l].
    + apply (meq_trans d _ (mm d (mm d Tb Ta) (mm d (rot a) (rot b)))).
      { apply mm_congr; [apply meq_refl | apply rot_mul]. }
      apply (meq_trans d _ (mm d Tb (mm d Ta (mm d (rot a) (rot b))))).
      { intros i j _ _. apply mm_assoc. }
      apply (meq_trans d _ (mm d Tb (rot b))); [|exact Ub2].
      apply mm_congr; [apply meq_refl|].
      apply (meq_trans d _ (mm d (mm d Ta (rot a)) (rot b))).
      { intros i j _ _. symmetry. apply mm_assoc. }
      apply (meq_trans d _ (mm d mI (rot b))); [apply mm_congr; [exact Ua2 | apply meq_refl] | apply mm_I_l].
  - split.
    + unfold op_mul. cbn [o_perm]. rewrite map_length, seq_length. exact Lb.
    + intros c Hc. unfold op_mul. cbn [o_perm].
      rewrite (nth_map_seq (fun c => map (fun i => pm a c (pm b c i)) (seq 0 (length (nth c (o_perm b) []))))) by lia.
      destruct (Qb c Hc) as [Hlb [Hnb Hbb]]. rewrite Hlb.
      split; [rewrite map_length, seq_length; reflexivity|]. split.
      * apply NoDup_map_inj; [|apply seq_NoDup]. intros x y Hx Hy E.
        apply in_seq in Hx. apply in_seq in Hy.
        assert (Hbx : (pm b c x < natoms C c)%nat) by (apply perm_lt; [exact Pb | exact Hc | lia]).
        assert (Hby : (pm b c y < natoms C c)%nat) by (apply perm_lt; [exact Pb | exact Hc | lia]).
        apply (nth_perm_inj _ _ _ _ (Qa c Hc) Hbx Hby) in E.
        apply (nth_perm_inj _ _ _ _ (Qb c Hc)) in E; [exact E | lia | lia].
      * intros x Hx. apply in_map_iff in Hx. destruct Hx as [i [Hi Hin]]. apply in_seq in Hin. subst x.
        apply perm_lt; [exact Pa | exact Hc |]. apply perm_lt; [exact Pb | exact Hc | lia].
  - intros c i Hc Hi R.
    assert (Hbi : (pm b c i < natoms C c)%nat) by (apply perm_lt; assumption).
    destruct (Ab c i Hc Hi R) as [R1 H1]. destruct (Aa c (pm b c i) Hc Hbi R1) as [R2 H2].
    exists R2. intros k Hk. rewrite act_mul by exact Hk.
    rewrite (act_ext d a _ (atom_at C c (pm b c i) R1)) by exact H1.
    rewrite H2 by exact Hk. rewrite pm_mul; [reflexivity | lia |].
    destruct (Qb c Hc) as [Hlb _]. lia.
  - destruct Sa as [sa [Hsa Fa]]. destruct Sb as [sb [Hsb Fb]]. exists (sa * sb). split; [lia|].
    intros c i Hc Hi. destruct (Qb c Hc) as [Hlb _].
    rewrite pm_mul by lia. rewrite Fa; [|exact Hc | apply perm_lt; assumption].
    rewrite Fb by assumption. ring.
Qed.

Theorem inv_valid C a : (1 <= c_dim C <= 3)%nat -> isSymOp C a -> isSymOp C (op_inv (c_dim C) a).
Proof.
  intros Hd [Ia Ua Pa Aa Sa]. set (d := c_dim C) in *.
  pose proof (unimod_det d _ Hd Ua) as Hdet.
  pose proof (minv_r d _ Hd Hdet) as HR. pose proof (minv_l d _ Hd Hdet) as HL.
  set (T := minv d (rot a)) in *.
  assert (RI : forall x i, (i < d)%nat -> mv d (rot (op_inv d a)) x i = mv d T x i).
  { intros x i Hi. apply mv_ext_mat. intros j Hj. apply rot_inv; assumption. }
  assert (ST : forall x i, (i < d)%nat -> mv d (rot a) (mv d T x) i = x i).
  { intros x i Hi. rewrite <- mv_mm. rewrite (mv_ext_mat d _ mI) by (intros j Hj; apply HR; assumption).
    apply mv_I; exact Hi. }
  pose proof Pa as [La Qa].
  constructor; fold d.
  - intros x y.
    rewrite (gdot_ext d _ _ (mv d T x) _ (mv d T y)) by (intros; apply RI; assumption).
    rewrite <- (Ia (mv d T x) (mv d T y)). apply gdot_ext; intros i Hi; apply ST; exact Hi.
  - exists (rot a). split.
    + apply (meq_trans d _ (mm d T (rot a))); [apply mm_congr; [apply rot_inv | apply meq_refl] | exact HL].
    + apply (meq_trans d _ (mm d (rot a) T)); [apply mm_congr; [apply meq_refl | apply rot_inv] | exact HR].
  - split; [unfold op_inv; cbn [o_perm]; rewrite map_length; exact La|].
    intros c Hc. unfold op_inv. cbn [o_perm].
    rewrite (nth_indep _ [] (pinv [])) by (rewrite map_length; lia). rewrite map_nth.
    apply pinv_perm. apply Qa; exact Hc.
  - intros c j Hc Hj R'. rewrite pm_inv. set (i := nth j (pinv (nth c (o_perm a) [])) 0%nat).
    assert (Hi : (i < natoms C c)%nat).
    { destruct (pinv_perm _ _ (Qa c Hc)) as [Hl [_ Hb]]. apply Hb. apply nth_In. lia. }
    assert (Hij : pm a c i = j) by (apply (pinv_right (natoms C c)); [apply Qa; exact Hc | exact Hj]).
    destruct (Aa c i Hc Hi vzero) as [K HK]. rewrite Hij in HK.
    exists (mv d T (vsub R' K)). intros k Hk.
    rewrite <- (act_inv_l d a (atom_at C c i (mv d T (vsub R' K))) k HL Hk).
    apply act_ext. intros l Hl. rewrite act_atom. rewrite ST by exact Hl.
    specialize (HK l Hl). rewrite act_atom in HK. unfold atom_at in HK |- *. unfold vsub.
    assert (Z0 : mv d (rot a) vzero l = 0).
    { unfold mv, vzero. rewrite (zsum_ext _ (fun _ => 0)) by (intros; ring). apply zsum_zero. }
    change (c_dim C) with d in HK. rewrite Z0 in HK. lia.
  - destruct Sa as [s [Hs Fs]]. exists s. split; [exact Hs|]. intros c j Hc Hj.
    rewrite pm_inv. set (i := nth j (pinv (nth c (o_perm a) [])) 0%nat).
    assert (Hi : (i < natoms C c)%nat).
    { destruct (pinv_perm _ _ (Qa c Hc)) as [Hl [_ Hb]]. apply Hb. apply nth_In. lia. }
    assert (Hij : pm a c i = j) by (apply (pinv_right (natoms C c)); [apply Qa; exact Hc | exact Hj]).
    specialize (Fs c i Hc Hi). rewrite Hij in Fs. rewrite Fs.
    destruct Hs as [Hs|Hs]; subst s; ring.
Qed.

(* inv_correct: for a valid operation, a * a^-1 and a^-1 * a act as the identity on every position,
   and the recorded permutations are mutually inverse *)
Theorem inv_correct C a x k : (1 <= c_dim C <= 3)%nat -> isSymOp C a -> (k < c_dim C)%nat ->
  act (c_dim C) (op_mul (c_dim C) a (op_inv (c_dim C) a)) x k = x k /\
  act (c_dim C) (op_mul (c_dim C) (op_inv (c_dim C) a) a) x k = x k.
Proof.
  intros Hd Ha Hk. pose proof Ha as [_ Ua _ _ _].
  pose proof (unimod_det _ _ Hd Ua) as Hdet.
  split; rewrite act_mul by exact Hk.
  - apply act_inv_r; [apply minv_r; assumption | exact Hk].
  - apply act_inv_l; [apply minv_l; assumption | exact Hk].
Qed.

Theorem inv_correct_perm C a c i : isSymOp C a -> (c < nchem C)%nat -> (i < natoms C c)%nat ->
  pm (op_inv (c_dim C) a) c (pm a c i) = i /\ pm a c (pm (op_inv (c_dim C) a) c i) = i.
Proof.
  intros [_ _ [La Qa] _ _] Hc Hi. rewrite !pm_inv. split.
  - apply (pinv_left (natoms C c)); [apply Qa; exact Hc | exact Hi].
  - apply (pinv_right (natoms C c)); [apply Qa; exact Hc | exact Hi].
Qed.

(* ---- the group checker ----------------------------------------------------------------------- *)
Lemma lnat_eqb_spec a b : lnat_eqb a b = true -> a = b.
Proof.
  revert b. induction a as [|x a IH]; intros [|y b]; cbn [lnat_eqb]; intro H; try discriminate; [reflexivity|].
  apply andb_true_iff in H. destruct H as [H1 H2]. apply Nat.eqb_eq in H1. rewrite (IH b H2), H1. reflexivity.
Qed.

Lemma llnat_eqb_spec a b : llnat_eqb a b = true -> a = b.
Proof.
  revert b. induction a as [|x a IH]; intros [|y b]; cbn [llnat_eqb]; intro H; try discriminate; [reflexivity|].
  apply andb_true_iff in H. destruct H as [H1 H2]. apply lnat_eqb_spec in H1. rewrite (IH b H2), H1. reflexivity.
Qed.

Lemma eqmodb_sound C a b : c_den C <> 0 -> eqmodb C a b = true -> eqmod C a b.
Proof.
  intros HD H. unfold eqmodb in H. apply andb_true_iff in H. destruct H as [H H3].
  apply andb_true_iff in H. destruct H as [H1 H2]. split; [apply meqb_spec; exact H1|]. split.
  - intros k Hk. rewrite (vdivb_spec _ _ _ HD) in H2. eexists. apply (H2 k Hk).
  - apply llnat_eqb_spec; exact H3.
Qed.

Theorem is_groupb_sound C ops : c_den C <> 0 -> is_groupb C ops = true -> is_group_mod C ops.
Proof.
  intros HD H. unfold is_groupb in H. apply andb_true_iff in H. destruct H as [H H3].
  apply andb_true_iff in H. destruct H as [H1 H2]. split; [|split].
  - apply existsb_exists in H1. destruct H1 as [e [He E]]. exists e. split; [exact He|].
    apply eqmodb_sound; assumption.
  - intros a b Ha Hb. rewrite forallb_forall in H2. specialize (H2 a Ha).
    rewrite forallb_forall in H2. specialize (H2 b Hb).
    apply existsb_exists in H2. destruct H2 as [c [Hc E]]. exists c. split; [exact Hc|].
    apply eqmodb_sound; assumption.
  - intros a Ha. rewrite forallb_forall in H3. specialize (H3 a Ha).
    apply existsb_exists in H3. destruct H3 as [c [Hc E]]. exists c. split; [exact Hc|].
    apply eqmodb_sound; assumption.
Qed.

Lemma diagnose_group_0 C ops : diagnose_group C ops = 0%nat -> is_groupb C ops = true /\ distinctb C ops = true.
Proof.
  unfold diagnose_group, is_groupb.
  destruct (existsb _ ops); cbn [negb andb]; [|discriminate].
  destruct (forallb (fun a => forallb _ ops) ops); cbn [negb andb]; [|discriminate].
  destruct (forallb (fun a => existsb _ ops) ops); cbn [negb andb]; [|discriminate].
  destruct (distinctb C ops); cbn [negb]; [split; reflexivity | discriminate].
Qed.

(* "modulo lattice translations": operations equal in that sense send every position to
   positions that differ by a lattice vector (D times an integer vector, in units 1/D) *)
Theorem eqmod_act C a b x k : eqmod C a b -> (k < c_dim C)%nat ->
  exists n, act (c_dim C) a x k - act (c_dim C) b x k = c_den C * n.
Proof.
  intros [H1 [H2 _]] Hk. destruct (H2 k Hk) as [n Hn]. exists n. unfold act.
  rewrite (mv_ext_mat _ (rot a) (rot b)) by (intros j Hj; apply H1; assumption). lia.
Qed.

Lemma first_bad_none C ops k : first_bad C ops k = (0%nat, 0%nat) -> forall g, In g ops -> isSymOpb C g = true.
Proof.
  revert k. induction ops as [|g l IH]; intros k H g' Hg; [destruct Hg|]. cbn [first_bad] in H.
  destruct (diagnose_op C g) eqn:E; [|discriminate].
  destruct Hg as [Hg|Hg]; [subst g'; apply diagnose_op_0; exact E | apply (IH (S k)); assumption].
Qed.

(* the statement used for every crystal of the correspondence: both diagnoses 0 => the listed
   operations are all valid (for all cells) and form a group modulo lattice translations *)
Theorem crystal_group_sound C ops :
  first_bad C ops 0 = (0%nat, 0%nat) -> diagnose_group C ops = 0%nat -> ops <> [] ->
  (forall g, In g ops -> isSymOp C g) /\ is_group_mod C ops.
Proof.
  intros H1 H2 Hne. pose proof (first_bad_none C ops 0 H1) as Hv.
  assert (HD : c_den C <> 0).
  { destruct ops as [|g l]; [congruence|]. specialize (Hv g (or_introl eq_refl)).
    unfold isSymOpb in Hv. repeat (apply andb_true_iff in Hv; destruct Hv as [Hv _]).
    apply Z.ltb_lt in Hv. lia. }
  split.
  - intros g Hg. apply isSymOpb_sound. apply Hv; exact Hg.
  - apply is_groupb_sound; [exact HD|]. apply diagnose_group_0; exact H2.
Qed.

(* the checker's verdict spelled out (statement of C18_op_checker_sound) *)
Theorem isSymOpb_sound_full C g : isSymOpb C g = true ->
    (forall x y : vec, gdot (c_dim C) (metric C) (mv (c_dim C) (rot g) x) (mv (c_dim C) (rot g) y)
                       = gdot (c_dim C) (metric C) x y) /\
    unimod (c_dim C) (rot g) /\
    perms_ok C g /\
    (forall c i, (c < nchem C)%nat -> (i < natoms C c)%nat -> forall R : vec, exists R' : vec,
       forall k, (k < c_dim C)%nat ->
         act (c_dim C) g (atom_at C c i R) k = atom_at C c (pm g c i) R' k) /\
    (exists s, (s = 1 \/ s = -1) /\
       forall c i, (c < nchem C)%nat -> (i < natoms C c)%nat -> spin C c (pm g c i) = s * spin C c i).
Proof.
  intro H. destruct (isSymOpb_sound C g H) as [H1 H2 H3 H4 H5].
  split; [exact H1|]. split; [exact H2|]. split; [exact H3|]. split; [exact H4 | exact H5].
Qed.

Theorem unimod_test_complete d S : (1 <= d <= 3)%nat -> unimod d S ->
  det d S * det d S = 1 /\ unimodb d S = true.
Proof. intros H U. split; [apply unimod_det | apply unimodb_complete]; assumption. Qed.

(* ---- non-vacuity: the square lattice with two species, a 4-fold rotation about a face centre ---- *)
Definition ex_sq : crystal :=
  mkCrys 2 2 [[1;0];[0;1]] [[[0;0]];[[1;1]]] [[0];[0]].
Definition ex_r4 : symop := mkOp [[0;-1];[1;0]] [0;0] [[0%nat];[0%nat]].
Definition ex_G4 : list symop :=
  [op_id ex_sq; ex_r4; op_mul 2 ex_r4 ex_r4; op_mul 2 ex_r4 (op_mul 2 ex_r4 ex_r4)].
Example ex_r4_valid : isSymOpb ex_sq ex_r4 = true. Proof. vm_compute. reflexivity. Qed.
Example ex_G4_group : first_bad ex_sq ex_G4 0 = (0%nat, 0%nat) /\ diagnose_group ex_sq ex_G4 = 0%nat.
Proof. vm_compute. split; reflexivity. Qed.
(* a wrong permutation, a non-isometry and a broken group are rejected *)
Definition ex_hc : crystal := mkCrys 2 3 [[2;-1];[-1;2]] [[[1;2];[2;1]]] [[1;-1]].
Example ex_hc_inversion : diagnose_op ex_hc (mkOp [[-1;0];[0;-1]] [0;0] [[1%nat;0%nat]]) = 0%nat.
Proof. vm_compute. reflexivity. Qed.
Example ex_hc_wrongperm : diagnose_op ex_hc (mkOp [[-1;0];[0;-1]] [0;0] [[0%nat;1%nat]]) = 5%nat.
Proof. vm_compute. reflexivity. Qed.
Example ex_hc_spin : diagnose_op (mkCrys 2 3 [[2;-1];[-1;2]] [[[1;2];[2;1]]] [[1;2]])
                       (mkOp [[-1;0];[0;-1]] [0;0] [[1%nat;0%nat]]) = 6%nat.
Proof. vm_compute. reflexivity. Qed.
Example ex_shear_rejected : diagnose_op ex_sq (mkOp [[1;1];[0;1]] [0;0] [[0%nat];[0%nat]]) = 2%nat.
Proof. vm_compute. reflexivity. Qed.
Example ex_not_closed : diagnose_group ex_sq [op_id ex_sq; ex_r4] = 2%nat.
Proof. vm_compute. reflexivity. Qed.
Example ex_pinv : pinv [2%nat;0%nat;3%nat;1%nat] = [1%nat;3%nat;0%nat;2%nat].
Proof. reflexivity. Qed.
