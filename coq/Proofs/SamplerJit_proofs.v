(* Refinement of the reference sampler (Model/Sampler.v) by the compiled sampler (Model/SamplerJit.v):
   a relation R between their states that every operation preserves and under which every observation
   (energy, trial energy change, transitions and barriers) coincides; MCmoves = fold of the Metropolis rule.
   For every static table, every ring of energies, every occupation, every list of moves.               *)
From Coq Require Import List ZArith Bool Arith Lia Ring.
From Onsager Require Import Base.OrdRing Base.Instances Model.Sampler Model.SamplerJit Proofs.Sampler_proofs.
Import ListNotations.
Local Open Scope Z_scope.

Lemma skipn_cons_nth {A} (l : list A) i d : (i < length l)%nat -> skipn i l = nth i l d :: skipn (S i) l.
Proof.
  revert i; induction l as [|a l IH]; intros [|i] H; cbn [length] in H; try lia; [reflexivity|].
  cbn [skipn nth]. apply IH. lia.
Qed.

Lemma nth_firstn_lt {A} (l : list A) n k d : (k < n)%nat -> nth k (firstn n l) d = nth k l d.
Proof.
  revert n k; induction l as [|a l IH]; intros [|n] [|k] H; cbn [firstn nth]; try lia; try reflexivity.
  apply IH. lia.
Qed.

(* the break in the compiled deltaE_trial is harmless on energy-first rows *)
Lemma dcl_row_length ne d r : forall dc, length (dcl_row ne d dc r) = length dc.
Proof.
  induction r as [|n r IH]; intro dc; cbn [dcl_row]; [reflexivity|].
  destruct (Nat.leb ne n); [reflexivity|]. rewrite IH. apply bump_length.
Qed.

Lemma cnto_all_ge ne r m : forallb (Nat.leb ne) r = true -> (m < ne)%nat -> cnto r m = 0.
Proof.
  unfold cnto. induction r as [|n r IH]; intros H Hm; cbn [count_occ]; [reflexivity|].
  cbn [forallb] in H. apply andb_true_iff in H. destruct H as [H1 H2]. apply Nat.leb_le in H1.
  destruct (Nat.eq_dec n m); [lia|]. apply IH; assumption.
Qed.

Lemma nth_dcl_row ne d r : forall dc m, efirstb ne r = true -> (m < ne)%nat -> (m < length dc)%nat ->
  nth m (dcl_row ne d dc r) 0 = nth m dc 0 + d * cnto r m.
Proof.
  induction r as [|n r IH]; intros dc m H Hm Hl; cbn [dcl_row efirstb] in *.
  - unfold cnto; cbn [count_occ]. lia.
  - destruct (Nat.leb_spec ne n) as [Hn|Hn].
    + rewrite (cnto_all_ge ne (n :: r) m); [lia| |exact Hm]. cbn [forallb].
      apply andb_true_iff; split; [apply Nat.leb_le; exact Hn | exact H].
    + rewrite IH by (try rewrite bump_length; assumption). rewrite nth_bump by exact Hl.
      unfold cnto. cbn [count_occ]. destruct (Nat.eq_dec n m) as [->|N].
      * rewrite Nat.eqb_refl. lia.
      * destruct (Nat.eqb_spec n m); [contradiction|]. lia.
Qed.

Section JitProofs.
Variable K : ordring.
Add Ring Kr2 : (r_ring K).
Variable sd : static K.

Notation Nsites := (Nsites K sd). Notation Nint := (Nint K sd).
Notation row := (row K sd). Notation val := (val K sd). Notation is_vac := (is_vac K sd).
Notation Inv := (Inv K sd).

(* ------------------------------------------------------------------------- the relation -- *)
Record R (st : mcstate) (s : jstate) : Prop := mkR {
  R_inv : Inv st;
  R_occ : jocc s = occ st;
  R_cc : jcc s = cc st;
  R_lo : length (joset s) = Nsites;
  R_lu : length (juset s) = Nsites;
  R_li : length (jindex s) = Nsites;
  R_no : (Nocc s <= Nsites)%nat;
  R_nu : (Nunocc s <= Nsites)%nat;
  R_o1 : forall k, (k < Nocc s)%nat ->
           (nth k (joset s) O < Nsites)%nat /\ nth (nth k (joset s) O) (occ st) 2 = 1 /\
           nth (nth k (joset s) O) (jindex s) (-1) = Z.of_nat k;
  R_o2 : forall i, (i < Nsites)%nat -> nth i (occ st) 2 = 1 ->
           exists k, (k < Nocc s)%nat /\ nth i (jindex s) (-1) = Z.of_nat k /\ nth k (joset s) O = i;
  R_u1 : forall k, (k < Nunocc s)%nat ->
           (nth k (juset s) O < Nsites)%nat /\ nth (nth k (juset s) O) (occ st) 2 = 0 /\
           nth (nth k (juset s) O) (jindex s) (-1) = Z.of_nat k;
  R_u2 : forall i, (i < Nsites)%nat -> nth i (occ st) 2 = 0 ->
           exists k, (k < Nunocc s)%nat /\ nth i (jindex s) (-1) = Z.of_nat k /\ nth k (juset s) O = i
}.

(* occupied_set[:Nocc] is a duplicate-free listing of the reference sampler's occupied set (same for unoccupied) *)
Lemma R_listing st s : R st s ->
  (forall i, In i (firstn (Nocc s) (joset s)) <-> In i (oset st)) /\ NoDup (firstn (Nocc s) (joset s)) /\
  (forall i, In i (firstn (Nunocc s) (juset s)) <-> In i (uset st)) /\ NoDup (firstn (Nunocc s) (juset s)).
Proof.
  intros [I Ho Hc Lo Lu Li No Nu O1 O2 U1 U2].
  assert (G : forall (arr : list nat) n (v : Z) (set : list nat),
             length arr = Nsites -> (n <= Nsites)%nat ->
             (forall k, (k < n)%nat -> (nth k arr O < Nsites)%nat /\ nth (nth k arr O) (occ st) 2 = v /\
                                       nth (nth k arr O) (jindex s) (-1) = Z.of_nat k) ->
             (forall i, (i < Nsites)%nat -> nth i (occ st) 2 = v ->
                        exists k, (k < n)%nat /\ nth i (jindex s) (-1) = Z.of_nat k /\ nth k arr O = i) ->
             (forall i, In i set <-> ((i < Nsites)%nat /\ nth i (occ st) 2 = v)) ->
             (forall i, In i (firstn n arr) <-> In i set) /\ NoDup (firstn n arr)).
  { intros arr n v set La Ln A1 A2 S. split.
    - intro i. rewrite S. split.
      + intro Hi. apply (In_nth _ _ O) in Hi. destruct Hi as [k [Hk E]].
        rewrite firstn_length in Hk. rewrite nth_firstn_lt in E by lia.
        subst i. destruct (A1 k ltac:(lia)) as [? [? _]]. split; assumption.
      + intros [Hi Hv]. destruct (A2 i Hi Hv) as [k [Hk [_ E]]]. subst i.
        assert (E : nth k arr O = nth k (firstn n arr) O).
        { rewrite nth_firstn_lt by lia. reflexivity. }
        rewrite E. apply nth_In. rewrite firstn_length. lia.
    - apply (NoDup_nth _ O). intros a b Ha Hb E. rewrite firstn_length in Ha, Hb.
      rewrite !nth_firstn_lt in E by lia.
      destruct (A1 a ltac:(lia)) as [_ [_ Ea]]. destruct (A1 b ltac:(lia)) as [_ [_ Eb]]. rewrite E in Ea. lia. }
  destruct (G (joset s) (Nocc s) 1 (oset st) Lo No O1 O2 (inv_oset K sd st I)) as [A B].
  destruct (G (juset s) (Nunocc s) 0 (uset st) Lu Nu U1 U2 (inv_uset K sd st I)) as [C D].
  repeat split; try assumption; try apply A; try apply C.
Qed.

(* ------------------------------------------------------------------------- E -- *)
Theorem R_E st s : R st s -> (Nenergy sd <= Nint)%nat -> jE K sd s = E K sd st.
Proof.
  intros HR N. unfold jE. rewrite (R_cc st s HR). symmetry. apply E_seq; [|exact N].
  rewrite (inv_cc K sd st (R_inv st s HR)). apply cnt_list_length.
Qed.

(* ------------------------------------------------------------------------- deltaE_trial -- *)
Theorem R_deltaE st s i j : R st s -> (Nenergy sd <= Nint)%nat -> rows_okb K sd = true ->
  (i < Nsites)%nat -> (j < Nsites)%nat -> nth i (occ st) 2 = 0 -> nth j (occ st) 2 = 1 ->
  deltaE_trial K sd st [i] [j] = Some (jdeltaE K sd s i j).
Proof.
  intros HR N RO Hi Hj Oi Oj. pose proof (R_inv st s HR) as I.
  assert (Lc : length (cc st) = Nint) by (rewrite (inv_cc K sd st I); apply cnt_list_length).
  destruct (inv_occ K sd st I) as [_ V2].
  assert (Vi : is_vac i = false).
  { destruct (V2 i ltac:(rewrite (inv_len K sd st I); exact Hi)) as [[_ ?]|[_ [? _]]]; [assumption | contradiction]. }
  assert (Vj : is_vac j = false).
  { destruct (V2 j ltac:(rewrite (inv_len K sd st I); exact Hj)) as [[_ ?]|[_ [_ ?]]]; [assumption | contradiction]. }
  unfold deltaE_trial, vac_in, in_range. cbn [existsb forallb]. rewrite Vi, Vj. cbn [orb].
  rewrite (inv_len K sd st I).
  destruct (Nat.ltb_spec i Nsites); [|lia]. destruct (Nat.ltb_spec j Nsites); [|lia]. cbn [andb negb].
  f_equal.
  destruct (trial_dict_spec K sd st [i] [j]) as [ND G].
  set (g := fun (m : nat) (c : Z) => trial_term K sd st (m, c)).
  rewrite (sumf_ext K (trial_term K sd st) (fun mc => g (fst mc) (snd mc))) by (intros [m c] _; reflexivity).
  rewrite (sum_dict K g (Nenergy sd) _ ND).
  - unfold jdeltaE. apply sumf_ext. intros m Hm. apply in_seq in Hm. rewrite G.
    unfold dsem, oterm, uterm. cbn [zsum]. rewrite Oi, Oj. change (0 =? 0) with true. change (1 =? 1) with true. cbv iota.
    assert (Ri : efirstb (Nenergy sd) (row i) = true).
    { unfold rows_okb in RO. rewrite forallb_forall in RO. apply RO. unfold Sampler.row. apply nth_In. exact Hi. }
    assert (Rj : efirstb (Nenergy sd) (row j) = true).
    { unfold rows_okb in RO. rewrite forallb_forall in RO. apply RO. unfold Sampler.row. apply nth_In. exact Hj. }
    assert (D : nth m (jdcluster K sd i j) 0 = cnto (row i) m - cnto (row j) m).
    { unfold jdcluster. rewrite nth_dcl_row; [|exact Rj|lia|rewrite dcl_row_length, repeat_length; lia].
      rewrite nth_dcl_row; [|exact Ri|lia|rewrite repeat_length; lia]. rewrite nth_repeat. lia. }
    unfold g, trial_term, jtrial_term. rewrite D, (R_cc st s HR).
    replace (cnto (row i) m + 0 - (cnto (row j) m + 0)) with (cnto (row i) m - cnto (row j) m) by lia.
    destruct (Nat.leb_spec (Nenergy sd) m); [lia|]. reflexivity.
  - intro m. unfold g, trial_term. reflexivity.
  - intros m c Hm. unfold g, trial_term. destruct (c =? 0); [reflexivity|].
    destruct (Nat.leb_spec (Nenergy sd) m); [reflexivity | lia].
Qed.

End JitProofs.
