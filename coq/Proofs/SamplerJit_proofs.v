(* Refinement of the reference sampler (Model/Sampler.v) by the compiled sampler (Model/SamplerJit.v):
   a relation R between their states that every operation preserves and under which every observation
   (energy, trial energy change, transitions and barriers) coincides; MCmoves = fold of the Metropolis rule.
   For every static table, every ring of energies, every occupation, every list of moves.               *)
From Coq Require Import List ZArith Bool Arith Lia Ring.
From Onsager Require Import Base.OrdRing Base.Instances Model.Sampler Model.SamplerJit Proofs.Sampler_proofs.
Import ListNotations.
Local Open Scope Z_scope.

Lemma skipn_cons_nth {A} (l : list A) i d : (i < length l)%nat -> skipn i l = nth i l d :: skipn (S i) l.
Proof.
  revert i; induction l as [|a l IH]; intros [|i] H; cbn [length] in H; try lia; [reflexivity|].
  cbn [skipn nth]. apply IH. lia.
Qed.

Lemma nth_firstn_lt {A} (l : list A) n k d : (k < n)%nat -> nth k (firstn n l) d = nth k l d.
Proof.
  revert n k; induction l as [|a l IH]; intros [|n] [|k] H; cbn [firstn nth]; try lia; try reflexivity.
  apply IH. lia.
Qed.

Lemma nth_map_zero (l : list Z) m : nth m (map (fun _ : Z => 0) l) 0 = 0.
Proof. revert m; induction l as [|a l IH]; intros [|m]; cbn [map nth]; auto. Qed.

(* the break in the compiled deltaE_trial is harmless on energy-first rows *)
Lemma dcl_row_length ne d r : forall dc, length (dcl_row ne d dc r) = length dc.
Proof.
  induction r as [|n r IH]; intro dc; cbn [dcl_row]; [reflexivity|].
  destruct (Nat.leb ne n); [reflexivity|]. rewrite IH. apply bump_length.
Qed.

Lemma cnto_all_ge ne r m : forallb (Nat.leb ne) r = true -> (m < ne)%nat -> cnto r m = 0.
Proof.
  unfold cnto. induction r as [|n r IH]; intros H Hm; cbn [count_occ]; [reflexivity|].
  cbn [forallb] in H. apply andb_true_iff in H. destruct H as [H1 H2]. apply Nat.leb_le in H1.
  destruct (Nat.eq_dec n m); [lia|]. apply IH; assumption.
Qed.

Lemma nth_dcl_row ne d r : forall dc m, efirstb ne r = true -> (m < ne)%nat -> (m < length dc)%nat ->
  nth m (dcl_row ne d dc r) 0 = nth m dc 0 + d * cnto r m.
Proof.
  induction r as [|n r IH]; intros dc m H Hm Hl; cbn [dcl_row efirstb] in *.
  - unfold cnto; cbn [count_occ]. lia.
  - destruct (Nat.leb_spec ne n) as [Hn|Hn].
    + rewrite (cnto_all_ge ne (n :: r) m); [lia| |exact Hm]. cbn [forallb].
      apply andb_true_iff; split; [apply Nat.leb_le; exact Hn | exact H].
    + rewrite IH by (try rewrite bump_length; assumption). rewrite nth_bump by exact Hl.
      unfold cnto. cbn [count_occ]. destruct (Nat.eq_dec n m) as [->|N].
      * rewrite Nat.eqb_refl. lia.
      * destruct (Nat.eqb_spec n m); [contradiction|]. lia.
Qed.

Section JitProofs.
Variable K : ordring.
Add Ring Kr2 : (r_ring K).
Variable sd : static K.

Notation Nsites := (Nsites K sd). Notation Nint := (Nint K sd).
Notation row := (row K sd). Notation val := (val K sd). Notation is_vac := (is_vac K sd).
Notation Inv := (Inv K sd).

(* ------------------------------------------------------------------------- the relation -- *)
Record R (st : mcstate) (s : jstate) : Prop := mkR {
  R_inv : Inv st;
  R_occ : jocc s = occ st;
  R_cc : jcc s = cc st;
  R_lo : length (joset s) = Nsites;
  R_lu : length (juset s) = Nsites;
  R_li : length (jindex s) = Nsites;
  R_no : (Nocc s <= Nsites)%nat;
  R_nu : (Nunocc s <= Nsites)%nat;
  R_o1 : forall k, (k < Nocc s)%nat ->
           (nth k (joset s) O < Nsites)%nat /\ nth (nth k (joset s) O) (occ st) 2 = 1 /\
           nth (nth k (joset s) O) (jindex s) (-1) = Z.of_nat k;
  R_o2 : forall i, (i < Nsites)%nat -> nth i (occ st) 2 = 1 ->
           exists k, (k < Nocc s)%nat /\ nth i (jindex s) (-1) = Z.of_nat k /\ nth k (joset s) O = i;
  R_u1 : forall k, (k < Nunocc s)%nat ->
           (nth k (juset s) O < Nsites)%nat /\ nth (nth k (juset s) O) (occ st) 2 = 0 /\
           nth (nth k (juset s) O) (jindex s) (-1) = Z.of_nat k;
  R_u2 : forall i, (i < Nsites)%nat -> nth i (occ st) 2 = 0 ->
           exists k, (k < Nunocc s)%nat /\ nth i (jindex s) (-1) = Z.of_nat k /\ nth k (juset s) O = i
}.

(* occupied_set[:Nocc] is a duplicate-free listing of the reference sampler's occupied set (same for unoccupied) *)
Lemma R_listing st s : R st s ->
  (forall i, In i (firstn (Nocc s) (joset s)) <-> In i (oset st)) /\ NoDup (firstn (Nocc s) (joset s)) /\
  (forall i, In i (firstn (Nunocc s) (juset s)) <-> In i (uset st)) /\ NoDup (firstn (Nunocc s) (juset s)).
Proof.
  intros [I Ho Hc Lo Lu Li No Nu O1 O2 U1 U2].
  assert (G : forall (arr : list nat) n (v : Z) (set : list nat),
             length arr = Nsites -> (n <= Nsites)%nat ->
             (forall k, (k < n)%nat -> (nth k arr O < Nsites)%nat /\ nth (nth k arr O) (occ st) 2 = v /\
                                       nth (nth k arr O) (jindex s) (-1) = Z.of_nat k) ->
             (forall i, (i < Nsites)%nat -> nth i (occ st) 2 = v ->
                        exists k, (k < n)%nat /\ nth i (jindex s) (-1) = Z.of_nat k /\ nth k arr O = i) ->
             (forall i, In i set <-> ((i < Nsites)%nat /\ nth i (occ st) 2 = v)) ->
             (forall i, In i (firstn n arr) <-> In i set) /\ NoDup (firstn n arr)).
  { intros arr n v set La Ln A1 A2 S. split.
    - intro i. rewrite S. split.
      + intro Hi. apply (In_nth _ _ O) in Hi. destruct Hi as [k [Hk E]].
        rewrite firstn_length in Hk. rewrite nth_firstn_lt in E by lia.
        subst i. destruct (A1 k ltac:(lia)) as [? [? _]]. split; assumption.
      + intros [Hi Hv]. destruct (A2 i Hi Hv) as [k [Hk [_ E]]]. subst i.
        assert (E : nth k arr O = nth k (firstn n arr) O).
        { rewrite nth_firstn_lt by lia. reflexivity. }
        rewrite E. apply nth_In. rewrite firstn_length. lia.
    - apply (NoDup_nth _ O). intros a b Ha Hb E. rewrite firstn_length in Ha, Hb.
      rewrite !nth_firstn_lt in E by lia.
      destruct (A1 a ltac:(lia)) as [_ [_ Ea]]. destruct (A1 b ltac:(lia)) as [_ [_ Eb]]. rewrite E in Ea. lia. }
  destruct (G (joset s) (Nocc s) 1 (oset st) Lo No O1 O2 (inv_oset K sd st I)) as [A B].
  destruct (G (juset s) (Nunocc s) 0 (uset st) Lu Nu U1 U2 (inv_uset K sd st I)) as [C D].
  repeat split; try assumption; try apply A; try apply C.
Qed.

(* ------------------------------------------------------------------------- E -- *)
Theorem R_E st s : R st s -> (Nenergy sd <= Nint)%nat -> jE K sd s = E K sd st.
Proof.
  intros HR N. unfold jE. rewrite (R_cc st s HR). symmetry. apply E_seq; [|exact N].
  rewrite (inv_cc K sd st (R_inv st s HR)). apply cnt_list_length.
Qed.

(* ------------------------------------------------------------------------- deltaE_trial -- *)
Theorem R_deltaE st s i j : R st s -> (Nenergy sd <= Nint)%nat -> rows_okb K sd = true ->
  (i < Nsites)%nat -> (j < Nsites)%nat -> nth i (occ st) 2 = 0 -> nth j (occ st) 2 = 1 ->
  deltaE_trial K sd st [i] [j] = Some (jdeltaE K sd s i j).
Proof.
  intros HR N RO Hi Hj Oi Oj. pose proof (R_inv st s HR) as I.
  assert (Lc : length (cc st) = Nint) by (rewrite (inv_cc K sd st I); apply cnt_list_length).
  destruct (inv_occ K sd st I) as [_ V2].
  assert (Vi : is_vac i = false).
  { destruct (V2 i ltac:(rewrite (inv_len K sd st I); exact Hi)) as [[_ ?]|[_ [? _]]]; [assumption | contradiction]. }
  assert (Vj : is_vac j = false).
  { destruct (V2 j ltac:(rewrite (inv_len K sd st I); exact Hj)) as [[_ ?]|[_ [_ ?]]]; [assumption | contradiction]. }
  unfold deltaE_trial, vac_in, in_range. cbn [existsb forallb]. rewrite Vi, Vj. cbn [orb].
  rewrite (inv_len K sd st I).
  destruct (Nat.ltb_spec i Nsites); [|lia]. destruct (Nat.ltb_spec j Nsites); [|lia]. cbn [andb negb].
  f_equal.
  destruct (trial_dict_spec K sd st [i] [j]) as [ND G].
  set (g := fun (m : nat) (c : Z) => trial_term K sd st (m, c)).
  rewrite (sumf_ext K (trial_term K sd st) (fun mc => g (fst mc) (snd mc))) by (intros [m c] _; reflexivity).
  rewrite (sum_dict K g (Nenergy sd) _ ND).
  - unfold jdeltaE. apply sumf_ext. intros m Hm. apply in_seq in Hm. rewrite G.
    unfold dsem, oterm, uterm. cbn [zsum]. rewrite Oi, Oj. change (0 =? 0) with true. change (1 =? 1) with true. cbv iota.
    assert (Ri : efirstb (Nenergy sd) (row i) = true).
    { unfold rows_okb in RO. rewrite forallb_forall in RO. apply RO. unfold Sampler.row. apply nth_In. exact Hi. }
    assert (Rj : efirstb (Nenergy sd) (row j) = true).
    { unfold rows_okb in RO. rewrite forallb_forall in RO. apply RO. unfold Sampler.row. apply nth_In. exact Hj. }
    assert (D : nth m (jdcluster K sd i j) 0 = cnto (row i) m - cnto (row j) m).
    { unfold jdcluster. rewrite nth_dcl_row; [|exact Rj|lia|rewrite dcl_row_length, repeat_length; lia].
      rewrite nth_dcl_row; [|exact Ri|lia|rewrite repeat_length; lia]. rewrite nth_repeat. lia. }
    unfold g, trial_term, jtrial_term. rewrite D, (R_cc st s HR).
    replace (cnto (row i) m + 0 - (cnto (row j) m + 0)) with (cnto (row i) m - cnto (row j) m) by lia.
    destruct (Nat.leb_spec (Nenergy sd) m); [lia|]. reflexivity.
  - intro m. unfold g, trial_term. reflexivity.
  - intros m c Hm. unfold g, trial_term. destruct (c =? 0); [reflexivity|].
    destruct (Nat.leb_spec (Nenergy sd) m); [reflexivity | lia].
Qed.


(* ------------------------------------------------------------------------- update -- *)
(* replacing the entry at position p of a listing: xout leaves, xin enters *)
Lemma listing_swap (arr : list nat) (n : nat) (v : Z) (oc oc' idx idx' : nat -> Z) (p xin xout : nat) :
  length arr = Nsites -> (n <= Nsites)%nat -> (p < n)%nat -> nth p arr O = xout ->
  (forall k, (k < n)%nat -> (nth k arr O < Nsites)%nat /\ oc (nth k arr O) = v /\ idx (nth k arr O) = Z.of_nat k) ->
  (forall x, (x < Nsites)%nat -> oc x = v -> exists k, (k < n)%nat /\ idx x = Z.of_nat k /\ nth k arr O = x) ->
  (xin < Nsites)%nat -> oc xin <> v -> oc' xin = v -> oc' xout <> v ->
  (forall x, x <> xin -> x <> xout -> oc' x = oc x) ->
  idx' xin = Z.of_nat p -> (forall x, x <> xin -> x <> xout -> idx' x = idx x) ->
  (forall k, (k < n)%nat -> (nth k (upd arr p xin) O < Nsites)%nat /\ oc' (nth k (upd arr p xin) O) = v /\
                            idx' (nth k (upd arr p xin) O) = Z.of_nat k) /\
  (forall x, (x < Nsites)%nat -> oc' x = v ->
             exists k, (k < n)%nat /\ idx' x = Z.of_nat k /\ nth k (upd arr p xin) O = x).
Proof.
  intros La Ln Hp Eout L1 L2 Hin Oin Oin' Oout' Ooth Iin Ioth.
  assert (Ip : idx xout = Z.of_nat p) by (rewrite <- Eout; apply (L1 p Hp)).
  split.
  - intros k Hk. destruct (Nat.eq_dec k p) as [->|N].
    + rewrite nth_upd_eq by lia. auto.
    + rewrite nth_upd_neq by exact N. destruct (L1 k Hk) as [A [B C]].
      assert (nth k arr O <> xin) by (intro E; rewrite E in B; contradiction).
      assert (nth k arr O <> xout) by (intro E; rewrite E in C; lia).
      rewrite Ooth, Ioth by assumption. auto.
  - intros x Hx Ox. destruct (Nat.eq_dec x xin) as [->|N].
    + exists p. rewrite nth_upd_eq by lia. auto.
    + assert (x <> xout) by (intro; subst x; contradiction).
      rewrite Ooth in Ox by assumption. destruct (L2 x Hx Ox) as [k [Hk [A B]]].
      exists k. rewrite Ioth by assumption. split; [exact Hk|]. split; [exact A|].
      rewrite nth_upd_neq; [exact B|]. intro; subst k. rewrite Eout in B. congruence.
Qed.

Theorem R_update st s i j : R st s ->
  (i < Nsites)%nat -> (j < Nsites)%nat -> nth i (occ st) 2 = 0 -> nth j (occ st) 2 = 1 ->
  exists st', update K sd st [i] [j] = Some st' /\ R st' (jupdate K sd s i j) /\
              Nocc (jupdate K sd s i j) = Nocc s /\ Nunocc (jupdate K sd s i j) = Nunocc s.
Proof.
  intros HR Hi Hj Oi Oj. pose proof (R_inv st s HR) as I.
  pose proof (inv_len K sd st I) as L.
  destruct (inv_occ K sd st I) as [_ V2].
  assert (Vi : is_vac i = false).
  { destruct (V2 i ltac:(rewrite L; exact Hi)) as [[_ ?]|[_ [? _]]]; [assumption | contradiction]. }
  assert (Vj : is_vac j = false).
  { destruct (V2 j ltac:(rewrite L; exact Hj)) as [[_ ?]|[_ [_ ?]]]; [assumption | contradiction]. }
  assert (Nij : i <> j) by (intro; subst; lia).
  destruct (update_total K sd st [i] [j] I) as [st' U].
  { unfold vac_in. cbn [existsb]. rewrite Vi. reflexivity. }
  { unfold vac_in. cbn [existsb]. rewrite Vj. reflexivity. }
  { intros x [<-|[]]; exact Hi. }
  { intros x [<-|[]]; exact Hj. }
  exists st'. split; [exact U|].
  pose proof (update_Inv K sd st [i] [j] st' I U) as I'.
  (* the reference result, explicitly *)
  assert (Est : occ st' = upd (upd (occ st) i 1) j 0 /\
                cc st' = bump_all 1 (bump_all (-1) (cc st) (row i)) (row j)).
  { unfold update, vac_in in U. cbn [existsb fold_left] in U. rewrite Vi, Vj in U. cbn [orb] in U.
    cbn [occupy] in U. rewrite L in U. destruct (Nat.leb_spec Nsites i); [lia|].
    rewrite Oi in U. change (0 =? 0) with true in U. cbv iota in U.
    destruct (set_remove i (uset st)) as [u'|]; [|discriminate].
    cbn [unoccupy occ] in U. rewrite upd_length, L in U. destruct (Nat.leb_spec Nsites j); [lia|].
    rewrite nth_upd_neq in U by lia. rewrite Oj in U. change (1 =? 1) with true in U. cbv iota in U.
    cbn [oset cc uset] in U. destruct (set_remove j (set_add i (oset st))) as [o'|]; [|discriminate].
    inversion U; subst st'. cbn [occ cc]. split; reflexivity. }
  destruct Est as [Eo Ec].
  destruct HR as [_ Ro Rc Lo Lu Li No Nu O1 O2 U1 U2].
  destruct (O2 j Hj Oj) as [b [Hb [Ib Eb]]]. destruct (U2 i Hi Oi) as [a [Ha [Ia Ea]]].
  assert (Oc' : forall x, nth x (occ st') 2 = if Nat.eqb x j then 0 else if Nat.eqb x i then 1 else nth x (occ st) 2).
  { intro x. rewrite Eo. destruct (Nat.eqb_spec x j) as [->|N1].
    - apply nth_upd_eq. rewrite upd_length. lia.
    - rewrite nth_upd_neq by exact N1. destruct (Nat.eqb_spec x i) as [->|N2].
      + apply nth_upd_eq. lia.
      + apply nth_upd_neq. exact N2. }
  assert (Ix' : forall x, nth x (jindex (jupdate K sd s i j)) (-1) =
                          if Nat.eqb x j then Z.of_nat a else if Nat.eqb x i then Z.of_nat b else nth x (jindex s) (-1)).
  { intro x. unfold jupdate. cbn [jindex]. rewrite Ia, Ib, !Nat2Z.id. destruct (Nat.eqb_spec x j) as [->|N1].
    - apply nth_upd_eq. rewrite upd_length. lia.
    - rewrite nth_upd_neq by exact N1. destruct (Nat.eqb_spec x i) as [->|N2].
      + apply nth_upd_eq. lia.
      + apply nth_upd_neq. exact N2. }
  assert (Ej : Nat.eqb i j = false) by (apply Nat.eqb_neq; exact Nij).
  assert (Ej' : Nat.eqb j i = false) by (apply Nat.eqb_neq; lia).
  destruct (listing_swap (joset s) (Nocc s) 1 (fun x => nth x (occ st) 2) (fun x => nth x (occ st') 2)
              (fun x => nth x (jindex s) (-1)) (fun x => nth x (jindex (jupdate K sd s i j)) (-1)) b i j) as [O1' O2'];
    try assumption; try lia.
  { cbv beta. rewrite Oc', Ej, Nat.eqb_refl. reflexivity. }
  { cbv beta. rewrite Oc', Nat.eqb_refl. lia. }
  { intros x N1 N2. cbv beta. rewrite Oc'. destruct (Nat.eqb_spec x j); [contradiction|]. destruct (Nat.eqb_spec x i); [contradiction|]. reflexivity. }
  { cbv beta. rewrite Ix', Ej, Nat.eqb_refl. reflexivity. }
  { intros x N1 N2. cbv beta. rewrite Ix'. destruct (Nat.eqb_spec x j); [contradiction|]. destruct (Nat.eqb_spec x i); [contradiction|]. reflexivity. }
  destruct (listing_swap (juset s) (Nunocc s) 0 (fun x => nth x (occ st) 2) (fun x => nth x (occ st') 2)
              (fun x => nth x (jindex s) (-1)) (fun x => nth x (jindex (jupdate K sd s i j)) (-1)) a j i) as [U1' U2'];
    try assumption; try lia.
  { cbv beta. rewrite Oc', Nat.eqb_refl. reflexivity. }
  { cbv beta. rewrite Oc', Ej, Nat.eqb_refl. lia. }
  { intros x N1 N2. cbv beta. rewrite Oc'. destruct (Nat.eqb_spec x j); [contradiction|]. destruct (Nat.eqb_spec x i); [contradiction|]. reflexivity. }
  { cbv beta. rewrite Ix', Nat.eqb_refl. reflexivity. }
  { intros x N1 N2. cbv beta. rewrite Ix'. destruct (Nat.eqb_spec x j); [contradiction|]. destruct (Nat.eqb_spec x i); [contradiction|]. reflexivity. }
  split; [|split; reflexivity].
  assert (Eb' : Z.to_nat (nth j (jindex s) (-1)) = b) by (rewrite Ib; apply Nat2Z.id).
  assert (Ea' : Z.to_nat (nth i (jindex s) (-1)) = a) by (rewrite Ia; apply Nat2Z.id).
  constructor.
  - exact I'.
  - unfold jupdate; cbn [jocc]. rewrite Ro, Eo. reflexivity.
  - unfold jupdate; cbn [jcc]. rewrite Rc, Ec. reflexivity.
  - unfold jupdate; cbn [joset]. rewrite upd_length. exact Lo.
  - unfold jupdate; cbn [juset]. rewrite upd_length. exact Lu.
  - unfold jupdate; cbn [jindex]. rewrite !upd_length. exact Li.
  - exact No.
  - exact Nu.
  - intros k Hk. unfold jupdate at 1 2 3. cbn [joset Nocc] in *. rewrite Eb'. apply O1'. exact Hk.
  - intros x Hx Ox. destruct (O2' x Hx Ox) as [k [Hk [A B]]]. exists k. unfold jupdate at 1 3. cbn [joset Nocc]. rewrite Eb'. auto.
  - intros k Hk. unfold jupdate at 1 2 3. cbn [juset Nunocc] in *. rewrite Ea'. apply U1'. exact Hk.
  - intros x Hx Ox. destruct (U2' x Hx Ox) as [k [Hk [A B]]]. exists k. unfold jupdate at 1 3. cbn [juset Nunocc]. rewrite Ea'. auto.
Qed.


(* ------------------------------------------------------------------------- start -- *)
(* array sizes the constructor (MonteCarloSampler_param) provides *)
Definition WFJ (s : jstate) : Prop :=
  length (jocc s) = Nsites /\ length (jcc s) = Nint /\ length (joset s) = Nsites /\
  length (juset s) = Nsites /\ length (jindex s) = Nsites.

Definition idxf (s : jstate) (x : nat) : Z := nth x (jindex s) (-1).

(* loop invariant of start() before processing site i *)
Definition Pst (o : list Z) (i : nat) (s : jstate) : Prop :=
  WFJ s /\ (Nocc s + Nunocc s <= i)%nat /\
  (forall x, (x < i)%nat -> nth x (jocc s) 2 = nth x o 2) /\
  (forall m, (m < Nint)%nat ->
     nth m (jcc s) 0 + cnt_rows (combine (skipn i o) (skipn i (siteinteract sd))) m = cnt K sd o m) /\
  (forall k, (k < Nocc s)%nat -> (nth k (joset s) O < i)%nat /\ nth (nth k (joset s) O) o 2 = 1 /\
                                 idxf s (nth k (joset s) O) = Z.of_nat k) /\
  (forall x, (x < i)%nat -> nth x o 2 = 1 -> exists k, (k < Nocc s)%nat /\ idxf s x = Z.of_nat k /\ nth k (joset s) O = x) /\
  (forall k, (k < Nunocc s)%nat -> (nth k (juset s) O < i)%nat /\ nth (nth k (juset s) O) o 2 = 0 /\
                                   idxf s (nth k (juset s) O) = Z.of_nat k) /\
  (forall x, (x < i)%nat -> nth x o 2 = 0 -> exists k, (k < Nunocc s)%nat /\ idxf s x = Z.of_nat k /\ nth k (juset s) O = x).

Lemma Pst_step o i s : length o = Nsites -> (i < Nsites)%nat -> Pst o i s -> Pst o (S i) (jstart_step K sd o s i).
Proof.
  intros Lo Hi [[L1 [L2 [L3 [L4 L5]]]] [Hn [Ho [Hc [O1 [O2 [U1 U2]]]]]]].
  assert (SK : forall m, cnt_rows (combine (skipn i o) (skipn i (siteinteract sd))) m =
                         (if nth i o 2 =? 0 then cnto (row i) m else 0) +
                         cnt_rows (combine (skipn (S i) o) (skipn (S i) (siteinteract sd))) m).
  { intro m. rewrite (skipn_cons_nth o i 2) by lia.
    rewrite (skipn_cons_nth (siteinteract sd) i []) by (unfold Sampler.Nsites in Hi; exact Hi).
    cbn [combine cnt_rows]. unfold cnto, Sampler.row. reflexivity. }
  assert (IX : forall (idx : list Z) x v, length idx = Nsites -> x <> i -> nth x (upd idx i v) (-1) = nth x idx (-1)).
  { intros. apply nth_upd_neq. assumption. }
  unfold jstart_step. cbn [jocc jcc Nocc Nunocc joset juset jindex].
  destruct (Z.eqb_spec (nth i o 2) 1) as [E1|N1]; [|destruct (Z.eqb_spec (nth i o 2) 0) as [E0|N0]];
    unfold Pst, WFJ, idxf; cbn [jocc jcc Nocc Nunocc joset juset jindex]; rewrite ?upd_length, ?bump_all_length.
  - (* occupied *)
    split; [repeat split; assumption|]. split; [lia|]. split; [|split; [|split; [|split; [|split]]]].
    + intros x Hx. destruct (Nat.eq_dec x i) as [->|N]; [rewrite nth_upd_eq by lia; reflexivity | rewrite nth_upd_neq by exact N; apply Ho; lia].
    + intros m Hm. rewrite <- (Hc m Hm), SK, E1. change (1 =? 0) with false. cbv iota. lia.
    + intros k Hk. destruct (Nat.eq_dec k (Nocc s)) as [->|N].
      * rewrite nth_upd_eq by lia. rewrite nth_upd_eq by lia. repeat split; [lia | exact E1].
      * rewrite nth_upd_neq by exact N. destruct (O1 k ltac:(lia)) as [A [B C]]. unfold idxf in C.
        rewrite nth_upd_neq by lia. repeat split; [lia | exact B | exact C].
    + intros x Hx Ox. destruct (Nat.eq_dec x i) as [->|N].
      * exists (Nocc s). rewrite !nth_upd_eq by lia. repeat split; lia.
      * destruct (O2 x ltac:(lia) Ox) as [k [Hk [A B]]]. exists k. unfold idxf in A.
        rewrite !nth_upd_neq by lia. repeat split; [lia | exact A | exact B].
    + intros k Hk. destruct (U1 k Hk) as [A [B C]]. unfold idxf in C. rewrite nth_upd_neq by lia.
      repeat split; [lia | exact B | exact C].
    + intros x Hx Ox. assert (x <> i) by (intro; subst; lia).
      destruct (U2 x ltac:(lia) Ox) as [k [Hk [A B]]]. exists k. unfold idxf in A. rewrite nth_upd_neq by lia.
      repeat split; assumption.
  - (* unoccupied *)
    split; [repeat split; assumption|]. split; [lia|]. split; [|split; [|split; [|split; [|split]]]].
    + intros x Hx. destruct (Nat.eq_dec x i) as [->|N]; [rewrite nth_upd_eq by lia; reflexivity | rewrite nth_upd_neq by exact N; apply Ho; lia].
    + intros m Hm. rewrite nth_bump_all by lia. rewrite <- (Hc m Hm), SK. lia.
    + intros k Hk. destruct (O1 k Hk) as [A [B C]]. unfold idxf in C. rewrite nth_upd_neq by lia.
      repeat split; [lia | exact B | exact C].
    + intros x Hx Ox. assert (x <> i) by (intro; subst; lia).
      destruct (O2 x ltac:(lia) Ox) as [k [Hk [A B]]]. exists k. unfold idxf in A. rewrite nth_upd_neq by lia.
      repeat split; assumption.
    + intros k Hk. destruct (Nat.eq_dec k (Nunocc s)) as [->|N].
      * rewrite nth_upd_eq by lia. rewrite nth_upd_eq by lia. repeat split; [lia | exact E0].
      * rewrite nth_upd_neq by exact N. destruct (U1 k ltac:(lia)) as [A [B C]]. unfold idxf in C.
        rewrite nth_upd_neq by lia. repeat split; [lia | exact B | exact C].
    + intros x Hx Ox. destruct (Nat.eq_dec x i) as [->|N].
      * exists (Nunocc s). rewrite !nth_upd_eq by lia. repeat split; lia.
      * destruct (U2 x ltac:(lia) Ox) as [k [Hk [A B]]]. exists k. unfold idxf in A.
        rewrite !nth_upd_neq by lia. repeat split; [lia | exact A | exact B].
  - (* neither: the vacancy *)
    split; [repeat split; assumption|]. split; [lia|]. split; [|split; [|split; [|split; [|split]]]].
    + intros x Hx. destruct (Nat.eq_dec x i) as [->|N]; [rewrite nth_upd_eq by lia; reflexivity | rewrite nth_upd_neq by exact N; apply Ho; lia].
    + intros m Hm. rewrite <- (Hc m Hm), SK. lia.
    + intros k Hk. destruct (O1 k Hk) as [A [B C]]. unfold idxf in C. rewrite nth_upd_neq by lia.
      repeat split; [lia | exact B | exact C].
    + intros x Hx Ox. assert (x <> i) by (intro; subst; contradiction).
      destruct (O2 x ltac:(lia) Ox) as [k [Hk [A B]]]. exists k. unfold idxf in A. rewrite nth_upd_neq by lia.
      repeat split; assumption.
    + intros k Hk. destruct (U1 k Hk) as [A [B C]]. unfold idxf in C. rewrite nth_upd_neq by lia.
      repeat split; [lia | exact B | exact C].
    + intros x Hx Ox. assert (x <> i) by (intro; subst; contradiction).
      destruct (U2 x ltac:(lia) Ox) as [k [Hk [A B]]]. exists k. unfold idxf in A. rewrite nth_upd_neq by lia.
      repeat split; assumption.
Qed.

Lemma Pst_loop o : length o = Nsites -> forall rem i s, (i + rem = Nsites)%nat -> Pst o i s ->
  Pst o Nsites (jstart_loop K sd rem i o s).
Proof.
  intro Lo. induction rem as [|rem IH]; intros i s Hr P; cbn [jstart_loop].
  - replace Nsites with i by lia. exact P.
  - apply IH; [lia|]. apply Pst_step; [exact Lo | lia | exact P].
Qed.

(* start() of the compiled sampler, called in ANY earlier state, is related to the reference start() *)
Theorem R_start s0 o st : WFJ s0 -> start K sd o = Some st -> R st (jstart K sd s0 o).
Proof.
  intros [W1 [W2 [W3 [W4 W5]]]] S. destruct (start_Inv K sd o st S) as [I Eo].
  pose proof (inv_len K sd st I) as L. rewrite Eo in L.
  assert (P0 : Pst o O (mkJ (jocc s0) (map (fun _ => 0) (jcc s0)) O O (joset s0) (juset s0) (jindex s0))).
  { unfold Pst, WFJ; cbn [jocc jcc Nocc Nunocc joset juset jindex]. rewrite map_length.
    split; [repeat split; assumption|]. split; [lia|]. split; [intros; lia|]. split.
    - intros m Hm. cbn [skipn]. unfold cnt.
      rewrite nth_map_zero. lia.
    - repeat split; intros; lia. }
  pose proof (Pst_loop o L Nsites O _ eq_refl P0) as P. fold (jstart K sd s0 o) in P.
  destruct P as [[L1 [L2 [L3 [L4 L5]]]] [Hn [Ho [Hc [O1 [O2 [U1 U2]]]]]]].
  constructor; try assumption; try lia.
  - rewrite Eo. apply (nth_ext _ _ 2 2); [lia|]. intros x Hx. apply Ho. lia.
  - rewrite (inv_cc K sd st I), Eo. apply nth_ext_Z; [rewrite cnt_list_length; exact L2|].
    intros m Hm. rewrite L2 in Hm. rewrite nth_cnt_list by exact Hm. rewrite <- (Hc m Hm).
    rewrite skipn_all2 by lia. cbn [combine cnt_rows]. lia.
  - rewrite Eo. intros k Hk. apply O1. exact Hk.
  - rewrite Eo. intros x Hx Ox. apply O2; assumption.
  - rewrite Eo. intros k Hk. apply U1. exact Hk.
  - rewrite Eo. intros x Hx Ox. apply U2; assumption.
Qed.

Lemma R_WFJ st s : R st s -> WFJ s.
Proof.
  intros [I Ro Rc Lo Lu Li _ _ _ _ _ _]. unfold WFJ. rewrite Ro, Rc, (inv_cc K sd st I), cnt_list_length.
  repeat split; try assumption. apply (inv_len K sd st I).
Qed.

(* ------------------------------------------------------------------------- transitions -- *)
Definition jumps_ok (js : list (nat * nat)) : Prop :=
  forall i j, In (i, j) js -> (i < Nsites)%nat /\ (j < Nsites)%nat /\ (0 <= vacancy sd -> is_vac i = true).

Theorem R_transitions st s js : R st s -> jumps sd = Some js -> jumps_ok js ->
  transitions K sd st = Some (finite_only K (jtransitions K sd s)).
Proof.
  intros HR J OK. unfold transitions, jtransitions. rewrite J. f_equal. clear J.
  pose proof (R_inv st s HR) as I. destruct (inv_occ K sd st I) as [V1 V2].
  pose proof (inv_len K sd st I) as L.
  generalize O. induction js as [|[i j] js IH]; intro n; cbn [trans_loop jtrans_loop finite_only]; [reflexivity|].
  destruct (OK i j (or_introl eq_refl)) as [Hi [Hj Hv]].
  assert (OK' : jumps_ok js) by (intros a b H; apply OK; right; exact H).
  unfold jallowed. rewrite (R_occ st s HR), (R_cc st s HR).
  destruct (Z.ltb_spec (vacancy sd) 0) as [Vn|Vp]; cbn [andb].
  - (* no vacancy: every site holds 0 or 1 *)
    assert (B : forall x, (x < Nsites)%nat -> nth x (occ st) 2 = 0 \/ nth x (occ st) 2 = 1).
    { intros x Hx. destruct (V2 x ltac:(lia)) as [[? _]|[V _]]; [assumption|].
      unfold Sampler.is_vac in V. apply Z.eqb_eq in V. lia. }
    destruct (B i Hi) as [Ei|Ei], (B j Hj) as [Ej|Ej]; rewrite Ei, Ej; cbn; rewrite (IH OK'); reflexivity.
  - (* vacancy: every jump starts at the vacancy, whose occupation is -1 *)
    specialize (Hv Vp). apply is_vac_true in Hv. destruct Hv as [_ ->].
    rewrite (nth_indep (occ st) 2 0) by lia. rewrite (V1 Vp). cbn. rewrite (IH OK'). reflexivity.
Qed.

(* ------------------------------------------------------------------------- MCmoves -- *)
Theorem MCmoves_app s l1 l2 : jMCmoves K sd s (l1 ++ l2) = jMCmoves K sd (jMCmoves K sd s l1) l2.
Proof. unfold jMCmoves. apply fold_left_app. Qed.

Theorem MCmoves_one s mv : jMCmoves K sd s [mv] = jmc_step K sd s mv.
Proof. reflexivity. Qed.

Lemma R_mc_step st s oc uc t : R st s -> (Nenergy sd <= Nint)%nat -> rows_okb K sd = true ->
  (oc < Nunocc s)%nat -> (uc < Nocc s)%nat ->
  exists st', ref_mc_step K sd st (nth oc (juset s) O) (nth uc (joset s) O) t = Some st' /\
              R st' (jmc_step K sd s (oc, uc, t)) /\
              Nocc (jmc_step K sd s (oc, uc, t)) = Nocc s /\ Nunocc (jmc_step K sd s (oc, uc, t)) = Nunocc s.
Proof.
  intros HR N RO Ho Hu.
  destruct (R_u1 st s HR oc Ho) as [Hi [Oi _]]. destruct (R_o1 st s HR uc Hu) as [Hj [Oj _]].
  unfold ref_mc_step, jmc_step. rewrite (R_deltaE st s _ _ HR N RO Hi Hj Oi Oj).
  destruct (rltb K (jdeltaE K sd s (nth oc (juset s) O) (nth uc (joset s) O)) t).
  - destruct (R_update st s _ _ HR Hi Hj Oi Oj) as [st' [U [HR' [A B]]]]. exists st'. auto.
  - exists st. auto.
Qed.

(* a batch of moves: the compiled sampler stays related to the reference sampler driven, move by move,
   by the Metropolis rule on the sites the compiled sampler picks *)
Theorem R_MCmoves moves : forall st s, R st s -> (Nenergy sd <= Nint)%nat -> rows_okb K sd = true ->
  (forall oc uc t, In (oc, uc, t) moves -> (oc < Nunocc s)%nat /\ (uc < Nocc s)%nat) ->
  exists st', co_run K sd st s moves = Some (st', jMCmoves K sd s moves) /\ R st' (jMCmoves K sd s moves).
Proof.
  induction moves as [|[[oc uc] t] moves IH]; intros st s HR N RO Hm; cbn [co_run jMCmoves fold_left].
  - exists st. auto.
  - destruct (Hm oc uc t (or_introl eq_refl)) as [Ho Hu].
    destruct (R_mc_step st s oc uc t HR N RO Ho Hu) as [st1 [E1 [HR1 [A B]]]].
    rewrite E1. unfold jMCmoves in IH.
    apply (IH st1 (jmc_step K sd s (oc, uc, t)) HR1 N RO).
    intros oc' uc' t' H. rewrite A, B. apply (Hm oc' uc' t'). right. exact H.
Qed.

End JitProofs.

(* non-vacuity: a 3-site chain with pair interactions, one jump, energies in Z *)
Definition sdJ : static Zring :=
  mkStatic (K:=Zring) [[O; 1%nat; 3%nat]; [O; 2%nat; 3%nat]; [1%nat; 2%nat]] [3; 5; 7; 2; 4] 3 (-1)
           (Some [(O, 1%nat)]) [5%nat; 3%nat].
Definition j0 : jstate := mkJ [1; 1; 1] [0; 0; 0; 0; 0] 3 0 [O; 1%nat; 2%nat] [O; O; O] [0; 1; 2].

Example jit_example :
  let s := jstart Zring sdJ j0 [1; 0; 1] in
  rows_okb Zring sdJ = true /\
  jocc s = [1; 0; 1] /\ jcc s = [1; 0; 1; 1; 0] /\ Nocc s = 2%nat /\ Nunocc s = 1%nat /\
  jE Zring sdJ s = 5 /\ jdeltaE Zring sdJ s 1%nat O = 2 /\
  jtransitions Zring sdJ s = [(O, (O, 1%nat), Some 4)] /\
  jocc (jMCmoves Zring sdJ s [(O, O, 3)]) = [0; 1; 1] /\ jocc (jMCmoves Zring sdJ s [(O, O, 2)]) = [1; 0; 1].
Proof. vm_compute. repeat split. Qed.

Example R_example : exists st, start Zring sdJ [1; 0; 1] = Some st /\ R Zring sdJ st (jstart Zring sdJ j0 [1; 0; 1]).
Proof.
  eexists. split; [reflexivity|]. apply R_start; [|reflexivity]. unfold WFJ. cbn. repeat split.
Qed.
