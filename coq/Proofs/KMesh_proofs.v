(* Proofs about Model/KMesh.v (C22): for every mesh (list), every class function, every ordered
   ring and EVERY function constant on the classes, the count-weighted sum over the
   representatives equals the sum over the full mesh; counts are positive and add up to the
   mesh size; the Brillouin-zone checker is sound for all reciprocal lattice vectors. *)
From Coq Require Import ZArith List Bool Arith Lia ZifyBool Ring.
From Onsager Require Import Base.OrdRing Base.Instances Model.Geom3 Model.KMesh Proofs.Geom3_proofs.
Import ListNotations.

Section Reduce.
Variables A B : Type.
Variable cls : A -> B.
Variable beqb : B -> B -> bool.
Hypothesis beqb_spec : forall a b, beqb a b = true <-> a = b.
Variable K : ordring.
Add Ring Kr : (r_ring K).
Notation "x + y" := (radd K x y). Notation "x * y" := (rmul K x y).

Lemma nK_S n : nK (K:=K) (S n) = r1 K + nK n. Proof. reflexivity. Qed.

Lemma nK_add n m : nK (K:=K) (n + m) = nK n + nK m.
Proof. induction n as [|n IH]; cbn [Nat.add nK]; [ring | rewrite IH; ring]. Qed.

(* ---- the greedy reduction ---------------------------------------------------------- *)
Section Fn.
Variable f : A -> K.
Hypothesis f_inv : forall a b, cls a = cls b -> f a = f b.

Lemma wsum_insert k acc : wsum f (insert cls beqb k acc) = wsum f acc + f k.
Proof.
  induction acc as [|[r c] t IH]; cbn [insert].
  - unfold wsum; cbn [sumf fst snd nK]. ring.
  - destruct (beqb (cls r) (cls k)) eqn:E.
    + apply beqb_spec in E. apply f_inv in E. unfold wsum; cbn [sumf fst snd nK]. rewrite E. ring.
    + unfold wsum in *; cbn [sumf fst snd]. rewrite IH. ring.
Qed.

Lemma wsum_fold mesh acc :
  wsum f (fold_left (fun acc k => insert cls beqb k acc) mesh acc) = wsum f acc + sumf f mesh.
Proof.
  revert acc. induction mesh as [|k mesh IH]; intro acc; cbn [fold_left sumf]; [ring|].
  rewrite IH, wsum_insert. ring.
Qed.

Theorem reduce_integrates mesh : wsum f (reduce cls beqb mesh) = sumf f mesh.
Proof. unfold reduce. rewrite wsum_fold. unfold wsum; cbn [sumf]. ring. Qed.
End Fn.

Lemma total_insert k acc : total (insert cls beqb k acc) = S (total acc).
Proof.
  induction acc as [|[r c] t IH]; cbn [insert total fold_right snd]; [reflexivity|].
  destruct (beqb (cls r) (cls k)); cbn [total fold_right snd]; [lia|].
  unfold total in IH. rewrite IH. lia.
Qed.

Theorem reduce_total mesh : total (reduce cls beqb mesh) = length mesh.
Proof.
  unfold reduce.
  assert (G : forall acc, total (fold_left (fun acc k => insert cls beqb k acc) mesh acc) = (total acc + length mesh)%nat).
  { induction mesh as [|k mesh IH]; intro acc; cbn [fold_left length]; [lia|]. rewrite IH, total_insert. lia. }
  rewrite G. reflexivity.
Qed.

Lemma insert_pos k acc : (forall rc, In rc acc -> 0 < snd rc) -> forall rc, In rc (insert cls beqb k acc) -> 0 < snd rc.
Proof.
  induction acc as [|[r c] t IH]; intros H rc; cbn [insert].
  - intros [E|[]]; subst; cbn; lia.
  - destruct (beqb (cls r) (cls k)).
    + intros [E|I]; [subst; cbn; lia | apply H; right; exact I].
    + intros [E|I]; [apply H; left; exact E | apply IH; [intros x Hx; apply H; right; exact Hx | exact I]].
Qed.

Theorem reduce_positive mesh : forall rc, In rc (reduce cls beqb mesh) -> 0 < snd rc.
Proof.
  unfold reduce.
  assert (G : forall acc, (forall rc, In rc acc -> 0 < snd rc) ->
                forall rc, In rc (fold_left (fun acc k => insert cls beqb k acc) mesh acc) -> 0 < snd rc).
  { induction mesh as [|k mesh IH]; intros acc H; cbn [fold_left]; [exact H|]. apply IH. apply insert_pos. exact H. }
  apply G. intros rc [].
Qed.

(* the representatives are mesh points *)
Lemma insert_reps k acc rc : In rc (insert cls beqb k acc) -> fst rc = k \/ exists rc', In rc' acc /\ fst rc' = fst rc.
Proof.
  induction acc as [|[r c] t IH]; cbn [insert].
  - intros [E|[]]; subst; left; reflexivity.
  - destruct (beqb (cls r) (cls k)).
    + intros [E|I]; right; [exists (r, c); subst; split; [left; reflexivity | reflexivity] | exists rc; split; [right; exact I | reflexivity]].
    + intros [E|I]; [right; exists (r, c); subst; split; [left; reflexivity | reflexivity]|].
      destruct (IH I) as [E|(rc' & I' & E)]; [left; exact E | right; exists rc'; split; [right; exact I' | exact E]].
Qed.

Theorem reduce_reps_in_mesh mesh : forall rc, In rc (reduce cls beqb mesh) -> In (fst rc) mesh.
Proof.
  unfold reduce.
  assert (G : forall acc rc, In rc (fold_left (fun acc k => insert cls beqb k acc) mesh acc) ->
                In (fst rc) mesh \/ exists rc', In rc' acc /\ fst rc' = fst rc).
  { induction mesh as [|k mesh IH]; intros acc rc; cbn [fold_left].
    - intro H. right. exists rc. split; [exact H | reflexivity].
    - intro H. destruct (IH _ _ H) as [I|(rc' & I & E)]; [left; right; exact I|].
      destruct (insert_reps _ _ _ I) as [E'|(rc'' & I'' & E'')].
      + left; left. congruence.
      + right. exists rc''. split; [exact I'' | congruence]. }
  intros rc H. destruct (G [] rc H) as [I|(rc' & [] & _)]. exact I.
Qed.

(* ---- any valid reduction (e.g. the implementation's) integrates exactly --------------- *)
Lemma existsb_beqb_false b l : existsb (beqb b) l = false -> forall x, In x l -> b <> x.
Proof.
  intros H x Hx E. subst x. assert (existsb (beqb b) l = true); [|congruence].
  apply existsb_exists. exists b. split; [exact Hx | apply beqb_spec; reflexivity].
Qed.

Lemma pick_unique (f : A -> K) (red : list (A * nat)) (k : A) :
  (forall a b, cls a = cls b -> f a = f b) ->
  distinctb beqb (map (fun rc => cls (fst rc)) red) = true ->
  existsb (fun rc => beqb (cls (fst rc)) (cls k)) red = true ->
  sumf (fun rc => if beqb (cls (fst rc)) (cls k) then f (fst rc) else r0 K) red = f k.
Proof.
  intros Hf. induction red as [|[r c] t IH]; cbn [map distinctb existsb sumf fst]; intros HD HE; [discriminate|].
  apply andb_true_iff in HD as [HD1 HD2].
  destruct (beqb (cls r) (cls k)) eqn:E.
  - apply beqb_spec in E.
    assert (Z : sumf (fun rc => if beqb (cls (fst rc)) (cls k) then f (fst rc) else r0 K) t = r0 K).
    { transitivity (sumf (fun _ : A * nat => r0 K) t); [|apply sumf_zero]. apply sumf_ext. intros rc Hrc.
      destruct (beqb (cls (fst rc)) (cls k)) eqn:E2; [|reflexivity].
      apply beqb_spec in E2. exfalso.
      apply negb_true_iff in HD1.
      apply (existsb_beqb_false _ _ HD1 (cls (fst rc))); [|congruence].
      apply in_map_iff. exists rc. split; [reflexivity | exact Hrc]. }
    rewrite Z, (Hf _ _ E). ring.
  - cbn [orb] in HE. rewrite (IH HD2 HE). ring.
Qed.

Lemma count_sum (b : B) (x : K) mesh :
  sumf (fun k => if beqb b (cls k) then x else r0 K) mesh = nK (count_class cls beqb b mesh) * x.
Proof.
  unfold count_class. induction mesh as [|k mesh IH]; cbn [sumf filter length nK]; [ring|].
  destruct (beqb b (cls k)); cbn [length nK]; rewrite IH; ring.
Qed.

Theorem valid_reduction_integrates (f : A -> K) mesh red :
  (forall a b, cls a = cls b -> f a = f b) ->
  valid_reductionb cls beqb mesh red = true -> wsum f red = sumf f mesh.
Proof.
  intros Hf H. unfold valid_reductionb in H.
  apply andb_true_iff in H as [H HC]. apply andb_true_iff in H as [HD HN].
  rewrite forallb_forall in HC, HN.
  transitivity (sumf (fun k => sumf (fun rc => if beqb (cls (fst rc)) (cls k) then f (fst rc) else r0 K) red) mesh).
  - rewrite sumf_swap. unfold wsum. apply sumf_ext. intros rc Hrc.
    rewrite count_sum. specialize (HN rc Hrc). apply andb_true_iff in HN as [_ HN].
    apply Nat.eqb_eq in HN. rewrite HN. reflexivity.
  - apply sumf_ext. intros k Hk. apply pick_unique; [exact Hf | exact HD | apply HC; exact Hk].
Qed.

(* merging representatives of equal class keeps the weighted sum and the total *)
Lemma wsum_absorb (f : A -> K) rc acc : (forall a b, cls a = cls b -> f a = f b) ->
  wsum f (absorb cls beqb rc acc) = wsum f acc + nK (snd rc) * f (fst rc).
Proof.
  intro Hf. induction acc as [|[r c] t IH]; cbn [absorb].
  - unfold wsum; cbn [sumf]. ring.
  - destruct (beqb (cls r) (cls (fst rc))) eqn:E.
    + apply beqb_spec in E. apply Hf in E. unfold wsum; cbn [sumf fst snd]. rewrite nK_add, E. ring.
    + unfold wsum in *; cbn [sumf fst snd]. rewrite IH. ring.
Qed.

Lemma wsum_merge (f : A -> K) red : (forall a b, cls a = cls b -> f a = f b) ->
  wsum f (merge cls beqb red) = wsum f red.
Proof.
  intro Hf. unfold merge.
  assert (G : forall acc, wsum f (fold_left (fun acc rc => absorb cls beqb rc acc) red acc) = wsum f acc + wsum f red).
  { induction red as [|rc red IH]; intro acc; cbn [fold_left].
    - unfold wsum at 3; cbn [sumf]. ring.
    - rewrite IH, (wsum_absorb f rc acc Hf). unfold wsum at 4; cbn [sumf]. unfold wsum. ring. }
  rewrite G. unfold wsum at 1; cbn [sumf]. ring.
Qed.

Theorem valid_reduction2_integrates (f : A -> K) mesh red :
  (forall a b, cls a = cls b -> f a = f b) ->
  valid_reduction2b cls beqb mesh red = true -> wsum f red = sumf f mesh.
Proof.
  intros Hf H. unfold valid_reduction2b in H. apply andb_true_iff in H as [_ H].
  rewrite <- (wsum_merge f red Hf). apply valid_reduction_integrates; assumption.
Qed.

Theorem valid_reduction2_positive mesh red : valid_reduction2b cls beqb mesh red = true ->
  forall rc, In rc red -> 0 < snd rc.
Proof.
  intros H rc Hrc. unfold valid_reduction2b in H. apply andb_true_iff in H as [H _].
  rewrite forallb_forall in H. apply Nat.ltb_lt. apply H. exact Hrc.
Qed.

Theorem valid_reduction_positive mesh red : valid_reductionb cls beqb mesh red = true ->
  forall rc, In rc red -> 0 < snd rc.
Proof.
  intros H rc Hrc. unfold valid_reductionb in H.
  apply andb_true_iff in H as [H _]. apply andb_true_iff in H as [_ HN].
  rewrite forallb_forall in HN. specialize (HN rc Hrc). apply andb_true_iff in HN as [HN _].
  apply Nat.ltb_lt. exact HN.
Qed.
End Reduce.

(* counts add up to the mesh size for any valid reduction: instance of the integration theorem at f = 1 over Z *)
Lemma wsum_one_total {A} (red : list (A * nat)) : wsum (K:=Zring) (fun _ => 1%Z) red = Z.of_nat (total red).
Proof.
  unfold wsum, total. induction red as [|[r c] t IH]; cbn [sumf fold_right fst snd]; [reflexivity|].
  rewrite IH. assert (N : forall n, nK (K:=Zring) n = Z.of_nat n).
  { induction n as [|n IHn]; cbn [nK]; [reflexivity|]. rewrite IHn. change (1 + Z.of_nat n = Z.of_nat (S n))%Z. lia. }
  rewrite N.
  change (Z.of_nat c * 1 + Z.of_nat (fold_right (fun rc s => (snd rc + s)%nat) 0%nat t) = Z.of_nat (c + fold_right (fun rc s => (snd rc + s)%nat) 0%nat t))%Z.
  lia.
Qed.

Lemma sumf_one_length {A} (l : list A) : sumf (K:=Zring) (fun _ => 1%Z) l = Z.of_nat (length l).
Proof.
  induction l as [|a l IH]; cbn [sumf length]; [reflexivity|]. rewrite IH.
  change (1 + Z.of_nat (length l) = Z.of_nat (S (length l)))%Z. lia.
Qed.

Theorem valid_reduction_total A B (cls : A -> B) beqb (beqb_spec : forall a b, beqb a b = true <-> a = b) mesh red :
  valid_reductionb cls beqb mesh red = true -> total red = length mesh.
Proof.
  intro H. pose proof (valid_reduction_integrates A B cls beqb beqb_spec Zring (fun _ => 1%Z) mesh red (fun _ _ _ => eq_refl) H) as E.
  rewrite wsum_one_total, sumf_one_length in E. lia.
Qed.

Theorem valid_reduction2_total A B (cls : A -> B) beqb (beqb_spec : forall a b, beqb a b = true <-> a = b) mesh red :
  valid_reduction2b cls beqb mesh red = true -> total red = length mesh.
Proof.
  intro H. pose proof (valid_reduction2_integrates A B cls beqb beqb_spec Zring (fun _ => 1%Z) mesh red (fun _ _ _ => eq_refl) H) as E.
  rewrite wsum_one_total, sumf_one_length in E. lia.
Qed.

(* weights: for any  wt  with  wt c * N = c  (i.e. wt c = c/N),  N * (weighted sum) = full-mesh sum,
   and N * (sum of weights) = N:  the weighted sum is the full-mesh mean and the weights sum to one *)
Theorem reduction_mean A B (cls : A -> B) beqb (beqb_spec : forall a b, beqb a b = true <-> a = b)
        (K : ordring) (f : A -> K) (wt : nat -> K) mesh red :
  (forall a b, cls a = cls b -> f a = f b) ->
  valid_reductionb cls beqb mesh red = true ->
  (forall c, rmul K (wt c) (nK (length mesh)) = nK c) ->
  rmul K (nK (length mesh)) (sumf (fun rc => rmul K (wt (snd rc)) (f (fst rc))) red) = sumf f mesh.
Proof.
  intros Hf H Hw. rewrite <- (valid_reduction_integrates A B cls beqb beqb_spec K f mesh red Hf H).
  unfold wsum. rewrite <- sumf_scal. apply sumf_ext. intros rc _.
  rewrite <- (Hw (snd rc)). pose proof (r_ring K) as R. set (x := wt (snd rc)). set (y := nK (length mesh)). set (z := f (fst rc)).
  rewrite (Rmul_assoc R), (Rmul_comm R y x). reflexivity.
Qed.

(* ---- Brillouin zone ------------------------------------------------------------------- *)
Local Open Scope Z_scope.

Lemma bil_zero_r Q n : bil Q n vzero = 0.
Proof. destruct n as [[a b] c]. unfold bil, gmul, dot3, vzero, vx, vy, vz; cbn [fst snd]. ring. Qed.

Lemma qf_zero Q : qf Q vzero = 0.
Proof. unfold qf. apply bil_zero_r. Qed.

Lemma vadd_scale1 h : vadd (vscale 1 h) vzero = h.
Proof. destruct h as [[a b] c]. unfold vadd, vscale, vzero, vx, vy, vz; cbn [fst snd]. f_equal; [f_equal|]; ring. Qed.

Theorem inBZb_sound Q L c2 hmax n : inBZb Q L c2 hmax n = true ->
  forall h : V3, 2 * bil Q n h <= L * qf Q h.
Proof.
  unfold inBZb. intros H h.
  apply andb_true_iff in H as [H HB]. apply andb_true_iff in H as [H HR].
  apply andb_true_iff in H as [H HC]. apply andb_true_iff in H as [HP HL].
  apply Z.ltb_lt in HL. apply Z.leb_le in HC.
  destruct (in_dec V3_eq_dec h (box hmax)) as [I|I].
  - rewrite forallb_forall in HB. specialize (HB h I). unfold bz_ineqb in HB. apply Z.leb_le in HB. exact HB.
  - (* h outside the certified box: |h|^2 >= c2 >= 4|n|^2/L^2, conclude by Cauchy-Schwarz *)
    assert (Q2 : c2 <= qf Q h).
    { destruct (Z_lt_le_dec (qf Q h) c2) as [Lt|Ge]; [|exact Ge]. exfalso. apply I.
      apply (range_ok_sound Q 1 c2 hmax vzero h vzero HP HR); [reflexivity|]. rewrite vadd_scale1. exact Lt. }
    pose proof (cs_generic Q h n HP) as CS.
    pose proof (posdef_nonneg Q h HP) as Ph. pose proof (posdef_nonneg Q n HP) as Pn.
    set (b := bil Q n h) in *. set (qh := qf Q h) in *. set (qn := qf Q n) in *.
    assert (S1 : (2 * b) * (2 * b) <= (L * qh) * (L * qh)).
    { rewrite Z.pow_2_r in CS.
      assert (A1 : 4 * (b * b) <= 4 * (qn * qh)) by lia.
      assert (A2 : 4 * qn * qh <= L * L * c2 * qh) by (apply Z.mul_le_mono_nonneg_r; lia).
      assert (P0 : 0 <= L * L * qh) by (apply Z.mul_nonneg_nonneg; [apply Z.square_nonneg | exact Ph]).
      assert (A3 : L * L * qh * c2 <= L * L * qh * qh) by (apply Z.mul_le_mono_nonneg_l; assumption).
      replace (2 * b * (2 * b)) with (4 * (b * b)) by ring.
      replace (L * qh * (L * qh)) with (L * L * qh * qh) by ring.
      replace (L * L * c2 * qh) with (L * L * qh * c2) in A2 by ring. lia. }
    assert (P1 : 0 <= L * qh) by (apply Z.mul_nonneg_nonneg; lia).
    destruct (Z_le_gt_dec (2 * b) (L * qh)) as [Le|Gt]; [exact Le|]. exfalso.
    assert (L * qh * (L * qh) < 2 * b * (2 * b)) by (apply Z.mul_lt_mono_nonneg; lia). lia.
Qed.

(* ---- soundness of the correspondence decision ------------------------------------------ *)
Lemma first_false_none {A} (p : A -> bool) l i : first_false p l i = None -> forall a, In a l -> p a = true.
Proof.
  revert i. induction l as [|x l IH]; intros i H a Ha; [destruct Ha|]. cbn [first_false] in H.
  destruct (p x) eqn:E; [|discriminate]. destruct Ha as [Ea|Ha]; [subst; exact E | eapply IH; eauto].
Qed.

Theorem check_mesh_sound k : fst (check_mesh k) = 0%nat ->
  (* every point of the full and of the reduced mesh lies in the closed first Brillouin zone *)
  (forall n, In n (m_full k) \/ In n (map fst (m_red k)) -> forall h : V3, 2 * bil (m_Q k) n h <= m_L k * qf (m_Q k) h) /\
  (* the counts are positive and add up to the size of the full mesh *)
  (forall rc, In rc (m_red k) -> (0 < snd rc)%nat) /\ total (m_red k) = length (m_full k) /\
  (* for EVERY ordered ring and EVERY function constant on the orbits of the operations the
     count-weighted sum over the reduced mesh equals the sum over the full mesh *)
  (forall (K : ordring) (f : V3 -> K),
      (forall a b, cls_min (m_ops k) a = cls_min (m_ops k) b -> f a = f b) ->
      wsum f (m_red k) = sumf f (m_full k)).
Proof.
  unfold check_mesh.
  destruct (negb (posdefb (m_Q k) && forallb (fun T => isometryb T (m_Q k)) (m_ops k))); [cbn; discriminate|].
  destruct (first_false (inBZb (m_Q k) (m_L k) (m_c2 k) (m_hmax k)) (m_full k) 0) eqn:E1; [cbn; discriminate|].
  destruct (first_false (fun rc => inBZb (m_Q k) (m_L k) (m_c2 k) (m_hmax k) (fst rc)) (m_red k) 0) eqn:E2; [cbn; discriminate|].
  destruct (valid_reduction2b (cls_min (m_ops k)) veqb (m_full k) (m_red k)) eqn:E3; [|cbn; discriminate].
  intros _. split; [|split; [|split]].
  - intros n [Hn|Hn] h.
    + apply (inBZb_sound _ _ _ _ _ (first_false_none _ _ _ E1 n Hn)).
    + apply in_map_iff in Hn as (rc & E & Hrc). subst n.
      apply (inBZb_sound _ _ _ _ _ (first_false_none _ _ _ E2 rc Hrc)).
  - apply (valid_reduction2_positive V3 V3 (cls_min (m_ops k)) veqb (m_full k) (m_red k) E3).
  - apply (valid_reduction2_total V3 V3 (cls_min (m_ops k)) veqb veqb_eq (m_full k) (m_red k) E3).
  - intros K f Hf. apply (valid_reduction2_integrates V3 V3 (cls_min (m_ops k)) veqb veqb_eq K f (m_full k) (m_red k) Hf E3).
Qed.

(* orbit-invariant functions are constant on the classes of cls_min when the operations are closed
   under composition up to the listed set: stated for the use made of it -- a function invariant under every listed
   operation takes the same value at n and at every image T n *)
Lemma vmin_cases a b : vmin a b = a \/ vmin a b = b.
Proof. unfold vmin. destruct (vltb b a); [right | left]; reflexivity. Qed.

Lemma fold_vmin_in n (all : list M3) : forall opsl m0,
  (m0 = n \/ exists T, In T all /\ m0 = mulmv T n) -> incl opsl all ->
  let r := fold_left (fun m T => vmin m (mulmv T n)) opsl m0 in
  r = n \/ exists T, In T all /\ r = mulmv T n.
Proof.
  induction opsl as [|U opsl IH]; intros m0 H0 Hin; cbn [fold_left]; [exact H0|].
  apply IH; [|intros x Hx; apply Hin; right; exact Hx].
  destruct (vmin_cases m0 (mulmv U n)) as [E|E]; rewrite E; [exact H0|].
  right. exists U. split; [apply Hin; left; reflexivity | reflexivity].
Qed.

(* the class representative is a member of the orbit *)
Theorem cls_min_in_orbit ops n : cls_min ops n = n \/ exists T, In T ops /\ cls_min ops n = mulmv T n.
Proof. unfold cls_min. apply (fold_vmin_in n ops ops n); [left; reflexivity | apply incl_refl]. Qed.

(* ---- non-vacuity: 4x4 mesh of the square lattice under its point group D4 ------------- *)
Example sqQ : metric := mkMetric 1 1 16 0 0 0.
Example d4 : list M3 :=
  [((1,0,0),(0,1,0),(0,0,1)); ((0,-1,0),(1,0,0),(0,0,1)); ((-1,0,0),(0,-1,0),(0,0,1)); ((0,1,0),(-1,0,0),(0,0,1));
   ((1,0,0),(0,-1,0),(0,0,1)); ((-1,0,0),(0,1,0),(0,0,1)); ((0,1,0),(1,0,0),(0,0,1)); ((0,-1,0),(-1,0,0),(0,0,1))].
Example mesh44 : list V3 := map (fun p => (fst p, snd p, 0)) (list_prod [2; 1; 0; -1] [2; 1; 0; -1]).
Example mesh44_reduced :
  map snd (reduce (cls_min d4) veqb mesh44) = [1; 4; 2; 4; 4; 1]%nat.
Proof. vm_compute. reflexivity. Qed.
Example mesh44_case : meshcase := mkMesh sqQ 4 2 (1, 1, 0) d4 mesh44 (reduce (cls_min d4) veqb mesh44).
Example mesh44_ok : check_mesh mesh44_case = (0%nat, 6%nat). Proof. vm_compute. reflexivity. Qed.
Example outside_BZ : inBZb sqQ 4 2 (1, 1, 0) (3, 0, 0) = false. Proof. vm_compute. reflexivity. Qed.
