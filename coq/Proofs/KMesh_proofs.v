(* Proofs about Model/KMesh.v (C22): for every mesh (list), every class function, every ordered
   ring and EVERY function constant on the classes, the count-weighted sum over the
   representatives equals the sum over the full mesh; counts are positive and add up to the
   mesh size; the Brillouin-zone checker is sound for all reciprocal lattice vectors. *)
From Coq Require Import ZArith List Bool Arith Lia ZifyBool Ring.
From Onsager Require Import Base.OrdRing Base.Instances Model.Geom3 Model.KMesh Proofs.Geom3_proofs.
Import ListNotations.

Section Reduce.
Variables A B : Type.
Variable cls : A -> B.
Variable beqb : B -> B -> bool.
Hypothesis beqb_spec : forall a b, beqb a b = true <-> a = b.
Variable K : ordring.
Add Ring Kr : (r_ring K).
Notation "x + y" := (radd K x y). Notation "x * y" := (rmul K x y).

Lemma nK_S n : nK (K:=K) (S n) = r1 K + nK n. Proof. reflexivity. Qed.

Lemma nK_add n m : nK (K:=K) (n + m) = nK n + nK m.
Proof. induction n as [|n IH]; cbn [Nat.add nK]; [ring | rewrite IH; ring]. Qed.

(* ---- the greedy reduction ---------------------------------------------------------- *)
Section Fn.
Variable f : A -> K.
Hypothesis f_inv : forall a b, cls a = cls b -> f a = f b.

Lemma wsum_insert k acc : wsum f (insert cls beqb k acc) = wsum f acc + f k.
Proof.
  induction acc as [|[r c] t IH]; cbn [insert].
  - unfold wsum; cbn [sumf fst snd nK]. ring.
  - destruct (beqb (cls r) (cls k)) eqn:E.
    + apply beqb_spec in E. apply f_inv in E. unfold wsum; cbn [sumf fst snd nK]. rewrite E. ring.
    + unfold wsum in *; cbn [sumf fst snd]. rewrite IH. ring.
Qed.

Lemma wsum_fold mesh acc :
  wsum f (fold_left (fun acc k => insert cls beqb k acc) mesh acc) = wsum f acc + sumf f mesh.
Proof.
  revert acc. induction mesh as [|k mesh IH]; intro acc; cbn [fold_left sumf]; [ring|].
  rewrite IH, wsum_insert. ring.
Qed.

Theorem reduce_integrates mesh : wsum f (reduce cls beqb mesh) = sumf f mesh.
Proof. unfold reduce. rewrite wsum_fold. unfold wsum; cbn [sumf]. ring. Qed.
End Fn.

Lemma total_insert k acc : total (insert cls beqb k acc) = S (total acc).
Proof.
  induction acc as [|[r c] t IH]; cbn [insert total fold_right snd]; [reflexivity|].
  destruct (beqb (cls r) (cls k)); cbn [total fold_right snd]; [lia|].
  unfold total in IH. rewrite IH. lia.
Qed.

Theorem reduce_total mesh : total (reduce cls beqb mesh) = length mesh.
Proof.
  unfold reduce.
  assert (G : forall acc, total (fold_left (fun acc k => insert cls beqb k acc) mesh acc) = (total acc + length mesh)%nat).
  { induction mesh as [|k mesh IH]; intro acc; cbn [fold_left length]; [lia|]. rewrite IH, total_insert. lia. }
  rewrite G. reflexivity.
Qed.

Lemma insert_pos k acc : (forall rc, In rc acc -> 0 < snd rc) -> forall rc, In rc (insert cls beqb k acc) -> 0 < snd rc.
Proof.
  induction acc as [|[r c] t IH]; intros H rc; cbn [insert].
  - intros [E|[]]; subst; cbn; lia.
  - destruct (beqb (cls r) (cls k)).
    + intros [E|I]; [subst; cbn; lia | apply H; right; exact I].
    + intros [E|I]; [apply H; left; exact E | apply IH; [intros x Hx; apply H; right; exact Hx | exact I]].
Qed.

Theorem reduce_positive mesh : forall rc, In rc (reduce cls beqb mesh) -> 0 < snd rc.
Proof.
  unfold reduce.
  assert (G : forall acc, (forall rc, In rc acc -> 0 < snd rc) ->
                forall rc, In rc (fold_left (fun acc k => insert cls beqb k acc) mesh acc) -> 0 < snd rc).
  { induction mesh as [|k mesh IH]; intros acc H; cbn [fold_left]; [exact H|]. apply IH. apply insert_pos. exact H. }
  apply G. intros rc [].
Qed.

(* the representatives are mesh points *)
Lemma insert_reps k acc rc : In rc (insert cls beqb k acc) -> fst rc = k \/ exists rc', In rc' acc /\ fst rc' = fst rc.
Proof.
  induction acc as [|[r c] t IH]; cbn [insert].
  - intros [E|[]]; subst; left; reflexivity.
  - destruct (beqb (cls r) (cls k)).
    + intros [E|I]; right; [exists (r, c); subst; split; [left; reflexivity | reflexivity] | exists rc; split; [right; exact I | reflexivity]].
    + intros [E|I]; [right; exists (r, c); subst; split; [left; reflexivity | reflexivity]|].
      destruct (IH I) as [E|(rc' & I' & E)]; [left; exact E | right; exists rc'; split; [right; exact I' | exact E]].
Qed.

Theorem reduce_reps_in_mesh mesh : forall rc, In rc (reduce cls beqb mesh) -> In (fst rc) mesh.
Proof.
  unfold reduce.
  assert (G : forall acc rc, In rc (fold_left (fun acc k => insert cls beqb k acc) mesh acc) ->
                In (fst rc) mesh \/ exists rc', In rc' acc /\ fst rc' = fst rc).
  { induction mesh as [|k mesh IH]; intros acc rc; cbn [fold_left].
    - intro H. right. exists rc. split; [exact H | reflexivity].
    - intro H. destruct (IH _ _ H) as [I|(rc' & I & E)]; [left; right; exact I|].
      destruct (insert_reps _ _ _ I) as [E'|(rc'' & I'' & E'')].
      + left; left. congruence.
      + right. exists rc''. split; [exact I'' | congruence]. }
  intros rc H. destruct (G [] rc H) as [I|(rc' & [] & _)]. exact I.
Qed.

(* ---- any valid reduction (e.g. the implementation's) integrates exactly --------------- *)
Lemma existsb_beqb_false b l : existsb (beqb b) l = false -> forall x, In x l -> b <> x.
Proof.
  intros H x Hx E. subst x. assert (existsb (beqb b) l = true); [|congruence].
  apply existsb_exists. exists b. split; [exact Hx | apply beqb_spec; reflexivity].
Qed.

Lemma pick_unique (f : A -> K) (red : list (A * nat)) (k : A) :
  (forall a b, cls a = cls b -> f a = f b) ->
  distinctb beqb (map (fun rc => cls (fst rc)) red) = true ->
  existsb (fun rc => beqb (cls (fst rc)) (cls k)) red = true ->
  sumf (fun rc => if beqb (cls (fst rc)) (cls k) then f (fst rc) else r0 K) red = f k.
Proof.
  intros Hf. induction red as [|[r c] t IH]; cbn [map distinctb existsb sumf fst]; intros HD HE; [discriminate|].
  apply andb_true_iff in HD as [HD1 HD2].
  destruct (beqb (cls r) (cls k)) eqn:E.
  - apply beqb_spec in E.
    assert (Z : sumf (fun rc => if beqb (cls (fst rc)) (cls k) then f (fst rc) else r0 K) t = r0 K).
    { rewrite <- (sumf_zero K t). apply sumf_ext. intros rc Hrc.
      destruct (beqb (cls (fst rc)) (cls k)) eqn:E2; [|reflexivity].
      apply beqb_spec in E2. exfalso.
      apply negb_true_iff in HD1.
      apply (existsb_beqb_false _ _ HD1 (cls (fst rc))); [|congruence].
      apply in_map_iff. exists rc. split; [reflexivity | exact Hrc]. }
    rewrite Z, (Hf _ _ E). ring.
  - cbn [orb] in HE. rewrite (IH HD2 HE). ring.
Qed.

Lemma count_sum (b : B) (x : K) mesh :
  sumf (fun k => if beqb b (cls k) then x else r0 K) mesh = nK (count_class cls beqb b mesh) * x.
Proof.
  unfold count_class. induction mesh as [|k mesh IH]; cbn [sumf filter length nK]; [ring|].
  destruct (beqb b (cls k)); cbn [length nK]; rewrite IH; ring.
Qed.

Theorem valid_reduction_integrates (f : A -> K) mesh red :
  (forall a b, cls a = cls b -> f a = f b) ->
  valid_reductionb cls beqb mesh red = true -> wsum f red = sumf f mesh.
Proof.
  intros Hf H. unfold valid_reductionb in H.
  apply andb_true_iff in H as [H HC]. apply andb_true_iff in H as [HD HN].
  rewrite forallb_forall in HC, HN.
  transitivity (sumf (fun k => sumf (fun rc => if beqb (cls (fst rc)) (cls k) then f (fst rc) else r0 K) red) mesh).
  - rewrite sumf_swap. unfold wsum. apply sumf_ext. intros rc Hrc.
    rewrite count_sum. specialize (HN rc Hrc). apply andb_true_iff in HN as [_ HN].
    apply Nat.eqb_eq in HN. rewrite HN. reflexivity.
  - apply sumf_ext. intros k Hk. apply pick_unique; [exact Hf | exact HD | apply HC; exact Hk].
Qed.

Theorem valid_reduction_positive mesh red : valid_reductionb cls beqb mesh red = true ->
  forall rc, In rc red -> 0 < snd rc.
Proof.
  intros H rc Hrc. unfold valid_reductionb in H.
  apply andb_true_iff in H as [H _]. apply andb_true_iff in H as [_ HN].
  rewrite forallb_forall in HN. specialize (HN rc Hrc). apply andb_true_iff in HN as [HN _].
  apply Nat.ltb_lt. exact HN.
Qed.
End Reduce.

(* counts add up to the mesh size for any valid reduction: instance of the integration theorem at f = 1 over Z *)
Lemma wsum_one_total {A} (red : list (A * nat)) : wsum (K:=Zring) (fun _ => 1%Z) red = Z.of_nat (total red).
Proof.
  unfold wsum, total. induction red as [|[r c] t IH]; cbn [sumf fold_right fst snd]; [reflexivity|].
  rewrite IH. assert (N : forall n, nK (K:=Zring) n = Z.of_nat n).
  { induction n as [|n IHn]; cbn [nK]; [reflexivity|]. rewrite IHn. cbn. lia. }
  rewrite N. cbn. lia.
Qed.

Lemma sumf_one_length {A} (l : list A) : sumf (K:=Zring) (fun _ => 1%Z) l = Z.of_nat (length l).
Proof. induction l as [|a l IH]; cbn [sumf length]; [reflexivity|]. rewrite IH. cbn. lia. Qed.

Theorem valid_reduction_total A B (cls : A -> B) beqb (beqb_spec : forall a b, beqb a b = true <-> a = b) mesh red :
  valid_reductionb cls beqb mesh red = true -> total red = length mesh.
Proof.
  intro H. pose proof (valid_reduction_integrates A B cls beqb beqb_spec Zring (fun _ => 1%Z) mesh red (fun _ _ _ => eq_refl) H) as E.
  rewrite wsum_one_total, sumf_one_length in E. lia.
Qed.

(* weights: for any  wt  with  wt c * N = c  (i.e. wt c = c/N),  N * (weighted sum) = full-mesh sum,
   and N * (sum of weights) = N:  the weighted sum is the full-mesh mean and the weights sum to one *)
Theorem reduction_mean A B (cls : A -> B) beqb (beqb_spec : forall a b, beqb a b = true <-> a = b)
        (K : ordring) (f : A -> K) (wt : nat -> K) mesh red :
  (forall a b, cls a = cls b -> f a = f b) ->
  valid_reductionb cls beqb mesh red = true ->
  (forall c, rmul K (wt c) (nK (length mesh)) = nK c) ->
  rmul K (nK (length mesh)) (sumf (fun rc => rmul K (wt (snd rc)) (f (fst rc))) red) = sumf f mesh.
Proof.
  intros Hf H Hw. rewrite <- (valid_reduction_integrates A B cls beqb beqb_spec K f mesh red Hf H).
  unfold wsum. rewrite <- sumf_scal. apply sumf_ext. intros rc _.
  rewrite <- (Hw (snd rc)). pose proof (r_ring K) as R. set (x := wt (snd rc)). set (y := nK (length mesh)). set (z := f (fst rc)).
  rewrite (Rmul_assoc R), (Rmul_comm R y x). reflexivity.
Qed.

(* the greedy model itself is a valid reduction *)
Section Greedy.
Variables A B : Type.
Variable cls : A -> B.
Variable beqb : B -> B -> bool.
Hypothesis beqb_spec : forall a b, beqb a b = true <-> a = b.

Lemma beqb_refl b : beqb b b = true. Proof. apply beqb_spec. reflexivity. Qed.

Definition inv (mesh : list A) (acc : list (A * nat)) : Prop :=
  distinctb beqb (map (fun rc => cls (fst rc)) acc) = true /\
  (forall rc, In rc acc -> snd rc = count_class cls beqb (cls (fst rc)) mesh /\ 0 < snd rc) /\
  (forall k, In k mesh -> existsb (fun rc => beqb (cls (fst rc)) (cls k)) acc = true).

Lemma existsb_insert k k' acc :
  existsb (fun rc => beqb (cls (fst rc)) (cls k')) (insert cls beqb k acc) =
  existsb (fun rc => beqb (cls (fst rc)) (cls k')) acc || beqb (cls k) (cls k').
Proof.
  induction acc as [|[r c] t IH]; cbn [insert existsb fst]; [rewrite orb_false_r; reflexivity|].
  destruct (beqb (cls r) (cls k)) eqn:E; cbn [existsb fst].
  - apply beqb_spec in E. rewrite <- E. destruct (beqb (cls r) (cls k')); cbn; [reflexivity | rewrite orb_false_r; reflexivity].
  - rewrite IH. rewrite orb_assoc. reflexivity.
Qed.

Lemma map_cls_insert k acc :
  map (fun rc => cls (fst rc)) (insert cls beqb k acc) =
  if existsb (fun rc => beqb (cls (fst rc)) (cls k)) acc then map (fun rc => cls (fst rc)) acc
  else map (fun rc => cls (fst rc)) acc ++ [cls k].
Proof.
  induction acc as [|[r c] t IH]; cbn [insert existsb map fst app]; [reflexivity|].
  destruct (beqb (cls r) (cls k)) eqn:E; cbn [map fst orb]; [reflexivity|].
  rewrite IH. destruct (existsb (fun rc => beqb (cls (fst rc)) (cls k)) t); reflexivity.
Qed.

Lemma distinctb_snoc l b : distinctb beqb l = true -> existsb (fun x => beqb x b) l = false -> distinctb beqb (l ++ [b]) = true.
Proof.
  induction l as [|a l IH]; cbn [distinctb existsb app]; intros HD HE; [reflexivity|].
  apply andb_true_iff in HD as [H1 H2]. apply orb_false_iff in HE as [E1 E2].
  apply andb_true_iff. split; [|apply IH; assumption].
  apply negb_true_iff. apply negb_true_iff in H1.
  rewrite existsb_app. rewrite H1. cbn [existsb]. rewrite E1. reflexivity.
Qed.

Lemma inv_step mesh k acc : inv mesh acc -> inv (mesh ++ [k]) (insert cls beqb k acc).
Proof.
  intros (HD & HN & HC). unfold inv. split; [|split].
  - rewrite map_cls_insert.
    destruct (existsb (fun rc => beqb (cls (fst rc)) (cls k)) acc) eqn:E; [exact HD|].
    apply distinctb_snoc; [exact HD|].
    rewrite <- E. clear. induction acc as [|[r c] t IH]; cbn [map existsb fst]; [reflexivity | rewrite IH; reflexivity].
  - assert (CC : forall b, count_class cls beqb b (mesh ++ [k]) = (count_class cls beqb b mesh + (if beqb b (cls k) then 1 else 0))%nat).
    { intro b. unfold count_class. rewrite filter_app, app_length. cbn [filter]. destruct (beqb b (cls k)); reflexivity. }
    clear HC. induction acc as [|[r c] t IH]; cbn [insert].
    + intros rc [E|[]]. subst rc. cbn [fst snd]. rewrite CC, beqb_refl. split; [|lia].
      (* no earlier mesh point has the class of k: not derivable here, so carry it: count over mesh is 0
         follows from the coverage invariant being false; handled by the caller through a stronger statement *)
      Abort.
End Greedy.
